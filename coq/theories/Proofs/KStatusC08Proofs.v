(* Lemmas for C08: each per-kind rule function of Model/KStatus.v equals the
   declarative description of Model/KStatusSpec.v; no-lag consequences; the
   kubectl rollout implication. *)
From Coq Require Import List Bool ZArith String Lia.
From CliUtils Require Import Base.Json Model.KStatus Model.KStatusSpec Model.KubectlRollout
     Proofs.KStatusProofs Proofs.KStatusC07Proofs.
Import ListNotations.
Local Open Scope string_scope.

(* ---- general ------------------------------------------------------------- *)
Lemma kind_rule_decides : forall j w k,
  is_kind j k -> no_generic j -> compute j w = legacy_fn k j w.
Proof. intros j w k Hk Hn. unfold compute. rewrite Hn, Hk. reflexivity. Qed.

Lemma no_generic_conds : forall j, no_generic j -> exists cs, get_object_with_conditions j = Some cs.
Proof. intros j H. destruct (no_generic_inv j H) as [_ [_ [cs [Hc _]]]]. eauto. Qed.

Lemma outcome_of_current : forall s, outcome_of s = Ok Current [] <-> s = Current.
Proof. intros s. destruct s; simpl; split; intros H; try discriminate; reflexivity. Qed.
Lemma outcome_of_failed : forall s, outcome_of s = Ok Failed [("Stalled", "True")] <-> s = Failed.
Proof. intros s. destruct s; simpl; split; intros H; try discriminate; reflexivity. Qed.
Lemma outcome_of_in_progress : forall s, outcome_of s = Ok InProgress [("Reconciling", "True")] <-> s = InProgress.
Proof. intros s. destruct s; simpl; split; intros H; try discriminate; reflexivity. Qed.

Lemma gtb_leb : forall a b, (a >? b)%Z = negb (a <=? b)%Z.
Proof. intros a b. rewrite Z.gtb_ltb, Z.ltb_antisym. reflexivity. Qed.
Lemma ltb_leb : forall a b, (a <? b)%Z = negb (b <=? a)%Z.
Proof. intros a b. apply Z.ltb_antisym. Qed.

Lemma has_cond_reading : forall cs ty st,
  has_cond cs ty st = true <-> exists c, In c cs /\ c_type c = ty /\ c_status c = st.
Proof.
  intros cs ty st. unfold has_cond. rewrite existsb_exists. split.
  - intros [c [Hin H]]. unfold is_cond in H. apply andb_true_iff in H. destruct H as [H1 H2].
    apply String.eqb_eq in H1. apply String.eqb_eq in H2. eauto.
  - intros [c [Hin [H1 H2]]]. exists c. split; [exact Hin|]. unfold is_cond.
    rewrite H1, H2, !String.eqb_refl. reflexivity.
Qed.

Lemma get_cond_find : forall cs ty st, get_cond_with_status cs ty st = find (is_cond ty st) cs.
Proof. induction cs as [|c t IH]; intros ty st; simpl; [reflexivity|]. unfold is_cond at 1. rewrite IH. reflexivity. Qed.

Lemma has_cond_with_status_spec : forall cs ty st, has_cond_with_status cs ty st = has_cond cs ty st.
Proof.
  intros cs ty st. unfold has_cond_with_status, has_cond. rewrite get_cond_find.
  induction cs as [|c t IH]; simpl; [reflexivity|].
  destruct (is_cond ty st c); simpl; [reflexivity|exact IH].
Qed.

Lemma typed_int_found : forall j p z, nested_int64 j p = Found z -> typed_int j p = z.
Proof.
  intros j p z. unfold nested_int64, typed_int, get_int_field.
  destruct (nested_field j p) as [v| |]; try discriminate. destruct v; try discriminate.
  intros H. injection H as H. exact H.
Qed.

Lemma typed_ptr_field : forall j p r d, typed_ptr j p = Some r -> get_int_field j p d = r.
Proof.
  intros j p r d. unfold typed_ptr, get_int_field.
  destruct (nested_field j p) as [v| |]; try discriminate. destruct v; try discriminate.
  intros H. injection H as H. exact H.
Qed.

(* ---- Deployment ---------------------------------------------------------- *)
Definition nrsa (c : bcond) : bool :=
  (c_type c =? "Progressing") && (c_status c =? "True") && (c_reason c =? "NewReplicaSetAvailable").

Lemma deadline_exceeded_cons : forall c t,
  deadline_exceeded (c :: t) =
  ((c_type c =? "Progressing") && (c_reason c =? "ProgressDeadlineExceeded")) || deadline_exceeded t.
Proof. reflexivity. Qed.

Lemma deploy_loop_spec : forall cs p a,
  deploy_loop cs p a =
  if deadline_exceeded cs then None
  else Some (p || existsb nrsa cs, a || existsb (is_cond "Available" "True") cs).
Proof.
  induction cs as [|c t IH]; intros p a.
  - simpl. rewrite !orb_false_r. reflexivity.
  - rewrite deadline_exceeded_cons. cbn [deploy_loop existsb]. unfold nrsa at 1, is_cond at 1.
    destruct (c_type c =? "Progressing") eqn:EP.
    + apply String.eqb_eq in EP. rewrite EP. cbn [String.eqb Ascii.eqb Bool.eqb andb].
      destruct (c_reason c =? "ProgressDeadlineExceeded"); [reflexivity|].
      rewrite IH. cbn [orb].
      destruct (deadline_exceeded t); [reflexivity|].
      destruct ((c_status c =? "True") && (c_reason c =? "NewReplicaSetAvailable")), p; reflexivity.
    + cbn [andb orb]. destruct (c_type c =? "Available") eqn:EA.
      * rewrite IH. destruct (deadline_exceeded t); [reflexivity|].
        cbn [andb]. destruct (c_status c =? "True"), a; reflexivity.
      * rewrite IH. reflexivity.
Qed.

Lemma deployment_spec : forall j cs,
  get_object_with_conditions j = Some cs ->
  deployment_conditions j = outcome_of (deploy_expected (deploy_fields j) cs).
Proof.
  intros j cs Hc. unfold deployment_conditions, deploy_expected, deploy_complete, progressing_ok,
    has_cond, deploy_fields. cbn [d_spec d_status d_updated d_ready d_available d_deadline].
  rewrite Hc, deploy_loop_spec.
  destruct (deadline_exceeded cs); [reflexivity|].
  fold nrsa. rewrite !gtb_leb.
  destruct (get_int_field j ["spec"; "progressDeadlineSeconds"] max_int32 =? max_int32)%Z;
  destruct (existsb nrsa cs); destruct (existsb (is_cond "Available" "True") cs);
  destruct (get_int_field j ["spec"; "replicas"] 1 <=? get_int_field j ["status"; "replicas"] 0)%Z;
  destruct (get_int_field j ["spec"; "replicas"] 1 <=? get_int_field j ["status"; "updatedReplicas"] 0)%Z;
  destruct (get_int_field j ["status"; "replicas"] 0 <=? get_int_field j ["spec"; "replicas"] 1)%Z;
  destruct (get_int_field j ["status"; "updatedReplicas"] 0 <=? get_int_field j ["status"; "availableReplicas"] 0)%Z;
  destruct (get_int_field j ["spec"; "replicas"] 1 <=? get_int_field j ["status"; "readyReplicas"] 0)%Z;
  reflexivity.
Qed.

Lemma deploy_compute : forall j w cs,
  is_kind j LDeployment -> no_generic j -> get_object_with_conditions j = Some cs ->
  compute j w = outcome_of (deploy_expected (deploy_fields j) cs).
Proof.
  intros j w cs Hk Hn Hc. rewrite (kind_rule_decides j w LDeployment Hk Hn). simpl.
  apply deployment_spec. exact Hc.
Qed.

Lemma deploy_expected_current : forall f cs,
  deploy_expected f cs = Current <-> deadline_exceeded cs = false /\ deploy_complete f cs = true.
Proof.
  intros f cs. unfold deploy_expected.
  destruct (deadline_exceeded cs); [split; [discriminate|intros [H _]; discriminate]|].
  destruct (deploy_complete f cs); split; try discriminate; auto. intros [_ H]. discriminate.
Qed.
Lemma deploy_expected_failed : forall f cs, deploy_expected f cs = Failed <-> deadline_exceeded cs = true.
Proof.
  intros f cs. unfold deploy_expected.
  destruct (deadline_exceeded cs); [split; reflexivity|].
  destruct (deploy_complete f cs); split; discriminate.
Qed.

Lemma deploy_complete_reading : forall f cs,
  deploy_complete f cs = true <->
  (d_spec f <= d_status f /\ d_spec f <= d_updated f /\ d_status f <= d_spec f /\
   d_updated f <= d_available f /\ d_spec f <= d_ready f)%Z /\
  progressing_ok f cs = true /\ has_cond cs "Available" "True" = true.
Proof.
  intros f cs. unfold deploy_complete. rewrite !andb_true_iff, !Z.leb_le. tauto.
Qed.

Lemma deadline_exceeded_reading : forall cs,
  deadline_exceeded cs = true <->
  exists c, In c cs /\ c_type c = "Progressing" /\ c_reason c = "ProgressDeadlineExceeded".
Proof.
  intros cs. unfold deadline_exceeded. rewrite existsb_exists. split.
  - intros [c [Hin H]]. apply andb_true_iff in H. destruct H as [H1 H2].
    apply String.eqb_eq in H1. apply String.eqb_eq in H2. eauto.
  - intros [c [Hin [H1 H2]]]. exists c. split; [exact Hin|]. rewrite H1, H2. reflexivity.
Qed.

Lemma deploy_current_iff : forall j w cs,
  is_kind j LDeployment -> no_generic j -> get_object_with_conditions j = Some cs ->
  (compute j w = Ok Current [] <->
   deadline_exceeded cs = false /\ deploy_complete (deploy_fields j) cs = true).
Proof.
  intros j w cs Hk Hn Hc. rewrite (deploy_compute j w cs Hk Hn Hc), outcome_of_current.
  apply deploy_expected_current.
Qed.
Lemma deploy_failed_iff : forall j w cs,
  is_kind j LDeployment -> no_generic j -> get_object_with_conditions j = Some cs ->
  (compute j w = Ok Failed [("Stalled", "True")] <-> deadline_exceeded cs = true).
Proof.
  intros j w cs Hk Hn Hc. rewrite (deploy_compute j w cs Hk Hn Hc), outcome_of_failed.
  apply deploy_expected_failed.
Qed.
Lemma deploy_otherwise : forall j w cs,
  is_kind j LDeployment -> no_generic j -> get_object_with_conditions j = Some cs ->
  compute j w <> Ok Current [] -> compute j w <> Ok Failed [("Stalled", "True")] ->
  compute j w = Ok InProgress [("Reconciling", "True")].
Proof.
  intros j w cs Hk Hn Hc. rewrite (deploy_compute j w cs Hk Hn Hc).
  destruct (deploy_expected (deploy_fields j) cs) eqn:E; simpl; intros H1 H2; try reflexivity;
    try (contradiction H1; reflexivity); try (contradiction H2; reflexivity);
    unfold deploy_expected in E; destruct (deadline_exceeded cs); try discriminate;
    destruct (deploy_complete (deploy_fields j) cs); discriminate.
Qed.

(* the generic checks never produce Current: a Current result comes from the
   kind rule (or the fallback) with no generic signal present *)
Lemma check_generic_not_current : forall j, check_generic j <> Some current.
Proof.
  intros j E. unfold check_generic in E.
  assert (G : check_generation j <> Some current).
  { unfold check_generation.
    destruct (nested_int64 j p_generation) as [g| |]; try discriminate.
    destruct (nested_int64 j p_observed) as [o| |]; try discriminate.
    destruct (Z.eqb o g); discriminate. }
  assert (S : forall cs, std_loop cs <> Some current).
  { intros cs. rewrite std_loop_first. destruct (first_true_std cs) as [ty|]; [|discriminate].
    destruct (ty =? "Reconciling"); discriminate. }
  destruct (nested_string j p_deletion) as [s| |]; try discriminate.
  - destruct (negb (s =? "")); [discriminate|].
    destruct (check_generation j) as [o|] eqn:Eg; [rewrite <- Eg in G; injection E as E; subst o; apply G; exact Eg|].
    destruct (get_object_with_conditions j) as [cs|]; [apply (S cs E)|discriminate].
  - destruct (check_generation j) as [o|] eqn:Eg; [rewrite <- Eg in G; injection E as E; subst o; apply G; exact Eg|].
    destruct (get_object_with_conditions j) as [cs|]; [apply (S cs E)|discriminate].
Qed.

Lemma current_no_generic : forall j w k,
  is_kind j k -> compute j w = Ok Current [] -> no_generic j.
Proof.
  intros j w k Hk Hcur. unfold no_generic. unfold compute in Hcur.
  destruct (check_generic j) as [o|] eqn:E; [|reflexivity].
  exfalso. subst o. apply (check_generic_not_current j E).
Qed.

Lemma deploy_no_lag : forall j w,
  is_kind j LDeployment -> compute j w = Ok Current [] ->
  let f := deploy_fields j in
  (d_status f >= d_spec f /\ d_updated f >= d_spec f /\ d_ready f >= d_spec f /\ d_available f >= d_spec f)%Z.
Proof.
  intros j w Hk Hcur f.
  pose proof (current_no_generic j w LDeployment Hk Hcur) as Hn.
  destruct (no_generic_conds j Hn) as [cs Hc].
  apply (deploy_current_iff j w cs Hk Hn Hc) in Hcur. destruct Hcur as [_ H].
  apply deploy_complete_reading in H. fold f in H. lia.
Qed.

(* kubectl's DeploymentStatusViewer: whenever it does not report the rollout
   as done (still waiting, or deadline error), Compute is not Current *)
Lemma deploy_kubectl : forall j w cs g o,
  is_kind j LDeployment -> no_generic j -> get_object_with_conditions j = Some cs ->
  nested_int64 j p_generation = Found g -> nested_int64 j p_observed = Found o ->
  kubectl_deployment j cs <> KDone -> compute j w <> Ok Current [].
Proof.
  intros j w cs g o Hk Hn Hc Hg Ho Hkub Hcur.
  apply (deploy_current_iff j w cs Hk Hn Hc) in Hcur. destruct Hcur as [Hd Hcomp].
  apply deploy_complete_reading in Hcomp. destruct Hcomp as [Hz _].
  unfold deploy_fields in Hz. cbn [d_spec d_status d_updated d_ready d_available] in Hz.
  apply Hkub. unfold kubectl_deployment.
  rewrite (typed_int_found j p_generation g Hg), (typed_int_found j p_observed o Ho).
  destruct (no_generic_inv j Hn) as [_ [Hgen _]].
  assert (g = o).
  { destruct Hgen as [H|[g' [H1 [H2|H2]]]]; rewrite Hg in *; try discriminate.
    - rewrite Ho in H2. discriminate.
    - injection H1 as H1. rewrite Ho in H2. injection H2 as H2. congruence. }
  subst o. rewrite Z.leb_refl.
  assert (Ht : match first_of_type cs "Progressing" with
               | Some c => c_reason c =? "ProgressDeadlineExceeded" | None => false end = false).
  { unfold first_of_type. destruct (find (fun c => c_type c =? "Progressing") cs) as [c|] eqn:Ef; [|reflexivity].
    apply find_some in Ef. destruct Ef as [Hin Hty].
    destruct (c_reason c =? "ProgressDeadlineExceeded") eqn:Er; [|reflexivity].
    exfalso. unfold deadline_exceeded in Hd.
    assert (X : existsb (fun c => (c_type c =? "Progressing") && (c_reason c =? "ProgressDeadlineExceeded")) cs = true)
      by (apply existsb_exists; exists c; split; [exact Hin|rewrite Hty, Er; reflexivity]).
    rewrite X in Hd. discriminate. }
  rewrite Ht. unfold typed_int.
  destruct (typed_ptr j ["spec"; "replicas"]) as [r|] eqn:Er.
  - rewrite (typed_ptr_field j _ r 1 Er) in Hz.
    destruct (get_int_field j ["status"; "updatedReplicas"] 0 <? r)%Z eqn:E1; [apply Z.ltb_lt in E1; lia|].
    destruct (get_int_field j ["status"; "replicas"] 0 >? get_int_field j ["status"; "updatedReplicas"] 0)%Z eqn:E2;
      [apply Z.gtb_lt in E2; lia|].
    destruct (get_int_field j ["status"; "availableReplicas"] 0 <? get_int_field j ["status"; "updatedReplicas"] 0)%Z eqn:E3;
      [apply Z.ltb_lt in E3; lia|]. reflexivity.
  - destruct (get_int_field j ["status"; "replicas"] 0 >? get_int_field j ["status"; "updatedReplicas"] 0)%Z eqn:E2;
      [apply Z.gtb_lt in E2; lia|].
    destruct (get_int_field j ["status"; "availableReplicas"] 0 <? get_int_field j ["status"; "updatedReplicas"] 0)%Z eqn:E3;
      [apply Z.ltb_lt in E3; lia|]. reflexivity.
Qed.

(* ---- ReplicaSet ---------------------------------------------------------- *)
Lemma rs_loop_spec : forall cs, rs_loop cs = has_cond cs "ReplicaFailure" "True".
Proof.
  induction cs as [|c t IH]; [reflexivity|]. unfold has_cond in *. simpl. unfold is_cond at 1.
  destruct ((c_type c =? "ReplicaFailure") && (c_status c =? "True")); [reflexivity|exact IH].
Qed.

Lemma replicaset_spec : forall j cs,
  get_object_with_conditions j = Some cs ->
  replicaset_conditions j = outcome_of (rs_expected (rs_fields j) cs).
Proof.
  intros j cs Hc. unfold replicaset_conditions, rs_expected, rs_complete, rs_fields.
  cbn [r_spec r_status r_labelled r_available r_ready].
  rewrite Hc, rs_loop_spec, !gtb_leb.
  destruct (has_cond cs "ReplicaFailure" "True"); [reflexivity|].
  destruct (get_int_field j ["spec"; "replicas"] 1 <=? get_int_field j ["status"; "fullyLabeledReplicas"] 0)%Z;
  destruct (get_int_field j ["spec"; "replicas"] 1 <=? get_int_field j ["status"; "availableReplicas"] 0)%Z;
  destruct (get_int_field j ["spec"; "replicas"] 1 <=? get_int_field j ["status"; "readyReplicas"] 0)%Z;
  destruct (get_int_field j ["status"; "replicas"] 0 <=? get_int_field j ["spec"; "replicas"] 1)%Z;
  reflexivity.
Qed.

Lemma rs_compute : forall j w cs,
  is_kind j LReplicaSet -> no_generic j -> get_object_with_conditions j = Some cs ->
  compute j w = outcome_of (rs_expected (rs_fields j) cs).
Proof.
  intros j w cs Hk Hn Hc. rewrite (kind_rule_decides j w LReplicaSet Hk Hn). simpl.
  apply replicaset_spec. exact Hc.
Qed.

Lemma rs_current_iff : forall j w cs,
  is_kind j LReplicaSet -> no_generic j -> get_object_with_conditions j = Some cs ->
  (compute j w = Ok Current [] <-> rs_complete (rs_fields j) cs = true).
Proof.
  intros j w cs Hk Hn Hc. rewrite (rs_compute j w cs Hk Hn Hc), outcome_of_current.
  unfold rs_expected. destruct (rs_complete (rs_fields j) cs); split; try discriminate; reflexivity.
Qed.
Lemma rs_never_failed : forall j w cs,
  is_kind j LReplicaSet -> no_generic j -> get_object_with_conditions j = Some cs ->
  compute j w <> Ok Failed [("Stalled", "True")].
Proof.
  intros j w cs Hk Hn Hc. rewrite (rs_compute j w cs Hk Hn Hc).
  unfold rs_expected. destruct (rs_complete (rs_fields j) cs); discriminate.
Qed.
Lemma rs_otherwise : forall j w cs,
  is_kind j LReplicaSet -> no_generic j -> get_object_with_conditions j = Some cs ->
  compute j w <> Ok Current [] -> compute j w = Ok InProgress [("Reconciling", "True")].
Proof.
  intros j w cs Hk Hn Hc. rewrite (rs_compute j w cs Hk Hn Hc).
  unfold rs_expected. destruct (rs_complete (rs_fields j) cs); simpl; intros H; [contradiction H|]; reflexivity.
Qed.

Lemma rs_complete_reading : forall f cs,
  rs_complete f cs = true <->
  has_cond cs "ReplicaFailure" "True" = false /\
  (r_spec f <= r_labelled f /\ r_spec f <= r_available f /\ r_spec f <= r_ready f /\ r_status f <= r_spec f)%Z.
Proof.
  intros f cs. unfold rs_complete. rewrite !andb_true_iff, !Z.leb_le, negb_true_iff. tauto.
Qed.

(* what does hold for ReplicaSets: every count the rule compares; for
   status.replicas only the upper bound *)
Lemma rs_no_lag_partial : forall j w,
  is_kind j LReplicaSet -> compute j w = Ok Current [] ->
  let f := rs_fields j in
  (r_labelled f >= r_spec f /\ r_available f >= r_spec f /\ r_ready f >= r_spec f /\ r_status f <= r_spec f)%Z.
Proof.
  intros j w Hk Hcur f.
  pose proof (current_no_generic j w LReplicaSet Hk Hcur) as Hn.
  destruct (no_generic_conds j Hn) as [cs Hc].
  apply (rs_current_iff j w cs Hk Hn Hc) in Hcur. apply rs_complete_reading in Hcur. fold f in Hcur. lia.
Qed.

Definition rs_witness : jv :=
  JObj [("apiVersion", JStr "apps/v1"); ("kind", JStr "ReplicaSet");
        ("spec", JObj [("replicas", JInt 2)]);
        ("status", JObj [("replicas", JInt 0); ("fullyLabeledReplicas", JInt 2);
                         ("availableReplicas", JInt 2); ("readyReplicas", JInt 2)])].

Lemma rs_no_lag_refuted :
  exists j w, is_kind j LReplicaSet /\ compute j w = Ok Current [] /\
              (r_status (rs_fields j) < r_spec (rs_fields j))%Z.
Proof. exists rs_witness, false. vm_compute. repeat split; reflexivity. Qed.

(* ---- StatefulSet --------------------------------------------------------- *)
Lemma sts_spec : forall j, sts_conditions j = outcome_of (sts_expected (sts_fields j)).
Proof.
  intros j. unfold sts_conditions, sts_expected, sts_complete, sts_rolled_out, sts_fields.
  cbn [s_strategy s_spec s_status s_ready s_current s_updated s_partition s_cur_rev s_upd_rev].
  rewrite !gtb_leb, ltb_leb.
  destruct (get_string_field j ["spec"; "updateStrategy"; "type"] "" =? "OnDelete"); [reflexivity|].
  cbn [orb].
  destruct (get_int_field j ["spec"; "replicas"] 1 <=? get_int_field j ["status"; "replicas"] 0)%Z;
  destruct (get_int_field j ["spec"; "replicas"] 1 <=? get_int_field j ["status"; "readyReplicas"] 0)%Z;
  destruct (get_int_field j ["status"; "replicas"] 0 <=? get_int_field j ["spec"; "replicas"] 1)%Z;
  destruct (get_int_field j ["spec"; "updateStrategy"; "rollingUpdate"; "partition"] (-1) =? -1)%Z;
  destruct (sub64 (get_int_field j ["spec"; "replicas"] 1)
                  (get_int_field j ["spec"; "updateStrategy"; "rollingUpdate"; "partition"] (-1))
            <=? get_int_field j ["status"; "updatedReplicas"] 0)%Z;
  destruct (get_int_field j ["spec"; "replicas"] 1 <=? get_int_field j ["status"; "currentReplicas"] 0)%Z;
  destruct (get_string_field j ["status"; "currentRevision"] "" =? get_string_field j ["status"; "updateRevision"] "");
  reflexivity.
Qed.

Lemma sts_compute : forall j w,
  is_kind j LSts -> no_generic j -> compute j w = outcome_of (sts_expected (sts_fields j)).
Proof. intros j w Hk Hn. rewrite (kind_rule_decides j w LSts Hk Hn). simpl. apply sts_spec. Qed.

Lemma sts_current_iff : forall j w,
  is_kind j LSts -> no_generic j ->
  (compute j w = Ok Current [] <-> sts_complete (sts_fields j) = true).
Proof.
  intros j w Hk Hn. rewrite (sts_compute j w Hk Hn), outcome_of_current.
  unfold sts_expected. destruct (sts_complete (sts_fields j)); split; try discriminate; reflexivity.
Qed.
Lemma sts_never_failed : forall j w,
  is_kind j LSts -> no_generic j -> compute j w <> Ok Failed [("Stalled", "True")].
Proof.
  intros j w Hk Hn. rewrite (sts_compute j w Hk Hn).
  unfold sts_expected. destruct (sts_complete (sts_fields j)); discriminate.
Qed.
Lemma sts_otherwise : forall j w,
  is_kind j LSts -> no_generic j ->
  compute j w <> Ok Current [] -> compute j w = Ok InProgress [("Reconciling", "True")].
Proof.
  intros j w Hk Hn. rewrite (sts_compute j w Hk Hn).
  unfold sts_expected. destruct (sts_complete (sts_fields j)); simpl; intros H; [contradiction H|]; reflexivity.
Qed.

Lemma sts_complete_reading : forall f,
  sts_complete f = true <->
  s_strategy f = "OnDelete" \/
  ((s_spec f <= s_status f /\ s_spec f <= s_ready f /\ s_status f <= s_spec f)%Z /\
   (s_partition f = (-1)%Z -> (s_spec f <= s_current f)%Z /\ s_cur_rev f = s_upd_rev f) /\
   (s_partition f <> (-1)%Z -> (sub64 (s_spec f) (s_partition f) <= s_updated f)%Z)).
Proof.
  intros f. unfold sts_complete, sts_rolled_out. rewrite orb_true_iff, !andb_true_iff, !Z.leb_le, String.eqb_eq.
  destruct (s_partition f =? -1)%Z eqn:E.
  - apply Z.eqb_eq in E. rewrite andb_true_iff, Z.leb_le, String.eqb_eq.
    intuition (try lia; try congruence).
  - apply Z.eqb_neq in E. rewrite Z.leb_le.
    intuition (try lia; try congruence).
Qed.

Lemma nested_field_app : forall p q j,
  nested_field j (p ++ q)%list =
  match nested_field j p with
  | Found v => nested_field v q
  | Absent => Absent
  | AErr => AErr
  end.
Proof.
  induction p as [|k p IH]; intros q j; [reflexivity|].
  simpl. destruct j as [| | | | | |kv]; try reflexivity.
  destruct (lookup k kv) as [v|]; [apply IH|reflexivity].
Qed.

Lemma field_under_non_map : forall j p k d,
  typed_struct_ptr j p = false -> get_int_field j (p ++ [k])%list d = d.
Proof.
  intros j p k d H. unfold get_int_field. rewrite nested_field_app.
  unfold typed_struct_ptr in H.
  destruct (nested_field j p) as [v| |]; try reflexivity.
  destruct v; try reflexivity; try discriminate.
Qed.

Lemma sts_no_lag : forall j w,
  is_kind j LSts -> compute j w = Ok Current [] ->
  let f := sts_fields j in
  s_strategy f = "OnDelete" \/
  ((s_status f >= s_spec f /\ s_ready f >= s_spec f)%Z /\
   (s_partition f = (-1)%Z -> (s_current f >= s_spec f)%Z /\ s_cur_rev f = s_upd_rev f) /\
   (s_partition f <> (-1)%Z -> (s_updated f >= sub64 (s_spec f) (s_partition f))%Z)).
Proof.
  intros j w Hk Hcur f.
  pose proof (current_no_generic j w LSts Hk Hcur) as Hn.
  apply (sts_current_iff j w Hk Hn) in Hcur. apply sts_complete_reading in Hcur. fold f in Hcur.
  destruct Hcur as [H|[H1 [H2 H3]]]; [left; exact H|right].
  split; [lia|]. split.
  - intros E. destruct (H2 E). split; [lia|assumption].
  - intros E. pose proof (H3 E). lia.
Qed.

Lemma sub64_exact : forall a b,
  (- two63 <= a - b < two63)%Z -> sub64 a b = (a - b)%Z.
Proof.
  intros a b H. unfold sub64, wrap64. unfold two63 in *.
  rewrite Z.mod_small by lia. lia.
Qed.

(* kubectl's StatefulSetStatusViewer (RollingUpdate strategy, generation
   fields present with a non-zero observed generation, API-valid replicas and
   partition): not done -> not Current *)
Lemma sts_kubectl : forall j w g o,
  is_kind j LSts -> no_generic j ->
  nested_int64 j p_generation = Found g -> nested_int64 j p_observed = Found o -> o <> 0%Z ->
  (forall r, typed_ptr j ["spec"; "replicas"] = Some r -> (0 <= r < two63)%Z) ->
  (forall p, typed_ptr j ["spec"; "updateStrategy"; "rollingUpdate"; "partition"] = Some p -> (0 <= p < two63)%Z) ->
  kubectl_statefulset j = KWaiting -> compute j w <> Ok Current [].
Proof.
  intros j w g o Hk Hn Hg Ho Ho0 Hr Hp Hkub Hcur.
  apply (sts_current_iff j w Hk Hn) in Hcur. apply sts_complete_reading in Hcur.
  unfold kubectl_statefulset in Hkub.
  destruct (negb (typed_str j ["spec"; "updateStrategy"; "type"] =? "RollingUpdate")) eqn:Es; [discriminate|].
  apply negb_false_iff in Es. apply String.eqb_eq in Es.
  unfold sts_fields in Hcur.
  cbn [s_strategy s_spec s_status s_ready s_current s_updated s_partition s_cur_rev s_upd_rev] in Hcur.
  unfold typed_str in Es. rewrite Es in Hcur.
  destruct Hcur as [H|[[H1 [H2 H3]] [H4 H5]]]; [discriminate|].
  rewrite (typed_int_found j p_generation g Hg), (typed_int_found j p_observed o Ho) in Hkub.
  destruct (no_generic_inv j Hn) as [_ [Hgen _]].
  assert (g = o).
  { destruct Hgen as [H|[g' [Ha [Hb|Hb]]]]; rewrite Hg in *; try discriminate.
    - rewrite Ho in Hb. discriminate.
    - injection Ha as Ha. rewrite Ho in Hb. injection Hb as Hb. congruence. }
  subst o.
  destruct (g =? 0)%Z eqn:E0; [apply Z.eqb_eq in E0; contradiction|].
  rewrite Z.gtb_ltb, Z.ltb_irrefl in Hkub. cbn [orb] in Hkub.
  unfold typed_int, typed_str in Hkub.
  destruct (typed_ptr j ["spec"; "replicas"]) as [r|] eqn:Er.
  - pose proof (typed_ptr_field j _ r 1 Er) as Hr1. rewrite Hr1 in *.
    destruct (get_int_field j ["status"; "readyReplicas"] 0 <? r)%Z eqn:E1; [apply Z.ltb_lt in E1; lia|].
    destruct (typed_struct_ptr j ["spec"; "updateStrategy"; "rollingUpdate"]) eqn:Ers.
    + destruct (typed_ptr j ["spec"; "updateStrategy"; "rollingUpdate"; "partition"]) as [p|] eqn:Ep; [|discriminate].
      pose proof (typed_ptr_field j _ p (-1) Ep) as Hp1. rewrite Hp1 in *.
      destruct (get_int_field j ["status"; "updatedReplicas"] 0 <? r - p)%Z eqn:E2; [|discriminate].
      apply Z.ltb_lt in E2.
      pose proof (Hr r eq_refl) as Br. pose proof (Hp p eq_refl) as Bp.
      assert (Hne : p <> (-1)%Z) by lia.
      pose proof (H5 Hne) as H6. rewrite sub64_exact in H6 by (unfold two63 in *; lia). lia.
    + destruct (get_string_field j ["status"; "updateRevision"] "" =? get_string_field j ["status"; "currentRevision"] "") eqn:E3;
        [discriminate|].
      apply String.eqb_neq in E3.
      destruct (Z.eq_dec (get_int_field j ["spec"; "updateStrategy"; "rollingUpdate"; "partition"] (-1)) (-1)) as [Ep|Ep].
      * destruct (H4 Ep) as [_ Hrev]. congruence.
      * (* a partition value exists although rollingUpdate is not a map: impossible *)
        exfalso. apply Ep.
        apply (field_under_non_map j ["spec"; "updateStrategy"; "rollingUpdate"] "partition" (-1) Ers).
  - destruct (typed_struct_ptr j ["spec"; "updateStrategy"; "rollingUpdate"]) eqn:Ers; [discriminate|].
    destruct (get_string_field j ["status"; "updateRevision"] "" =? get_string_field j ["status"; "currentRevision"] "") eqn:E3;
      [discriminate|].
    apply String.eqb_neq in E3.
    destruct (Z.eq_dec (get_int_field j ["spec"; "updateStrategy"; "rollingUpdate"; "partition"] (-1)) (-1)) as [Ep|Ep].
    + destruct (H4 Ep) as [_ Hrev]. congruence.
    + exfalso. apply Ep.
      apply (field_under_non_map j ["spec"; "updateStrategy"; "rollingUpdate"] "partition" (-1) Ers).
Qed.

(* ---- DaemonSet ----------------------------------------------------------- *)
Lemma ds_generation_set : forall j,
  no_generic j ->
  check_generation_set j =
  if found_int j p_generation && found_int j p_observed then None else Some new_in_progress.
Proof.
  intros j Hn. destruct (no_generic_inv j Hn) as [_ [Hg _]].
  unfold check_generation_set, found_int.
  destruct Hg as [H|[g [H1 [H2|H2]]]].
  - rewrite H. reflexivity.
  - rewrite H1, H2. reflexivity.
  - rewrite H1, H2. reflexivity.
Qed.

Lemma daemonset_spec : forall j,
  no_generic j -> daemonset_conditions j = outcome_of (ds_expected j (ds_fields j)).
Proof.
  intros j Hn. unfold daemonset_conditions, ds_expected, ds_complete, ds_fields.
  cbn [ds_desired ds_current ds_updated ds_available ds_ready].
  rewrite (ds_generation_set j Hn), !gtb_leb.
  destruct (found_int j p_generation && found_int j p_observed); [|reflexivity].
  cbn [andb].
  destruct (get_int_field j ["status"; "desiredNumberScheduled"] (-1) =? -1)%Z; [reflexivity|].
  cbn [negb andb].
  destruct (get_int_field j ["status"; "desiredNumberScheduled"] (-1) <=? get_int_field j ["status"; "currentNumberScheduled"] 0)%Z;
  destruct (get_int_field j ["status"; "desiredNumberScheduled"] (-1) <=? get_int_field j ["status"; "updatedNumberScheduled"] 0)%Z;
  destruct (get_int_field j ["status"; "desiredNumberScheduled"] (-1) <=? get_int_field j ["status"; "numberAvailable"] 0)%Z;
  destruct (get_int_field j ["status"; "desiredNumberScheduled"] (-1) <=? get_int_field j ["status"; "numberReady"] 0)%Z;
  reflexivity.
Qed.

Lemma ds_compute : forall j w,
  is_kind j LDaemonSet -> no_generic j -> compute j w = outcome_of (ds_expected j (ds_fields j)).
Proof. intros j w Hk Hn. rewrite (kind_rule_decides j w LDaemonSet Hk Hn). simpl. apply daemonset_spec. exact Hn. Qed.

Lemma ds_current_iff : forall j w,
  is_kind j LDaemonSet -> no_generic j ->
  (compute j w = Ok Current [] <-> ds_complete j (ds_fields j) = true).
Proof.
  intros j w Hk Hn. rewrite (ds_compute j w Hk Hn), outcome_of_current.
  unfold ds_expected. destruct (ds_complete j (ds_fields j)); split; try discriminate; reflexivity.
Qed.
Lemma ds_never_failed : forall j w,
  is_kind j LDaemonSet -> no_generic j -> compute j w <> Ok Failed [("Stalled", "True")].
Proof.
  intros j w Hk Hn. rewrite (ds_compute j w Hk Hn).
  unfold ds_expected. destruct (ds_complete j (ds_fields j)); discriminate.
Qed.
Lemma ds_otherwise : forall j w,
  is_kind j LDaemonSet -> no_generic j ->
  compute j w <> Ok Current [] -> compute j w = Ok InProgress [("Reconciling", "True")].
Proof.
  intros j w Hk Hn. rewrite (ds_compute j w Hk Hn).
  unfold ds_expected. destruct (ds_complete j (ds_fields j)); simpl; intros H; [contradiction H|]; reflexivity.
Qed.

Lemma ds_complete_reading : forall j f,
  ds_complete j f = true <->
  (exists g, nested_int64 j p_generation = Found g) /\ (exists o, nested_int64 j p_observed = Found o) /\
  (ds_desired f <> -1 /\ ds_desired f <= ds_current f /\ ds_desired f <= ds_updated f /\
   ds_desired f <= ds_available f /\ ds_desired f <= ds_ready f)%Z.
Proof.
  intros j f. unfold ds_complete, found_int.
  rewrite !andb_true_iff, !Z.leb_le, negb_true_iff, Z.eqb_neq.
  destruct (nested_int64 j p_generation) as [g| |]; destruct (nested_int64 j p_observed) as [o| |];
    split; intros H; try (destruct H as [[[[[[H1 H2] H3] H4] H5] H6] H7]; discriminate);
    try (destruct H as [[g' Hg] [[o' Ho] _]]; discriminate).
  - destruct H as [[[[[[_ _] H3] H4] H5] H6] H7]. repeat split; eauto.
  - destruct H as [_ [_ [H3 [H4 [H5 [H6 H7]]]]]]. repeat split; auto.
Qed.

Lemma ds_no_lag : forall j w,
  is_kind j LDaemonSet -> compute j w = Ok Current [] ->
  let f := ds_fields j in
  (ds_current f >= ds_desired f /\ ds_updated f >= ds_desired f /\
   ds_available f >= ds_desired f /\ ds_ready f >= ds_desired f /\ ds_desired f <> -1)%Z.
Proof.
  intros j w Hk Hcur f.
  pose proof (current_no_generic j w LDaemonSet Hk Hcur) as Hn.
  apply (ds_current_iff j w Hk Hn) in Hcur. apply ds_complete_reading in Hcur. fold f in Hcur.
  destruct Hcur as [_ [_ H]]. lia.
Qed.

Lemma ds_kubectl : forall j w,
  is_kind j LDaemonSet -> no_generic j ->
  kubectl_daemonset j = KWaiting -> compute j w <> Ok Current [].
Proof.
  intros j w Hk Hn Hkub Hcur.
  apply (ds_current_iff j w Hk Hn) in Hcur. apply ds_complete_reading in Hcur.
  destruct Hcur as [[g Hg] [[o Ho] Hz]].
  unfold ds_fields in Hz. cbn [ds_desired ds_current ds_updated ds_available ds_ready] in Hz.
  unfold kubectl_daemonset in Hkub.
  destruct (negb (typed_str j ["spec"; "updateStrategy"; "type"] =? "RollingUpdate")); [discriminate|].
  rewrite (typed_int_found j p_generation g Hg), (typed_int_found j p_observed o Ho) in Hkub.
  destruct (no_generic_inv j Hn) as [_ [Hgen _]].
  assert (g = o).
  { destruct Hgen as [H|[g' [Ha [Hb|Hb]]]]; rewrite Hg in *; try discriminate.
    - rewrite Ho in Hb. discriminate.
    - injection Ha as Ha. rewrite Ho in Hb. injection Hb as Hb. congruence. }
  subst o. rewrite Z.leb_refl in Hkub. unfold typed_int in Hkub.
  (* the typed default of an absent desiredNumberScheduled is 0, Compute's is -1:
     both read the same value when the field is an integer, and Compute is not
     Current when it is absent *)
  assert (Hd : get_int_field j ["status"; "desiredNumberScheduled"] 0 =
               get_int_field j ["status"; "desiredNumberScheduled"] (-1)).
  { unfold get_int_field in *. destruct (nested_field j ["status"; "desiredNumberScheduled"]) as [v| |];
      try (exfalso; lia). destruct v; try (exfalso; lia). reflexivity. }
  rewrite Hd in Hkub.
  destruct (get_int_field j ["status"; "updatedNumberScheduled"] 0 <? get_int_field j ["status"; "desiredNumberScheduled"] (-1))%Z eqn:E1;
    [apply Z.ltb_lt in E1; lia|].
  destruct (get_int_field j ["status"; "numberAvailable"] 0 <? get_int_field j ["status"; "desiredNumberScheduled"] (-1))%Z eqn:E2;
    [apply Z.ltb_lt in E2; lia|discriminate].
Qed.

(* ---- Pod ----------------------------------------------------------------- *)
Lemma crash_names_exists : forall items, Nat.ltb 0 (crash_names items) = existsb item_crash_looping items.
Proof.
  induction items as [|i t IH]; [reflexivity|]. simpl.
  destruct (item_crash_looping i); simpl; [reflexivity|exact IH].
Qed.

Lemma get_crash_looping_spec : forall j, get_crash_looping j = pod_crash_looping j.
Proof.
  intros j. unfold get_crash_looping, pod_crash_looping.
  destruct (nested_slice j ["status"; "containerStatuses"]); try reflexivity.
  rewrite crash_names_exists. reflexivity.
Qed.

Lemma pod_spec : forall j w cs,
  get_object_with_conditions j = Some cs ->
  pod_conditions j w = match pod_expected j cs w with Some s => outcome_of s | None => Err end.
Proof.
  intros j w cs Hc. unfold pod_conditions, pod_expected, pod_phase, pod_unschedulable.
  rewrite Hc, has_cond_with_status_spec, get_crash_looping_spec, get_cond_find. cbv zeta.
  destruct (get_string_field j ["status"; "phase"] "" =? "Succeeded"); [reflexivity|].
  destruct (get_string_field j ["status"; "phase"] "" =? "Failed"); [reflexivity|]. cbn [orb].
  destruct (get_string_field j ["status"; "phase"] "" =? "Running").
  - destruct (has_cond cs "Ready" "True"); [reflexivity|].
    destruct (pod_crash_looping j) as [[|]|]; reflexivity.
  - destruct (get_string_field j ["status"; "phase"] "" =? "Pending").
    + destruct (find (is_cond "PodScheduled" "False") cs) as [c|]; [|reflexivity].
      destruct (c_reason c =? "Unschedulable"); [|reflexivity]. destruct w; reflexivity.
    + destruct (get_string_field j ["status"; "phase"] "" =? ""); reflexivity.
Qed.

Lemma pod_compute : forall j w cs,
  is_kind j LPod -> no_generic j -> get_object_with_conditions j = Some cs ->
  compute j w = match pod_expected j cs w with Some s => outcome_of s | None => Err end.
Proof.
  intros j w cs Hk Hn Hc. rewrite (kind_rule_decides j w LPod Hk Hn). simpl. apply pod_spec. exact Hc.
Qed.

Lemma pod_current_iff : forall j w cs,
  is_kind j LPod -> no_generic j -> get_object_with_conditions j = Some cs ->
  (compute j w = Ok Current [] <-> pod_expected j cs w = Some Current).
Proof.
  intros j w cs Hk Hn Hc. rewrite (pod_compute j w cs Hk Hn Hc).
  destruct (pod_expected j cs w) as [s|]; [|split; discriminate].
  rewrite outcome_of_current. split; [intros ->; reflexivity|intros H; injection H as H; exact H].
Qed.
Lemma pod_failed_iff : forall j w cs,
  is_kind j LPod -> no_generic j -> get_object_with_conditions j = Some cs ->
  (compute j w = Ok Failed [("Stalled", "True")] <-> pod_expected j cs w = Some Failed).
Proof.
  intros j w cs Hk Hn Hc. rewrite (pod_compute j w cs Hk Hn Hc).
  destruct (pod_expected j cs w) as [s|]; [|split; discriminate].
  rewrite outcome_of_failed. split; [intros ->; reflexivity|intros H; injection H as H; exact H].
Qed.
Lemma pod_in_progress_iff : forall j w cs,
  is_kind j LPod -> no_generic j -> get_object_with_conditions j = Some cs ->
  (compute j w = Ok InProgress [("Reconciling", "True")] <-> pod_expected j cs w = Some InProgress).
Proof.
  intros j w cs Hk Hn Hc. rewrite (pod_compute j w cs Hk Hn Hc).
  destruct (pod_expected j cs w) as [s|]; [|split; discriminate].
  rewrite outcome_of_in_progress. split; [intros ->; reflexivity|intros H; injection H as H; exact H].
Qed.

(* Prop readings of the Pod description *)
Lemma pod_expected_current_reading : forall j cs w,
  pod_expected j cs w = Some Current <->
  pod_phase j = "Succeeded" \/ pod_phase j = "Failed" \/
  (pod_phase j = "Running" /\ has_cond cs "Ready" "True" = true).
Proof.
  intros j cs w. unfold pod_expected. cbv zeta.
  destruct (pod_phase j =? "Succeeded") eqn:E1; [apply String.eqb_eq in E1; cbn [orb]; tauto|].
  destruct (pod_phase j =? "Failed") eqn:E2; [apply String.eqb_eq in E2; cbn [orb]; tauto|]. cbn [orb].
  apply String.eqb_neq in E1. apply String.eqb_neq in E2.
  destruct (pod_phase j =? "Running") eqn:E3.
  - apply String.eqb_eq in E3. destruct (has_cond cs "Ready" "True").
    + split; auto.
    + destruct (pod_crash_looping j) as [[|]|]; split; try discriminate;
        intros [H|[H|[_ H]]]; try contradiction; discriminate.
  - apply String.eqb_neq in E3.
    destruct (pod_phase j =? "Pending").
    + destruct (pod_unschedulable cs && negb w); split; try discriminate;
        intros [H|[H|[H _]]]; contradiction.
    + destruct (pod_phase j =? ""); split; try discriminate; intros [H|[H|[H _]]]; contradiction.
Qed.

Lemma pod_expected_failed_reading : forall j cs w,
  pod_expected j cs w = Some Failed <->
  (pod_phase j = "Running" /\ has_cond cs "Ready" "True" = false /\ pod_crash_looping j = Some true) \/
  (pod_phase j = "Pending" /\ pod_unschedulable cs = true /\ w = false).
Proof.
  intros j cs w. unfold pod_expected. cbv zeta.
  destruct (pod_phase j =? "Succeeded") eqn:E1.
  { apply String.eqb_eq in E1. cbn [orb]. split; [discriminate|].
    intros [[H _]|[H _]]; rewrite E1 in H; discriminate. }
  destruct (pod_phase j =? "Failed") eqn:E2.
  { apply String.eqb_eq in E2. cbn [orb]. split; [discriminate|].
    intros [[H _]|[H _]]; rewrite E2 in H; discriminate. }
  cbn [orb].
  destruct (pod_phase j =? "Running") eqn:E3.
  - apply String.eqb_eq in E3. destruct (has_cond cs "Ready" "True").
    + split; [discriminate|]. intros [[_ [H _]]|[H _]]; [discriminate|rewrite E3 in H; discriminate].
    + destruct (pod_crash_looping j) as [[|]|]; split; try discriminate; auto;
        intros [[_ [_ H]]|[H _]]; try discriminate; rewrite E3 in H; discriminate.
  - apply String.eqb_neq in E3.
    destruct (pod_phase j =? "Pending") eqn:E4.
    + apply String.eqb_eq in E4. destruct (pod_unschedulable cs), w; cbn [andb negb]; split; try discriminate; auto;
        intros [[H _]|[_ [H1 H2]]]; try contradiction; discriminate.
    + apply String.eqb_neq in E4.
      destruct (pod_phase j =? ""); split; try discriminate; intros [[H _]|[H _]]; contradiction.
Qed.

(* ---- Job ----------------------------------------------------------------- *)
Lemma job_loop_spec : forall cs,
  job_loop cs =
  match find job_decisive cs with
  | Some c => Some (if c_type c =? "Complete" then current else new_failed)
  | None => None
  end.
Proof.
  induction cs as [|c t IH]; [reflexivity|].
  cbn [job_loop find]. unfold job_decisive at 1, is_cond.
  destruct (c_type c =? "Complete") eqn:EC.
  - destruct (c_status c =? "True"); cbn [andb orb].
    + rewrite EC. reflexivity.
    + destruct (c_type c =? "Failed"); cbn [andb]; exact IH.
  - cbn [andb orb]. destruct (c_type c =? "Failed"); cbn [andb]; [|exact IH].
    destruct (c_status c =? "True"); [rewrite EC; reflexivity|exact IH].
Qed.

Lemma job_spec : forall j cs,
  get_object_with_conditions j = Some cs -> job_conditions j = outcome_of (job_expected j cs).
Proof.
  intros j cs Hc. unfold job_conditions, job_expected. cbv zeta. rewrite Hc, job_loop_spec.
  destruct (find job_decisive cs) as [c|].
  - destruct (c_type c =? "Complete"); reflexivity.
  - destruct (get_string_field j ["status"; "startTime"] "" =? ""); reflexivity.
Qed.

Lemma job_compute : forall j w cs,
  is_kind j LJob -> no_generic j -> get_object_with_conditions j = Some cs ->
  compute j w = outcome_of (job_expected j cs).
Proof. intros j w cs Hk Hn Hc. rewrite (kind_rule_decides j w LJob Hk Hn). simpl. apply job_spec. exact Hc. Qed.

(* ---- PVC / Service / always-ready kinds ---------------------------------- *)
Lemma pvc_spec : forall j, pvc_conditions j = outcome_of (pvc_expected j).
Proof.
  intros j. unfold pvc_conditions, pvc_expected. cbv zeta.
  destruct (get_string_field j ["status"; "phase"] "unknown" =? "Bound"); reflexivity.
Qed.
Lemma pvc_compute : forall j w, is_kind j LPvc -> no_generic j -> compute j w = outcome_of (pvc_expected j).
Proof. intros j w Hk Hn. rewrite (kind_rule_decides j w LPvc Hk Hn). simpl. apply pvc_spec. Qed.

Lemma service_spec : forall j, service_conditions j = outcome_of (service_expected j).
Proof.
  intros j. unfold service_conditions, service_expected. cbv zeta.
  destruct (get_string_field j ["spec"; "type"] "ClusterIP" =? "LoadBalancer");
  destruct (get_string_field j ["spec"; "clusterIP"] "" =? ""); reflexivity.
Qed.
Lemma service_compute : forall j w, is_kind j LService -> no_generic j -> compute j w = outcome_of (service_expected j).
Proof. intros j w Hk Hn. rewrite (kind_rule_decides j w LService Hk Hn). simpl. apply service_spec. Qed.

Lemma always_current : forall j w k,
  k = LPdb \/ k = LAlwaysReady -> is_kind j k -> no_generic j -> compute j w = Ok Current [].
Proof. intros j w k [->| ->] Hk Hn; rewrite (kind_rule_decides j w _ Hk Hn); reflexivity. Qed.

(* ---- CRD ----------------------------------------------------------------- *)
Lemma crd_loop_spec : forall cs,
  crd_loop cs =
  match find crd_decisive cs with
  | Some c => Some (if crd_rejected c then new_failed else current)
  | None => None
  end.
Proof.
  induction cs as [|c t IH]; [reflexivity|].
  cbn [crd_loop find].
  destruct (crd_decisive c) eqn:D; revert D; unfold crd_decisive, crd_rejected, is_cond;
    destruct (c_type c =? "NamesAccepted"); destruct (c_status c =? "False"); destruct (c_type c =? "Established");
    destruct (c_reason c =? "Installing"); destruct (c_status c =? "True"); cbn [andb orb negb];
    intros D; try discriminate D; try reflexivity; exact IH.
Qed.

Lemma crd_spec : forall j cs,
  get_object_with_conditions j = Some cs -> crd_conditions j = outcome_of (crd_expected cs).
Proof.
  intros j cs Hc. unfold crd_conditions, crd_expected. rewrite Hc, crd_loop_spec.
  destruct (find crd_decisive cs) as [c|]; [|reflexivity]. destruct (crd_rejected c); reflexivity.
Qed.
Lemma crd_compute : forall j w cs,
  is_kind j LCrd -> no_generic j -> get_object_with_conditions j = Some cs ->
  compute j w = outcome_of (crd_expected cs).
Proof. intros j w cs Hk Hn Hc. rewrite (kind_rule_decides j w LCrd Hk Hn). simpl. apply crd_spec. exact Hc. Qed.

(* generic corollaries for the status-valued descriptions *)
Lemma expected_iffs : forall (o : outcome) (s : status),
  o = outcome_of s -> s = Current \/ s = Failed \/ s = InProgress ->
  (o = Ok Current [] <-> s = Current) /\
  (o = Ok Failed [("Stalled", "True")] <-> s = Failed) /\
  (o = Ok InProgress [("Reconciling", "True")] <-> s = InProgress).
Proof.
  intros o s -> Hs. rewrite outcome_of_current, outcome_of_failed, outcome_of_in_progress. tauto.
Qed.

Lemma job_expected_range : forall j cs,
  job_expected j cs = Current \/ job_expected j cs = Failed \/ job_expected j cs = InProgress.
Proof.
  intros j cs. unfold job_expected. destruct (find job_decisive cs) as [c|].
  - destruct (c_type c =? "Complete"); auto.
  - destruct (get_string_field j ["status"; "startTime"] "" =? ""); auto.
Qed.
Lemma crd_expected_range : forall cs,
  crd_expected cs = Current \/ crd_expected cs = Failed \/ crd_expected cs = InProgress.
Proof.
  intros cs. unfold crd_expected. destruct (find crd_decisive cs) as [c|]; auto.
  destruct (crd_rejected c); auto.
Qed.
Lemma pvc_expected_range : forall j, pvc_expected j = Current \/ pvc_expected j = Failed \/ pvc_expected j = InProgress.
Proof. intros j. unfold pvc_expected. destruct (_ =? _); auto. Qed.
Lemma service_expected_range : forall j,
  service_expected j = Current \/ service_expected j = Failed \/ service_expected j = InProgress.
Proof. intros j. unfold service_expected. destruct (_ && _); auto. Qed.

(* ---- iff forms for the remaining kinds ----------------------------------- *)
Lemma job_iffs : forall j w cs,
  is_kind j LJob -> no_generic j -> get_object_with_conditions j = Some cs ->
  (compute j w = Ok Current [] <-> job_expected j cs = Current) /\
  (compute j w = Ok Failed [("Stalled", "True")] <-> job_expected j cs = Failed) /\
  (compute j w = Ok InProgress [("Reconciling", "True")] <-> job_expected j cs = InProgress).
Proof.
  intros j w cs Hk Hn Hc. apply expected_iffs; [apply (job_compute j w cs Hk Hn Hc)|apply job_expected_range].
Qed.

Lemma job_expected_reading : forall j cs,
  (job_expected j cs = Current <->
   (exists c, find job_decisive cs = Some c /\ c_type c = "Complete") \/
   (find job_decisive cs = None /\ get_string_field j ["status"; "startTime"] "" <> "")) /\
  (job_expected j cs = Failed <->
   exists c, find job_decisive cs = Some c /\ c_type c <> "Complete").
Proof.
  intros j cs. unfold job_expected. destruct (find job_decisive cs) as [c|].
  - destruct (c_type c =? "Complete") eqn:E.
    + apply String.eqb_eq in E. split; split; try discriminate.
      * intros _. left. exists c. auto.
      * reflexivity.
      * intros [c' [H1 H2]]. injection H1 as H1. subst c'. contradiction.
    + apply String.eqb_neq in E. split; split; try discriminate.
      * intros [[c' [H1 H2]]|[H _]]; [injection H1 as H1; subst c'; contradiction|discriminate].
      * intros _. exists c. auto.
      * reflexivity.
  - destruct (get_string_field j ["status"; "startTime"] "" =? "") eqn:E.
    + apply String.eqb_eq in E. split; split; try discriminate.
      * intros [[c' [H1 _]]|[_ H]]; [discriminate|contradiction].
      * intros [c' [H1 _]]. discriminate.
    + apply String.eqb_neq in E. split; split; try discriminate.
      * intros _. right. auto.
      * reflexivity.
      * intros [c' [H1 _]]. discriminate.
Qed.

Lemma crd_iffs : forall j w cs,
  is_kind j LCrd -> no_generic j -> get_object_with_conditions j = Some cs ->
  (compute j w = Ok Current [] <-> crd_expected cs = Current) /\
  (compute j w = Ok Failed [("Stalled", "True")] <-> crd_expected cs = Failed) /\
  (compute j w = Ok InProgress [("Reconciling", "True")] <-> crd_expected cs = InProgress).
Proof.
  intros j w cs Hk Hn Hc. apply expected_iffs; [apply (crd_compute j w cs Hk Hn Hc)|apply crd_expected_range].
Qed.

Lemma crd_expected_reading : forall cs,
  (crd_expected cs = Current <-> exists c, find crd_decisive cs = Some c /\ crd_rejected c = false) /\
  (crd_expected cs = Failed <-> exists c, find crd_decisive cs = Some c /\ crd_rejected c = true).
Proof.
  intros cs. unfold crd_expected. destruct (find crd_decisive cs) as [c|].
  - destruct (crd_rejected c) eqn:E; split; split; try discriminate; try reflexivity.
    + intros [c' [H1 H2]]. injection H1 as H1. subst c'. congruence.
    + intros _. exists c. auto.
    + intros _. exists c. auto.
    + intros [c' [H1 H2]]. injection H1 as H1. subst c'. congruence.
  - split; split; try discriminate; intros [c' [H1 _]]; discriminate.
Qed.

Lemma pvc_iffs : forall j w,
  is_kind j LPvc -> no_generic j ->
  (compute j w = Ok Current [] <-> get_string_field j ["status"; "phase"] "unknown" = "Bound") /\
  compute j w <> Ok Failed [("Stalled", "True")] /\
  (compute j w <> Ok Current [] -> compute j w = Ok InProgress [("Reconciling", "True")]).
Proof.
  intros j w Hk Hn. rewrite (pvc_compute j w Hk Hn). unfold pvc_expected.
  destruct (get_string_field j ["status"; "phase"] "unknown" =? "Bound") eqn:E.
  - apply String.eqb_eq in E. simpl. split; [tauto|]. split; [discriminate|]. intros X. contradiction X. reflexivity.
  - apply String.eqb_neq in E. simpl. split; [split; [discriminate|intros X; contradiction]|].
    split; [discriminate|]. reflexivity.
Qed.

Lemma service_iffs : forall j w,
  is_kind j LService -> no_generic j ->
  (compute j w = Ok Current [] <->
   ~ (get_string_field j ["spec"; "type"] "ClusterIP" = "LoadBalancer" /\
      get_string_field j ["spec"; "clusterIP"] "" = "")) /\
  compute j w <> Ok Failed [("Stalled", "True")] /\
  (compute j w <> Ok Current [] -> compute j w = Ok InProgress [("Reconciling", "True")]).
Proof.
  intros j w Hk Hn. rewrite (service_compute j w Hk Hn). unfold service_expected.
  destruct (get_string_field j ["spec"; "type"] "ClusterIP" =? "LoadBalancer") eqn:E1.
  - apply String.eqb_eq in E1.
    destruct (get_string_field j ["spec"; "clusterIP"] "" =? "") eqn:E2; simpl.
    + apply String.eqb_eq in E2. split; [split; [discriminate|intros X; exfalso; apply X; auto]|].
      split; [discriminate|reflexivity].
    + apply String.eqb_neq in E2. split; [split; [intros _ [_ X]; contradiction|reflexivity]|].
      split; [discriminate|intros X; contradiction X; reflexivity].
  - apply String.eqb_neq in E1. simpl.
    split; [split; [intros _ [X _]; contradiction|reflexivity]|].
    split; [discriminate|intros X; contradiction X; reflexivity].
Qed.
