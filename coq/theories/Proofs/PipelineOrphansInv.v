(* C01 (no orphans), part 3: the invariant of a run and its preservation by
   every task.  `Big f td s` relates the run state s to the initial cluster c0
   and the plan pl:
     J        every live object annotated as owned is exempt (owned but untracked
              before the run), or in the stored inventory, or the inventory namespace
              while the inventory is first being created;
     Loc      per identifier: origin of owned objects, retention facts of the
              actuation table, what is still to do (td), UID discipline;
     f        phase: before inventory-add (stored inventory untouched), after it
              (apply ids merged into the stored inventory), after inventory-set.
   Under a dry-run strategy the invariant is simply "the cluster is c0". *)
From Coq Require Import List Bool Arith NArith ZArith Lia Permutation.
From CliUtils Require Import Model.ObjSet Model.ActuationTable Model.PipelineTypes Model.Pipeline
     Proofs.ObjSetProofs Proofs.ActuationTableProofs Proofs.PipelineBase Proofs.PipelineAuth
     Corr.CorrPipeline Proofs.PipelineOrphansBase Proofs.PipelineOrphansSpec Proofs.PipelineOrphansWait.
Import ListNotations.

Inductive flag := P0 | P1 | P2.

(* the known-finding pattern, on a (reversed) trace: the inventory namespace n,
   not tracked before the run, was created by the inventory-add task, the inventory-set task was started,
   and the apply of n itself failed or was skipped *)
Definition KFp (prev : list id) (t : list item) : Prop :=
  forall n m st g, ~ In n prev ->
    In (IReq (RNsCreate n) true m st) t -> In (IEv (EStarted (GInvSet, 0))) t ->
    ~ In (IEv (EApply g n AFail)) t /\ ~ In (IEv (EApply g n ASkip)) t.

Lemma KFp_suffix prev l t : KFp prev (l ++ t) -> KFp prev t.
Proof.
  intros H n m st g H0 H1 H2. destruct (H n m st g H0) as [A B]; try (apply in_or_app; right; assumption).
  split; intros X; [apply A|apply B]; apply in_or_app; right; exact X.
Qed.

Definition nscreated (t : list item) (i : id) : Prop :=
  exists m st, In (IReq (RNsCreate i) true m st) t.

Section Inv.
  Variable sc : scenario.
  Variable c0 : cluster.
  Variable pl : plan.
  Notation dry := (is_dry (o_dry (sc_opts sc))).
  Notation prev0 := (inv0 c0).
  Notation aids := (apply_ids pl).
  Definition pids : list id := map p_id (pl_prune pl).

  (* well-formedness of the initial cluster *)
  Hypothesis c0_nodup : NoDup (ids_of c0).
  Hypothesis c0_uid_lt : forall i c, fo c0 i = Some c -> (c_uid c < next_uid c0)%N.
  Hypothesis c0_uid_inj : forall i j c c', fo c0 i = Some c -> fo c0 j = Some c' -> c_uid c = c_uid c' -> i = j.
  Hypothesis c0_ns : forall n l, sc_inv_ns sc = Some n -> inv c0 = Some l -> fo c0 n <> None \/ In n l.
  (* facts about the plan *)
  Hypothesis pl_disj : forall i, In i aids -> ~ In i pids.
  Hypothesis pl_prune_c0 : forall c, In (pobj_of_live c) (pl_prune pl) -> fo c0 (c_id c) = Some c.
  Hypothesis pl_cover : forall i c, fo c0 i = Some c -> In i prev0 ->
    In i aids \/ In i (pl_invalid pl) \/ In i pids.
  Hypothesis pl_destroy : o_destroy (sc_opts sc) = true -> aids = [].
  Hypothesis pl_local : forall p l, In p (pl_apply pl) -> p_local p = Some l -> l_id l = p_id p.
  (* the status watcher does not lie about objects held by a finalizer *)
  Hypothesis fin_deliv : forall w o, In w (e_waits (sc_env sc)) -> In o (w_deliv w) -> finok sc c0 o.
  Notation cacheok := (cacheok sc c0 aids).
  Notation ling := (ling sc c0 aids).

  (* a UID that object i may legitimately carry: the one it had before the run, or a fresh one *)
  Definition okuid (i : id) (u : N) : Prop :=
    (exists c, fo c0 i = Some c /\ c_uid c = u) \/ (next_uid c0 <= u)%N.

  (* the reconcile status of a lingering object (delete accepted, held by a finalizer): failed or
     timed out, or still pending while its wait task is to come (tw) *)
  Definition rcok (s : rst) (tw : list id) (j : id) : Prop :=
    rc s j = Some RFailed \/ rc s j = Some RTimeout \/ (rc s j = Some RPending /\ In j tw).

  Record Loc (s : rst) (td tw : list id) (j : id) : Prop := {
    L_uid : forall c, fo (r_cl s) j = Some c -> okuid j (c_uid c);
    L_app : forall st a u, tv s j = Some (st, a, u) -> st = SApply -> In j aids /\ (a = ASucceeded -> okuid j u);
    L_reg : In j aids -> exists a u, tv s j = Some (SApply, a, u);
    L_orig : forall c, fo (r_cl s) j = Some c -> c_owner c = OOurs ->
             owned0 c0 j \/ (exists u, tv s j = Some (SApply, ASucceeded, u)) \/ nscreated (r_tr s) j;
    L_ret : forall c, fo (r_cl s) j = Some c -> c_owner c = OOurs -> In j pids ->
            exists a u, tv s j = Some (SDelete, a, u) /\ ~ In j (r_aband s) /\
                        (a = ASucceeded -> ling s j /\ rcok s tw j);
    L_pend : In j td -> exists st u, tv s j = Some (st, APending, u);
    L_todo : forall st u, tv s j = Some (st, APending, u) -> In j td;
    L_evf : forall u, tv s j = Some (SApply, AFailed, u) -> exists g, In (IEv (EApply g j AFail)) (r_tr s);
    L_evs : forall u, tv s j = Some (SApply, ASkipped, u) -> exists g, In (IEv (EApply g j ASkip)) (r_tr s);
    L_ab : In j (r_aband s) -> exists u, tv s j = Some (SDelete, ASkipped, u);
    L_ns : nscreated (r_tr s) j -> In j aids;
    L_keep : In j aids -> fo c0 j <> None -> fo (r_cl s) j <> None;
  }.

  Definition merged (cl : cluster) : Prop :=
    exists L, inv cl = Some L /\ forall j, In j aids -> In j L.

  Record Big (f : flag) (td tw : list id) (s : rst) : Prop := {
    B_nd : NoDup (ids_of (r_cl s));
    B_keys : NoDup (tkeys (r_tbl s));
    B_td : NoDup td;
    B_next : (next_uid c0 <= next_uid (r_cl s))%N;
    B_J : J sc c0 (r_cl s);
    B_p0 : f = P0 -> inv (r_cl s) = inv c0;
    B_p1 : f = P1 -> merged (r_cl s);
    B_loc : forall j, Loc s td tw j;
    B_cache : cacheok s;
  }.

  Definition Ij (f : flag) (td tw : list id) (s : rst) : Prop :=
    if dry then r_cl s = c0 else Big f td tw s.

  Definition Qj (it : item) : Prop :=
    match it with
    | IReq r ok m st =>
        snap_ok sc c0 m st = true /\
        (r = RInvDelete -> ok = true -> forall i, In i m -> In i (exempt0 c0))
    | _ => True
    end.

  Definition stepj (f : flag) (td tw : list id) (f' : flag) (td' tw' : list id) (s s' : rst) : Prop :=
    exists l, r_tr s' = l ++ r_tr s /\ (KFp prev0 (r_tr s') -> Ij f td tw s -> Ij f' td' tw' s' /\ Forall Qj l).

  Lemma stepj_refl f td tw s : stepj f td tw f td tw s s.
  Proof. exists []. split; [reflexivity|]. intros _ H. split; [exact H|constructor]. Qed.

  Lemma stepj_trans f1 t1 w1 f2 t2 w2 f3 t3 w3 a b c :
    stepj f1 t1 w1 f2 t2 w2 a b -> stepj f2 t2 w2 f3 t3 w3 b c -> stepj f1 t1 w1 f3 t3 w3 a c.
  Proof.
    intros [l1 [E1 H1]] [l2 [E2 H2]]. exists (l2 ++ l1). split; [rewrite E2, E1, app_assoc; reflexivity|].
    intros KF I0. assert (KFb : KFp prev0 (r_tr b)) by (rewrite E2 in KF; eapply KFp_suffix; exact KF).
    destruct (H1 KFb I0) as [Ib F1]. destruct (H2 KF Ib) as [Ic F2].
    split; [exact Ic|apply Forall_app; split; assumption].
  Qed.

  (* ---- items ------------------------------------------------------------------------ *)
  Lemma Qj_noreq it : noreq it -> Qj it.
  Proof. destruct it; cbn; tauto. Qed.

  Lemma Qj_snap cl it : NoDup (ids_of cl) -> J sc c0 cl -> snap_of cl it -> Qj it.
  Proof.
    intros ND HJ [r [ok [-> H]]]. cbn. split; [apply J_snap; assumption|].
    intros -> ->. cbn in H. discriminate.
  Qed.

  Lemma Forall_Qj_snap cl lt : NoDup (ids_of cl) -> J sc c0 cl -> Forall (snap_of cl) lt -> Forall Qj lt.
  Proof. intros ND HJ F. eapply Forall_impl; [|exact F]. intros it. apply Qj_snap; assumption. Qed.

  Lemma Forall_Qj_snap2 cl cl' lt : NoDup (ids_of cl) -> J sc c0 cl -> NoDup (ids_of cl') -> J sc c0 cl' ->
    Forall (snap2 cl cl') lt -> Forall Qj lt.
  Proof.
    intros ND HJ ND' HJ' F. eapply Forall_impl; [|exact F].
    intros it [H|H]; [exact (Qj_snap cl it ND HJ H)|exact (Qj_snap cl' it ND' HJ' H)].
  Qed.

  Lemma Forall_Qj_noreq lt : Forall noreq lt -> Forall Qj lt.
  Proof. intros F. eapply Forall_impl; [|exact F]. apply Qj_noreq. Qed.

  (* items that are not an accepted inventory-namespace create *)
  Definition nonsc (it : item) : Prop :=
    match it with IReq (RNsCreate _) true _ _ => False | _ => True end.
  Lemma nonsc_snap cl it : snap_of cl it -> nonsc it.
  Proof. intros [r [ok [-> H]]]. destruct r; cbn in *; try exact I. subst ok. exact I. Qed.
  Lemma nonsc_noreq it : noreq it -> nonsc it.
  Proof. destruct it; cbn; tauto. Qed.

  Lemma nscreated_frame l t j : Forall nonsc l -> nscreated (l ++ t) j -> nscreated t j.
  Proof.
    intros F [m [st H]]. apply in_app_or in H. destruct H as [H|H]; [|exists m, st; exact H].
    rewrite Forall_forall in F. specialize (F _ H). cbn in F. destruct F.
  Qed.
  Lemma nscreated_mono l t j : nscreated t j -> nscreated (l ++ t) j.
  Proof. intros [m [st H]]. exists m, st. apply in_or_app. right. exact H. Qed.

  (* ---- the per-identifier invariant is local ------------------------------------------- *)
  Lemma ling_tv s s' j : tv s' j = tv s j -> ling s j -> ling s' j.
  Proof. intros E [UF [NA [c' [H0 HT]]]]. split; [exact UF|]. split; [exact NA|]. exists c'. split; [exact H0|]. rewrite E. exact HT. Qed.

  Lemma rcok_mono s s' tw tw' j : rc s' j = rc s j -> (In j tw -> In j tw') -> rcok s tw j -> rcok s' tw' j.
  Proof. unfold rcok. intros -> H. tauto. Qed.

  Lemma Loc_frame_rc s s' td td' tw tw' j l :
    fo (r_cl s') j = fo (r_cl s) j -> tv s' j = tv s j ->
    (In j (r_aband s') <-> In j (r_aband s)) -> (In j td' <-> In j td) ->
    r_tr s' = l ++ r_tr s -> (nscreated (l ++ r_tr s) j -> nscreated (r_tr s) j) ->
    (In j pids -> ling s j -> rcok s tw j -> rcok s' tw' j) ->
    Loc s td tw j -> Loc s' td' tw' j.
  Proof.
    intros Hf Ht Ha Hd Htr Hn Hrc [A1 A2 A3 A4 A5 A6 A7 A8 A9 A10 A11 A12].
    constructor; rewrite ?Hf, ?Ht.
    - exact A1.
    - exact A2.
    - exact A3.
    - intros c Hc Ho. destruct (A4 c Hc Ho) as [H|[H|H]]; [left; exact H|right; left; exact H|].
      right; right. rewrite Htr. apply nscreated_mono. exact H.
    - intros c Hc Ho Hp. destruct (A5 c Hc Ho Hp) as [a [u [H1 [H2 H3]]]]. exists a, u.
      split; [exact H1|]. split; [tauto|]. intros Ea. destruct (H3 Ea) as [L R].
      split; [exact (ling_tv s s' j Ht L)|exact (Hrc Hp L R)].
    - intros H. apply A6. tauto.
    - intros st u H. apply Hd. eapply A7. exact H.
    - intros u Hu. destruct (A8 u Hu) as [g Hg]. exists g. rewrite Htr. apply in_or_app. right. exact Hg.
    - intros u Hu. destruct (A9 u Hu) as [g Hg]. exists g. rewrite Htr. apply in_or_app. right. exact Hg.
    - intros H. apply A10. tauto.
    - intros H. apply A11. rewrite Htr in H. apply Hn. exact H.
    - exact A12.
  Qed.

  Lemma Loc_frame_gen s s' td td' tw tw' j l :
    fo (r_cl s') j = fo (r_cl s) j -> tv s' j = tv s j -> rc s' j = rc s j ->
    (In j (r_aband s') <-> In j (r_aband s)) -> (In j td' <-> In j td) -> (In j tw -> In j tw') ->
    r_tr s' = l ++ r_tr s -> (nscreated (l ++ r_tr s) j -> nscreated (r_tr s) j) ->
    Loc s td tw j -> Loc s' td' tw' j.
  Proof.
    intros Hf Ht Hr Ha Hd Hw Htr Hn. apply (Loc_frame_rc s s' td td' tw tw' j l); auto.
    intros _ _. apply rcok_mono; assumption.
  Qed.

  Lemma Loc_frame s s' td td' tw tw' j l :
    fo (r_cl s') j = fo (r_cl s) j -> tv s' j = tv s j -> rc s' j = rc s j ->
    (In j (r_aband s') <-> In j (r_aband s)) -> (In j td' <-> In j td) -> (In j tw -> In j tw') ->
    r_tr s' = l ++ r_tr s -> Forall nonsc l ->
    Loc s td tw j -> Loc s' td' tw' j.
  Proof.
    intros Hf Ht Hr Ha Hd Hw Htr Hn. apply (Loc_frame_gen s s' td td' tw tw' j l); auto. apply nscreated_frame. exact Hn.
  Qed.

  (* ---- steps that touch neither cluster, actuations nor the abandoned set ---------------- *)
  (* (events only: the actuation table and the status cache are untouched) *)
  Lemma Big_quiet f td tw s s' : quiet s s' -> r_tbl s' = r_tbl s -> r_cache s' = r_cache s ->
    Big f td tw s -> Big f td tw s'.
  Proof.
    intros [Q1 [Q2 [Q3 [Q4 [l [Q5 Q6]]]]]] ET EC [A1 A2 A3 A4 A5 A6 A7 A8 A9].
    constructor; rewrite ?Q1, ?Q3; try assumption.
    - intros j. apply (Loc_frame s s' td td tw tw j l); try rewrite Q1; try rewrite Q2; try tauto.
      + apply Q4.
      + unfold rc. rewrite ET. reflexivity.
      + eapply Forall_impl; [|exact Q6]. apply nonsc_noreq.
      + apply A8.
    - unfold PipelineOrphansWait.cacheok. rewrite EC. exact A9.
  Qed.

  Lemma stepj_quiet f td tw s s' : quiet s s' -> r_tbl s' = r_tbl s -> r_cache s' = r_cache s ->
    stepj f td tw f td tw s s'.
  Proof.
    intros Q ET EC. pose proof Q as [Q1 [Q2 [Q3 [Q4 [l [Q5 Q6]]]]]]. exists l. split; [exact Q5|].
    intros _ I0. split; [|apply Forall_Qj_noreq; exact Q6].
    unfold Ij in *. destruct dry; [congruence|]. eapply Big_quiet; eassumption.
  Qed.

  Lemma stepj_ev f td tw s e : stepj f td tw f td tw s (ev s e).
  Proof. apply stepj_quiet; [apply quiet_ev|reflexivity|reflexivity]. Qed.

  (* the wait-todo set may grow *)
  Lemma Big_tw f td tw tw' s : (forall j, In j tw -> In j tw') -> Big f td tw s -> Big f td tw' s.
  Proof.
    intros H [A1 A2 A3 A4 A5 A6 A7 A8 A9]. constructor; try assumption.
    intros j. apply (Loc_frame s s td td tw tw' j []); try tauto; try reflexivity; [apply H|constructor|apply A8].
  Qed.
  Lemma Ij_tw f td tw tw' s : (forall j, In j tw -> In j tw') -> Ij f td tw s -> Ij f td tw' s.
  Proof. unfold Ij. intros H. destruct dry; [auto|apply Big_tw; exact H]. Qed.

  (* ---- the cluster-level property under the three kinds of object change ------------------- *)
  Lemma tracked_inv cl cl' k : inv cl' = inv cl -> tracked sc c0 cl k -> tracked sc c0 cl' k.
  Proof. unfold tracked. intros ->. tauto. Qed.

  Lemma J_applied cl cl' i u : J sc c0 cl -> applied cl cl' i u -> In i aids -> merged cl -> J sc c0 cl'.
  Proof.
    intros HJ [[F1 [F2 _]] _] Hi [L [M1 M2]] k c Hc Ho.
    destruct (Nat.eq_dec k i) as [->|Hk].
    - right. rewrite F1, M1. apply M2. exact Hi.
    - rewrite (F2 k Hk) in Hc. eapply tracked_inv; [exact F1|]. eapply HJ; eassumption.
  Qed.

  Lemma J_shrink cl cl' : inv cl' = inv cl ->
    (forall k c, fo cl' k = Some c -> c_owner c = OOurs -> exists c', fo cl k = Some c' /\ c_owner c' = OOurs) ->
    J sc c0 cl -> J sc c0 cl'.
  Proof.
    intros E H HJ k c Hc Ho. destruct (H k c Hc Ho) as [c' [H1 H2]].
    eapply tracked_inv; [exact E|]. eapply HJ; eassumption.
  Qed.

  Lemma J_detached cl cl' i u : J sc c0 cl -> detached cl cl' i u -> J sc c0 cl'.
  Proof.
    intros HJ [[F1 [F2 _]] [n [N1 [N2 _]]]]. apply (J_shrink cl cl' F1); [|exact HJ].
    intros k c Hc Ho. destruct (Nat.eq_dec k i) as [->|Hk].
    - rewrite N1 in Hc. injection Hc as <-. congruence.
    - rewrite (F2 k Hk) in Hc. exists c. auto.
  Qed.

  Lemma J_deleted cl cl' i : J sc c0 cl -> deleted cl cl' i -> J sc c0 cl'.
  Proof.
    intros HJ [[F1 [F2 _]] N1]. apply (J_shrink cl cl' F1); [|exact HJ].
    intros k c Hc Ho. destruct (Nat.eq_dec k i) as [->|Hk].
    - rewrite N1 in Hc. discriminate.
    - rewrite (F2 k Hk) in Hc. exists c. auto.
  Qed.

  (* ---- a step that rewrites the record of one id ---------------------------------------------- *)
  Lemma tv_self s s' r : r_tbl s' = set_status Nat.eqb (r_tbl s) r -> tv s' (r_id r) = Some (tcore r).
  Proof. intros E. unfold tv. rewrite E, tvl_set_status, Nat.eqb_refl. reflexivity. Qed.

  Lemma tv_other s s' r j : r_tbl s' = set_status Nat.eqb (r_tbl s) r -> j <> r_id r -> tv s' j = tv s j.
  Proof.
    intros E H. unfold tv. rewrite E, tvl_set_status.
    destruct (Nat.eqb (r_id r) j) eqn:X; [apply Nat.eqb_eq in X; congruence|reflexivity].
  Qed.

  Lemma rc_other s s' r j : r_tbl s' = set_status Nat.eqb (r_tbl s) r -> j <> r_id r -> rc s' j = rc s j.
  Proof.
    intros E H. unfold rc. rewrite E, rcl_set_status.
    destruct (Nat.eqb (r_id r) j) eqn:X; [apply Nat.eqb_eq in X; congruence|reflexivity].
  Qed.

  Lemma Loc_other s s' td td' tw i j r lt' :
    j <> i -> r_id r = i ->
    (forall k, k <> i -> fo (r_cl s') k = fo (r_cl s) k) ->
    r_tbl s' = set_status Nat.eqb (r_tbl s) r ->
    (r_aband s' = r_aband s \/ r_aband s' = i :: r_aband s) ->
    (forall k, k <> i -> (In k td' <-> In k td)) ->
    r_tr s' = lt' ++ r_tr s -> Forall nonsc lt' ->
    Loc s td tw j -> Loc s' td' tw j.
  Proof.
    intros Hj Hr Hf Ht Ha Hd Htr Hn HL. apply (Loc_frame s s' td td' tw tw j lt'); auto.
    - eapply tv_other; [exact Ht|intros X; apply Hj; rewrite X; exact Hr].
    - eapply rc_other; [exact Ht|intros X; apply Hj; rewrite X; exact Hr].
    - destruct Ha as [-> | ->]; [tauto|]. cbn. split; [intros [X|X]; [congruence|exact X]|auto].
  Qed.

  Lemma okuid_applied s td tw cl' i u : (next_uid c0 <= next_uid (r_cl s))%N -> Loc s td tw i ->
    applied (r_cl s) cl' i u -> okuid i u.
  Proof.
    intros Hn HL [_ [n [_ [_ [_ [[c [Hc Hu]]|[_ Hu]]]]]]].
    - subst u. eapply L_uid; eassumption.
    - right. eapply N.le_trans; eassumption.
  Qed.

  (* an object of an apply layer as the plan builds it: a manifest of the apply set whose references are
     among its dependencies in the graph (so that the dependency filter has looked at every source the
     apply-time mutator looks up) *)
  Definition local_ok' (p : pobj) : Prop :=
    exists l, p_local p = Some l /\ l_id l = p_id p /\ In (p_id p) aids /\
              incl (l_deps l) (g_deps (pl_graph pl) (p_id p)).

  Lemma j_apply_one g td tw s p : local_ok' p ->
    stepj P1 (p_id p :: td) tw P1 td tw s (apply_one sc pl g s p).
  Proof.
    intros [l [EL [EI [Hi HG]]]].
    destruct (apply_one_spec sc pl g s p l EL EI) as [SA [a [u [gen [lt [ST [STR [SF SO]]]]]]]]. cbv zeta in *.
    set (i := p_id p) in *. set (s' := apply_one sc pl g s p) in *.
    exists (IEv (EApply g i (ast_of a)) :: lt). split; [exact STR|].
    intros _ I0. unfold Ij in *. destruct dry eqn:ED.
    { (* dry-run: nothing changes *)
      assert (C : r_cl s' = c0).
      { destruct SO as [[_ C]|[[_ [_ C]]|[_ [D _]]]]; [congruence|congruence|discriminate]. }
      split; [exact C|]. constructor; [exact I|]. rewrite C, I0 in SF. apply Forall_snap2_same in SF.
      eapply Forall_Qj_snap; [exact c0_nodup|apply J_c0|exact SF]. }
    destruct I0 as [A1 A2 A3 A4 A5 A6 A7 A8 A9].
    assert (NDtd : NoDup td) by (inversion A3; assumption).
    assert (Hnot : ~ In i td) by (inversion A3; assumption).
    pose proof (A8 i) as Li.
    assert (PEND : exists st0 u0, tv s i = Some (st0, APending, u0)) by (apply (L_pend _ _ _ _ Li); left; reflexivity).
    assert (TVi : tv s' i = Some (SApply, a, u)) by (exact (tv_self s s' _ ST)).
    assert (NS : Forall nonsc (IEv (EApply g i (ast_of a)) :: lt)).
    { constructor; [exact I|]. eapply Forall_impl; [|exact SF]. intros it [X|X]; eapply nonsc_snap; exact X. }
    assert (FR : frame (r_cl s) (r_cl s') i).
    { destruct SO as [[_ C]|[[_ [_ C]]|[_ [_ [C _]]]]]; [rewrite C; apply frame_refl|rewrite C; apply frame_refl|exact C]. }
    destruct FR as [F1 [F2 [F3 F4]]].
    assert (OTHER : forall j, j <> i -> Loc s' td tw j).
    { intros j Hj.
      apply (Loc_other s s' (i :: td) td tw i j (mkRec i SApply a RPending u gen) (IEv (EApply g i (ast_of a)) :: lt) Hj eq_refl F2 ST (or_introl SA));
        [|exact STR|exact NS|apply A8].
      intros k Hk. cbn. split; [auto|intros [X|X]; [congruence|exact X]]. }
    assert (NOAB : ~ In i (r_aband s)).
    { intros X. destruct (L_ab _ _ _ _ Li X) as [u1 E1]. destruct (L_reg _ _ _ _ Li Hi) as [a2 [u2 E2]]. congruence. }
    assert (JS' : J sc c0 (r_cl s')).
    { destruct SO as [[_ C]|[[_ [D _]]|[_ [_ C]]]]; [rewrite C; exact A5|discriminate|].
      eapply J_applied; [exact A5|exact C|exact Hi|apply A7; reflexivity]. }
    assert (ND' : NoDup (ids_of (r_cl s'))) by (apply F3; exact A1).
    split.
    2:{ constructor; [exact I|]. eapply (Forall_Qj_snap2 (r_cl s) (r_cl s')); eassumption. }
    constructor.
    - exact ND'.
    - rewrite ST. apply (keys_set_status id Nat.eqb nat_eqb_spec). exact A2.
    - exact NDtd.
    - eapply N.le_trans; eassumption.
    - exact JS'.
    - discriminate.
    - intros _. destruct (A7 eq_refl) as [L [M1 M2]]. exists L. rewrite F1. auto.
    - intros j. destruct (Nat.eq_dec j i) as [->|Hj]; [|apply OTHER; exact Hj].
      destruct SO as [[Ha C]|[[_ [D _]]|[Ha [_ C]]]]; [|discriminate|].
      + (* failed or skipped: the cluster is unchanged *)
        constructor; rewrite ?C, ?TVi, ?SA.
        * apply (L_uid _ _ _ _ Li).
        * intros st0 a0 u0 [= <- <- <-] _. split; [exact Hi|]. intros ->. destruct Ha; discriminate.
        * intros _. eauto.
        * intros c Hc Ho. destruct (L_orig _ _ _ _ Li c Hc Ho) as [H|[[u1 H]|H]]; [left; exact H| |].
          -- destruct PEND as [st0 [u0 E]]. congruence.
          -- right; right. rewrite STR. apply (nscreated_mono (_ :: lt)). exact H.
        * intros c _ _ Hp. exfalso. exact (pl_disj i Hi Hp).
        * intros X. contradiction.
        * intros st0 u0 E. injection E as _ E2 _. subst a. destruct Ha; discriminate.
        * intros u0 [= -> _]. exists g. rewrite STR. left. reflexivity.
        * intros u0 [= -> _]. exists g. rewrite STR. left. reflexivity.
        * intros X. contradiction.
        * intros _. exact Hi.
        * apply (L_keep _ _ _ _ Li).
      + (* applied *)
        subst a. pose proof (okuid_applied s _ _ _ i u A4 Li C) as OKU.
        destruct C as [_ [n [N1 [N2 [N3 _]]]]].
        constructor; rewrite ?TVi, ?SA.
        * intros c Hc. rewrite N1 in Hc. injection Hc as <-. rewrite N3. exact OKU.
        * intros st0 a0 u0 [= <- <- <-] _. split; [exact Hi|]. intros _. exact OKU.
        * intros _. eauto.
        * intros c _ _. right; left. eauto.
        * intros c _ _ Hp. exfalso. exact (pl_disj i Hi Hp).
        * intros X. contradiction.
        * intros st0 u0 E. discriminate E.
        * intros u0 E. discriminate E.
        * intros u0 E. discriminate E.
        * intros X. contradiction.
        * intros _. exact Hi.
        * intros _ _. rewrite N1. discriminate.
    - (* what the mutator Put into the cache is about sources that passed the dependency filter: apply ids *)
      unfold PipelineOrphansWait.cacheok. unfold s'.
      destruct (cache_apply_one sc pl g s p) as [ex [EC HX]]. rewrite EC. intros o Ho.
      apply in_app_or in Ho. destruct Ho as [Ho|Ho]; [|exact (A9 o Ho)]. left.
      destruct (HX o Ho) as [l0 [EL0 [_ [HS [_ DF]]]]]. rewrite EL in EL0. injection EL0 as <-.
      destruct (dep_filter_pass_rec sc pl _ _ _ DF (s_id o) (HG _ HS)) as [_ [r [Lr [Sr _]]]].
      assert (TVo : tv s (s_id o) = Some (SApply, r_act r, r_uid r)).
      { unfold tv, tvl. unfold id in *. rewrite Lr. cbn [option_map]. unfold tcore. unfold id in *. rewrite Sr. reflexivity. }
      exact (proj1 (L_app _ _ _ _ (A8 (s_id o)) _ _ _ TVo eq_refl)).
  Qed.

  Lemma j_apply_task g td tw s layer : Forall local_ok' layer ->
    stepj P1 (map p_id layer ++ td) tw P1 td tw s (apply_task sc pl g s layer).
  Proof.
    unfold apply_task. revert s. induction layer as [|p t IH]; intros s F; cbn [fold_left map app].
    - apply stepj_refl.
    - inversion F as [|? ? Fp Ft]; subst.
      eapply stepj_trans; [apply j_apply_one; exact Fp|apply IH; exact Ft].
  Qed.

  (* ---- prune ------------------------------------------------------------------------------------ *)
  (* UIDs recorded for successful applies: of apply ids, legitimate *)
  Definition uids_ok (uids : list N) : Prop := forall u, In u uids -> exists j, In j aids /\ okuid j u.

  Lemma no_alias uids c : uids_ok uids -> In (pobj_of_live c) (pl_prune pl) -> ~ In (c_uid c) uids.
  Proof.
    intros HU Hc Hin. pose proof (pl_prune_c0 c Hc) as H0.
    destruct (HU _ Hin) as [j [Hj [[c' [H1 H2]]|H]]].
    - pose proof (c0_uid_inj j (c_id c) c' c H1 H0 H2) as E. subst j.
      apply (pl_disj (c_id c) Hj). unfold pids. apply in_map_iff. exists (pobj_of_live c). auto.
    - pose proof (c0_uid_lt _ _ H0) as LT. apply N.lt_nge in LT. contradiction.
  Qed.

  Lemma j_prune_one locals g uids f td tw s p : (dry = false -> uids_ok uids) -> prune_ok pl p ->
    (dry = false -> In (p_id p) tw) ->
    stepj f (p_id p :: td) tw f td tw s (prune_one sc pl locals g uids s p).
  Proof.
    intros HU0 [c [-> Hc]] HW0. cbn [p_id pobj_of_live] in *.
    destruct (prune_one_spec sc pl locals g uids s c) as [a [u [ab [lt [ST [SA [STR [SF [SD SO]]]]]]]]]. cbv zeta in *.
    set (i := c_id c) in *. set (s' := prune_one sc pl locals g uids s (pobj_of_live c)) in *.
    exists (IEv (EPrune g i (ast_of a)) :: lt). split; [exact STR|].
    intros _ I0. unfold Ij in *. destruct dry eqn:ED.
    { assert (C : r_cl s' = c0) by (rewrite (SD eq_refl); exact I0).
      split; [exact C|]. constructor; [exact I|]. rewrite C in SF.
      eapply Forall_Qj_snap; [exact c0_nodup|apply J_c0|exact SF]. }
    destruct I0 as [A1 A2 A3 A4 A5 A6 A7 A8 A9]. pose proof (HU0 eq_refl) as HU. pose proof (HW0 eq_refl) as HW.
    assert (NDtd : NoDup td) by (inversion A3; assumption).
    assert (Hnot : ~ In i td) by (inversion A3; assumption).
    pose proof (A8 i) as Li.
    assert (Hp : In i pids) by (unfold pids; apply in_map_iff; exists (pobj_of_live c); auto).
    assert (NA : ~ In i aids) by (intros X; exact (pl_disj i X Hp)).
    pose proof (pl_prune_c0 c Hc) as Hc0. fold i in Hc0.
    assert (PEND : exists st0 u0, tv s i = Some (st0, APending, u0)) by (apply (L_pend _ _ _ _ Li); left; reflexivity).
    assert (TVi : tv s' i = Some (SDelete, a, u)) by (exact (tv_self s s' _ ST)).
    assert (RCi : rc s' i = Some RPending) by (unfold rc; rewrite ST, rcl_set_status; cbn [r_id r_rec]; rewrite Nat.eqb_refl; reflexivity).
    assert (NS : Forall nonsc (IEv (EPrune g i (ast_of a)) :: lt)).
    { constructor; [exact I|]. eapply Forall_impl; [|exact SF]. intros it. apply nonsc_snap. }
    assert (AB : r_aband s' = r_aband s \/ r_aband s' = i :: r_aband s) by (rewrite SA; destruct ab; auto).
    assert (NOAB : ~ In i (r_aband s)).
    { intros X. destruct (L_ab _ _ _ _ Li X) as [u1 E1]. destruct PEND as [st0 [u0 E0]]. congruence. }
    assert (ANP : a <> APending).
    { destruct SO as [[[-> | ->] _]|[[-> _]|[[-> _]|[[-> _]|[[-> _]|[-> _]]]]]]; discriminate. }
    (* the live object, if owned, was owned before the run *)
    assert (ORIG : forall c1, fo (r_cl s) i = Some c1 -> c_owner c1 = OOurs -> c_owner c = OOurs).
    { intros c1 H1 H2. destruct (L_orig _ _ _ _ Li c1 H1 H2) as [[c2 [H3 H4]]|[[u1 H]|H]].
      - rewrite Hc0 in H3. injection H3 as <-. exact H4.
      - destruct PEND as [st0 [u0 E0]]. congruence.
      - exfalso. apply NA. apply (L_ns _ _ _ _ Li H). }
    assert (FR : frame (r_cl s) (r_cl s') i).
    { destruct SO as [[_ [_ C]]|[[_ [_ [C _]]]|[[_ [_ [C _]]]|[[_ [_ [C _]]]|[[_ [_ [C _]]]|[_ [_ [C _]]]]]]]];
        try (rewrite C; apply frame_refl); exact C. }
    destruct FR as [F1 [F2 [F3 F4]]].
    assert (OTHER : forall j, j <> i -> Loc s' td tw j).
    { intros j Hj.
      apply (Loc_other s s' (i :: td) td tw i j (mkRec i SDelete a RPending u 0%Z) (IEv (EPrune g i (ast_of a)) :: lt) Hj eq_refl F2 ST AB);
        [|exact STR|exact NS|apply A8].
      intros k Hk. cbn. split; [auto|intros [X|X]; [congruence|exact X]]. }
    assert (JS' : J sc c0 (r_cl s')).
    { destruct SO as [[_ [_ C]]|[[_ [_ [C _]]]|[[_ [_ C]]|[[_ [_ [C _]]]|[[_ [_ C]]|[_ [_ [C _]]]]]]]];
        try (rewrite C; exact A5).
      - eapply J_detached; eassumption.
      - eapply J_deleted; eassumption. }
    assert (ND' : NoDup (ids_of (r_cl s'))) by (apply F3; exact A1).
    split.
    2:{ constructor; [exact I|]. eapply Forall_Qj_snap; eassumption. }
    constructor.
    - exact ND'.
    - rewrite ST. apply (keys_set_status id Nat.eqb nat_eqb_spec). exact A2.
    - exact NDtd.
    - eapply N.le_trans; eassumption.
    - exact JS'.
    - intros E. rewrite F1. apply A6. exact E.
    - intros E. destruct (A7 E) as [L [M1 M2]]. exists L. rewrite F1. auto.
    - intros j. destruct (Nat.eq_dec j i) as [->|Hj]; [|apply OTHER; exact Hj].
      (* what is known of object i afterwards *)
      assert (OBJ : forall c1, fo (r_cl s') i = Some c1 -> c_owner c1 = OOurs ->
                 fo (r_cl s) i = Some c1 /\ ~ In i (r_aband s') /\
                 (a = ASucceeded -> ling s' i /\ rcok s' tw i)).
      { intros c1 H1 H2.
        destruct SO as [[Ha [Hb C]]|[[Ha [Hb [C X]]]|[[Ha [Hb C]]|[[Ha [Hb [C X]]]|[[Ha [Hb C]]|[Ha [Hb [C [_ [EU [UF _]]]]]]]]]]].
        - rewrite C in H1. split; [exact H1|]. split; [rewrite SA, Hb; exact NOAB|].
          intros ->. destruct Ha; discriminate.
        - exfalso. rewrite C in H1. destruct X as [X|X].
          + exact (no_alias uids c HU Hc X).
          + pose proof (ORIG c1 H1 H2). congruence.
        - exfalso. destruct C as [_ [n [N1 [N2 _]]]]. rewrite N1 in H1. injection H1 as <-. congruence.
        - exfalso. rewrite C in H1. destruct X as [X|X]; [discriminate|]. congruence.
        - exfalso. destruct C as [_ N1]. congruence.
        - (* accepted, the finalizer keeps the object *)
          rewrite C in H1. split; [exact H1|]. split; [rewrite SA, Hb; exact NOAB|]. intros _.
          split.
          + split; [exact UF|]. split; [exact NA|]. exists c. split; [exact Hc0|]. rewrite TVi, Ha, EU. reflexivity.
          + right; right. split; [exact RCi|exact HW]. }
      constructor; rewrite ?TVi.
      + intros c1 H1.
        destruct SO as [[_ [_ C]]|[[_ [_ [C _]]]|[[_ [_ C]]|[[_ [_ [C _]]]|[[_ [_ C]]|[_ [_ [C _]]]]]]]];
          try (rewrite C in H1; apply (L_uid _ _ _ _ Li); exact H1).
        * destruct C as [_ [n [N1 [_ N3]]]]. rewrite N1 in H1. injection H1 as <-. rewrite N3.
          left. exists c. auto.
        * destruct C as [_ N1]. congruence.
      + intros st0 a0 u0 E X. subst st0. discriminate E.
      + intros X. contradiction.
      + intros c1 H1 H2. destruct (OBJ c1 H1 H2) as [H3 _].
        left. exists c. split; [exact Hc0|]. eapply ORIG; eassumption.
      + intros c1 H1 H2 _. destruct (OBJ c1 H1 H2) as [_ [H3 H4]]. exists a, u. auto.
      + intros X. contradiction.
      + intros st0 u0 E. injection E as _ E _. contradiction.
      + intros u0 E. discriminate E.
      + intros u0 E. discriminate E.
      + intros X. rewrite SA in X. destruct ab.
        * destruct SO as [[_ [Hb _]]|[[Ha _]|[[Ha _]|[[_ [Hb _]]|[[_ [Hb _]]|[_ [Hb _]]]]]]]; try discriminate; subst a; eauto.
        * contradiction.
      + intros X. apply (L_ns _ _ _ _ Li). rewrite STR in X. apply (nscreated_frame _ _ _ NS X).
      + intros X. contradiction.
    - unfold PipelineOrphansWait.cacheok. unfold s'. rewrite cache_prune_one. exact A9.
  Qed.

  Lemma j_prune_fold locals g uids f td tw layer : (dry = false -> uids_ok uids) -> Forall (prune_ok pl) layer ->
    (dry = false -> forall p, In p layer -> In (p_id p) tw) ->
    forall s, stepj f (map p_id layer ++ td) tw f td tw s (fold_left (prune_one sc pl locals g uids) layer s).
  Proof.
    intros HU. induction layer as [|p t IH]; intros F HW s; cbn [fold_left map app].
    - apply stepj_refl.
    - inversion F as [|? ? Fp Ft]; subst.
      eapply stepj_trans; [apply j_prune_one; [exact HU|exact Fp|intros D; apply (HW D); left; reflexivity]|].
      apply IH; [exact Ft|]. intros D q Hq. apply (HW D). right. exact Hq.
  Qed.

  (* a step whose justification needs the invariant of the state it starts from *)
  Lemma stepj_cond f td tw f' td' tw' s s' :
    (exists l, r_tr s' = l ++ r_tr s) -> (Ij f td tw s -> stepj f td tw f' td' tw' s s') -> stepj f td tw f' td' tw' s s'.
  Proof.
    intros [l E] H. exists l. split; [exact E|]. intros KF I0.
    destruct (H I0) as [l' [E' H']]. assert (l' = l) by (eapply app_inv_tail; rewrite <- E, <- E'; reflexivity).
    subst l'. exact (H' KF I0).
  Qed.

  Lemma prune_fold_ext locals g uids layer : Forall (prune_ok pl) layer ->
    forall s, exists l, r_tr (fold_left (prune_one sc pl locals g uids) layer s) = l ++ r_tr s.
  Proof.
    induction layer as [|p t IH]; intros F s; cbn [fold_left]; [exists []; reflexivity|].
    inversion F as [|? ? [c [-> Hc]] Ft]; subst.
    destruct (prune_one_spec sc pl locals g uids s c) as [a [u [ab [lt [_ [_ [STR _]]]]]]]. cbv zeta in STR.
    destruct (IH Ft (prune_one sc pl locals g uids s (pobj_of_live c))) as [l E].
    exists (l ++ IEv (EPrune g (c_id c) (ast_of a)) :: lt). rewrite E, STR, <- app_assoc. reflexivity.
  Qed.

  Lemma Big_uids_ok f td tw s : Big f td tw s -> uids_ok (applied_uids (r_tbl s)).
  Proof.
    intros B u Hu. destruct (applied_uids_tv _ _ (B_keys _ _ _ _ B) Hu) as [i Hi].
    destruct (L_app _ _ _ _ (B_loc _ _ _ _ B i) _ _ _ Hi eq_refl) as [H1 H2]. exists i. auto.
  Qed.

  Lemma j_prune_task locals g f td tw s layer : Forall (prune_ok pl) layer ->
    (dry = false -> forall p, In p layer -> In (p_id p) tw) ->
    stepj f (map p_id layer ++ td) tw f td tw s (prune_task sc pl locals g s layer).
  Proof.
    intros F HW. unfold prune_task. apply stepj_cond; [apply prune_fold_ext; exact F|].
    intros I0. apply j_prune_fold; [|exact F|exact HW].
    intros D. unfold Ij in I0. rewrite D in I0. eapply Big_uids_ok; exact I0.
  Qed.

  (* ---- wait ------------------------------------------------------------------------------------- *)
  (* a wait phase over ids: the invariant is kept with the same wait-todo set tw; if the phase ends
     without setting the abort flag, no id of its set is left Pending, so ids may leave tw.
     An AllCurrent phase waits for apply ids only: it never touches the record of a prune id. *)
  Lemma j_wait_task c g ids f td tw tw' s :
    (c = AllCurrent -> forall j, In j ids -> In j aids) ->
    (c = AllNotFound -> forall j, In j ids -> In j tw) ->
    (forall j, In j tw -> In j ids \/ In j tw') ->
    let s' := wait_task sc c g ids s in
    stepj f td tw f td tw s s' /\ (r_abort s' = false -> stepj f td tw f td tw' s s').
  Proof.
    intros HC HN HT. cbv zeta.
    pose proof (q_wait_task sc c g ids s) as Q.
    set (s' := wait_task sc c g ids s) in *.
    destruct Q as [Q1 [Q2 [Q3 [Q4 [l [Q5 Q6]]]]]].
    assert (CORE : Ij f td tw s -> Ij f td tw s' /\ (r_abort s' = false -> Ij f td tw' s')).
    { unfold Ij. destruct dry; [intros E; split; [|intros _]; congruence|].
      intros [A1 A2 A3 A4 A5 A6 A7 A8 A9].
      destruct (wait_task_fin sc c0 aids c g ids s A9 fin_deliv) as [W1 [W2 [W3 W4]]]. fold s' in W1, W2, W3, W4.
      assert (MK : forall twx, (forall j, In j pids -> ling s j -> rcok s tw j -> rcok s' twx j) -> Big f td twx s').
      { intros twx HR. constructor; rewrite ?Q1, ?Q3; try assumption.
        intros j. apply (Loc_frame_rc s s' td td tw twx j l); try rewrite Q1; try rewrite Q2; try tauto.
        - apply Q4.
        - apply nscreated_frame. eapply Forall_impl; [|exact Q6]. apply nonsc_noreq.
        - apply HR.
        - apply A8. }
      (* how the status of a lingering prune id moves *)
      assert (MOVE : forall j, In j pids -> ling s j -> rcok s tw j ->
                (~ In j ids /\ rc s' j = rc s j) \/ (In j ids /\ c = AllNotFound /\ rc3 (rc s' j))).
      { intros j Hp L R. destruct (in_dec Nat.eq_dec j ids) as [X|X]; [right|left; split; [exact X|apply W2; exact X]].
        assert (EC : c = AllNotFound).
        { destruct c; [exfalso|reflexivity]. exact (pl_disj j (HC eq_refl j X) Hp). }
        split; [exact X|]. split; [exact EC|]. apply (W3 EC j L).
        unfold rc3. destruct R as [R|[R|[R _]]]; auto. }
      split.
      - apply MK. intros j Hp L R. destruct (MOVE j Hp L R) as [[X E]|[X [EC R3]]].
        + unfold rcok in *. rewrite E. exact R.
        + unfold rcok. destruct R3 as [E|[E|E]]; [|auto|auto]. right; right. split; [exact E|exact (HN EC j X)].
      - intros AB. apply MK. intros j Hp L R. destruct (MOVE j Hp L R) as [[X E]|[X [EC R3]]].
        + unfold rcok in *. rewrite E. destruct R as [R|[R|[R T]]]; [auto|auto|]. right; right. split; [exact R|].
          destruct (HT j T) as [Y|Y]; [contradiction|exact Y].
        + unfold rcok. destruct R3 as [E|[E|E]]; [|auto|auto]. exfalso. exact (W4 AB j X E). }
    split; [|intros AB]; exists l; (split; [exact Q5|]); intros _ I0;
      (split; [|apply Forall_Qj_noreq; exact Q6]); apply CORE; assumption.
  Qed.

  (* ---- inventory writes --------------------------------------------------------------------------- *)
  Lemma fo_invchg cl cl' j : invchg cl cl' -> fo cl' j = fo cl j.
  Proof. intros [E _]. unfold fo. rewrite E. reflexivity. Qed.

  Lemma Big_invchg f f' td tw s1 s' lt :
    Big f td tw s1 -> r_tbl s' = r_tbl s1 -> r_cache s' = r_cache s1 -> r_aband s' = r_aband s1 ->
    invchg (r_cl s1) (r_cl s') ->
    r_tr s' = lt ++ r_tr s1 -> Forall nonsc lt -> J sc c0 (r_cl s') ->
    (f' = P0 -> inv (r_cl s') = inv c0) -> (f' = P1 -> merged (r_cl s')) -> Big f' td tw s'.
  Proof.
    intros [A1 A2 A3 A4 A5 A6 A7 A8 A9] Ht Hk Ha Hc Htr Hn HJ H0 H1.
    constructor; try assumption.
    - unfold ids_of. rewrite (proj1 Hc). exact A1.
    - rewrite Ht. exact A2.
    - rewrite (proj2 Hc). exact A4.
    - intros j. apply (Loc_frame s1 s' td td tw tw j lt); auto.
      + apply fo_invchg. exact Hc.
      + unfold tv. rewrite Ht. reflexivity.
      + unfold rc. rewrite Ht. reflexivity.
      + rewrite Ha. tauto.
      + tauto.
    - unfold PipelineOrphansWait.cacheok. rewrite Hk. exact A9.
  Qed.

  (* the stored inventory is replaced by keys L that cover every owned, non-exempt object *)
  Lemma J_rewrite cl cl' L : invchg cl cl' -> inv cl' = Some L ->
    (forall j c, fo cl j = Some c -> c_owner c = OOurs -> In j (exempt0 c0) \/ In j L) -> J sc c0 cl'.
  Proof.
    intros Hc Hi H j c Hj Ho. rewrite (fo_invchg _ _ j Hc) in Hj.
    destruct (H j c Hj Ho) as [X|X]; [left; exact X|right; rewrite Hi; exact X].
  Qed.

  Definition with4 (s : rst) (cl : cluster) (tr : list item) : rst :=
    mkR cl (r_tbl s) (r_cache s) (r_aband s) (r_nlist s) (r_nget s) (r_nwrite s) (r_gets s) tr (r_abort s) (r_known s).

  Lemma Big_ns_created td tw s cl1 n u :
    Big P0 td tw s -> sc_inv_ns sc = Some n -> In n aids -> fo (r_cl s) n = None -> applied (r_cl s) cl1 n u ->
    Big P0 td tw (with4 s cl1 (IReq (RNsCreate n) true (managed cl1) (stored cl1) :: r_tr s)).
  Proof.
    intros [A1 A2 A3 A4 A5 A6 A7 A8 A9] EN Hn Hnone AP.
    pose proof (okuid_applied s td tw cl1 n u A4 (A8 n) AP) as OKU.
    destruct AP as [[F1 [F2 [F3 F4]]] [o [N1 [N2 [N3 _]]]]].
    set (s1 := with4 s cl1 _).
    assert (HJ : J sc c0 cl1).
    { intros k c Hc Ho. destruct (Nat.eq_dec k n) as [->|Hk].
      - right. rewrite F1, (A6 eq_refl). pose proof (c0_ns n) as NSH.
        destruct (inv c0) as [l0|] eqn:E0; [|auto].
        destruct (NSH l0 EN eq_refl) as [X|X]; [|exact X].
        exfalso. apply (L_keep _ _ _ _ (A8 n) Hn X). exact Hnone.
      - rewrite (F2 k Hk) in Hc. eapply tracked_inv; [exact F1|]. eapply A5; eassumption. }
    constructor; try assumption.
    - apply F3. exact A1.
    - eapply N.le_trans; eassumption.
    - intros _. cbn. rewrite F1. apply A6. reflexivity.
    - discriminate.
    - intros j. destruct (Nat.eq_dec j n) as [->|Hj].
      + destruct (A8 n) as [B1 B2 B3 B4 B5 B6 B7 B8 B9 B10 B11 B12].
        constructor; try assumption.
        * cbn. intros c Hc. rewrite N1 in Hc. injection Hc as <-. rewrite N3. exact OKU.
        * cbn. intros c _ _. right; right. exists (managed cl1), (stored cl1). left. reflexivity.
        * cbn. intros c _ _ Hp. exfalso. exact (pl_disj n Hn Hp).
        * cbn. intros u0 H. destruct (B8 u0 H) as [g Hg]. exists g. right. exact Hg.
        * cbn. intros u0 H. destruct (B9 u0 H) as [g Hg]. exists g. right. exact Hg.
        * intros _. exact Hn.
        * cbn. intros _ _. rewrite N1. discriminate.
      + apply (Loc_frame_gen s s1 td td tw tw j [IReq (RNsCreate n) true (managed cl1) (stored cl1)]); try tauto; try reflexivity.
        * apply F2. exact Hj.
        * intros [m [st [H|H]]]; [injection H as H; congruence|exists m, st; exact H].
        * apply A8.
  Qed.

  Lemma prev0_nil : inv c0 = None -> forall j, ~ In j prev0.
  Proof. intros E j. unfold inv0. rewrite E. intros []. Qed.

  Lemma j_inv_add_task td tw s :
    stepj P0 td tw (if snd (inv_add_task sc pl s) then P1 else P2) td tw s (fst (inv_add_task sc pl s)).
  Proof.
    destruct (inv_add_task_spec sc pl s pl_local) as [ST [SA [cl1 [lt1 [lt2 [STR [NSS [IC [SF2 [OKF [OKT DRY]]]]]]]]]]].
    set (s' := fst (inv_add_task sc pl s)) in *. set (ok := snd (inv_add_task sc pl s)) in *.
    exists (lt2 ++ lt1). split; [rewrite STR, app_assoc; reflexivity|].
    intros _ I0. unfold Ij in *. destruct dry eqn:ED.
    { destruct NSS as [[-> F1]|[D _]]; [|discriminate].
      pose proof (DRY eq_refl) as C. split; [congruence|]. apply Forall_app. split.
      - rewrite C, I0 in SF2. eapply Forall_Qj_snap; [exact c0_nodup|apply J_c0|exact SF2].
      - rewrite I0 in F1. eapply Forall_Qj_snap; [exact c0_nodup|apply J_c0|exact F1]. }
    assert (B1 : exists s1, r_cl s1 = cl1 /\ r_tbl s1 = r_tbl s /\ r_cache s1 = r_cache s /\ r_aband s1 = r_aband s /\
                            r_tr s1 = lt1 ++ r_tr s /\ Big P0 td tw s1 /\ Forall Qj lt1).
    { destruct NSS as [[-> F1]|[_ [n [u [EN [Hn [Hnone [AP ->]]]]]]]].
      - exists (with4 s (r_cl s) (lt1 ++ r_tr s)). repeat (split; [reflexivity|]). split.
        + apply (Big_invchg P0 P0 td tw s _ lt1 I0); try reflexivity.
          * apply invchg_refl.
          * eapply Forall_impl; [|exact F1]. intros it. apply nonsc_snap.
          * exact (B_J _ _ _ _ I0).
          * intros _. exact (B_p0 _ _ _ _ I0 eq_refl).
          * discriminate.
        + eapply Forall_Qj_snap; [exact (B_nd _ _ _ _ I0)|exact (B_J _ _ _ _ I0)|exact F1].
      - exists (with4 s cl1 (IReq (RNsCreate n) true (managed cl1) (stored cl1) :: r_tr s)).
        repeat (split; [reflexivity|]).
        pose proof (Big_ns_created td tw s cl1 n u I0 EN Hn Hnone AP) as BB. split; [exact BB|].
        constructor; [|constructor]. cbn. split; [|discriminate].
        apply J_snap; [exact (B_nd _ _ _ _ BB)|exact (B_J _ _ _ _ BB)]. }
    destruct B1 as [s1 [E1 [E2 [EK [E3 [E4 [BB FQ1]]]]]]].
    assert (J' : J sc c0 (r_cl s')).
    { destruct ok eqn:EOK.
      - destruct (OKT eq_refl) as [[D _]|[L [M1 [M2 M3]]]]; [congruence|].
        apply (J_rewrite cl1 (r_cl s') L IC M1). intros j c Hc Ho.
        rewrite <- E1 in Hc. destruct (B_J _ _ _ _ BB j c Hc Ho) as [X|X]; [left; exact X|].
        rewrite E1 in X. destruct (inv cl1) as [cur|] eqn:EC.
        + right. eapply M3; [reflexivity|exact X].
        + destruct X as [X1 X2]. destruct (L_orig _ _ _ _ (B_loc _ _ _ _ BB j) c Hc Ho) as [H|[[u1 H]|H]].
          * destruct (owned0_exempt_or_prev c0 j H) as [Y|Y]; [left; exact Y|].
            exfalso. exact (prev0_nil X2 j Y).
          * right. apply M2. apply (L_app _ _ _ _ (B_loc _ _ _ _ BB j) _ _ _ H eq_refl).
          * right. apply M2. apply (L_ns _ _ _ _ (B_loc _ _ _ _ BB j) H).
      - rewrite (OKF eq_refl), <- E1. exact (B_J _ _ _ _ BB). }
    assert (BIG' : Big (if ok then P1 else P2) td tw s').
    { apply (Big_invchg P0 _ td tw s1 s' lt2 BB).
      - congruence.
      - unfold s'. rewrite cache_inv_add_task. congruence.
      - congruence.
      - rewrite E1. exact IC.
      - rewrite STR, E4. reflexivity.
      - eapply Forall_impl; [|exact SF2]. intros it. apply nonsc_snap.
      - exact J'.
      - destruct ok; discriminate.
      - destruct ok eqn:EOK; [|discriminate]. intros _.
        destruct (OKT eq_refl) as [[D _]|[L [M1 [M2 M3]]]]; [congruence|]. exists L. auto. }
    split; [exact BIG'|]. apply Forall_app. split; [|exact FQ1].
    eapply Forall_Qj_snap; [exact (B_nd _ _ _ _ BIG')|exact J'|exact SF2].
  Qed.

  (* ---- the inventory-set task: retention --------------------------------------------------------------- *)
  Lemma ds_true pv s : destroy_successful pl pv s = true ->
    with_actuation (r_tbl s) SDelete AFailed = [] /\
    diffn (with_actuation (r_tbl s) SDelete ASkipped) (r_aband s) = [] /\ intern pv (pl_invalid pl) = [].
  Proof.
    unfold destroy_successful. destruct (with_actuation (r_tbl s) SDelete AFailed); [|discriminate].
    destruct (with_reconcile (r_tbl s) RFailed); [|discriminate].
    destruct (with_reconcile (r_tbl s) RTimeout); [|discriminate].
    destruct (diffn _ _); [|discriminate]. destruct (intern _ _); [|discriminate]. auto.
  Qed.

  Lemma in_final pv s j : ~ In j (r_aband s) ->
    (In j (with_actuation (r_tbl s) SApply ASucceeded) \/
     In j pv /\ (In j (with_actuation (r_tbl s) SApply AFailed) \/ In j (with_actuation (r_tbl s) SApply ASkipped) \/
                 In j (with_actuation (r_tbl s) SDelete AFailed) \/ In j (with_actuation (r_tbl s) SDelete ASkipped))) ->
    In j (final_inventory pl pv s).
  Proof.
    intros NA H. unfold final_inventory. apply unionn_In. left. apply diffn_In. split; [|exact NA].
    rewrite !unionn_In, !intern_In. tauto.
  Qed.

  Lemma ds_true_rec pv s : destroy_successful pl pv s = true ->
    with_reconcile (r_tbl s) RFailed = [] /\ with_reconcile (r_tbl s) RTimeout = [].
  Proof.
    unfold destroy_successful. destruct (with_actuation (r_tbl s) SDelete AFailed); [|discriminate].
    destruct (with_reconcile (r_tbl s) RFailed); [|discriminate].
    destruct (with_reconcile (r_tbl s) RTimeout); [|discriminate]. auto.
  Qed.

  Lemma in_final_rec pv s j : ~ In j (r_aband s) -> In j pv ->
    In j (with_reconcile (r_tbl s) RFailed) \/ In j (with_reconcile (r_tbl s) RTimeout) ->
    In j (final_inventory pl pv s).
  Proof.
    intros NA Hp H. unfold final_inventory. apply unionn_In. left. apply diffn_In. split; [|exact NA].
    rewrite !unionn_In, !intern_In. tauto.
  Qed.

  Lemma retained f s : Big f [] [] s -> KFp prev0 (r_tr s) -> In (IEv (EStarted (GInvSet, 0))) (r_tr s) ->
    forall j c, fo (r_cl s) j = Some c -> c_owner c = OOurs ->
      In j (exempt0 c0) \/
      (In j (final_inventory pl prev0 s) /\
       (o_destroy (sc_opts sc) = true -> destroy_successful pl prev0 s = false)).
  Proof.
    intros B KF ST j c Hc Ho. pose proof (B_loc _ _ _ _ B j) as Lj. pose proof (B_keys _ _ _ _ B) as NDK.
    assert (NP : forall st u, tv s j = Some (st, APending, u) -> False).
    { intros st u H. exact (L_todo _ _ _ _ Lj st u H). }
    assert (WA : forall st a u, tv s j = Some (st, a, u) -> In j (with_actuation (r_tbl s) st a)).
    { intros st a u H. apply with_actuation_tv; [exact NDK|]. exists u. exact H. }
    (* an apply id: retained through its apply record *)
    assert (APP : In j aids -> (forall u, tv s j = Some (SApply, AFailed, u) \/ tv s j = Some (SApply, ASkipped, u) -> In j prev0) ->
                  In j (final_inventory pl prev0 s) /\ (o_destroy (sc_opts sc) = true -> destroy_successful pl prev0 s = false)).
    { intros Hin HP. split.
      2:{ intros D. rewrite (pl_destroy D) in Hin. destruct Hin. }
      destruct (L_reg _ _ _ _ Lj Hin) as [a [u E]].
      assert (NA : ~ In j (r_aband s)) by (intros X; destruct (L_ab _ _ _ _ Lj X) as [u1 E1]; congruence).
      apply in_final; [exact NA|]. destruct a.
      - exfalso. eapply NP. exact E.
      - left. eapply WA. exact E.
      - right. split; [apply (HP u); auto|]. right; left. eapply WA. exact E.
      - right. split; [apply (HP u); auto|]. left. eapply WA. exact E. }
    destruct (L_orig _ _ _ _ Lj c Hc Ho) as [H|[[u1 H]|H]].
    - (* owned before the run *)
      destruct (owned0_exempt_or_prev c0 j H) as [Y|Y]; [left; exact Y|right].
      destruct H as [c' [Hc' _]]. destruct (pl_cover j c' Hc' Y) as [Z|[Z|Z]].
      + apply APP; [exact Z|]. intros; exact Y.
      + split; [apply final_inventory_keeps_invalid; assumption|].
        intros _. destruct (destroy_successful pl prev0 s) eqn:DS; [|reflexivity].
        destruct (ds_true _ _ DS) as [_ [_ X]]. exfalso.
        assert (In j (intern prev0 (pl_invalid pl))) by (apply intern_In; auto). rewrite X in H. destruct H.
      + destruct (L_ret _ _ _ _ Lj c Hc Ho Z) as [a [u [E [NA LG]]]]. destruct a.
        * exfalso. eapply NP. exact E.
        * (* delete accepted, object held by a finalizer: retained through its reconcile status *)
          destruct (LG eq_refl) as [_ R].
          assert (RR : In j (with_reconcile (r_tbl s) RFailed) \/ In j (with_reconcile (r_tbl s) RTimeout)).
          { destruct R as [R|[R|[_ []]]]; [left|right]; apply with_reconcile_rc; assumption. }
          split; [apply in_final_rec; assumption|].
          intros _. destruct (destroy_successful pl prev0 s) eqn:DS; [|reflexivity].
          destruct (ds_true_rec _ _ DS) as [X1 X2]. exfalso. rewrite X1, X2 in RR. destruct RR as [[]|[]].
        * split; [apply in_final; [exact NA|]; right; split; [exact Y|]; right; right; right; eapply WA; exact E|].
          intros _. destruct (destroy_successful pl prev0 s) eqn:DS; [|reflexivity].
          destruct (ds_true _ _ DS) as [_ [X _]]. exfalso.
          assert (In j (diffn (with_actuation (r_tbl s) SDelete ASkipped) (r_aband s)))
            by (apply diffn_In; split; [eapply WA; exact E|exact NA]).
          rewrite X in H. destruct H.
        * split; [apply in_final; [exact NA|]; right; split; [exact Y|]; right; right; left; eapply WA; exact E|].
          intros _. destruct (destroy_successful pl prev0 s) eqn:DS; [|reflexivity].
          destruct (ds_true _ _ DS) as [X _]. exfalso.
          pose proof (WA _ _ _ E) as W. rewrite X in W. destruct W.
    - (* applied in this run *)
      right. apply APP; [apply (L_app _ _ _ _ Lj _ _ _ H eq_refl)|].
      intros u [X|X]; congruence.
    - (* the inventory namespace created by the inventory-add task *)
      right. apply APP; [apply (L_ns _ _ _ _ Lj H)|].
      intros u X. destruct (in_dec Nat.eq_dec j prev0) as [Y|Y]; [exact Y|].
      exfalso. destruct H as [m [st Hns]].
      destruct X as [X|X].
      + destruct (L_evf _ _ _ _ Lj u X) as [g Hg]. destruct (KF j m st g Y Hns ST) as [K _]. exact (K Hg).
      + destruct (L_evs _ _ _ _ Lj u X) as [g Hg]. destruct (KF j m st g Y Hns ST) as [_ K]. exact (K Hg).
  Qed.

  Lemma j_inv_set_task f prev s :
    In (IEv (EStarted (GInvSet, 0))) (r_tr s) -> (forall pv, prev = Some pv -> pv = prev0) ->
    stepj f [] [] P2 [] [] s (fst (inv_set_task sc pl prev s)).
  Proof.
    intros HST HP.
    destruct (inv_set_task_spec sc pl prev s) as [ST [SA [IC [lt [STR ALT]]]]]. cbv zeta in *.
    set (s' := fst (inv_set_task sc pl prev s)) in *.
    exists lt. split; [exact STR|]. intros KF I0. unfold Ij in *. destruct dry eqn:ED.
    { destruct ALT as [[C F]|[[pv [_ [D _]]]|[pv [_ [D _]]]]]; try discriminate.
      split; [congruence|]. rewrite C, I0 in F. eapply Forall_Qj_snap; [exact c0_nodup|apply J_c0|exact F]. }
    assert (KF0 : KFp prev0 (r_tr s)) by (rewrite STR in KF; eapply KFp_suffix; exact KF).
    pose proof (retained f s I0 KF0 HST) as RET.
    assert (ND' : NoDup (ids_of (r_cl s'))) by (unfold ids_of; rewrite (proj1 IC); exact (B_nd _ _ _ _ I0)).
    destruct ALT as [[C F]|[[pv [EP [_ [DD [DS [EI ->]]]]]]|[pv [EP [_ [EI F]]]]]].
    - (* nothing written *)
      assert (J' : J sc c0 (r_cl s')) by (rewrite C; exact (B_J _ _ _ _ I0)).
      split; [|eapply Forall_Qj_snap; eassumption].
      apply (Big_invchg f P2 [] [] s s' lt I0); auto; try discriminate; try (unfold s'; apply cache_inv_set_task).
      eapply Forall_impl; [|exact F]. intros it. apply nonsc_snap.
    - (* the inventory object is deleted: nothing owned is left but exempt objects *)
      rewrite (HP pv EP) in DS.
      assert (EX : forall j c, fo (r_cl s) j = Some c -> c_owner c = OOurs -> In j (exempt0 c0)).
      { intros j c Hc Ho. destruct (RET j c Hc Ho) as [X|[_ X]]; [exact X|]. rewrite (X DD) in DS. discriminate. }
      assert (J' : J sc c0 (r_cl s')).
      { intros j c Hc Ho. left. rewrite (fo_invchg _ _ j IC) in Hc. eapply EX; eassumption. }
      split.
      + apply (Big_invchg f P2 [] [] s s' [IReq RInvDelete true (managed (r_cl s')) (stored (r_cl s'))] I0); auto; try discriminate; try (unfold s'; apply cache_inv_set_task).
        constructor; [exact I|constructor].
      + constructor; [|constructor]. cbn. split; [apply J_snap; assumption|].
        intros _ _ i Hi. destruct (managed_fo _ i ND' Hi) as [c [Hc Ho]].
        rewrite (fo_invchg _ _ i IC) in Hc. eapply EX; eassumption.
    - (* the inventory is replaced by the retention table's keys *)
      rewrite (HP pv EP) in EI.
      assert (J' : J sc c0 (r_cl s')).
      { apply (J_rewrite (r_cl s) (r_cl s') _ IC EI). intros j c Hc Ho.
        destruct (RET j c Hc Ho) as [X|[X _]]; [left; exact X|right; apply sortn_In; exact X]. }
      split; [|eapply Forall_Qj_snap; eassumption].
      apply (Big_invchg f P2 [] [] s s' lt I0); auto; try discriminate; try (unfold s'; apply cache_inv_set_task).
      eapply Forall_impl; [|exact F]. intros it. apply nonsc_snap.
  Qed.

  (* ---- the runner ------------------------------------------------------------------------------------------ *)
  Definition todo_of (ts : list task) : list id :=
    flat_map (fun t => match t with TApply _ l | TPrune _ l => map p_id l | _ => [] end) ts.

  (* ids whose delete-wait is still to come *)
  Definition wtodo_of (ts : list task) : list id :=
    flat_map (fun t => match t with TWait _ AllNotFound ids => ids | _ => [] end) ts.

  (* the shape of a task list the invariant can be carried through, from phase f on:
     an AllCurrent wait waits for apply ids; outside dry-run every prune task is followed by
     a wait task over (at least) its ids *)
  Fixpoint sched (f : flag) (ts : list task) : Prop :=
    match ts with
    | [] => True
    | TInvAdd :: r => f = P0 /\ sched P1 r
    | TApply _ l :: r => f = P1 /\ Forall local_ok' l /\ sched P1 r
    | TWait _ c ids :: r => (c = AllCurrent -> forall j, In j ids -> In j aids) /\ sched f r
    | TPrune _ l :: r => Forall (prune_ok pl) l /\
                         (dry = false -> forall p, In p l -> In (p_id p) (wtodo_of r)) /\ sched f r
    | TInvSet :: r => r = []
    end.

  Lemma j_run_task locals prev f s t rest :
    sched f (t :: rest) -> (forall pv, prev = Some pv -> pv = prev0) ->
    exists f1,
      stepj f (todo_of (t :: rest)) (wtodo_of (t :: rest)) f1 (todo_of rest) (wtodo_of (t :: rest)) s
            (fst (run_task sc pl locals prev s t)) /\
      (r_abort (fst (run_task sc pl locals prev s t)) = false ->
       stepj f (todo_of (t :: rest)) (wtodo_of (t :: rest)) f1 (todo_of rest) (wtodo_of rest) s
             (fst (run_task sc pl locals prev s t))) /\
      (snd (run_task sc pl locals prev s t) = true -> sched f1 rest).
  Proof.
    intros H HP. unfold run_task. cbv zeta. destruct t; cbn [sched] in H.
    - destruct H as [-> H].
      pose proof (j_inv_add_task (todo_of rest) (wtodo_of rest) (ev s (EStarted (task_name TInvAdd)))) as T.
      destruct (inv_add_task sc pl _) as [s1 ok]. cbn [fst snd] in *.
      assert (S : stepj P0 (todo_of (TInvAdd :: rest)) (wtodo_of rest) (if ok then P1 else P2) (todo_of rest) (wtodo_of rest) s
                        (ev s1 (EFinished (task_name TInvAdd)))).
      { eapply stepj_trans; [apply stepj_ev|]. eapply stepj_trans; [exact T|apply stepj_ev]. }
      exists (if ok then P1 else P2). split; [exact S|]. split; [intros _; exact S|intros ->; exact H].
    - destruct H as [-> [Hl H]]. cbn [fst snd].
      assert (S : stepj P1 (todo_of (TApply k layer :: rest)) (wtodo_of rest) P1 (todo_of rest) (wtodo_of rest) s
                        (ev (apply_task sc pl (task_name (TApply k layer)) (ev s (EStarted (task_name (TApply k layer)))) layer)
                            (EFinished (task_name (TApply k layer))))).
      { eapply stepj_trans; [apply stepj_ev|]. eapply stepj_trans; [|apply stepj_ev].
        cbn [todo_of flat_map]. apply j_apply_task. exact Hl. }
      exists P1. split; [exact S|]. split; [intros _; exact S|intros _; exact H].
    - destruct H as [HC H]. cbn [fst snd]. exists f.
      set (tw := wtodo_of (TWait k c ids :: rest)).
      assert (HN : c = AllNotFound -> forall j, In j ids -> In j tw).
      { intros -> j Hj. unfold tw. cbn. apply in_or_app. left. exact Hj. }
      assert (HT : forall j, In j tw -> In j ids \/ In j (wtodo_of rest)).
      { intros j Hj. unfold tw in Hj. cbn in Hj. apply in_app_or in Hj. destruct c; [destruct Hj as [[]|Hj]; auto|tauto]. }
      destruct (j_wait_task c (task_name (TWait k c ids)) ids f (todo_of rest) tw (wtodo_of rest)
                  (ev s (EStarted (task_name (TWait k c ids)))) HC HN HT) as [W1 W2].
      split; [|split; [|intros _; exact H]].
      + eapply stepj_trans; [apply stepj_ev|]. eapply stepj_trans; [exact W1|apply stepj_ev].
      + intros AB. eapply stepj_trans; [apply stepj_ev|]. eapply stepj_trans; [exact (W2 AB)|apply stepj_ev].
    - destruct H as [Hl [HW H]]. cbn [fst snd].
      assert (S : stepj f (todo_of (TPrune k layer :: rest)) (wtodo_of rest) f (todo_of rest) (wtodo_of rest) s
                        (ev (prune_task sc pl locals (task_name (TPrune k layer)) (ev s (EStarted (task_name (TPrune k layer)))) layer)
                            (EFinished (task_name (TPrune k layer))))).
      { eapply stepj_trans; [apply stepj_ev|]. eapply stepj_trans; [|apply stepj_ev].
        cbn [todo_of flat_map]. apply j_prune_task; assumption. }
      exists f. split; [exact S|]. split; [intros _; exact S|intros _; exact H].
    - subst rest.
      pose proof (j_inv_set_task f prev (ev s (EStarted (task_name TInvSet)))) as T.
      destruct (inv_set_task sc pl prev _) as [s1 ok]. cbn [fst snd] in *.
      assert (S : stepj f (todo_of [TInvSet]) (wtodo_of []) P2 (todo_of []) (wtodo_of []) s (ev s1 (EFinished (task_name TInvSet)))).
      { eapply stepj_trans; [apply stepj_ev|]. eapply stepj_trans; [|apply stepj_ev].
        apply T; [left; reflexivity|exact HP]. }
      exists P2. split; [exact S|]. split; [intros _; exact S|intros _; exact I].
  Qed.

  Lemma j_run_tasks locals prev : (forall pv, prev = Some pv -> pv = prev0) ->
    forall ts f s, sched f ts ->
      exists f' td' tw', stepj f (todo_of ts) (wtodo_of ts) f' td' tw' s (run_tasks sc pl locals prev s ts).
  Proof.
    intros HP. induction ts as [|t rest IH]; intros f s H; cbn [run_tasks].
    - exists f, [], []. apply stepj_refl.
    - destruct (j_run_task locals prev f s t rest H HP) as [f1 [S1 [S1' C1]]].
      destruct (run_task sc pl locals prev s t) as [s1 ok]. cbn [fst snd] in *.
      destruct ok; cbn [negb].
      + destruct (r_abort s1) eqn:AB.
        * exists f1, (todo_of rest), (wtodo_of (t :: rest)). eapply stepj_trans; [exact S1|apply stepj_ev].
        * destruct (IH f1 s1 (C1 eq_refl)) as [f' [td' [tw' S2]]]. exists f', td', tw'.
          eapply stepj_trans; [exact (S1' eq_refl)|exact S2].
      + exists f1, (todo_of rest), (wtodo_of (t :: rest)). eapply stepj_trans; [exact S1|apply stepj_ev].
  Qed.
End Inv.
