(* Lemmas about the inventory client model (Model/InvClientStore.v): an apply
   set with an identifier that cannot be stored is refused before any request
   is sent; what an accepted operation leaves in the cluster is loaded back by
   the next run as exactly the intended set. *)
From Coq Require Import List Bool Arith String Ascii.
From CliUtils Require Import Base.Strings Model.IdCodec Model.ObjSet Model.InvClientStore
     Proofs.ObjSetProofs Proofs.IdCodecProofs.
Import ListNotations.

Lemma forallb_false_in : forall (A : Type) (f : A -> bool) l x, In x l -> f x = false -> forallb f l = false.
Proof.
  intros A f l x Hin Hf. destruct (forallb f l) eqn:E; [|reflexivity].
  rewrite forallb_forall in E. rewrite (E x Hin) in Hf. discriminate.
Qed.

Lemma oid_union_In : forall a b x, In x (union oid_eqb a b) <-> In x a \/ In x b.
Proof. intros a b x. exact (union_In oid oid_eqb oid_eqb_spec a b x). Qed.

Lemma oid_equal_spec : forall a b, equal oid_eqb a b = true <-> (forall x, In x a <-> In x b).
Proof. intros a b. exact (equal_spec oid oid_eqb oid_eqb_spec a b). Qed.

(* ConfigMap.Store on any wrapper: rejected and unchanged, or the set is kept *)
Lemma cm_store_rejects : forall c ids st, forallb storable ids = false -> cm_store c ids st = (c, true).
Proof. intros c ids st H. unfold cm_store. now rewrite H. Qed.

Lemma cm_store_keeps : forall c ids st, forallb storable ids = true ->
  cm_store c ids st = (mkCm (cm_data c) ids st, false).
Proof. intros c ids st H. unfold cm_store. now rewrite H. Qed.

(* the next run's Load of an object written for the set `ids` *)
Lemma client_get_written : forall ids, forallb storable ids = true ->
  exists l, client_get (Some ids) = Ok l /\ (forall i, In i l <-> In i ids) /\ NoDup l.
Proof.
  intros ids H.
  destruct (store_load (wrap DAbsent) ids [] _ (cm_store_keeps (wrap DAbsent) ids [] H)) as [l [E [Hl [ND _]]]].
  exists l. repeat split; auto; apply Hl.
Qed.

(* whatever a Load returns can be stored again *)
Lemma client_get_storable : forall s cl, client_get s = Ok cl -> forallb storable cl = true.
Proof.
  intros s cl H. apply forallb_forall. intros i Hi.
  destruct s as [cur|]; simpl in H.
  - unfold cm_load, wrap, stored_data in H. simpl in H.
    apply parse_keys_ok_all in H.
    assert (G : forall ks l, Forall2 (fun k j => parse_id k = Ok j) ks l -> In i l -> exists k, parse_id k = Ok i).
    { intros ks l F. induction F as [|k j ks l P F IH]; intros Hin; [destruct Hin|].
      destruct Hin as [Hin|Hin]; [subst j; now exists k | now apply IH]. }
    destruct (G _ _ H Hi) as [k Pk]. apply wf_storable. exact (parse_id_wf k i Pk).
  - inversion H; subst cl. destruct Hi.
Qed.

(* ---- (1) rejected before anything is written ------------------------------- *)
Lemma client_merge_rejects : forall p d s objs i, In i objs -> storable i = false ->
  client_merge p d s objs = rejected s (oc_prune (client_merge p d s objs)).
Proof.
  intros p d s objs i Hin Hs.
  pose proof (forallb_false_in _ storable objs i Hin Hs) as Hobjs.
  unfold client_merge. destruct s as [cur|].
  - destruct (client_get (Some cur)) as [cl|]; [|reflexivity].
    assert (Hu : forallb storable (union oid_eqb cl objs) = false).
    { apply (forallb_false_in _ storable _ i); [apply oid_union_In; now right | exact Hs]. }
    rewrite (cm_store_rejects _ _ [] Hu). reflexivity.
  - rewrite (cm_store_rejects _ _ [] Hobjs). reflexivity.
Qed.

Lemma client_replace_rejects : forall p d s objs i, In i objs -> storable i = false ->
  is_dry d = false -> client_replace p d s objs = rejected s [].
Proof.
  intros p d s objs i Hin Hs Hd.
  pose proof (forallb_false_in _ storable objs i Hin Hs) as Hobjs.
  unfold client_replace. rewrite Hd. destruct s as [cur|]; [|reflexivity].
  destruct (client_get (Some cur)) as [cl|]; [|reflexivity].
  rewrite (cm_store_rejects _ _ [] Hobjs). reflexivity.
Qed.

Lemma client_op_rejects : forall k p d s objs i, In i objs -> storable i = false ->
  oc_reqs (client_op k p d s objs) = [] /\ oc_store (client_op k p d s objs) = s
  /\ (op_skipped k d = false -> oc_err (client_op k p d s objs) = true).
Proof.
  intros k p d s objs i Hin Hs. destruct k; simpl.
  - rewrite (client_merge_rejects p d s objs i Hin Hs). simpl. auto.
  - destruct (is_dry d) eqn:Hd.
    + unfold client_replace. rewrite Hd. simpl. repeat split; auto.
    + rewrite (client_replace_rejects p d s objs i Hin Hs Hd). simpl. auto.
Qed.

(* an error, for whatever reason, has sent nothing and changed nothing; so has a dry-run *)
Lemma client_op_error_writes_nothing : forall k p d s objs,
  oc_err (client_op k p d s objs) = true ->
  oc_reqs (client_op k p d s objs) = [] /\ oc_store (client_op k p d s objs) = s.
Proof.
  intros k p d s objs. destruct k; simpl.
  - unfold client_merge. destruct s as [cur|].
    + destruct (client_get (Some cur)) as [cl|]; [|simpl; auto].
      destruct (cm_store _ (union oid_eqb cl objs) []) as [c' err]. destruct err; [simpl; auto|].
      destruct (equal oid_eqb objs cl && pol_none p); [simpl; discriminate|].
      destruct (is_dry d); simpl; discriminate.
    + destruct (cm_store (wrap DAbsent) objs []) as [c' err]. destruct err; [simpl; auto|].
      destruct (is_dry d); simpl; discriminate.
  - unfold client_replace. destruct (is_dry d); [simpl; discriminate|].
    destruct s as [cur|]; [|simpl; auto].
    destruct (client_get (Some cur)) as [cl|]; [|simpl; auto].
    destruct (cm_store _ objs []) as [c' err]. destruct err; [simpl; auto|].
    destruct (equal oid_eqb objs cl && pol_none p); simpl; discriminate.
Qed.

Lemma client_op_dry_writes_nothing : forall k p d s objs, is_dry d = true ->
  oc_reqs (client_op k p d s objs) = [] /\ oc_store (client_op k p d s objs) = s.
Proof.
  intros k p d s objs Hd. destruct k; simpl.
  - unfold client_merge. destruct s as [cur|].
    + destruct (client_get (Some cur)) as [cl|]; [|simpl; auto].
      destruct (cm_store _ (union oid_eqb cl objs) []) as [c' err]. destruct err; [simpl; auto|].
      destruct (equal oid_eqb objs cl && pol_none p); [simpl; auto|]. rewrite Hd. simpl; auto.
    + destruct (cm_store (wrap DAbsent) objs []) as [c' err]. destruct err; [simpl; auto|].
      rewrite Hd. simpl; auto.
  - unfold client_replace. rewrite Hd. simpl; auto.
Qed.

(* at most one request, a create on a first run and an update otherwise *)
Lemma client_op_requests : forall k p d s objs,
  oc_reqs (client_op k p d s objs) = []
  \/ (s = None /\ k = OMerge /\ oc_reqs (client_op k p d s objs) = [RCreate])
  \/ (s <> None /\ oc_reqs (client_op k p d s objs) = [RUpdate]).
Proof.
  intros k p d s objs. destruct k; simpl.
  - unfold client_merge. destruct s as [cur|].
    + destruct (client_get (Some cur)) as [cl|]; [|simpl; auto].
      destruct (cm_store _ (union oid_eqb cl objs) []) as [c' err]. destruct err; [simpl; auto|].
      destruct (equal oid_eqb objs cl && pol_none p); [simpl; auto|].
      destruct (is_dry d); simpl; auto. right; right. split; [discriminate|reflexivity].
    + destruct (cm_store (wrap DAbsent) objs []) as [c' err]. destruct err; [simpl; auto|].
      destruct (is_dry d); simpl; auto.
  - unfold client_replace. destruct (is_dry d); [simpl; auto|].
    destruct s as [cur|]; [|simpl; auto].
    destruct (client_get (Some cur)) as [cl|]; [|simpl; auto].
    destruct (cm_store _ objs []) as [c' err]. destruct err; [simpl; auto|].
    destruct (equal oid_eqb objs cl && pol_none p); simpl; auto.
    right; right. split; [discriminate|reflexivity].
Qed.

(* ---- (2) what an accepted operation leaves is what the next run loads ------ *)
Lemma client_op_written_loads_l : forall k p d s objs cl,
  is_dry d = false -> client_get s = Ok cl ->
  oc_err (client_op k p d s objs) = false ->
  exists l, client_get (oc_store (client_op k p d s objs)) = Ok l
    /\ (forall i, In i l <-> In i (op_expected k cl objs))
    /\ (oc_reqs (client_op k p d s objs) <> [] -> NoDup l).
Proof.
  intros k p d s objs cl Hd Hg. destruct k; simpl.
  - unfold client_merge. destruct s as [cur|].
    + rewrite Hg.
      destruct (forallb storable (union oid_eqb cl objs)) eqn:Hu.
      * rewrite (cm_store_keeps _ _ [] Hu).
        destruct (equal oid_eqb objs cl && pol_none p) eqn:He.
        { simpl. intros _. exists cl. split; [exact Hg|]. split; [|intros C; now elim C].
          apply andb_true_iff in He. destruct He as [He _].
          pose proof (proj1 (oid_equal_spec objs cl) He) as Q.
          intros i. rewrite in_app_iff. split; [auto|]. intros [H|H]; [exact H | now apply Q]. }
        rewrite Hd. simpl. intros _.
        destruct (client_get_written _ Hu) as [l [E [Hl ND]]].
        exists l. split; [exact E|]. split; [|intros _; exact ND].
        intros i. rewrite (Hl i), oid_union_In, in_app_iff. tauto.
      * rewrite (cm_store_rejects _ _ [] Hu). simpl. discriminate.
    + simpl in Hg. inversion Hg; subst cl.
      destruct (forallb storable objs) eqn:Hu.
      * rewrite (cm_store_keeps _ _ [] Hu). rewrite Hd. simpl. intros _.
        destruct (client_get_written _ Hu) as [l [E [Hl ND]]].
        exists l. split; [exact E|]. split; [exact Hl | intros _; exact ND].
      * rewrite (cm_store_rejects _ _ [] Hu). simpl. discriminate.
  - unfold client_replace. rewrite Hd. destruct s as [cur|]; [|simpl; discriminate].
    rewrite Hg.
    destruct (forallb storable objs) eqn:Hu.
    + rewrite (cm_store_keeps _ _ [] Hu).
      destruct (equal oid_eqb objs cl && pol_none p) eqn:He.
      { simpl. intros _. exists cl. split; [exact Hg|]. split; [|intros C; now elim C].
        apply andb_true_iff in He. destruct He as [He _].
        pose proof (proj1 (oid_equal_spec objs cl) He) as Q. intros i. symmetry. apply Q. }
      simpl. intros _.
      destruct (client_get_written _ Hu) as [l [E [Hl ND]]].
      exists l. split; [exact E|]. split; [exact Hl | intros _; exact ND].
    + rewrite (cm_store_rejects _ _ [] Hu). simpl. discriminate.
Qed.

(* ---- nothing encodable is refused ----------------------------------------- *)
Lemma client_op_accepts_encodable_l : forall k p d s objs cl,
  forallb storable objs = true -> client_get s = Ok cl ->
  (k = OReplace -> is_dry d = false -> s <> None) ->
  oc_err (client_op k p d s objs) = false.
Proof.
  intros k p d s objs cl Ho Hg Hs.
  pose proof (client_get_storable s cl Hg) as Hcl.
  destruct k; simpl.
  - unfold client_merge. destruct s as [cur|].
    + rewrite Hg.
      assert (Hu : forallb storable (union oid_eqb cl objs) = true).
      { rewrite forallb_forall in *. intros i Hi. apply oid_union_In in Hi. destruct Hi; auto. }
      rewrite (cm_store_keeps _ _ [] Hu).
      destruct (equal oid_eqb objs cl && pol_none p); [reflexivity|]. destruct (is_dry d); reflexivity.
    + rewrite (cm_store_keeps _ _ [] Ho). destruct (is_dry d); reflexivity.
  - unfold client_replace. destruct (is_dry d) eqn:Hd; [reflexivity|].
    destruct s as [cur|]; [|now elim (Hs eq_refl eq_refl)].
    rewrite Hg. rewrite (cm_store_keeps _ _ [] Ho).
    destruct (equal oid_eqb objs cl && pol_none p); reflexivity.
Qed.

(* ListClusterInventoryObjs reads what GetClusterObjs reads: no entry exactly when there is no
   inventory object, an error exactly when the object cannot be loaded, otherwise the loaded set *)
Lemma client_list_loads : forall s,
  (client_list s = Err <-> client_get s = Err)
  /\ (forall l, client_list s = Ok (Some l) <-> s <> None /\ client_get s = Ok l)
  /\ (client_list s = Ok None <-> s = None).
Proof.
  intros [ids|].
  - unfold client_list. destruct (client_get (Some ids)) as [l0|] eqn:E.
    + split; [split; discriminate|]. split.
      * intros l. split.
        -- intros H. inversion H; subst. split; [discriminate|reflexivity].
        -- intros [_ H]. inversion H; subst. reflexivity.
      * split; discriminate.
    + split; [tauto|]. split.
      * intros l. split; [discriminate|]. intros [_ H]. discriminate.
      * split; discriminate.
  - simpl. split; [split; discriminate|]. split.
    + intros l. split; [discriminate|]. intros [H _]. now elim H.
    + tauto.
Qed.
