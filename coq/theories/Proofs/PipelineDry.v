(* C10: under a dry-run strategy the model's run never changes the cluster and
   sends only server-side apply patches carrying the dry-run directive (and
   nothing at all with client dry-run). *)
From Coq Require Import List Bool Arith NArith ZArith Lia.
From CliUtils Require Import Model.ObjSet Model.ActuationTable Model.PipelineTypes Model.Pipeline
     Proofs.PipelineBase.
Import ListNotations.

Section Dry.
  Variable sc : scenario.
  Hypothesis Hdry : is_dry (o_dry (sc_opts sc)) = true.

  Definition dry_req (r : req) : Prop :=
    o_dry (sc_opts sc) = DServer /\ exists i, r = RPatch i true true.
  Definition Qd (it : item) : Prop :=
    match it with IReq r _ _ _ => dry_req r | _ => True end.

  Notation dstep := (step Qd (@eq cluster)).

  Lemma d_refl : forall c : cluster, c = c. Proof. reflexivity. Qed.
  Lemma d_trans : forall a b c : cluster, a = b -> b = c -> a = c. Proof. intros; congruence. Qed.
  Lemma Qd_ev : forall e, Qd (IEv e). Proof. intros; exact I. Qed.
  Lemma Qd_deliv : forall d, Qd (IDeliv d). Proof. intros; exact I. Qed.

  Ltac base := first
    [ apply (step_refl Qd eq d_refl)
    | apply (step_ev Qd eq d_refl Qd_ev)
    | apply (step_rec_add Qd eq d_refl)
    | apply (step_add_aband Qd eq d_refl)
    | apply (step_set_abort Qd eq d_refl)
    | apply (step_maybe_cancel sc Qd eq d_refl) ].
  Ltac tr := eapply (step_trans Qd eq d_trans).

  Lemma ssa_mode_dry : ssa_mode sc = true -> o_dry (sc_opts sc) = DServer.
  Proof.
    unfold ssa_mode. destruct (o_dry (sc_opts sc)) eqn:E; cbn in *; try congruence.
  Qed.

  Lemma d_merge s ids : dstep s (fst (merge sc s ids)).
  Proof.
    unfold merge. cbv zeta. rewrite Hdry.
    pose proof (step_inv_list sc Qd eq d_refl s) as L1.
    destruct (inv_list sc s) as [s1 r1]. cbn [fst] in L1.
    destruct r1 as [[l|]|]; cbn [fst]; try exact L1.
    pose proof (step_inv_list sc Qd eq d_refl s1) as L2.
    destruct (inv_list sc s1) as [s2 r2]. cbn [fst] in L2.
    assert (dstep s s2) by (tr; eassumption).
    destruct r2 as [cur0|]; cbn [fst]; [|assumption].
    destruct (set_eqn ids _ && _); cbn [fst]; assumption.
  Qed.

  Lemma d_replace s ids : dstep s (fst (replace sc s ids)).
  Proof. unfold replace. cbv zeta. rewrite Hdry. cbn [fst]. base. Qed.

  Lemma d_ssa_patch s l n : o_dry (sc_opts sc) = DServer -> dstep s (fst (ssa_patch sc s l n)).
  Proof.
    intros D. unfold ssa_patch. cbv zeta. rewrite D.
    assert (MC : dstep s (maybe_cancel sc s (l_id l))) by base.
    destruct (faulted sc (FStream (l_id l) n)); cbn [fst].
    { tr; [exact MC|]. apply (step_log_req_same Qd eq d_refl). cbn. split; [exact D|eauto]. }
    destruct (faulted sc (FApply (l_id l))); cbn [fst].
    + tr; [exact MC|]. apply (step_log_req_same Qd eq d_refl). cbn. split; [exact D|eauto].
    + destruct (find_obj _ _); cbn [fst];
        (tr; [exact MC|]; apply (step_log_req_same Qd eq d_refl); cbn; split; [exact D|eauto]).
  Qed.

  Lemma d_csa_apply s l : dstep s (fst (csa_apply sc s l)).
  Proof.
    unfold csa_apply. cbv zeta. rewrite Hdry.
    pose proof (step_get_obj sc Qd eq d_refl s (l_id l)) as G.
    destruct (get_obj sc s (l_id l)) as [s1 g]. cbn [fst] in G.
    destruct g; cbn [fst]; try exact G.
    destruct (negb (patch_needed c l)); cbn [fst]; exact G.
  Qed.

  (* under server dry-run the APIService fallback is a second dry-run apply PATCH; under client
     dry-run kubectl never takes the server-side branch, so there is no fallback *)
  Lemma d_kubectl_apply s l : dstep s (fst (kubectl_apply sc s l)).
  Proof.
    destruct (kubectl_apply_cases sc l s) as [[_ ->]|[[M [-> _]]|[M [_ [_ [_ ->]]]]]].
    - apply d_csa_apply.
    - cbn [fst]. apply d_ssa_patch, ssa_mode_dry, M.
    - pose proof (ssa_mode_dry M) as D. tr; [apply (d_ssa_patch s l 0 D)|].
      destruct (apisvc_fallback_cases sc l (fst (ssa_patch sc s l 0))) as [[_ ->]|[N _]];
        [cbn [fst]; apply d_ssa_patch, D|contradiction].
  Qed.

  Lemma d_apply_one pl g s p : dstep s (apply_one sc pl g s p).
  Proof.
    unfold apply_one. destruct (p_local p) as [l|]; [|base].
    destruct (negb (kind_known sc (r_known s) (p_id p))); [tr; [|base]; base|].
    pose proof (step_policy_apply_filter sc Qd eq d_refl s (p_id p)) as P.
    destruct (policy_apply_filter sc s (p_id p)) as [s1 f1]. cbn [fst] in P.
    destruct (match f1 with FPass => _ | _ => _ end).
    - pose proof (step_mutate sc Qd eq d_refl d_trans s1 l) as M.
      destruct (mutate sc s1 l) as [sm okm]. cbn [fst] in M.
      destruct okm; cbn [negb].
      + pose proof (d_kubectl_apply sm l) as K.
        destruct (kubectl_apply sc sm l) as [s2 r]. cbn [fst] in K.
        destruct r; (tr; [exact P|]; tr; [exact M|]; tr; [exact K|]; tr; [|base]; base).
      + tr; [exact P|]. tr; [exact M|]. tr; [|base]. base.
    - tr; [exact P|]. tr; [|base]. base.
    - tr; [exact P|]. tr; [|base]. base.
  Qed.

  Lemma d_apply_task pl g s layer : dstep s (apply_task sc pl g s layer).
  Proof. unfold apply_task. apply (step_fold Qd eq d_refl d_trans). intros; apply d_apply_one. Qed.

  Lemma d_prune_one pl locals g uids s p : dstep s (prune_one sc pl locals g uids s p).
  Proof.
    unfold prune_one. cbv zeta. rewrite Hdry. destruct (p_live p) as [c|]; [|base].
    destruct (prune_filters sc pl locals (r_tbl s) uids c); (tr; [|base]); base.
  Qed.

  Lemma d_prune_task pl locals g s layer : dstep s (prune_task sc pl locals g s layer).
  Proof. unfold prune_task. apply (step_fold Qd eq d_refl d_trans). intros; apply d_prune_one. Qed.

  Lemma d_inv_add_task pl s : dstep s (fst (inv_add_task sc pl s)).
  Proof.
    unfold inv_add_task. cbv zeta. rewrite Hdry.
    assert (E : forall x : option pobj,
               (let '(s1, ok1) := match x with
                                  | Some p => match p_local p with Some _ => (s, true) | None => (s, true) end
                                  | None => (s, true) end in
                if ok1 then merge sc s1 (map p_id (pl_apply pl)) else (s1, false))
               = merge sc s (map p_id (pl_apply pl))).
    { intros [p|]; [destruct (p_local p)|]; reflexivity. }
    match goal with |- dstep s (fst (let '(s1, ok1) := ?X in _)) =>
      assert (X = (s, true)) as EX
    end.
    { destruct (match sc_inv_ns sc with Some n => _ | None => None end) as [p|]; [destruct (p_local p)|]; reflexivity. }
    rewrite EX. apply d_merge.
  Qed.

  Lemma d_delete_inventory s : dstep s (fst (delete_inventory sc s)).
  Proof.
    unfold delete_inventory. cbv zeta. rewrite Hdry.
    pose proof (step_inv_list sc Qd eq d_refl s) as L1.
    destruct (inv_list sc s) as [s1 r1]. cbn [fst] in L1.
    destruct r1 as [[l|]|]; cbn [fst]; exact L1.
  Qed.

  Lemma d_inv_set_task pl prev s : dstep s (fst (inv_set_task sc pl prev s)).
  Proof.
    unfold inv_set_task. destruct prev as [pv|]; cbn [fst]; [|base].
    destruct (o_destroy (sc_opts sc) && destroy_successful pl pv s); [apply d_delete_inventory|apply d_replace].
  Qed.

  Lemma d_run_task pl locals prev s t : dstep s (fst (run_task sc pl locals prev s t)).
  Proof.
    unfold run_task. cbv zeta.
    assert (S0 : dstep s (ev s (EStarted (task_name t)))) by base.
    destruct t.
    - pose proof (d_inv_add_task pl (ev s (EStarted (task_name TInvAdd)))) as T.
      destruct (inv_add_task sc pl _) as [s1 ok]. cbn [fst] in *. tr; [exact S0|]. tr; [exact T|]. base.
    - cbn [fst]. tr; [exact S0|]. tr; [apply d_apply_task|]. base.
    - cbn [fst]. tr; [exact S0|]. tr; [apply (step_wait_task sc Qd eq d_refl d_trans Qd_ev Qd_deliv)|]. base.
    - cbn [fst]. tr; [exact S0|]. tr; [apply d_prune_task|]. base.
    - pose proof (d_inv_set_task pl prev (ev s (EStarted (task_name TInvSet)))) as T.
      destruct (inv_set_task sc pl prev _) as [s1 ok]. cbn [fst] in *. tr; [exact S0|]. tr; [exact T|]. base.
  Qed.

  Lemma d_run_tasks pl locals prev ts : forall s, dstep s (run_tasks sc pl locals prev s ts).
  Proof.
    induction ts as [|t rest IH]; intros s; cbn [run_tasks]; [base|].
    pose proof (d_run_task pl locals prev s t) as T.
    destruct (run_task sc pl locals prev s t) as [s1 ok]. cbn [fst] in T.
    destruct (negb ok); [tr; [exact T|base]|].
    destruct (r_abort s1); [tr; [exact T|base]|].
    tr; [exact T|apply IH].
  Qed.

  Lemma d_run_state c0 : dstep (init_state sc c0) (run_state sc c0).
  Proof.
    unfold run_state. cbv zeta.
    pose proof (step_inv_list sc Qd eq d_refl (init_state sc c0)) as L1.
    destruct (inv_list sc (init_state sc c0)) as [s1 r1]. cbn [fst] in L1.
    destruct r1 as [st|]; [|tr; [exact L1|base]].
    match goal with |- context [fetch_all sc s1 ?c] => pose proof (step_fetch_all sc Qd eq d_refl d_trans c s1) as F;
      destruct (fetch_all sc s1 c) as [s2 r2] end. cbn [fst] in F.
    destruct r2 as [pobjs|]; [|tr; [exact L1|]; tr; [exact F|base]].
    set (pl := build_plan sc _ _ pobjs).
    pose proof (step_register sc Qd eq d_refl d_trans pl s2) as R.
    pose proof (step_inv_list sc Qd eq d_refl (register sc pl s2)) as L4.
    destruct (inv_list sc (register sc pl s2)) as [s4 r4]. cbn [fst] in L4.
    assert (S4 : dstep (init_state sc c0) s4) by (tr; [exact L1|]; tr; [exact F|]; tr; [exact R|exact L4]).
    assert (V : forall errs s, dstep s (fold_left (fun s e => ev s (EValidation (sortn e))) errs s)).
    { intros errs s. apply (step_fold Qd eq d_refl d_trans). intros; base. }
    destruct (o_valpol (sc_opts sc)); destruct (pl_valerrs pl) eqn:EV.
    all: try (tr; [exact S4|base]).
    all: assert (S6 : forall errs, dstep (init_state sc c0)
                 (ev (fold_left (fun s e => ev s (EValidation (sortn e))) errs s4)
                     (EInit (map (fun t => (task_name t, task_ids pl t)) (tasks_of sc pl)))))
      by (intros errs; tr; [exact S4|]; tr; [apply V|apply (step_ev Qd eq d_refl Qd_ev)]).
    all: destruct (e_cancel (sc_env sc));
      (tr; [apply S6|]; first [apply d_run_tasks|apply (step_ev Qd eq d_refl Qd_ev)]).
  Qed.

  (* ---- the C10 statements --------------------------------------------------- *)
  Theorem dry_cluster_unchanged c0 : out_final (run sc c0) = norm_cluster c0.
  Proof.
    rewrite (run_is_finish sc). unfold finish. cbn [out_final].
    destruct (d_run_state c0) as [E _]. cbn [init_state r_cl] in E. rewrite <- E. reflexivity.
  Qed.

  Theorem dry_requests c0 : forall r ok m st,
    In (IReq r ok m st) (out_trace (run sc c0)) -> dry_req r.
  Proof.
    intros r ok m st H. rewrite (run_is_finish sc) in H. unfold finish in H. cbn [out_trace] in H.
    apply in_rev in H. destruct H as [H|H]; [discriminate|].
    destruct (d_run_state c0) as [_ [l [E F]]]. cbn [init_state r_tr] in E. rewrite app_nil_r in E.
    rewrite E in H. rewrite Forall_forall in F. exact (F _ H).
  Qed.

  Theorem dry_client_no_request c0 : o_dry (sc_opts sc) = DClient ->
    forall r ok m st, ~ In (IReq r ok m st) (out_trace (run sc c0)).
  Proof.
    intros D r ok m st H. destruct (dry_requests c0 _ _ _ _ H) as [E _]. congruence.
  Qed.
End Dry.

Lemma is_dry_client sc : o_dry (sc_opts sc) = DClient -> is_dry (o_dry (sc_opts sc)) = true.
Proof. intros ->. reflexivity. Qed.
Lemma is_dry_server sc : o_dry (sc_opts sc) = DServer -> is_dry (o_dry (sc_opts sc)) = true.
Proof. intros ->. reflexivity. Qed.
