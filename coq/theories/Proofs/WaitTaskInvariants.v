(* Proofs about Model/WaitTask.v.  Part 2: invariants of a phase (Start, then
   any finite list of Update / Timeout / Cancel), by induction over the list:
   the event log agrees with the table; every object of the task is in exactly
   one of five situations that tie the sets, the log and the latest
   observation together. *)
From Coq Require Import List Bool Arith Lia Permutation NArith ZArith.
From CliUtils Require Import Model.ObjSet Model.ActuationTable Model.WaitTask
     Proofs.ObjSetProofs Proofs.ActuationTableProofs Proofs.WaitTaskProofs.
Import ListNotations.

Section WaitTaskInvariants.
  Variable A : Type.
  Variable eqb : A -> A -> bool.
  Hypothesis eqb_spec : forall x y, eqb x y = true <-> x = y.
  Variable c : cond.
  Variable ids : list A.

  Notation table := (table A).
  Notation cache := (A -> cobs).
  Notation state := (state A).
  Notation wevent := (A * wstatus)%type.
  Notation input := (input A).

  Let eqb_refl := eqb_refl A eqb eqb_spec.
  Let eqb_neq := eqb_neq A eqb eqb_spec.
  Notation same_act := (same_act A eqb).
  Notation cond_met := (cond_met A eqb).
  Notation su_outcome := (su_outcome A eqb).
  Notation app_delta := (app_delta A eqb).
  Notation next_table := (next_table A eqb).
  Notation next_events := (next_events A).
  Notation start_status := (start_status A eqb).

  (* ---- runs with the log accumulated -------------------------------------- *)
  Definition step_acc (p : state * list wevent) (x : input) : state * list wevent :=
    let '(s', new) := step eqb c ids (fst p) x in (s', snd p ++ new).

  Lemma run_fold l : forall s evs,
    fold_left step_acc l (s, evs) =
    (fst (run eqb c ids s l), evs ++ concat (snd (run eqb c ids s l))).
  Proof.
    induction l as [|x l IH]; intros s evs; cbn [fold_left run].
    - cbn. rewrite app_nil_r. reflexivity.
    - assert (E : step_acc (s, evs) x = (fst (step eqb c ids s x), evs ++ snd (step eqb c ids s x))).
      { unfold step_acc. cbn [fst snd]. destruct (step eqb c ids s x); reflexivity. }
      rewrite E, IH. destruct (step eqb c ids s x) as [s1 e]. cbn [fst snd].
      destruct (run eqb c ids s1 l) as [s2 es]. cbn. rewrite app_assoc. reflexivity.
  Qed.

  Lemma run_app l1 : forall l2 s,
    run eqb c ids s (l1 ++ l2) =
    (fst (run eqb c ids (fst (run eqb c ids s l1)) l2),
     snd (run eqb c ids s l1) ++ snd (run eqb c ids (fst (run eqb c ids s l1)) l2)).
  Proof.
    induction l1 as [|x l1 IH]; intros l2 s; cbn [app run].
    - cbn. destruct (run eqb c ids s l2); reflexivity.
    - destruct (step eqb c ids s x) as [s1 e]. rewrite IH.
      destruct (run eqb c ids s1 l1) as [s2 es]. cbn [fst snd].
      destruct (run eqb c ids s2 l2) as [s3 es']. reflexivity.
  Qed.

  (* an invariant of every non-Start step holds after any Start-free list *)
  Lemma fold_invariant (P : state -> list wevent -> Prop) :
    (forall s evs x, is_start x = false -> P s evs ->
       P (fst (step eqb c ids s x)) (evs ++ snd (step eqb c ids s x))) ->
    forall l s evs, no_start l = true -> P s evs ->
      P (fst (fold_left step_acc l (s, evs))) (snd (fold_left step_acc l (s, evs))).
  Proof.
    intros Hstep. induction l as [|x l IH]; intros s evs Hns HP; cbn [fold_left]; [exact HP|].
    cbn in Hns. apply andb_true_iff in Hns. destruct Hns as [Hx Hl]. apply negb_true_iff in Hx.
    assert (E : step_acc (s, evs) x = (fst (step eqb c ids s x), evs ++ snd (step eqb c ids s x))).
    { unfold step_acc. cbn [fst snd]. destruct (step eqb c ids s x); reflexivity. }
    rewrite E. apply IH; [exact Hl|]. apply Hstep; assumption.
  Qed.

  (* ---- facts about the outcome of one update ------------------------------- *)
  Lemma su_outcome_add_pending s j :
    fst (fst (su_outcome c ids s j)) = DAdd -> ~ In j (st_pending s) /\ In j ids.
  Proof.
    unfold WaitTaskProofs.su_outcome.
    destruct (contains eqb (st_pending s) j) eqn:Ep.
    - destruct (changed_uid eqb _ _ j); [discriminate|].
      destruct (reconciled_by_id eqb c _ _ j); [discriminate|]. destruct (failed_by_id _ j); discriminate.
    - apply (contains_not_In A eqb eqb_spec) in Ep.
      destruct (contains eqb ids j) eqn:Ei; cbn [negb]; [|discriminate].
      apply (contains_In A eqb eqb_spec) in Ei. intros _. split; assumption.
  Qed.

  Lemma su_outcome_add_failed s j :
    snd (fst (su_outcome c ids s j)) = DAdd -> In j (st_pending s).
  Proof.
    unfold WaitTaskProofs.su_outcome.
    destruct (contains eqb (st_pending s) j) eqn:Ep.
    - intros _. apply (contains_In A eqb eqb_spec). exact Ep.
    - destruct (negb (contains eqb ids j)); [discriminate|].
      destruct (skipped eqb c _ j); [discriminate|].
      destruct (contains eqb (st_failed s) j).
      + destruct (changed_uid eqb _ _ j); [discriminate|].
        destruct (reconciled_by_id eqb c _ _ j); [discriminate|]. destruct (negb (failed_by_id _ j)); discriminate.
      + destruct (changed_uid eqb _ _ j); [destruct (_ && _); discriminate|].
        destruct (negb (reconciled_by_id eqb c _ _ j)); [discriminate|].
        destruct (is_reconcile eqb _ j RFailed); discriminate.
  Qed.

  Lemma su_outcome_event s j w :
    snd (su_outcome c ids s j) = Some w -> In j (st_pending s) \/ In j ids.
  Proof.
    unfold WaitTaskProofs.su_outcome.
    destruct (contains eqb (st_pending s) j) eqn:Ep.
    - intros _. left. apply (contains_In A eqb eqb_spec). exact Ep.
    - destruct (contains eqb ids j) eqn:Ei; cbn [negb]; [|discriminate].
      intros _. right. apply (contains_In A eqb eqb_spec). exact Ei.
  Qed.

  Lemma In_app_delta d l j i : In i (app_delta d l j) -> In i l \/ i = j.
  Proof.
    destruct d; cbn.
    - auto.
    - intros H. left. eapply remove_In_sub; eassumption.
    - intros H. apply in_app_iff in H. destruct H as [H|[H|[]]]; auto.
  Qed.

  Lemma In_app_delta_other d l j i : NoDup l -> i <> j -> (In i (app_delta d l j) <-> In i l).
  Proof.
    intros ND Hne. destruct d; cbn.
    - reflexivity.
    - rewrite (remove_NoDup_In A eqb eqb_spec l j i ND). tauto.
    - rewrite in_app_iff. cbn. split; [intros [H|[H|[]]]; [exact H|congruence]|auto].
  Qed.

  Lemma In_app_delta_self d l j :
    NoDup l -> (In j (app_delta d l j) <-> match d with DKeep => In j l | DRem => False | DAdd => True end).
  Proof.
    intros ND. destruct d; cbn.
    - reflexivity.
    - rewrite (remove_NoDup_In A eqb eqb_spec l j j ND). tauto.
    - rewrite in_app_iff. cbn. tauto.
  Qed.

  Lemma NoDup_app_delta d l j : NoDup l -> (d = DAdd -> ~ In j l) -> NoDup (app_delta d l j).
  Proof.
    intros ND H. destruct d; cbn.
    - exact ND.
    - apply remove_NoDup; assumption.
    - apply NoDup_snoc; auto.
  Qed.

  Lemma last_status_next evs j ow i :
    last_status eqb (evs ++ next_events j ow) i =
    match ow with Some w => if eqb j i then Some w else last_status eqb evs i | None => last_status eqb evs i end.
  Proof.
    destruct ow as [w|]; cbn [WaitTaskProofs.next_events].
    - apply last_status_snoc.
    - rewrite app_nil_r. reflexivity.
  Qed.

  (* ---- invariant 1: the log and the table ---------------------------------- *)
  Definition agree_at (t : table) (evs : list wevent) (i : A) : Prop :=
    forall r, lookup eqb t i = Some r -> exists w, last_status eqb evs i = Some w /\ r_rec r = rec_of w.

  Lemma agree_emit t evs i j w :
    (i <> j -> agree_at t evs i) -> agree_at (set_rec eqb t j (rec_of w)) (evs ++ [(j, w)]) i.
  Proof.
    intros H r. rewrite (lookup_set_rec A eqb eqb_spec), last_status_snoc.
    destruct (eqb j i) eqn:E.
    - destruct (lookup eqb t j) as [r0|]; [|discriminate]. intros [= <-]. exists w. split; reflexivity.
    - apply H. intros ->. rewrite eqb_refl in E. discriminate.
  Qed.

  Lemma agree_next t evs i j ow :
    agree_at t evs i -> agree_at (next_table t j ow) (evs ++ next_events j ow) i.
  Proof.
    intros H. destruct ow as [w|]; cbn.
    - apply agree_emit. intros _. exact H.
    - rewrite app_nil_r. exact H.
  Qed.

  Lemma agree_fold l w i : forall t evs,
    (In i l \/ agree_at t evs i) ->
    agree_at (fold_left (fun t j => set_rec eqb t j (rec_of w)) l t) (evs ++ map (fun j => (j, w)) l) i.
  Proof.
    induction l as [|a l IH]; intros t evs H; cbn [fold_left map].
    - rewrite app_nil_r. destruct H as [[]|H]. exact H.
    - replace (evs ++ (a, w) :: map (fun j => (j, w)) l) with ((evs ++ [(a, w)]) ++ map (fun j => (j, w)) l)
        by (rewrite <- app_assoc; reflexivity).
      apply IH. destruct (eqb i a) eqn:E.
      + apply eqb_spec in E. subst a. right. apply agree_emit. intros Hne. congruence.
      + destruct H as [[H|H]|H].
        * subst a. rewrite eqb_refl in E. discriminate.
        * left. exact H.
        * right. apply agree_emit. intros _. exact H.
  Qed.

  Definition inv_log (s : state) (evs : list wevent) : Prop :=
    (forall i, In i (st_pending s) -> In i ids) /\
    (forall i, In i ids -> agree_at (st_table s) evs i /\ last_status eqb evs i <> None) /\
    (forall i w, In (i, w) evs -> In i ids).

  Lemma last_status_app_some e1 e2 i : last_status eqb e1 i <> None -> last_status eqb (e1 ++ e2) i <> None.
  Proof. rewrite (last_status_app A eqb). destruct (last_status eqb e2 i); [discriminate|auto]. Qed.

  (* Start: the loop over the ids *)
  Lemma start_fold_agree ca l i : forall t pend evs,
    (In i l \/ agree_at t evs i) ->
    let '(t', _, evs') := fold_left (start_one eqb c ca) l (t, pend, evs) in agree_at t' evs' i.
  Proof.
    induction l as [|a l IH]; intros t pend evs H; cbn [fold_left].
    - destruct H as [[]|H]. exact H.
    - rewrite (start_one_shape A eqb). apply IH. destruct (eqb i a) eqn:E.
      + apply eqb_spec in E. subst a. right. apply agree_emit. congruence.
      + destruct H as [[H|H]|H].
        * subst a. rewrite eqb_refl in E. discriminate.
        * left. exact H.
        * right. apply agree_emit. intros _. exact H.
  Qed.

  Lemma last_status_map (f : A -> wstatus) l i :
    last_status eqb (map (fun j => (j, f j)) l) i = if mem eqb i l then Some (f i) else None.
  Proof.
    induction l as [|a l IH]; [reflexivity|].
    cbn [map last_status]. rewrite IH. unfold mem in *. cbn [existsb].
    destruct (existsb (eqb i) l) eqn:M.
    - rewrite orb_true_r. reflexivity.
    - rewrite orb_false_r. rewrite (eqb_sym A eqb eqb_spec i a).
      destruct (eqb a i) eqn:E; [|reflexivity]. apply eqb_spec in E. subst. reflexivity.
  Qed.

  Lemma inv_log_start s : let '(s', evs) := start eqb c ids s in inv_log s' evs.
  Proof.
    pose proof (start_shape A eqb eqb_spec c ids s) as Sh.
    unfold start in *.
    pose proof (fun i => start_fold_agree (st_cache s) ids i (st_table s) [] []) as Ag.
    destruct (fold_left _ ids _) as [[t' pend'] evs']. cbn [st_pending st_table] in *.
    destruct Sh as [_ [Hp [_ [_ [_ He]]]]]. split; [|split].
    - intros i Hi. cbn in Hi. rewrite Hp in Hi. apply filter_In in Hi. apply Hi.
    - intros i Hi. split.
      + apply Ag. left. exact Hi.
      + rewrite He, last_status_map.
        apply (mem_In A eqb eqb_spec) in Hi. rewrite Hi. discriminate.
    - intros i w Hin. rewrite He in Hin. apply in_map_iff in Hin. destruct Hin as [i' [[= -> _] Hi]]. exact Hi.
  Qed.

  Lemma inv_log_step s evs x :
    is_start x = false -> inv_log s evs ->
    inv_log (fst (step eqb c ids s x)) (evs ++ snd (step eqb c ids s x)).
  Proof.
    intros Hx [Hp [Ha He]]. destruct x as [|j o| |]; [discriminate| | |].
    - cbn [step].
      set (s1 := with_cache s (cache_put eqb (st_cache s) j o)).
      pose proof (status_update_shape A eqb c ids s1 j) as Sh.
      pose proof (su_outcome_add_pending s1 j) as Hadd.
      pose proof (su_outcome_event s1 j) as Hev.
      destruct (su_outcome c ids s1 j) as [[dp df] ow].
      destruct (status_update eqb c ids s1 j) as [s' new].
      destruct Sh as [Sp [_ [St [_ [Se _]]]]]. cbn [fst snd st_pending st_table s1 with_cache] in *.
      subst new. split; [|split].
      + intros i Hi. rewrite Sp in Hi. destruct dp; cbn in Hi.
        * auto.
        * apply Hp. eapply remove_In_sub; eassumption.
        * apply in_app_iff in Hi. destruct Hi as [Hi|[<-|[]]]; [auto|]. apply Hadd. reflexivity.
      + intros i Hi. destruct (Ha i Hi) as [H1 H2]. split.
        * rewrite St. apply agree_next. exact H1.
        * apply last_status_app_some. exact H2.
      + intros i w Hin. apply in_app_iff in Hin. destruct Hin as [Hin|Hin]; [eauto|].
        destruct ow as [w'|]; cbn in Hin; [|contradiction]. destruct Hin as [[= <- <-]|[]].
        destruct (Hev w' eq_refl); auto.
    - cbn [step]. destruct (st_done s); cbn [fst snd timeout_events st_pending st_table].
      + rewrite app_nil_r. split; [|split]; assumption.
      + split; [exact Hp|]. split.
        * intros i Hi. destruct (Ha i Hi) as [H1 H2]. split.
          -- change RTimeout with (rec_of WTimeout). apply agree_fold. right. exact H1.
          -- apply last_status_app_some. exact H2.
        * intros i w Hin. apply in_app_iff in Hin. destruct Hin as [Hin|Hin]; [eauto|].
          apply in_map_iff in Hin. destruct Hin as [i' [[= -> _] Hi]]. auto.
    - cbn. rewrite app_nil_r. split; [|split]; assumption.
  Qed.
End WaitTaskInvariants.

(* ---- invariant 2: every object of the task is in one of five situations ---- *)
Section WaitTaskBuckets.
  Variable A : Type.
  Variable eqb : A -> A -> bool.
  Hypothesis eqb_spec : forall x y, eqb x y = true <-> x = y.
  Variable ids : list A.

  Notation table := (table A).
  Notation cache := (A -> cobs).
  Notation state := (state A).
  Notation wevent := (A * wstatus)%type.
  Notation input := (input A).

  Let eqb_refl := eqb_refl A eqb eqb_spec.
  Let eqb_neq := eqb_neq A eqb eqb_spec.
  Notation same_act := (same_act A eqb).
  Notation cond_met := (cond_met A eqb).
  Notation su_outcome := (su_outcome A eqb).
  Notation app_delta := (app_delta A eqb).
  Notation next_table := (next_table A eqb).
  Notation next_events := (next_events A).
  Notation start_status := (start_status A eqb).
  Notation agree_at := (agree_at A eqb).
  Notation inv_log := (inv_log A eqb ids).

  Definition bucket_shape (c : cond) (skp : bool) (P F : Prop) (last : option wstatus) (met chg : bool) : Prop :=
       (skp = true /\ ~ P /\ ~ F /\ last = Some WSkipped)
    \/ (skp = false /\ P /\ ~ F /\ (last = Some WPending \/ last = Some WTimeout))
    \/ (skp = false /\ ~ P /\ F /\ last = Some WFailed)
    \/ (skp = false /\ ~ P /\ ~ F /\ last = Some WSuccessful /\ met = true)
    \/ (skp = false /\ ~ P /\ ~ F /\ last = Some WFailed /\ c = AllCurrent /\ chg = true).

  Lemma bs_skipped c skp (P F : Prop) last met chg :
    skp = true -> ~ P -> ~ F -> last = Some WSkipped -> bucket_shape c skp P F last met chg.
  Proof. unfold bucket_shape. tauto. Qed.
  Lemma bs_pending c skp (P F : Prop) last met chg :
    skp = false -> P -> ~ F -> (last = Some WPending \/ last = Some WTimeout) -> bucket_shape c skp P F last met chg.
  Proof. unfold bucket_shape. tauto. Qed.
  Lemma bs_failed c skp (P F : Prop) last met chg :
    skp = false -> ~ P -> F -> last = Some WFailed -> bucket_shape c skp P F last met chg.
  Proof. unfold bucket_shape. tauto. Qed.
  Lemma bs_succ c skp (P F : Prop) last met chg :
    skp = false -> ~ P -> ~ F -> last = Some WSuccessful -> met = true -> bucket_shape c skp P F last met chg.
  Proof. unfold bucket_shape. tauto. Qed.
  Lemma bs_replaced c skp (P F : Prop) last met chg :
    skp = false -> ~ P -> ~ F -> last = Some WFailed -> c = AllCurrent -> chg = true -> bucket_shape c skp P F last met chg.
  Proof. unfold bucket_shape. tauto. Qed.

  Lemma bucket_shape_ext c skp (P F P' F' : Prop) last met chg :
    (P' <-> P) -> (F' <-> F) -> bucket_shape c skp P F last met chg -> bucket_shape c skp P' F' last met chg.
  Proof. unfold bucket_shape. tauto. Qed.

  Definition bucket_ok (c : cond) (s : state) (evs : list wevent) (i : A) : Prop :=
    bucket_shape c (skipped eqb c (st_table s) i) (In i (st_pending s)) (In i (st_failed s))
                 (last_status eqb evs i) (cond_met c (st_table s) (st_cache s) i)
                 (changed_uid eqb (st_table s) (st_cache s) i).

  Definition inv_buckets (c : cond) (s : state) (evs : list wevent) : Prop :=
    NoDup (st_pending s) /\ NoDup (st_failed s) /\
    (forall i, In i (st_failed s) -> In i ids) /\
    (forall i, In i ids -> bucket_ok c s evs i).

  Definition inv (c : cond) (s : state) (evs : list wevent) : Prop := inv_log s evs /\ inv_buckets c s evs.

  Lemma cond_met_cache_ext c t (ca ca' : cache) i : ca' i = ca i -> cond_met c t ca' i = cond_met c t ca i.
  Proof.
    intros H. unfold WaitTaskProofs.cond_met, reconciled_by_id, match_status, changed_uid.
    rewrite H. reflexivity.
  Qed.
  Lemma changed_uid_cache_ext t (ca ca' : cache) i : ca' i = ca i -> changed_uid eqb t ca' i = changed_uid eqb t ca i.
  Proof. intros H. unfold changed_uid. rewrite H. reflexivity. Qed.

  Lemma changed_uid_lookup t (ca : cache) i : changed_uid eqb t ca i = true -> lookup eqb t i <> None.
  Proof. unfold changed_uid. destruct (lookup eqb t i); [discriminate|discriminate]. Qed.

  Lemma bucket_transport c s evs s' evs' i :
    same_act (st_table s) (st_table s') -> st_cache s' i = st_cache s i ->
    (In i (st_pending s') <-> In i (st_pending s)) -> (In i (st_failed s') <-> In i (st_failed s)) ->
    last_status eqb evs' i = last_status eqb evs i ->
    bucket_ok c s evs i -> bucket_ok c s' evs' i.
  Proof.
    intros SA Hc Hp Hf Hl Hb. unfold bucket_ok.
    rewrite (same_act_skipped A eqb c _ _ i SA), (same_act_cond_met A eqb c _ _ _ i SA),
            (same_act_changed_uid A eqb _ _ _ i SA), Hl,
            (cond_met_cache_ext c _ _ _ i Hc), (changed_uid_cache_ext _ _ _ i Hc).
    eapply bucket_shape_ext; [exact Hp|exact Hf|exact Hb].
  Qed.

  Lemma cache_put_other (ca : cache) j o i : i <> j -> cache_put eqb ca j o i = ca i.
  Proof. intros H. unfold cache_put. rewrite eqb_neq; [reflexivity|congruence]. Qed.

  (* ---- Start from the initial state ---------------------------------------- *)
  Lemma inv_buckets_start c t0 ca0 :
    NoDup ids ->
    let '(s', evs) := start eqb c ids (init t0 ca0) in inv_buckets c s' evs.
  Proof.
    intros ND. pose proof (start_shape A eqb eqb_spec c ids (init t0 ca0)) as Sh.
    destruct (start eqb c ids (init t0 ca0)) as [s' evs]. cbn [init st_table st_cache st_failed] in Sh.
    destruct Sh as [SA [Sp [Sf [Sc [_ Se]]]]].
    split; [|split; [|split]].
    - rewrite Sp. apply (NoDup_filter A). exact ND.
    - rewrite Sf. constructor.
    - intros i Hi. rewrite Sf in Hi. destruct Hi.
    - intros i Hi. unfold bucket_ok.
      rewrite (same_act_skipped A eqb c _ _ i SA), (same_act_cond_met A eqb c _ _ _ i SA),
              (same_act_changed_uid A eqb _ _ _ i SA), Sc, Sp, Sf, Se.
      rewrite (last_status_map A eqb eqb_spec).
      rewrite (proj2 (mem_In A eqb eqb_spec i ids) Hi).
      eapply bucket_shape_ext; [apply filter_In| reflexivity |].
      unfold WaitTaskProofs.start_status, WaitTaskProofs.cond_met.
      destruct (skipped eqb c t0 i); [apply bs_skipped; cbn; intuition congruence|].
      destruct (changed_uid eqb t0 ca0 i).
      + destruct c; [apply bs_replaced|apply bs_succ]; cbn; intuition congruence.
      + destruct (reconciled_by_id eqb c t0 ca0 i).
        * destruct c; apply bs_succ; cbn; intuition congruence.
        * apply bs_pending; cbn; intuition congruence.
  Qed.

  (* ---- Update: the updated object ------------------------------------------ *)
  Lemma bucket_update_self c s evs j o dp df ow s' :
    NoDup (st_pending s) -> NoDup (st_failed s) -> In j ids ->
    agree_at (st_table s) evs j -> bucket_ok c s evs j ->
    su_outcome c ids (with_cache s (cache_put eqb (st_cache s) j o)) j = (dp, df, ow) ->
    st_pending s' = app_delta dp (st_pending s) j -> st_failed s' = app_delta df (st_failed s) j ->
    st_table s' = next_table (st_table s) j ow -> st_cache s' = cache_put eqb (st_cache s) j o ->
    bucket_ok c s' (evs ++ next_events j ow) j.
  Proof.
    intros NDp NDf Hj Hag Hb Hout Sp Sf St Sc.
    pose proof (same_act_next_table A eqb eqb_spec (st_table s) j ow) as SA.
    unfold bucket_ok. rewrite Sp, Sf, St, Sc.
    rewrite (same_act_skipped A eqb c _ _ j SA), (same_act_cond_met A eqb c _ _ _ j SA),
            (same_act_changed_uid A eqb _ _ _ j SA).
    rewrite (last_status_next A eqb), eqb_refl.
    eapply bucket_shape_ext;
      [apply (In_app_delta_self A eqb eqb_spec); exact NDp|apply (In_app_delta_self A eqb eqb_spec); exact NDf|].
    assert (Ei : contains eqb ids j = true) by (apply (contains_In A eqb eqb_spec); exact Hj).
    (* what the log says about the recorded reconcile status *)
    assert (Hrf_succ : last_status eqb evs j = Some WSuccessful -> is_reconcile eqb (st_table s) j RFailed = false).
    { intros HL. unfold is_reconcile. destruct (lookup eqb (st_table s) j) as [r|] eqn:L; [|reflexivity].
      destruct (Hag r L) as [w [Hw Hr]]. rewrite HL in Hw. injection Hw as <-. rewrite Hr. reflexivity. }
    assert (Hrf_failed : last_status eqb evs j = Some WFailed -> lookup eqb (st_table s) j <> None ->
                         is_reconcile eqb (st_table s) j RFailed = true).
    { intros HL Hn. unfold is_reconcile. destruct (lookup eqb (st_table s) j) as [r|] eqn:L; [|congruence].
      destruct (Hag r L) as [w [Hw Hr]]. rewrite HL in Hw. injection Hw as <-. rewrite Hr. reflexivity. }
    revert Hout. unfold WaitTaskProofs.su_outcome, WaitTaskProofs.cond_met.
    cbn [st_pending st_failed st_table st_cache with_cache].
    unfold bucket_ok, bucket_shape in Hb.
    destruct Hb as [(Hs & HP & HF & HL) | [(Hs & HP & HF & HL) | [(Hs & HP & HF & HL) |
                   [(Hs & HP & HF & HL & HM) | (Hs & HP & HF & HL & HC & HG)]]]]; rewrite Hs.
    - (* skipped *)
      rewrite (proj2 (contains_not_In A eqb eqb_spec _ _) HP), Ei. cbn [negb].
      intros [= <- <- <-]. apply bs_skipped; auto.
    - (* pending *)
      rewrite (proj2 (contains_In A eqb eqb_spec _ _) HP).
      destruct (changed_uid eqb (st_table s) (cache_put eqb (st_cache s) j o) j);
        [destruct c; intros [= <- <- <-]; [apply bs_replaced|apply bs_succ]; auto|].
      destruct (reconciled_by_id eqb c (st_table s) (cache_put eqb (st_cache s) j o) j);
        [destruct c; intros [= <- <- <-]; apply bs_succ; auto|].
      destruct (failed_by_id (cache_put eqb (st_cache s) j o) j); intros [= <- <- <-];
        [apply bs_failed|apply bs_pending]; auto.
    - (* failed *)
      rewrite (proj2 (contains_not_In A eqb eqb_spec _ _) HP), Ei, (proj2 (contains_In A eqb eqb_spec _ _) HF).
      cbn [negb].
      destruct (changed_uid eqb (st_table s) (cache_put eqb (st_cache s) j o) j);
        [destruct c; intros [= <- <- <-]; [apply bs_replaced|apply bs_succ]; auto|].
      destruct (reconciled_by_id eqb c (st_table s) (cache_put eqb (st_cache s) j o) j);
        [destruct c; intros [= <- <- <-]; apply bs_succ; auto|].
      destruct (failed_by_id (cache_put eqb (st_cache s) j o) j); cbn [negb]; intros [= <- <- <-];
        [apply bs_failed|apply bs_pending]; auto.
    - (* reported reconciled *)
      rewrite (proj2 (contains_not_In A eqb eqb_spec _ _) HP), Ei, (proj2 (contains_not_In A eqb eqb_spec _ _) HF).
      cbn [negb]. rewrite (Hrf_succ HL).
      destruct (changed_uid eqb (st_table s) (cache_put eqb (st_cache s) j o) j);
        [destruct c; cbn; intros [= <- <- <-]; [apply bs_replaced|apply bs_succ]; auto|].
      destruct (reconciled_by_id eqb c (st_table s) (cache_put eqb (st_cache s) j o) j); cbn [negb];
        intros [= <- <- <-]; [destruct c; apply bs_succ|apply bs_pending]; auto.
    - (* reported failed because replaced *)
      rewrite (proj2 (contains_not_In A eqb eqb_spec _ _) HP), Ei, (proj2 (contains_not_In A eqb eqb_spec _ _) HF).
      cbn [negb]. rewrite (Hrf_failed HL (changed_uid_lookup _ _ _ HG)). subst c.
      destruct (changed_uid eqb (st_table s) (cache_put eqb (st_cache s) j o) j);
        [cbn; intros [= <- <- <-]; apply bs_replaced; auto|].
      destruct (reconciled_by_id eqb AllCurrent (st_table s) (cache_put eqb (st_cache s) j o) j); cbn [negb];
        intros [= <- <- <-]; [apply bs_succ|apply bs_pending]; auto.
  Qed.

  (* what the update of an object that was reported Failed / Successful emits *)
  Lemma update_flapping c s evs j o dp df ow :
    In j ids -> agree_at (st_table s) evs j -> bucket_ok c s evs j ->
    su_outcome c ids (with_cache s (cache_put eqb (st_cache s) j o)) j = (dp, df, ow) ->
    let met := cond_met c (st_table s) (cache_put eqb (st_cache s) j o) j in
    let chg := changed_uid eqb (st_table s) (cache_put eqb (st_cache s) j o) j in
    (last_status eqb evs j = Some WFailed -> met = true -> ow = Some WSuccessful) /\
    (last_status eqb evs j = Some WSuccessful -> met = false ->
       ow = Some (if is_current c && chg then WFailed else WPending) /\
       (is_current c && chg = false -> dp = DAdd)).
  Proof.
    intros Hj Hag Hb Hout met chg. subst met chg.
    assert (Ei : contains eqb ids j = true) by (apply (contains_In A eqb eqb_spec); exact Hj).
    assert (Hrf_succ : last_status eqb evs j = Some WSuccessful -> is_reconcile eqb (st_table s) j RFailed = false).
    { intros HL. unfold is_reconcile. destruct (lookup eqb (st_table s) j) as [r|] eqn:L; [|reflexivity].
      destruct (Hag r L) as [w [Hw Hr]]. rewrite HL in Hw. injection Hw as <-. rewrite Hr. reflexivity. }
    assert (Hrf_failed : last_status eqb evs j = Some WFailed -> lookup eqb (st_table s) j <> None ->
                         is_reconcile eqb (st_table s) j RFailed = true).
    { intros HL Hn. unfold is_reconcile. destruct (lookup eqb (st_table s) j) as [r|] eqn:L; [|congruence].
      destruct (Hag r L) as [w [Hw Hr]]. rewrite HL in Hw. injection Hw as <-. rewrite Hr. reflexivity. }
    revert Hout. unfold WaitTaskProofs.su_outcome, WaitTaskProofs.cond_met.
    cbn [st_pending st_failed st_table st_cache with_cache].
    unfold bucket_ok, bucket_shape in Hb.
    destruct Hb as [(Hs & HP & HF & HL) | [(Hs & HP & HF & HL) | [(Hs & HP & HF & HL) |
                   [(Hs & HP & HF & HL & HM) | (Hs & HP & HF & HL & HC & HG)]]]]; rewrite ?Hs.
    - intros _. split; intros H; rewrite HL in H; discriminate.
    - intros _. split; intros H; rewrite H in HL; destruct HL; discriminate.
    - rewrite (proj2 (contains_not_In A eqb eqb_spec _ _) HP), Ei, (proj2 (contains_In A eqb eqb_spec _ _) HF).
      cbn [negb]. split; [|intros H; rewrite HL in H; discriminate]. intros _. revert Hout.
      destruct (changed_uid eqb (st_table s) (cache_put eqb (st_cache s) j o) j);
        [destruct c; cbn; intros [= <- <- <-]; [discriminate|reflexivity]|].
      destruct (reconciled_by_id eqb c (st_table s) (cache_put eqb (st_cache s) j o) j);
        [intros [= <- <- <-]; reflexivity|]. destruct c; cbn; discriminate.
    - rewrite (proj2 (contains_not_In A eqb eqb_spec _ _) HP), Ei, (proj2 (contains_not_In A eqb eqb_spec _ _) HF).
      cbn [negb]. rewrite (Hrf_succ HL). split; [intros H; rewrite HL in H; discriminate|]. intros _. revert Hout.
      destruct (changed_uid eqb (st_table s) (cache_put eqb (st_cache s) j o) j).
      + destruct c; cbn; intros [= <- <- <-]; [split; [reflexivity|discriminate]|discriminate].
      + rewrite andb_false_r.
        destruct (reconciled_by_id eqb c (st_table s) (cache_put eqb (st_cache s) j o) j); cbn [negb].
        * destruct c; cbn; discriminate.
        * intros [= <- <- <-]. split; reflexivity.
    - rewrite (proj2 (contains_not_In A eqb eqb_spec _ _) HP), Ei, (proj2 (contains_not_In A eqb eqb_spec _ _) HF).
      cbn [negb]. rewrite (Hrf_failed HL (changed_uid_lookup _ _ _ HG)). subst c.
      split; [|intros H; rewrite HL in H; discriminate]. intros _. revert Hout.
      destruct (changed_uid eqb (st_table s) (cache_put eqb (st_cache s) j o) j); [cbn; discriminate|].
      destruct (reconciled_by_id eqb AllCurrent (st_table s) (cache_put eqb (st_cache s) j o) j); cbn [negb];
        [intros [= <- <- <-]; reflexivity|cbn; discriminate].
  Qed.

  Lemma su_outcome_skipped c s j :
    In j ids -> ~ In j (st_pending s) -> skipped eqb c (st_table s) j = true ->
    su_outcome c ids s j = (DKeep, DKeep, None).
  Proof.
    intros Hj HP Hs. unfold WaitTaskProofs.su_outcome.
    rewrite (proj2 (contains_not_In A eqb eqb_spec _ _) HP), (proj2 (contains_In A eqb eqb_spec _ _) Hj), Hs.
    reflexivity.
  Qed.

  (* ---- one step preserves the invariant ------------------------------------ *)
  Lemma inv_step c s evs x :
    is_start x = false -> inv c s evs ->
    inv c (fst (step eqb c ids s x)) (evs ++ snd (step eqb c ids s x)).
  Proof.
    intros Hx [HL HB]. split; [apply (inv_log_step A eqb eqb_spec c ids); assumption|].
    destruct HB as [NDp [NDf [Hfi Hb]]]. destruct HL as [Hpi [Hag _]].
    destruct x as [|j o| |]; [discriminate| | |].
    - cbn [step]. set (s1 := with_cache s (cache_put eqb (st_cache s) j o)).
      pose proof (status_update_shape A eqb c ids s1 j) as Sh.
      pose proof (su_outcome_add_pending A eqb eqb_spec c ids s1 j) as Hap.
      pose proof (su_outcome_add_failed A eqb eqb_spec c ids s1 j) as Haf.
      destruct (su_outcome c ids s1 j) as [[dp df] ow] eqn:Eo.
      destruct (status_update eqb c ids s1 j) as [s' new].
      destruct Sh as [Sp [Sf [St [Sc [Se _]]]]]. cbn [fst snd] in *. subst new.
      cbn [s1 with_cache st_pending st_failed st_table st_cache] in *.
      split; [|split; [|split]].
      + rewrite Sp. apply (NoDup_app_delta A eqb eqb_spec); [exact NDp|]. intros ->. apply Hap. reflexivity.
      + rewrite Sf. apply (NoDup_app_delta A eqb eqb_spec); [exact NDf|]. intros ->.
        specialize (Haf eq_refl). pose proof (Hb j (Hpi j Haf)) as B. unfold bucket_ok, bucket_shape in B. tauto.
      + intros i Hi. rewrite Sf in Hi. destruct df; cbn in Hi.
        * auto.
        * apply Hfi. eapply remove_In_sub; eassumption.
        * apply in_app_iff in Hi. destruct Hi as [Hi|[<-|[]]]; [auto|]. apply Hpi, Haf. reflexivity.
      + intros i Hi. destruct (eqb i j) eqn:E.
        * apply eqb_spec in E. subst i.
          eapply (bucket_update_self c s evs j o dp df ow s'); eauto. apply Hag. exact Hi.
        * assert (Hne : i <> j) by (intros ->; rewrite eqb_refl in E; discriminate).
          apply (bucket_transport c s evs).
          -- rewrite St. apply (same_act_next_table A eqb eqb_spec).
          -- rewrite Sc. apply cache_put_other. exact Hne.
          -- rewrite Sp. apply (In_app_delta_other A eqb eqb_spec); assumption.
          -- rewrite Sf. apply (In_app_delta_other A eqb eqb_spec); assumption.
          -- rewrite (last_status_next A eqb). destruct ow; [|reflexivity].
             rewrite eqb_neq; [reflexivity|congruence].
          -- apply Hb. exact Hi.
    - cbn [step]. destruct (st_done s) eqn:D; cbn [fst snd].
      + rewrite app_nil_r. repeat split; auto.
      + unfold timeout_events. cbn [fst snd st_pending st_failed st_table st_cache].
        split; [exact NDp|]. split; [exact NDf|]. split; [exact Hfi|]. intros i Hi.
        pose proof (same_act_fold_set_rec A eqb eqb_spec (st_pending s) RTimeout (st_table s)) as SA.
        assert (HLs : last_status eqb (evs ++ map (fun i0 => (i0, WTimeout)) (st_pending s)) i =
                      if mem eqb i (st_pending s) then Some WTimeout else last_status eqb evs i).
        { rewrite (last_status_app A eqb), (last_status_map A eqb eqb_spec (fun _ => WTimeout)).
          destruct (mem eqb i (st_pending s)); reflexivity. }
        destruct (mem eqb i (st_pending s)) eqn:M.
        * apply (mem_In A eqb eqb_spec) in M. pose proof (Hb i Hi) as B.
          unfold bucket_ok, bucket_shape in B. unfold bucket_ok. cbn [st_pending st_failed st_table st_cache].
          rewrite (same_act_skipped A eqb c _ _ i SA), HLs.
          apply bs_pending; tauto.
        * apply (mem_false A eqb eqb_spec) in M. apply (bucket_transport c s evs); cbn; auto; try reflexivity.
    - cbn. rewrite app_nil_r. split; [exact NDp|]. split; [exact NDf|]. split; [exact Hfi|].
      intros i Hi. apply (bucket_transport c s evs); cbn; try reflexivity; auto. apply same_act_refl.
  Qed.

  (* ---- a phase: Start from the initial state, then a Start-free list ------- *)
  Definition phase (c : cond) (t0 : table) (ca0 : cache) (l : list input) : state * list wevent :=
    (fst (run eqb c ids (init t0 ca0) (Start :: l)), concat (snd (run eqb c ids (init t0 ca0) (Start :: l)))).

  Lemma phase_fold c t0 ca0 l :
    phase c t0 ca0 l = fold_left (step_acc A eqb c ids) l (start eqb c ids (init t0 ca0)).
  Proof.
    unfold phase. cbn [run step].
    destruct (start eqb c ids (init t0 ca0)) as [s1 e0].
    symmetry. etransitivity; [apply (run_fold A eqb c ids l s1 e0)|].
    destruct (run eqb c ids s1 l) as [s2 es]. reflexivity.
  Qed.

  Lemma phase_snoc c t0 ca0 l x :
    phase c t0 ca0 (l ++ [x]) =
    (fst (step eqb c ids (fst (phase c t0 ca0 l)) x),
     snd (phase c t0 ca0 l) ++ snd (step eqb c ids (fst (phase c t0 ca0 l)) x)).
  Proof.
    rewrite !phase_fold, fold_left_app. cbn [fold_left]. unfold step_acc at 1.
    destruct (step eqb c ids _ x); reflexivity.
  Qed.

  Theorem inv_log_phase c t0 ca0 l :
    no_start l = true -> inv_log (fst (phase c t0 ca0 l)) (snd (phase c t0 ca0 l)).
  Proof.
    intros Hl. rewrite phase_fold.
    pose proof (inv_log_start A eqb eqb_spec c ids (init t0 ca0)) as H0.
    destruct (start eqb c ids (init t0 ca0)) as [s1 e0].
    apply (fold_invariant A eqb c ids (fun s evs => inv_log s evs)); [|exact Hl|exact H0].
    intros s evs x Hx H. apply (inv_log_step A eqb eqb_spec c ids); assumption.
  Qed.

  Theorem inv_phase c t0 ca0 l :
    NoDup ids -> no_start l = true -> inv c (fst (phase c t0 ca0 l)) (snd (phase c t0 ca0 l)).
  Proof.
    intros ND Hl. rewrite phase_fold.
    pose proof (inv_log_start A eqb eqb_spec c ids (init t0 ca0)) as H0.
    pose proof (inv_buckets_start c t0 ca0 ND) as H1.
    destruct (start eqb c ids (init t0 ca0)) as [s1 e0].
    apply (fold_invariant A eqb c ids (fun s evs => inv c s evs)); [|exact Hl|split; assumption].
    intros s evs x Hx H. apply inv_step; assumption.
  Qed.
End WaitTaskBuckets.
