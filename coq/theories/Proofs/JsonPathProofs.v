(* C18 — lemmas about the JSON tree / path model. *)
From Coq Require Import List Bool Arith ZArith String Ascii Lia.
From CliUtils Require Import Base.StrReplace Model.JsonPath.
Import ListNotations.

(* ---- induction principle for the nested type ---------------------------- *)
Section TvInd.
  Variable P : tv -> Prop.
  Hypothesis HNull : P TNull.
  Hypothesis HBool : forall b, P (TBool b).
  Hypothesis HInt : forall z, P (TInt z).
  Hypothesis HFlt : forall m e, P (TFlt m e).
  Hypothesis HStr : forall s, P (TStr s).
  Hypothesis HArr : forall l, Forall P l -> P (TArr l).
  Hypothesis HObj : forall kv, Forall (fun kx => P (snd kx)) kv -> P (TObj kv).

  Fixpoint tv_ind2 (t : tv) : P t :=
    match t with
    | TNull => HNull
    | TBool b => HBool b
    | TInt z => HInt z
    | TFlt m e => HFlt m e
    | TStr s => HStr s
    | TArr l =>
        HArr l ((fix go (l : list tv) : Forall P l :=
                   match l with
                   | [] => Forall_nil _
                   | x :: r => Forall_cons _ (tv_ind2 x) (go r)
                   end) l)
    | TObj kv =>
        HObj kv ((fix go (kv : list (string * tv)) : Forall (fun kx => P (snd kx)) kv :=
                    match kv with
                    | [] => Forall_nil _
                    | kx :: r => Forall_cons _ (tv_ind2 (snd kx)) (go r)
                    end) kv)
    end.
End TvInd.

(* ---- association lists and arrays ---------------------------------------- *)
Lemma seg_eqb_eq : forall a b, seg_eqb a b = true -> a = b.
Proof.
  intros [x|x] [y|y] H; simpl in H; try discriminate.
  - apply String.eqb_eq in H. now subst.
  - apply Nat.eqb_eq in H. now subst.
Qed.

Lemma seg_eqb_refl : forall a, seg_eqb a a = true.
Proof. intros [x|x]; simpl; [apply String.eqb_refl | apply Nat.eqb_refl]. Qed.

Lemma lookup_update_same : forall k c kv x,
  lookup k kv = Some x -> lookup k (update k c kv) = Some c.
Proof.
  intros k c kv. induction kv as [|[k' y] r IH]; intros x H; simpl in *.
  - discriminate.
  - destruct (String.eqb k k') eqn:E; simpl; rewrite E.
    + reflexivity.
    + eapply IH; eauto.
Qed.

Lemma lookup_update_other : forall k k' c kv,
  String.eqb k k' = false -> lookup k' (update k c kv) = lookup k' kv.
Proof.
  intros k k' c kv Hne. induction kv as [|[k2 y] r IH]; simpl.
  - reflexivity.
  - destruct (String.eqb k k2) eqn:E; simpl.
    + apply String.eqb_eq in E. subst k2.
      rewrite String.eqb_sym in Hne. rewrite Hne. reflexivity.
    + destruct (String.eqb k' k2); [reflexivity | exact IH].
Qed.

Lemma update_update : forall k c1 c2 kv,
  update k c2 (update k c1 kv) = update k c2 kv.
Proof.
  intros k c1 c2 kv. induction kv as [|[k2 y] r IH]; simpl.
  - reflexivity.
  - destruct (String.eqb k k2) eqn:E; simpl; rewrite E.
    + reflexivity.
    + now rewrite IH.
Qed.

Lemma nth_list_set_same : forall n c l x,
  nth_error l n = Some x -> nth_error (list_set n c l) n = Some c.
Proof.
  induction n as [|n IH]; intros c l x H; destruct l as [|y r]; simpl in *; try discriminate.
  - reflexivity.
  - eapply IH; eauto.
Qed.

Lemma nth_list_set_other : forall n m c l,
  n <> m -> nth_error (list_set n c l) m = nth_error l m.
Proof.
  induction n as [|n IH]; intros m c l Hne; destruct l as [|y r]; simpl; try reflexivity.
  - destruct m as [|m]; [congruence | reflexivity].
  - destruct m as [|m]; [reflexivity|]. simpl. apply IH. congruence.
Qed.

Lemma list_set_list_set : forall n c1 c2 l,
  list_set n c2 (list_set n c1 l) = list_set n c2 l.
Proof.
  induction n as [|n IH]; intros c1 c2 l; destruct l as [|y r]; simpl; try reflexivity.
  now rewrite IH.
Qed.

(* ---- one step -------------------------------------------------------------- *)
Lemma child_put_same : forall s c t x,
  child s t = Some x -> child s (put_child s c t) = Some c.
Proof.
  intros [k|n] c t x H; destruct t; simpl in *; try discriminate.
  - eapply lookup_update_same; eauto.
  - eapply nth_list_set_same; eauto.
Qed.

Lemma child_put_other : forall s s' c t,
  seg_eqb s s' = false -> child s' (put_child s c t) = child s' t.
Proof.
  intros [k|n] [k'|n'] c t H; destruct t; simpl in *; try reflexivity.
  - now apply lookup_update_other.
  - apply nth_list_set_other. intro E. subst. now rewrite Nat.eqb_refl in H.
Qed.

Lemma put_put_child : forall s c1 c2 t,
  put_child s c2 (put_child s c1 t) = put_child s c2 t.
Proof.
  intros [k|n] c1 c2 t; destruct t; simpl; try reflexivity.
  - now rewrite update_update.
  - now rewrite list_set_list_set.
Qed.

(* ---- paths ----------------------------------------------------------------- *)
Lemma jget_le_one : forall p t, List.length (jget p t) <= 1.
Proof.
  induction p as [|s p IH]; intros t; simpl.
  - lia.
  - destruct (child s t); [apply IH | simpl; lia].
Qed.

Lemma jput_none_iff : forall p v t, jput p v t = None <-> jget p t = [].
Proof.
  induction p as [|s p IH]; intros v t; simpl.
  - split; discriminate.
  - destruct (child s t) as [c|]; [|tauto].
    specialize (IH v c). destruct (jput p v c); split; intro H.
    + discriminate.
    + apply IH in H. discriminate.
    + now apply IH.
    + reflexivity.
Qed.

Lemma jput_some_one : forall p v t t', jput p v t = Some t' -> exists x, jget p t = [x].
Proof.
  intros p v t t' H.
  assert (L := jget_le_one p t).
  destruct (jget p t) as [|x [|y r]] eqn:E.
  - apply (jput_none_iff p v t) in E. congruence.
  - now exists x.
  - simpl in L. lia.
Qed.

Lemma get_put : forall p v t t', jput p v t = Some t' -> jget p t' = [v].
Proof.
  induction p as [|s p IH]; intros v t t' H; simpl in *.
  - now inversion H.
  - destruct (child s t) as [c|] eqn:Ec; [|discriminate].
    destruct (jput p v c) as [c'|] eqn:Ep; [|discriminate].
    inversion H; subst t'.
    rewrite (child_put_same s c' t c Ec). eapply IH; eauto.
Qed.

Lemma put_frame : forall p v t t' q,
  jput p v t = Some t' -> prefix_related p q = false -> jget q t' = jget q t.
Proof.
  induction p as [|s p IH]; intros v t t' q H Hpr.
  - unfold prefix_related in Hpr. simpl in Hpr. discriminate.
  - destruct q as [|s' q].
    + unfold prefix_related in Hpr. simpl in Hpr. rewrite orb_true_r in Hpr. discriminate.
    + simpl in H.
      destruct (child s t) as [c|] eqn:Ec; [|discriminate].
      destruct (jput p v c) as [c'|] eqn:Ep; [|discriminate].
      inversion H; subst t'. simpl.
      destruct (seg_eqb s s') eqn:Es.
      * apply seg_eqb_eq in Es. subst s'.
        rewrite (child_put_same s c' t c Ec), Ec.
        eapply IH; eauto.
        unfold prefix_related in *. simpl in Hpr.
        rewrite seg_eqb_refl in Hpr. simpl in Hpr. exact Hpr.
      * now rewrite (child_put_other s s' c' t Es).
Qed.

Lemma put_put : forall p v w t t',
  jput p v t = Some t' -> jput p w t' = jput p w t.
Proof.
  induction p as [|s p IH]; intros v w t t' H; simpl in *.
  - reflexivity.
  - destruct (child s t) as [c|] eqn:Ec; [|discriminate].
    destruct (jput p v c) as [c'|] eqn:Ep; [|discriminate].
    inversion H; subst t'.
    rewrite (child_put_same s c' t c Ec).
    rewrite (IH v w c c' Ep).
    destruct (jput p w c); [|reflexivity].
    now rewrite put_put_child.
Qed.

Lemma blank_frame : forall p v t t', jput p v t = Some t' -> blank p t' = blank p t.
Proof. intros. unfold blank. eapply put_put; eauto. Qed.

(* ---- strings that survive the text round trip ------------------------------- *)
Lemma str_clean_parts : forall s,
  str_clean s = true -> str_reject s = false /\ has_nel s = false.
Proof.
  intros s H. unfold str_clean in H. apply andb_true_iff in H as [A B].
  apply negb_true_iff in A, B. now split.
Qed.

Lemma str_clean_key : forall s, str_clean s = true -> key_reject s = false.
Proof.
  intros s H. apply str_clean_parts in H as [A B]. unfold key_reject. now rewrite A, B.
Qed.

Lemma clean_not_bad : forall t, tree_clean t = true -> tree_bad t = false.
Proof.
  induction t as [| | | | s | l IH | kv IH] using tv_ind2; intros H; simpl in *; try reflexivity.
  - now apply str_clean_parts in H.
  - induction l as [|x r IHr]; simpl in *; [reflexivity|].
    apply andb_true_iff in H as [Hx Hr]. inversion IH; subst.
    rewrite (H1 Hx). simpl. now apply IHr.
  - induction kv as [|[k x] r IHr]; simpl in *; [reflexivity|].
    apply andb_true_iff in H as [Hx Hr]. apply andb_true_iff in Hx as [Hk Hx].
    inversion IH; subst. simpl in H1.
    rewrite (str_clean_key _ Hk), (H1 Hx). simpl. now apply IHr.
Qed.

Lemma clean_fix : forall t, tree_clean t = true -> tree_fix t = t.
Proof.
  induction t as [| | | | s | l IH | kv IH] using tv_ind2; intros H; simpl in *; try reflexivity.
  - apply str_clean_parts in H as [_ B]. unfold nel_fix. now rewrite B.
  - f_equal. induction l as [|x r IHr]; simpl in *; [reflexivity|].
    apply andb_true_iff in H as [Hx Hr]. inversion IH; subst.
    rewrite (H1 Hx). f_equal. now apply IHr.
  - f_equal. induction kv as [|[k x] r IHr]; simpl in *; [reflexivity|].
    apply andb_true_iff in H as [Hx Hr]. apply andb_true_iff in Hx as [Hk Hx].
    inversion IH; subst. simpl in H1.
    rewrite (H1 Hx). f_equal. now apply IHr.
Qed.

Lemma codec_clean : forall t, tree_clean t = true -> codec_rt t = Some t.
Proof.
  intros t H. unfold codec_rt. now rewrite (clean_not_bad t H), (clean_fix t H).
Qed.

Lemma clean_lookup : forall k kv x,
  tree_clean (TObj kv) = true -> lookup k kv = Some x -> tree_clean x = true.
Proof.
  intros k kv x. induction kv as [|[k' y] r IH]; simpl; intros H L; [discriminate|].
  apply andb_true_iff in H as [Hy Hr]. apply andb_true_iff in Hy as [_ Hy].
  destruct (String.eqb k k'); [inversion L; now subst | now apply IH].
Qed.

Lemma clean_nth : forall n l x,
  tree_clean (TArr l) = true -> nth_error l n = Some x -> tree_clean x = true.
Proof.
  induction n as [|n IH]; intros l x H L; destruct l as [|y r]; simpl in *; try discriminate;
    apply andb_true_iff in H as [Hy Hr].
  - inversion L; now subst.
  - eapply IH; eauto.
Qed.

Lemma clean_child : forall s t c,
  tree_clean t = true -> child s t = Some c -> tree_clean c = true.
Proof.
  intros [k|n] t c H L; destruct t; simpl in L; try discriminate.
  - eapply clean_lookup; eauto.
  - eapply clean_nth; eauto.
Qed.

Lemma clean_update : forall k c kv,
  tree_clean (TObj kv) = true -> tree_clean c = true -> tree_clean (TObj (update k c kv)) = true.
Proof.
  intros k c kv. induction kv as [|[k' y] r IH]; simpl; intros H Hc; [reflexivity|].
  apply andb_true_iff in H as [Hy Hr]. apply andb_true_iff in Hy as [Hk Hy].
  destruct (String.eqb k k'); simpl.
  - now rewrite Hk, Hc, Hr.
  - rewrite Hk, Hy. simpl. now apply IH.
Qed.

Lemma clean_list_set : forall n c l,
  tree_clean (TArr l) = true -> tree_clean c = true -> tree_clean (TArr (list_set n c l)) = true.
Proof.
  induction n as [|n IH]; intros c l H Hc; destruct l as [|y r]; simpl in *; try reflexivity;
    apply andb_true_iff in H as [Hy Hr].
  - now rewrite Hc, Hr.
  - rewrite Hy. simpl. now apply IH.
Qed.

Lemma clean_put_child : forall s c t,
  tree_clean t = true -> tree_clean c = true -> tree_clean (put_child s c t) = true.
Proof.
  intros [k|n] c t H Hc; destruct t; simpl; try exact H.
  - now apply clean_update.
  - now apply clean_list_set.
Qed.

Lemma clean_jput : forall p v t t',
  tree_clean v = true -> tree_clean t = true -> jput p v t = Some t' -> tree_clean t' = true.
Proof.
  induction p as [|s p IH]; intros v t t' Hv Ht H; simpl in *.
  - inversion H; now subst.
  - destruct (child s t) as [c|] eqn:Ec; [|discriminate].
    destruct (jput p v c) as [c'|] eqn:Ep; [|discriminate].
    inversion H; subst t'.
    apply clean_put_child; [exact Ht|].
    eapply IH; eauto. eapply clean_child; eauto.
Qed.

Lemma clean_jget : forall p t x,
  tree_clean t = true -> jget p t = [x] -> tree_clean x = true.
Proof.
  induction p as [|s p IH]; intros t x Ht H; simpl in *.
  - inversion H; now subst.
  - destruct (child s t) as [c|] eqn:Ec; [|discriminate].
    eapply IH; eauto. eapply clean_child; eauto.
Qed.

(* ---- Get / Set --------------------------------------------------------------- *)
Lemma jset_ok_inv : forall p v t t' n,
  jset p v t = SetOk t' n ->
  p <> [] /\
  ((n = 0 /\ t' = t /\ jput p v t = None) \/
   (n = 1 /\ settable v = true /\ exists t1, jput p v t = Some t1 /\ codec_rt t1 = Some t')).
Proof.
  intros p v t t' n H. unfold jset in H.
  destruct p as [|s p]; [discriminate|].
  split; [discriminate|].
  destruct (jput (s :: p) v t) as [t1|] eqn:Ep.
  - destruct (settable v) eqn:Es; simpl in H; [|discriminate].
    destruct (codec_rt t1) as [t2|] eqn:Ec; [|discriminate].
    inversion H; subst. right. repeat split; eauto.
  - inversion H; subst. left. now repeat split.
Qed.

Lemma jget_c_clean : forall p t, tree_clean t = true -> jget_c p t = GetOk (jget p t).
Proof.
  intros p t Ht. unfold jget_c.
  assert (L := jget_le_one p t).
  destruct (jget p t) as [|x [|y r]] eqn:E; simpl.
  - reflexivity.
  - now rewrite (codec_clean x (clean_jget p t x Ht E)).
  - simpl in L. lia.
Qed.

Lemma jset_clean : forall p v t t',
  tree_clean v = true -> tree_clean t = true -> jset p v t = SetOk t' 1 ->
  jput p v t = Some t' /\ tree_clean t' = true.
Proof.
  intros p v t t' Hv Ht H. apply jset_ok_inv in H as [_ [[E _]|[_ [_ [t1 [Ep Ec]]]]]]; [discriminate|].
  assert (C := clean_jput p v t t1 Hv Ht Ep).
  rewrite (codec_clean t1 C) in Ec. inversion Ec; subst. now split.
Qed.

Lemma get_set_partial : forall p v t t',
  tree_clean v = true -> tree_clean t = true ->
  jset p v t = SetOk t' 1 -> jget_c p t' = GetOk [v].
Proof.
  intros p v t t' Hv Ht H. destruct (jset_clean p v t t' Hv Ht H) as [Ep C].
  rewrite (jget_c_clean p t' C). f_equal. eapply get_put; eauto.
Qed.

Lemma frame_partial : forall p v t t',
  tree_clean v = true -> tree_clean t = true ->
  jset p v t = SetOk t' 1 ->
  (forall q, prefix_related p q = false -> jget_c q t' = jget_c q t) /\
  blank p t' = blank p t.
Proof.
  intros p v t t' Hv Ht H. destruct (jset_clean p v t t' Hv Ht H) as [Ep C]. split.
  - intros q Hq. rewrite (jget_c_clean q t' C), (jget_c_clean q t Ht). f_equal.
    eapply put_frame; eauto.
  - eapply blank_frame; eauto.
Qed.

Lemma set_requires_one : forall p v t t' n,
  jset p v t = SetOk t' n ->
  n = List.length (jget p t) /\ n <= 1 /\ (n = 0 -> t' = t).
Proof.
  intros p v t t' n H. apply jset_ok_inv in H as [_ [[E [Et Ep]]|[E [_ [t1 [Ep _]]]]]].
  - subst. apply jput_none_iff in Ep. rewrite Ep. simpl. repeat split; lia.
  - subst. destruct (jput_some_one p v t t1 Ep) as [x Ex]. rewrite Ex. simpl.
    repeat split; try lia.
Qed.

Lemma set_succeeds_partial : forall p v t x,
  p <> [] -> tree_clean v = true -> tree_clean t = true -> settable v = true ->
  jget p t = [x] -> exists t', jset p v t = SetOk t' 1.
Proof.
  intros p v t x Hp Hv Ht Hs Hg. unfold jset.
  destruct p as [|s p]; [congruence|].
  destruct (jput (s :: p) v t) as [t1|] eqn:Ep.
  - rewrite Hs. simpl. rewrite (codec_clean t1 (clean_jput _ v t t1 Hv Ht Ep)). now exists t1.
  - apply jput_none_iff in Ep. congruence.
Qed.

Lemma set_zero_untouched : forall p v t, p <> [] -> jget p t = [] -> jset p v t = SetOk t 0.
Proof.
  intros p v t Hp Hg. unfold jset. destruct p as [|s p]; [congruence|].
  apply (jput_none_iff (s :: p) v t) in Hg. now rewrite Hg.
Qed.
