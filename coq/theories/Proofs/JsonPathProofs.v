(* C18 — lemmas about the JSON tree / path model. *)
From Coq Require Import List Bool Arith ZArith String Ascii Lia.
From CliUtils Require Import Base.StrReplace Model.JsonPath.
Import ListNotations.

(* ---- induction principle for the nested type ---------------------------- *)
Section TvInd.
  Variable P : tv -> Prop.
  Hypothesis HNull : P TNull.
  Hypothesis HBool : forall b, P (TBool b).
  Hypothesis HInt : forall z, P (TInt z).
  Hypothesis HFlt : forall m e, P (TFlt m e).
  Hypothesis HStr : forall s, P (TStr s).
  Hypothesis HArr : forall l, Forall P l -> P (TArr l).
  Hypothesis HObj : forall kv, Forall (fun kx => P (snd kx)) kv -> P (TObj kv).

  Fixpoint tv_ind2 (t : tv) : P t :=
    match t with
    | TNull => HNull
    | TBool b => HBool b
    | TInt z => HInt z
    | TFlt m e => HFlt m e
    | TStr s => HStr s
    | TArr l =>
        HArr l ((fix go (l : list tv) : Forall P l :=
                   match l with
                   | [] => Forall_nil _
                   | x :: r => Forall_cons _ (tv_ind2 x) (go r)
                   end) l)
    | TObj kv =>
        HObj kv ((fix go (kv : list (string * tv)) : Forall (fun kx => P (snd kx)) kv :=
                    match kv with
                    | [] => Forall_nil _
                    | kx :: r => Forall_cons _ (tv_ind2 (snd kx)) (go r)
                    end) kv)
    end.
End TvInd.

(* ---- association lists and arrays ---------------------------------------- *)
Lemma seg_eqb_eq : forall a b, seg_eqb a b = true -> a = b.
Proof.
  intros [x|x] [y|y] H; simpl in H; try discriminate.
  - apply String.eqb_eq in H. now subst.
  - apply Nat.eqb_eq in H. now subst.
Qed.

Lemma seg_eqb_refl : forall a, seg_eqb a a = true.
Proof. intros [x|x]; simpl; [apply String.eqb_refl | apply Nat.eqb_refl]. Qed.

Lemma lookup_update_same : forall k c kv x,
  lookup k kv = Some x -> lookup k (update k c kv) = Some c.
Proof.
  intros k c kv. induction kv as [|[k' y] r IH]; intros x H; simpl in *.
  - discriminate.
  - destruct (String.eqb k k') eqn:E; simpl; rewrite E.
    + reflexivity.
    + eapply IH; eauto.
Qed.

Lemma lookup_update_other : forall k k' c kv,
  String.eqb k k' = false -> lookup k' (update k c kv) = lookup k' kv.
Proof.
  intros k k' c kv Hne. induction kv as [|[k2 y] r IH]; simpl.
  - reflexivity.
  - destruct (String.eqb k k2) eqn:E; simpl.
    + apply String.eqb_eq in E. subst k2.
      rewrite String.eqb_sym in Hne. rewrite Hne. reflexivity.
    + destruct (String.eqb k' k2); [reflexivity | exact IH].
Qed.

Lemma update_update : forall k c1 c2 kv,
  update k c2 (update k c1 kv) = update k c2 kv.
Proof.
  intros k c1 c2 kv. induction kv as [|[k2 y] r IH]; simpl.
  - reflexivity.
  - destruct (String.eqb k k2) eqn:E; simpl; rewrite E.
    + reflexivity.
    + now rewrite IH.
Qed.

Lemma nth_list_set_same : forall n c l x,
  nth_error l n = Some x -> nth_error (list_set n c l) n = Some c.
Proof.
  induction n as [|n IH]; intros c l x H; destruct l as [|y r]; simpl in *; try discriminate.
  - reflexivity.
  - eapply IH; eauto.
Qed.

Lemma nth_list_set_other : forall n m c l,
  n <> m -> nth_error (list_set n c l) m = nth_error l m.
Proof.
  induction n as [|n IH]; intros m c l Hne; destruct l as [|y r]; simpl; try reflexivity.
  - destruct m as [|m]; [congruence | reflexivity].
  - destruct m as [|m]; [reflexivity|]. simpl. apply IH. congruence.
Qed.

Lemma list_set_list_set : forall n c1 c2 l,
  list_set n c2 (list_set n c1 l) = list_set n c2 l.
Proof.
  induction n as [|n IH]; intros c1 c2 l; destruct l as [|y r]; simpl; try reflexivity.
  now rewrite IH.
Qed.

(* ---- one step -------------------------------------------------------------- *)
Lemma child_put_same : forall s c t x,
  child s t = Some x -> child s (put_child s c t) = Some c.
Proof.
  intros [k|n] c t x H; destruct t; simpl in *; try discriminate.
  - eapply lookup_update_same; eauto.
  - eapply nth_list_set_same; eauto.
Qed.

Lemma child_put_other : forall s s' c t,
  seg_eqb s s' = false -> child s' (put_child s c t) = child s' t.
Proof.
  intros [k|n] [k'|n'] c t H; destruct t; simpl in *; try reflexivity.
  - now apply lookup_update_other.
  - apply nth_list_set_other. intro E. subst. now rewrite Nat.eqb_refl in H.
Qed.

Lemma put_put_child : forall s c1 c2 t,
  put_child s c2 (put_child s c1 t) = put_child s c2 t.
Proof.
  intros [k|n] c1 c2 t; destruct t; simpl; try reflexivity.
  - now rewrite update_update.
  - now rewrite list_set_list_set.
Qed.

(* ---- paths ----------------------------------------------------------------- *)
Lemma jget_le_one : forall p t, List.length (jget p t) <= 1.
Proof.
  induction p as [|s p IH]; intros t; simpl.
  - lia.
  - destruct (child s t); [apply IH | simpl; lia].
Qed.

Lemma jput_none_iff : forall p v t, jput p v t = None <-> jget p t = [].
Proof.
  induction p as [|s p IH]; intros v t; simpl.
  - split; discriminate.
  - destruct (child s t) as [c|]; [|tauto].
    specialize (IH v c). destruct (jput p v c); split; intro H.
    + discriminate.
    + apply IH in H. discriminate.
    + now apply IH.
    + reflexivity.
Qed.

Lemma jput_some_one : forall p v t t', jput p v t = Some t' -> exists x, jget p t = [x].
Proof.
  intros p v t t' H.
  assert (L := jget_le_one p t).
  destruct (jget p t) as [|x [|y r]] eqn:E.
  - apply (jput_none_iff p v t) in E. congruence.
  - now exists x.
  - simpl in L. lia.
Qed.

Lemma get_put : forall p v t t', jput p v t = Some t' -> jget p t' = [v].
Proof.
  induction p as [|s p IH]; intros v t t' H; simpl in *.
  - now inversion H.
  - destruct (child s t) as [c|] eqn:Ec; [|discriminate].
    destruct (jput p v c) as [c'|] eqn:Ep; [|discriminate].
    inversion H; subst t'.
    rewrite (child_put_same s c' t c Ec). eapply IH; eauto.
Qed.

Lemma put_frame : forall p v t t' q,
  jput p v t = Some t' -> prefix_related p q = false -> jget q t' = jget q t.
Proof.
  induction p as [|s p IH]; intros v t t' q H Hpr.
  - unfold prefix_related in Hpr. simpl in Hpr. discriminate.
  - destruct q as [|s' q].
    + unfold prefix_related in Hpr. simpl in Hpr. try rewrite orb_true_r in Hpr. discriminate.
    + simpl in H.
      destruct (child s t) as [c|] eqn:Ec; [|discriminate].
      destruct (jput p v c) as [c'|] eqn:Ep; [|discriminate].
      inversion H; subst t'. simpl.
      destruct (seg_eqb s s') eqn:Es.
      * apply seg_eqb_eq in Es. subst s'.
        rewrite (child_put_same s c' t c Ec), Ec.
        eapply IH; eauto.
        unfold prefix_related in *. simpl in Hpr.
        rewrite seg_eqb_refl in Hpr. simpl in Hpr. exact Hpr.
      * now rewrite (child_put_other s s' c' t Es).
Qed.

Lemma put_put : forall p v w t t',
  jput p v t = Some t' -> jput p w t' = jput p w t.
Proof.
  induction p as [|s p IH]; intros v w t t' H; simpl in *.
  - reflexivity.
  - destruct (child s t) as [c|] eqn:Ec; [|discriminate].
    destruct (jput p v c) as [c'|] eqn:Ep; [|discriminate].
    inversion H; subst t'.
    rewrite (child_put_same s c' t c Ec).
    rewrite (IH v w c c' Ep).
    destruct (jput p w c); [|reflexivity].
    now rewrite put_put_child.
Qed.

Lemma blank_frame : forall p v t t', jput p v t = Some t' -> blank p t' = blank p t.
Proof. intros. unfold blank. eapply put_put; eauto. Qed.

(* ---- Get / Set --------------------------------------------------------------- *)
Lemma jset_ok_inv : forall p v t t' n,
  jset p v t = SetOk t' n ->
  p <> [] /\
  ((n = 0 /\ t' = t /\ jput p v t = None) \/
   (n = 1 /\ settable v = true /\ jput p v t = Some t')).
Proof.
  intros p v t t' n H. unfold jset in H.
  destruct p as [|s p]; [discriminate|].
  split; [discriminate|].
  destruct (jput (s :: p) v t) as [t1|] eqn:Ep.
  - destruct (settable v) eqn:Es; [|discriminate].
    inversion H; subst. right. now repeat split.
  - inversion H; subst. left. now repeat split.
Qed.

Lemma jset_one_put : forall p v t t', jset p v t = SetOk t' 1 -> jput p v t = Some t'.
Proof.
  intros p v t t' H. apply jset_ok_inv in H as [_ [[E _]|[_ [_ Ep]]]]; [discriminate | exact Ep].
Qed.

Lemma get_set : forall p v t t',
  jset p v t = SetOk t' 1 -> jget_c p t' = GetOk [v].
Proof.
  intros p v t t' H. unfold jget_c. f_equal. eapply get_put. eapply jset_one_put; eauto.
Qed.

Lemma frame : forall p v t t',
  jset p v t = SetOk t' 1 ->
  (forall q, prefix_related p q = false -> jget_c q t' = jget_c q t) /\
  blank p t' = blank p t.
Proof.
  intros p v t t' H. apply jset_one_put in H. split.
  - intros q Hq. unfold jget_c. f_equal. eapply put_frame; eauto.
  - eapply blank_frame; eauto.
Qed.

Lemma set_requires_one : forall p v t t' n,
  jset p v t = SetOk t' n ->
  n = List.length (jget p t) /\ n <= 1 /\ (n = 0 -> t' = t).
Proof.
  intros p v t t' n H. apply jset_ok_inv in H as [_ [[E [Et Ep]]|[E [_ Ep]]]].
  - subst. apply jput_none_iff in Ep. rewrite Ep. simpl. repeat split; lia.
  - subst. destruct (jput_some_one p v t t' Ep) as [x Ex]. rewrite Ex. simpl.
    repeat split; try lia.
Qed.

Lemma set_succeeds : forall p v t x,
  p <> [] -> settable v = true -> jget p t = [x] -> exists t', jset p v t = SetOk t' 1.
Proof.
  intros p v t x Hp Hs Hg. unfold jset.
  destruct p as [|s p]; [congruence|].
  destruct (jput (s :: p) v t) as [t1|] eqn:Ep.
  - rewrite Hs. now exists t1.
  - apply jput_none_iff in Ep. congruence.
Qed.

Lemma set_unsupported : forall p v t x,
  p <> [] -> settable v = false -> jget p t = [x] -> jset p v t = SetErr JEUnsupported.
Proof.
  intros p v t x Hp Hs Hg. unfold jset.
  destruct p as [|s p]; [congruence|].
  destruct (jput (s :: p) v t) as [t1|] eqn:Ep.
  - now rewrite Hs.
  - apply jput_none_iff in Ep. congruence.
Qed.

Lemma set_zero_untouched : forall p v t, p <> [] -> jget p t = [] -> jset p v t = SetOk t 0.
Proof.
  intros p v t Hp Hg. unfold jset. destruct p as [|s p]; [congruence|].
  apply (jput_none_iff (s :: p) v t) in Hg. now rewrite Hg.
Qed.
