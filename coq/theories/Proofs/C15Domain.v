(* The identifiers C15 quantifies over: namespace, group and kind are valid
   Kubernetes names (letters, digits, '-', '.'), the name is any valid
   path-segment name.  Shows that the well-formedness hypotheses of the codec
   lemmas are implied by it. *)
From Coq Require Import List Bool Arith String Ascii Lia.
From CliUtils Require Import Base.Strings Proofs.StringsProofs Model.IdCodec Model.DependsOnCodec
     Proofs.IdCodecProofs Proofs.DependsOnProofs.
Import ListNotations.
Local Open Scope string_scope.

Definition dns_char (c : ascii) : bool :=
  let n := nat_of_ascii c in
  (Nat.leb 48 n && Nat.leb n 57) || (Nat.leb 65 n && Nat.leb n 90) || (Nat.leb 97 n && Nat.leb n 122)
  || Nat.eqb n 45 || Nat.eqb n 46.

Fixpoint dns_name (s : string) : bool :=
  match s with EmptyString => true | String c r => dns_char c && dns_name r end.

(* apimachinery IsValidPathSegmentName, and not empty *)
Definition path_segment (s : string) : bool :=
  nonempty s && negb (String.eqb s ".") && negb (String.eqb s "..")
  && no_slash s && negb (contains "%" s).

Definition in_domain (i : oid) : bool :=
  dns_name (o_ns i) && dns_name (o_grp i) && dns_name (o_knd i) && nonempty (o_knd i)
  && path_segment (o_name i).

Lemma dns_name_no_byte : forall c s, dns_char c = false -> dns_name s = true -> contains (ch c) s = false.
Proof.
  intros c. induction s as [|x s IH]; intros Hc H; [reflexivity|].
  simpl in H. apply andb_true_iff in H. destruct H as [Hx Hs].
  rewrite contains_ch_cons, (IH Hc Hs), orb_false_r.
  destruct (Ascii.eqb c x) eqn:E; [|reflexivity]. apply Ascii.eqb_eq in E. subst x. congruence.
Qed.

Lemma dns_char_not_ws_initial : forall c, dns_char c = true -> ws_initial c = false.
Proof.
  intros [[] [] [] [] [] [] [] []] H; try reflexivity; discriminate H.
Qed.

Lemma dns_name_head_ok : forall s, dns_name s = true -> head_ok s = true.
Proof.
  intros [|c r] H; [reflexivity|]. simpl in H. apply andb_true_iff in H. destruct H as [Hc _].
  unfold head_ok. now rewrite (dns_char_not_ws_initial c Hc).
Qed.

Lemma in_domain_inv : forall i, in_domain i = true ->
  dns_name (o_ns i) = true /\ dns_name (o_grp i) = true /\ dns_name (o_knd i) = true
  /\ nonempty (o_knd i) = true /\ nonempty (o_name i) = true /\ no_slash (o_name i) = true.
Proof.
  intros i H. unfold in_domain, path_segment in H. rewrite !andb_true_iff in H. tauto.
Qed.

(* inventory keys: inside the domain only a '_' in the name matters *)
Lemma domain_id_wf : forall i, in_domain i = true -> id_wf i = no_sep (o_name i).
Proof.
  intros i H. apply in_domain_inv in H. destruct H as [Hn [Hg [Hk _]]].
  unfold id_wf, no_sep, field_separator. change (String "_" "") with (ch "_").
  rewrite (dns_name_no_byte "_"%char _ eq_refl Hn), (dns_name_no_byte "_"%char _ eq_refl Hg),
          (dns_name_no_byte "_"%char _ eq_refl Hk). simpl.
  now rewrite !andb_true_r.
Qed.

(* depends-on references: inside the domain only the end of the name (and a
   ',' in the name, for sets) matters *)
Lemma domain_dep_fields_ok : forall i, in_domain i = true ->
  dep_fields_ok i = true /\ head_ok (o_grp i) = true.
Proof.
  intros i H. apply in_domain_inv in H. destruct H as [Hn [Hg [Hk [Hke [Hne Hsl]]]]].
  split; [|now apply dns_name_head_ok].
  unfold dep_fields_ok. rewrite Hke, Hne, Hsl. unfold no_slash.
  rewrite (dns_name_no_byte "/"%char _ eq_refl Hn : contains "/" _ = _),
          (dns_name_no_byte "/"%char _ eq_refl Hg : contains "/" _ = _),
          (dns_name_no_byte "/"%char _ eq_refl Hk : contains "/" _ = _). reflexivity.
Qed.

Lemma domain_ref_ok : forall i, in_domain i = true ->
  ref_ok i = last_ok (o_name i) && no_comma (o_name i).
Proof.
  intros i H. destruct (domain_dep_fields_ok i H) as [Hf Hh].
  apply in_domain_inv in H. destruct H as [Hn [Hg [Hk _]]].
  unfold ref_ok, item_ok, item_id. simpl fst. simpl snd. rewrite Hf, Hh.
  unfold dep_no_comma, no_comma.
  rewrite (dns_name_no_byte ","%char _ eq_refl Hn : contains "," _ = _),
          (dns_name_no_byte ","%char _ eq_refl Hg : contains "," _ = _),
          (dns_name_no_byte ","%char _ eq_refl Hk : contains "," _ = _). simpl.
  rewrite ?andb_true_r, ?andb_true_l. apply andb_comm.
Qed.

(* inside the domain Format accepts every reference whose name does not end
   with a white-space rune and contains no ',' *)
Lemma domain_format_accepts : forall i, in_domain i = true ->
  last_ok (o_name i) = true -> no_comma (o_name i) = true ->
  format_dep i = Ok (dep_string i).
Proof.
  intros i Hd Hl Hc. apply ref_ok_format. now rewrite (domain_ref_ok i Hd), Hl, Hc.
Qed.
