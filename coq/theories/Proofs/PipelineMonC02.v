(* mon_C02 (Corr/CorrPipeline.v), part 2: the final-state conjunct and the
   monitor theorem.  Outside dry-run and when the run ends without an error
   event, a prune object that carries the deletion-prevention annotation and
   was spared (prune/delete event "skipped") has been detached: it is not
   owned by the inventory any more and it is not in the stored inventory.
   Invariant `BInv` over the run: such objects are abandoned (`r_aband`) and
   abandoned prevention-annotated objects are unowned; at the end the
   inventory-set task succeeded, and the retention table drops abandoned valid
   objects. *)
From Coq Require Import List Bool Arith NArith ZArith Lia.
From CliUtils Require Import Model.ObjSet Model.ActuationTable Model.PipelineTypes Model.Pipeline
     Proofs.ObjSetProofs Proofs.PipelineBase Proofs.PipelineAuth Proofs.PipelineEvents Proofs.PipelineMisc
     Corr.CorrPipeline Proofs.PipelineOrphansBase Proofs.PipelineOrphansSpec Proofs.PipelineOrphansPlan
     Proofs.PipelineOrphansRun Proofs.PipelineMonBase Proofs.PipelineMonC13 Proofs.PipelineMonC10
     Proofs.PipelineMonC02a Proofs.PipelineMonC02b.
Import ListNotations.

(* ---- trace extensions without a "prune skipped" event ------------------------------------- *)
Definition noskip (it : item) : Prop := forall g i, it <> IEv (EPrune g i ASkip).

Lemma In_evs e l : In (IEv e) l -> In e (evs l).
Proof. intros H. unfold evs. apply in_flat_map. exists (IEv e). split; [exact H|left; reflexivity]. Qed.

Lemma emits_ext s s' es : emits s s' es -> (forall g i, ~ In (EPrune g i ASkip) es) ->
  exists l, r_tr s' = l ++ r_tr s /\ Forall noskip l.
Proof.
  intros [l [E F]] N. exists (rev l). split; [exact E|]. apply Forall_forall. intros it Hit g i ->.
  apply (N g i). rewrite <- F. apply In_evs. apply in_rev. exact Hit.
Qed.

Lemma noskip_snap cl it : snap_of cl it -> noskip it.
Proof. intros [r [ok [-> _]]] g i. discriminate. Qed.

Lemma Forall_noskip_snap cl lt : Forall (snap_of cl) lt -> Forall noskip lt.
Proof. intros F. eapply Forall_impl; [|exact F]. intros it. apply noskip_snap. Qed.

(* ---- the prune of an object that carries the deletion-prevention annotation ---------------- *)
Section Keep.
  Variable sc : scenario.
  Hypothesis ND : is_dry (o_dry (sc_opts sc)) = false.

  Lemma prune_filters_keep pl locals tbl uids c : c_keep c = true ->
    prune_filters sc pl locals tbl uids c = PSkipKeep.
  Proof. intros H. unfold prune_filters. rewrite H. reflexivity. Qed.

  Definition isreq (it : item) : Prop := exists r ok m st, it = IReq r ok m st.

  Lemma prune_one_keep pl locals g uids s c : c_keep c = true ->
    let i := c_id c in
    let s' := prune_one sc pl locals g uids s (pobj_of_live c) in
    exists a lt, r_tr s' = IEv (EPrune g i a) :: lt ++ r_tr s /\ Forall isreq lt /\
      ( a = AFail /\ r_cl s' = r_cl s /\ r_aband s' = r_aband s
        \/ a = ASkip /\ r_aband s' = i :: r_aband s /\ c_owner c = ONone /\ r_cl s' = r_cl s
        \/ a = ASkip /\ r_aband s' = i :: r_aband s /\ detached (r_cl s) (r_cl s') i (c_uid c) ).
  Proof.
    intros K. cbv zeta. unfold prune_one. cbn [p_live pobj_of_live].
    rewrite (prune_filters_keep pl locals (r_tbl s) uids c K), ND.
    assert (RQ : forall r ok m st, Forall isreq [IReq r ok m st]).
    { intros. constructor; [repeat eexists|constructor]. }
    assert (UPD : c_owner c <> ONone ->
      let s' := if faulted sc (FUpdate (c_id c))
              then rec_add (ev (log_req s (RUpdate (c_id c)) false) (EPrune g (c_id c) AFail)) (c_id c) SDelete AFailed 0%N 0%Z
              else match find_obj (objs (r_cl s)) (c_id c) with
                   | None => rec_add (ev (log_req s (RUpdate (c_id c)) false) (EPrune g (c_id c) AFail)) (c_id c) SDelete AFailed 0%N 0%Z
                   | Some _ =>
                       rec_add (ev (add_aband (log_req (set_cl s (mkCl (put_obj (objs (r_cl s))
                                  (mkC (c_id c) (c_uid c) ONone (c_keep c) (c_deps c) (c_baddep c) (c_ver c) (c_last c)))
                                  (inv (r_cl s)) (next_uid (r_cl s)))) (RUpdate (c_id c)) true) (c_id c))
                                (EPrune g (c_id c) ASkip)) (c_id c) SDelete ASkipped 0%N 0%Z
                   end in
      exists a lt, r_tr s' = IEv (EPrune g (c_id c) a) :: lt ++ r_tr s /\ Forall isreq lt /\
      ( a = AFail /\ r_cl s' = r_cl s /\ r_aband s' = r_aband s
        \/ a = ASkip /\ r_aband s' = c_id c :: r_aband s /\ c_owner c = ONone /\ r_cl s' = r_cl s
        \/ a = ASkip /\ r_aband s' = c_id c :: r_aband s /\ detached (r_cl s) (r_cl s') (c_id c) (c_uid c) )).
    { intros _. cbv zeta. destruct (faulted sc (FUpdate (c_id c))).
      { exists AFail. eexists [_]. split; [reflexivity|]. split; [apply RQ|]. left. repeat split. }
      destruct (find_obj (objs (r_cl s)) (c_id c)) eqn:EF.
      - exists ASkip. eexists [_]. split; [reflexivity|]. split; [apply RQ|]. right; right.
        split; [reflexivity|]. split; [reflexivity|]. cbn [rec_add set_tbl ev emit add_aband log_req set_cl r_cl].
        split; [exact (frame_put (r_cl s) (mkC (c_id c) (c_uid c) ONone (c_keep c) (c_deps c) (c_baddep c) (c_ver c) (c_last c)) _ (N.le_refl _))|].
        eexists. split; [apply (fo_put_same (r_cl s) (mkC (c_id c) (c_uid c) ONone (c_keep c) (c_deps c) (c_baddep c) (c_ver c) (c_last c)))|].
        split; reflexivity.
      - exists AFail. eexists [_]. split; [reflexivity|]. split; [apply RQ|]. left. repeat split. }
    destruct (c_owner c) eqn:EO.
    - exists ASkip, []. split; [reflexivity|]. split; [constructor|]. right; left. repeat split.
    - apply UPD. discriminate.
    - apply UPD. discriminate.
  Qed.
End Keep.

(* ---- the invariant ------------------------------------------------------------------------------ *)
Section BI.
  Variable sc : scenario.
  Variable c0 : cluster.
  Variable pl : plan.
  Notation aids := (apply_ids pl).
  Hypothesis ND : is_dry (o_dry (sc_opts sc)) = false.
  (* facts about the plan *)
  Hypothesis PL_prune : forall c, In (pobj_of_live c) (pl_prune pl) ->
    fo c0 (c_id c) = Some c /\ ~ In (c_id c) (pl_invalid pl) /\ ~ In (c_id c) aids.
  Hypothesis PL_local : plan_local pl.

  Record BInv (s : rst) : Prop := {
    B_nd : NoDup (ids_of (r_cl s));
    B_un : forall i c, fo c0 i = Some c -> c_keep c = true -> ~ In i aids ->
             (c_owner c = ONone \/ In i (r_aband s)) ->
             forall c1, fo (r_cl s) i = Some c1 -> c_owner c1 = ONone;
    B_ab : forall i c g, fo c0 i = Some c -> c_keep c = true -> In (IEv (EPrune g i ASkip)) (r_tr s) ->
             In i (r_aband s) /\ ~ In i aids /\ ~ In i (pl_invalid pl);
  }.

  Lemma BInv_frame s s' l :
    r_tr s' = l ++ r_tr s -> Forall noskip l -> r_aband s' = r_aband s ->
    (NoDup (ids_of (r_cl s)) -> NoDup (ids_of (r_cl s'))) ->
    (forall i, ~ In i aids -> fo (r_cl s') i = fo (r_cl s) i) ->
    BInv s -> BInv s'.
  Proof.
    intros ET F EA HN HF [A1 A2 A3]. constructor.
    - apply HN. exact A1.
    - intros i c Hc K NA H c1 Hc1. rewrite EA in H. rewrite (HF i NA) in Hc1. eapply A2; eassumption.
    - intros i c g Hc K Hin. rewrite EA. rewrite ET in Hin. apply in_app_or in Hin. destruct Hin as [Hin|Hin].
      + exfalso. rewrite Forall_forall in F. exact (F _ Hin g i eq_refl).
      + eapply A3; eassumption.
  Qed.

  Lemma BInv_quiet s s' es : quiet s s' -> emits s s' es -> (forall g i, ~ In (EPrune g i ASkip) es) ->
    BInv s -> BInv s'.
  Proof.
    intros [Q1 [Q2 _]] E N. destruct (emits_ext s s' es E N) as [l [ET F]].
    apply (BInv_frame s s' l ET F Q2); rewrite Q1; auto.
  Qed.

  Lemma BInv_ev s e : (forall g i, e <> EPrune g i ASkip) -> BInv s -> BInv (ev s e).
  Proof.
    intros H. apply (BInv_frame s (ev s e) [IEv e]); try reflexivity; auto.
    constructor; [|constructor]. intros g i E. injection E as E. exact (H g i E).
  Qed.

  Lemma BInv_invchg s s' : invchg (r_cl s) (r_cl s') -> emits s s' [] -> r_aband s' = r_aband s ->
    BInv s -> BInv s'.
  Proof.
    intros [C1 C2] E EA. destruct (emits_ext s s' [] E (fun g i (F : In _ []) => F)) as [l [ET F]].
    apply (BInv_frame s s' l ET F EA).
    - unfold ids_of. rewrite C1. auto.
    - intros i _. unfold fo. rewrite C1. reflexivity.
  Qed.

  (* ---- apply ---- *)
  Lemma b_apply_one g s p : local_ok pl p -> BInv s -> BInv (apply_one sc pl g s p).
  Proof.
    intros [Hin HL] B0. destruct (p_local p) as [l|] eqn:EL.
    2:{ unfold apply_one. rewrite EL. exact B0. }
    destruct (apply_one_spec sc pl g s p l EL (HL l eq_refl)) as [SA [a [u [gen [lt [_ [STR [SF SO]]]]]]]]. cbv zeta in *.
    apply (BInv_frame s _ (IEv (EApply g (p_id p) (ast_of a)) :: lt)); [exact STR| |exact SA| | |exact B0].
    - constructor; [intros g0 i0; discriminate|].
      eapply Forall_snap2_shape; [|exact SF]. intros c it. apply noskip_snap.
    - destruct SO as [[_ C]|[[_ [_ C]]|[_ [_ [[_ [_ [C _]]] _]]]]]; [rewrite C; auto|rewrite C; auto|exact C].
    - intros i NA. destruct SO as [[_ C]|[[_ [_ C]]|[_ [_ [[_ [C _]] _]]]]]; [rewrite C; auto|rewrite C; auto|].
      apply C. intros ->. exact (NA Hin).
  Qed.

  Lemma b_apply_task g layer : Forall (local_ok pl) layer -> forall s, BInv s -> BInv (apply_task sc pl g s layer).
  Proof.
    unfold apply_task. induction 1 as [|p t Hp _ IH]; intros s B0; cbn [fold_left]; [exact B0|].
    apply IH. apply b_apply_one; assumption.
  Qed.

  (* ---- prune ---- *)
  Lemma b_prune_one locals g uids s p : prune_ok pl p -> BInv s -> BInv (prune_one sc pl locals g uids s p).
  Proof.
    intros [c [-> Hc]] B0. destruct (PL_prune c Hc) as [Hc0 [NI NAi]]. pose proof B0 as [A1 A2 A3].
    destruct (c_keep c) eqn:K.
    - (* deletion prevented *)
      destruct (prune_one_keep sc ND pl locals g uids s c K) as [a [lt [STR [FR ALT]]]]. cbv zeta in *.
      set (s' := prune_one sc pl locals g uids s (pobj_of_live c)) in *.
      assert (NEW : forall g0 i0, In (IEv (EPrune g0 i0 ASkip)) (r_tr s') ->
                i0 = c_id c /\ a = ASkip \/ In (IEv (EPrune g0 i0 ASkip)) (r_tr s)).
      { intros g0 i0 H. rewrite STR in H. destruct H as [H|H]; [injection H as _ <- <-; left; auto|].
        apply in_app_or in H. destruct H as [H|H]; [|right; exact H].
        rewrite Forall_forall in FR. destruct (FR _ H) as [r [ok [m [st X]]]]. discriminate. }
      assert (FRM : frame (r_cl s) (r_cl s') (c_id c)).
      { destruct ALT as [[_ [C _]]|[[_ [_ [_ C]]]|[_ [_ [C _]]]]]; [rewrite C; apply frame_refl|rewrite C; apply frame_refl|exact C]. }
      destruct FRM as [_ [F2 [F3 _]]].
      assert (AB : forall j, In j (r_aband s) -> In j (r_aband s')).
      { intros j Hj. destruct ALT as [[_ [_ E]]|[[_ [E _]]|[_ [E _]]]]; rewrite E; [exact Hj|right; exact Hj|right; exact Hj]. }
      constructor.
      + apply F3. exact A1.
      + intros i c' Hc' K' NA H c1 Hc1. destruct (Nat.eq_dec i (c_id c)) as [->|Hi].
        * rewrite Hc0 in Hc'. injection Hc' as <-.
          destruct ALT as [[_ [C E]]|[[_ [_ [O C]]]|[_ [_ [_ [n [N1 [N2 _]]]]]]]].
          -- rewrite C in Hc1. rewrite E in H. eapply A2; eassumption.
          -- rewrite C in Hc1. eapply (A2 (c_id c) c); eauto.
          -- rewrite N1 in Hc1. injection Hc1 as <-. exact N2.
        * rewrite (F2 i Hi) in Hc1. apply (A2 i c' Hc' K' NA); [|exact Hc1].
          destruct H as [H|H]; [left; exact H|right].
          destruct ALT as [[_ [_ E]]|[[_ [E _]]|[_ [E _]]]]; rewrite E in H; [exact H| |]; (destruct H as [H|H]; [congruence|exact H]).
      + intros i c' g0 Hc' K' Hin. destruct (NEW g0 i Hin) as [[-> Ea]|Hold].
        * split; [|auto]. destruct ALT as [[Ea' _]|[[_ [E _]]|[_ [E _]]]]; [congruence|rewrite E; left; reflexivity|rewrite E; left; reflexivity].
        * destruct (A3 i c' g0 Hc' K' Hold) as [X Y]. split; [apply AB; exact X|exact Y].
    - (* no annotation: other identifiers are framed *)
      destruct (prune_one_spec sc pl locals g uids s c) as [a [u [ab [lt [_ [SA [STR [SF [_ SO]]]]]]]]]. cbv zeta in *.
      set (s' := prune_one sc pl locals g uids s (pobj_of_live c)) in *.
      assert (FRM : frame (r_cl s) (r_cl s') (c_id c)).
      { destruct SO as [[_ [_ C]]|[[_ [_ [C _]]]|[[_ [_ [C _]]]|[[_ [_ [C _]]]|[[_ [_ [C _]]]|[_ [_ [C _]]]]]]]];
          try (rewrite C; apply frame_refl); exact C. }
      destruct FRM as [_ [F2 [F3 _]]].
      assert (OTH : forall i c', fo c0 i = Some c' -> c_keep c' = true -> i <> c_id c).
      { intros i c' Hc' K' ->. rewrite Hc0 in Hc'. injection Hc' as <-. congruence. }
      constructor.
      + apply F3. exact A1.
      + intros i c' Hc' K' NA H c1 Hc1. pose proof (OTH i c' Hc' K') as Hi.
        rewrite (F2 i Hi) in Hc1. apply (A2 i c' Hc' K' NA); [|exact Hc1].
        destruct H as [H|H]; [left; exact H|right]. rewrite SA in H. destruct ab; [|exact H].
        destruct H as [H|H]; [congruence|exact H].
      + intros i c' g0 Hc' K' Hin. pose proof (OTH i c' Hc' K') as Hi.
        rewrite STR in Hin. destruct Hin as [H|H]; [injection H as _ E _; congruence|].
        apply in_app_or in H. destruct H as [H|H].
        * exfalso. rewrite Forall_forall in SF. destruct (SF _ H) as [r [ok [X _]]]. discriminate.
        * destruct (A3 i c' g0 Hc' K' H) as [X Y]. split; [|exact Y]. rewrite SA. destruct ab; [right|]; exact X.
  Qed.

  Lemma b_prune_task locals g layer : Forall (prune_ok pl) layer ->
    forall s, BInv s -> BInv (prune_task sc pl locals g s layer).
  Proof.
    unfold prune_task. intros F s. generalize (applied_uids (r_tbl s)). intros uids. revert s.
    induction F as [|p t Hp _ IH]; intros s B0; cbn [fold_left]; [exact B0|].
    apply IH. apply b_prune_one; assumption.
  Qed.

  (* ---- wait ---- *)
  Lemma b_wait_task c g ids s : BInv s -> BInv (wait_task sc c g ids s).
  Proof.
    destruct (e_wait_task sc c g ids s) as [es [E [F _]]].
    apply (BInv_quiet s _ es (q_wait_task sc c g ids s) E).
    intros g0 i0 H. rewrite Forall_forall in F. destruct (F _ H) as [[i [st [X _]]]|[i [st X]]]; discriminate.
  Qed.

  (* ---- inventory tasks ---- *)
  Lemma b_inv_add_task s : BInv s -> BInv (fst (inv_add_task sc pl s)).
  Proof.
    intros B0.
    destruct (inv_add_task_spec sc pl s PL_local) as [_ [SA [cl1 [lt1 [lt2 [_ [NSS [IC _]]]]]]]].
    destruct (emits_ext _ _ [] (e_inv_add_task sc pl s) (fun g i (F : In _ []) => F)) as [l [ET F]].
    apply (BInv_frame s _ l ET F SA).
    - intros N. unfold ids_of. rewrite (proj1 IC).
      destruct NSS as [[-> _]|[_ [n [u [_ [_ [_ [[[_ [_ [X _]]] _] _]]]]]]]]; [exact N|apply X; exact N].
    - intros i NA. unfold fo. rewrite (proj1 IC).
      destruct NSS as [[-> _]|[_ [n [u [_ [Hn [_ [[[_ [X _]] _] _]]]]]]]]; [reflexivity|].
      apply X. intros ->. exact (NA Hn).
    - exact B0.
  Qed.

  Lemma b_inv_set_task prev s : BInv s -> BInv (fst (inv_set_task sc pl prev s)).
  Proof.
    destruct (inv_set_task_spec sc pl prev s) as [_ [SA [IC _]]]. cbv zeta in *.
    apply (BInv_invchg s _ IC (e_inv_set_task sc pl prev s) SA).
  Qed.

  Lemma b_run_task locals prev s t : task_ok pl t -> BInv s -> BInv (fst (run_task sc pl locals prev s t)).
  Proof.
    intros OK B0. unfold run_task. cbv zeta.
    assert (S0 : BInv (ev s (EStarted (task_name t)))) by (apply BInv_ev; [discriminate|exact B0]).
    assert (FIN : forall s1, BInv s1 -> BInv (ev s1 (EFinished (task_name t)))) by (intros; apply BInv_ev; [discriminate|assumption]).
    destruct t; cbn [task_ok] in OK.
    - pose proof (b_inv_add_task _ S0) as T. destruct (inv_add_task sc pl _) as [s1 ok]. cbn [fst] in *. apply FIN, T.
    - cbn [fst]. apply FIN. apply b_apply_task; assumption.
    - cbn [fst]. apply FIN. apply b_wait_task; assumption.
    - cbn [fst]. apply FIN. apply b_prune_task; assumption.
    - pose proof (b_inv_set_task prev _ S0) as T. destruct (inv_set_task sc pl prev _) as [s1 ok]. cbn [fst] in *. apply FIN, T.
  Qed.
End BI.

(* ---- the end of the run: a successful inventory-set task ----------------------------------------- *)
Section Fin.
  Variable sc : scenario.
  Variable c0 : cluster.
  Variable pl : plan.
  Hypothesis ND : is_dry (o_dry (sc_opts sc)) = false.
  Hypothesis PL_prune : forall c, In (pobj_of_live c) (pl_prune pl) ->
    fo c0 (c_id c) = Some c /\ ~ In (c_id c) (pl_invalid pl) /\ ~ In (c_id c) (apply_ids pl).
  Hypothesis PL_local : plan_local pl.
  Notation BInv := (BInv c0 pl).

  Lemma inv_set_ok prev s : snd (inv_set_task sc pl prev s) = true ->
    inv (r_cl (fst (inv_set_task sc pl prev s))) = None \/
    exists pv L, prev = Some pv /\ inv (r_cl (fst (inv_set_task sc pl prev s))) = Some L /\
                 forall i, In i L -> In i (final_inventory pl pv s).
  Proof.
    unfold inv_set_task. destruct prev as [pv|]; [|discriminate].
    destruct (o_destroy (sc_opts sc) && destroy_successful pl pv s).
    - unfold delete_inventory. cbv zeta.
      pose proof (same4_inv_list sc s) as L1. pose proof (inv_list_result sc s) as R1.
      destruct (inv_list sc s) as [s1 r1]. cbn [fst snd] in L1, R1. destruct L1 as [A1 _].
      destruct r1 as [[x|]|]; cbn [fst snd]; [|intros _; left|discriminate].
      + rewrite ND. destruct (faulted sc FInvDelete); cbn [fst snd]; [discriminate|]. intros _. left. reflexivity.
      + destruct R1 as [R1|R1]; [discriminate|]. injection R1 as R1. rewrite A1. symmetry. exact R1.
    - unfold replace. cbv zeta. rewrite ND.
      pose proof (same4_inv_list sc s) as L1.
      destruct (inv_list sc s) as [s1 r1]. cbn [fst] in L1. destruct L1 as [A1 _].
      destruct r1 as [x|]; cbn [fst snd]; [|discriminate].
      pose proof (same4_inv_list sc s1) as L2. pose proof (inv_list_result sc s1) as R2.
      destruct (inv_list sc s1) as [s2 r2]. cbn [fst snd] in L2, R2. destruct L2 as [B1 _].
      destruct r2 as [[cur|]|]; cbn [fst snd]; try discriminate.
      destruct (set_eqn (final_inventory pl pv s) cur && negb (o_status_policy_all (sc_opts sc))) eqn:EQ; cbn [fst snd].
      + intros _. right. exists pv, cur. split; [reflexivity|]. split.
        * destruct R2 as [R2|R2]; [discriminate|]. injection R2 as R2. rewrite B1. symmetry. exact R2.
        * apply andb_true_iff in EQ. destruct EQ as [EQ _]. unfold set_eqn in EQ.
          intros i Hi. apply (proj1 (equal_spec nat Nat.eqb nat_eqb_spec _ _) EQ). exact Hi.
      + destruct (inv_update sc s2 (final_inventory pl pv s)) as [s3 ok] eqn:EU. cbn [fst snd]. intros ->.
        right. exists pv, (sortn (final_inventory pl pv s)). split; [reflexivity|].
        split; [exact (inv_update_writes sc _ _ _ EU)|]. intros i Hi. apply (proj1 (sortn_In _ _) Hi).
  Qed.

  (* spared prevention-annotated objects are not in the stored inventory *)
  Definition FinOK (sf : rst) : Prop :=
    forall i c g, fo c0 i = Some c -> c_keep c = true -> In (IEv (EPrune g i ASkip)) (r_tr sf) ->
      ~ In i (prev_of (r_cl sf)).

  Lemma fin_run_tasks locals prev ts : Forall (task_ok pl) ts -> forall s, BInv s ->
    ~ In (IEv EError) (r_tr (run_tasks sc pl locals prev s (ts ++ [TInvSet]))) ->
    BInv (run_tasks sc pl locals prev s (ts ++ [TInvSet])) /\ FinOK (run_tasks sc pl locals prev s (ts ++ [TInvSet])).
  Proof.
    induction 1 as [|t rest Ot _ IH]; intros s B0; cbn [app run_tasks].
    - unfold run_task. cbv zeta. cbn [task_name].
      assert (S0 : BInv (ev s (EStarted (GInvSet, 0)))) by (apply BInv_ev; [discriminate|exact B0]).
      pose proof (b_inv_set_task sc c0 pl prev _ S0) as T.
      pose proof (inv_set_ok prev (ev s (EStarted (GInvSet, 0)))) as OKS.
      destruct (inv_set_task_spec sc pl prev (ev s (EStarted (GInvSet, 0)))) as [_ [SA _]]. cbv zeta in SA.
      destruct (inv_set_task sc pl prev (ev s (EStarted (GInvSet, 0)))) as [s1 ok]. cbn [fst snd] in *.
      destruct ok; cbn [negb].
      2:{ intros N. exfalso. apply N. left. reflexivity. }
      destruct (r_abort (ev s1 (EFinished (GInvSet, 0)))).
      { intros N. exfalso. apply N. left. reflexivity. }
      intros _.
      assert (BF : BInv (ev s1 (EFinished (GInvSet, 0)))) by (apply BInv_ev; [discriminate|exact T]).
      split; [exact BF|].
      intros i c g Hc K Hin. destruct (B_ab _ _ _ BF i c g Hc K Hin) as [HA [_ NI]].
      cbn [ev emit r_aband r_cl] in *. rewrite SA in HA. cbn [ev emit r_aband] in HA.
      unfold prev_of. destruct (OKS eq_refl) as [E|[pv [L [_ [E HL]]]]]; rewrite E; [intros []|].
      intros HiL. apply (final_inventory_drops pl pv (ev s (EStarted (GInvSet, 0))) i NI); [exact HA|apply HL; exact HiL].
    - pose proof (b_run_task sc c0 pl ND PL_prune PL_local locals prev s t Ot B0) as T.
      destruct (run_task sc pl locals prev s t) as [s1 ok]. cbn [fst] in T.
      destruct (negb ok); [intros N; exfalso; apply N; left; reflexivity|].
      destruct (r_abort s1); [intros N; exfalso; apply N; left; reflexivity|].
      apply IH. exact T.
  Qed.
End Fin.

(* ---- the whole run ------------------------------------------------------------------------------- *)
Lemma evs_In e l : In e (evs l) -> In (IEv e) l.
Proof.
  unfold evs. intros H. apply in_flat_map in H. destruct H as [it [Hit H]].
  destruct it; cbn in H; try contradiction. destruct H as [<-|[]]. exact Hit.
Qed.

Lemma spared_In t i : In i (spared t) -> exists g, In (IEv (EPrune g i ASkip)) t.
Proof.
  unfold spared. intros H. apply in_flat_map in H. destruct H as [e [He H]].
  destruct e as [| | | | |g j st| | |]; try contradiction. destruct st; try contradiction.
  destruct H as [<-|[]]. exists g. apply evs_In. rewrite <- events_evs. exact He.
Qed.

Lemma tasks_of_snoc sc pl : exists ts, tasks_of sc pl = ts ++ [TInvSet].
Proof.
  unfold tasks_of. destruct (match pl_apply pl with [] => ([], 0) | _ => apply_tasks sc 0 0 (pl_apply_layers pl) end) as [at_ kw].
  eexists. rewrite !app_assoc. reflexivity.
Qed.

Section RunB.
  Variable sc : scenario.
  Variable c0 : cluster.
  Hypothesis HN : NoDup (map c_id (objs c0)).
  Notation pl := (plan_of sc c0).

  Lemma BInv_start s : r_cl s = c0 -> r_aband s = [] -> r_tr s = [] -> BInv c0 pl s.
  Proof.
    intros C A T. constructor; rewrite ?C, ?A, ?T.
    - exact HN.
    - intros i c Hc K _ [H|[]] c1 Hc1. congruence.
    - intros i c g _ _ [].
  Qed.

  Lemma BInv_pre_tasks s : BInv c0 pl s -> BInv c0 pl (pre_tasks sc c0 s).
  Proof.
    intros B0. unfold pre_tasks. apply BInv_ev; [discriminate|].
    generalize (pl_valerrs pl). intros errs. revert s B0.
    induction errs as [|e t IH]; intros s B0; cbn [fold_left]; [exact B0|].
    apply IH. apply BInv_ev; [discriminate|exact B0].
  Qed.

  Theorem monitor_C02_final :
    is_dry (o_dry (sc_opts sc)) = false -> has_error (out_trace (run sc c0)) = false ->
    forall i c, In i (spared (out_trace (run sc c0))) -> find_obj (objs c0) i = Some c -> c_keep c = true ->
      ~ In i (managed (out_final (run sc c0))) /\ ~ In i (prev_of (out_final (run sc c0))).
  Proof.
    intros ND NE i c Hi Hc K.
    pose proof (has_error_false _ NE) as NE'.
    assert (NOERR : ~ In (IEv EError) (r_tr (run_state sc c0))).
    { intros H. apply NE'. apply In_evs. apply in_out_trace. right. exact H. }
    destruct (spared_In _ _ Hi) as [g Hg]. apply in_out_trace in Hg. destruct Hg as [Hg|Hg]; [discriminate|].
    rewrite out_final_run.
    assert (FIN : BInv c0 pl (run_state sc c0) /\ FinOK c0 (run_state sc c0)).
    { destruct (run_state_shape sc c0) as [s C T|s C T _ _|s4 SO _ _|s4 prev SO _ _ _];
        try (exfalso; apply NOERR; left; reflexivity).
      destruct (tasks_of_snoc sc pl) as [ts ET]. rewrite ET in *.
      apply (fin_run_tasks sc c0 pl ND (plan_of_prune sc c0) (plan_of_local sc c0)).
      - pose proof (plan_of_tasks_ok sc c0) as OK. rewrite ET in OK. apply Forall_app in OK. apply OK.
      - apply BInv_pre_tasks, BInv_start; apply SO.
      - exact NOERR. }
    destruct FIN as [BF FO].
    destruct (B_ab _ _ _ BF i c g Hc K Hg) as [HA [NA _]].
    split.
    - intros H. apply managed_norm in H.
      destruct (managed_fo _ i (B_nd _ _ _ BF) H) as [c1 [Hc1 Ho]].
      rewrite (B_un _ _ _ BF i c Hc K NA (or_intror HA) c1 Hc1) in Ho. discriminate.
    - unfold prev_of. cbn [norm_cluster inv]. unfold stored. intros H.
      apply (FO i c g Hc K Hg). unfold prev_of. destruct (inv (r_cl (run_state sc c0))) as [L|]; cbn in H; [|exact H].
      apply (proj1 (sortn_In _ _) H).
  Qed.

  Lemma mon_C02_second :
    c02_walk sc c0 (map (fun c => (c_id c, c_owner c, c_uid c)) (objs c0)) [] (out_trace (run sc c0)) = true ->
    mon_C02 sc c0 (run sc c0) = true.
  Proof.
    intros HW. unfold mon_C02. cbv zeta. apply andb_true_iff. split; [exact HW|].
    destruct (is_dry (o_dry (sc_opts sc))) eqn:ND; [reflexivity|]. cbn [orb].
    destruct (has_error (out_trace (run sc c0))) eqn:NE; [reflexivity|]. cbn [orb].
    apply forallb_forall. intros i Hi. destruct (find_obj (objs c0) i) as [c|] eqn:Hc; [|reflexivity].
    destruct (c_keep c) eqn:K; [|reflexivity].
    destruct (monitor_C02_final ND NE i c Hi Hc K) as [A B].
    apply andb_true_iff. split; apply negb_true_iff.
    - destruct (memn i (managed (out_final (run sc c0)))) eqn:M; [|reflexivity]. apply memn_In in M. contradiction.
    - destruct (memn i (prev_of (out_final (run sc c0)))) eqn:M; [|reflexivity]. apply memn_In in M. contradiction.
  Qed.

  (* with one UID per object of the initial cluster (alias clause vacuous) *)
  Theorem monitor_C02_min : uid_inj c0 -> mon_C02 sc c0 (run sc c0) = true.
  Proof. intros HU. apply mon_C02_second. apply monitor_C02_walk_inj. exact HU. Qed.

  (* with aliased UIDs allowed: the alias clause holds by the model's own filter *)
  Theorem monitor_C02_strong : locals_nodup sc -> mon_C02 sc c0 (run sc c0) = true.
  Proof. intros HL. apply mon_C02_second. apply monitor_C02_walk_strong. exact HL. Qed.
End RunB.

(* hypotheses used: the first two clauses of WF only (an apply set names each object once;
   the initial cluster names each object once) *)
Theorem monitor_C02 : forall sc c0, WF sc c0 -> mon_C02 sc c0 (run sc c0) = true.
Proof. intros sc c0 [L [N _]]. apply monitor_C02_strong; assumption. Qed.

Print Assumptions monitor_C02.

(* non-vacuity: a well-formed scenario whose run creates an object, deletes a tracked one,
   detaches a prevention-annotated one (spared) and ends without error *)
Definition c02_ex_sc : scenario :=
  mkSc [mkU KPlain None None; mkU KPlain None None; mkU KPlain None None] None [mkL 1 [] false false false 1]
       (mkO false true PMustMatch DNone VSkipInvalid false false false false PropBackground false)
       (mkE [] [mkW [mkS 1 SCurrent true 3%N 2%Z] WTimeout; mkW [mkS 2 SNotFound false 0%N 0%Z] WTimeout] CNever None).
Definition c02_ex_c0 : cluster :=
  mkCl [mkC 0 1%N OOurs true [] false 1 None; mkC 2 2%N OOurs false [] false 1 None] (Some [0; 2]) 3%N.

Example c02_ex_WF : WF c02_ex_sc c02_ex_c0.
Proof. apply wf_b_spec. vm_compute. reflexivity. Qed.

Example c02_ex_run :
  reqs (out_trace (run c02_ex_sc c02_ex_c0)) =
    [(RInvUpdate [0; 1; 2], true); (RCreate 1 false, true); (RDelete 2 2%N PropBackground, true);
     (RUpdate 0, true); (RInvUpdate [1], true)] /\
  spared (out_trace (run c02_ex_sc c02_ex_c0)) = [0] /\
  has_error (out_trace (run c02_ex_sc c02_ex_c0)) = false.
Proof. vm_compute. auto. Qed.

(* non-vacuity of the alias clause: object 0 (tracked, to be pruned) and object 1 (applied) carry
   the same UID; WF fails (UIDs not injective) but `monitor_C02_strong` applies; the model spares
   object 0 (PSkipAlias) instead of deleting it *)
Definition c02_alias_sc : scenario :=
  mkSc [mkU KPlain None None; mkU KPlain None None] None [mkL 1 [] false false false 2]
       (mkO false true PMustMatch DNone VSkipInvalid false false false false PropBackground false)
       (mkE [] [mkW [mkS 1 SCurrent true 5%N 2%Z] WTimeout; mkW [] WTimeout] CNever None).
Definition c02_alias_c0 : cluster :=
  mkCl [mkC 0 5%N OOurs false [] false 1 None; mkC 1 5%N OOurs false [] false 1 None] (Some [0; 1]) 6%N.

Example c02_alias_hyps : locals_nodup c02_alias_sc /\ NoDup (map c_id (objs c02_alias_c0)).
Proof.
  split.
  - intros _. cbn. constructor; [intros []|constructor].
  - cbn. constructor; [intros [H|[]]; discriminate|]. constructor; [intros []|constructor].
Qed.

Example c02_alias_run :
  reqs (out_trace (run c02_alias_sc c02_alias_c0)) =
    [(RInvUpdate [0; 1], true); (RPatch 1 false false, true); (RInvUpdate [1], true)] /\
  spared (out_trace (run c02_alias_sc c02_alias_c0)) = [0] /\
  mon_C02 c02_alias_sc c02_alias_c0 (run c02_alias_sc c02_alias_c0) = true.
Proof.
  split; [vm_compute; reflexivity|]. split; [vm_compute; reflexivity|].
  apply monitor_C02_strong; apply c02_alias_hyps.
Qed.

(* necessity of `locals_nodup` when UIDs may alias: with a duplicated manifest id the last,
   failing apply of object 1 overwrites its successful-apply record, the alias filter misses
   the alias, object 0 (same UID) is deleted and the alias clause of the monitor is false *)
Definition c02_dup_sc : scenario :=
  mkSc [mkU KPlain None None; mkU KPlain None None] None [mkL 1 [] false false false 2; mkL 1 [] false false false 2]
       (mkO false true PMustMatch DNone VSkipInvalid false true true false PropBackground false)
       (mkE [FGet 1 6] [mkW [mkS 1 SCurrent true 5%N 2%Z] WTimeout; mkW [mkS 0 SNotFound false 0%N 0%Z] WTimeout] CNever None).

Example c02_dup_refuted :
  NoDup (map c_id (objs c02_alias_c0)) /\ mon_C02 c02_dup_sc c02_alias_c0 (run c02_dup_sc c02_alias_c0) = false.
Proof. split; [apply c02_alias_hyps|vm_compute; reflexivity]. Qed.
