(* C03, destroy clause: the executable check `c03_destroy_done` (Corr/CorrPipeline.v) holds of the
   model's own run.  After an error-free, non-dry-run DESTROY the stored inventory is never `Some []`:
   the inventory-set task either deletes the inventory object or rewrites it with a non-empty
   retained set.

     destroy_never_leaves_empty_inventory :
       forall sc c0, WF sc c0 -> c03_destroy_done sc (run sc c0) = true

   Route.  In a destroy the last task either deletes the inventory (`destroy_successful`) or replaces
   it by `final_inventory`.  When `destroy_successful = false` there is a witness: a failed delete, a
   skipped delete that was not detached, a tracked invalid id, or an object whose reconcile failed or
   timed out.  Each witness is a tracked id (prune objects come from the stored inventory) and is
   retained, PROVIDED it is not in the abandoned set.  For the first three that is immediate from the
   invariant CInv of PipelineMonC03b.  For the last one we need: a detached (abandoned) object never
   has Failed / Timeout as its last wait event.  That follows from the walk of C06p (`good`: an object is
   reported Skipped by its wait group exactly when its last actuation result was failed/skipped) once
   we know that every wait event of an object comes after an actuation result of that object (`ord`,
   proved here by a traversal of the task list that carries CInv). *)
From Coq Require Import List Bool Arith NArith ZArith Lia Permutation.
From CliUtils Require Import Model.ObjSet Model.ActuationTable Model.PipelineTypes Model.Pipeline
     Proofs.ObjSetProofs Proofs.ActuationTableProofs Proofs.PipelineBase Proofs.PipelineAuth Proofs.PipelineEvents
     Proofs.PipelineMisc Corr.CorrPipeline Proofs.PipelineOrphansBase Proofs.PipelineOrphansSpec Proofs.PipelineOrphansInv
     Proofs.PipelineOrphansPlan Proofs.PipelineMonBase Proofs.PipelineMonC02a Proofs.PipelineMonC02b Proofs.PipelineMonC02
     Proofs.PipelineOrphansRun Proofs.PipelineMonC10 Proofs.PipelineMonC13
     Proofs.PipelineMonC03a Proofs.PipelineMonC03b Proofs.PipelineMonC03c Proofs.PipelineMonC03d
     Proofs.PipelineMonC05 Proofs.PipelineMonC06pDefs Proofs.PipelineMonC06p.
Import ListNotations.

(* ---- trace facts ------------------------------------------------------------------------------ *)
(* on a reversed trace: every wait event of an object has an actuation result of that object before it *)
Fixpoint ord (tr : list item) : Prop :=
  match tr with
  | [] => True
  | it :: tr' => (forall g j x, it = IEv (EWait g j x) -> la tr' j <> None) /\ ord tr'
  end.

(* every actuation result of j in the trace is Skipped *)
Definition allskip (tr : list item) (j : id) : Prop :=
  forall it x, In it tr -> In x (asel j it) -> x = ASkip.

Lemma la_in tr j x : la tr j = Some x -> exists it, In it tr /\ In x (asel j it).
Proof.
  unfold la. destruct (flat_map (asel j) tr) as [|y l] eqn:E; [discriminate|]. intros [= ->].
  assert (H : In x (flat_map (asel j) tr)) by (rewrite E; left; reflexivity).
  apply in_flat_map in H. exact H.
Qed.

Lemma la_none tr j : la tr j = None -> forall it, In it tr -> asel j it = [].
Proof.
  induction tr as [|a tr IH]; intros H it Hit; [destruct Hit|].
  unfold la in H. cbn [flat_map] in H. destruct (asel j a) as [|y l] eqn:E; [|discriminate H].
  cbn [app] in H. destruct Hit as [<-|Hit]; [exact E|]. apply IH; [exact H|exact Hit].
Qed.

Lemma la_app_some l tr j : la tr j <> None -> la (l ++ tr) j <> None.
Proof.
  unfold la. rewrite flat_map_app. destruct (flat_map (asel j) l) as [|y k]; cbn [app]; [auto|discriminate].
Qed.

Lemma skipped_last tr j : good false tr -> ord tr -> allskip tr j ->
  lw tr j = None \/ lw tr j = Some WSkipped.
Proof.
  induction tr as [|it tr IH]; intros G O A; [left; reflexivity|].
  destruct G as [G1 G2]. destruct O as [O1 O2].
  assert (A' : allskip tr j) by (intros it' x Hi Hx; apply (A it' x); [right; exact Hi|exact Hx]).
  destruct (wsel j it) as [|y l] eqn:E.
  - rewrite lw_cons_other by exact E. apply IH; assumption.
  - destruct it as [| |e|]; try discriminate E. destruct e; try discriminate E.
    cbn [wsel] in E. destruct (Nat.eqb j i) eqn:EQ; [|discriminate E]. apply Nat.eqb_eq in EQ. subst i.
    rewrite lw_cons_wait. cbn [item_ok] in G1. unfold wait_ok in G1. apply andb_true_iff in G1. destruct G1 as [G1 _].
    specialize (O1 _ _ _ eq_refl).
    destruct (la tr j) as [a|] eqn:LA; [|exfalso; apply O1; reflexivity].
    destruct (la_in _ _ _ LA) as [it' [Hi Hx]]. pose proof (A' it' a Hi Hx) as ->.
    cbn [bad] in G1. destruct s; cbn in G1; try discriminate G1. right. reflexivity.
Qed.

Lemma ord_app l tr (ids : list id) :
  Forall (fun it => forall g j x, it = IEv (EWait g j x) -> In j ids) l ->
  (forall j, In j ids -> la tr j <> None) -> ord tr -> ord (l ++ tr).
Proof.
  intros F H O. induction F as [|it l P _ IH]; [exact O|].
  cbn [app ord]. split; [|exact IH]. intros g j x E. apply la_app_some. apply H. exact (P g j x E).
Qed.

Lemma ord_ev s e : (forall g j x, e <> EWait g j x) -> ord (r_tr s) -> ord (r_tr (ev s e)).
Proof.
  intros N O. cbn [ev emit r_tr ord]. split; [|exact O]. intros g j x [= E]. exfalso. exact (N g j x E).
Qed.

Lemma Forall2_in_r {A B} (P : A -> B -> Prop) l es : Forall2 P l es -> forall e, In e es -> exists p, P p e.
Proof.
  induction 1 as [|p e l es H _ IH]; intros e' He; [destruct He|].
  destruct He as [<-|He]; [exists p; exact H|exact (IH e' He)].
Qed.

(* the ids a task may report wait events about *)
Definition wids (t : task) : list id := match t with TWait _ _ ids => ids | _ => [] end.

Lemma body_wids t body g j x : body_spec t body ->
  In (EWait g j x) (EStarted (task_name t) :: body ++ [EFinished (task_name t)]) -> In j (wids t).
Proof.
  intros B [H|H]; [discriminate H|]. apply in_app_or in H. destruct H as [H|[H|[]]]; [|discriminate H].
  destruct t; cbn [body_spec wids] in *.
  - subst body. destruct H.
  - destruct (Forall2_in_r _ _ _ B _ H) as [p [st E]]. discriminate E.
  - destruct B as [B _]. rewrite Forall_forall in B. destruct (B _ H) as [[i [st [E Hi]]]|[i [st E]]]; [|discriminate E].
    injection E as _ <- _. exact Hi.
  - destruct (Forall2_in_r _ _ _ B _ H) as [p [st E]]. discriminate E.
  - subst body. destruct H.
Qed.

(* ---- the traversal: `ord` is preserved by every task -------------------------------------------- *)
Section Trav.
  Variable sc : scenario.
  Variable c0 : cluster.
  Variable pl : plan.
  Hypothesis ND : is_dry (o_dry (sc_opts sc)) = false.
  Hypothesis D : o_destroy (sc_opts sc) = true.
  Hypothesis c0_uid_lt : forall i c, fo c0 i = Some c -> (c_uid c < next_uid c0)%N.
  Hypothesis c0_uid_inj : forall i j c c', fo c0 i = Some c -> fo c0 j = Some c' -> c_uid c = c_uid c' -> i = j.
  Hypothesis pl_disj : forall i, In i (apply_ids pl) -> ~ In i (pids pl).
  Hypothesis pl_prune_c0 : forall c, In (pobj_of_live c) (pl_prune pl) -> fo c0 (c_id c) = Some c.
  Hypothesis pl_local : plan_local pl.
  Notation CInv := (CInv sc c0 pl).

  Lemma in_la tr j it : In it tr -> asel j it <> [] -> la tr j <> None.
  Proof. intros Hi N E. apply N. exact (la_none tr j E it Hi). Qed.

  (* an object that is registered and no longer to be actuated has its result in the trace *)
  Lemma acted td s j : CInv td s -> ~ In j td -> regd sc pl j -> la (r_tr s) j <> None.
  Proof.
    intros CI NT RG. pose proof (C_reg _ _ _ _ _ CI j RG) as TV.
    destruct (tv s j) as [[[st a] u]|] eqn:E; [|exfalso; apply TV; reflexivity].
    assert (NP : a <> APending) by (intros ->; apply NT; exact (C_todo _ _ _ _ _ CI j st u E)).
    destruct (C_tb _ _ _ _ _ CI j st a u E NP) as [[_ [g Hg]]|[[_ [g Hg]]|[_ [_ [U _]]]]].
    - apply (in_la _ _ _ Hg). cbn [asel]. rewrite Nat.eqb_refl. discriminate.
    - apply (in_la _ _ _ Hg). cbn [asel]. rewrite Nat.eqb_refl. discriminate.
    - rewrite D in U. discriminate U.
  Qed.

  Lemma ord_run_task locals prev s t rest : csched sc pl (t :: rest) -> task_wf t ->
    CInv (todo_of (t :: rest)) s -> ord (r_tr s) -> ord (r_tr (fst (run_task sc pl locals prev s t))).
  Proof.
    intros SC WT CI O.
    destruct (e_run_task sc pl locals prev s t WT) as [body [[l [ETR EV]] B]].
    rewrite ETR. apply (ord_app (rev l) (r_tr s) (wids t)).
    - apply Forall_forall. intros it Hit g j x ->. apply in_rev in Hit. apply In_evs in Hit. rewrite EV in Hit.
      exact (body_wids t body g j x B Hit).
    - destruct t; cbn [wids]; try (intros j []).
      intros j Hj. cbn [csched] in SC. destruct SC as [HW _]. destruct (HW j Hj) as [NT RG].
      apply (acted (todo_of (TWait k c ids :: rest)) s j CI); [exact NT|exact RG].
    - exact O.
  Qed.

  Lemma ord_run_tasks locals prev ts : forall s, csched sc pl ts -> Forall task_wf ts ->
    CInv (todo_of ts) s -> ord (r_tr s) -> ord (r_tr (run_tasks sc pl locals prev s ts)).
  Proof.
    induction ts as [|t rest IH]; intros s SC WF CI O; cbn [run_tasks]; [exact O|].
    inversion WF as [|? ? Wt Wr]; subst.
    pose proof (ord_run_task locals prev s t rest SC Wt CI O) as O1.
    destruct (c_run_task sc c0 pl ND c0_uid_lt c0_uid_inj pl_disj pl_prune_c0 pl_local locals prev s t rest SC CI) as [T SC'].
    destruct (run_task sc pl locals prev s t) as [s1 ok]. cbn [fst] in *.
    destruct (negb ok); [apply ord_ev; [discriminate|exact O1]|].
    destruct (r_abort s1); [apply ord_ev; [discriminate|exact O1]|].
    apply IH; assumption.
  Qed.
End Trav.

(* ---- the last task ----------------------------------------------------------------------------------- *)
Section InvSet.
  Variable sc : scenario.
  Variable pl : plan.
  Hypothesis ND : is_dry (o_dry (sc_opts sc)) = false.
  Hypothesis D : o_destroy (sc_opts sc) = true.

  (* a successful inventory-set task of a destroy that leaves an inventory object took the replace branch *)
  Lemma inv_set_kept pv s L : snd (inv_set_task sc pl (Some pv) s) = true ->
    inv (r_cl (fst (inv_set_task sc pl (Some pv) s))) = Some L -> destroy_successful pl pv s = false.
  Proof.
    unfold inv_set_task. rewrite D. cbn [andb].
    destruct (destroy_successful pl pv s); [|reflexivity].
    unfold delete_inventory. cbv zeta.
    pose proof (same4_inv_list sc s) as L1. pose proof (inv_list_result sc s) as R1.
    destruct (inv_list sc s) as [s1 r1]. cbn [fst snd] in L1, R1. destruct L1 as [A1 _].
    destruct r1 as [[x|]|]; cbn [fst snd].
    - rewrite ND. destruct (faulted sc FInvDelete); cbn [fst snd]; [discriminate|]. intros _ H. discriminate H.
    - intros _ H. destruct R1 as [R1|R1]; [discriminate|]. injection R1 as R1. rewrite A1 in H. congruence.
    - discriminate.
  Qed.
End InvSet.

(* ---- the end of an error-free destroy ------------------------------------------------------------------ *)
Section Final.
  Variable sc : scenario.
  Variable c0 : cluster.
  Hypothesis HWF : WF sc c0.
  Hypothesis ND : is_dry (o_dry (sc_opts sc)) = false.
  Hypothesis D : o_destroy (sc_opts sc) = true.
  Hypothesis NE : has_error (out_trace (run sc c0)) = false.
  Notation pl := (plan_of sc c0).
  Notation sf := (run_state sc c0).

  Lemma pids_prev j : In j (pids pl) -> In j (prev_of c0).
  Proof.
    intros Hj. destruct (c05_prune_live sc c0 j Hj) as [ce [H1 <-]]. exact (proj2 (c05_prune_c0 sc c0 ce H1)).
  Qed.

  Lemma ord_pre_tasks s4 : r_tr s4 = [] -> ord (r_tr (pre_tasks sc c0 s4)).
  Proof.
    intros E. unfold pre_tasks. apply ord_ev; [unfold init_ev; discriminate|].
    assert (O : ord (r_tr s4)) by (rewrite E; exact I). revert O. generalize s4. generalize (pl_valerrs pl).
    induction l as [|e t IH]; intros s O; cbn [fold_left]; [exact O|].
    apply IH. apply ord_ev; [discriminate|exact O].
  Qed.

  (* the facts about the final state *)
  Lemma destroy_end :
    CInv sc c0 pl [] sf /\ ord (r_tr sf) /\
    (inv (r_cl sf) = None \/
     exists L, inv (r_cl sf) = Some L /\ (forall i, In i L <-> In i (final_inventory pl (prev_of c0) sf)) /\
               destroy_successful pl (prev_of c0) sf = false).
  Proof.
    pose proof (no_error_state sc c0 NE) as NOERR.
    destruct (run_state_shape sc c0) as [s C T|s C T _ _|s4 SO _ _|s4 prev SO _ _ PV];
      try (exfalso; apply NOERR; left; reflexivity).
    destruct (tasks_of_snoc sc pl) as [ts ET].
    assert (WFT : Forall (task_wf) (ts ++ [TInvSet])) by (rewrite <- ET; apply tasks_of_wf').
    rewrite ET in *.
    assert (START : CInv sc c0 pl (todo_of (ts ++ [TInvSet])) (pre_tasks sc c0 s4)).
    { rewrite <- ET. apply (CInv_pre_tasks sc c0 HWF). apply (CInv_start sc c0 HWF). exact SO. }
    assert (SCH : csched sc pl (ts ++ [TInvSet])) by (rewrite <- ET; apply (csched_tasks_of sc c0 HWF ND)).
    pose proof (c_run_tasks sc c0 pl ND (wf_uid_lt sc c0 HWF) (wf_uid_inj sc c0 HWF) (PipelineMonC03c.pl_disj sc c0 HWF)
                  (PipelineMonC03c.pl_prune_c0 sc c0) (plan_of_local sc c0) (locals_of sc) prev ts _ SCH START NOERR) as EN.
    pose proof (ord_run_tasks sc c0 pl ND D (wf_uid_lt sc c0 HWF) (wf_uid_inj sc c0 HWF) (PipelineMonC03c.pl_disj sc c0 HWF)
                  (PipelineMonC03c.pl_prune_c0 sc c0) (plan_of_local sc c0) (locals_of sc) prev (ts ++ [TInvSet]) _ SCH WFT START
                  (ord_pre_tasks s4 (so_tr _ _ _ SO))) as OR.
    destruct (ends_final sc c0 pl ND (PipelineMonC03c.pl_disj sc c0 HWF) prev _ EN) as [CI FI].
    split; [exact CI|]. split; [exact OR|].
    destruct FI as [[_ X]|[pv [L [E1 [E2 E3]]]]]; [left; exact X|right].
    exists L. split; [exact E2|].
    destruct PV as [PV|PV]; [congruence|]. subst prev. injection E1 as <-. split; [exact E3|].
    destruct EN as [s1 [_ [ES OK]]].
    destruct (inv_set_task_spec sc pl (Some (prev_of c0)) (ev s1 (EStarted (GInvSet, 0)))) as [ST [SA _]]. cbv zeta in ST, SA.
    assert (E2' : inv (r_cl (fst (inv_set_task sc pl (Some (prev_of c0)) (ev s1 (EStarted (GInvSet, 0)))))) = Some L).
    { rewrite ES in E2. cbn [ev emit r_cl] in E2. exact E2. }
    pose proof (inv_set_kept sc pl ND D _ _ L OK E2') as DS.
    rewrite <- DS. rewrite ES. unfold destroy_successful. cbn [ev emit r_tbl r_aband]. rewrite ST, SA.
    cbn [ev emit r_tbl r_aband]. reflexivity.
  Qed.

  Section AtEnd.
    Hypothesis CI : CInv sc c0 pl [] sf.
    Hypothesis OR : ord (r_tr sf).

    Lemma good_final : good false (r_tr sf) /\ RL sf.
    Proof.
      apply (run_state_inv sc c0 (proj1 HWF) false true). intros k d _ S. discriminate S.
    Qed.

    (* a delete record of the table is about a tracked object *)
    Lemma delete_tracked j a u : tv sf j = Some (SDelete, a, u) -> a <> APending -> In j (prev_of c0).
    Proof.
      intros E NP. destruct (C_tb _ _ _ _ _ CI j _ _ _ E NP) as [[X _]|[[_ [g Hg]]|[_ [_ [U _]]]]].
      - discriminate X.
      - destruct (C_evpr _ _ _ _ _ CI g j _ Hg) as [_ [Hp _]]. exact (pids_prev j Hp).
      - rewrite D in U. discriminate U.
    Qed.

    (* a detached object is recorded as a skipped delete, and all its results are Skipped *)
    Lemma aband_skipped j : In j (r_aband sf) -> exists u, tv sf j = Some (SDelete, ASkipped, u).
    Proof.
      intros H. destruct (C_ab _ _ _ _ _ CI j H) as [[g Hg] _].
      destruct (C_evpr _ _ _ _ _ CI g j ASkip Hg) as [_ [_ [a [u [Ht [_ Ea]]]]]].
      apply ast_of_skip in Ea. subst a. exists u. exact Ht.
    Qed.

    Lemma aband_allskip j : In j (r_aband sf) -> allskip (r_tr sf) j.
    Proof.
      intros H it x Hit Hx. destruct (aband_skipped j H) as [u Hu].
      destruct it as [| |e|]; try destruct Hx. destruct e; try destruct Hx; cbn [asel] in Hx.
      - destruct (Nat.eqb j i) eqn:EQ; [|destruct Hx]. apply Nat.eqb_eq in EQ. subst i. destruct Hx as [<-|[]].
        destruct (C_evap _ _ _ _ _ CI g j s Hit) as [a [u' [Ht _]]]. rewrite Hu in Ht. discriminate Ht.
      - destruct (Nat.eqb j i) eqn:EQ; [|destruct Hx]. apply Nat.eqb_eq in EQ. subst i. destruct Hx as [<-|[]].
        destruct (C_evpr _ _ _ _ _ CI g j s Hit) as [_ [_ [a [u' [Ht [_ Ea]]]]]]. rewrite Hu in Ht.
        injection Ht as <- _. symmetry. exact Ea.
    Qed.

    (* an object whose reconcile failed or timed out is tracked and not detached *)
    Lemma unrec_retained j rc : rc = RFailed \/ rc = RTimeout -> In j (with_reconcile (r_tbl sf) rc) ->
      In j (prev_of c0) /\ ~ In j (r_aband sf).
    Proof.
      intros Hrc H. destruct good_final as [G R].
      apply (with_reconcile_spec id Nat.eqb nat_eqb_spec _ _ _ (C_keys _ _ _ _ _ CI)) in H.
      destruct H as [r [L E]]. assert (RR : rc = rof (lw (r_tr sf) j)) by (rewrite <- E; exact (R j r L)).
      assert (LW : exists x, lw (r_tr sf) j = Some x /\ (x = WFailed \/ x = WTimedOut)).
      { destruct (lw (r_tr sf) j) as [[]|]; cbn [rof] in RR; destruct Hrc; subst rc; try discriminate RR;
          eexists; split; try reflexivity; auto. }
      destruct LW as [x [LW Hx]]. split.
      - destruct (lw_some _ _ _ LW) as [g Hg].
        destruct (C_evw _ _ _ _ _ CI g j x Hg) as [X|[_ X]]; [|exact (pids_prev j X)].
        rewrite (destroy_no_apply sc c0 D) in X. destruct X.
      - intros AB. destruct (skipped_last _ j G OR (aband_allskip j AB)) as [X|X]; rewrite X in LW.
        + discriminate LW.
        + injection LW as <-. destruct Hx; discriminate.
    Qed.

    (* the witness of `destroy_successful = false` is retained *)
    Lemma failed_destroy_retains : destroy_successful pl (prev_of c0) sf = false ->
      exists i, In i (final_inventory pl (prev_of c0) sf).
    Proof.
      pose proof (C_keys _ _ _ _ _ CI) as KN.
      unfold destroy_successful. cbv zeta.
      destruct (with_actuation (r_tbl sf) SDelete AFailed) as [|i l] eqn:E1.
      2:{ intros _. exists i. apply final_inventory_spec. left.
          assert (Hi : In i (with_actuation (r_tbl sf) SDelete AFailed)) by (rewrite E1; left; reflexivity).
          pose proof Hi as Hi'. apply (with_actuation_tv _ _ _ _ KN) in Hi'. destruct Hi' as [u Hu].
          split.
          - right. split; [apply (delete_tracked i AFailed u Hu); discriminate|]. right; right; left. exact Hi.
          - intros AB. destruct (aband_skipped i AB) as [u' Hu']. unfold tv in Hu, Hu'. rewrite Hu in Hu'. discriminate Hu'. }
      destruct (with_reconcile (r_tbl sf) RFailed) as [|i l] eqn:E2.
      2:{ intros _. exists i. apply final_inventory_spec. left.
          assert (Hi : In i (with_reconcile (r_tbl sf) RFailed)) by (rewrite E2; left; reflexivity).
          destruct (unrec_retained i RFailed (or_introl eq_refl) Hi) as [P NA].
          split; [|exact NA]. right. split; [exact P|]. right; right; right; right; left. exact Hi. }
      destruct (with_reconcile (r_tbl sf) RTimeout) as [|i l] eqn:E3.
      2:{ intros _. exists i. apply final_inventory_spec. left.
          assert (Hi : In i (with_reconcile (r_tbl sf) RTimeout)) by (rewrite E3; left; reflexivity).
          destruct (unrec_retained i RTimeout (or_intror eq_refl) Hi) as [P NA].
          split; [|exact NA]. right. split; [exact P|]. right; right; right; right; right. exact Hi. }
      destruct (diffn (with_actuation (r_tbl sf) SDelete ASkipped) (r_aband sf)) as [|i l] eqn:E4.
      2:{ intros _. exists i. apply final_inventory_spec. left.
          assert (Hi : In i (diffn (with_actuation (r_tbl sf) SDelete ASkipped) (r_aband sf))) by (rewrite E4; left; reflexivity).
          apply diffn_In in Hi. destruct Hi as [Hi NA].
          pose proof Hi as Hi'. apply (with_actuation_tv _ _ _ _ KN) in Hi'. destruct Hi' as [u Hu].
          split; [|exact NA]. right. split; [apply (delete_tracked i ASkipped u Hu); discriminate|].
          right; right; right; left. exact Hi. }
      destruct (intern (prev_of c0) (pl_invalid pl)) as [|i l] eqn:E5; [discriminate|].
      intros _. exists i. apply final_inventory_spec. right. apply intern_In. rewrite E5. left. reflexivity.
    Qed.
  End AtEnd.

  Lemma destroy_inventory_nonempty : inv (out_final (run sc c0)) <> Some [].
  Proof.
    assert (FN : inv (out_final (run sc c0)) = option_map sortn (inv (r_cl sf))) by (rewrite out_final_run; reflexivity).
    rewrite FN. clear FN.
    destruct destroy_end as [CI [OR [X|[L [X [HL DS]]]]]]; rewrite X; cbn [option_map]; [discriminate|].
    destruct (failed_destroy_retains CI OR DS) as [i Hi]. apply HL in Hi.
    intros [= E]. apply (sortn_In L i) in Hi. rewrite E in Hi. destruct Hi.
  Qed.
End Final.

Theorem destroy_never_leaves_empty_inventory : forall sc c0, WF sc c0 -> c03_destroy_done sc (run sc c0) = true.
Proof.
  intros sc c0 W. unfold c03_destroy_done. cbv zeta.
  destruct (has_error (out_trace (run sc c0))) eqn:NE; [reflexivity|].
  destruct (is_dry (o_dry (sc_opts sc))) eqn:ND; [reflexivity|].
  destruct (o_destroy (sc_opts sc)) eqn:D; [|reflexivity]. cbn [orb negb].
  pose proof (destroy_inventory_nonempty sc c0 W ND D NE) as N.
  destruct (inv (out_final (run sc c0))) as [[|x l]|]; [exfalso; apply N; reflexivity|reflexivity|reflexivity].
Qed.

Print Assumptions destroy_never_leaves_empty_inventory.
