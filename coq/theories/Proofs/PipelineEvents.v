(* C13: the events emitted by the model's run follow the grammar
   validation* ; init ; (started g ; body(g) ; finished g) for a prefix of the
   plan ; error? — with exactly one result event per object of an apply/prune
   group and at least one wait event per object of a wait group. *)
From Coq Require Import List Bool Arith NArith ZArith Lia.
From CliUtils Require Import Model.ObjSet Model.ActuationTable Model.PipelineTypes Model.Pipeline
     Proofs.PipelineBase.
Import ListNotations.

Definition evs (l : list item) : list evt :=
  flat_map (fun it => match it with IEv e => [e] | _ => [] end) l.

Lemma evs_app a b : evs (a ++ b) = evs a ++ evs b.
Proof. unfold evs. apply flat_map_app. Qed.

(* s' extends the trace of s by items whose events are exactly es (in order) *)
Definition emits (s s' : rst) (es : list evt) : Prop :=
  exists l, r_tr s' = rev l ++ r_tr s /\ evs l = es.

Lemma emits_same s s' : r_tr s' = r_tr s -> emits s s' [].
Proof. intros H. exists []. split; [exact H|reflexivity]. Qed.
Lemma emits_refl s : emits s s [].
Proof. apply emits_same; reflexivity. Qed.
Lemma emits_trans a b c e1 e2 : emits a b e1 -> emits b c e2 -> emits a c (e1 ++ e2).
Proof.
  intros [l1 [E1 F1]] [l2 [E2 F2]]. exists (l1 ++ l2). split.
  - rewrite E2, E1, rev_app_distr, app_assoc. reflexivity.
  - rewrite evs_app, F1, F2. reflexivity.
Qed.
Lemma emits_ev s e : emits s (ev s e) [e].
Proof. exists [IEv e]. split; reflexivity. Qed.
Lemma emits_item_noev s it : (forall e, it <> IEv e) -> emits s (emit s it) [].
Proof.
  intros H. exists [it]. split; [reflexivity|]. destruct it; try reflexivity. exfalso. eapply H. reflexivity.
Qed.
Lemma emits_log_req s r ok : emits s (log_req s r ok) [].
Proof. apply emits_item_noev. intros e; discriminate. Qed.
Lemma emits_nil_trans a b c : emits a b [] -> emits b c [] -> emits a c [].
Proof. intros H1 H2. exact (emits_trans _ _ _ _ _ H1 H2). Qed.
Lemma emits_nil_l a b c e : emits a b [] -> emits b c e -> emits a c e.
Proof. intros H1 H2. exact (emits_trans _ _ _ _ _ H1 H2). Qed.
Lemma emits_nil_r a b c e : emits a b e -> emits b c [] -> emits a c e.
Proof. intros H1 H2. pose proof (emits_trans _ _ _ _ _ H1 H2) as H. rewrite app_nil_r in H. exact H. Qed.

(* the step relation with "no event" items gives emits [] *)
Definition Qnoev (it : item) : Prop := forall e, it <> IEv e.

Section Ev.
  Variable sc : scenario.

  Ltac quiet := first
    [ apply emits_refl | apply emits_log_req
    | apply emits_same; reflexivity ].

  Lemma e_rec_add s i st a u g : emits s (rec_add s i st a u g) [].
  Proof. apply emits_same; reflexivity. Qed.
  Lemma e_rec_reconcile s i r : emits s (rec_reconcile s i r) [].
  Proof. unfold rec_reconcile. destruct (set_reconcile _ _ _ _); apply emits_same; reflexivity. Qed.
  Lemma e_add_aband s i : emits s (add_aband s i) [].
  Proof. apply emits_same; reflexivity. Qed.
  Lemma e_set_abort s : emits s (set_abort s) [].
  Proof. apply emits_same; reflexivity. Qed.
  Lemma e_set_cl s c : emits s (set_cl s c) [].
  Proof. apply emits_same; reflexivity. Qed.
  Lemma e_maybe_cancel s i : emits s (maybe_cancel sc s i) [].
  Proof.
    unfold maybe_cancel. destruct (e_cancel (sc_env sc)); try apply emits_refl.
    destruct (Nat.eqb i i0); [apply e_set_abort|apply emits_refl].
  Qed.
  Lemma e_inv_list s : emits s (fst (inv_list sc s)) [].
  Proof. unfold inv_list. destruct (faulted sc _); cbn; apply emits_same; reflexivity. Qed.
  Lemma e_get_obj s i : emits s (fst (get_obj sc s i)) [].
  Proof.
    unfold get_obj. destruct (faulted sc _); cbn; [apply emits_same; reflexivity|].
    destruct (find_obj _ _); cbn; apply emits_same; reflexivity.
  Qed.

  Lemma e_inv_apply s ids : emits s (fst (inv_apply sc s ids)) [].
  Proof.
    unfold inv_apply. cbv zeta. destruct (faulted sc (FInvGet _)); cbn [fst]; [apply emits_same; reflexivity|].
    destruct (faulted sc (FInvWrite _)); cbn [fst];
      (eapply emits_nil_trans; [|apply emits_log_req]); apply emits_same; reflexivity.
  Qed.
  Lemma e_inv_update s ids : emits s (fst (inv_update sc s ids)) [].
  Proof.
    unfold inv_update. cbv zeta. destruct (faulted sc (FInvWrite _)); cbn [fst].
    - eapply emits_nil_trans; [|apply emits_log_req]. apply emits_same; reflexivity.
    - destruct (inv _); cbn [fst]; (eapply emits_nil_trans; [|apply emits_log_req]); apply emits_same; reflexivity.
  Qed.
  Lemma e_merge s ids : emits s (fst (merge sc s ids)) [].
  Proof.
    unfold merge. cbv zeta.
    pose proof (e_inv_list s) as L1. destruct (inv_list sc s) as [s1 r1]. cbn [fst] in L1.
    destruct r1 as [[l|]|]; cbn [fst]; try exact L1.
    - pose proof (e_inv_list s1) as L2. destruct (inv_list sc s1) as [s2 r2]. cbn [fst] in L2.
      pose proof (emits_nil_trans _ _ _ L1 L2) as L12.
      destruct r2 as [cur0|]; cbn [fst]; [|exact L12].
      destruct (set_eqn _ _ && _); cbn [fst]; [exact L12|].
      destruct (is_dry _); cbn [fst]; [exact L12|].
      eapply emits_nil_trans; [exact L12|apply e_inv_apply].
    - destruct (is_dry _); cbn [fst]; [exact L1|]. eapply emits_nil_trans; [exact L1|apply e_inv_apply].
  Qed.
  Lemma e_replace s ids : emits s (fst (replace sc s ids)) [].
  Proof.
    unfold replace. cbv zeta. destruct (is_dry _); cbn [fst]; [apply emits_refl|].
    pose proof (e_inv_list s) as L1. destruct (inv_list sc s) as [s1 r1]. cbn [fst] in L1.
    destruct r1 as [x|]; cbn [fst]; [|exact L1].
    pose proof (e_inv_list s1) as L2. destruct (inv_list sc s1) as [s2 r2]. cbn [fst] in L2.
    pose proof (emits_nil_trans _ _ _ L1 L2) as L12.
    destruct r2 as [[cur|]|]; cbn [fst]; try exact L12.
    destruct (set_eqn _ _ && _); cbn [fst]; [exact L12|].
    eapply emits_nil_trans; [exact L12|apply e_inv_update].
  Qed.

  Lemma e_ssa_patch l s n : emits s (fst (ssa_patch sc s l n)) [].
  Proof.
    unfold ssa_patch. cbv zeta.
    destruct (faulted sc (FStream _ _)); cbn [fst];
      [eapply emits_nil_trans; [apply e_maybe_cancel|apply emits_log_req]|].
    destruct (faulted sc (FApply _)); cbn [fst].
    + eapply emits_nil_trans; [apply e_maybe_cancel|apply emits_log_req].
    + destruct (find_obj _ _); destruct (match o_dry (sc_opts sc) with DServer => true | _ => false end); cbn [fst];
        (eapply emits_nil_trans; [apply e_maybe_cancel|]);
        first [apply emits_log_req | (eapply emits_nil_trans; [apply e_set_cl|apply emits_log_req])].
  Qed.

  Lemma e_csa_apply l s : emits s (fst (csa_apply sc s l)) [].
  Proof.
    unfold csa_apply. cbv zeta.
    pose proof (e_get_obj s (l_id l)) as G. destruct (get_obj sc s (l_id l)) as [s1 g]. cbn [fst] in G.
    - destruct g; cbn [fst]; try exact G.
      + destruct (is_dry _); cbn [fst]; [exact G|].
        destruct (faulted sc _); cbn [fst];
          (eapply emits_nil_trans; [exact G|]; eapply emits_nil_trans; [apply e_maybe_cancel|]);
          first [apply emits_log_req | (eapply emits_nil_trans; [apply e_set_cl|apply emits_log_req])].
      + destruct (negb (patch_needed c l)); cbn [fst]; [exact G|].
        destruct (is_dry _); cbn [fst]; [exact G|].
        destruct (faulted sc _); cbn [fst];
          (eapply emits_nil_trans; [exact G|]; eapply emits_nil_trans; [apply e_maybe_cancel|]);
          first [apply emits_log_req | (eapply emits_nil_trans; [apply e_set_cl|apply emits_log_req])].
  Qed.

  Lemma e_kubectl_apply s l : emits s (fst (kubectl_apply sc s l)) [].
  Proof.
    apply (kubectl_apply_step sc l (fun a b => emits a b []) emits_nil_trans (e_ssa_patch l) (e_csa_apply l)).
  Qed.

  Lemma e_policy_apply_filter s i : emits s (fst (policy_apply_filter sc s i)) [].
  Proof.
    unfold policy_apply_filter. destruct (o_policy (sc_opts sc)); cbn [fst]; try apply emits_refl.
    all: pose proof (e_get_obj s i) as G; destruct (get_obj sc s i) as [s1 g]; cbn [fst] in G;
      destruct g; cbn [fst]; exact G.
  Qed.

  Lemma e_mutate s l : emits s (fst (mutate sc s l)) [].
  Proof. apply emits_same. apply mutate_tr. Qed.

  (* exactly one result event per object of an apply task *)
  Lemma e_apply_one pl g s p : p_local p <> None ->
    exists st, emits s (apply_one sc pl g s p) [EApply g (p_id p) st].
  Proof.
    intros HL. unfold apply_one. destruct (p_local p) as [l|]; [|congruence].
    destruct (negb (kind_known sc (r_known s) (p_id p))).
    { eexists. eapply emits_nil_r; [apply emits_ev|apply e_rec_add]. }
    pose proof (e_policy_apply_filter s (p_id p)) as P.
    destruct (policy_apply_filter sc s (p_id p)) as [s1 f1]. cbn [fst] in P.
    destruct (match f1 with FPass => _ | _ => _ end).
    - pose proof (e_mutate s1 l) as M. destruct (mutate sc s1 l) as [sm okm]. cbn [fst] in M.
      destruct okm; cbn [negb].
      + pose proof (e_kubectl_apply sm l) as K. destruct (kubectl_apply sc sm l) as [s2 r]. cbn [fst] in K.
        destruct r; eexists;
          (eapply emits_nil_l; [exact P|]; eapply emits_nil_l; [exact M|]; eapply emits_nil_l; [exact K|];
           eapply emits_nil_r; [apply emits_ev|apply e_rec_add]).
      + eexists. eapply emits_nil_l; [exact P|]. eapply emits_nil_l; [exact M|]. eapply emits_nil_r; [apply emits_ev|apply e_rec_add].
    - eexists. eapply emits_nil_l; [exact P|]. eapply emits_nil_r; [apply emits_ev|apply e_rec_add].
    - eexists. eapply emits_nil_l; [exact P|]. eapply emits_nil_r; [apply emits_ev|apply e_rec_add].
  Qed.

  Definition apply_body (g : gname) (layer : list pobj) (es : list evt) : Prop :=
    Forall2 (fun p e => exists st, e = EApply g (p_id p) st) layer es.
  Definition prune_body (g : gname) (layer : list pobj) (es : list evt) : Prop :=
    Forall2 (fun p e => exists st, e = EPrune g (p_id p) st) layer es.

  Lemma e_apply_task pl g layer : Forall (fun p => p_local p <> None) layer ->
    forall s, exists es, emits s (apply_task sc pl g s layer) es /\ apply_body g layer es.
  Proof.
    unfold apply_task, apply_body. induction layer as [|p t IH]; intros HL s; cbn [fold_left].
    - exists []. split; [apply emits_refl|constructor].
    - inversion HL as [|? ? Hp Ht]; subst.
      destruct (e_apply_one pl g s p Hp) as [st E1].
      destruct (IH Ht (apply_one sc pl g s p)) as [es [E2 F2]].
      exists (EApply g (p_id p) st :: es). split.
      + exact (emits_trans _ _ _ _ _ E1 E2).
      + constructor; [eauto|exact F2].
  Qed.

  Ltac qt :=
    lazymatch goal with
    | |- emits ?s ?s [] => apply emits_refl
    | |- emits ?s (add_aband ?x ?i) [] => apply (emits_nil_trans s x); [qt | apply e_add_aband]
    | |- emits ?s (log_req ?x ?r ?ok) [] => apply (emits_nil_trans s x); [qt | apply emits_log_req]
    | |- emits ?s (set_cl ?x ?c) [] => apply (emits_nil_trans s x); [qt | apply e_set_cl]
    | |- emits ?s (maybe_cancel ?c ?x ?i) [] => apply (emits_nil_trans s x); [qt | apply e_maybe_cancel]
    end.

  Lemma e_result s x e i st a u g : emits s x [] -> emits s (rec_add (ev x e) i st a u g) [e].
  Proof.
    intros H. eapply emits_nil_r; [|apply e_rec_add]. eapply emits_nil_l; [exact H|apply emits_ev].
  Qed.

  Definition live_ok (p : pobj) : Prop := exists c, p_live p = Some c /\ c_id c = p_id p.

  Lemma e_prune_one pl locals g uids s p : live_ok p ->
    exists st, emits s (prune_one sc pl locals g uids s p) [EPrune g (p_id p) st].
  Proof.
    intros [c [EL ID]]. unfold prune_one. cbv zeta. rewrite EL.
    destruct (prune_filters sc pl locals (r_tbl s) uids c).
    all: repeat match goal with
                | |- context [if ?b then _ else _] => destruct b
                | |- context [match c_owner ?x with _ => _ end] => destruct (c_owner x)
                | |- context [match find_obj ?a ?b with _ => _ end] => destruct (find_obj a b)
                end.
    all: rewrite ID; eexists; apply e_result; qt.
  Qed.
End Ev.

Section Ev2.
  Variable sc : scenario.

  Lemma e_prune_task pl locals g layer : Forall live_ok layer ->
    forall s, exists es, emits s (prune_task sc pl locals g s layer) es /\ prune_body g layer es.
  Proof.
    unfold prune_task, prune_body. intros HL s. generalize (applied_uids (r_tbl s)). intros uids.
    revert s. induction layer as [|p t IH]; intros s; cbn [fold_left].
    - exists []. split; [apply emits_refl|constructor].
    - inversion HL as [|? ? Hp Ht]; subst.
      destruct (e_prune_one sc pl locals g uids s p Hp) as [st E1].
      destruct (IH Ht (prune_one sc pl locals g uids s p)) as [es [E2 F2]].
      exists (EPrune g (p_id p) st :: es). split.
      + exact (emits_trans _ _ _ _ _ E1 E2).
      + constructor; [eauto|exact F2].
  Qed.

  (* ---- wait task: only wait events of the group's ids (and status events);
     every id gets at least one ------------------------------------------- *)
  Definition wait_ev (g : gname) (ids : list id) (e : evt) : Prop :=
    (exists i st, e = EWait g i st /\ In i ids) \/ (exists i st, e = EStatus i st).

  Lemma e_handle_changed_uid c g s i : exists st, emits s (handle_changed_uid c g s i) [EWait g i st].
  Proof.
    unfold handle_changed_uid. destruct c; eexists; (eapply emits_nil_l; [apply e_rec_reconcile|apply emits_ev]).
  Qed.

  Lemma e_wait_start c g ids : forall s,
    exists es, emits s (fst (wait_start c g ids s)) es /\
               Forall2 (fun i e => exists st, e = EWait g i st) ids es.
  Proof.
    intros s. unfold wait_start.
    set (stepf := fun (acc : rst * list id) (i : id) => _).
    assert (H : forall l acc, exists es, emits (fst acc) (fst (fold_left stepf l acc)) es /\
                                         Forall2 (fun i e => exists st, e = EWait g i st) l es).
    { induction l as [|i l IH]; intros acc; cbn [fold_left].
      - exists []. split; [apply emits_refl|constructor].
      - destruct (IH (stepf acc i)) as [es [E2 F2]].
        assert (E1 : exists st, emits (fst acc) (fst (stepf acc i)) [EWait g i st]).
        { destruct acc as [s0 pend]. unfold stepf. cbn [fst].
          destruct (w_skipped c s0 i); cbn [fst]; [eexists; eapply emits_nil_l; [apply e_rec_reconcile|apply emits_ev]|].
          destruct (changed_uid s0 i); cbn [fst]; [apply e_handle_changed_uid|].
          destruct (cond_met c s0 i); cbn [fst]; eexists; (eapply emits_nil_l; [apply e_rec_reconcile|apply emits_ev]). }
        destruct E1 as [st E1]. exists (EWait g i st :: es). split.
        + exact (emits_trans _ _ _ _ _ E1 E2).
        + constructor; [eauto|exact F2]. }
    specialize (H ids (s, [])). destruct (fold_left stepf ids (s, [])) as [s' pend]. exact H.
  Qed.

  Lemma e_wait_update c g ids s w i : In i ids ->
    exists es, emits s (fst (wait_update c g ids s w i)) es /\ Forall (wait_ev g ids) es.
  Proof.
    intros Hi. unfold wait_update.
    assert (W : forall st, wait_ev g ids (EWait g i st)) by (intros st; left; eauto).
    assert (H1 : forall r st, exists es, emits s (ev (rec_reconcile s i r) (EWait g i st)) es /\ Forall (wait_ev g ids) es).
    { intros r st. exists [EWait g i st]. split; [eapply emits_nil_l; [apply e_rec_reconcile|apply emits_ev]|].
      constructor; [apply W|constructor]. }
    assert (H2 : exists es, emits s (handle_changed_uid c g s i) es /\ Forall (wait_ev g ids) es).
    { destruct (e_handle_changed_uid c g s i) as [st E]. exists [EWait g i st]. split; [exact E|].
      constructor; [apply W|constructor]. }
    assert (H0 : exists es, emits s s es /\ Forall (wait_ev g ids) es)
      by (exists []; split; [apply emits_refl|constructor]).
    repeat match goal with
           | |- context [if ?b then _ else _] => destruct b
           | |- context [match ?c with AllCurrent => _ | AllNotFound => _ end] => destruct c
           end; cbn [fst]; first [exact H0 | exact H2 | apply H1].
  Qed.

  Lemma e_wait_timeout g ids s w : incl (w_pending w) ids ->
    exists es, emits s (wait_timeout g s w) es /\ Forall (wait_ev g ids) es.
  Proof.
    unfold wait_timeout. generalize (w_pending w). intros l. revert s.
    induction l as [|i l IH]; intros s Hincl; cbn [fold_left].
    - exists []. split; [apply emits_refl|constructor].
    - destruct (IH (ev (rec_reconcile s i RTimeout) (EWait g i WTimedOut))) as [es [E F]].
      { intros x Hx. apply Hincl. right. exact Hx. }
      exists (EWait g i WTimedOut :: es). split.
      + eapply (emits_trans _ _ _ [_] es); [|exact E].
        eapply emits_nil_l; [apply e_rec_reconcile|apply emits_ev].
      + constructor; [left; exists i, WTimedOut; split; [reflexivity|apply Hincl; left; reflexivity]|exact F].
  Qed.

  (* pending ids of the wait state stay inside the group's ids *)
  Lemma in_removelast (l : list id) y : In y (removelast l) -> In y l.
  Proof.
    induction l as [|a t IH]; cbn; [tauto|]. destruct t as [|b t']; [intros []|].
    intros [H|H]; [left; exact H|right; apply IH; exact H].
  Qed.
  Lemma last_In (l : list id) d : l <> [] -> In (last l d) l.
  Proof.
    induction l as [|a t IH]; [congruence|]. intros _. destruct t as [|b t']; [left; reflexivity|].
    right. apply IH. discriminate.
  Qed.
  Lemma remove_incl (l : list id) x ids : incl l ids -> incl (remove Nat.eqb l x) ids.
  Proof.
    revert ids. induction l as [|a t IH]; intros ids H; cbn [remove]; [exact H|].
    destruct (Nat.eqb a x).
    - destruct t as [|b t']; [intros y []|].
      intros y [Hy|Hy].
      + subst y. apply H. right. apply last_In. discriminate.
      + apply H. right. apply in_removelast. exact Hy.
    - intros y [Hy|Hy]; [subst; apply H; left; reflexivity|].
      apply (IH ids); [intros z Hz; apply H; right; exact Hz|exact Hy].
  Qed.
End Ev2.

Section Ev3.
  Variable sc : scenario.

  Lemma wait_start_pending c g ids s : incl (w_pending (snd (wait_start c g ids s))) ids.
  Proof.
    unfold wait_start.
    set (stepf := fun (acc : rst * list id) (i : id) => _).
    assert (H : forall l acc, incl (snd acc) ids -> incl l ids -> incl (snd (fold_left stepf l acc)) ids).
    { induction l as [|i l IH]; intros acc Ha Hl; cbn [fold_left]; [exact Ha|].
      apply IH; [|intros x Hx; apply Hl; right; exact Hx].
      destruct acc as [s0 pend]. unfold stepf. cbn [snd] in *.
      destruct (w_skipped c s0 i); cbn [snd]; [exact Ha|].
      destruct (changed_uid s0 i); cbn [snd]; [exact Ha|].
      destruct (cond_met c s0 i); cbn [snd]; [exact Ha|].
      intros x Hx. apply in_app_or in Hx. destruct Hx as [Hx|[Hx|[]]]; [apply Ha; exact Hx|subst; apply Hl; left; reflexivity]. }
    specialize (H ids (s, []) (fun x (F : In x []) => match F with end) (fun x Hx => Hx)).
    destruct (fold_left stepf ids (s, [])) as [s' pend]. exact H.
  Qed.

  Lemma wait_update_pending c g ids s w i : In i ids -> incl (w_pending w) ids ->
    incl (w_pending (snd (wait_update c g ids s w i))) ids.
  Proof.
    intros Hi Hw. unfold wait_update.
    repeat match goal with
           | |- context [if ?b then _ else _] => destruct b
           | |- context [match ?c with AllCurrent => _ | AllNotFound => _ end] => destruct c
           end; cbn [snd w_pending]; try exact Hw; try (apply remove_incl; exact Hw).
    all: intros x Hx; apply in_app_or in Hx; destruct Hx as [Hx|[Hx|[]]]; [apply Hw; exact Hx|subst; exact Hi].
  Qed.

  Lemma e_deliver c g ids ds : forall s w, incl (w_pending w) ids ->
    exists es, emits s (fst (deliver sc c g ids ds s w)) es /\ Forall (wait_ev g ids) es /\
               incl (w_pending (snd (deliver sc c g ids ds s w))) ids.
  Proof.
    induction ds as [|d t IH]; intros s w Hw; cbn [deliver].
    - exists []. split; [apply emits_refl|]. split; [constructor|exact Hw].
    - destruct (w_pending w) eqn:EP.
      + exists []. split; [apply emits_refl|]. split; [constructor|]. cbn [snd]. rewrite EP. intros x [].
      + rewrite <- EP in *. clear EP.
        set (s2 := if o_status_events (sc_opts sc) then ev (emit s (IDeliv d)) (EStatus (s_id d) (s_st d)) else emit s (IDeliv d)).
        set (s3 := set_cache s2 (d :: r_cache s2)).
        assert (E3 : exists es, emits s s3 es /\ Forall (wait_ev g ids) es).
        { unfold s3, s2. destruct (o_status_events (sc_opts sc)).
          - exists [EStatus (s_id d) (s_st d)]. split.
            + eapply emits_nil_r; [|apply emits_same; reflexivity].
              eapply emits_nil_l; [apply (emits_item_noev s (IDeliv d)); intros e; discriminate|apply emits_ev].
            + constructor; [right; eauto|constructor].
          - exists []. split; [|constructor].
            eapply emits_nil_r; [apply (emits_item_noev s (IDeliv d)); intros e; discriminate|apply emits_same; reflexivity]. }
        destruct E3 as [es3 [E3 F3]].
        destruct (memn (s_id d) ids) eqn:M.
        * assert (Hi : In (s_id d) ids).
          { unfold memn in M. apply existsb_exists in M. destruct M as [y [Hy E]]. apply Nat.eqb_eq in E. subst. exact Hy. }
          destruct (e_wait_update c g ids s3 w (s_id d) Hi) as [es4 [E4 F4]].
          pose proof (wait_update_pending c g ids s3 w (s_id d) Hi Hw) as P4.
          destruct (wait_update c g ids s3 w (s_id d)) as [s4 w4]. cbn [fst snd] in *.
          destruct (IH s4 w4 P4) as [es5 [E5 [F5 P5]]].
          exists (es3 ++ es4 ++ es5). split; [|split; [|exact P5]].
          -- eapply emits_trans; [exact E3|]. eapply emits_trans; [exact E4|exact E5].
          -- apply Forall_app. split; [exact F3|]. apply Forall_app. split; assumption.
        * destruct (IH s3 w Hw) as [es5 [E5 [F5 P5]]].
          exists (es3 ++ es5). split; [|split; [|exact P5]].
          -- eapply emits_trans; [exact E3|exact E5].
          -- apply Forall_app. split; assumption.
  Qed.

  Definition wait_body (g : gname) (ids : list id) (es : list evt) : Prop :=
    Forall (wait_ev g ids) es /\ forall i, In i ids -> exists st, In (EWait g i st) es.

  Lemma start_events_body g l es : Forall2 (fun i e => exists st, e = EWait g i st) l es ->
    (forall ids, incl l ids -> Forall (wait_ev g ids) es) /\
    (forall i, In i l -> exists st, In (EWait g i st) es).
  Proof.
    induction 1 as [|i e l l' [st ->] _ [IH1 IH2]]; split.
    - intros; constructor.
    - intros i [].
    - intros ids Hincl. constructor.
      + left. exists i, st. split; [reflexivity|apply Hincl; left; reflexivity].
      + apply IH1. intros x Hx. apply Hincl. right. exact Hx.
    - intros j [->|Hj]; [exists st; left; reflexivity|].
      destruct (IH2 j Hj) as [st' H']. exists st'. right. exact H'.
  Qed.

  Lemma e_wait_task c g ids s :
    exists es, emits s (wait_task sc c g ids s) es /\ wait_body g ids es.
  Proof.
    unfold wait_task. cbv zeta.
    destruct (e_wait_start c g ids s) as [es1 [E1 F1]].
    pose proof (wait_start_pending c g ids s) as P1.
    destruct (wait_start c g ids s) as [s1 w1]. cbn [fst snd] in *.
    assert (B1 : wait_body g ids es1).
    { destruct (start_events_body g ids es1 F1) as [A B]. split; [apply A; intros x Hx; exact Hx|exact B]. }
    assert (EXT : forall s' es2, emits s1 s' es2 -> Forall (wait_ev g ids) es2 ->
                  exists es, emits s s' es /\ wait_body g ids es).
    { intros s' es2 E2 F2. exists (es1 ++ es2). split; [exact (emits_trans _ _ _ _ _ E1 E2)|].
      destruct B1 as [B1a B1b]. split; [apply Forall_app; split; assumption|].
      intros i Hi. destruct (B1b i Hi) as [st H]. exists st. apply in_or_app. left. exact H. }
    assert (EXTR : forall s' es2, emits s1 s' es2 -> Forall (wait_ev g ids) es2 ->
                  exists es, emits s (wait_reset sc c ids s') es /\ wait_body g ids es).
    { intros s' es2 E2 F2. apply (EXT _ es2); [|exact F2]. eapply emits_nil_r; [exact E2|].
      apply emits_same. apply wait_reset_tr. }
    destruct (w_pending w1) eqn:EP1.
    - apply (EXTR s1 []); [apply emits_refl|constructor].
    - rewrite <- EP1 in *. clear EP1.
      destruct (match e_watch_err_at (sc_env sc) with Some n => Nat.eqb n (snd g) | None => false end).
      + apply (EXT _ []); [apply e_set_abort|constructor].
      + destruct (e_deliver c g ids (w_deliv (nth (snd g) (e_waits (sc_env sc)) (mkW [] WTimeout))) s1 w1 P1)
          as [es2 [E2 [F2 P2]]].
        destruct (deliver sc c g ids _ s1 w1) as [s2 w2]. cbn [fst snd] in *.
        destruct (w_pending w2) eqn:EP2.
        * apply (EXTR s2 es2); assumption.
        * rewrite <- EP2 in *. clear EP2.
          destruct (w_end _).
          -- destruct (match c with AllCurrent => _ | AllNotFound => _ end).
             ++ destruct (e_wait_timeout g ids s2 w2 P2) as [es3 [E3 F3]].
                apply (EXTR _ (es2 ++ es3)); [exact (emits_trans _ _ _ _ _ E2 E3)|apply Forall_app; split; assumption].
             ++ apply (EXT _ es2); [eapply emits_nil_r; [exact E2|apply e_set_abort]|exact F2].
          -- apply (EXT _ es2); [eapply emits_nil_r; [exact E2|apply e_set_abort]|exact F2].
  Qed.

  (* ---- inventory tasks emit no events ------------------------------------- *)
  Lemma e_inv_add_task pl s : emits s (fst (inv_add_task sc pl s)) [].
  Proof.
    unfold inv_add_task. cbv zeta.
    match goal with |- emits s (fst (let '(s1, ok1) := ?X in _)) [] =>
      assert (H : emits s (fst X) []); [|destruct X as [s1 ok1]; cbn [fst] in H] end.
    { destruct (match sc_inv_ns sc with Some n => _ | None => None end) as [p|]; [|apply emits_refl].
      destruct (p_local p); [|apply emits_refl].
      destruct (is_dry _); cbn [fst]; [apply emits_refl|].
      destruct (faulted sc FNsCreate); cbn [fst]; [apply emits_log_req|].
      destruct (find_obj _ _); cbn [fst]; [apply emits_log_req|].
      eapply emits_nil_trans; [apply e_set_cl|apply emits_log_req]. }
    destruct ok1; cbn [fst]; [|exact H]. eapply emits_nil_trans; [exact H|apply e_merge].
  Qed.

  Lemma e_delete_inventory s : emits s (fst (delete_inventory sc s)) [].
  Proof.
    unfold delete_inventory. cbv zeta.
    pose proof (e_inv_list sc s) as L1. destruct (inv_list sc s) as [s1 r1]. cbn [fst] in L1.
    destruct r1 as [[l|]|]; cbn [fst]; try exact L1.
    destruct (is_dry _); cbn [fst]; [exact L1|].
    destruct (faulted sc FInvDelete); cbn [fst]; (eapply emits_nil_trans; [exact L1|]); [apply emits_log_req|].
    eapply emits_nil_trans; [apply e_set_cl|apply emits_log_req].
  Qed.

  Lemma e_inv_set_task pl prev s : emits s (fst (inv_set_task sc pl prev s)) [].
  Proof.
    unfold inv_set_task. destruct prev as [pv|]; cbn [fst]; [|apply emits_refl].
    destruct (o_destroy (sc_opts sc) && destroy_successful pl pv s); [apply e_delete_inventory|apply e_replace].
  Qed.

  (* ---- one task ------------------------------------------------------------ *)
  Definition body_spec (t : task) (es : list evt) : Prop :=
    match t with
    | TInvAdd | TInvSet => es = []
    | TApply k l => apply_body (GApply, k) l es
    | TPrune k l => prune_body (GPrune, k) l es
    | TWait k _ ids => wait_body (GWait, k) ids es
    end.
  Definition task_wf (t : task) : Prop :=
    match t with
    | TApply _ l => Forall (fun p => p_local p <> None) l
    | TPrune _ l => Forall live_ok l
    | _ => True
    end.

  Lemma e_run_task pl locals prev s t : task_wf t ->
    exists body, emits s (fst (run_task sc pl locals prev s t))
                       (EStarted (task_name t) :: body ++ [EFinished (task_name t)]) /\ body_spec t body.
  Proof.
    intros WF. unfold run_task. cbv zeta.
    assert (K : forall s1 body, emits (ev s (EStarted (task_name t))) s1 body ->
                emits s (ev s1 (EFinished (task_name t))) (EStarted (task_name t) :: body ++ [EFinished (task_name t)])).
    { intros s1 body E. change (EStarted (task_name t) :: body ++ [EFinished (task_name t)])
        with ([EStarted (task_name t)] ++ body ++ [EFinished (task_name t)]).
      eapply emits_trans; [apply emits_ev|]. eapply emits_trans; [exact E|apply emits_ev]. }
    destruct t; cbn [task_wf] in WF.
    - pose proof (e_inv_add_task pl (ev s (EStarted (task_name TInvAdd)))) as E.
      destruct (inv_add_task sc pl _) as [s1 ok]. cbn [fst] in *. exists []. split; [exact (K _ _ E)|reflexivity].
    - cbn [fst]. destruct (e_apply_task sc pl (task_name (TApply k layer)) layer WF (ev s (EStarted (task_name (TApply k layer))))) as [es [E F]].
      exists es. split; [exact (K _ _ E)|exact F].
    - cbn [fst]. destruct (e_wait_task c (task_name (TWait k c ids)) ids (ev s (EStarted (task_name (TWait k c ids))))) as [es [E F]].
      exists es. split; [exact (K _ _ E)|exact F].
    - cbn [fst]. destruct (e_prune_task sc pl locals (task_name (TPrune k layer)) layer WF (ev s (EStarted (task_name (TPrune k layer))))) as [es [E F]].
      exists es. split; [exact (K _ _ E)|exact F].
    - pose proof (e_inv_set_task pl prev (ev s (EStarted (task_name TInvSet)))) as E.
      destruct (inv_set_task sc pl prev _) as [s1 ok]. cbn [fst] in *. exists []. split; [exact (K _ _ E)|reflexivity].
  Qed.

  (* ---- the runner: blocks for a prefix of the tasks, then at most one error *)
  Inductive tasks_trace : list task -> list evt -> Prop :=
  | tt_done : tasks_trace [] []
  | tt_stop t rest body :
      body_spec t body ->
      tasks_trace (t :: rest) (EStarted (task_name t) :: body ++ [EFinished (task_name t); EError])
  | tt_next t rest body es :
      body_spec t body -> tasks_trace rest es ->
      tasks_trace (t :: rest) (EStarted (task_name t) :: body ++ EFinished (task_name t) :: es).

  Lemma e_run_tasks pl locals prev ts : Forall task_wf ts ->
    forall s, exists es, emits s (run_tasks sc pl locals prev s ts) es /\ tasks_trace ts es.
  Proof.
    induction ts as [|t rest IH]; intros WF s; cbn [run_tasks].
    - exists []. split; [apply emits_refl|constructor].
    - inversion WF as [|? ? Wt Wr]; subst.
      destruct (e_run_task pl locals prev s t Wt) as [body [E B]].
      destruct (run_task sc pl locals prev s t) as [s1 ok]. cbn [fst] in E.
      assert (STOP : exists es, emits s (ev s1 EError) es /\ tasks_trace (t :: rest) es).
      { exists (EStarted (task_name t) :: body ++ [EFinished (task_name t); EError]). split; [|constructor; exact B].
        replace (EStarted (task_name t) :: body ++ [EFinished (task_name t); EError])
          with ((EStarted (task_name t) :: body ++ [EFinished (task_name t)]) ++ [EError]).
        - eapply emits_trans; [exact E|apply emits_ev].
        - cbn. rewrite <- app_assoc. reflexivity. }
      destruct (negb ok); [exact STOP|]. destruct (r_abort s1); [exact STOP|].
      destruct (IH Wr s1) as [es [E2 T2]].
      exists (EStarted (task_name t) :: body ++ EFinished (task_name t) :: es). split; [|constructor; assumption].
      replace (EStarted (task_name t) :: body ++ EFinished (task_name t) :: es)
        with ((EStarted (task_name t) :: body ++ [EFinished (task_name t)]) ++ es).
      + eapply emits_trans; [exact E|exact E2].
      + cbn. rewrite <- app_assoc. reflexivity.
  Qed.
End Ev3.

Section Ev4.
  Variable sc : scenario.

  Lemma pick_In objs l p : In p (pick objs l) -> In p objs.
  Proof.
    unfold pick. intros H. apply in_flat_map in H. destruct H as [i [_ H]].
    apply filter_In in H. tauto.
  Qed.

  Lemma hydrate_In layers objs layer p : In layer (hydrate layers objs) -> In p layer -> In p objs.
  Proof.
    unfold hydrate. intros HL Hp. apply filter_In in HL. destruct HL as [HL _].
    apply in_map_iff in HL. destruct HL as [l [<- _]]. eapply pick_In. exact Hp.
  Qed.

  Lemma plan_apply_local known locals pobjs layer p :
    In layer (pl_apply_layers (build_plan sc known locals pobjs)) -> In p layer -> p_local p <> None.
  Proof.
    unfold build_plan. cbv zeta.
    destruct (kahn _ _ _) as [layers cyc]. cbn [pl_apply_layers].
    intros HL Hp. pose proof (hydrate_In _ _ _ _ HL Hp) as H.
    apply filter_In in H. destruct H as [H _]. apply in_map_iff in H. destruct H as [l [<- _]]. discriminate.
  Qed.

  Lemma plan_prune_live known locals pobjs layer p :
    In layer (pl_prune_layers (build_plan sc known locals pobjs)) -> In p layer -> live_ok p.
  Proof.
    unfold build_plan. cbv zeta.
    destruct (kahn _ _ _) as [layers cyc]. cbn [pl_prune_layers].
    intros HL Hp. apply in_rev in HL. apply in_map_iff in HL. destruct HL as [l0 [<- HL]].
    apply in_rev in Hp. pose proof (hydrate_In _ _ _ _ HL Hp) as H.
    apply filter_In in H. destruct H as [H _]. apply in_map_iff in H. destruct H as [c [<- _]].
    exists c. split; reflexivity.
  Qed.

  Lemma apply_tasks_wf layers : (forall layer p, In layer layers -> In p layer -> p_local p <> None) ->
    forall ka kw, Forall task_wf (fst (apply_tasks sc ka kw layers)).
  Proof.
    induction layers as [|l t IH]; intros H ka kw; cbn [apply_tasks]; [constructor|].
    assert (Hl : Forall (fun p => p_local p <> None) l)
      by (apply Forall_forall; intros p Hp; eapply H; [left; reflexivity|exact Hp]).
    assert (Ht : forall layer p, In layer t -> In p layer -> p_local p <> None)
      by (intros; eapply H; [right; eassumption|assumption]).
    destruct (is_dry _).
    - specialize (IH Ht (S ka) kw). destruct (apply_tasks sc (S ka) kw t) as [ts kw']. cbn [fst] in *.
      constructor; [exact Hl|exact IH].
    - specialize (IH Ht (S ka) (S kw)). destruct (apply_tasks sc (S ka) (S kw) t) as [ts kw']. cbn [fst] in *.
      constructor; [exact Hl|]. constructor; [exact I|exact IH].
  Qed.

  Lemma prune_tasks_wf layers : (forall layer p, In layer layers -> In p layer -> live_ok p) ->
    forall kp kw, Forall task_wf (prune_tasks sc kp kw layers).
  Proof.
    induction layers as [|l t IH]; intros H kp kw; cbn [prune_tasks]; [constructor|].
    assert (Hl : Forall live_ok l)
      by (apply Forall_forall; intros p Hp; eapply H; [left; reflexivity|exact Hp]).
    assert (Ht : forall layer p, In layer t -> In p layer -> live_ok p)
      by (intros; eapply H; [right; eassumption|assumption]).
    destruct (is_dry _); constructor; try exact Hl; [apply IH; exact Ht|].
    constructor; [exact I|apply IH; exact Ht].
  Qed.

  Lemma tasks_of_wf known locals pobjs : Forall task_wf (tasks_of sc (build_plan sc known locals pobjs)).
  Proof.
    unfold tasks_of. set (pl := build_plan sc known locals pobjs).
    assert (A : Forall task_wf (fst (match pl_apply pl with [] => ([], 0) | _ => apply_tasks sc 0 0 (pl_apply_layers pl) end))).
    { destruct (pl_apply pl); [constructor|]. apply apply_tasks_wf. intros layer q. apply plan_apply_local. }
    destruct (match pl_apply pl with [] => ([], 0) | _ => apply_tasks sc 0 0 (pl_apply_layers pl) end) as [at_ kw].
    cbn [fst] in A.
    apply Forall_app. split; [destruct (o_destroy _); repeat constructor|].
    apply Forall_app. split; [exact A|]. apply Forall_app. split; [|repeat constructor].
    destruct (o_prune _); [|constructor]. destruct (pl_prune pl); [constructor|].
    apply prune_tasks_wf. intros layer q. apply plan_prune_live.
  Qed.

  (* ---- the whole run --------------------------------------------------------- *)
  Definition is_validation (e : evt) : Prop := exists l, e = EValidation l.

  Inductive run_events : list evt -> Prop :=
  | re_fatal : run_events [EError]
  | re_cancelled vals plan :
      Forall is_validation vals -> run_events (vals ++ [EInit plan; EError])
  | re_tasks vals pl es :
      Forall is_validation vals -> tasks_trace (tasks_of sc pl) es ->
      run_events (vals ++ EInit (map (fun t => (task_name t, task_ids pl t)) (tasks_of sc pl)) :: es).

  Lemma e_validation errs : forall s,
    exists vals, emits s (fold_left (fun s e => ev s (EValidation (sortn e))) errs s) vals /\ Forall is_validation vals.
  Proof.
    induction errs as [|e t IH]; intros s; cbn [fold_left].
    - exists []. split; [apply emits_refl|constructor].
    - destruct (IH (ev s (EValidation (sortn e)))) as [vals [E F]].
      exists (EValidation (sortn e) :: vals). split.
      + exact (emits_trans _ _ _ [_] _ (emits_ev _ _) E).
      + constructor; [eexists; reflexivity|exact F].
  Qed.

  Lemma e_fetch_all ids : forall s, emits s (fst (fetch_all sc s ids)) [].
  Proof.
    induction ids as [|i t IH]; intros s; cbn [fetch_all]; [apply emits_refl|].
    destruct (negb (kind_known sc (r_known s) i)); [apply IH|].
    pose proof (e_get_obj sc s i) as G. destruct (get_obj sc s i) as [s1 g]. cbn [fst] in G.
    destruct g; cbn [fst]; [exact G|eapply emits_nil_trans; [exact G|apply IH]|].
    specialize (IH s1). destruct (fetch_all sc s1 t) as [s2 r]. cbn [fst] in *.
    eapply emits_nil_trans; eassumption.
  Qed.

  Lemma e_register pl s : emits s (register sc pl s) [].
  Proof.
    unfold register.
    assert (F : forall (l : list pobj) st a s0,
               emits s0 (fold_left (fun s p => rec_add s (p_id p) st a 0%N 0%Z) l s0) []).
    { induction l as [|q t IH]; intros st a s0; cbn [fold_left]; [apply emits_refl|].
      eapply emits_nil_trans; [apply e_rec_add|apply IH]. }
    destruct (negb (o_destroy (sc_opts sc)) && negb (o_prune (sc_opts sc)));
      destruct (o_prune (sc_opts sc)).
    - eapply emits_nil_trans; [apply F|]. eapply emits_nil_trans; [apply F|]. apply F.
    - eapply emits_nil_trans; [apply F|]. apply F.
    - eapply emits_nil_trans; [apply F|]. apply F.
    - apply F.
  Qed.

  Lemma e_run_state c0 : exists es, emits (init_state sc c0) (run_state sc c0) es /\ run_events es.
  Proof.
    unfold run_state. cbv zeta.
    pose proof (e_inv_list sc (init_state sc c0)) as L1.
    destruct (inv_list sc (init_state sc c0)) as [s1 r1]. cbn [fst] in L1.
    destruct r1 as [st|].
    2:{ exists [EError]. split; [|constructor]. eapply emits_nil_l; [exact L1|apply emits_ev]. }
    match goal with |- context [fetch_all sc s1 ?c] => pose proof (e_fetch_all c s1) as F;
      destruct (fetch_all sc s1 c) as [s2 r2] end. cbn [fst] in F.
    destruct r2 as [pobjs|].
    2:{ exists [EError]. split; [|constructor]. eapply emits_nil_l; [exact L1|]. eapply emits_nil_l; [exact F|apply emits_ev]. }
    set (locals := if o_destroy (sc_opts sc) then [] else sc_local sc).
    set (pl := build_plan sc (r_known s2) locals pobjs).
    pose proof (e_register pl s2) as R.
    pose proof (e_inv_list sc (register sc pl s2)) as L4.
    destruct (inv_list sc (register sc pl s2)) as [s4 r4]. cbn [fst] in L4.
    assert (S4 : emits (init_state sc c0) s4 []).
    { eapply emits_nil_trans; [exact L1|]. eapply emits_nil_trans; [exact F|]. eapply emits_nil_trans; [exact R|exact L4]. }
    set (prev := option_map (fun st0 : option (list id) => match st0 with Some l => l | None => [] end) r4).
    set (initev := EInit (map (fun t => (task_name t, task_ids pl t)) (tasks_of sc pl))).
    assert (TASKS : forall errs, exists es,
              emits (init_state sc c0)
                (match e_cancel (sc_env sc) with
                 | CBeforeSync => ev (ev (fold_left (fun s e => ev s (EValidation (sortn e))) errs s4) initev) EError
                 | _ => run_tasks sc pl locals prev
                          (ev (fold_left (fun s e => ev s (EValidation (sortn e))) errs s4) initev) (tasks_of sc pl)
                 end) es /\ run_events es).
    { intros errs. destruct (e_validation errs s4) as [vals [Ev Fv]].
      set (s6 := ev (fold_left (fun s e => ev s (EValidation (sortn e))) errs s4) initev).
      assert (E6 : emits (init_state sc c0) s6 (vals ++ [initev])).
      { eapply emits_nil_l; [exact S4|]. eapply emits_trans; [exact Ev|apply emits_ev]. }
      assert (RT : exists es, emits (init_state sc c0) (run_tasks sc pl locals prev s6 (tasks_of sc pl)) es /\ run_events es).
      { destruct (e_run_tasks sc pl locals prev (tasks_of sc pl) (tasks_of_wf (r_known s2) locals pobjs) s6) as [es [E T]].
        exists (vals ++ initev :: es). split.
        - pose proof (emits_trans _ _ _ _ _ E6 E) as H. rewrite <- app_assoc in H. exact H.
        - apply re_tasks; assumption. }
      destruct (e_cancel (sc_env sc)); try exact RT.
      exists (vals ++ [initev; EError]). split.
      - pose proof (emits_trans _ _ _ _ _ E6 (emits_ev s6 EError)) as H. rewrite <- app_assoc in H. exact H.
      - apply re_cancelled. exact Fv. }
    destruct (o_valpol (sc_opts sc)); destruct (pl_valerrs pl) eqn:EV; try apply TASKS.
    exists [EError]. split; [|constructor]. eapply emits_nil_l; [exact S4|apply emits_ev].
  Qed.

  Theorem run_events_grammar c0 : run_events (evs (rev (r_tr (run_state sc c0)))).
  Proof.
    destruct (e_run_state c0) as [es [[l [E F]] R]]. cbn [init_state r_tr] in E. rewrite app_nil_r in E.
    rewrite E, rev_involutive, F. exact R.
  Qed.
End Ev4.

Section Ev5.
  Variable sc : scenario.

  Definition error_last_once (es : list evt) : Prop :=
    ~ In EError es \/ exists es', es = es' ++ [EError] /\ ~ In EError es'.

  Lemma body_no_error t body : body_spec t body -> ~ In EError body.
  Proof.
    destruct t; cbn [body_spec].
    - intros ->. intros [].
    - unfold apply_body. intros F H. induction F as [|p e l l' [st ->] _ IH]; [destruct H|].
      destruct H as [H|H]; [discriminate|auto].
    - intros [F _] H. rewrite Forall_forall in F. specialize (F _ H).
      destruct F as [[i [st [E _]]]|[i [st E]]]; discriminate.
    - unfold prune_body. intros F H. induction F as [|p e l l' [st ->] _ IH]; [destruct H|].
      destruct H as [H|H]; [discriminate|auto].
    - intros ->. intros [].
  Qed.

  Lemma tasks_trace_error ts es : tasks_trace ts es -> error_last_once es.
  Proof.
    induction 1 as [|t rest body B|t rest body es B T IH].
    - left. intros [].
    - right. exists (EStarted (task_name t) :: body ++ [EFinished (task_name t)]). split.
      + cbn. rewrite <- app_assoc. reflexivity.
      + intros [H|H]; [discriminate|]. apply in_app_or in H. destruct H as [H|[H|[]]]; [|discriminate].
        exact (body_no_error _ _ B H).
    - assert (NB : forall x, In x (EStarted (task_name t) :: body ++ [EFinished (task_name t)]) -> x <> EError).
      { intros x [<-|H]; [discriminate|]. apply in_app_or in H. destruct H as [H|[<-|[]]]; [|discriminate].
        intros ->. exact (body_no_error _ _ B H). }
      destruct IH as [IH|[es' [-> IH]]].
      + left. intros [H|H]; [discriminate|]. apply in_app_or in H. destruct H as [H|[H|H]]; [|discriminate|auto].
        exact (body_no_error _ _ B H).
      + right. exists (EStarted (task_name t) :: body ++ EFinished (task_name t) :: es'). split.
        * cbn. rewrite <- !app_assoc. reflexivity.
        * intros [H|H]; [discriminate|]. apply in_app_or in H. destruct H as [H|[H|H]]; [|discriminate|auto].
          exact (body_no_error _ _ B H).
  Qed.

  Lemma validation_no_error vals : Forall is_validation vals -> ~ In EError vals.
  Proof.
    intros F H. rewrite Forall_forall in F. destruct (F _ H) as [l E]. discriminate.
  Qed.

  Lemma run_events_error es : run_events sc es -> error_last_once es.
  Proof.
    intros [|vals plan Fv|vals pl es' Fv T].
    - right. exists []. split; [reflexivity|intros []].
    - right. exists (vals ++ [EInit plan]). split; [rewrite <- app_assoc; reflexivity|].
      intros H. apply in_app_or in H. destruct H as [H|[H|[]]]; [exact (validation_no_error _ Fv H)|discriminate].
    - destruct (tasks_trace_error _ _ T) as [N|[e2 [-> N]]].
      + left. intros H. apply in_app_or in H. destruct H as [H|[H|H]]; [exact (validation_no_error _ Fv H)|discriminate|auto].
      + right. exists (vals ++ EInit (map (fun t => (task_name t, task_ids pl t)) (tasks_of sc pl)) :: e2). split.
        * rewrite <- app_assoc. reflexivity.
        * intros H. apply in_app_or in H. destruct H as [H|[H|H]]; [exact (validation_no_error _ Fv H)|discriminate|auto].
  Qed.

  (* the trace of the run: events of the run state, then closed, exactly once, last *)
  Lemma run_trace c0 : out_trace (run sc c0) = rev (r_tr (run_state sc c0)) ++ [IClosed].
  Proof. rewrite run_is_finish. reflexivity. Qed.

  Lemma r_tr_no_closed_emit s it : it <> IClosed -> ~ In IClosed (r_tr s) -> ~ In IClosed (r_tr (emit s it)).
  Proof. intros H N [E|E]; [congruence|auto]. Qed.

  Theorem run_grammar c0 : run_events sc (evs (out_trace (run sc c0))).
  Proof.
    rewrite run_trace, evs_app. cbn [evs flat_map]. rewrite app_nil_r. apply run_events_grammar.
  Qed.

  Theorem run_error_last_once c0 : error_last_once (evs (out_trace (run sc c0))).
  Proof. apply run_events_error, run_grammar. Qed.
End Ev5.
