(* C04: the executable monitor `mon_C04` (Corr/CorrPipeline.v) holds on the
   model's run for well-formed scenarios, derived from the theorems of
   Proofs/PipelineOrder.v and Proofs/PipelineOrderPlan.v; for `mon_C05` the
   ordering conjunct. *)
From Coq Require Import List Bool Arith NArith ZArith Lia.
From CliUtils Require Import Model.ObjSet Model.ActuationTable Model.PipelineTypes Model.Pipeline
     Proofs.ObjSetProofs Proofs.PipelineBase Proofs.PipelineAuth Corr.CorrPipeline
     Proofs.PipelineOrphansPlan Proofs.PipelineOrphansRun Proofs.PipelineMonBase Proofs.PipelineOrder Proofs.PipelineOrderPlan.
Import ListNotations.

(* ---- lists with positions -------------------------------------------------------------- *)
Lemma index_from_app {A} (a b : list A) : forall k,
  index_from k (a ++ b) = index_from k a ++ index_from (k + length a) b.
Proof.
  induction a as [|x a IH]; intros k; cbn [app index_from length]; [rewrite Nat.add_0_r; reflexivity|].
  rewrite IH. do 3 f_equal. lia.
Qed.
Lemma index_from_ge {A} (l : list A) : forall k n x, In (n, x) (index_from k l) -> k <= n.
Proof.
  induction l as [|y l IH]; intros k n x H; [destruct H|]. cbn [index_from] in H.
  destruct H as [[= <- _]|H]; [lia|]. apply IH in H. lia.
Qed.
Lemma index_from_split {A} (l : list A) : forall k n x, In (n, x) (index_from k l) ->
  exists pre post, l = pre ++ x :: post /\ n = k + length pre.
Proof.
  induction l as [|y l IH]; intros k n x H; [destruct H|]. cbn [index_from] in H.
  destruct H as [[= <- <-]|H]; [exists [], l; split; [reflexivity|cbn; lia]|].
  destruct (IH _ _ _ H) as [pre [post [-> ->]]]. exists (y :: pre), post. split; [reflexivity|cbn; lia].
Qed.
Lemma index_from_mid {A} (a : list A) x b k : In (k + length a, x) (index_from k (a ++ x :: b)).
Proof. rewrite index_from_app. apply in_or_app. right. left. reflexivity. Qed.

(* the items before position k + |a| that satisfy P *)
Lemma filter_index_lt {A} (P : A -> bool) (a b : list A) k :
  filter (fun q => Nat.ltb (fst q) (k + length a) && P (snd q)) (index_from k (a ++ b)) =
  filter (fun q => P (snd q)) (index_from k a).
Proof.
  rewrite index_from_app, filter_app.
  assert (E2 : filter (fun q => Nat.ltb (fst q) (k + length a) && P (snd q)) (index_from (k + length a) b) = []).
  { assert (H : forall q, In q (index_from (k + length a) b) -> k + length a <= fst q)
      by (intros [n x] Hq; exact (index_from_ge _ _ _ _ Hq)).
    induction (index_from (k + length a) b) as [|q t IH]; [reflexivity|]. cbn [filter].
    assert (L : Nat.ltb (fst q) (k + length a) = false) by (apply Nat.ltb_ge; apply H; left; reflexivity).
    rewrite L. cbn. apply IH. intros; apply H; right; assumption. }
  rewrite E2, app_nil_r. clear E2.
  assert (H : forall q, In q (index_from k a) -> fst q < k + length a).
  { clear. revert k. induction a as [|y a IH]; intros k q Hq; [destruct Hq|]. cbn [index_from] in Hq.
    destruct Hq as [<-|Hq]; [cbn; lia|]. apply IH in Hq. cbn [length]. lia. }
  induction (index_from k a) as [|q t IH]; [reflexivity|]. cbn [filter].
  assert (L : Nat.ltb (fst q) (k + length a) = true) by (apply Nat.ltb_lt; apply H; left; reflexivity).
  rewrite L. cbn [andb]. destruct (P (snd q)); [f_equal|]; apply IH; intros; apply H; right; assumption.
Qed.

Lemma filter_none {A} (P : A -> bool) l : (forall x, In x l -> P x = false) -> filter P l = [].
Proof.
  induction l as [|x l IH]; intros H; [reflexivity|]. cbn. rewrite (H x (or_introl eq_refl)). apply IH.
  intros; apply H; right; assumption.
Qed.

Lemma rev_filter_head {A} (P : A -> bool) l x rest : rev (filter P l) = x :: rest ->
  exists a b, l = a ++ x :: b /\ (forall y, In y b -> P y = false).
Proof.
  revert x rest. induction l as [|y l IH] using rev_ind; intros x rest H; [discriminate|].
  rewrite filter_app, rev_app_distr in H. cbn [filter] in H. destruct (P y) eqn:EP; cbn [rev app] in H.
  - injection H as <- _. exists l, []. split; [reflexivity|intros ? []].
  - destruct (IH _ _ H) as [a [b [-> N]]]. exists a, (b ++ [y]). split; [rewrite <- app_assoc; reflexivity|].
    intros z Hz. apply in_app_or in Hz. destruct Hz as [Hz|[<-|[]]]; [exact (N z Hz)|exact EP].
Qed.

Definition isw (e : id) (it : item) : bool :=
  match it with IEv (EWait _ e' _) => Nat.eqb e e' | _ => false end.

Lemma isw_false_notin e l : (forall g w, ~ In (IEv (EWait g e w)) l) -> forall y, In y l -> isw e y = false.
Proof.
  intros N y Hy. destruct y as [? ? ? ?|?|ev|]; try reflexivity. destruct ev; try reflexivity. cbn.
  destruct (Nat.eqb e i) eqn:E; [|reflexivity]. apply Nat.eqb_eq in E. subst i. exfalso. exact (N _ _ Hy).
Qed.

(* the monitor's "last wait event before position n is Successful" from last_wait_is *)
Lemma last_wait_monitor pre e w k : last_wait_is pre e w ->
  exists n g rest, rev (filter (fun q => isw e (snd q)) (index_from k pre)) = (n, IEv (EWait g e w)) :: rest.
Proof.
  intros [g [p1 [p2 [-> N]]]]. rewrite index_from_app, filter_app. cbn [index_from filter snd isw].
  rewrite Nat.eqb_refl.
  rewrite (filter_none (fun q => isw e (snd q)) (index_from (S (k + length p1)) p2)).
  - rewrite rev_app_distr. cbn [rev app]. eexists _, g, _. reflexivity.
  - intros [n x] Hq. destruct (index_from_split _ _ _ _ Hq) as [a [b [E _]]]. cbn [snd].
    apply (isw_false_notin e p2 N). rewrite E. apply in_or_app. right. left. reflexivity.
Qed.

(* and back: the monitor's view of the last wait event of the whole trace *)
Lemma monitor_last_wait l e g e' w rest :
  rev (filter (isw e) l) = IEv (EWait g e' w) :: rest -> last_wait_is l e w.
Proof.
  intros H. destruct (rev_filter_head _ _ _ _ H) as [a [b [E N]]].
  assert (X : In (IEv (EWait g e' w)) (filter (isw e) l)).
  { apply in_rev. rewrite H. left. reflexivity. }
  apply filter_In in X. destruct X as [_ X]. cbn in X. apply Nat.eqb_eq in X. subst e'.
  exists g, a, b. split; [exact E|]. intros g' w' Hin. specialize (N _ Hin). cbn in N. rewrite Nat.eqb_refl in N. discriminate.
Qed.

Lemma reqs_In l r ok : In (r, ok) (reqs l) -> exists m st, In (IReq r ok m st) l.
Proof.
  unfold reqs. intros H. apply in_flat_map in H. destruct H as [it [Hit H]].
  destruct it as [r' ok' m st|?|?|]; cbn in H; try contradiction. destruct H as [[= <- <-]|[]]. exists m, st. exact Hit.
Qed.
Lemma reqs_none l : (forall r ok m st, ~ In (IReq r ok m st) l) -> reqs l = [].
Proof.
  induction l as [|it l IH]; intros H; [reflexivity|]. unfold reqs. cbn [flat_map].
  destruct it as [r ok m st|?|?|]; try (apply IH; intros r' ok' m' st' X; apply (H r' ok' m' st'); right; exact X).
  exfalso. apply (H r ok m st). left. reflexivity.
Qed.

Section Mon.
  Variable sc : scenario.

  Lemma run_plan_plan_of c0 pl locals : run_plan sc c0 = Some (pl, locals) -> plan_of sc c0 = pl.
  Proof.
    unfold run_plan. cbv zeta.
    pose proof (inv_list_cl sc (init_state sc c0)) as [C1 _]. pose proof (inv_list_res sc (init_state sc c0)) as R1.
    pose proof (known_inv_list sc (init_state sc c0)) as KN1.
    destruct (inv_list sc (init_state sc c0)) as [s1 r1]. cbn [fst snd] in *.
    destruct r1 as [st|]; [|discriminate]. specialize (R1 st eq_refl). cbn [init_state r_cl r_known] in *. subst st.
    fold (prev_of c0). fold (locals_of sc). fold (cand_of sc c0).
    pose proof (fetch_all_exact sc (cand_of sc c0) s1) as F. pose proof (known_fetch_all sc (cand_of sc c0) s1) as KN2.
    destruct (fetch_all sc s1 (cand_of sc c0)) as [s2 r2].
    cbn [fst snd] in F, KN2. destruct r2 as [pobjs|]; [|discriminate]. intros [= <- _].
    assert (HK1 : r_known s1 = live_crds sc (r_cl s1)) by (rewrite KN1, C1; reflexivity).
    rewrite (F pobjs HK1 eq_refl), C1, KN2, KN1. apply plan_of_eq.
  Qed.

  Theorem mon_C04_holds c0 : WF sc c0 -> mon_C04 sc c0 (run sc c0) = true.
  Proof.
    intros HWF. unfold mon_C04. cbv zeta.
    destruct (run_plan sc c0) as [[pl locals]|] eqn:RP.
    2:{ pose proof (auth_run sc c0) as NR. rewrite RP in NR.
        apply andb_true_intro. split; apply forallb_forall.
        - intros [n it] Hin. cbn [snd]. destruct it as [r ok m st|?|?|]; try reflexivity.
          exfalso. destruct (index_from_split _ _ _ _ Hin) as [pre [post [E _]]]. apply (NR r ok m st). rewrite E.
          apply in_or_app. right. left. reflexivity.
        - intros d _. apply forallb_forall. intros e _. rewrite (reqs_none _ NR). cbn. apply orb_true_r. }
    rewrite (run_plan_plan_of c0 pl locals RP).
    apply andb_true_intro. split; apply forallb_forall.
    - (* ordering *)
      intros [n it] Hin. cbn [snd fst]. destruct it as [r ok m st|?|?|]; try reflexivity.
      destruct (index_from_split _ _ _ _ Hin) as [pre [post [E En]]]. cbn [plus] in En. subst n.
      assert (K : forall d, ((exists f, r = RCreate d f) \/ (exists a f, r = RPatch d a f)) ->
        forallb (fun e =>
          existsb (fun q => match snd q with
                            | IEv (EApply _ e' AOk) => Nat.eqb e e' && Nat.ltb (fst q) (length pre)
                            | _ => false end) (index_from 0 (out_trace (run sc c0)))
          && (is_dry (o_dry (sc_opts sc)) ||
              match rev (filter (fun q => Nat.ltb (fst q) (length pre) &&
                                          match snd q with IEv (EWait _ e' _) => Nat.eqb e e' | _ => false end)
                                (index_from 0 (out_trace (run sc c0)))) with
              | (_, IEv (EWait _ _ WOk)) :: _ => true
              | _ => false
              end)) (g_deps (pl_graph pl) d) = true).
      { intros d Hr. apply forallb_forall. intros e He.
        destruct (order_apply_filter sc c0 pl locals RP pre r ok m st post d E Hr) as [tbl [_ F]].
        destruct (F e He) as [_ [_ [_ [LA LW]]]]. apply andb_true_intro. split.
        - destruct LA as [g [p1 [p2 [EP _]]]]. apply existsb_exists.
          exists (0 + length p1, IEv (EApply g e AOk)). split.
          + rewrite E, EP, <- app_assoc. cbn [app]. apply index_from_mid.
          + cbn [snd fst]. rewrite Nat.eqb_refl. cbn [andb]. apply Nat.ltb_lt. rewrite EP, app_length. cbn. lia.
        - destruct (is_dry (o_dry (sc_opts sc))) eqn:ED; [reflexivity|]. cbn [orb].
          assert (DN : o_dry (sc_opts sc) = DNone) by (destruct (o_dry (sc_opts sc)); try discriminate; reflexivity).
          pose proof (filter_index_lt (isw e) pre (IReq r ok m st :: post) 0) as FE.
          cbn [plus] in FE. unfold isw in FE. rewrite E, FE.
          destruct (last_wait_monitor pre e WOk 0 (LW DN)) as [n' [g [rest EL]]]. unfold isw in EL. rewrite EL. reflexivity. }
      destruct r; try reflexivity; apply K; [left; eexists; reflexivity|right; eexists _, _; reflexivity].
    - (* blocked *)
      intros d _. apply forallb_forall. intros e He.
      destruct (existsb (fun x => is_apply_req (fst x) d) (reqs (out_trace (run sc c0)))) eqn:EX; [|apply orb_true_r].
      cbn [negb]. rewrite orb_false_r. apply negb_true_iff.
      match goal with |- ?b = false => destruct b eqn:B; [exfalso|reflexivity] end.
      apply existsb_exists in EX. destruct EX as [[r ok] [Hr AR]]. cbn [fst] in AR.
      destruct (reqs_In _ _ _ Hr) as [m [st Hin]].
      refine (apply_blocked sc c0 pl locals HWF RP d e He _ r ok m st Hin _).
      + (* bad at the end *)
        apply orb_true_iff in B. destruct B as [B|B]; [apply orb_true_iff in B; destruct B as [B|B]; [apply orb_true_iff in B; destruct B as [B|B]|]|].
        * left. apply memn_In. exact B.
        * right; left. apply negb_true_iff in B. intros X. apply (proj2 (memn_In _ _)) in X. unfold apply_ids in X. congruence.
        * right; right; left. apply existsb_exists in B. destruct B as [it [Hit B]].
          destruct it as [? ? ? ?|?|ev|]; try discriminate. destruct ev; try discriminate.
          destruct s; try discriminate; apply Nat.eqb_eq in B; subst i; exists g; [right|left]; exact Hit.
        * right; right; right. apply andb_true_iff in B. destruct B as [B1 B2]. apply negb_true_iff in B1.
          split; [destruct (o_dry (sc_opts sc)); try discriminate; reflexivity|].
          change (fun it => match it with IEv (EWait _ e' _) => Nat.eqb e e' | _ => false end) with (isw e) in B2.
          destruct (rev (filter (isw e) (out_trace (run sc c0)))) as [|x rest] eqn:ER; [discriminate|].
          destruct x as [? ? ? ?|?|ev|]; try discriminate. destruct ev; try discriminate.
          exists s. split; [exact (monitor_last_wait _ _ _ _ _ _ ER)|]. destruct s; try discriminate; auto.
      + destruct r; try discriminate; cbn in AR; apply Nat.eqb_eq in AR; subst; [left; eexists; reflexivity|right; eexists _, _; reflexivity].
  Qed.
End Mon.

(* ---- mon_C05 = ordering conjunct && inventory conjunct ------------------------------------------- *)
Definition mon_C05_order (sc : scenario) (c0 : cluster) (out : outcome) : bool :=
  let pl := plan_of sc c0 in
  let t := index_from 0 (out_trace out) in
  let dryrun := is_dry (o_dry (sc_opts sc)) in
  let prune_ids := map p_id (pl_prune pl) in
  forallb (fun pit =>
    match snd pit with
    | IReq (RDelete e _ _) _ _ _ =>
        forallb (fun d =>
          memn d prune_ids
          && existsb (fun q => match snd q with
                               | IEv (EPrune _ d' AOk) => Nat.eqb d d' && Nat.ltb (fst q) (fst pit)
                               | _ => false end) t
          && (dryrun ||
              match rev (filter (fun q => Nat.ltb (fst q) (fst pit) &&
                                          match snd q with IEv (EWait _ d' _) => Nat.eqb d d' | _ => false end) t) with
              | (_, IEv (EWait _ _ WOk)) :: _ => true
              | _ => false
              end))
          (g_dependents (pl_graph pl) e)
    | _ => true
    end) t.
(* "a dependency that was not deleted stays in the inventory": a statement about the final inventory *)
Definition mon_C05_inventory (sc : scenario) (c0 : cluster) (out : outcome) : bool :=
  let pl := plan_of sc c0 in
  let dryrun := is_dry (o_dry (sc_opts sc)) in
  let prune_ids := map p_id (pl_prune pl) in
  has_error (out_trace out) || dryrun ||
  forallb (fun e =>
    existsb (fun x => match fst x with RDelete e' _ _ => Nat.eqb e e' | _ => false end) (reqs (out_trace out))
    || existsb (fun it => match it with IEv (EPrune _ e' AOk) => Nat.eqb e e' | _ => false end) (out_trace out)
    || negb (o_prune (sc_opts sc))
    || memn e (prev_of (out_final out))
    || (match find_obj (objs c0) e with Some c => c_keep c | None => false end)
    || existsb (fun it => match it with IEv (EPrune _ e' ASkip) => Nat.eqb e e' | _ => false end) (out_trace out)
       && negb (memn e (managed (out_final out)))
       && match find_obj (objs c0) e with
          | Some c =>
              existsb (fun it => match it with
                                 | IEv (EApply _ j AOk) =>
                                     match find_obj (objs (out_final out)) j with
                                     | Some c' => N.eqb (c_uid c') (c_uid c) | None => false end
                                 | _ => false end) (out_trace out)
          | None => false
          end) prune_ids.

Lemma mon_C05_split sc c0 out : mon_C05 sc c0 out = mon_C05_order sc c0 out && mon_C05_inventory sc c0 out.
Proof. reflexivity. Qed.

Section Mon5.
  Variable sc : scenario.

  Theorem mon_C05_order_holds c0 : mon_C05_order sc c0 (run sc c0) = true.
  Proof.
    unfold mon_C05_order. cbv zeta.
    destruct (run_plan sc c0) as [[pl locals]|] eqn:RP.
    2:{ pose proof (auth_run sc c0) as NR. rewrite RP in NR. apply forallb_forall.
        intros [n it] Hin. cbn [snd]. destruct it as [r ok m st|?|?|]; try reflexivity.
        exfalso. destruct (index_from_split _ _ _ _ Hin) as [pre [post [E _]]]. apply (NR r ok m st). rewrite E.
        apply in_or_app. right. left. reflexivity. }
    rewrite (run_plan_plan_of sc c0 pl locals RP). apply forallb_forall.
    intros [n it] Hin. cbn [snd fst]. destruct it as [r ok m st|?|?|]; try reflexivity.
    destruct r as [| | | | | | |e u p]; try reflexivity.
    destruct (index_from_split _ _ _ _ Hin) as [pre [post [E En]]]. cbn [plus] in En. subst n.
    apply forallb_forall. intros d Hd.
    destruct (order_delete_filter sc c0 pl locals RP pre e u p ok m st post E) as [tbl [_ F]].
    destruct (F d Hd) as [_ [PI [_ [LP LW]]]]. apply andb_true_intro. split; [apply andb_true_intro; split|].
    - apply memn_In. exact PI.
    - destruct LP as [g [p1 [p2 [EP _]]]]. apply existsb_exists.
      exists (0 + length p1, IEv (EPrune g d AOk)). split.
      + rewrite E, EP, <- app_assoc. cbn [app]. apply index_from_mid.
      + cbn [snd fst]. rewrite Nat.eqb_refl. cbn [andb]. apply Nat.ltb_lt. rewrite EP, app_length. cbn. lia.
    - destruct (is_dry (o_dry (sc_opts sc))) eqn:ED; [reflexivity|]. cbn [orb].
      assert (DN : o_dry (sc_opts sc) = DNone) by (destruct (o_dry (sc_opts sc)); try discriminate; reflexivity).
      pose proof (filter_index_lt (isw d) pre (IReq (RDelete e u p) ok m st :: post) 0) as FE.
      cbn [plus] in FE. unfold isw in FE. rewrite E, FE.
      destruct (last_wait_monitor pre d WOk 0 (LW DN)) as [n' [g [rest EL]]]. unfold isw in EL. rewrite EL. reflexivity.
  Qed.
End Mon5.
