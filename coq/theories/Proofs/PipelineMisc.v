(* C12 (abort, timeouts) and C03 (retention equation) facts about the pipeline model. *)
From Coq Require Import List Bool Arith NArith ZArith Lia.
From CliUtils Require Import Model.ObjSet Model.ActuationTable Model.PipelineTypes Model.Pipeline
     Proofs.PipelineBase Proofs.PipelineEvents Proofs.PipelineAuth.
Import ListNotations.

(* ---- C12: abort ------------------------------------------------------------ *)
Section Abort.
  Variable sc : scenario.

  (* once the abort flag is set at the end of a task, no further task is
     started: the runner appends exactly one error event and stops *)
  Lemma abort_stops pl locals prev s t rest :
    r_abort (fst (run_task sc pl locals prev s t)) = true ->
    run_tasks sc pl locals prev s (t :: rest) = ev (fst (run_task sc pl locals prev s t)) EError.
  Proof.
    intros H. cbn [run_tasks]. destruct (run_task sc pl locals prev s t) as [s1 ok]. cbn [fst] in H.
    destruct (negb ok); [reflexivity|]. rewrite H. reflexivity.
  Qed.

  (* a failing task stops the run the same way *)
  Lemma task_error_stops pl locals prev s t rest :
    snd (run_task sc pl locals prev s t) = false ->
    run_tasks sc pl locals prev s (t :: rest) = ev (fst (run_task sc pl locals prev s t)) EError.
  Proof.
    intros H. cbn [run_tasks]. destruct (run_task sc pl locals prev s t) as [s1 ok]. cbn [fst snd] in *.
    subst ok. reflexivity.
  Qed.

  (* cancellation during the request of object i sets the flag *)
  Lemma maybe_cancel_sets s i : e_cancel (sc_env sc) = CDuringReq i -> r_abort (maybe_cancel sc s i) = true.
  Proof. intros E. unfold maybe_cancel. rewrite E, Nat.eqb_refl. reflexivity. Qed.

  (* a wait phase whose deliveries are exhausted with objects still pending
     and that is cancelled (or has no timeout) sets the flag; with a timeout
     it does not *)
  Lemma wait_timeout_abort g s w : r_abort (wait_timeout g s w) = r_abort s.
  Proof.
    unfold wait_timeout. generalize (w_pending w). intros l. revert s.
    induction l as [|i l IH]; intros s; cbn [fold_left]; [reflexivity|].
    rewrite IH. cbn. unfold rec_reconcile. destruct (set_reconcile _ _ _ _); reflexivity.
  Qed.
End Abort.

(* ---- C12: timeouts ----------------------------------------------------------- *)
Definition not_timeout (e : evt) : Prop := forall g i, e <> EWait g i WTimedOut.

Section Timeout.
  Variable sc : scenario.

  (* the timeout handler reports Timeout for exactly the pending objects, in order *)
  Lemma wait_timeout_events g s w :
    emits s (wait_timeout g s w) (map (fun i => EWait g i WTimedOut) (w_pending w)).
  Proof.
    unfold wait_timeout. generalize (w_pending w). intros l. revert s.
    induction l as [|i l IH]; intros s; cbn [fold_left map]; [apply emits_refl|].
    change (EWait g i WTimedOut :: map (fun i0 => EWait g i0 WTimedOut) l)
      with ([EWait g i WTimedOut] ++ map (fun i0 => EWait g i0 WTimedOut) l).
    eapply emits_trans; [|apply IH]. eapply emits_nil_l; [apply e_rec_reconcile|apply emits_ev].
  Qed.

  (* no other part of a wait phase reports Timeout *)
  Lemma nt_handle_changed_uid c g s i :
    exists st, emits s (handle_changed_uid c g s i) [EWait g i st] /\ st <> WTimedOut.
  Proof.
    unfold handle_changed_uid. destruct c; eexists; (split; [eapply emits_nil_l; [apply e_rec_reconcile|apply emits_ev]|discriminate]).
  Qed.

  Lemma nt_wait_start c g ids : forall s,
    exists es, emits s (fst (wait_start c g ids s)) es /\ Forall not_timeout es.
  Proof.
    intros s. unfold wait_start.
    set (stepf := fun (acc : rst * list id) (i : id) => _).
    assert (H : forall l acc, exists es, emits (fst acc) (fst (fold_left stepf l acc)) es /\ Forall not_timeout es).
    { induction l as [|i l IH]; intros acc; cbn [fold_left].
      - exists []. split; [apply emits_refl|constructor].
      - destruct (IH (stepf acc i)) as [es [E2 F2]].
        assert (E1 : exists st, emits (fst acc) (fst (stepf acc i)) [EWait g i st] /\ st <> WTimedOut).
        { destruct acc as [s0 pend]. unfold stepf. cbn [fst].
          destruct (w_skipped c s0 i); cbn [fst];
            [eexists; split; [eapply emits_nil_l; [apply e_rec_reconcile|apply emits_ev]|discriminate]|].
          destruct (changed_uid s0 i); cbn [fst]; [apply nt_handle_changed_uid|].
          destruct (cond_met c s0 i); cbn [fst]; eexists;
            (split; [eapply emits_nil_l; [apply e_rec_reconcile|apply emits_ev]|discriminate]). }
        destruct E1 as [st [E1 N1]]. exists (EWait g i st :: es). split.
        + exact (emits_trans _ _ _ [_] _ E1 E2).
        + constructor; [intros g' i' [= _ _ ->]; congruence|exact F2]. }
    specialize (H ids (s, [])). destruct (fold_left stepf ids (s, [])) as [s' pend]. exact H.
  Qed.

  Lemma nt_wait_update c g ids s w i :
    exists es, emits s (fst (wait_update c g ids s w i)) es /\ Forall not_timeout es.
  Proof.
    unfold wait_update.
    assert (H1 : forall r st, st <> WTimedOut ->
              exists es, emits s (ev (rec_reconcile s i r) (EWait g i st)) es /\ Forall not_timeout es).
    { intros r st N. exists [EWait g i st]. split; [eapply emits_nil_l; [apply e_rec_reconcile|apply emits_ev]|].
      constructor; [intros g' i' [= _ _ ->]; congruence|constructor]. }
    assert (H2 : exists es, emits s (handle_changed_uid c g s i) es /\ Forall not_timeout es).
    { destruct (nt_handle_changed_uid c g s i) as [st [E N]]. exists [EWait g i st]. split; [exact E|].
      constructor; [intros g' i' [= _ _ ->]; congruence|constructor]. }
    assert (H0 : exists es, emits s s es /\ Forall not_timeout es)
      by (exists []; split; [apply emits_refl|constructor]).
    repeat match goal with
           | |- context [if ?b then _ else _] => destruct b
           | |- context [match ?c with AllCurrent => _ | AllNotFound => _ end] => destruct c
           end; cbn [fst]; first [exact H0 | exact H2 | apply H1; discriminate].
  Qed.

  Lemma nt_deliver c g ids ds : forall s w,
    exists es, emits s (fst (deliver sc c g ids ds s w)) es /\ Forall not_timeout es.
  Proof.
    induction ds as [|d t IH]; intros s w; cbn [deliver].
    - exists []. split; [apply emits_refl|constructor].
    - destruct (w_pending w).
      + exists []. split; [apply emits_refl|constructor].
      + set (s2 := if o_status_events (sc_opts sc) then ev (emit s (IDeliv d)) (EStatus (s_id d) (s_st d)) else emit s (IDeliv d)).
        set (s3 := set_cache s2 (d :: r_cache s2)).
        assert (E3 : exists es, emits s s3 es /\ Forall not_timeout es).
        { unfold s3, s2. destruct (o_status_events (sc_opts sc)).
          - exists [EStatus (s_id d) (s_st d)]. split.
            + eapply emits_nil_r; [|apply emits_same; reflexivity].
              eapply emits_nil_l; [apply (emits_item_noev s (IDeliv d)); intros e; discriminate|apply emits_ev].
            + constructor; [intros g' i'; discriminate|constructor].
          - exists []. split; [|constructor].
            eapply emits_nil_r; [apply (emits_item_noev s (IDeliv d)); intros e; discriminate|apply emits_same; reflexivity]. }
        destruct E3 as [es3 [E3 F3]].
        destruct (memn (s_id d) ids).
        * destruct (nt_wait_update c g ids s3 w (s_id d)) as [es4 [E4 F4]].
          destruct (wait_update c g ids s3 w (s_id d)) as [s4 w4]. cbn [fst] in *.
          destruct (IH s4 w4) as [es5 [E5 F5]].
          exists (es3 ++ es4 ++ es5). split.
          -- eapply emits_trans; [exact E3|]. eapply emits_trans; [exact E4|exact E5].
          -- apply Forall_app. split; [exact F3|]. apply Forall_app. split; assumption.
        * destruct (IH s3 w) as [es5 [E5 F5]].
          exists (es3 ++ es5). split; [eapply emits_trans; [exact E3|exact E5]|apply Forall_app; split; assumption].
  Qed.

  (* the events of a wait phase: events that are not Timeout, followed either by
     nothing or - only when a timeout is configured for this kind of phase and
     the schedule lets it fire - by Timeout events for exactly the objects
     pending at that moment *)
  Lemma nt_wait_reset c ids s : emits s (wait_reset sc c ids s) [].
  Proof. apply emits_same. apply wait_reset_tr. Qed.

  Theorem wait_task_timeouts c g ids s :
    exists es1 es2, emits s (wait_task sc c g ids s) (es1 ++ es2) /\ Forall not_timeout es1 /\
      (es2 = [] \/
       (match c with AllCurrent => o_rec_timeout (sc_opts sc) | AllNotFound => o_prune_timeout (sc_opts sc) end = true /\
        exists pending, es2 = map (fun i => EWait g i WTimedOut) pending)).
  Proof.
    unfold wait_task. cbv zeta.
    destruct (nt_wait_start c g ids s) as [esA [EA FA]].
    destruct (wait_start c g ids s) as [s1 w1]. cbn [fst] in *.
    assert (NONE : forall s' esB, emits s1 s' esB -> Forall not_timeout esB ->
              exists es1 es2, emits s s' (es1 ++ es2) /\ Forall not_timeout es1 /\
                (es2 = [] \/ (match c with AllCurrent => o_rec_timeout (sc_opts sc) | AllNotFound => o_prune_timeout (sc_opts sc) end = true /\
                              exists pending, es2 = map (fun i => EWait g i WTimedOut) pending))).
    { intros s' esB EB FB. exists (esA ++ esB), []. rewrite app_nil_r. split; [exact (emits_trans _ _ _ _ _ EA EB)|].
      split; [apply Forall_app; split; assumption|left; reflexivity]. }
    destruct (w_pending w1); [apply (NONE _ []); [apply nt_wait_reset|constructor]|].
    destruct (match e_watch_err_at (sc_env sc) with Some n => Nat.eqb n (snd g) | None => false end);
      [apply (NONE _ []); [apply e_set_abort|constructor]|].
    destruct (nt_deliver c g ids (w_deliv (nth (snd g) (e_waits (sc_env sc)) (mkW [] WTimeout))) s1 w1) as [esB [EB FB]].
    destruct (deliver sc c g ids _ s1 w1) as [s2 w2]. cbn [fst] in *.
    destruct (w_pending w2) eqn:EP;
      [apply (NONE _ esB); [eapply emits_nil_r; [exact EB|apply nt_wait_reset]|exact FB]|]. cbv iota.
    destruct (w_end _).
    - destruct (match c with AllCurrent => _ | AllNotFound => _ end) eqn:HT.
      + exists (esA ++ esB), (map (fun i => EWait g i WTimedOut) (w_pending w2)). rewrite EP. rewrite <- EP. split.
        * rewrite <- app_assoc. eapply emits_trans; [exact EA|]. eapply emits_trans; [exact EB|].
          eapply emits_nil_r; [apply wait_timeout_events|apply nt_wait_reset].
        * split; [apply Forall_app; split; assumption|]. right. split; [reflexivity|eauto].
      + apply (NONE _ esB); [eapply emits_nil_r; [exact EB|apply e_set_abort]|exact FB].
    - apply (NONE _ esB); [eapply emits_nil_r; [exact EB|apply e_set_abort]|exact FB].
  Qed.
End Timeout.

(* ---- C03: the retention equation ------------------------------------------------ *)
Section Retention.
  (* membership characterisation of DeleteOrUpdateInvTask.updateInventory: the
     final inventory is (successful applies ∪ previously tracked objects whose
     apply or delete failed or was skipped or whose reconcile failed or timed
     out) minus abandoned objects, plus previously tracked invalid objects *)
  Lemma final_inventory_spec pl prev s i :
    In i (final_inventory pl prev s) <->
    ((In i (with_actuation (r_tbl s) SApply ASucceeded) \/
      (In i prev /\ (In i (with_actuation (r_tbl s) SApply AFailed) \/ In i (with_actuation (r_tbl s) SApply ASkipped) \/
                     In i (with_actuation (r_tbl s) SDelete AFailed) \/ In i (with_actuation (r_tbl s) SDelete ASkipped) \/
                     In i (with_reconcile (r_tbl s) RFailed) \/ In i (with_reconcile (r_tbl s) RTimeout))))
     /\ ~ In i (r_aband s))
    \/ (In i prev /\ In i (pl_invalid pl)).
  Proof.
    unfold final_inventory.
    rewrite unionn_In, intern_In, diffn_In.
    repeat (rewrite unionn_In; rewrite ?intern_In).
    tauto.
  Qed.

  (* successfully deleted or abandoned objects leave the inventory *)
  Lemma final_inventory_drops pl prev s i :
    ~ In i (pl_invalid pl) -> In i (r_aband s) -> ~ In i (final_inventory pl prev s).
  Proof. intros NI A H. apply final_inventory_spec in H. tauto. Qed.
End Retention.

Section Written.
  Variable sc : scenario.
  (* when the final replace writes, the stored inventory becomes exactly the
     (sorted) retention set *)
  Lemma inv_update_writes s ids s' :
    inv_update sc s ids = (s', true) -> inv (r_cl s') = Some (sortn ids).
  Proof.
    unfold inv_update. cbv zeta. destruct (faulted sc _).
    - intros H. inversion H.
    - cbn [r_cl]. destruct (inv (r_cl s)); intros H; inversion H; subst; reflexivity.
  Qed.
End Written.
