(* C01 (no orphans), part 1: the vocabulary of the proof.
   - the cluster as a finite map (find_obj / put_obj / del_obj), `managed` in terms of it;
   - the actuation table seen through `tv` (strategy, actuation, uid of the record of an id);
   - `tracked` / `J`: the property itself as a predicate on a cluster, and its
     equivalence with the executable `snap_ok` of Corr/CorrPipeline.v. *)
From Coq Require Import List Bool Arith NArith ZArith Lia Permutation.
From CliUtils Require Import Model.ObjSet Model.ActuationTable Model.PipelineTypes Model.Pipeline
     Proofs.ObjSetProofs Proofs.ActuationTableProofs Proofs.PipelineBase Proofs.PipelineAuth
     Corr.CorrPipeline.
Import ListNotations.

(* ---- sorting is a permutation ---------------------------------------------- *)
Lemma insn_perm x l : Permutation (insn x l) (x :: l).
Proof.
  induction l as [|h t IH]; cbn; [apply Permutation_refl|].
  destruct (Nat.leb x h); [apply Permutation_refl|].
  eapply Permutation_trans; [apply perm_skip; exact IH|apply perm_swap].
Qed.
Lemma sortn_perm l : Permutation (sortn l) l.
Proof.
  induction l as [|h t IH]; cbn; [constructor|].
  eapply Permutation_trans; [apply insn_perm|apply perm_skip; exact IH].
Qed.
Lemma sortn_NoDup l : NoDup l -> NoDup (sortn l).
Proof. intros H. eapply Permutation_NoDup; [apply Permutation_sym, sortn_perm|exact H]. Qed.

Lemma owner_eqb_eq a b : owner_eqb a b = true <-> a = b.
Proof. destruct a, b; cbn; split; congruence. Qed.

(* ---- the cluster as a finite map -------------------------------------------- *)
Definition fo (cl : cluster) (i : id) : option cobj := find_obj (objs cl) i.
Definition ids_of (cl : cluster) : list id := map c_id (objs cl).

Lemma find_obj_put l n j :
  find_obj (put_obj l n) j = if Nat.eqb (c_id n) j then Some n else find_obj l j.
Proof.
  induction l as [|c t IH]; cbn; [reflexivity|].
  destruct (Nat.eqb (c_id c) (c_id n)) eqn:E; cbn.
  - apply Nat.eqb_eq in E. rewrite E. destruct (Nat.eqb (c_id n) j); reflexivity.
  - rewrite IH. destruct (Nat.eqb (c_id c) j) eqn:E2; [|reflexivity].
    apply Nat.eqb_eq in E2. subst j. rewrite Nat.eqb_sym, E. reflexivity.
Qed.

Lemma put_obj_ids l n j : In j (map c_id (put_obj l n)) <-> j = c_id n \/ In j (map c_id l).
Proof.
  induction l as [|c t IH]; cbn; [intuition|].
  destruct (Nat.eqb (c_id c) (c_id n)) eqn:E; cbn.
  - apply Nat.eqb_eq in E. rewrite E. intuition.
  - rewrite IH. intuition.
Qed.

Lemma put_obj_NoDup l n : NoDup (map c_id l) -> NoDup (map c_id (put_obj l n)).
Proof.
  induction l as [|c t IH]; cbn; intros ND.
  - constructor; [intros []|constructor].
  - inversion ND as [|? ? Hc Ht]; subst.
    destruct (Nat.eqb (c_id c) (c_id n)) eqn:E; cbn.
    + apply Nat.eqb_eq in E. rewrite <- E. exact ND.
    + constructor; [|apply IH; exact Ht].
      rewrite put_obj_ids. intros [H|H]; [|contradiction].
      rewrite H, Nat.eqb_refl in E. discriminate.
Qed.

Lemma find_obj_del l i j :
  find_obj (del_obj l i) j = if Nat.eqb i j then None else find_obj l j.
Proof.
  unfold del_obj. induction l as [|c t IH]; cbn; [destruct (Nat.eqb i j); reflexivity|].
  destruct (Nat.eqb (c_id c) i) eqn:E; cbn.
  - rewrite IH. apply Nat.eqb_eq in E. rewrite E. destruct (Nat.eqb i j); reflexivity.
  - rewrite IH. destruct (Nat.eqb (c_id c) j) eqn:E2; [|reflexivity].
    apply Nat.eqb_eq in E2. subst j. rewrite Nat.eqb_sym, E. reflexivity.
Qed.

Lemma del_obj_NoDup l i : NoDup (map c_id l) -> NoDup (map c_id (del_obj l i)).
Proof.
  unfold del_obj. induction l as [|c t IH]; cbn; intros ND; [constructor|].
  inversion ND as [|? ? Hc Ht]; subst.
  destruct (negb (Nat.eqb (c_id c) i)); cbn; [|apply IH; exact Ht].
  constructor; [|apply IH; exact Ht].
  intros H. apply Hc. apply in_map_iff in H. destruct H as [x [E Hx]]. apply filter_In in Hx.
  apply in_map_iff. exists x. tauto.
Qed.

Lemma find_obj_In l i c : find_obj l i = Some c -> In c l.
Proof.
  induction l as [|x t IH]; cbn; [discriminate|].
  destruct (Nat.eqb (c_id x) i); [intros [= <-]; left; reflexivity|right; auto].
Qed.

Lemma In_find_obj l c : NoDup (map c_id l) -> In c l -> find_obj l (c_id c) = Some c.
Proof.
  induction l as [|x t IH]; cbn; intros ND H; [destruct H|].
  inversion ND as [|? ? Hx Ht]; subst.
  destruct H as [->|H]; [rewrite Nat.eqb_refl; reflexivity|].
  destruct (Nat.eqb (c_id x) (c_id c)) eqn:E; [|apply IH; assumption].
  apply Nat.eqb_eq in E. exfalso. apply Hx. rewrite E. apply in_map. exact H.
Qed.

Lemma find_obj_none l i : find_obj l i = None <-> ~ In i (map c_id l).
Proof.
  induction l as [|x t IH]; cbn; [tauto|].
  destruct (Nat.eqb (c_id x) i) eqn:E.
  - apply Nat.eqb_eq in E. split; [discriminate|]. intros H. exfalso. apply H. left. exact E.
  - rewrite IH. apply Nat.eqb_neq in E. tauto.
Qed.

Lemma managed_In cl i :
  In i (managed cl) <-> exists c, In c (objs cl) /\ c_owner c = OOurs /\ c_id c = i.
Proof.
  unfold managed. rewrite sortn_In, in_map_iff. split.
  - intros [c [E H]]. apply filter_In in H. destruct H as [H1 H2]. apply owner_eqb_eq in H2.
    exists c. auto.
  - intros [c [H1 [H2 E]]]. exists c. split; [exact E|]. apply filter_In. split; [exact H1|].
    apply owner_eqb_eq. exact H2.
Qed.

Lemma managed_fo cl i : NoDup (ids_of cl) -> In i (managed cl) ->
  exists c, fo cl i = Some c /\ c_owner c = OOurs.
Proof.
  intros ND H. apply managed_In in H. destruct H as [c [H1 [H2 <-]]].
  exists c. split; [apply In_find_obj; assumption|exact H2].
Qed.

Lemma fo_managed cl i c : fo cl i = Some c -> c_owner c = OOurs -> In i (managed cl).
Proof.
  intros H Ho. apply managed_In. exists c. split; [eapply find_obj_In; exact H|].
  split; [exact Ho|eapply find_obj_id; exact H].
Qed.

(* the canonical form keeps exactly the objects reachable by find_obj *)
Lemma managed_norm cl i : In i (managed (norm_cluster cl)) -> In i (managed cl).
Proof.
  intros H. apply managed_In in H. destruct H as [c [H1 [H2 H3]]].
  unfold norm_cluster in H1. cbn [objs] in H1. apply in_flat_map in H1. destruct H1 as [j [_ H1]].
  destruct (find_obj (objs cl) j) as [c'|] eqn:E; [|destruct H1].
  destruct H1 as [<-|[]]. apply managed_In. exists c'. split; [eapply find_obj_In; exact E|auto].
Qed.

(* ---- the actuation table through lookups ------------------------------------ *)
Definition tcore (r : rec id) : strategy * actuation * N := (r_str r, r_act r, r_uid r).
Definition tvl (t : table id) (i : id) : option (strategy * actuation * N) :=
  option_map tcore (lookup Nat.eqb t i).
Definition tv (s : rst) (i : id) := tvl (r_tbl s) i.
Notation tkeys := (keys id).

Lemma tvl_set_status t n j :
  tvl (set_status Nat.eqb t n) j = if Nat.eqb (r_id n) j then Some (tcore n) else tvl t j.
Proof.
  unfold tvl. rewrite (lookup_set_status id Nat.eqb nat_eqb_spec). unfold spec_set.
  unfold id in *. destruct (Nat.eqb (r_id n) j); reflexivity.
Qed.

Lemma tvl_set_reconcile t i rc t' : set_reconcile Nat.eqb t i rc = Some t' ->
  (forall j, tvl t' j = tvl t j) /\ tkeys t' = tkeys t.
Proof.
  intros E. pose proof (set_reconcile_some id Nat.eqb nat_eqb_spec t i rc) as H. unfold id in *. rewrite E in H.
  destruct H as [_ [H2 H3]]. split; [|exact H3].
  intros j. unfold tvl. rewrite H2. unfold spec_set_rec.
  destruct (Nat.eqb i j) eqn:Eij; [|reflexivity].
  apply Nat.eqb_eq in Eij. subst j. destruct (lookup Nat.eqb t i); reflexivity.
Qed.

Lemma with_actuation_tv t st a i : NoDup (tkeys t) ->
  (In i (with_actuation t st a) <-> exists u, tvl t i = Some (st, a, u)).
Proof.
  intros ND. rewrite (with_actuation_spec id Nat.eqb nat_eqb_spec) by exact ND. unfold tvl, id in *. split.
  - intros [r [E [<- <-]]]. exists (r_uid r). rewrite E. reflexivity.
  - intros [u E]. destruct (lookup Nat.eqb t i) as [r|]; [|discriminate].
    cbn in E. unfold tcore in E. injection E as E1 E2 E3. exists r. auto.
Qed.

Lemma applied_uids_tv t u : NoDup (tkeys t) -> In u (applied_uids t) ->
  exists i, tvl t i = Some (SApply, ASucceeded, u).
Proof.
  intros ND H. unfold applied_uids in H. apply in_map_iff in H. destruct H as [r [E Hr]].
  apply filter_In in Hr. destruct Hr as [Hr Hc].
  apply andb_true_iff in Hc. destruct Hc as [Hc _]. apply andb_true_iff in Hc. destruct Hc as [H1 H2].
  apply (strategy_eqb_eq) in H1. apply (actuation_eqb_eq) in H2.
  exists (r_id r). unfold tvl. pose proof (In_lookup id Nat.eqb nat_eqb_spec t r ND Hr) as L.
  unfold id in *. rewrite L. cbn. unfold tcore, id in *.
  rewrite H1, H2, E. reflexivity.
Qed.

Lemma tvl_none_keys t i : tvl t i = None <-> ~ In i (tkeys t).
Proof.
  unfold tvl. rewrite <- (lookup_None id Nat.eqb nat_eqb_spec). unfold id in *.
  destruct (lookup Nat.eqb t i); cbn; split; congruence.
Qed.

(* the reconcile field of the record of an id (the wait machine changes nothing else) *)
Definition rcl (t : table id) (i : id) : option reconcile := option_map r_rec (lookup Nat.eqb t i).
Definition rc (s : rst) (i : id) : option reconcile := rcl (r_tbl s) i.

Lemma rcl_set_status t n j :
  rcl (set_status Nat.eqb t n) j = if Nat.eqb (r_id n) j then Some (r_rec n) else rcl t j.
Proof.
  unfold rcl. rewrite (lookup_set_status id Nat.eqb nat_eqb_spec). unfold spec_set.
  unfold id in *. destruct (Nat.eqb (r_id n) j); reflexivity.
Qed.

Lemma rc_rec_reconcile s i r j :
  rc (rec_reconcile s i r) j = if Nat.eqb i j then option_map (fun _ => r) (rc s j) else rc s j.
Proof.
  unfold rec_reconcile, rc.
  pose proof (set_reconcile_some id Nat.eqb nat_eqb_spec (r_tbl s) i r) as H. unfold id in *.
  destruct (set_reconcile Nat.eqb (r_tbl s) i r) as [t|] eqn:E.
  - destruct H as [_ [H2 _]]. cbn [set_tbl r_tbl]. unfold rcl. rewrite H2. unfold spec_set_rec.
    destruct (Nat.eqb i j) eqn:Eij; [|reflexivity].
    apply Nat.eqb_eq in Eij. subst j. destruct (lookup Nat.eqb (r_tbl s) i); reflexivity.
  - destruct (Nat.eqb i j) eqn:Eij; [|reflexivity].
    apply Nat.eqb_eq in Eij. subst j. unfold rcl. rewrite H. reflexivity.
Qed.

Lemma rc_tv_some s j x : tv s j = Some x -> exists r, rc s j = Some r.
Proof.
  unfold tv, tvl, rc, rcl. destruct (lookup Nat.eqb (r_tbl s) j) as [r|]; [|discriminate].
  intros _. exists (r_rec r). reflexivity.
Qed.

Lemma with_reconcile_rc t r i : NoDup (tkeys t) -> (In i (with_reconcile t r) <-> rcl t i = Some r).
Proof.
  intros ND. rewrite (with_reconcile_spec id Nat.eqb nat_eqb_spec) by exact ND. unfold rcl, id in *. split.
  - intros [x [E <-]]. rewrite E. reflexivity.
  - intros E. destruct (lookup Nat.eqb t i) as [x|]; [|discriminate]. cbn in E. injection E as E. exists x. auto.
Qed.

(* ---- the property as a predicate on clusters --------------------------------- *)
Section Tracked.
  Variable sc : scenario.
  Variable c0 : cluster.

  Lemma exempt0_In i : In i (exempt0 c0) <-> In i (managed c0) /\ ~ In i (inv0 c0).
  Proof. unfold exempt0. rewrite diffn_In. reflexivity. Qed.

  (* i is accounted for in cluster cl *)
  Definition tracked (cl : cluster) (i : id) : Prop :=
    In i (exempt0 c0) \/
    match inv cl with
    | Some l => In i l
    | None => sc_inv_ns sc = Some i /\ inv c0 = None
    end.

  Definition J (cl : cluster) : Prop :=
    forall i c, fo cl i = Some c -> c_owner c = OOurs -> tracked cl i.

  Lemma J_snap cl : NoDup (ids_of cl) -> J cl -> snap_ok sc c0 (managed cl) (stored cl) = true.
  Proof.
    intros ND HJ. unfold snap_ok. apply forallb_forall. intros i Hi.
    destruct (managed_fo cl i ND Hi) as [c [Hc Ho]].
    destruct (HJ i c Hc Ho) as [H|H]; apply orb_true_iff.
    - left. apply memn_In. exact H.
    - right. unfold stored. destruct (inv cl) as [l|]; cbn.
      + apply memn_In, sortn_In. exact H.
      + destruct H as [H1 H2]. rewrite H1, H2. apply Nat.eqb_refl.
  Qed.

  (* owned before the run *)
  Definition owned0 (i : id) : Prop := exists c, fo c0 i = Some c /\ c_owner c = OOurs.

  Lemma owned0_exempt_or_prev i : owned0 i -> In i (exempt0 c0) \/ In i (inv0 c0).
  Proof.
    intros [c [Hc Ho]]. destruct (in_dec Nat.eq_dec i (inv0 c0)) as [H|H]; [right; exact H|left].
    apply exempt0_In. split; [eapply fo_managed; eassumption|exact H].
  Qed.

  (* the initial cluster satisfies the property *)
  Lemma J_c0 : J c0.
  Proof.
    intros i c Hc Ho. destruct (owned0_exempt_or_prev i) as [H|H]; [exists c; auto|left; exact H|].
    right. unfold inv0 in H. destruct (inv c0); [exact H|destruct H].
  Qed.

  (* the final outcome: the snapshot of the normalised cluster *)
  Lemma J_snap_norm cl : NoDup (ids_of cl) -> J cl ->
    snap_ok sc c0 (managed (norm_cluster cl)) (inv (norm_cluster cl)) = true.
  Proof.
    intros ND HJ. pose proof (J_snap cl ND HJ) as H. unfold snap_ok in *.
    rewrite forallb_forall in *. intros i Hi. cbn [norm_cluster inv]. apply H. apply managed_norm. exact Hi.
  Qed.
End Tracked.
