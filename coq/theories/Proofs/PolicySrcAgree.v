(* pkg/inventory/policy.go, translated from the Go AST on every run by harness/cmd/gentables
   (Generated/SourceTables.v: src_can_apply, src_can_prune, src_idmatch, the two iota blocks), agrees
   with the hand-written decision functions `can_apply` / `can_prune` of Model/Pipeline.v and with the
   three-valued owner abstraction (`owner`) of Model/PipelineTypes.v.  A change of a guard, of a
   case label, of a returned pair or of the constant order in the source changes the generated table
   and breaks `src_can_apply_agrees` / `src_can_prune_agrees` (imported by Properties/C02.v). *)
From Coq Require Import List Bool String.
From CliUtils Require Import Generated.SourceTables Model.PipelineTypes Model.Pipeline.
Import ListNotations.
Local Open Scope string_scope.

(* ---- the meaning of the table language --------------------------------------------------------- *)
Definition policy_of_name (s : string) : option policy :=
  if s =? "PolicyMustMatch" then Some PMustMatch
  else if s =? "PolicyAdoptIfNoInventory" then Some PAdoptIfNoInventory
  else if s =? "PolicyAdoptAll" then Some PAdoptAll
  else None.
Definition policy_eqb (a b : policy) : bool :=
  match a, b with
  | PMustMatch, PMustMatch | PAdoptIfNoInventory, PAdoptIfNoInventory | PAdoptAll, PAdoptAll => true
  | _, _ => false
  end.
Fixpoint eval_pexp (p : policy) (e : pexp) : option bool :=
  match e with
  | PEq c => option_map (policy_eqb p) (policy_of_name c)
  | PNe c => option_map (fun q => negb (policy_eqb p q)) (policy_of_name c)
  | POr a b => match eval_pexp p a, eval_pexp p b with Some x, Some y => Some (x || y) | _, _ => None end
  | PAnd a b => match eval_pexp p a, eval_pexp p b with Some x, Some y => Some (x && y) | _, _ => None end
  end.
(* the value of IDMatch for the three owner classes of the model: annotation absent, equal to this
   inventory's id, different *)
Definition status_name (ow : owner) : string :=
  match ow with ONone => "Empty" | OOurs => "Match" | OOther => "NoMatch" end.
Definition clause := (string * option pexp * (bool * bool))%type.
(* Go `switch tag { case L: body ... default: body }` with pairwise distinct constant labels: the clause
   whose label equals the tag runs, else the default clause, else nothing; a body is `return r` or
   `if guard { return r }`; when nothing returned, control reaches the statement after the switch *)
Definition run_clause (p : policy) (tl : bool * bool) (c : clause) : option (bool * bool) :=
  match c with
  | (_, None, r) => Some r
  | (_, Some g, r) => match eval_pexp p g with Some true => Some r | Some false => Some tl | None => None end
  end.
Definition eval_fn (f : list clause * (bool * bool)) (tag : string) (p : policy) : option (bool * bool) :=
  match find (fun c => fst (fst c) =? tag) (fst f) with
  | Some c => run_clause p (snd f) c
  | None =>
      match find (fun c => fst (fst c) =? "default") (fst f) with
      | Some c => run_clause p (snd f) c
      | None => Some (snd f)
      end
  end.
Fixpoint nodup_str (l : list string) : bool :=
  match l with [] => true | x :: t => negb (existsb (String.eqb x) t) && nodup_str t end.

(* ---- agreement ----------------------------------------------------------------------------------- *)
(* the constants are the ones the model names, pairwise distinct (one iota block each) *)
Lemma src_policy_constants :
  map policy_of_name src_policy_iota = [Some PMustMatch; Some PAdoptIfNoInventory; Some PAdoptAll]
  /\ nodup_str src_policy_iota = true.
Proof. split; reflexivity. Qed.
Lemma src_idmatch_constants :
  src_idmatch_iota = map status_name [ONone; OOurs; OOther] /\ nodup_str src_idmatch_iota = true.
Proof. split; reflexivity. Qed.
(* the case labels of both switches are pairwise distinct (Go requires it for constants; checked here
   because `eval_fn` takes the first match) and cover the three statuses *)
Lemma src_switch_labels :
  nodup_str (map (fun c : clause => fst (fst c)) (fst src_can_apply)) = true /\
  nodup_str (map (fun c : clause => fst (fst c)) (fst src_can_prune)) = true /\
  forallb (fun s => existsb (fun c : clause => fst (fst c) =? s) (fst src_can_apply)
                    && existsb (fun c : clause => fst (fst c) =? s) (fst src_can_prune)) src_idmatch_iota = true.
Proof. repeat split; reflexivity. Qed.
(* IDMatch: absent annotation -> Empty, equal to the inventory id -> Match, else NoMatch, read from the
   owning-inventory annotation *)
Lemma src_idmatch_agrees :
  src_idmatch = [("let", "annotations := obj.GetAnnotations()");
                 ("let", "value, found := annotations[OwningInventoryKey]");
                 ("!found", status_name ONone);
                 ("value == inv.ID()", status_name OOurs);
                 ("", status_name OOther)]
  /\ src_owning_inventory_key = "config.k8s.io/owning-inventory".
Proof. split; reflexivity. Qed.
(* CanApply / CanPrune: for every owner class and every policy the translated function returns
   (b, error is nil) with b = error-is-nil = the model's decision (the filters test the error only) *)
Lemma src_can_apply_agrees : forall sc ow,
  eval_fn src_can_apply (status_name ow) (o_policy (sc_opts sc)) = Some (can_apply sc ow, can_apply sc ow).
Proof. intros sc ow. unfold can_apply. destruct ow, (o_policy (sc_opts sc)); reflexivity. Qed.
Lemma src_can_prune_agrees : forall sc ow,
  eval_fn src_can_prune (status_name ow) (o_policy (sc_opts sc)) = Some (can_prune sc ow, can_prune sc ow).
Proof. intros sc ow. unfold can_prune. destruct ow, (o_policy (sc_opts sc)); reflexivity. Qed.

(* ---- the two filters that consult the policy (pkg/apply/filter) ------------------------------------
   Their Filter methods are emitted by the translator as statement trees (`fstmt`: assignments and returned
   expressions as rendered text; if / else and tagless switch as SIf).  The interpreter below knows exactly the
   conditions, assignments and returned expressions it lists and is STUCK on any other text (and on SBad), so a new
   branch in the source (for instance another error class treated like NotFound) breaks the agreement lemma instead
   of being ignored.  Environment: the policy, what the GET of the live object answers, the current value of `err`. *)
Inductive errst := ENil | ENotFound | EOtherErr | EPolicyErr.
Definition eval_cond (pol : policy) (e : errst) (c : string) : option bool :=
  if c =? "true" then Some true
  else if c =? "ipaf.InvPolicy == inventory.PolicyAdoptAll" then Some (policy_eqb pol PAdoptAll)
  else if c =? "ipaf.InvPolicy != inventory.PolicyAdoptAll" then Some (negb (policy_eqb pol PAdoptAll))
  else if c =? "err != nil" then Some (match e with ENil => false | _ => true end)
  else if c =? "err == nil" then Some (match e with ENil => true | _ => false end)
  else if c =? "apierrors.IsNotFound(err)" then Some (match e with ENotFound => true | _ => false end)
  else if c =? "!apierrors.IsNotFound(err)" then Some (match e with ENotFound => false | _ => true end)
  else None.
(* a returned value: nil passes; the error of CanApply/CanPrune is nil or a PolicyPreventedActuationError (the object
   is skipped); NewFatalError(...) ends the run.  Returning a read error unwrapped is not something the source does. *)
Definition eval_ret (e : errst) (t : string) : option fres :=
  if t =? "nil" then Some FPass
  else if t =? "NewFatalError" then Some FFatal
  else if t =? "err" then match e with ENil => Some FPass | EPolicyErr => Some FSkip | _ => None end
  else None.
(* g = the answer of the GET (None: the caller has not said; the interpreter then reports that it needs it).
   Small-step over the list of statements still to run; `fuel` bounds the steps (every step consumes a statement
   or opens one SIf, so the size of the tree suffices; running out of fuel is Stuck, excluded by the lemmas). *)
Inductive fout := FDone (r : fres) | FNeedGet | FStuck.
Fixpoint exec_filter_fuel (fuel : nat) (pol : policy) (g : option getres) (ow : option owner) (e : errst)
         (l : list fstmt) : fout :=
  match fuel with
  | 0 => FStuck
  | S fuel' =>
      match l with
      | [] => FStuck                                  (* a Go function with a result cannot fall off its end *)
      | SBad _ :: _ => FStuck
      | SRet t :: _ => match eval_ret e t with Some r => FDone r | None => FStuck end
      | SIf c th el :: rest =>
          match eval_cond pol e c with
          | Some true => exec_filter_fuel fuel' pol g ow e (th ++ rest)
          | Some false => exec_filter_fuel fuel' pol g ow e (el ++ rest)
          | None => FStuck
          end
      | SAssign t :: rest =>
          if t =? "clusterObj, err := ipaf.getObject(object.UnstructuredToObjMetadata(obj))" then
            match g with
            | None => FNeedGet
            | Some GFault => exec_filter_fuel fuel' pol g None EOtherErr rest
            | Some GNotFound => exec_filter_fuel fuel' pol g None ENotFound rest
            | Some (GFound c) => exec_filter_fuel fuel' pol g (Some (c_owner c)) ENil rest
            end
          else if t =? "_, err = inventory.CanApply(ipaf.Inv, clusterObj, ipaf.InvPolicy)" then
            match ow with
            | Some o => match eval_fn src_can_apply (status_name o) pol with
                        | Some (_, errnil) => exec_filter_fuel fuel' pol g ow (if errnil : bool then ENil else EPolicyErr) rest
                        | None => FStuck
                        end
            | None => FStuck                          (* CanApply on an object that was not read *)
            end
          else if t =? "_, err := inventory.CanPrune(ipf.Inv, obj, ipf.InvPolicy)" then
            match ow with
            | Some o => match eval_fn src_can_prune (status_name o) pol with
                        | Some (_, errnil) => exec_filter_fuel fuel' pol g ow (if errnil : bool then ENil else EPolicyErr) rest
                        | None => FStuck
                        end
            | None => FStuck
            end
          else FStuck
      end
  end.
Definition exec_filter := exec_filter_fuel 64.

(* InventoryPolicyApplyFilter.Filter = policy_apply_filter of the model: no GET under AdoptAll; otherwise one GET
   whose answer decides: a failed read is fatal WHATEVER the error, NotFound passes, a found object is judged by
   CanApply on its owner (through the translated CanApply, src_can_apply) *)
Lemma src_policy_apply_filter_agrees : forall sc s i,
  policy_apply_filter sc s i =
    match exec_filter (o_policy (sc_opts sc)) None None ENil src_policy_apply_filter with
    | FDone r => (s, r)
    | _ => let '(s1, g) := get_obj sc s i in
           (s1, match exec_filter (o_policy (sc_opts sc)) (Some g) None ENil src_policy_apply_filter with
                | FDone r => r
                | _ => FFatal
                end)
    end.
Proof.
  intros sc s i. unfold policy_apply_filter.
  destruct (o_policy (sc_opts sc)) eqn:P; cbn; try reflexivity;
    destruct (get_obj sc s i) as [s1 g]; destruct g as [| |c]; cbn; try reflexivity;
    unfold can_apply; rewrite P; destruct (c_owner c); reflexivity.
Qed.
(* and the interpreter is never stuck on the current source: every branch ends in a decision *)
Lemma src_policy_apply_filter_total : forall pol g,
  exists r, exec_filter pol (Some g) None ENil src_policy_apply_filter = FDone r.
Proof.
  intros pol g. destruct pol, g as [| |c]; cbn; try (eexists; reflexivity);
    destruct (c_owner c); cbn; eexists; reflexivity.
Qed.
(* InventoryPolicyPruneFilter.Filter on the object read at plan time = the second test of prune_filters *)
Lemma src_policy_prune_filter_agrees : forall sc (c : cobj),
  exec_filter (o_policy (sc_opts sc)) None (Some (c_owner c)) ENil src_policy_prune_filter
    = FDone (if can_prune sc (c_owner c) then FPass else FSkip).
Proof.
  intros sc c. unfold can_prune. destruct (o_policy (sc_opts sc)), (c_owner c); reflexivity.
Qed.

(* ---- the deletion-prevention annotations (pkg/common/common.go NoDeletion) ---------------------------
   `c_keep` / `l_keep` of the model stand for "carries a deletion-prevention annotation".  The harness spells such
   annotations with the library's own constants, so a changed constant would go unnoticed by the correspondence; the
   documented spellings are therefore pinned here against the translated constants and the key -> value map of NoDeletion:
   exactly  cli-utils.sigs.k8s.io/on-remove: keep  and  client.lifecycle.config.k8s.io/deletion: detach. *)
Definition src_const (n : string) : option string :=
  match find (fun kv => fst kv =? n) src_common_consts with Some kv => Some (snd kv) | None => None end.
Definition src_no_deletion (key value : string) : bool :=
  existsb (fun kv => match src_const (fst kv), src_const (snd kv) with
                     | Some k, Some v => (k =? key) && (v =? value)
                     | _, _ => false
                     end) src_no_deletion_map.
Lemma src_no_deletion_agrees : forall key value,
  src_no_deletion key value =
    ((key =? "client.lifecycle.config.k8s.io/deletion") && (value =? "detach"))
    || ((key =? "cli-utils.sigs.k8s.io/on-remove") && (value =? "keep")).
Proof.
  intros key value.
  change (src_no_deletion key value) with
    ((("client.lifecycle.config.k8s.io/deletion" =? key) && ("detach" =? value))
     || ((("cli-utils.sigs.k8s.io/on-remove" =? key) && ("keep" =? value)) || false)).
  rewrite (String.eqb_sym "client.lifecycle.config.k8s.io/deletion" key), (String.eqb_sym "detach" value),
          (String.eqb_sym "cli-utils.sigs.k8s.io/on-remove" key), (String.eqb_sym "keep" value).
  rewrite Bool.orb_false_r. reflexivity.
Qed.
Lemma src_no_deletion_shape :
  src_no_deletion_tail = ["if val, found := m[key]; found { return val == value }"; "return false"] /\
  forallb (fun kv => match src_const (fst kv), src_const (snd kv) with Some _, Some _ => true | _, _ => false end)
          src_no_deletion_map = true.
Proof. split; reflexivity. Qed.
Lemma src_annotation_keys :
  src_depends_on_annotation = "config.kubernetes.io/depends-on" /\
  src_mutation_annotation = "config.kubernetes.io/apply-time-mutation" /\
  src_const "InventoryLabel" = Some "cli-utils.sigs.k8s.io/inventory-id".
Proof. repeat split; reflexivity. Qed.
