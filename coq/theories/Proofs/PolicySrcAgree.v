(* pkg/inventory/policy.go, translated from the Go AST on every run by harness/cmd/gentables
   (Generated/SourceTables.v: src_can_apply, src_can_prune, src_idmatch, the two iota blocks), agrees
   with the hand-written decision functions `can_apply` / `can_prune` of Model/Pipeline.v and with the
   three-valued owner abstraction (`owner`) of Model/PipelineTypes.v.  A change of a guard, of a
   case label, of a returned pair or of the constant order in the source changes the generated table
   and breaks `src_can_apply_agrees` / `src_can_prune_agrees` (imported by Properties/C02.v). *)
From Coq Require Import List Bool String.
From CliUtils Require Import Generated.SourceTables Model.PipelineTypes Model.Pipeline.
Import ListNotations.
Local Open Scope string_scope.

(* ---- the meaning of the table language --------------------------------------------------------- *)
Definition policy_of_name (s : string) : option policy :=
  if s =? "PolicyMustMatch" then Some PMustMatch
  else if s =? "PolicyAdoptIfNoInventory" then Some PAdoptIfNoInventory
  else if s =? "PolicyAdoptAll" then Some PAdoptAll
  else None.
Definition policy_eqb (a b : policy) : bool :=
  match a, b with
  | PMustMatch, PMustMatch | PAdoptIfNoInventory, PAdoptIfNoInventory | PAdoptAll, PAdoptAll => true
  | _, _ => false
  end.
Fixpoint eval_pexp (p : policy) (e : pexp) : option bool :=
  match e with
  | PEq c => option_map (policy_eqb p) (policy_of_name c)
  | PNe c => option_map (fun q => negb (policy_eqb p q)) (policy_of_name c)
  | POr a b => match eval_pexp p a, eval_pexp p b with Some x, Some y => Some (x || y) | _, _ => None end
  | PAnd a b => match eval_pexp p a, eval_pexp p b with Some x, Some y => Some (x && y) | _, _ => None end
  end.
(* the value of IDMatch for the three owner classes of the model: annotation absent, equal to this
   inventory's id, different *)
Definition status_name (ow : owner) : string :=
  match ow with ONone => "Empty" | OOurs => "Match" | OOther => "NoMatch" end.
Definition clause := (string * option pexp * (bool * bool))%type.
(* Go `switch tag { case L: body ... default: body }` with pairwise distinct constant labels: the clause
   whose label equals the tag runs, else the default clause, else nothing; a body is `return r` or
   `if guard { return r }`; when nothing returned, control reaches the statement after the switch *)
Definition run_clause (p : policy) (tl : bool * bool) (c : clause) : option (bool * bool) :=
  match c with
  | (_, None, r) => Some r
  | (_, Some g, r) => match eval_pexp p g with Some true => Some r | Some false => Some tl | None => None end
  end.
Definition eval_fn (f : list clause * (bool * bool)) (tag : string) (p : policy) : option (bool * bool) :=
  match find (fun c => fst (fst c) =? tag) (fst f) with
  | Some c => run_clause p (snd f) c
  | None =>
      match find (fun c => fst (fst c) =? "default") (fst f) with
      | Some c => run_clause p (snd f) c
      | None => Some (snd f)
      end
  end.
Fixpoint nodup_str (l : list string) : bool :=
  match l with [] => true | x :: t => negb (existsb (String.eqb x) t) && nodup_str t end.

(* ---- agreement ----------------------------------------------------------------------------------- *)
(* the constants are the ones the model names, pairwise distinct (one iota block each) *)
Lemma src_policy_constants :
  map policy_of_name src_policy_iota = [Some PMustMatch; Some PAdoptIfNoInventory; Some PAdoptAll]
  /\ nodup_str src_policy_iota = true.
Proof. split; reflexivity. Qed.
Lemma src_idmatch_constants :
  src_idmatch_iota = map status_name [ONone; OOurs; OOther] /\ nodup_str src_idmatch_iota = true.
Proof. split; reflexivity. Qed.
(* the case labels of both switches are pairwise distinct (Go requires it for constants; checked here
   because `eval_fn` takes the first match) and cover the three statuses *)
Lemma src_switch_labels :
  nodup_str (map (fun c : clause => fst (fst c)) (fst src_can_apply)) = true /\
  nodup_str (map (fun c : clause => fst (fst c)) (fst src_can_prune)) = true /\
  forallb (fun s => existsb (fun c : clause => fst (fst c) =? s) (fst src_can_apply)
                    && existsb (fun c : clause => fst (fst c) =? s) (fst src_can_prune)) src_idmatch_iota = true.
Proof. repeat split; reflexivity. Qed.
(* IDMatch: absent annotation -> Empty, equal to the inventory id -> Match, else NoMatch, read from the
   owning-inventory annotation *)
Lemma src_idmatch_agrees :
  src_idmatch = [("let", "annotations := obj.GetAnnotations()");
                 ("let", "value, found := annotations[OwningInventoryKey]");
                 ("!found", status_name ONone);
                 ("value == inv.ID()", status_name OOurs);
                 ("", status_name OOther)]
  /\ src_owning_inventory_key = "config.k8s.io/owning-inventory".
Proof. split; reflexivity. Qed.
(* CanApply / CanPrune: for every owner class and every policy the translated function returns
   (b, error is nil) with b = error-is-nil = the model's decision (the filters test the error only) *)
Lemma src_can_apply_agrees : forall sc ow,
  eval_fn src_can_apply (status_name ow) (o_policy (sc_opts sc)) = Some (can_apply sc ow, can_apply sc ow).
Proof. intros sc ow. unfold can_apply. destruct ow, (o_policy (sc_opts sc)); reflexivity. Qed.
Lemma src_can_prune_agrees : forall sc ow,
  eval_fn src_can_prune (status_name ow) (o_policy (sc_opts sc)) = Some (can_prune sc ow, can_prune sc ow).
Proof. intros sc ow. unfold can_prune. destruct ow, (o_policy (sc_opts sc)); reflexivity. Qed.
