(* The constant tables of the hand-written models are exactly the tables that
   harness/cmd/gentables extracts from the Go sources on every run
   (Generated/SourceTables.v).  A change of one of these tables in the source
   makes this file fail to compile, which breaks the proof obligations of the
   properties that import it (C14, C08/C07/C09, C15). *)
From Coq Require Import List Bool String.
From CliUtils Require Import Generated.SourceTables Model.ObjId Model.KStatus Model.IdCodec Model.DependsOnCodec.
Import ListNotations.
Local Open Scope string_scope.

(* ---- pkg/ordering: kind order tables (C14) -------------------------------- *)
Lemma order_tables_from_source : order_first = src_order_first /\ order_last = src_order_last.
Proof. split; reflexivity. Qed.

(* ---- pkg/kstatus/status: legacyTypes dispatch (C07, C08, C09) ---------------- *)
Definition legacy_of_fn (fn : string) : option legacy :=
  if fn =? "serviceConditions" then Some LService
  else if fn =? "podConditions" then Some LPod
  else if fn =? "alwaysReady" then Some LAlwaysReady
  else if fn =? "pvcConditions" then Some LPvc
  else if fn =? "stsConditions" then Some LSts
  else if fn =? "daemonsetConditions" then Some LDaemonSet
  else if fn =? "deploymentConditions" then Some LDeployment
  else if fn =? "replicasetConditions" then Some LReplicaSet
  else if fn =? "pdbConditions" then Some LPdb
  else if fn =? "jobConditions" then Some LJob
  else if fn =? "crdConditions" then Some LCrd
  else None.

Fixpoint assoc (key : string) (l : list (string * string)) : option string :=
  match l with
  | [] => None
  | (k, v) :: t => if key =? k then Some v else assoc key t
  end.

Lemma legacy_dispatch_from_source : forall key,
  legacy_of_key key = match assoc key src_legacy_types with Some fn => legacy_of_fn fn | None => None end.
Proof.
  intros key. unfold legacy_of_key, src_legacy_types. cbn [assoc].
  repeat match goal with
         | |- context [String.eqb key ?s] =>
             destruct (String.eqb_spec key s) as [->|?]; cbn; try reflexivity
         end.
Qed.

(* every table entry names a rule function the model knows *)
Lemma legacy_functions_known :
  forallb (fun kv => match legacy_of_fn (snd kv) with Some _ => true | None => false end) src_legacy_types = true.
Proof. reflexivity. Qed.

(* ---- pkg/object: RBAC kinds and separators (C15) ----------------------------- *)
Lemma rbac_kinds_from_source : forall g k,
  is_rbac g k = existsb (fun p => String.eqb g (fst p) && String.eqb k (snd p)) src_rbac_group_kinds.
Proof.
  intros g k. unfold is_rbac, src_rbac_group_kinds, rbac_group. cbn [existsb fst snd].
  destruct (String.eqb g "rbac.authorization.k8s.io"); cbn; [|reflexivity].
  destruct (String.eqb k "Role"), (String.eqb k "ClusterRole"), (String.eqb k "RoleBinding"),
    (String.eqb k "ClusterRoleBinding"); reflexivity.
Qed.

Lemma separators_from_source :
  field_separator = src_field_separator /\ colon_transcoded = src_colon_transcoded /\
  annotation_separator = src_dep_annotationSeparator /\ dep_field_separator = src_dep_fieldSeparator /\
  namespaces_field = src_dep_namespacesField.
Proof. repeat split; reflexivity. Qed.
