(* C03 over the pipeline model, packaged: the monitor theorem `monitor_C03`
   (Proofs/PipelineMonC03.v) discharges the explicit premise of the fixpoint
   theorems of Proofs/PipelineMonC03Fix.v.

   C03_monitor            mon_C03 holds of every run of the model from a WF start state.
   C03_fixpoint_model     after a clean run (not destroy, not dry, no error event, no failed /
                          skipped apply or prune event, no failed / timed-out / skipped wait event)
                          of a client-side apply whose plan has no invalid object, from a WF cluster
                          whose stored key list is duplicate-free, running the SAME scenario again
                          from the final cluster logs only requests accepted by the fixpoint clause
                          of `c03_fixpoint` (no RCreate / RDelete / RInvCreate / RInvDelete, RNsCreate
                          only rejected, RInvUpdate only with the stored keys) and leaves the stored
                          inventory unchanged; NOTHING is assumed about the second run (its faults, wait
                          schedules, cancellation come from `sc_env sc`; it may even end with an error).
   C03_fixpoint_two       the same with a second scenario that only shares the manifest ids.
   C03_fixpoint_requests  the reading "no create / delete request, inventory Leibniz-equal".
   C03_fixpoint_monitor   the executable `c03_fixpoint` accepts the model's own two-run history (its `same`
                          test compares the manifests attribute by attribute, including l_baddep / l_finv,
                          and the pruning options, so these are no premises).
   The two hypotheses `pl_invalid (plan_of sc c0) = []` and `NoDup (prev_of c0)` are forced by the
   proof (see the header of PipelineMonC03Fix.v); no counterexample for the same-scenario statement
   without them is known (Coq-side fuzz, 9000 cases). *)
From Coq Require Import List Bool Arith NArith ZArith.
From CliUtils Require Import Model.ObjSet Model.ActuationTable Model.PipelineTypes Model.Pipeline
     Corr.CorrPipeline Proofs.PipelineOrphansRun Proofs.PipelineMonBase
     Proofs.PipelineMonC03 Proofs.PipelineMonC03FixA Proofs.PipelineMonC03Fix.
Import ListNotations.

Theorem C03_monitor : forall sc c0, WF sc c0 -> mon_C03 sc c0 (run sc c0) = true.
Proof. exact monitor_C03. Qed.

Theorem C03_fixpoint_model : forall sc c0,
  WF sc c0 ->
  clean_run sc (run sc c0) = true ->
  o_ssa (sc_opts sc) = false ->
  pl_invalid (plan_of sc c0) = [] ->
  NoDup (prev_of c0) ->
  fix_ok (out_final (run sc c0)) (run sc (out_final (run sc c0))) = true.
Proof. exact (fixpoint_model monitor_C03). Qed.

Theorem C03_fixpoint_model_exit_early : forall sc c0,
  WF sc c0 ->
  clean_run sc (run sc c0) = true ->
  o_ssa (sc_opts sc) = false ->
  o_valpol (sc_opts sc) = VExitEarly ->
  NoDup (prev_of c0) ->
  fix_ok (out_final (run sc c0)) (run sc (out_final (run sc c0))) = true.
Proof. exact (fixpoint_model_exit_early monitor_C03). Qed.

Theorem C03_fixpoint_two : forall sc1 sc2 c0,
  WF sc1 c0 ->
  clean_run sc1 (run sc1 c0) = true ->
  pl_invalid (plan_of sc1 c0) = [] ->
  NoDup (prev_of c0) ->
  fix_opts sc2 = true ->
  map l_id (sc_local sc2) = map l_id (sc_local sc1) ->
  (o_prune (sc_opts sc2) = true -> o_prune (sc_opts sc1) = true) ->
  sc_univ sc2 = sc_univ sc1 ->
  fix_ok (out_final (run sc1 c0)) (run sc2 (out_final (run sc1 c0))) = true.
Proof. exact (fixpoint_two monitor_C03). Qed.

Theorem C03_fixpoint_requests : forall sc c0,
  WF sc c0 -> clean_run sc (run sc c0) = true -> o_ssa (sc_opts sc) = false ->
  pl_invalid (plan_of sc c0) = [] -> NoDup (prev_of c0) ->
  let c1 := out_final (run sc c0) in
  (forall r ok, In (r, ok) (reqs (out_trace (run sc c1))) ->
     match r with RCreate _ _ | RDelete _ _ _ | RInvCreate _ | RInvDelete => False | _ => True end) /\
  inv (out_final (run sc c1)) = inv c1.
Proof. exact (fixpoint_no_create_delete monitor_C03). Qed.

Theorem C03_fixpoint_monitor : forall sc1 sc2 c0,
  WF sc1 c0 -> pl_invalid (plan_of sc1 c0) = [] -> NoDup (prev_of c0) -> sc_univ sc2 = sc_univ sc1 ->
  c03_fixpoint c0 [(sc1, run sc1 c0); (sc2, run sc2 (out_final (run sc1 c0)))] = true.
Proof. exact (fixpoint_monitor monitor_C03). Qed.

Print Assumptions C03_monitor.
Print Assumptions C03_fixpoint_model.
Print Assumptions C03_fixpoint_model_exit_early.
Print Assumptions C03_fixpoint_two.
Print Assumptions C03_fixpoint_requests.
Print Assumptions C03_fixpoint_monitor.

(* the hypotheses of the fixpoint theorems are satisfiable together (two manifest objects, one of them
   created by the first run, and a tracked object pruned by it) *)
Example C03_fixpoint_nonvacuous :
  WF (fix_ex_sc true) fix_ex_c0 /\
  clean_run (fix_ex_sc true) (run (fix_ex_sc true) fix_ex_c0) = true /\
  o_ssa (sc_opts (fix_ex_sc true)) = false /\
  pl_invalid (plan_of (fix_ex_sc true) fix_ex_c0) = [] /\
  NoDup (prev_of fix_ex_c0).
Proof.
  split; [apply fix_ex_WF|]. split; [vm_compute; reflexivity|]. split; [reflexivity|]. split; [vm_compute; reflexivity|].
  cbn. repeat (constructor; [cbn; intros H; repeat (destruct H as [H|H]; [discriminate|]); exact H|]). constructor.
Qed.
