(* C03, fixpoint part, file B: a whole apply run from a stable cluster.

   `stable_run_state` : if the stored inventory of c1 is the sorted duplicate-free
   list L, every apply id of the plan of the run is in L and live in c1, every
   key of L that is not a manifest id is live in c1 AND OF A KIND KNOWN IN c1
   (dyn: hypothesis HK, new with dynamic type knowledge) and (when pruning is
   enabled) the plan has no valid prune object, then a non-dry client-side apply
   run from c1 logs only requests accepted by the fixpoint clause and leaves the
   stored inventory equal to L.  No hypothesis on the faults, wait schedules or
   cancellation of that run: it may end with an error.
   `stable_run_state_simple` : the same from the simpler premises "every key of L
   is live, every manifest id is in L, and with pruning L holds only manifest ids"
   (dyn: plus "every key of L outside the manifest has a kind known in c1").

   The inventory-set task needs the retention table to give back L: invariant
   `TI` on the actuation table (every id of an apply task already run has an
   apply record that is not pending; the keys of L that are not manifest ids are
   registered as skipped deletes; every record is for a key of L). *)
From Coq Require Import List Bool Arith NArith ZArith Lia Permutation.
From CliUtils Require Import Model.ObjSet Model.ActuationTable Model.PipelineTypes Model.Pipeline
     Proofs.ObjSetProofs Proofs.ActuationTableProofs Proofs.PipelineBase Proofs.PipelineAuth Proofs.PipelineEvents
     Proofs.PipelineMisc Corr.CorrPipeline Proofs.PipelineOrphansBase Proofs.PipelineOrphansSpec
     Proofs.PipelineOrphansInv Proofs.PipelineOrphansPlan Proofs.PipelineMonBase Proofs.PipelineMonC13
     Proofs.PipelineMonC02a Proofs.PipelineMonC12Wait Proofs.PipelineMonC03FixA.
Import ListNotations.

(* tasks other than prune and inventory-set *)
Definition nps (t : task) : Prop := match t with TPrune _ _ | TInvSet => False | _ => True end.

Lemma apply_tasks_nps sc layers : forall ka kw, Forall nps (fst (apply_tasks sc ka kw layers)).
Proof.
  induction layers as [|l t IH]; intros ka kw; cbn [apply_tasks]; [constructor|].
  destruct (is_dry _).
  - specialize (IH (S ka) kw). destruct (apply_tasks sc (S ka) kw t) as [ts kw']. cbn [fst] in *.
    constructor; [exact I|exact IH].
  - specialize (IH (S ka) (S kw)). destruct (apply_tasks sc (S ka) (S kw) t) as [ts kw']. cbn [fst] in *.
    constructor; [exact I|]. constructor; [exact I|exact IH].
Qed.

Lemma tasks_of_no_prune sc pl : o_destroy (sc_opts sc) = false ->
  (o_prune (sc_opts sc) = true -> pl_prune pl = []) ->
  exists pre, tasks_of sc pl = pre ++ [TInvSet] /\ Forall nps pre.
Proof.
  intros D P. unfold tasks_of. rewrite D.
  assert (A : Forall nps (fst (match pl_apply pl with [] => ([], 0) | _ => apply_tasks sc 0 0 (pl_apply_layers pl) end))).
  { destruct (pl_apply pl); [constructor|apply apply_tasks_nps]. }
  destruct (match pl_apply pl with [] => ([], 0) | _ => apply_tasks sc 0 0 (pl_apply_layers pl) end) as [at_ kw].
  cbn [fst] in A.
  assert (E : (if o_prune (sc_opts sc) then match pl_prune pl with [] => [] | _ => prune_tasks sc 0 kw (pl_prune_layers pl) end else []) = []).
  { destruct (o_prune (sc_opts sc)); [|reflexivity]. rewrite (P eq_refl). reflexivity. }
  rewrite E. exists ([TInvAdd] ++ at_). split; [cbn; reflexivity|].
  constructor; [exact I|exact A].
Qed.

Section Run2.
  Variable sc : scenario.
  Variable c1 : cluster.
  Variable L : list id.
  Hypothesis HO1 : o_destroy (sc_opts sc) = false.
  Hypothesis HO2 : is_dry (o_dry (sc_opts sc)) = false.
  Hypothesis HO3 : o_ssa (sc_opts sc) = false.
  Hypothesis HS : sorted_n L.
  Hypothesis HN : NoDup L.
  Hypothesis HND : NoDup (map l_id (sc_local sc)).
  Hypothesis HI : inv c1 = Some L.
  Notation pl := (plan_of sc c1).
  Notation lids := (map l_id (sc_local sc)).
  (* the apply ids of the plan are tracked and live *)
  Hypothesis HA : forall i, In i (apply_ids pl) -> In i L /\ fo c1 i <> None.
  (* tracked ids outside the manifest are live (so they are all fetched as prune candidates) *)
  Hypothesis HX : forall i, In i L -> ~ In i lids -> fo c1 i <> None.
  (* dyn: NEW hypothesis.  A tracked id outside the manifest must have a kind the mapper knows at the
     start of the run (its CRD is live in c1): otherwise it is not fetched as a prune candidate
     (fetch_all / plan_of skip it), it gets no record and is not invalid, so the retention table drops
     it and the inventory-set task writes L without it (RInvUpdate l with l <> L).
     Example: o_prune = false, L = [0; 1], manifest = [0], object 1 live with u_crd = Some 2 and
     CRD 2 not live in c1: the run ends with RInvUpdate [0]. *)
  Hypothesis HK : forall i, In i L -> ~ In i lids -> kind_known sc (live_crds sc c1) i = true.
  (* with pruning enabled no prune candidate is valid *)
  Hypothesis HP : o_prune (sc_opts sc) = true -> pl_prune pl = [].

  Notation Good := (Good L (apply_ids pl)).
  Notation Qf := (Qf L).
  Notation fstep := (fstep L (apply_ids pl)).

  Lemma locals_of_eq : locals_of sc = sc_local sc.
  Proof. unfold locals_of. rewrite HO1. reflexivity. Qed.
  Lemma lnd : locals_nodup sc.
  Proof. intros _. exact HND. Qed.
  Lemma prev_eq : prev_of c1 = L.
  Proof. unfold prev_of. rewrite HI. reflexivity. Qed.

  (* ---- the plan of the second run ------------------------------------------------------------ *)
  Lemma apply_ids_local i : In i (apply_ids pl) -> In i lids.
  Proof.
    intros H. unfold apply_ids in H. apply in_map_iff in H. destruct H as [p [<- Hp]].
    rewrite plan_of_eq in Hp. destruct (bp_apply_is_local sc _ _ _ p Hp) as [l [-> Hl]].
    rewrite locals_of_eq in Hl. cbn. apply in_map. exact Hl.
  Qed.
  Lemma apply_ids_L i : In i (apply_ids pl) -> In i L.
  Proof. intros H. apply HA, H. Qed.

  Lemma cand_In i : In i (cand_of sc c1) <-> In i L /\ ~ In i lids.
  Proof. unfold cand_of. rewrite sortn_In, diffn_In, prev_eq, locals_of_eq. reflexivity. Qed.

  Lemma prune_all_ids i : In i (map p_id (pl_prune_all pl)) <-> In i L /\ ~ In i lids.
  Proof.
    rewrite plan_of_eq, bp_prune_all_eq. unfold pruneA. rewrite map_map. cbn [pobj_of_live p_id].
    rewrite <- cand_In. split.
    - intros H. apply in_map_iff in H. destruct H as [c [<- Hc]]. apply found_in_In in Hc. tauto.
    - intros H. pose proof H as H'. apply cand_In in H'.
      destruct H' as [HiL HiN].
      destruct (fo c1 i) as [c|] eqn:E; [|exfalso; exact (HX i HiL HiN E)].
      apply in_map_iff. exists c. pose proof (find_obj_id _ _ _ E) as EI. split; [exact EI|].
      apply found_in_In_iff. rewrite EI. split; [exact H|]. split; [exact E|exact (HK i HiL HiN)].
  Qed.

  Lemma no_prune_objs : o_prune (sc_opts sc) = true -> pl_prune pl = [].
  Proof. exact HP. Qed.

  (* a tracked id outside the manifest is a fetched prune candidate: invalid when pruning is enabled *)
  Lemma nonlocal_invalid i : o_prune (sc_opts sc) = true -> In i L -> ~ In i lids -> In i (pl_invalid pl).
  Proof.
    intros P H1 H2. pose proof (proj2 (prune_all_ids i) (conj H1 H2)) as X.
    rewrite plan_of_eq, bp_prune_all_eq in X. unfold pruneA in X. rewrite map_map in X. cbn [pobj_of_live p_id] in X.
    apply in_map_iff in X. destruct X as [c [<- Hc]].
    destruct (bp_cover_prune sc (live_crds sc c1) (locals_of sc) (found_in sc c1 (cand_of sc c1)) c Hc) as [Y|Y].
    - rewrite plan_of_eq. exact Y.
    - rewrite <- plan_of_eq, (HP P) in Y. destruct Y.
  Qed.

  Lemma cover_local i : In i lids -> In i (apply_ids pl) \/ In i (pl_invalid pl).
  Proof. intros H. rewrite plan_of_eq. apply bp_cover_local. rewrite locals_of_eq. exact H. Qed.

  Lemma todo_apply i : In i (apply_ids pl) -> In i (todo_of (tasks_of sc pl)).
  Proof.
    intros H. rewrite plan_of_eq.
    apply (proj2 (tasks_todo sc (live_crds sc c1) (locals_of sc) (found_in sc c1 (cand_of sc c1))
                    (locals_of_NoDup sc lnd) (pobjs_NoDup sc c1) (pobjs_disj sc c1))).
    left. rewrite <- plan_of_eq. exact H.
  Qed.

  (* ---- the table invariant --------------------------------------------------------------------- *)
  Record TI (D : list id) (s : rst) : Prop := {
    T_keys : NoDup (tkeys (r_tbl s));
    T_ab : r_aband s = [];
    T_done : forall i, In i D -> exists a u, tv s i = Some (SApply, a, u) /\ a <> APending;
    T_skip : o_prune (sc_opts sc) = false -> forall i, In i L -> ~ In i lids -> tv s i = Some (SDelete, ASkipped, 0%N);
    T_sub : forall i st a u, tv s i = Some (st, a, u) -> In i L
  }.

  Lemma TI_tbl D s s' : r_tbl s' = r_tbl s -> r_aband s' = r_aband s -> TI D s -> TI D s'.
  Proof.
    intros ET EA [A1 A2 A3 A4 A5]. constructor; unfold tv in *; rewrite ?ET, ?EA; assumption.
  Qed.
  Lemma TI_ev D s e : TI D s -> TI D (ev s e).
  Proof. apply TI_tbl; reflexivity. Qed.
  Lemma TI_quiet D s s' : quiet s s' -> TI D s -> TI D s'.
  Proof.
    intros [_ [Q2 [Q3 [Q4 _]]]] [A1 A2 A3 A4 A5]. constructor.
    - rewrite Q3. exact A1.
    - rewrite Q2. exact A2.
    - intros i Hi. rewrite Q4. apply A3. exact Hi.
    - intros P i H1 H2. rewrite Q4. apply A4; assumption.
    - intros i st a u. rewrite Q4. apply A5.
  Qed.
  Lemma TI_incl D D' s : (forall i, In i D' -> In i D) -> TI D s -> TI D' s.
  Proof. intros H [A1 A2 A3 A4 A5]. constructor; auto. Qed.

  Lemma TI_apply_one D g s p : local_ok pl p -> p_local p <> None -> TI D s ->
    TI (p_id p :: D) (apply_one sc pl g s p).
  Proof.
    intros [Hin HL] NL [A1 A2 A3 A4 A5]. destruct (p_local p) as [l|] eqn:EL; [|congruence].
    destruct (apply_one_spec sc pl g s p l EL (HL l eq_refl)) as [SA [a [u [gen [lt [ST [_ [_ SO]]]]]]]]. cbv zeta in *.
    assert (NP : a <> APending).
    { destruct SO as [[[-> | ->] _]|[[-> _]|[-> _]]]; discriminate. }
    assert (TV : forall j, tv (apply_one sc pl g s p) j = if Nat.eqb (p_id p) j then Some (SApply, a, u) else tv s j).
    { intros j. unfold tv. rewrite ST, tvl_set_status. reflexivity. }
    constructor.
    - rewrite ST. apply (keys_set_status id Nat.eqb nat_eqb_spec). exact A1.
    - rewrite SA. exact A2.
    - intros i Hi. rewrite TV. destruct (Nat.eqb (p_id p) i) eqn:E.
      + exists a, u. split; [reflexivity|exact NP].
      + destruct Hi as [Hi|Hi]; [apply Nat.eqb_neq in E; contradiction|]. apply A3. exact Hi.
    - intros P i H1 H2. rewrite TV. destruct (Nat.eqb (p_id p) i) eqn:E; [|apply A4; assumption].
      apply Nat.eqb_eq in E. subst i. exfalso. apply H2. apply apply_ids_local. exact Hin.
    - intros i st a' u'. rewrite TV. destruct (Nat.eqb (p_id p) i) eqn:E; [|apply A5].
      apply Nat.eqb_eq in E. subst i. intros _. apply apply_ids_L. exact Hin.
  Qed.

  Lemma TI_apply_task g layer : Forall (local_ok pl) layer -> Forall (fun p => p_local p <> None) layer ->
    forall D s, TI D s -> TI (map p_id layer ++ D) (apply_task sc pl g s layer).
  Proof.
    unfold apply_task. induction layer as [|p t IH]; intros OK WFl D s T; cbn [fold_left map app]; [exact T|].
    inversion OK as [|? ? O1 O2]; subst. inversion WFl as [|? ? W1 W2]; subst.
    eapply TI_incl; [|apply (IH O2 W2 (p_id p :: D)); apply TI_apply_one; assumption].
    intros i [<-|Hi]; apply in_or_app; [right; left; reflexivity|].
    apply in_app_or in Hi. destruct Hi as [Hi|Hi]; [left; exact Hi|right; right; exact Hi].
  Qed.

  (* the retention table gives back L once every apply task has run *)
  Lemma fin_eq D s : TI D s -> (forall i, In i (apply_ids pl) -> In i D) ->
    sortn (final_inventory pl L s) = L.
  Proof.
    intros [A1 A2 A3 A4 A5] HD. rewrite <- (sortn_fix L HS) at 2. apply sortn_set_eq.
    - unfold final_inventory. apply (union_NoDup nat Nat.eqb nat_eqb_spec).
    - exact HN.
    - intros i. rewrite final_inventory_spec. rewrite A2. split.
      + intros [[[H|[H _]] _]|[H _]]; [|exact H|exact H].
        apply (with_actuation_tv _ _ _ _ A1) in H. destruct H as [u H]. exact (A5 _ _ _ _ H).
      + intros Hi. destruct (in_dec Nat.eq_dec i lids) as [Hl|Hl].
        * destruct (cover_local i Hl) as [Ha|Hv]; [|right; auto].
          left. split; [|intros []]. destruct (A3 i (HD i Ha)) as [a [u [E NP]]].
          assert (W : In i (with_actuation (r_tbl s) SApply a)) by (apply (with_actuation_tv _ _ _ _ A1); exists u; exact E).
          destruct a; [congruence|left; exact W|right; split; [exact Hi|right; left; exact W]|right; split; [exact Hi|left; exact W]].
        * destruct (Bool.bool_dec (o_prune (sc_opts sc)) true) as [EP|EP].
          { right. split; [exact Hi|]. apply nonlocal_invalid; assumption. }
          apply Bool.not_true_is_false in EP.
          left. split; [|intros []]. right. split; [exact Hi|]. right; right; right; left.
          apply (with_actuation_tv _ _ _ _ A1). exists 0%N. apply A4; auto.
  Qed.

  (* ---- one task ------------------------------------------------------------------------------------ *)
  Definition ok2 (t : task) : Prop := task_ok pl t /\ task_wf t /\ nps t.

  Lemma fstep_fin s s' : fstep s s' -> Good (r_cl s) -> Forall Qf (r_tr s) ->
    Good (r_cl s') /\ Forall Qf (r_tr s').
  Proof.
    intros F G T. destruct (F G) as [G' [l [E Fl]]]. split; [exact G'|]. rewrite E. apply Forall_app. split; assumption.
  Qed.

  Lemma r2_task prev s t D : ok2 t -> TI D s ->
    fstep s (fst (run_task sc pl (locals_of sc) prev s t)) /\
    TI (todo_of [t] ++ D) (fst (run_task sc pl (locals_of sc) prev s t)).
  Proof.
    intros [OK [WFt NP]] T. split.
    - apply (f_run_task sc L (apply_ids pl) HO1 HO2 HO3 HS HN pl); try assumption.
      + exact apply_ids_L.
      + auto.
      + exact (plan_of_local sc c1).
      + intros k l ->. exact NP.
      + intros ->. destruct NP.
    - unfold run_task. cbv zeta. pose proof (TI_ev D s (EStarted (task_name t)) T) as T0.
      destruct t as [|k layer|k c ids|k layer|]; cbn [task_ok task_wf nps todo_of flat_map app] in *.
      + destruct (inv_add_task_spec sc pl (ev s (EStarted (task_name TInvAdd))) (plan_of_local sc c1)) as [E1 [E2 _]].
        destruct (inv_add_task sc pl _) as [s1 ok]. cbn [fst] in *. apply TI_ev. eapply TI_tbl; eassumption.
      + cbn [fst]. rewrite app_nil_r. apply TI_ev. apply TI_apply_task; assumption.
      + cbn [fst]. apply TI_ev. eapply TI_quiet; [apply q_wait_task|exact T0].
      + destruct NP.
      + destruct NP.
  Qed.

  (* ---- the task list --------------------------------------------------------------------------------- *)
  Lemma r2_run_tasks prev : (prev = None \/ prev = Some L) -> forall pre, Forall ok2 pre ->
    forall s D, Good (r_cl s) -> Forall Qf (r_tr s) -> TI D s ->
      (forall i, In i (apply_ids pl) -> In i (D ++ todo_of pre)) ->
      Good (r_cl (run_tasks sc pl (locals_of sc) prev s (pre ++ [TInvSet]))) /\
      Forall Qf (r_tr (run_tasks sc pl (locals_of sc) prev s (pre ++ [TInvSet]))).
  Proof.
    intros HPV pre OKs. induction OKs as [|t rest Ot _ IH]; intros s D G FQ T HD; cbn [app run_tasks].
    - assert (F : fstep s (fst (run_task sc pl (locals_of sc) prev s TInvSet))).
      { apply (f_run_task sc L (apply_ids pl) HO1 HO2 HO3 HS HN pl).
        - exact apply_ids_L.
        - auto.
        - exact (plan_of_local sc c1).
        - exact I.
        - discriminate.
        - intros _ pv E. destruct HPV as [HPV|HPV]; [congruence|]. rewrite HPV in E. injection E as <-.
          apply (fin_eq D); [apply TI_ev; exact T|]. intros i Hi. specialize (HD i Hi). rewrite app_nil_r in HD. exact HD. }
      destruct (run_task sc pl (locals_of sc) prev s TInvSet) as [s1 ok]. cbn [fst] in F.
      destruct (fstep_fin _ _ F G FQ) as [G1 F1].
      assert (ER : Good (r_cl (ev s1 EError)) /\ Forall Qf (r_tr (ev s1 EError))).
      { split; [exact G1|]. cbn [ev emit r_tr]. constructor; [exact I|exact F1]. }
      destruct (negb ok); [exact ER|]. destruct (r_abort s1); [exact ER|]. split; assumption.
    - destruct (r2_task prev s t D Ot T) as [F T1].
      destruct (run_task sc pl (locals_of sc) prev s t) as [s1 ok]. cbn [fst] in F, T1.
      destruct (fstep_fin _ _ F G FQ) as [G1 F1].
      assert (ER : Good (r_cl (ev s1 EError)) /\ Forall Qf (r_tr (ev s1 EError))).
      { split; [exact G1|]. cbn [ev emit r_tr]. constructor; [exact I|exact F1]. }
      destruct (negb ok); [exact ER|]. destruct (r_abort s1); [exact ER|].
      apply (IH s1 (todo_of [t] ++ D) G1 F1 T1).
      intros i Hi. specialize (HD i Hi). apply in_app_or in HD. apply in_or_app. destruct HD as [HD|HD].
      + left. apply in_or_app. right. exact HD.
      + unfold todo_of in HD. cbn [flat_map] in HD. apply in_app_or in HD. destruct HD as [HD|HD].
        * left. apply in_or_app. left. unfold todo_of. cbn [flat_map]. rewrite app_nil_r. exact HD.
        * right. exact HD.
  Qed.

  (* ---- the state at the start of the task list ----------------------------------------------------- *)
  Lemma pre_tasks_fields s :
    r_cl (pre_tasks sc c1 s) = r_cl s /\ r_tbl (pre_tasks sc c1 s) = r_tbl s /\
    r_aband (pre_tasks sc c1 s) = r_aband s /\
    exists l, r_tr (pre_tasks sc c1 s) = l ++ r_tr s /\ Forall Qf l.
  Proof.
    unfold pre_tasks. cbn [ev emit r_cl r_tbl r_aband r_tr].
    generalize (pl_valerrs pl). intros errs.
    assert (H : forall s0, r_cl (fold_left (fun s e => ev s (EValidation (sortn e))) errs s0) = r_cl s0 /\
                           r_tbl (fold_left (fun s e => ev s (EValidation (sortn e))) errs s0) = r_tbl s0 /\
                           r_aband (fold_left (fun s e => ev s (EValidation (sortn e))) errs s0) = r_aband s0 /\
                           exists l, r_tr (fold_left (fun s e => ev s (EValidation (sortn e))) errs s0) = l ++ r_tr s0 /\ Forall Qf l).
    { induction errs as [|e t IH]; intros s0; cbn [fold_left].
      - repeat split. exists []. split; [reflexivity|constructor].
      - destruct (IH (ev s0 (EValidation (sortn e)))) as [A [B [C [l [E F]]]]]. cbn [ev emit r_cl r_tbl r_aband r_tr] in *.
        repeat (split; [assumption|]). exists (l ++ [IEv (EValidation (sortn e))]).
        split; [rewrite E, <- app_assoc; reflexivity|]. apply Forall_app. split; [exact F|]. constructor; [exact I|constructor]. }
    destruct (H s) as [A [B [C [l [E F]]]]]. repeat (split; [assumption|]).
    exists (IEv (init_ev sc c1) :: l). split; [rewrite E; reflexivity|]. constructor; [exact I|exact F].
  Qed.

  Lemma Good_c1 : Good c1.
  Proof. split; [exact HI|]. intros i Hi. apply HA, Hi. Qed.

  Lemma TI_start s4 : start_ok sc c1 s4 -> TI [] s4.
  Proof.
    intros SO. destruct (so_tbl _ _ _ SO) as [s2 [ET E4]].
    destruct (register_spec sc pl s2 ET) as [_ [_ [_ [K V]]]]. cbv zeta in *.
    assert (TV : forall j, tv s4 j = tv (register sc pl s2) j) by (intros j; unfold tv; rewrite E4; reflexivity).
    constructor.
    - rewrite E4. exact K.
    - exact (so_aband _ _ _ SO).
    - intros i [].
    - intros P i H1 H2. rewrite TV, V, HO1, P. cbn [negb andb].
      rewrite (proj2 (memn_In i (map p_id (pl_prune_all pl))) (proj2 (prune_all_ids i) (conj H1 H2))). reflexivity.
    - intros i st a u. rewrite TV, V.
      destruct (negb (o_destroy (sc_opts sc)) && negb (o_prune (sc_opts sc)) && memn i (map p_id (pl_prune_all pl))) eqn:E1.
      { intros _. apply andb_true_iff in E1. destruct E1 as [_ E1]. apply memn_In in E1. apply prune_all_ids in E1. tauto. }
      destruct (o_prune (sc_opts sc) && memn i (map p_id (pl_prune pl))) eqn:E2.
      { intros _. apply andb_true_iff in E2. destruct E2 as [EP E2]. rewrite (no_prune_objs EP) in E2. discriminate. }
      destruct (memn i (apply_ids pl)) eqn:E3; [|discriminate]. intros _. apply memn_In in E3. apply apply_ids_L. exact E3.
  Qed.

  (* ---- the whole run ---------------------------------------------------------------------------------- *)
  Theorem stable_run_state :
    Good (r_cl (run_state sc c1)) /\ Forall Qf (r_tr (run_state sc c1)).
  Proof.
    assert (ERR : forall s, r_cl s = c1 -> r_tr s = [] ->
              Good (r_cl (ev s EError)) /\ Forall Qf (r_tr (ev s EError))).
    { intros s C T. cbn [ev emit r_cl r_tr]. rewrite C, T. split; [exact Good_c1|]. constructor; [exact I|constructor]. }
    destruct (run_state_shape sc c1) as [s C T|s C T _ _|s4 SO _ _|s4 prev SO _ _ HPV].
    - apply ERR; assumption.
    - apply ERR; assumption.
    - destruct (pre_tasks_fields s4) as [A [_ [_ [l [E F]]]]]. cbn [ev emit r_cl r_tr]. rewrite A, (so_cl _ _ _ SO).
      split; [exact Good_c1|]. constructor; [exact I|]. rewrite E, (so_tr _ _ _ SO), app_nil_r. exact F.
    - destruct (pre_tasks_fields s4) as [A [B [C [l [E F]]]]].
      destruct (tasks_of_no_prune sc pl HO1 no_prune_objs) as [pre [ET NPS]]. rewrite ET.
      apply (r2_run_tasks prev) with (D := []).
      + rewrite prev_eq in HPV. exact HPV.
      + pose proof (plan_of_tasks_ok sc c1) as OK. pose proof (tasks_of_wf' sc c1) as WFt. rewrite ET in OK, WFt.
        apply Forall_app in OK. apply Forall_app in WFt. destruct OK as [OK _]. destruct WFt as [WFt _].
        rewrite Forall_forall in *. intros t Ht. split; [apply OK; exact Ht|]. split; [apply WFt; exact Ht|apply NPS; exact Ht].
      + rewrite A, (so_cl _ _ _ SO). exact Good_c1.
      + rewrite E, (so_tr _ _ _ SO), app_nil_r. exact F.
      + eapply TI_tbl; [exact B|exact C|]. apply TI_start. exact SO.
      + intros i Hi. cbn [app]. pose proof (todo_apply i Hi) as X. rewrite ET in X.
        unfold todo_of in *. rewrite flat_map_app in X. cbn [flat_map] in X. rewrite app_nil_r in X. exact X.
  Qed.
End Run2.

(* ---- the simpler premises: L is live, holds the manifest ids, and only them when pruning ------------ *)
Theorem stable_run_state_simple : forall sc c1 L,
  o_destroy (sc_opts sc) = false -> is_dry (o_dry (sc_opts sc)) = false -> o_ssa (sc_opts sc) = false ->
  sorted_n L -> NoDup L -> NoDup (map l_id (sc_local sc)) ->
  inv c1 = Some L ->
  (forall i, In i L -> fo c1 i <> None) ->
  (forall i, In i (map l_id (sc_local sc)) -> In i L) ->
  (o_prune (sc_opts sc) = true -> forall i, In i L -> In i (map l_id (sc_local sc))) ->
  (* dyn: NEW last premise (see HK above): tracked ids outside the manifest have a known kind in c1 *)
  (forall i, In i L -> ~ In i (map l_id (sc_local sc)) -> kind_known sc (live_crds sc c1) i = true) ->
  Good L (apply_ids (plan_of sc c1)) (r_cl (run_state sc c1)) /\ Forall (Qf L) (r_tr (run_state sc c1)).
Proof.
  intros sc c1 L HO1 HO2 HO3 HS HN HND HI HLive HL1 HL2 HK.
  assert (HX : forall i, In i L -> ~ In i (map l_id (sc_local sc)) -> fo c1 i <> None) by (intros i Hi _; apply HLive, Hi).
  apply (stable_run_state sc c1 L HO1 HO2 HO3 HS HN HND HI); [|exact HX|exact HK|].
  - intros i Hi. pose proof (apply_ids_local sc c1 HO1 i Hi) as Hl. split; [apply HL1, Hl|apply HLive, HL1, Hl].
  - intros P. destruct (pl_prune (plan_of sc c1)) as [|q t] eqn:E; [reflexivity|]. exfalso.
    assert (Hq : In q (pl_prune (plan_of sc c1))) by (rewrite E; left; reflexivity).
    rewrite plan_of_eq in Hq. apply bp_prune_sub in Hq. rewrite <- plan_of_eq in Hq.
    assert (X : In (p_id q) (map p_id (pl_prune_all (plan_of sc c1)))) by (apply in_map; exact Hq).
    apply (prune_all_ids sc c1 L HO1 HI HX HK) in X. destruct X as [X Y]. exact (Y (HL2 P _ X)).
Qed.
