(* mon_C05 (Corr/CorrPipeline.v), inventory conjunct "a dependency that was not
   deleted stays in the inventory", part 1: the traversal.

   For one prune object e of the plan (its plan-time object ce = the object e
   of the initial cluster, without the deletion-prevention annotation), outside
   dry-run, one traversal of the task list carries
     Iv s : no live object other than e carries the UID of ce and the server's
            UID counter is above it; no successful-apply record carries that
            UID (so the alias filter of the pruner never fires for e); e is not
            in the abandoned set; the keys of the actuation table are distinct;
     Dn s : e is settled: a delete request for e is in the trace, or the record
            of e is (Delete, Failed) or (Delete, Skipped).
   Dn is established by the prune task whose layer contains e and preserved by
   everything else; when the inventory-set task then succeeds, e is in the
   stored inventory or was the target of a delete request (`final_step`).

   Everything here is proved (no open statement); the monitor theorem is in
   PipelineMonC05.v. *)
From Coq Require Import List Bool Arith NArith ZArith Lia Permutation.
From CliUtils Require Import Model.ObjSet Model.ActuationTable Model.PipelineTypes Model.Pipeline
     Proofs.ObjSetProofs Proofs.ActuationTableProofs Proofs.PipelineBase Proofs.PipelineAuth
     Proofs.PipelineEvents Proofs.PipelineMisc Corr.CorrPipeline
     Proofs.PipelineOrphansBase Proofs.PipelineOrphansSpec Proofs.PipelineOrphansPlan
     Proofs.PipelineMonBase Proofs.PipelineMonC13 Proofs.PipelineMonC11.
Import ListNotations.

(* ---- the runner on a concatenated task list ------------------------------------------- *)
Section RunApp.
  Variable sc : scenario.

  Lemma run_tasks_app pl locals prev ts r : forall s,
    (In (IEv EError) (r_tr (run_tasks sc pl locals prev s ts)) /\
     run_tasks sc pl locals prev s (ts ++ r) = run_tasks sc pl locals prev s ts) \/
    run_tasks sc pl locals prev s (ts ++ r) = run_tasks sc pl locals prev (run_tasks sc pl locals prev s ts) r.
  Proof.
    induction ts as [|t rest IH]; intros s; cbn [app run_tasks]; [right; reflexivity|].
    destruct (run_task sc pl locals prev s t) as [s1 ok].
    destruct (negb ok); [left; split; [left; reflexivity|reflexivity]|].
    destruct (r_abort s1); [left; split; [left; reflexivity|reflexivity]|]. apply IH.
  Qed.

  (* the task list of a plan: everything before the final inventory-set task *)
  Definition body_tasks (pl : plan) : list task :=
    let '(at_, kw) := match pl_apply pl with
                      | [] => ([], 0)
                      | _ => apply_tasks sc 0 0 (pl_apply_layers pl)
                      end in
    let pt := if o_prune (sc_opts sc)
              then match pl_prune pl with [] => [] | _ => prune_tasks sc 0 kw (pl_prune_layers pl) end
              else [] in
    (if o_destroy (sc_opts sc) then [] else [TInvAdd]) ++ at_ ++ pt.

  Lemma tasks_of_body pl : tasks_of sc pl = body_tasks pl ++ [TInvSet].
  Proof.
    unfold tasks_of, body_tasks.
    destruct (match pl_apply pl with [] => ([], 0) | _ => apply_tasks sc 0 0 (pl_apply_layers pl) end) as [at_ kw].
    rewrite <- !app_assoc. reflexivity.
  Qed.

  Lemma apply_tasks_no_set layers : forall ka kw, ~ In TInvSet (fst (apply_tasks sc ka kw layers)).
  Proof.
    induction layers as [|l t IH]; intros ka kw; cbn [apply_tasks]; [intros []|].
    destruct (is_dry (o_dry (sc_opts sc))).
    - specialize (IH (S ka) kw). destruct (apply_tasks sc (S ka) kw t) as [ts kw']. cbn [fst] in *.
      intros [H|H]; [discriminate H|exact (IH H)].
    - specialize (IH (S ka) (S kw)). destruct (apply_tasks sc (S ka) (S kw) t) as [ts kw']. cbn [fst] in *.
      intros [H|[H|H]]; [discriminate H|discriminate H|exact (IH H)].
  Qed.

  Lemma prune_tasks_no_set layers : forall kp kw, ~ In TInvSet (prune_tasks sc kp kw layers).
  Proof.
    induction layers as [|l t IH]; intros kp kw; cbn [prune_tasks]; [intros []|].
    destruct (is_dry (o_dry (sc_opts sc))).
    - intros [H|H]; [discriminate H|exact (IH _ _ H)].
    - intros [H|[H|H]]; [discriminate H|discriminate H|exact (IH _ _ H)].
  Qed.

  Lemma body_tasks_no_set pl : ~ In TInvSet (body_tasks pl).
  Proof.
    unfold body_tasks.
    assert (A : ~ In TInvSet (fst (match pl_apply pl with [] => ([], 0) | _ => apply_tasks sc 0 0 (pl_apply_layers pl) end))).
    { destruct (pl_apply pl); [intros []|apply apply_tasks_no_set]. }
    destruct (match pl_apply pl with [] => ([], 0) | _ => apply_tasks sc 0 0 (pl_apply_layers pl) end) as [at_ kw].
    cbn [fst] in A. intros H. apply in_app_or in H. destruct H as [H|H].
    - destruct (o_destroy (sc_opts sc)); [destruct H|]. destruct H as [H|[]]. discriminate H.
    - apply in_app_or in H. destruct H as [H|H]; [exact (A H)|].
      destruct (o_prune (sc_opts sc)); [|destruct H]. destruct (pl_prune pl); [destruct H|].
      exact (prune_tasks_no_set _ _ _ H).
  Qed.

  Lemma prune_tasks_In layers l : In l layers -> forall kp kw, exists k, In (TPrune k l) (prune_tasks sc kp kw layers).
  Proof.
    induction layers as [|l0 t IH]; intros H kp kw; [destruct H|]. cbn [prune_tasks].
    destruct H as [->|H].
    - exists kp. destruct (is_dry (o_dry (sc_opts sc))); left; reflexivity.
    - destruct (is_dry (o_dry (sc_opts sc))).
      + destruct (IH H (S kp) kw) as [k Hk]. exists k. right. exact Hk.
      + destruct (IH H (S kp) (S kw)) as [k Hk]. exists k. right. right. exact Hk.
  Qed.

  (* with pruning enabled, every object of a prune layer is in a prune task of the body *)
  Lemma body_tasks_prune pl l : o_prune (sc_opts sc) = true -> In l (pl_prune_layers pl) -> pl_prune pl <> [] ->
    exists k, In (TPrune k l) (body_tasks pl).
  Proof.
    intros EP Hl NE. unfold body_tasks.
    destruct (match pl_apply pl with [] => ([], 0) | _ => apply_tasks sc 0 0 (pl_apply_layers pl) end) as [at_ kw].
    rewrite EP. destruct (pl_prune pl) as [|q qs] eqn:EQ; [congruence|].
    destruct (prune_tasks_In _ l Hl 0 kw) as [k Hk]. exists k.
    apply in_or_app. right. apply in_or_app. right. exact Hk.
  Qed.

  Lemma task_ok_body known locals pobjs :
    Forall (task_ok (build_plan sc known locals pobjs)) (body_tasks (build_plan sc known locals pobjs)).
  Proof.
    pose proof (tasks_of_ok sc known locals pobjs) as F. rewrite tasks_of_body in F.
    apply Forall_app in F. tauto.
  Qed.
End RunApp.

(* ---- the table: records of one id ----------------------------------------------------------- *)
Lemma tv_rec_add_self s i st a u g : tv (rec_add s i st a u g) i = Some (st, a, u).
Proof. unfold tv. cbn [rec_add set_tbl r_tbl]. rewrite tvl_set_status. cbn [r_id]. rewrite Nat.eqb_refl. reflexivity. Qed.

Lemma tv_set_other (s s' : rst) r j :
  r_tbl s' = set_status Nat.eqb (r_tbl s) r -> j <> r_id r -> tv s' j = tv s j.
Proof.
  intros E H. unfold tv. rewrite E, tvl_set_status.
  destruct (Nat.eqb (r_id r) j) eqn:X; [apply Nat.eqb_eq in X; congruence|reflexivity].
Qed.
Lemma tv_set_self (s s' : rst) r :
  r_tbl s' = set_status Nat.eqb (r_tbl s) r -> tv s' (r_id r) = Some (tcore r).
Proof. intros E. unfold tv. rewrite E, tvl_set_status, Nat.eqb_refl. reflexivity. Qed.

Lemma destroy_successful_false pl pv s e :
  In e (with_actuation (r_tbl s) SDelete AFailed) \/
  (In e (with_actuation (r_tbl s) SDelete ASkipped) /\ ~ In e (r_aband s)) ->
  destroy_successful pl pv s = false.
Proof.
  intros H. unfold destroy_successful. destruct H as [H|[H1 H2]].
  - destruct (with_actuation (r_tbl s) SDelete AFailed); [destruct H|reflexivity].
  - destruct (with_actuation (r_tbl s) SDelete AFailed); [|reflexivity].
    destruct (with_reconcile (r_tbl s) RFailed); [|reflexivity].
    destruct (with_reconcile (r_tbl s) RTimeout); [|reflexivity].
    assert (X : In e (diffn (with_actuation (r_tbl s) SDelete ASkipped) (r_aband s))) by (apply diffn_In; split; assumption).
    destruct (diffn (with_actuation (r_tbl s) SDelete ASkipped) (r_aband s)); [destruct X|reflexivity].
Qed.

Section C05a.
  Variable sc : scenario.
  Variable c0 : cluster.
  Variable pl : plan.
  Variable locals : list lobj.
  Variable e : id.
  Variable ce : cobj.
  Notation u0 := (c_uid ce).
  Notation aids := (apply_ids pl).

  Hypothesis H_dry : is_dry (o_dry (sc_opts sc)) = false.
  Hypothesis H_ce : fo c0 e = Some ce.
  Hypothesis H_keep : c_keep ce = false.
  Hypothesis H_notapply : ~ In e aids.
  Hypothesis H_uid_inj : forall j cj, fo c0 j = Some cj -> c_uid cj = u0 -> j = e.
  Hypothesis H_prune_c0 : forall cj, In (pobj_of_live cj) (pl_prune pl) -> fo c0 (c_id cj) = Some cj.
  Hypothesis H_local : forall p l, In p (pl_apply pl) -> p_local p = Some l -> l_id l = p_id p.

  Lemma ce_id : c_id ce = e.
  Proof. exact (find_obj_id _ _ _ H_ce). Qed.

  (* ---- the cluster part --------------------------------------------------------------------- *)
  Definition CI (cl : cluster) : Prop :=
    (u0 < next_uid cl)%N /\ forall j cj, fo cl j = Some cj -> c_uid cj = u0 -> j = e.

  Lemma CI_applied cl cl' i u : CI cl -> applied cl cl' i u -> CI cl'.
  Proof.
    intros [N1 N2] [[F1 [F2 [_ F4]]] [n [Hn [_ [Hu Hor]]]]]. split; [lia|].
    intros j cj Hj Eu. destruct (Nat.eq_dec j i) as [->|Hji].
    - rewrite Hn in Hj. injection Hj as <-. destruct Hor as [[c [Hc Ec]]|[_ Hfresh]].
      + apply (N2 i c Hc). congruence.
      + exfalso. rewrite Hu in Eu. lia.
    - rewrite (F2 j Hji) in Hj. exact (N2 j cj Hj Eu).
  Qed.

  Lemma CI_detached cl cl' i u : CI cl -> detached cl cl' i u -> (u = u0 -> i = e) -> CI cl'.
  Proof.
    intros [N1 N2] [[F1 [F2 [_ F4]]] [n [Hn [_ Hu]]]] HU. split; [lia|].
    intros j cj Hj Eu. destruct (Nat.eq_dec j i) as [->|Hji].
    - rewrite Hn in Hj. injection Hj as <-. apply HU. congruence.
    - rewrite (F2 j Hji) in Hj. exact (N2 j cj Hj Eu).
  Qed.

  Lemma CI_deleted cl cl' i : CI cl -> deleted cl cl' i -> CI cl'.
  Proof.
    intros [N1 N2] [[F1 [F2 [_ F4]]] Hn]. split; [lia|].
    intros j cj Hj Eu. destruct (Nat.eq_dec j i) as [->|Hji].
    - rewrite Hn in Hj. discriminate Hj.
    - rewrite (F2 j Hji) in Hj. exact (N2 j cj Hj Eu).
  Qed.

  Lemma CI_invchg cl cl' : invchg cl cl' -> CI cl -> CI cl'.
  Proof.
    intros [E1 E2] [N1 N2]. split; [rewrite E2; exact N1|].
    intros j cj Hj. unfold fo in Hj. rewrite E1 in Hj. exact (N2 j cj Hj).
  Qed.

  (* ---- the invariant --------------------------------------------------------------------------- *)
  Record Iv (s : rst) : Prop := mkIv {
    I_cl : CI (r_cl s);
    I_keys : NoDup (tkeys (r_tbl s));
    I_tbl : forall i u, tv s i = Some (SApply, ASucceeded, u) -> u <> u0;
    I_ab : ~ In e (r_aband s)
  }.

  Definition Dn (s : rst) : Prop :=
    (exists u p ok m st, In (IReq (RDelete e u p) ok m st) (r_tr s)) \/
    (exists a u, tv s e = Some (SDelete, a, u) /\ (a = AFailed \/ a = ASkipped)).

  Lemma Dn_ext s s' l : r_tr s' = l ++ r_tr s -> tv s' e = tv s e -> Dn s -> Dn s'.
  Proof.
    intros ET EV [[u [p [ok [m [st H]]]]]|H]; [left|right; rewrite EV; exact H].
    exists u, p, ok, m, st. rewrite ET. apply in_or_app. right. exact H.
  Qed.

  Lemma Iv_quiet s s' : quiet s s' -> Iv s -> Iv s'.
  Proof.
    intros [Q1 [Q2 [Q3 [Q4 _]]]] [A1 A2 A3 A4]. constructor.
    - rewrite Q1. exact A1.
    - rewrite Q3. exact A2.
    - intros i u H. rewrite Q4 in H. exact (A3 i u H).
    - rewrite Q2. exact A4.
  Qed.
  Lemma Dn_quiet s s' : quiet s s' -> Dn s -> Dn s'.
  Proof. intros [_ [_ [_ [Q4 [l [Q5 _]]]]]]. apply (Dn_ext s s' l Q5 (Q4 e)). Qed.

  Lemma Iv_no_alias s : Iv s -> ~ In u0 (applied_uids (r_tbl s)).
  Proof.
    intros [_ A2 A3 _] H. destruct (applied_uids_tv _ _ A2 H) as [i Hi]. exact (A3 i u0 Hi eq_refl).
  Qed.

  (* ---- one object of an apply task -------------------------------------------------------------- *)
  Lemma k_apply_one g s p : local_ok pl p -> Iv s ->
    Iv (apply_one sc pl g s p) /\ (Dn s -> Dn (apply_one sc pl g s p)).
  Proof.
    intros [Hin Hl] I0. destruct (p_local p) as [l|] eqn:EL.
    2:{ unfold apply_one. rewrite EL. split; [exact I0|tauto]. }
    destruct (apply_one_spec sc pl g s p l EL (Hl l eq_refl)) as [AB [a [u [gen [lt [ET [ETR [_ ALT]]]]]]]].
    cbv zeta in AB, ET, ETR, ALT. set (s' := apply_one sc pl g s p) in *.
    assert (Hne : e <> p_id p) by (intros X; apply H_notapply; rewrite X; exact Hin).
    assert (TVs : tv s' (p_id p) = Some (SApply, a, u)) by (apply (tv_set_self s s' _ ET)).
    split.
    - destruct I0 as [A1 A2 A3 A4]. constructor.
      + destruct ALT as [[_ EC]|[[_ [D _]]|[_ [_ AP]]]].
        * rewrite EC. exact A1.
        * rewrite H_dry in D. discriminate D.
        * exact (CI_applied _ _ _ _ A1 AP).
      + rewrite ET. apply (keys_set_status id Nat.eqb nat_eqb_spec). exact A2.
      + intros i u1 H. destruct (Nat.eq_dec i (p_id p)) as [->|Hi].
        * rewrite TVs in H. injection H as Ha Hu. subst a u1.
          destruct ALT as [[[X|X] _]|[[_ [D _]]|[_ [_ AP]]]]; try discriminate X.
          { rewrite H_dry in D. discriminate D. }
          destruct AP as [_ [n [_ [_ [_ Hor]]]]]. destruct A1 as [N1 N2]. intros Eu.
          destruct Hor as [[c [Hc Ec]]|[_ Hf]].
          -- apply Hne. symmetry. apply (N2 _ c Hc). congruence.
          -- lia.
        * rewrite (tv_set_other s s' _ i ET Hi) in H. exact (A3 i u1 H).
      + rewrite AB. exact A4.
    - apply (Dn_ext s s' (IEv (EApply g (p_id p) (ast_of a)) :: lt)); [rewrite ETR; reflexivity|].
      apply (tv_set_other s s' _ e ET). exact Hne.
  Qed.

  Lemma k_apply_task g layer : Forall (local_ok pl) layer -> forall s, Iv s ->
    Iv (apply_task sc pl g s layer) /\ (Dn s -> Dn (apply_task sc pl g s layer)).
  Proof.
    unfold apply_task. induction layer as [|p t IH]; intros F s I0; cbn [fold_left]; [tauto|].
    inversion F as [|? ? Fp Ft]; subst.
    destruct (k_apply_one g s p Fp I0) as [I1 D1]. destruct (IH Ft _ I1) as [I2 D2]. tauto.
  Qed.

  (* ---- one object of a prune task ---------------------------------------------------------------- *)
  Lemma prune_filters_keep tbl uids c : prune_filters sc pl locals tbl uids c = PSkipKeep -> c_keep c = true.
  Proof.
    unfold prune_filters. destruct (c_keep c); [reflexivity|].
    destruct (negb (can_prune sc (c_owner c))); [discriminate|].
    destruct (negb (o_destroy (sc_opts sc)) && _); [discriminate|].
    destruct (dep_filter _ _ _ _ _); try discriminate.
    destruct (existsb (N.eqb (c_uid c)) uids); discriminate.
  Qed.

  (* the prune of e itself: e is not abandoned, and it is settled afterwards *)
  Lemma prune_one_e g uids s : ~ In u0 uids ->
    r_aband (prune_one sc pl locals g uids s (pobj_of_live ce)) = r_aband s /\
    Dn (prune_one sc pl locals g uids s (pobj_of_live ce)).
  Proof.
    intros NA. unfold prune_one. cbn [p_live pobj_of_live]. pose proof ce_id as EI.
    destruct (prune_filters sc pl locals (r_tbl s) uids ce) eqn:PF.
    - (* delete: a request is logged in every case *)
      rewrite H_dry.
      assert (RQ : forall s1 ok (x : evt) a u g0,
                r_aband s1 = r_aband s ->
                r_aband (rec_add (ev (log_req s1 (RDelete (c_id ce) u0 (o_prop (sc_opts sc))) ok) x) (c_id ce) SDelete a u g0) = r_aband s /\
                Dn (rec_add (ev (log_req s1 (RDelete (c_id ce) u0 (o_prop (sc_opts sc))) ok) x) (c_id ce) SDelete a u g0)).
      { intros s1 ok x a u g0 EA. split; [exact EA|]. left.
        exists u0, (o_prop (sc_opts sc)), ok, (managed (r_cl s1)), (stored (r_cl s1)).
        cbn [rec_add set_tbl ev emit log_req r_tr]. right. left. rewrite EI. reflexivity. }
      destruct (faulted sc (FDelete (c_id ce))); [apply RQ; apply mc_ab|].
      destruct (find_obj (objs (r_cl (maybe_cancel sc s (c_id ce)))) (c_id ce)) as [live|]; [|apply RQ; apply mc_ab].
      destruct (N.eqb (c_uid live) u0); [destruct (u_fin (uinfo_of sc (c_id ce)))|]; apply RQ; cbn [set_cl r_aband]; apply mc_ab.
    - exfalso. apply prune_filters_keep in PF. congruence.
    - exfalso. apply NA. exact (prune_filters_alias sc pl locals _ _ _ PF).
    - split; [reflexivity|]. right. exists ASkipped, 0%N. split; [|right; reflexivity].
      rewrite <- EI at 1. apply tv_rec_add_self.
    - split; [reflexivity|]. right. exists AFailed, 0%N. split; [|left; reflexivity].
      rewrite <- EI at 1. apply tv_rec_add_self.
  Qed.

  Lemma k_prune_one g uids s p : prune_ok pl p -> ~ In u0 uids -> Iv s ->
    Iv (prune_one sc pl locals g uids s p) /\
    (Dn s -> Dn (prune_one sc pl locals g uids s p)) /\
    (p_id p = e -> Dn (prune_one sc pl locals g uids s p)).
  Proof.
    intros [cj [-> Hin]] NA I0. pose proof (H_prune_c0 cj Hin) as Hc0.
    destruct (prune_one_spec sc pl locals g uids s cj) as [a [u [ab [lt [ET [EA [ETR [_ [_ ALT]]]]]]]]].
    cbv zeta in ET, EA, ETR, ALT. set (s' := prune_one sc pl locals g uids s (pobj_of_live cj)) in *.
    assert (HU : c_uid cj = u0 -> c_id cj = e) by (intros X; exact (H_uid_inj _ _ Hc0 X)).
    destruct I0 as [A1 A2 A3 A4].
    assert (CL : CI (r_cl s')).
    { destruct ALT as [[_ [_ EC]]|[[_ [_ [EC _]]]|[[_ [_ DT]]|[[_ [_ [EC _]]]|[[_ [_ DL]]|[_ [_ [EC _]]]]]]]].
      - rewrite EC. exact A1.
      - rewrite EC. exact A1.
      - exact (CI_detached _ _ _ _ A1 DT HU).
      - rewrite EC. exact A1.
      - exact (CI_deleted _ _ _ A1 DL).
      - rewrite EC. exact A1. }
    assert (TB : forall i u1, tv s' i = Some (SApply, ASucceeded, u1) -> u1 <> u0).
    { intros i u1 H. destruct (Nat.eq_dec i (c_id cj)) as [->|Hi].
      - assert (TVs : tv s' (c_id cj) = Some (SDelete, a, u)) by (apply (tv_set_self s s' _ ET)).
        rewrite TVs in H. discriminate H.
      - rewrite (tv_set_other s s' _ i ET Hi) in H. exact (A3 i u1 H). }
    assert (KS : NoDup (tkeys (r_tbl s'))) by (rewrite ET; apply (keys_set_status id Nat.eqb nat_eqb_spec); exact A2).
    destruct (Nat.eq_dec (c_id cj) e) as [Ee|Ne].
    - (* the object is e: the plan-time object is ce *)
      assert (cj = ce) by (rewrite Ee, H_ce in Hc0; congruence). subst cj.
      destruct (prune_one_e g uids s NA) as [AB DN]. fold s' in AB, DN.
      split; [|split; [intros _; exact DN|intros _; exact DN]].
      constructor; [exact CL|exact KS|exact TB|rewrite AB; exact A4].
    - split; [|split].
      + constructor; [exact CL|exact KS|exact TB|].
        rewrite EA. destruct ab; [|exact A4]. intros [X|X]; [exact (Ne X)|exact (A4 X)].
      + apply (Dn_ext s s' (IEv (EPrune g (c_id cj) (ast_of a)) :: lt)); [rewrite ETR; reflexivity|].
        apply (tv_set_other s s' _ e ET). cbn [r_id]. intros X. apply Ne. symmetry. exact X.
      + cbn [p_id pobj_of_live]. intros X. exfalso. exact (Ne X).
  Qed.

  Lemma k_prune_fold g uids layer : Forall (prune_ok pl) layer -> ~ In u0 uids -> forall s, Iv s ->
    Iv (fold_left (prune_one sc pl locals g uids) layer s) /\
    (Dn s -> Dn (fold_left (prune_one sc pl locals g uids) layer s)) /\
    (In e (map p_id layer) -> Dn (fold_left (prune_one sc pl locals g uids) layer s)).
  Proof.
    intros F NA. induction layer as [|p t IH]; intros s I0; cbn [fold_left map].
    - split; [exact I0|]. split; [tauto|intros []].
    - inversion F as [|? ? Fp Ft]; subst.
      destruct (k_prune_one g uids s p Fp NA I0) as [I1 [D1 E1]].
      destruct (IH Ft _ I1) as [I2 [D2 E2]].
      split; [exact I2|]. split; [tauto|]. intros [X|X]; [apply D2, E1; exact X|exact (E2 X)].
  Qed.

  (* ---- the inventory-add task ------------------------------------------------------------------- *)
  Lemma k_inv_add_task s : Iv s ->
    Iv (fst (inv_add_task sc pl s)) /\ (Dn s -> Dn (fst (inv_add_task sc pl s))).
  Proof.
    intros [A1 A2 A3 A4].
    destruct (inv_add_task_spec sc pl s H_local) as [ET [EA [cl1 [lt1 [lt2 [ETR [NS [IC _]]]]]]]].
    set (s' := fst (inv_add_task sc pl s)) in *.
    assert (TV : forall j, tv s' j = tv s j) by (intros j; unfold tv; rewrite ET; reflexivity).
    split.
    - constructor.
      + apply (CI_invchg cl1 _ IC). destruct NS as [[-> _]|[_ [n [u [_ [_ [_ [AP _]]]]]]]]; [exact A1|].
        exact (CI_applied _ _ _ _ A1 AP).
      + rewrite ET. exact A2.
      + intros i u H. rewrite TV in H. exact (A3 i u H).
      + rewrite EA. exact A4.
    - apply (Dn_ext s s' (lt2 ++ lt1)); [rewrite ETR, app_assoc; reflexivity|apply TV].
  Qed.

  (* ---- tasks -------------------------------------------------------------------------------------- *)
  Lemma k_run_task prev s t : task_ok pl t -> t <> TInvSet -> Iv s ->
    Iv (fst (run_task sc pl locals prev s t)) /\
    (Dn s -> Dn (fst (run_task sc pl locals prev s t))) /\
    (forall k l, t = TPrune k l -> In e (map p_id l) -> Dn (fst (run_task sc pl locals prev s t))).
  Proof.
    intros OK NS I0. unfold run_task. cbv zeta.
    set (s0 := ev s (EStarted (task_name t))).
    assert (Q0 : quiet s s0) by apply quiet_ev.
    pose proof (Iv_quiet _ _ Q0 I0) as I1.
    assert (W : forall s1, Iv s1 /\ (Dn s0 -> Dn s1) /\ (forall k l, t = TPrune k l -> In e (map p_id l) -> Dn s1) ->
                Iv (ev s1 (EFinished (task_name t))) /\ (Dn s -> Dn (ev s1 (EFinished (task_name t)))) /\
                (forall k l, t = TPrune k l -> In e (map p_id l) -> Dn (ev s1 (EFinished (task_name t))))).
    { intros s1 [X1 [X2 X3]]. pose proof (quiet_ev s1 (EFinished (task_name t))) as Q1.
      split; [exact (Iv_quiet _ _ Q1 X1)|]. split.
      - intros D. apply (Dn_quiet _ _ Q1), X2, (Dn_quiet _ _ Q0), D.
      - intros k l E Hl. apply (Dn_quiet _ _ Q1). exact (X3 k l E Hl). }
    destruct t as [|k l|k c ids|k l|]; cbn [task_ok] in OK.
    - destruct (k_inv_add_task s0 I1) as [X1 X2].
      destruct (inv_add_task sc pl s0) as [s1 ok]. cbn [fst] in *. apply W.
      split; [exact X1|]. split; [exact X2|]. intros k l E. discriminate E.
    - cbn [fst]. apply W. destruct (k_apply_task (task_name (TApply k l)) l OK s0 I1) as [X1 X2].
      split; [exact X1|]. split; [exact X2|]. intros k' l' E. discriminate E.
    - cbn [fst]. apply W. pose proof (q_wait_task sc c (task_name (TWait k c ids)) ids s0) as Q.
      split; [exact (Iv_quiet _ _ Q I1)|]. split; [exact (Dn_quiet _ _ Q)|]. intros k' l' E. discriminate E.
    - cbn [fst]. apply W. unfold prune_task.
      destruct (k_prune_fold (task_name (TPrune k l)) (applied_uids (r_tbl s0)) l OK (Iv_no_alias s0 I1) s0 I1) as [X1 [X2 X3]].
      split; [exact X1|]. split; [exact X2|]. intros k' l' E Hl. injection E as _ <-. exact (X3 Hl).
    - exfalso. apply NS. reflexivity.
  Qed.

  Lemma k_run_tasks prev ts : Forall (task_ok pl) ts -> ~ In TInvSet ts -> forall s, Iv s ->
    Iv (run_tasks sc pl locals prev s ts) /\
    (Dn s -> Dn (run_tasks sc pl locals prev s ts)) /\
    (~ In (IEv EError) (r_tr (run_tasks sc pl locals prev s ts)) ->
     (exists k l, In (TPrune k l) ts /\ In e (map p_id l)) -> Dn (run_tasks sc pl locals prev s ts)).
  Proof.
    induction ts as [|t rest IH]; intros F NS s I0; cbn [run_tasks].
    - split; [exact I0|]. split; [tauto|]. intros _ [k [l [[] _]]].
    - inversion F as [|? ? Ft Fr]; subst.
      assert (Nt : t <> TInvSet) by (intros X; apply NS; left; exact X).
      assert (Nr : ~ In TInvSet rest) by (intros X; apply NS; right; exact X).
      destruct (k_run_task prev s t Ft Nt I0) as [I1 [D1 E1]].
      destruct (run_task sc pl locals prev s t) as [s1 ok]. cbn [fst] in *.
      assert (ERR : Iv (ev s1 EError) /\ (Dn s -> Dn (ev s1 EError)) /\
                    (~ In (IEv EError) (r_tr (ev s1 EError)) ->
                     (exists k l, In (TPrune k l) (t :: rest) /\ In e (map p_id l)) -> Dn (ev s1 EError))).
      { pose proof (quiet_ev s1 EError) as Q. split; [exact (Iv_quiet _ _ Q I1)|]. split.
        - intros D. apply (Dn_quiet _ _ Q), D1, D.
        - intros X. exfalso. apply X. left. reflexivity. }
      destruct (negb ok); [exact ERR|]. destruct (r_abort s1); [exact ERR|].
      destruct (IH Fr Nr s1 I1) as [I2 [D2 E2]].
      split; [exact I2|]. split; [tauto|].
      intros NE [k [l [[X|X] Hl]]].
      + apply D2. exact (E1 k l X Hl).
      + apply (E2 NE). exists k, l. split; assumption.
  Qed.

  (* ---- the inventory-set task -------------------------------------------------------------------- *)
  Lemma final_step prev0 s : Iv s -> Dn s -> In e prev0 ->
    snd (run_task sc pl locals (Some prev0) s TInvSet) = true ->
    (exists u p ok m st, In (IReq (RDelete e u p) ok m st) (r_tr (fst (run_task sc pl locals (Some prev0) s TInvSet)))) \/
    (exists L, inv (r_cl (fst (run_task sc pl locals (Some prev0) s TInvSet))) = Some L /\ In e L).
  Proof.
    intros [A1 A2 A3 A4] D Hp OK. destruct D as [[u [p [ok [m [st H]]]]]|[a [u [TV Ha]]]].
    - left. exists u, p, ok, m, st.
      destruct (n_run_task sc pl locals (Some prev0) s TInvSet) as [_ [l [El _]]]. rewrite El.
      apply in_or_app. right. exact H.
    - right. destruct (run_task_inv_set sc pl locals (Some prev0) s) as [RC RS]. rewrite RS in OK. rewrite RC.
      set (s0 := ev s (EStarted (GInvSet, 0))) in *.
      assert (WA : In e (with_actuation (r_tbl s0) SDelete a)).
      { apply (with_actuation_tv (r_tbl s0) SDelete a e A2). exists u. exact TV. }
      assert (DS : destroy_successful pl prev0 s0 = false).
      { apply (destroy_successful_false pl prev0 s0 e). destruct Ha as [-> | ->]; [left; exact WA|right; split; [exact WA|exact A4]]. }
      unfold inv_set_task in *. rewrite DS, andb_false_r in *.
      destruct (replace_ok sc s0 (final_inventory pl prev0 s0) OK H_dry) as [L [EL HL]].
      exists L. split; [exact EL|]. apply HL. apply final_inventory_spec. left. split; [|exact A4].
      right. split; [exact Hp|]. destruct Ha as [-> | ->]; tauto.
  Qed.
End C05a.
