(* mon_C06p as a theorem about the model, part 1: the wait machine.
   Invariant `WI` of one wait phase (start, status updates): every id of the phase is
   - skipped (failed / skipped actuation): last wait event Skipped, in neither set;
   - pending: last wait event Pending;
   - in the failed set: last wait event Failed;
   - settled: last wait event Successful or Failed, in neither set;
   the reconcile field follows the last wait event (`RL`), so the "already Failed"
   test of the settled branch reads the trace.  Every emitted wait event satisfies
   the two clauses of the walk (`good strict`).  With `strict = true` (the monitor as
   written) the transition "in the failed set, UID replaced, AllCurrent" would emit
   Failed after Failed; it is excluded by `calm`: either no delivery reports Failed
   (`mode = true`: the failed set stays empty) or no delivery carries a UID
   (`mode = false`: no replaced UID is ever seen). *)
From Coq Require Import List Bool Arith NArith ZArith Lia Permutation.
From CliUtils Require Import Model.ObjSet Model.ActuationTable Model.PipelineTypes Model.Pipeline
     Proofs.ObjSetProofs Proofs.ActuationTableProofs Proofs.PipelineBase Proofs.PipelineAuth
     Corr.CorrPipeline Proofs.PipelineOrphansBase Proofs.PipelineOrphansSpec Proofs.PipelineOrphansPlan Proofs.PipelineOrphansWait
     Proofs.PipelineMonC03a Proofs.PipelineMonC06pDefs.
Import ListNotations.

(* ---- deliveries that cannot trigger Failed -> Failed ------------------------------------- *)
Definition nofail (o : sobs) : Prop := s_st o <> SFailed.
Definition nouid (o : sobs) : Prop := s_body o = false \/ s_uid o = 0%N.
Definition calm (strict mode : bool) (o : sobs) : Prop :=
  strict = true -> if mode then nofail o else nouid o.

Lemma calm_default strict mode i : calm strict mode (mkS i SUnknown false 0%N 0%Z).
Proof. intros _. destruct mode; [discriminate|left; reflexivity]. Qed.

Lemma cache_get_P (P : sobs -> Prop) c i :
  (forall o, In o c -> P o) -> P (mkS i SUnknown false 0%N 0%Z) -> P (cache_get c i).
Proof.
  intros H D. induction c as [|x t IH]; cbn; [exact D|].
  destruct (Nat.eqb (s_id x) i); [apply H; left; reflexivity|apply IH; intros o Ho; apply H; right; exact Ho].
Qed.

Lemma changed_uid_nouid s i : nouid (cache_get (r_cache s) i) -> changed_uid s i = false.
Proof.
  intros H. unfold changed_uid. destruct (lookup Nat.eqb (r_tbl s) i) as [r|]; [|reflexivity].
  destruct (N.eqb (r_uid r) 0); [reflexivity|].
  destruct H as [H|H]; rewrite H; [reflexivity|].
  destruct (negb (s_body (cache_get (r_cache s) i))); reflexivity.
Qed.

Lemma failed_by_id_nofail s i : nofail (cache_get (r_cache s) i) -> failed_by_id s i = false.
Proof.
  unfold nofail, failed_by_id. destruct (s_st (cache_get (r_cache s) i)); try reflexivity.
  intros H. exfalso. apply H. reflexivity.
Qed.

(* ---- the table through its views ------------------------------------------------------------ *)
Lemma is_actuation_tv s i st a :
  is_actuation Nat.eqb (r_tbl s) i st a =
  match tv s i with Some (st', a', _) => strategy_eqb st' st && actuation_eqb a' a | None => false end.
Proof. unfold is_actuation, tv, tvl. destruct (lookup Nat.eqb (r_tbl s) i); reflexivity. Qed.

Lemma w_skipped_tv c s s' i : (forall j, tv s' j = tv s j) -> w_skipped c s' i = w_skipped c s i.
Proof. intros H. unfold w_skipped. rewrite !is_actuation_tv, !H. reflexivity. Qed.

Lemma is_rec_failed s i : RL s -> tv s i <> None ->
  is_reconcile Nat.eqb (r_tbl s) i RFailed = match lw (r_tr s) i with Some WFailed => true | _ => false end.
Proof.
  intros R T. unfold is_reconcile. unfold tv, tvl in T.
  destruct (lookup Nat.eqb (r_tbl s) i) as [r|] eqn:L; [|exfalso; apply T; reflexivity].
  rewrite (R i r L). destruct (lw (r_tr s) i) as [[]|]; reflexivity.
Qed.

Lemma tr_rec_reconcile s i r : r_tr (rec_reconcile s i r) = r_tr s.
Proof. unfold rec_reconcile. destruct (set_reconcile Nat.eqb (r_tbl s) i r); reflexivity. Qed.

Lemma hcu_eq c g s i :
  handle_changed_uid c g s i =
  ev (rec_reconcile s i (match c with AllNotFound => RSucceeded | AllCurrent => RFailed end))
     (EWait g i (match c with AllNotFound => WOk | AllCurrent => WFailed end)).
Proof. destruct c; reflexivity. Qed.

Lemma rm_facts (l : list id) i : NoDup l ->
  NoDup (remove Nat.eqb l i) /\ forall j, In j (remove Nat.eqb l i) <-> In j l /\ j <> i.
Proof.
  intros ND. split; [|intros j; apply (remove_NoDup_In nat Nat.eqb nat_eqb_spec); exact ND].
  destruct (in_dec Nat.eq_dec i l) as [X|X].
  - pose proof (remove_present nat Nat.eqb nat_eqb_spec _ _ X) as P.
    apply (Permutation_NoDup (Permutation_sym P)) in ND. inversion ND; assumption.
  - rewrite (remove_absent nat Nat.eqb nat_eqb_spec _ _ X). exact ND.
Qed.

Lemma nodup_snoc (l : list id) i : NoDup l -> ~ In i l -> NoDup (l ++ [i]).
Proof.
  intros ND N. induction ND as [|x l Hx Hl IH]; cbn; [constructor; [intros []|constructor]|].
  constructor.
  - intros H. apply in_app_or in H. destruct H as [H|[H|[]]]; [contradiction|]. subst x. apply N. left. reflexivity.
  - apply IH. intros H. apply N. right. exact H.
Qed.

(* ---- one wait event ------------------------------------------------------------------------------ *)
Lemma emit_wait strict s i rc g x :
  rof (Some x) = rc -> good strict (r_tr s) ->
  wait_ok strict (la (r_tr s) i) (lw (r_tr s) i) x = true ->
  let s' := ev (rec_reconcile s i rc) (EWait g i x) in
  good strict (r_tr s') /\ (forall j, tv s' j = tv s j) /\ (forall j, la (r_tr s') j = la (r_tr s) j) /\
  (RL s -> RL s') /\ r_cache s' = r_cache s /\ lw (r_tr s') i = Some x /\
  (forall j, j <> i -> lw (r_tr s') j = lw (r_tr s) j).
Proof.
  intros ER G OK. cbv zeta.
  assert (ET : r_tr (ev (rec_reconcile s i rc) (EWait g i x)) = IEv (EWait g i x) :: r_tr s)
    by (cbn [ev emit r_tr]; rewrite tr_rec_reconcile; reflexivity).
  rewrite ET. split; [|split; [|split; [|split; [|split; [|split]]]]].
  - cbn [good item_ok]. split; [exact OK|exact G].
  - intros j. change (tv (rec_reconcile s i rc) j = tv s j). apply tv_rec_reconcile.
  - intros j. apply la_cons_other. reflexivity.
  - apply RLs_wait. exact ER.
  - cbn [ev emit r_cache]. apply cache_rec_reconcile.
  - apply lw_cons_wait.
  - intros j N. apply lw_cons_other. apply wsel_other_wait. exact N.
Qed.

Section Machine.
  Variable sc : scenario.
  Variables strict mode : bool.
  Variable c : wcond.
  Variable g : gname.
  Variable ids : list id.
  Variable s0 : rst.
  Hypothesis NDids : NoDup ids.
  Hypothesis Hsk : forall i, In i ids -> w_skipped c s0 i = bad (la (r_tr s0) i).
  Hypothesis Hreg : forall i, In i ids -> tv s0 i <> None.
  (* the cache entries that matter: those about objects of Qc, a set that contains the wait group.  (The
     apply-time mutator Puts entries about its sources into the same cache; they carry a UID, and they are
     about objects whose own wait task is over: outside Qc.) *)
  Variable Qc : id -> Prop.
  Hypothesis Qids : forall i, In i ids -> Qc i.

  Notation calm := (calm strict mode).

  Definition wstat (s : rst) (w : wstate) (i : id) : Prop :=
    if w_skipped c s0 i
    then lw (r_tr s) i = Some WSkipped /\ ~ In i (w_pending w) /\ ~ In i (w_failed w)
    else (In i (w_pending w) /\ ~ In i (w_failed w) /\ lw (r_tr s) i = Some WPending) \/
         (~ In i (w_pending w) /\ In i (w_failed w) /\ lw (r_tr s) i = Some WFailed) \/
         (~ In i (w_pending w) /\ ~ In i (w_failed w) /\
          (lw (r_tr s) i = Some WOk \/ lw (r_tr s) i = Some WFailed)).

  Definition wnew (w' : wstate) (i : id) (x : wst) : Prop :=
    if w_skipped c s0 i
    then x = WSkipped /\ ~ In i (w_pending w') /\ ~ In i (w_failed w')
    else (In i (w_pending w') /\ ~ In i (w_failed w') /\ x = WPending) \/
         (~ In i (w_pending w') /\ In i (w_failed w') /\ x = WFailed) \/
         (~ In i (w_pending w') /\ ~ In i (w_failed w') /\ (x = WOk \/ x = WFailed)).

  Record WI (s : rst) (w : wstate) (done : list id) : Prop := {
    W_good : good strict (r_tr s);
    W_tv : forall j, tv s j = tv s0 j;
    W_la : forall j, la (r_tr s) j = la (r_tr s0) j;
    W_rl : RL s;
    W_cache : forall o, In o (r_cache s) -> Qc (s_id o) -> calm o;
    W_ndp : NoDup (w_pending w);
    W_ndf : NoDup (w_failed w);
    W_pin : incl (w_pending w) done;
    W_fin : incl (w_failed w) done;
    W_mode : strict = true -> mode = true -> w_failed w = [];
    W_st : forall i, In i done -> wstat s w i;
    W_new : forall i, In i ids -> ~ In i done -> lw (r_tr s) i = None;
    W_out : forall j, ~ In j ids -> lw (r_tr s) j = lw (r_tr s0) j;
    W_sub : incl done ids;
  }.

  (* what survives the phase *)
  Record WP (s : rst) : Prop := {
    P_good : good strict (r_tr s);
    P_tv : forall j, tv s j = tv s0 j;
    P_la : forall j, la (r_tr s) j = la (r_tr s0) j;
    P_rl : RL s;
    P_cache : forall o, In o (r_cache s) -> Qc (s_id o) -> calm o;
    P_out : forall j, ~ In j ids -> lw (r_tr s) j = lw (r_tr s0) j;
  }.

  Lemma WI_WP s w done : WI s w done -> WP s.
  Proof. intros []. constructor; assumption. Qed.

  Lemma WI_init :
    good strict (r_tr s0) -> RL s0 -> (forall o, In o (r_cache s0) -> Qc (s_id o) -> calm o) ->
    (forall i, In i ids -> lw (r_tr s0) i = None) -> WI s0 (mkWS [] []) [].
  Proof.
    intros G R C N. constructor; cbn [w_pending w_failed]; auto; try constructor; try (intros x []).
  Qed.

  Lemma WI_step s w done i x rc w' done' :
    WI s w done -> In i ids -> rof (Some x) = rc ->
    wait_ok strict (la (r_tr s) i) (lw (r_tr s) i) x = true ->
    NoDup (w_pending w') -> NoDup (w_failed w') ->
    (forall j, j <> i -> (In j (w_pending w') <-> In j (w_pending w))) ->
    (forall j, j <> i -> (In j (w_failed w') <-> In j (w_failed w))) ->
    (forall j, In j done' <-> In j done \/ j = i) ->
    (strict = true -> mode = true -> w_failed w' = []) ->
    wnew w' i x ->
    WI (ev (rec_reconcile s i rc) (EWait g i x)) w' done'.
  Proof.
    intros H Hi ER OK NP NF EP EF ED EM NEW. destruct H.
    destruct (emit_wait strict s i rc g x ER W_good0 OK) as [A1 [A2 [A3 [A4 [A5 [A6 A7]]]]]]. cbv zeta in *.
    constructor.
    - exact A1.
    - intros j. rewrite A2. apply W_tv0.
    - intros j. rewrite A3. apply W_la0.
    - apply A4. exact W_rl0.
    - rewrite A5. exact W_cache0.
    - exact NP.
    - exact NF.
    - intros j Hj. apply ED. destruct (Nat.eq_dec j i) as [->|N]; [right; reflexivity|left].
      apply W_pin0. apply (EP j N). exact Hj.
    - intros j Hj. apply ED. destruct (Nat.eq_dec j i) as [->|N]; [right; reflexivity|left].
      apply W_fin0. apply (EF j N). exact Hj.
    - exact EM.
    - intros j Hj. apply ED in Hj. destruct (Nat.eq_dec j i) as [->|N].
      + unfold wstat, wnew in *. rewrite A6. destruct (w_skipped c s0 i).
        * destruct NEW as [-> [B C]]. auto.
        * destruct NEW as [[B [C ->]]|[[B [C ->]]|[B [C [-> | ->]]]]]; timeout 20 (auto 10).
      + destruct Hj as [Hj|Hj]; [|contradiction]. specialize (W_st0 j Hj). unfold wstat in *.
        pose proof (EP j N) as EP1. pose proof (EF j N) as EF1. rewrite (A7 j N).
        destruct (w_skipped c s0 j); timeout 20 tauto.
    - intros j Hj Hn. destruct (Nat.eq_dec j i) as [->|N]; [exfalso; apply Hn; apply ED; right; reflexivity|].
      rewrite (A7 j N). apply W_new0; [exact Hj|]. intros X. apply Hn. apply ED. left. exact X.
    - intros j Hj. assert (N : j <> i) by (intros ->; contradiction). rewrite (A7 j N). apply W_out0. exact Hj.
    - intros j Hj. apply ED in Hj. destruct Hj as [Hj| ->]; [apply W_sub0; exact Hj|exact Hi].
  Qed.

  (* items that are no wait event and no result; the table is untouched *)
  Lemma WI_plain s s' w done lt :
    r_tbl s' = r_tbl s -> r_tr s' = lt ++ r_tr s -> Forall plain lt ->
    (forall o, In o (r_cache s') -> Qc (s_id o) -> calm o) -> WI s w done -> WI s' w done.
  Proof.
    intros ET ETR F C H. destruct H.
    assert (TV : forall j, tv s' j = tv s j) by (intros j; unfold tv; rewrite ET; reflexivity).
    constructor; try assumption.
    - rewrite ETR. apply good_app_plain; assumption.
    - intros j. rewrite TV. apply W_tv0.
    - intros j. rewrite ETR, la_app_plain by exact F. apply W_la0.
    - eapply RL_frame; [exact ET|exact ETR| |exact W_rl0].
      intros j. eapply Forall_impl; [|exact F]. intros it P. apply P.
    - intros i Hi. specialize (W_st0 i Hi). unfold wstat in *. rewrite ETR, lw_app_plain by exact F. exact W_st0.
    - intros i Hi Hn. rewrite ETR, lw_app_plain by exact F. apply W_new0; assumption.
    - intros j Hj. rewrite ETR, lw_app_plain by exact F. apply W_out0. exact Hj.
  Qed.

  Lemma WP_plain s s' lt :
    r_tbl s' = r_tbl s -> r_tr s' = lt ++ r_tr s -> Forall plain lt ->
    (forall o, In o (r_cache s') -> Qc (s_id o) -> calm o) -> WP s -> WP s'.
  Proof.
    intros ET ETR F C H. destruct H.
    assert (TV : forall j, tv s' j = tv s j) by (intros j; unfold tv; rewrite ET; reflexivity).
    constructor; try assumption.
    - rewrite ETR. apply good_app_plain; assumption.
    - intros j. rewrite TV. apply P_tv0.
    - intros j. rewrite ETR, la_app_plain by exact F. apply P_la0.
    - eapply RL_frame; [exact ET|exact ETR| |exact P_rl0].
      intros j. eapply Forall_impl; [|exact F]. intros it P. apply P.
    - intros j Hj. rewrite ETR, lw_app_plain by exact F. apply P_out0. exact Hj.
  Qed.

  (* the clause-1 side of every event of an id that is not skipped / is skipped *)
  Lemma bad_now s w done i : WI s w done -> In i ids -> bad (la (r_tr s) i) = w_skipped c s0 i.
  Proof. intros H Hi. rewrite (W_la _ _ _ H). symmetry. apply Hsk. exact Hi. Qed.

  Lemma skipped_now s w done i : WI s w done -> w_skipped c s i = w_skipped c s0 i.
  Proof. intros H. apply w_skipped_tv. apply (W_tv _ _ _ H). Qed.

  (* ---- WaitTask.startInner ---------------------------------------------------------------------- *)
  Lemma WI_start_step s pend done i x rc :
    WI s (mkWS pend []) done -> In i ids -> ~ In i done -> rof (Some x) = rc ->
    is_skip x = w_skipped c s0 i -> x <> WTimedOut ->
    WI (ev (rec_reconcile s i rc) (EWait g i x))
       (mkWS (match x with WPending => pend ++ [i] | _ => pend end) []) (done ++ [i]).
  Proof.
    intros H Hi Hn ER SK NT.
    assert (NP : ~ In i pend) by (intros X; apply Hn; apply (W_pin _ _ _ H); exact X).
    apply (WI_step s (mkWS pend []) done); try assumption; cbn [w_pending w_failed].
    - unfold wait_ok. rewrite (W_new _ _ _ H i Hi Hn), (bad_now _ _ _ _ H Hi), SK.
      destruct (w_skipped c s0 i); reflexivity.
    - destruct x; try exact (W_ndp _ _ _ H). apply nodup_snoc; [exact (W_ndp _ _ _ H)|exact NP].
    - constructor.
    - intros j N. destruct x; try timeout 20 tauto. rewrite in_app_iff. cbn. timeout 20 (intuition congruence).
    - intros j N. timeout 20 tauto.
    - intros j. rewrite in_app_iff. cbn. timeout 20 (intuition congruence).
    - reflexivity.
    - unfold wnew. cbn [w_pending w_failed]. destruct (w_skipped c s0 i).
      + destruct x; try discriminate. auto.
      + destruct x; try discriminate; try contradiction.
        * left. split; [apply in_or_app; right; left; reflexivity|]. split; [intros []|reflexivity].
        * right; right. split; [exact NP|]. split; [intros []|left; reflexivity].
        * right; right. split; [exact NP|]. split; [intros []|right; reflexivity].
  Qed.

  Lemma wi_wait_start :
    WI s0 (mkWS [] []) [] ->
    WI (fst (wait_start c g ids s0)) (snd (wait_start c g ids s0)) ids.
  Proof.
    intros H0. unfold wait_start.
    set (stepf := fun (acc : rst * list id) (i : id) => _).
    assert (K : forall l acc done, NoDup (done ++ l) -> incl (done ++ l) ids ->
                WI (fst acc) (mkWS (snd acc) []) done ->
                WI (fst (fold_left stepf l acc)) (mkWS (snd (fold_left stepf l acc)) []) (done ++ l)).
    { induction l as [|i l IH]; intros acc done ND IN H; cbn [fold_left]; [rewrite app_nil_r; exact H|].
      replace (done ++ i :: l) with ((done ++ [i]) ++ l) in * by (rewrite <- app_assoc; reflexivity).
      assert (Hi : In i ids) by (apply IN; apply in_or_app; left; apply in_or_app; right; left; reflexivity).
      assert (Hn : ~ In i done).
      { intros X. apply NoDup_app_elim in ND. destruct ND as [ND _].
        apply NoDup_app_elim in ND. destruct ND as [_ [_ D]]. apply (D i X). left. reflexivity. }
      apply IH; [exact ND|exact IN|].
      destruct acc as [s pend]. cbn [fst snd] in H. unfold stepf.
      rewrite (skipped_now _ _ _ i H).
      destruct (w_skipped c s0 i) eqn:SK.
      - cbn [fst snd]. apply (WI_start_step s pend done i WSkipped RSkipped); auto. discriminate.
      - destruct (changed_uid s i).
        + rewrite hcu_eq. cbn [fst snd]. remember c as c' eqn:EC in |- *. destruct c'.
          * apply (WI_start_step s pend done i WFailed RFailed); auto. discriminate.
          * apply (WI_start_step s pend done i WOk RSucceeded); auto. discriminate.
        + destruct (cond_met c s i); cbn [fst snd].
          * apply (WI_start_step s pend done i WOk RSucceeded); auto. discriminate.
          * apply (WI_start_step s pend done i WPending RPending); auto. discriminate. }
    specialize (K ids (s0, []) [] NDids (fun x Hx => Hx) H0). cbn [app] in K.
    destruct (fold_left stepf ids (s0, [])) as [s' pend]. exact K.
  Qed.

  (* ---- WaitTask.StatusUpdate ---------------------------------------------------------------------- *)
  Lemma ids_done i : In i ids -> forall j, In j ids <-> In j ids \/ j = i.
  Proof. intros Hi j. split; [auto|intros [X| ->]; assumption]. Qed.

  Lemma wi_wait_update s w i : WI s w ids -> In i ids ->
    WI (fst (wait_update c g ids s w i)) (snd (wait_update c g ids s w i)) ids.
  Proof.
    intros H Hi. unfold wait_update.
    pose proof (W_st _ _ _ H i Hi) as ST. unfold wstat in ST.
    pose proof (bad_now _ _ _ _ H Hi) as BAD.
    pose proof (skipped_now _ _ _ i H) as SKN.
    destruct (rm_facts (w_pending w) i (W_ndp _ _ _ H)) as [RP1 RP2].
    destruct (rm_facts (w_failed w) i (W_ndf _ _ _ H)) as [RF1 RF2].
    assert (CG : calm (cache_get (r_cache s) i)).
    { apply (cache_get_P (fun o => Qc (s_id o) -> calm o)); [exact (W_cache _ _ _ H)|intros _; apply calm_default|].
      rewrite cache_get_id. apply Qids. exact Hi. }
    destruct (memn i (w_pending w)) eqn:MP.
    - (* pending *)
      apply memn_In in MP.
      destruct (w_skipped c s0 i) eqn:SK; [exfalso; timeout 20 tauto|].
      destruct ST as [[_ [NF LW]]|[[X _]|[X _]]]; try contradiction.
      assert (STEP : forall x rc, rof (Some x) = rc -> x = WOk \/ x = WFailed ->
                WI (ev (rec_reconcile s i rc) (EWait g i x)) (mkWS (remove Nat.eqb (w_pending w) i) (w_failed w)) ids).
      { intros x rc ER Hx. apply (WI_step s w ids); try assumption; cbn [w_pending w_failed].
        - unfold wait_ok. rewrite LW, BAD. destruct Hx as [-> | ->]; reflexivity.
        - exact (W_ndf _ _ _ H).
        - intros j N. rewrite RP2. timeout 20 tauto.
        - intros j N. timeout 20 tauto.
        - apply ids_done. exact Hi.
        - exact (W_mode _ _ _ H).
        - unfold wnew. rewrite SK. cbn [w_pending w_failed]. right; right.
          split; [rewrite RP2; timeout 20 tauto|]. split; [exact NF|exact Hx]. }
      destruct (changed_uid s i).
      { rewrite hcu_eq. cbn [fst snd]. remember c as c' eqn:EC in |- *. destruct c'; apply STEP; auto. }
      destruct (cond_met c s i); cbn [fst snd]; [apply STEP; auto|].
      destruct (failed_by_id s i) eqn:FB; cbn [fst snd]; [|exact H].
      apply (WI_step s w ids); try assumption; cbn [w_pending w_failed].
      + reflexivity.
      + unfold wait_ok. rewrite LW, BAD. reflexivity.
      + apply nodup_snoc; [exact (W_ndf _ _ _ H)|exact NF].
      + intros j N. rewrite RP2. timeout 20 tauto.
      + intros j N. rewrite in_app_iff. cbn. timeout 20 (intuition congruence).
      + apply ids_done. exact Hi.
      + intros S M. exfalso. specialize (CG S). rewrite M in CG.
        rewrite (failed_by_id_nofail s i CG) in FB. discriminate.
      + unfold wnew. rewrite SK. cbn [w_pending w_failed]. right; left.
        split; [rewrite RP2; timeout 20 tauto|]. split; [apply in_or_app; right; left; reflexivity|reflexivity].
    - assert (NPD : ~ In i (w_pending w)) by (intros X; apply memn_In in X; congruence).
      assert (MI : memn i ids = true) by (apply memn_In; exact Hi).
      rewrite MI. cbn [negb]. rewrite SKN.
      destruct (w_skipped c s0 i) eqn:SK; [exact H|].
      destruct ST as [[X _]|ST]; [contradiction|].
      destruct (memn i (w_failed w)) eqn:MF.
      + (* in the failed set *)
        apply memn_In in MF. destruct ST as [[_ [_ LW]]|[_ [X _]]]; [|contradiction].
        assert (STEP : forall x rc, rof (Some x) = rc -> x = WOk \/ (x = WFailed /\ strict = false) ->
                  WI (ev (rec_reconcile s i rc) (EWait g i x)) (mkWS (w_pending w) (remove Nat.eqb (w_failed w) i)) ids).
        { intros x rc ER Hx. apply (WI_step s w ids); try assumption; cbn [w_pending w_failed].
          - unfold wait_ok. rewrite LW, BAD. destruct Hx as [-> |[-> ->]]; reflexivity.
          - exact (W_ndp _ _ _ H).
          - intros j N. timeout 20 tauto.
          - intros j N. rewrite RF2. timeout 20 tauto.
          - apply ids_done. exact Hi.
          - intros S M. rewrite (W_mode _ _ _ H S M) in MF. destruct MF.
          - unfold wnew. rewrite SK. cbn [w_pending w_failed]. right; right.
            split; [exact NPD|]. split; [rewrite RF2; timeout 20 tauto|]. destruct Hx as [-> |[-> _]]; auto. }
        destruct (changed_uid s i) eqn:CH.
        { rewrite hcu_eq. cbn [fst snd]. remember c as c' eqn:EC in |- *. destruct c'; apply STEP; auto.
          right. split; [reflexivity|].
          destruct (Bool.bool_dec strict true) as [S|S]; [exfalso|apply not_true_is_false; exact S].
          destruct (Bool.bool_dec mode true) as [M|M].
          - rewrite (W_mode _ _ _ H S M) in MF. destruct MF.
          - apply not_true_is_false in M. specialize (CG S). rewrite M in CG.
            rewrite (changed_uid_nouid s i CG) in CH. discriminate. }
        destruct (cond_met c s i); cbn [fst snd]; [apply STEP; auto|].
        destruct (negb (failed_by_id s i)); cbn [fst snd]; [|exact H].
        apply (WI_step s w ids); try assumption; cbn [w_pending w_failed].
        * reflexivity.
        * unfold wait_ok. rewrite LW, BAD. reflexivity.
        * apply nodup_snoc; [exact (W_ndp _ _ _ H)|exact NPD].
        * intros j N. rewrite in_app_iff. cbn. timeout 20 (intuition congruence).
        * intros j N. rewrite RF2. timeout 20 tauto.
        * apply ids_done. exact Hi.
        * intros S M. rewrite (W_mode _ _ _ H S M) in MF. destruct MF.
        * unfold wnew. rewrite SK. cbn [w_pending w_failed]. left.
          split; [apply in_or_app; right; left; reflexivity|]. split; [rewrite RF2; timeout 20 tauto|reflexivity].
      + (* settled *)
        assert (NFD : ~ In i (w_failed w)) by (intros X; apply memn_In in X; congruence).
        destruct ST as [[_ [X _]]|[_ [_ LW]]]; [contradiction|].
        assert (TVI : tv s i <> None) by (rewrite (W_tv _ _ _ H); apply Hreg; exact Hi).
        pose proof (is_rec_failed s i (W_rl _ _ _ H) TVI) as IRF.
        assert (STEP : forall x rc, rof (Some x) = rc ->
                  (x = WOk /\ lw (r_tr s) i = Some WFailed) \/ (x = WFailed /\ lw (r_tr s) i = Some WOk) ->
                  WI (ev (rec_reconcile s i rc) (EWait g i x)) w ids).
        { intros x rc ER Hx. apply (WI_step s w ids); try assumption.
          - unfold wait_ok. rewrite BAD. destruct Hx as [[-> ->]|[-> ->]]; reflexivity.
          - exact (W_ndp _ _ _ H).
          - exact (W_ndf _ _ _ H).
          - intros j N. timeout 20 tauto.
          - intros j N. timeout 20 tauto.
          - apply ids_done. exact Hi.
          - exact (W_mode _ _ _ H).
          - unfold wnew. rewrite SK. right; right. split; [exact NPD|]. split; [exact NFD|].
            destruct Hx as [[-> _]|[-> _]]; auto. }
        destruct (changed_uid s i).
        { remember c as c' eqn:EC in |- *. destruct c'; [|exact H]. rewrite IRF.
          destruct LW as [LW|LW]; rewrite LW; [|exact H].
          rewrite hcu_eq. cbn [fst snd]. apply STEP; auto. }
        destruct (negb (cond_met c s i)); cbn [fst snd].
        { apply (WI_step s w ids); try assumption; cbn [w_pending w_failed].
          - reflexivity.
          - unfold wait_ok. rewrite BAD. destruct LW as [-> | ->]; reflexivity.
          - apply nodup_snoc; [exact (W_ndp _ _ _ H)|exact NPD].
          - exact (W_ndf _ _ _ H).
          - intros j N. rewrite in_app_iff. cbn. timeout 20 (intuition congruence).
          - intros j N. timeout 20 tauto.
          - apply ids_done. exact Hi.
          - exact (W_mode _ _ _ H).
          - unfold wnew. rewrite SK. cbn [w_pending w_failed]. left.
            split; [apply in_or_app; right; left; reflexivity|]. split; [exact NFD|reflexivity]. }
        rewrite IRF. destruct LW as [LW|LW]; rewrite LW; cbn [fst snd]; [exact H|].
        apply STEP; auto.
  Qed.

  (* ---- the runner's delivery loop -------------------------------------------------------------------- *)
  Lemma wi_deliver ds : (forall d, In d ds -> calm d) -> forall s w, WI s w ids ->
    WI (fst (deliver sc c g ids ds s w)) (snd (deliver sc c g ids ds s w)) ids.
  Proof.
    induction ds as [|d t IH]; intros HD s w H; cbn [deliver]; [exact H|].
    destruct (w_pending w) eqn:EP; [exact H|]. clear EP.
    set (s2 := if o_status_events (sc_opts sc) then ev (emit s (IDeliv d)) (EStatus (s_id d) (s_st d)) else emit s (IDeliv d)).
    set (s3 := set_cache s2 (d :: r_cache s2)).
    assert (H3 : WI s3 w ids).
    { apply (WI_plain s s3 w ids (if o_status_events (sc_opts sc) then [IEv (EStatus (s_id d) (s_st d)); IDeliv d] else [IDeliv d])).
      - unfold s3, s2. destruct (o_status_events (sc_opts sc)); reflexivity.
      - unfold s3, s2. destruct (o_status_events (sc_opts sc)); reflexivity.
      - destruct (o_status_events (sc_opts sc)); repeat constructor; try apply plain_ev_status; apply plain_deliv.
      - intros o Ho. unfold s3, s2 in Ho. cbn [set_cache r_cache] in Ho. destruct Ho as [<-|Ho].
        + intros _. apply HD. left. reflexivity.
        + apply (W_cache _ _ _ H). destruct (o_status_events (sc_opts sc)); exact Ho.
      - exact H. }
    assert (HT : forall d0, In d0 t -> calm d0) by (intros d0 Hd0; apply HD; right; exact Hd0).
    destruct (memn (s_id d) ids) eqn:MI.
    - apply memn_In in MI. pose proof (wi_wait_update s3 w (s_id d) H3 MI) as U.
      destruct (wait_update c g ids s3 w (s_id d)) as [s4 w4]. cbn [fst snd] in U. apply IH; assumption.
    - apply IH; assumption.
  Qed.

  (* ---- timeout events for exactly the pending ids --------------------------------------------------- *)
  Lemma wp_timeout s w : WI s w ids -> WP (wait_timeout g s w).
  Proof.
    intros H. unfold wait_timeout.
    assert (K : forall l s1, NoDup l ->
                (forall i, In i l -> In i ids /\ lw (r_tr s1) i = Some WPending /\ w_skipped c s0 i = false) ->
                WP s1 ->
                WP (fold_left (fun s i => ev (rec_reconcile s i RTimeout) (EWait g i WTimedOut)) l s1)).
    { induction l as [|i l IH]; intros s1 ND HL P; cbn [fold_left]; [exact P|].
      inversion ND as [|? ? Ni Nl]; subst.
      destruct (HL i (or_introl eq_refl)) as [Hi [LW SK]]. destruct P.
      assert (OK : wait_ok strict (la (r_tr s1) i) (lw (r_tr s1) i) WTimedOut = true).
      { unfold wait_ok. rewrite LW, P_la0, <- (Hsk i Hi), SK. reflexivity. }
      destruct (emit_wait strict s1 i RTimeout g WTimedOut eq_refl P_good0 OK) as [A1 [A2 [A3 [A4 [A5 [A6 A7]]]]]].
      cbv zeta in *. apply IH; [exact Nl| |].
      - intros j Hj. destruct (HL j (or_intror Hj)) as [B1 [B2 B3]].
        assert (N : j <> i) by (intros ->; contradiction). rewrite (A7 j N). auto.
      - constructor.
        + exact A1.
        + intros j. rewrite A2. apply P_tv0.
        + intros j. rewrite A3. apply P_la0.
        + apply A4. exact P_rl0.
        + rewrite A5. exact P_cache0.
        + intros j Hj. assert (N : j <> i) by (intros ->; contradiction). rewrite (A7 j N). apply P_out0. exact Hj. }
    apply K; [exact (W_ndp _ _ _ H)| |exact (WI_WP _ _ _ H)].
    intros i Hi. pose proof (W_pin _ _ _ H i Hi) as Hd. pose proof (W_st _ _ _ H i Hd) as ST. unfold wstat in ST.
    split; [exact Hd|]. destruct (w_skipped c s0 i); [exfalso; timeout 20 tauto|].
    destruct ST as [[_ [_ LW]]|[[X _]|[X _]]]; try contradiction. auto.
  Qed.

  Lemma WP_set_abort s : WP s -> WP (set_abort s).
  Proof.
    intros P. apply (WP_plain s (set_abort s) []); try reflexivity; [constructor| |exact P].
    exact (P_cache _ P).
  Qed.

  Lemma WP_wait_reset s : WP s -> WP (wait_reset sc c ids s).
  Proof.
    intros P. apply (WP_plain s (wait_reset sc c ids s) []);
      [apply wait_reset_tbl|apply wait_reset_tr|constructor| |exact P].
    rewrite wait_reset_cache. exact (P_cache _ P).
  Qed.

  (* ---- the wait task ---------------------------------------------------------------------------------- *)
  Hypothesis Hdel : forall k d, In d (w_deliv (nth k (e_waits (sc_env sc)) (mkW [] WTimeout))) -> calm d.

  Theorem wp_wait_task :
    good strict (r_tr s0) -> RL s0 -> (forall o, In o (r_cache s0) -> Qc (s_id o) -> calm o) ->
    (forall i, In i ids -> lw (r_tr s0) i = None) ->
    WP (wait_task sc c g ids s0).
  Proof.
    intros G R C N. unfold wait_task. cbv zeta.
    pose proof (wi_wait_start (WI_init G R C N)) as S1.
    destruct (wait_start c g ids s0) as [s1 w1]. cbn [fst snd] in S1.
    destruct (w_pending w1); [apply WP_wait_reset; exact (WI_WP _ _ _ S1)|].
    destruct (match e_watch_err_at (sc_env sc) with Some n => Nat.eqb n (snd g) | None => false end);
      [apply WP_set_abort; exact (WI_WP _ _ _ S1)|].
    pose proof (wi_deliver (w_deliv (nth (snd g) (e_waits (sc_env sc)) (mkW [] WTimeout))) (Hdel (snd g)) s1 w1 S1) as S2.
    destruct (deliver sc c g ids _ s1 w1) as [s2 w2]. cbn [fst snd] in S2.
    destruct (w_pending w2) eqn:EP; [apply WP_wait_reset; exact (WI_WP _ _ _ S2)|]. clear EP.
    destruct (w_end _).
    - destruct (match c with AllCurrent => _ | AllNotFound => _ end);
        [apply WP_wait_reset; apply wp_timeout; exact S2|apply WP_set_abort; exact (WI_WP _ _ _ S2)].
    - apply WP_set_abort. exact (WI_WP _ _ _ S2).
  Qed.
End Machine.
