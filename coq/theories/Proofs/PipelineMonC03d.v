(* mon_C03 (convergence) as a theorem about the model, part 4: the monitor
   unfolded into named components (`mon_C03_unfold`, by reflexivity), the final
   run state of a run without error event (`run_final`), and the conjuncts of
   the monitor read off the invariant at that state. *)
From Coq Require Import List Bool Arith NArith ZArith Lia Permutation.
From CliUtils Require Import Model.ObjSet Model.ActuationTable Model.PipelineTypes Model.Pipeline
     Proofs.ObjSetProofs Proofs.ActuationTableProofs Proofs.PipelineBase Proofs.PipelineAuth Proofs.PipelineEvents
     Proofs.PipelineMisc Corr.CorrPipeline Proofs.PipelineOrphansBase Proofs.PipelineOrphansSpec Proofs.PipelineOrphansInv
     Proofs.PipelineOrphansPlan Proofs.PipelineMonBase Proofs.PipelineMonC02a Proofs.PipelineMonC02b Proofs.PipelineMonC02
     Proofs.PipelineOrphansRun Proofs.PipelineMonC10 Proofs.PipelineMonC13
     Proofs.PipelineMonC03a Proofs.PipelineMonC03b Proofs.PipelineMonC03c.
Import ListNotations.

(* ---- the monitor with its components named ------------------------------------------------------- *)
Definition ok_applied_of (evs : list evt) : list id :=
  flat_map (fun e => match e with EApply _ i AOk => [i] | _ => [] end) evs.
Definition bad_act_of (evs : list evt) : list id :=
  flat_map (fun e => match e with EApply _ i AFail | EApply _ i ASkip | EPrune _ i AFail | EPrune _ i ASkip => [i] | _ => [] end) evs.
Definition unrec_of (pl : plan) (t : list item) : list id :=
  filter (fun i => match last_wait t i with Some WFailed | Some WTimedOut => true | _ => false end)
         (map p_id (pl_apply pl) ++ map p_id (pl_prune pl)).
Definition unpruned_of (sc : scenario) (pl : plan) : list id :=
  if o_prune (sc_opts sc) then [] else map p_id (pl_prune_all pl).
Definition detached_of (c0 fin : cluster) (t : list item) : list id :=
  filter (fun i => negb (memn i (managed fin))
                   && match find_obj (objs c0) i with Some c => c_keep c | None => false end) (spared t).
Definition aliased_of (sc : scenario) (c0 fin : cluster) (t : list item) : list id :=
  filter (fun i => match find_obj (objs c0) i with
                   | Some c => negb (c_keep c) && pol_ok (o_policy (sc_opts sc)) (c_owner c)
                               && negb (negb (o_destroy (sc_opts sc)) && match u_kind (uinfo_of sc i) with KNs => ns_in_use sc (sc_local sc) i | _ => false end)
                               && forallb (fun d => existsb (fun e => match e with EPrune _ d' AOk => Nat.eqb d d' | _ => false end) (events t)
                                                    && match last_wait t d with Some WOk => true | _ => false end)
                                          (g_dependents (pl_graph (plan_of sc c0)) i)
                               && existsb (fun j => match find_obj (objs fin) j with
                                                    | Some c' => N.eqb (c_uid c') (c_uid c) | None => false end)
                                          (ok_applied_of (events t))
                   | None => false end) (spared t).
Definition expect_of (sc : scenario) (c0 : cluster) (out : outcome) : list id :=
  let t := out_trace out in
  let pl := plan_of sc c0 in
  diffn (unionn (ok_applied_of (events t))
                (intern (prev_of c0) (bad_act_of (events t) ++ unrec_of pl t ++ pl_invalid pl ++ unpruned_of sc pl)))
        (detached_of c0 (out_final out) t ++ aliased_of sc c0 (out_final out) t).

Definition gone_ok (sc : scenario) (fin : cluster) (e : evt) : bool :=
  match e with
  | EPrune _ i AOk => match find_obj (objs fin) i with None => true | Some _ => u_fin (uinfo_of sc i) end
  | _ => true
  end.

Lemma mon_C03_unfold sc c0 out :
  mon_C03 sc c0 out =
  if has_error (out_trace out) || is_dry (o_dry (sc_opts sc)) then true else
  match inv (out_final out) with
  | None => o_destroy (sc_opts sc) && match managed (out_final out) with [] => true | l => subsetn l (exempt0 c0) end
  | Some l =>
      set_eqn l (expect_of sc c0 out)
      && forallb (fun i => memn i (managed (out_final out))) (ok_applied_of (events (out_trace out)))
      && forallb (gone_ok sc (out_final out)) (events (out_trace out))
  end.
Proof. reflexivity. Qed.

(* ---- membership in the components ------------------------------------------------------------------ *)
Lemma in_ok_applied evs i : In i (ok_applied_of evs) <-> exists g, In (EApply g i AOk) evs.
Proof.
  unfold ok_applied_of. rewrite in_flat_map. split.
  - intros [e [He Hi]]. destruct e as [| | | |g j s| | | |]; try contradiction. destruct s; try contradiction.
    destruct Hi as [<-|[]]. exists g. exact He.
  - intros [g Hg]. exists (EApply g i AOk). split; [exact Hg|left; reflexivity].
Qed.

Lemma in_bad_act evs i : In i (bad_act_of evs) <->
  exists g, In (EApply g i AFail) evs \/ In (EApply g i ASkip) evs \/ In (EPrune g i AFail) evs \/ In (EPrune g i ASkip) evs.
Proof.
  unfold bad_act_of. rewrite in_flat_map. split.
  - intros [e [He Hi]]. destruct e as [| | | |g j s|g j s| | |]; try contradiction; destruct s; try contradiction;
      destruct Hi as [<-|[]]; exists g; auto.
  - intros [g [H|[H|[H|H]]]]; eexists; (split; [exact H|left; reflexivity]).
Qed.

Lemma in_spared t i : In i (spared t) <-> exists g, In (EPrune g i ASkip) (events t).
Proof.
  unfold spared. rewrite in_flat_map. split.
  - intros [e [He Hi]]. destruct e as [| | | | |g j s| | |]; try contradiction. destruct s; try contradiction.
    destruct Hi as [<-|[]]. exists g. exact He.
  - intros [g Hg]. exists (EPrune g i ASkip). split; [exact Hg|left; reflexivity].
Qed.

Lemma prop_inv (A0 P X B U Q I AB AL : Prop) :
  (X <-> (B \/ U \/ Q)) -> ~ AL -> (AB -> I -> False) ->
  ((((A0 \/ (P /\ X)) /\ ~ AB) \/ (P /\ I)) <-> ((A0 \/ (P /\ (B \/ U \/ I \/ Q))) /\ ~ (AB \/ AL))).
Proof. tauto. Qed.

Section Final.
  Variable sc : scenario.
  Variable c0 : cluster.
  Hypothesis HWF : WF sc c0.
  Hypothesis ND : is_dry (o_dry (sc_opts sc)) = false.
  Hypothesis NE : has_error (out_trace (run sc c0)) = false.
  Notation pl := (plan_of sc c0).
  Notation sf := (run_state sc c0).
  Notation t := (out_trace (run sc c0)).
  Notation fin := (out_final (run sc c0)).
  Notation aids := (apply_ids pl).

  Lemma ev_in e : In e (events t) <-> In (IEv e) (r_tr sf).
  Proof.
    rewrite events_evs. split.
    - intros H. apply evs_In in H. apply in_out_trace in H. destruct H as [H|H]; [discriminate|exact H].
    - intros H. apply In_evs. apply in_out_trace. right. exact H.
  Qed.

  Lemma lw_run i : last_wait t i = lw (r_tr sf) i.
  Proof. rewrite out_trace_run. apply last_wait_rev. Qed.

  Lemma no_error_state : ~ In (IEv EError) (r_tr sf).
  Proof.
    intros H. apply (has_error_false _ NE). apply In_evs. apply in_out_trace. right. exact H.
  Qed.

  (* the end of the run *)
  Lemma run_final :
    CInv sc c0 pl [] sf /\ BInv c0 pl sf /\
    ((o_destroy (sc_opts sc) = true /\ inv (r_cl sf) = None) \/
     exists L, inv (r_cl sf) = Some L /\ forall i, In i L <-> In i (final_inventory pl (prev_of c0) sf)).
  Proof.
    pose proof no_error_state as NOERR.
    destruct (run_state_shape sc c0) as [s C T|s C T _ _|s4 SO _ _|s4 prev SO _ _ PV];
      try (exfalso; apply NOERR; left; reflexivity).
    destruct (tasks_of_snoc sc pl) as [ts ET]. rewrite ET in *.
    assert (START : CInv sc c0 pl (todo_of (ts ++ [TInvSet])) (pre_tasks sc c0 s4)).
    { rewrite <- ET. apply (CInv_pre_tasks sc c0 HWF). apply (CInv_start sc c0 HWF). exact SO. }
    assert (SCH : csched sc pl (ts ++ [TInvSet])) by (rewrite <- ET; apply (csched_tasks_of sc c0 HWF ND)).
    pose proof (c_run_tasks sc c0 pl ND (wf_uid_lt sc c0 HWF) (wf_uid_inj sc c0 HWF) (pl_disj sc c0 HWF)
                  (pl_prune_c0 sc c0) (plan_of_local sc c0) (locals_of sc) prev ts _ SCH START NOERR) as EN.
    destruct (ends_final sc c0 pl ND (pl_disj sc c0 HWF) prev _ EN) as [CI FI].
    split; [exact CI|]. split.
    - apply (fin_run_tasks sc c0 pl ND (plan_of_prune sc c0) (plan_of_local sc c0)).
      + pose proof (plan_of_tasks_ok sc c0) as OK. rewrite ET in OK. apply Forall_app in OK. apply OK.
      + apply BInv_pre_tasks, BInv_start; try apply SO. apply HWF.
      + exact NOERR.
    - destruct FI as [X|[pv [L [E1 [E2 E3]]]]]; [left; exact X|right].
      exists L. split; [exact E2|]. destruct PV as [PV|PV]; [congruence|]. rewrite PV in E1. injection E1 as <-. exact E3.
  Qed.

  Section AtEnd.
    Hypothesis CI : CInv sc c0 pl [] sf.
    Hypothesis BI : BInv c0 pl sf.

    Lemma nopend j st a u : tv sf j = Some (st, a, u) -> a <> APending.
    Proof. intros H ->. exact (C_todo _ _ _ _ _ CI j st u H). Qed.

    Lemma wf_destroy_prune : o_prune (sc_opts sc) = false -> o_destroy (sc_opts sc) = false.
    Proof.
      intros P. destruct (o_destroy (sc_opts sc)) eqn:D; [|reflexivity].
      destruct HWF as [_ [_ [_ [_ [_ [W _]]]]]]. rewrite (W D) in P. discriminate.
    Qed.

    (* successful applies *)
    Lemma okap_tbl i : In i (with_actuation (r_tbl sf) SApply ASucceeded) <-> In i (ok_applied_of (events t)).
    Proof.
      rewrite (with_actuation_tv _ _ _ _ (C_keys _ _ _ _ _ CI)), in_ok_applied. split.
      - intros [u Hu]. destruct (C_tb _ _ _ _ _ CI i SApply ASucceeded u Hu) as [[_ [g Hg]]|[[X _]|[X _]]]; try discriminate.
        exists g. apply ev_in. exact Hg.
      - intros [g Hg]. apply ev_in in Hg. destruct (C_evap _ _ _ _ _ CI g i AOk Hg) as [a [u [Ht [_ Ea]]]].
        apply ast_of_ok in Ea. subst a. exists u. exact Ht.
    Qed.

    (* abandoned = detached; nothing is aliased *)
    Lemma aband_pids i : In i (r_aband sf) -> In i (pids pl) /\ exists g, In (IEv (EPrune g i ASkip)) (r_tr sf).
    Proof.
      intros H. destruct (C_ab _ _ _ _ _ CI i H) as [[g Hg] _].
      destruct (C_evpr _ _ _ _ _ CI g i ASkip Hg) as [_ [Hp _]]. split; [exact Hp|exists g; exact Hg].
    Qed.

    Lemma detached_aband i : In i (detached_of c0 fin t) <-> In i (r_aband sf).
    Proof.
      unfold detached_of. rewrite filter_In, in_spared. split.
      - intros [[g Hg] Hc]. apply andb_true_iff in Hc. destruct Hc as [_ Hc].
        destruct (find_obj (objs c0) i) as [c|] eqn:F; [|discriminate]. apply ev_in in Hg.
        exact (proj1 (B_ab _ _ _ BI i c g F Hc Hg)).
      - intros H. destruct (C_ab _ _ _ _ _ CI i H) as [[g Hg] [c [Hc K]]].
        assert (SP : In i (spared t)) by (apply in_spared; exists g; apply ev_in; exact Hg).
        split; [exists g; apply ev_in; exact Hg|]. unfold fo in Hc. rewrite Hc, K, andb_true_r.
        apply negb_true_iff. apply memn_false.
        exact (proj1 (monitor_C02_final sc c0 (proj1 (proj2 HWF)) ND NE i c SP Hc K)).
    Qed.

    Lemma not_aliased i : ~ In i (aliased_of sc c0 fin t).
    Proof.
      unfold aliased_of. rewrite filter_In, in_spared. intros [[g Hg] Hc]. apply ev_in in Hg.
      destruct (C_evpr _ _ _ _ _ CI g i ASkip Hg) as [_ [Hp _]].
      destruct (find_obj (objs c0) i) as [c|] eqn:F; [|discriminate].
      apply andb_true_iff in Hc. destruct Hc as [_ Hc]. apply existsb_exists in Hc. destruct Hc as [j [Hj Hu]].
      apply in_ok_applied in Hj. destruct Hj as [g' Hj]. apply ev_in in Hj.
      destruct (C_evap _ _ _ _ _ CI g' j AOk Hj) as [a [u [Ht _]]].
      destruct (C_app _ _ _ _ _ CI j a u Ht) as [Ha _].
      destruct (find_obj (objs fin) j) as [c'|] eqn:F'; [|discriminate]. apply N.eqb_eq in Hu.
      change (find_obj (objs fin) j) with (fo fin j) in F'. rewrite out_final_run, fo_norm in F'.
      destruct (C_uid _ _ _ _ _ CI j c' F') as [[c'' [Hc'' E]]|Hn].
      - assert (j = i) by (apply (wf_uid_inj sc c0 HWF j i c'' c Hc'' F); congruence). subst j.
        exact (pl_disj sc c0 HWF i Ha Hp).
      - pose proof (wf_uid_lt sc c0 HWF i c F) as LT. rewrite <- Hu in LT. lia.
    Qed.

    (* retention by failed / skipped actuation, failed / timed-out reconciliation, disabled pruning *)
    Lemma retained_iff i :
      (In i (with_actuation (r_tbl sf) SApply AFailed) \/ In i (with_actuation (r_tbl sf) SApply ASkipped) \/
       In i (with_actuation (r_tbl sf) SDelete AFailed) \/ In i (with_actuation (r_tbl sf) SDelete ASkipped) \/
       In i (with_reconcile (r_tbl sf) RFailed) \/ In i (with_reconcile (r_tbl sf) RTimeout))
      <-> (In i (bad_act_of (events t)) \/ In i (unrec_of pl t) \/ In i (unpruned_of sc pl)).
    Proof.
      pose proof (C_keys _ _ _ _ _ CI) as KN.
      rewrite !(with_actuation_tv _ _ _ _ KN), !(with_reconcile_spec id Nat.eqb nat_eqb_spec _ _ _ KN), in_bad_act.
      assert (UNREC : forall x rc, rof (Some x) = rc -> (rc = RFailed \/ rc = RTimeout) ->
                (exists r, lookup Nat.eqb (r_tbl sf) i = Some r /\ r_rec r = rc) <->
                ((In i (map p_id (pl_apply pl)) \/ In i (map p_id (pl_prune pl))) /\ lw (r_tr sf) i = Some x)).
      { intros x rc Ex Hrc. split.
        - intros [r [L E]]. pose proof (C_rl _ _ _ _ _ CI i r L) as R. rewrite E in R.
          assert (LW : lw (r_tr sf) i = Some x).
          { destruct (lw (r_tr sf) i) as [y|]; [|cbn in R; destruct Hrc; congruence].
            destruct x, y; cbn in Ex, R; destruct Hrc; try congruence; reflexivity. }
          split; [|exact LW]. destruct (lw_some _ _ _ LW) as [g Hg].
          destruct (C_evw _ _ _ _ _ CI g i x Hg) as [X|[_ X]]; [left|right]; exact X.
        - intros [_ LW]. destruct (lw_some _ _ _ LW) as [g Hg].
          pose proof (C_reg _ _ _ _ _ CI i (C_evw _ _ _ _ _ CI g i x Hg)) as RG. unfold tv, tvl in RG.
          destruct (lookup Nat.eqb (r_tbl sf) i) as [r|] eqn:L; [|exfalso; apply RG; reflexivity].
          exists r. split; [reflexivity|]. rewrite (C_rl _ _ _ _ _ CI i r L), LW. exact Ex. }
      assert (INUN : In i (unrec_of pl t) <->
                (In i (map p_id (pl_apply pl)) \/ In i (map p_id (pl_prune pl))) /\
                (lw (r_tr sf) i = Some WFailed \/ lw (r_tr sf) i = Some WTimedOut)).
      { unfold unrec_of. rewrite filter_In, in_app_iff, lw_run. split.
        - intros [H1 H2]. split; [exact H1|]. destruct (lw (r_tr sf) i) as [[]|]; try discriminate; auto.
        - intros [H1 [H2|H2]]; rewrite H2; auto. }
      split.
      - intros [[u H]|[[u H]|[[u H]|[[u H]|[H|H]]]]].
        + destruct (C_tb _ _ _ _ _ CI i _ _ _ H) as [[_ [g Hg]]|[[X _]|[X _]]]; try discriminate.
          left. exists g. left. apply ev_in. exact Hg.
        + destruct (C_tb _ _ _ _ _ CI i _ _ _ H) as [[_ [g Hg]]|[[X _]|[X _]]]; try discriminate.
          left. exists g. right; left. apply ev_in. exact Hg.
        + destruct (C_tb _ _ _ _ _ CI i _ _ _ H) as [[X _]|[[_ [g Hg]]|[_ [X _]]]]; try discriminate.
          left. exists g. right; right; left. apply ev_in. exact Hg.
        + destruct (C_tb _ _ _ _ _ CI i _ _ _ H) as [[X _]|[[_ [g Hg]]|[_ [_ [_ [U2 U3]]]]]]; try discriminate.
          * left. exists g. right; right; right. apply ev_in. exact Hg.
          * right; right. unfold unpruned_of. rewrite U2. exact U3.
        + right; left. apply INUN. apply (UNREC WFailed RFailed eq_refl (or_introl eq_refl)) in H. destruct H; auto.
        + right; left. apply INUN. apply (UNREC WTimedOut RTimeout eq_refl (or_intror eq_refl)) in H. destruct H; auto.
      - intros [[g [H|[H|[H|H]]]]|[H|H]].
        + apply ev_in in H. destruct (C_evap _ _ _ _ _ CI g i _ H) as [a [u [Ht [Hn Ea]]]].
          left. exists u. destruct a; try discriminate; [congruence|exact Ht].
        + apply ev_in in H. destruct (C_evap _ _ _ _ _ CI g i _ H) as [a [u [Ht [Hn Ea]]]].
          right; left. exists u. destruct a; try discriminate. exact Ht.
        + apply ev_in in H. destruct (C_evpr _ _ _ _ _ CI g i _ H) as [_ [_ [a [u [Ht [Hn Ea]]]]]].
          right; right; left. exists u. destruct a; try discriminate; [congruence|exact Ht].
        + apply ev_in in H. destruct (C_evpr _ _ _ _ _ CI g i _ H) as [_ [_ [a [u [Ht [Hn Ea]]]]]].
          right; right; right; left. exists u. destruct a; try discriminate. exact Ht.
        + apply INUN in H. destruct H as [H1 [H2|H2]].
          * right; right; right; right; left. apply (UNREC WFailed RFailed eq_refl (or_introl eq_refl)). auto.
          * right; right; right; right; right. apply (UNREC WTimedOut RTimeout eq_refl (or_intror eq_refl)). auto.
        + unfold unpruned_of in H. destruct (o_prune (sc_opts sc)) eqn:P; [destruct H|].
          right; right; right; left. exists 0%N. apply (C_unreg _ _ _ _ _ CI). split; [apply wf_destroy_prune; exact P|auto].
    Qed.

    (* conjunct 1: the stored inventory *)
    Lemma inventory_eq i : In i (final_inventory pl (prev_of c0) sf) <-> In i (expect_of sc c0 (run sc c0)).
    Proof.
      rewrite final_inventory_spec. unfold expect_of. cbv zeta.
      rewrite diffn_In, unionn_In, intern_In, in_app_iff, !in_app_iff, detached_aband, <- okap_tbl.
      apply (prop_inv _ _ _ _ _ _ _ _ _ (retained_iff i) (not_aliased i)).
      intros X Hi. destruct (aband_pids i X) as [Hpi _]. exact (pids_valid sc c0 i Hpi Hi).
    Qed.

    (* conjunct 2: every successfully applied object is live with our annotation *)
    Lemma applied_managed i : In i (ok_applied_of (events t)) -> In i (managed fin).
    Proof.
      intros H. apply in_ok_applied in H. destruct H as [g Hg]. apply ev_in in Hg.
      destruct (C_okap _ _ _ _ _ CI g i Hg) as [c [Hc Hw]].
      rewrite out_final_run. apply (managed_norm_iff _ _ (C_nd _ _ _ _ _ CI)). eapply fo_managed; eassumption.
    Qed.

    (* conjunct 3: objects whose delete succeeded are gone *)
    Lemma deleted_gone e : In e (events t) -> gone_ok sc fin e = true.
    Proof.
      intros H. destruct e as [| | | | |g i s| | |]; try reflexivity. destruct s; try reflexivity.
      apply ev_in in H. pose proof (C_gone _ _ _ _ _ CI g i H) as G. cbn [gone_ok].
      change (find_obj (objs fin) i) with (fo fin i). rewrite out_final_run, fo_norm.
      destruct G as [G|G]; [rewrite G; reflexivity|]. destruct (fo (r_cl sf) i); [exact G|reflexivity].
    Qed.

    (* the destroy branch: nothing that was tracked is left managed *)
    Lemma destroy_clean : o_destroy (sc_opts sc) = true -> inv (r_cl sf) = None ->
      forall i, In i (managed fin) -> In i (exempt0 c0).
    Proof.
      intros D EI i Hi.
      pose proof (orphans_destroy sc c0 HWF D) as M. unfold mon_C01 in M. apply andb_true_iff in M. destruct M as [_ M].
      unfold snap_ok in M. rewrite forallb_forall in M. specialize (M i Hi). apply orb_true_iff in M.
      destruct M as [M|M]; [apply memn_In; exact M|].
      rewrite out_final_run in M. cbn [norm_cluster inv] in M. unfold stored in M. rewrite EI in M. cbn [option_map] in M.
      destruct (sc_inv_ns sc) as [n|]; [|discriminate]. destruct (inv c0) eqn:E0; [discriminate|].
      apply exempt0_In. split.
      - rewrite out_final_run in Hi. apply managed_norm in Hi.
        destruct (managed_fo _ i (C_nd _ _ _ _ _ CI) Hi) as [c [Hc Hw]].
        destruct (C_own _ _ _ _ _ CI i c Hc Hw) as [[c1 [H1 H2]]|X].
        + eapply fo_managed; eassumption.
        + rewrite (destroy_no_apply sc c0 D) in X. destruct X.
      - unfold inv0. rewrite E0. intros [].
    Qed.
  End AtEnd.
End Final.
