(* mon_C13 (Corr/CorrPipeline.v) holds of every run of the model: the boolean
   grammar checker accepts every event stream the run produces.
   Hypothesis: an apply set names each object once (first clause of WF) - with
   a duplicated manifest id the apply task emits two result events for it and
   the "exactly one result event per object" clause of the grammar is false. *)
From Coq Require Import List Bool Arith NArith ZArith Lia Permutation.
From CliUtils Require Import Model.ObjSet Model.ActuationTable Model.PipelineTypes Model.Pipeline
     Proofs.ObjSetProofs Proofs.PipelineBase Proofs.PipelineAuth Proofs.PipelineEvents
     Corr.CorrPipeline Proofs.PipelineOrphansBase Proofs.PipelineOrphansPlan Proofs.PipelineMonBase.
Import ListNotations.

(* ---- part A: the close marker is never recorded by the run itself ------------------- *)
Definition Qn (it : item) : Prop := it <> IClosed.
Definition Ct (a b : cluster) : Prop := True.

Lemma Ct_refl : forall c, Ct c c. Proof. intros; exact I. Qed.
Lemma Ct_trans : forall a b c, Ct a b -> Ct b c -> Ct a c. Proof. intros; exact I. Qed.
Lemma Qn_ev : forall e, Qn (IEv e). Proof. intros e; discriminate. Qed.
Lemma Qn_deliv : forall d, Qn (IDeliv d). Proof. intros d; discriminate. Qed.

Notation nstep := (step Qn Ct).

Lemma n_refl s : nstep s s. Proof. apply (step_refl Qn Ct Ct_refl). Qed.
Lemma n_tr a b c : nstep a b -> nstep b c -> nstep a c. Proof. apply (step_trans Qn Ct Ct_trans). Qed.
Lemma n_same s s' : r_tr s' = r_tr s -> nstep s s'.
Proof. intros H. split; [exact I|]. exists []. split; [exact H|constructor]. Qed.
Lemma n_ev s e : nstep s (ev s e). Proof. apply (step_ev Qn Ct Ct_refl Qn_ev). Qed.
Lemma n_log_req s r ok : nstep s (log_req s r ok).
Proof. apply (step_emit Qn Ct Ct_refl). discriminate. Qed.

(* goals "nstep s X" where X is built from s (or from a state reached by a hypothesis) by primitive operations *)
Ltac ns :=
  lazymatch goal with
  | |- nstep ?s ?s => apply n_refl
  | |- nstep ?s (rec_add ?x _ _ _ _ _) => apply (n_tr s x); [ns|apply n_same; reflexivity]
  | |- nstep ?s (ev ?x _) => apply (n_tr s x); [ns|apply n_ev]
  | |- nstep ?s (log_req ?x _ _) => apply (n_tr s x); [ns|apply n_log_req]
  | |- nstep ?s (set_cl ?x _) => apply (n_tr s x); [ns|apply n_same; reflexivity]
  | |- nstep ?s (add_aband ?x _) => apply (n_tr s x); [ns|apply n_same; reflexivity]
  | |- nstep ?s (set_abort ?x) => apply (n_tr s x); [ns|apply n_same; reflexivity]
  | |- nstep ?s (maybe_cancel ?c ?x ?i) =>
      apply (n_tr s x); [ns|apply (step_maybe_cancel c Qn Ct Ct_refl)]
  | |- nstep ?s ?x => first [assumption | apply n_same; reflexivity]
  end.

Section NoClosed.
  Variable sc : scenario.

  Lemma n_inv_list s : nstep s (fst (inv_list sc s)).
  Proof. apply (step_inv_list sc Qn Ct Ct_refl). Qed.
  Lemma n_get_obj s i : nstep s (fst (get_obj sc s i)).
  Proof. apply (step_get_obj sc Qn Ct Ct_refl). Qed.

  Lemma n_inv_apply s ids : nstep s (fst (inv_apply sc s ids)).
  Proof.
    unfold inv_apply. cbv zeta. destruct (faulted sc (FInvGet _)); cbn [fst]; [ns|].
    destruct (faulted sc (FInvWrite _)); cbn [fst]; ns.
  Qed.
  Lemma n_inv_update s ids : nstep s (fst (inv_update sc s ids)).
  Proof.
    unfold inv_update. cbv zeta. destruct (faulted sc (FInvWrite _)); cbn [fst]; [ns|].
    cbn [r_cl]. destruct (inv (r_cl s)); cbn [fst]; ns.
  Qed.
  Lemma n_merge s ids : nstep s (fst (merge sc s ids)).
  Proof.
    unfold merge. cbv zeta.
    pose proof (n_inv_list s) as L1. destruct (inv_list sc s) as [s1 r1]. cbn [fst] in L1.
    destruct r1 as [[l|]|]; cbn [fst]; try exact L1.
    - pose proof (n_inv_list s1) as L2. destruct (inv_list sc s1) as [s2 r2]. cbn [fst] in L2.
      pose proof (n_tr _ _ _ L1 L2) as L12.
      destruct r2 as [cur0|]; cbn [fst]; [|exact L12].
      destruct (set_eqn _ _ && _); cbn [fst]; [exact L12|].
      destruct (is_dry _); cbn [fst]; [exact L12|].
      eapply n_tr; [exact L12|apply n_inv_apply].
    - destruct (is_dry _); cbn [fst]; [exact L1|]. eapply n_tr; [exact L1|apply n_inv_apply].
  Qed.
  Lemma n_replace s ids : nstep s (fst (replace sc s ids)).
  Proof.
    unfold replace. cbv zeta. destruct (is_dry _); cbn [fst]; [apply n_refl|].
    pose proof (n_inv_list s) as L1. destruct (inv_list sc s) as [s1 r1]. cbn [fst] in L1.
    destruct r1 as [x|]; cbn [fst]; [|exact L1].
    pose proof (n_inv_list s1) as L2. destruct (inv_list sc s1) as [s2 r2]. cbn [fst] in L2.
    pose proof (n_tr _ _ _ L1 L2) as L12.
    destruct r2 as [[cur|]|]; cbn [fst]; try exact L12.
    destruct (set_eqn _ _ && _); cbn [fst]; [exact L12|].
    eapply n_tr; [exact L12|apply n_inv_update].
  Qed.

  Lemma n_ssa_patch l s n : nstep s (fst (ssa_patch sc s l n)).
  Proof.
    unfold ssa_patch. cbv zeta.
    destruct (faulted sc (FStream _ _)); cbn [fst]; [ns|].
    destruct (faulted sc (FApply _)); cbn [fst]; [ns|].
    destruct (find_obj _ _); destruct (match o_dry (sc_opts sc) with DServer => true | _ => false end); cbn [fst]; ns.
  Qed.

  Lemma n_csa_apply l s : nstep s (fst (csa_apply sc s l)).
  Proof.
    unfold csa_apply. cbv zeta.
    pose proof (n_get_obj s (l_id l)) as G. destruct (get_obj sc s (l_id l)) as [s1 g]. cbn [fst] in G.
    destruct g; cbn [fst]; try exact G.
    + destruct (is_dry _); cbn [fst]; [exact G|]. destruct (faulted sc _); cbn [fst]; ns.
    + destruct (negb (patch_needed c l)); cbn [fst]; [exact G|].
      destruct (is_dry _); cbn [fst]; [exact G|]. destruct (faulted sc _); cbn [fst]; ns.
  Qed.

  Lemma n_kubectl_apply s l : nstep s (fst (kubectl_apply sc s l)).
  Proof. exact (kubectl_apply_step sc l (fun a b => nstep a b) n_tr (n_ssa_patch l) (n_csa_apply l) s). Qed.

  Lemma n_apply_one pl g s p : nstep s (apply_one sc pl g s p).
  Proof.
    unfold apply_one. destruct (p_local p) as [l|]; [|apply n_refl].
    destruct (negb (kind_known sc (r_known s) (p_id p))); [ns|].
    pose proof (step_policy_apply_filter sc Qn Ct Ct_refl s (p_id p)) as P.
    destruct (policy_apply_filter sc s (p_id p)) as [s1 f1]. cbn [fst] in P.
    destruct (match f1 with FPass => _ | _ => _ end); try ns.
    pose proof (step_mutate sc Qn Ct Ct_refl Ct_trans s1 l) as M. destruct (mutate sc s1 l) as [sm okm]. cbn [fst] in M.
    pose proof (n_tr _ _ _ P M) as PM. destruct okm; cbn [negb]; [|ns].
    pose proof (n_kubectl_apply sm l) as K. destruct (kubectl_apply sc sm l) as [s2 r]. cbn [fst] in K.
    pose proof (n_tr _ _ _ PM K) as PK. destruct r; ns.
  Qed.

  Lemma n_prune_one pl locals g uids s p : nstep s (prune_one sc pl locals g uids s p).
  Proof.
    unfold prune_one. cbv zeta. destruct (p_live p) as [c|]; [|apply n_refl].
    destruct (prune_filters sc pl locals (r_tbl s) uids c).
    all: repeat match goal with
                | |- context [if ?b then _ else _] => destruct b
                | |- context [match c_owner ?x with _ => _ end] => destruct (c_owner x)
                | |- context [match find_obj ?a ?b with _ => _ end] => destruct (find_obj a b)
                end.
    all: ns.
  Qed.

  Lemma n_inv_add_task pl s : nstep s (fst (inv_add_task sc pl s)).
  Proof.
    unfold inv_add_task. cbv zeta.
    match goal with |- nstep s (fst (let '(s1, ok1) := ?X in _)) =>
      assert (H : nstep s (fst X)); [|destruct X as [s1 ok1]; cbn [fst] in H] end.
    { destruct (match sc_inv_ns sc with Some n => _ | None => None end) as [p|]; [|apply n_refl].
      destruct (p_local p); [|apply n_refl].
      destruct (is_dry _); cbn [fst]; [apply n_refl|].
      destruct (faulted sc FNsCreate); cbn [fst]; [ns|].
      destruct (find_obj _ _); cbn [fst]; ns. }
    destruct ok1; cbn [fst]; [|exact H]. eapply n_tr; [exact H|apply n_merge].
  Qed.

  Lemma n_delete_inventory s : nstep s (fst (delete_inventory sc s)).
  Proof.
    unfold delete_inventory. cbv zeta.
    pose proof (n_inv_list s) as L1. destruct (inv_list sc s) as [s1 r1]. cbn [fst] in L1.
    destruct r1 as [[l|]|]; cbn [fst]; try exact L1.
    destruct (is_dry _); cbn [fst]; [exact L1|].
    destruct (faulted sc FInvDelete); cbn [fst]; ns.
  Qed.

  Lemma n_inv_set_task pl prev s : nstep s (fst (inv_set_task sc pl prev s)).
  Proof.
    unfold inv_set_task. destruct prev as [pv|]; cbn [fst]; [|apply n_refl].
    destruct (o_destroy (sc_opts sc) && destroy_successful pl pv s); [apply n_delete_inventory|apply n_replace].
  Qed.

  Lemma n_run_task pl locals prev s t : nstep s (fst (run_task sc pl locals prev s t)).
  Proof.
    unfold run_task. cbv zeta.
    pose proof (n_ev s (EStarted (task_name t))) as S0.
    destruct t.
    - pose proof (n_inv_add_task pl (ev s (EStarted (task_name TInvAdd)))) as T.
      destruct (inv_add_task sc pl _) as [s1 ok]. cbn [fst] in *. pose proof (n_tr _ _ _ S0 T). ns.
    - cbn [fst]. eapply n_tr; [|apply n_ev]. eapply n_tr; [exact S0|].
      unfold apply_task. apply (step_fold Qn Ct Ct_refl Ct_trans). intros; apply n_apply_one.
    - cbn [fst]. eapply n_tr; [|apply n_ev]. eapply n_tr; [exact S0|].
      apply (step_wait_task sc Qn Ct Ct_refl Ct_trans Qn_ev Qn_deliv).
    - cbn [fst]. eapply n_tr; [|apply n_ev]. eapply n_tr; [exact S0|].
      unfold prune_task. apply (step_fold Qn Ct Ct_refl Ct_trans). intros; apply n_prune_one.
    - pose proof (n_inv_set_task pl prev (ev s (EStarted (task_name TInvSet)))) as T.
      destruct (inv_set_task sc pl prev _) as [s1 ok]. cbn [fst] in *. pose proof (n_tr _ _ _ S0 T). ns.
  Qed.

  Lemma n_run_tasks pl locals prev ts : forall s, nstep s (run_tasks sc pl locals prev s ts).
  Proof.
    induction ts as [|t rest IH]; intros s; cbn [run_tasks]; [apply n_refl|].
    pose proof (n_run_task pl locals prev s t) as T.
    destruct (run_task sc pl locals prev s t) as [s1 ok]. cbn [fst] in T.
    destruct (negb ok); [ns|]. destruct (r_abort s1); [ns|].
    eapply n_tr; [exact T|apply IH].
  Qed.

  Lemma n_pre_tasks c0 s : nstep s (pre_tasks sc c0 s).
  Proof.
    unfold pre_tasks. eapply n_tr; [|apply n_ev].
    apply (step_fold Qn Ct Ct_refl Ct_trans). intros; apply n_ev.
  Qed.

  Theorem run_state_no_closed c0 : ~ In IClosed (r_tr (run_state sc c0)).
  Proof.
    assert (K : forall s sf, r_tr s = [] -> nstep s sf -> ~ In IClosed (r_tr sf)).
    { intros s sf E [_ [l [El F]]] H. rewrite El, E, app_nil_r in H. rewrite Forall_forall in F. exact (F _ H eq_refl). }
    destruct (run_state_shape sc c0) as [s C T|s C T _ _|s4 SO _ _|s4 prev SO _ _ _].
    - apply (K s); [exact T|apply n_ev].
    - apply (K s); [exact T|apply n_ev].
    - apply (K s4); [apply SO|]. eapply n_tr; [apply n_pre_tasks|apply n_ev].
    - apply (K s4); [apply SO|]. eapply n_tr; [apply n_pre_tasks|apply n_run_tasks].
  Qed.
End NoClosed.

(* ---- part B: the boolean grammar checker accepts the streams of the grammar ---------------- *)
Lemma events_evs t : events t = evs t.
Proof. reflexivity. Qed.

Lemma gn_eqb_refl g : gn_eqb g g = true.
Proof. destruct g as [k n]. unfold gn_eqb. cbn. rewrite Nat.eqb_refl. destruct k; reflexivity. Qed.

Lemma take_body_app g body rest :
  Forall (fun e => body_ok g e = true) body ->
  match rest with e :: _ => body_ok g e = false | [] => True end ->
  take_body g (body ++ rest) = (body, rest).
Proof.
  intros F R. induction F as [|e body He _ IH]; cbn [app take_body].
  - destruct rest as [|e r]; [reflexivity|]. cbn [take_body]. rewrite R. reflexivity.
  - rewrite He, IH. reflexivity.
Qed.

Definition task_nd (t : task) : Prop :=
  match t with TApply _ l | TPrune _ l => NoDup (map p_id l) | _ => True end.

Lemma single_id (layer : list pobj) i : NoDup (map p_id layer) -> In i (map p_id layer) ->
  length (filter (fun p => Nat.eqb i (p_id p)) layer) = 1.
Proof.
  intros ND Hi. pose proof (filter_id_single layer i ND Hi) as E.
  rewrite (filter_ext (fun p => Nat.eqb i (p_id p)) (fun p => Nat.eqb (p_id p) i)) by (intros; apply Nat.eqb_sym).
  rewrite <- (map_length p_id), E. reflexivity.
Qed.

Lemma body_spec_ok t body : body_spec t body -> Forall (fun e => body_ok (task_name t) e = true) body.
Proof.
  destruct t; cbn [body_spec task_name].
  - intros ->. constructor.
  - unfold apply_body. induction 1 as [|p e l l' [st ->] _ IH]; constructor; [|exact IH].
    cbn [body_ok]. rewrite gn_eqb_refl. reflexivity.
  - intros [F _]. eapply Forall_impl; [|exact F]. intros e [[i [st [-> _]]]|[i [st ->]]]; cbn [body_ok]; [|reflexivity].
    rewrite gn_eqb_refl. reflexivity.
  - unfold prune_body. induction 1 as [|p e l l' [st ->] _ IH]; constructor; [|exact IH].
    cbn [body_ok]. rewrite gn_eqb_refl. reflexivity.
  - intros ->. constructor.
Qed.

Section Complete.
  Variable sc : scenario.
  Variable pl : plan.

  Lemma apply_complete k layer body : NoDup (map p_id layer) -> apply_body (GApply, k) layer body ->
    group_complete (GApply, k) (map p_id layer) body = true.
  Proof.
    intros ND F. unfold group_complete. cbn [fst gk_eqb].
    assert (CNT : forall i, length (filter (fun e => match e with EApply _ j _ => Nat.eqb i j | _ => false end) body) =
                            length (filter (fun p => Nat.eqb i (p_id p)) layer)).
    { intros i. unfold apply_body in F. induction F as [|p e l l' [st ->] _ IH]; [reflexivity|].
      cbn [filter]. inversion ND; subst. destruct (Nat.eqb i (p_id p)); cbn [length]; rewrite IH; auto. }
    apply andb_true_iff. split.
    - apply forallb_forall. intros i Hi. rewrite CNT, single_id by assumption. reflexivity.
    - apply forallb_forall. intros e He. unfold apply_body in F. clear CNT ND.
      induction F as [|p e' l l' [st ->] _ IH]; [destruct He|].
      destruct He as [<-|He].
      + apply memn_In. left. reflexivity.
      + specialize (IH He). destruct e; try exact IH. apply memn_In. right. apply memn_In. exact IH.
  Qed.

  Lemma prune_complete k layer body : NoDup (map p_id layer) -> prune_body (GPrune, k) layer body ->
    group_complete (GPrune, k) (map p_id layer) body = true.
  Proof.
    intros ND F. unfold group_complete. cbn [fst gk_eqb].
    assert (CNT : forall i, length (filter (fun e => match e with EPrune _ j _ => Nat.eqb i j | _ => false end) body) =
                            length (filter (fun p => Nat.eqb i (p_id p)) layer)).
    { intros i. unfold prune_body in F. induction F as [|p e l l' [st ->] _ IH]; [reflexivity|].
      cbn [filter]. inversion ND; subst. destruct (Nat.eqb i (p_id p)); cbn [length]; rewrite IH; auto. }
    apply andb_true_iff. split.
    - apply forallb_forall. intros i Hi. rewrite CNT, single_id by assumption. reflexivity.
    - apply forallb_forall. intros e He. unfold prune_body in F. clear CNT ND.
      induction F as [|p e' l l' [st ->] _ IH]; [destruct He|].
      destruct He as [<-|He].
      + apply memn_In. left. reflexivity.
      + specialize (IH He). destruct e; try exact IH. apply memn_In. right. apply memn_In. exact IH.
  Qed.

  Lemma wait_complete k ids body : wait_body (GWait, k) ids body -> group_complete (GWait, k) ids body = true.
  Proof.
    intros [F E]. unfold group_complete. cbn [fst]. apply andb_true_iff. split.
    - apply forallb_forall. intros i Hi. destruct (E i Hi) as [st H]. apply existsb_exists.
      exists (EWait (GWait, k) i st). split; [exact H|apply Nat.eqb_refl].
    - apply forallb_forall. intros e He. rewrite Forall_forall in F.
      destruct (F e He) as [[i [st [-> Hi]]]|[i [st ->]]]; [apply memn_In; exact Hi|reflexivity].
  Qed.

  Lemma task_complete t body : task_nd t -> body_spec t body ->
    group_complete (task_name t) (task_ids pl t) body = true.
  Proof.
    destruct t; cbn [task_nd body_spec task_name task_ids]; intros ND B.
    - reflexivity.
    - apply apply_complete; assumption.
    - apply wait_complete; assumption.
    - apply prune_complete; assumption.
    - reflexivity.
  Qed.

  Definition plan_groups (ts : list task) : list (gname * list id) :=
    map (fun t => (task_name t, task_ids pl t)) ts.

  Lemma groups_ok_tasks ts es : tasks_trace ts es -> Forall task_nd ts ->
    forall fuel, length es < fuel -> groups_ok fuel (plan_groups ts) es = true.
  Proof.
    induction 1 as [|t rest body B|t rest body es B T IH]; intros ND fuel HF.
    - destruct fuel; [lia|reflexivity].
    - inversion ND as [|? ? Nt Nr]; subst.
      destruct fuel as [|f]; [lia|]. cbn [groups_ok plan_groups map].
      rewrite gn_eqb_refl. cbn [andb].
      rewrite (take_body_app (task_name t) body [EFinished (task_name t); EError] (body_spec_ok t body B) eq_refl).
      rewrite gn_eqb_refl, (task_complete t body Nt B). cbn [andb].
      cbn [length] in HF. rewrite app_length in HF. cbn [length] in HF.
      destruct f as [|f']; [lia|reflexivity].
    - inversion ND as [|? ? Nt Nr]; subst.
      destruct fuel as [|f]; [lia|]. cbn [groups_ok plan_groups map].
      rewrite gn_eqb_refl. cbn [andb].
      rewrite (take_body_app (task_name t) body (EFinished (task_name t) :: es) (body_spec_ok t body B) eq_refl).
      rewrite gn_eqb_refl, (task_complete t body Nt B). cbn [andb].
      apply (IH Nr). cbn [length] in HF. rewrite app_length in HF. cbn [length] in HF. lia.
  Qed.
End Complete.

Lemma skip_validation_vals vals rest : Forall is_validation vals ->
  match rest with EValidation _ :: _ => False | _ => True end ->
  skip_validation (vals ++ rest) = rest.
Proof.
  intros F R. induction F as [|e vals [l ->] _ IH]; cbn [app skip_validation]; [|exact IH].
  destruct rest as [|e r]; [reflexivity|]. destruct e; try reflexivity. destruct R.
Qed.

Lemma error_count es : error_last_once es ->
  (length (filter (fun e => match e with EError => true | _ => false end) es) <=? 1) = true.
Proof.
  assert (Z : forall l, ~ In EError l -> filter (fun e => match e with EError => true | _ => false end) l = []).
  { induction l as [|e l IH]; intros N; [reflexivity|]. cbn [filter].
    destruct e; try (apply IH; intros H; apply N; right; exact H). exfalso. apply N. left. reflexivity. }
  intros [N|[es' [-> N]]].
  - rewrite (Z _ N). reflexivity.
  - rewrite filter_app, (Z _ N). reflexivity.
Qed.

(* ---- the events of a run, with the plan of the monitors -------------------------------------- *)
Section Run.
  Variable sc : scenario.
  Variable c0 : cluster.
  Hypothesis HND : locals_nodup sc.

  Notation pl := (plan_of sc c0).

  Lemma layer_nd (layers : list (list pobj)) : NoDup (map p_id (concat layers)) ->
    forall l, In l layers -> NoDup (map p_id l).
  Proof.
    induction layers as [|x t IH]; intros ND l Hl; [destruct Hl|].
    cbn [concat] in ND. rewrite map_app in ND. apply NoDup_app_elim in ND. destruct ND as [A [B _]].
    destruct Hl as [<-|Hl]; [exact A|apply IH; assumption].
  Qed.

  Lemma apply_tasks_nd layers : (forall l, In l layers -> NoDup (map p_id l)) ->
    forall ka kw, Forall task_nd (fst (apply_tasks sc ka kw layers)).
  Proof.
    induction layers as [|l t IH]; intros H ka kw; cbn [apply_tasks]; [constructor|].
    assert (Hl : NoDup (map p_id l)) by (apply H; left; reflexivity).
    assert (Ht : forall l0, In l0 t -> NoDup (map p_id l0)) by (intros; apply H; right; assumption).
    destruct (is_dry _).
    - specialize (IH Ht (S ka) kw). destruct (apply_tasks sc (S ka) kw t) as [ts kw']. cbn [fst] in *.
      constructor; [exact Hl|exact IH].
    - specialize (IH Ht (S ka) (S kw)). destruct (apply_tasks sc (S ka) (S kw) t) as [ts kw']. cbn [fst] in *.
      constructor; [exact Hl|]. constructor; [exact I|exact IH].
  Qed.

  Lemma prune_tasks_nd layers : (forall l, In l layers -> NoDup (map p_id l)) ->
    forall kp kw, Forall task_nd (prune_tasks sc kp kw layers).
  Proof.
    induction layers as [|l t IH]; intros H kp kw; cbn [prune_tasks]; [constructor|].
    assert (Hl : NoDup (map p_id l)) by (apply H; left; reflexivity).
    assert (Ht : forall l0, In l0 t -> NoDup (map p_id l0)) by (intros; apply H; right; assumption).
    destruct (is_dry _); constructor; try exact Hl; [apply IH; exact Ht|].
    constructor; [exact I|apply IH; exact Ht].
  Qed.

  Lemma tasks_of_nd : Forall task_nd (tasks_of sc pl).
  Proof.
    destruct (plan_layers sc c0 HND) as [N _]. apply NoDup_app_elim in N. destruct N as [NA [NP _]].
    unfold tasks_of.
    assert (A : Forall task_nd (fst (match pl_apply pl with [] => ([], 0) | _ => apply_tasks sc 0 0 (pl_apply_layers pl) end))).
    { destruct (pl_apply pl); [constructor|]. apply apply_tasks_nd. apply layer_nd. exact NA. }
    destruct (match pl_apply pl with [] => ([], 0) | _ => apply_tasks sc 0 0 (pl_apply_layers pl) end) as [at_ kw].
    cbn [fst] in A.
    apply Forall_app. split; [destruct (o_destroy _); repeat constructor|].
    apply Forall_app. split; [exact A|]. apply Forall_app. split; [|repeat constructor].
    destruct (o_prune _); [|constructor]. destruct (pl_prune pl); [constructor|].
    apply prune_tasks_nd. apply layer_nd. exact NP.
  Qed.

  Lemma tasks_of_wf' : Forall task_wf (tasks_of sc pl).
  Proof. rewrite plan_of_eq. apply tasks_of_wf. Qed.

  Lemma emits_evs s sf es : r_tr s = [] -> emits s sf es -> evs (rev (r_tr sf)) = es.
  Proof. intros E [l [El F]]. rewrite El, E, app_nil_r, rev_involutive. exact F. Qed.

  Lemma e_pre_tasks s : exists vals, emits s (pre_tasks sc c0 s) (vals ++ [init_ev sc c0]) /\ Forall is_validation vals.
  Proof.
    unfold pre_tasks. destruct (e_validation (pl_valerrs pl) s) as [vals [E F]].
    exists vals. split; [|exact F]. eapply emits_trans; [exact E|apply emits_ev].
  Qed.

  (* the grammar of PipelineEvents.run_events, with the plan fixed to plan_of *)
  Definition run_events_of (es : list evt) : Prop :=
    es = [EError] \/
    (exists vals, Forall is_validation vals /\ es = vals ++ [init_ev sc c0; EError]) \/
    (exists vals es', Forall is_validation vals /\ tasks_trace (tasks_of sc pl) es' /\ es = vals ++ init_ev sc c0 :: es').

  Lemma run_events_plan : run_events_of (evs (rev (r_tr (run_state sc c0)))).
  Proof.
    destruct (run_state_shape sc c0) as [s C T|s C T _ _|s4 SO _ _|s4 prev SO _ _ _].
    - left. cbn [ev emit r_tr]. rewrite T. reflexivity.
    - left. cbn [ev emit r_tr]. rewrite T. reflexivity.
    - right; left. destruct (e_pre_tasks s4) as [vals [E F]]. exists vals. split; [exact F|].
      rewrite (emits_evs s4 _ ((vals ++ [init_ev sc c0]) ++ [EError]) (so_tr _ _ _ SO)).
      + rewrite <- app_assoc. reflexivity.
      + eapply emits_trans; [exact E|apply emits_ev].
    - right; right. destruct (e_pre_tasks s4) as [vals [E F]].
      destruct (e_run_tasks sc pl (locals_of sc) prev (tasks_of sc pl) tasks_of_wf' (pre_tasks sc c0 s4)) as [es' [E' T']].
      exists vals, es'. split; [exact F|]. split; [exact T'|].
      rewrite (emits_evs s4 _ ((vals ++ [init_ev sc c0]) ++ es') (so_tr _ _ _ SO)).
      + rewrite <- app_assoc. reflexivity.
      + eapply emits_trans; [exact E|exact E'].
  Qed.

  Lemma evs_out_trace : evs (out_trace (run sc c0)) = evs (rev (r_tr (run_state sc c0))).
  Proof. rewrite out_trace_run, evs_app. cbn [evs flat_map]. apply app_nil_r. Qed.

  Theorem monitor_C13 : mon_C13 sc c0 (run sc c0) = true.
  Proof.
    unfold mon_C13, mon_C13_core. rewrite events_evs.
    apply andb_true_iff. split; [apply andb_true_iff; split|].
    - rewrite out_trace_run, rev_app_distr, rev_involutive. cbn [rev app].
      apply negb_true_iff. destruct (existsb _ _) eqn:EX; [|reflexivity].
      apply existsb_exists in EX. destruct EX as [it [Hin Hit]]. destruct it; try discriminate.
      exfalso. exact (run_state_no_closed sc c0 Hin).
    - apply error_count. apply run_error_last_once.
    - rewrite evs_out_trace.
      destruct run_events_plan as [->|[[vals [F ->]]|[vals [es' [F [T ->]]]]]].
      + reflexivity.
      + rewrite skip_validation_vals by (auto; exact I). reflexivity.
      + rewrite skip_validation_vals by (auto; exact I). unfold init_ev.
        apply (groups_ok_tasks pl _ _ T tasks_of_nd). lia.
  Qed.
End Run.
