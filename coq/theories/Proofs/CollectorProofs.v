(* Lemmas about the status collector model (C17). *)
From Coq Require Import List Bool Arith Lia Sorted Permutation.
From CliUtils Require Import Model.Engine Model.Collector Proofs.EngineProofs.
Import ListNotations.

Lemma cm_get_set : forall m i r j,
  cm_get (cm_set m i r) j = if Nat.eqb i j then Some r else cm_get m j.
Proof.
  intros m. induction m as [|[k x] t IH]; intros i r j; simpl.
  - reflexivity.
  - destruct (Nat.eqb k i) eqn:Eki; simpl.
    + apply Nat.eqb_eq in Eki; subst k. destruct (Nat.eqb i j); reflexivity.
    + rewrite IH. destruct (Nat.eqb k j) eqn:Ekj; [|reflexivity].
      apply Nat.eqb_eq in Ekj; subst k. now rewrite (Nat.eqb_sym i j), Eki.
Qed.

Lemma cm_set_keys : forall m i r,
  map fst (cm_set m i r) = if existsb (Nat.eqb i) (map fst m) then map fst m else map fst m ++ [i].
Proof.
  intros m. induction m as [|[k x] t IH]; intros i r; simpl; [reflexivity|].
  rewrite (Nat.eqb_sym i k). destruct (Nat.eqb k i); simpl; [reflexivity|].
  rewrite IH. now destruct (existsb (Nat.eqb i) (map fst t)).
Qed.

Lemma cm_set_NoDup : forall m i r, NoDup (map fst m) -> NoDup (map fst (cm_set m i r)).
Proof.
  intros m i r H. rewrite cm_set_keys.
  destruct (existsb (Nat.eqb i) (map fst m)) eqn:E; [exact H|].
  assert (Hnin : ~ In i (map fst m)) by (intros Hin; apply existsb_eqb_In in Hin; congruence).
  clear E. induction (map fst m) as [|a l IH]; simpl.
  - constructor; [intros [] | constructor].
  - inversion H; subst. constructor.
    + intros Hin. apply in_app_or in Hin as [Hin|[Hin|[]]]; [contradiction|].
      subst. apply Hnin. now left.
    + apply IH; [assumption|]. intros Hin. apply Hnin. now right.
Qed.

(* entries are filed under the identifier they carry *)
Definition keyed (m : list (nat * rstatus)) : Prop := forall k r, In (k, r) m -> rs_id r = k.

Lemma cm_set_keyed : forall m i r, keyed m -> rs_id r = i -> keyed (cm_set m i r).
Proof.
  intros m. induction m as [|[k x] t IH]; intros i r Hk Hi a b Hin; simpl in Hin.
  - destruct Hin as [H|[]]. now inversion H; subst.
  - destruct (Nat.eqb k i) eqn:E.
    + apply Nat.eqb_eq in E; subst k. destruct Hin as [H|H].
      * now inversion H; subst.
      * apply Hk. now right.
    + destruct Hin as [H|H].
      * apply Hk. left. exact H.
      * apply (IH i r (fun a b H => Hk a b (or_intror H)) Hi a b H).
Qed.

Lemma cm_get_In : forall m k r, NoDup (map fst m) -> (cm_get m k = Some r <-> In (k, r) m).
Proof.
  intros m. induction m as [|[a x] t IH]; intros k r Hnd; simpl.
  - split; [discriminate | intros []].
  - inversion Hnd as [|? ? Hna Hnd']; subst. destruct (Nat.eqb a k) eqn:E.
    + apply Nat.eqb_eq in E; subst a. split.
      * intros H; inversion H; subst. now left.
      * intros [H|H]; [now inversion H|]. exfalso. apply Hna. apply (in_map fst) in H. exact H.
    + rewrite (IH k r Hnd'). split; [now right|].
      intros [H|H]; [|exact H]. inversion H; subst. rewrite Nat.eqb_refl in E. discriminate.
Qed.

(* ---- snoc forms -------------------------------------------------------- *)
Lemma last_update_snoc : forall es e j,
  last_update (es ++ [e]) j =
  match e with
  | CUpdate r => if Nat.eqb (rs_id r) j then Some r else last_update es j
  | _ => last_update es j
  end.
Proof. intros es e j. unfold last_update. rewrite fold_left_app. reflexivity. Qed.

Lemma last_error_snoc : forall es e,
  last_error (es ++ [e]) = match e with CError x => Some x | _ => last_error es end.
Proof. intros es e. unfold last_error. rewrite fold_left_app. reflexivity. Qed.

Lemma c_run_snoc : forall ids es e, c_run ids (es ++ [e]) = c_process (c_run ids es) e.
Proof. intros ids es e. unfold c_run. rewrite fold_left_app. reflexivity. Qed.

(* ---- the initial table -------------------------------------------------- *)
Definition init_map (ids : list nat) : list (nat * rstatus) :=
  fold_left (fun m i => cm_set m i (unknown_rs i)) ids [].

Lemma init_map_spec : forall ids,
  (forall j, cm_get (init_map ids) j = if existsb (Nat.eqb j) ids then Some (unknown_rs j) else None) /\
  NoDup (map fst (init_map ids)) /\ keyed (init_map ids).
Proof.
  intros ids. induction ids as [|i t IH] using rev_ind.
  - repeat split; [constructor | intros k r []].
  - destruct IH as [H1 [H2 H3]]. unfold init_map in *. rewrite fold_left_app. simpl.
    split; [|split].
    + intros j. rewrite cm_get_set, H1, existsb_app. simpl. rewrite orb_false_r, (Nat.eqb_sym j i).
      destruct (Nat.eqb i j) eqn:E.
      * apply Nat.eqb_eq in E; subst. now rewrite orb_true_r.
      * now rewrite orb_false_r.
    + now apply cm_set_NoDup.
    + now apply cm_set_keyed.
Qed.

Definition last_type (es : list cevent) : etype :=
  match rev es with [] => TUpdate | e :: _ => cevent_type e end.

Definition errors_of (es : list cevent) : list err :=
  flat_map (fun e => match e with CError x => [x] | _ => [] end) es.

Lemma c_run_spec : forall ids es,
  let c := c_run ids es in
  (forall j, cm_get (c_map c) j =
             match last_update es j with
             | Some r => Some r
             | None => if existsb (Nat.eqb j) ids then Some (unknown_rs j) else None
             end) /\
  NoDup (map fst (c_map c)) /\ keyed (c_map c) /\
  c_err c = last_error es /\ c_last c = last_type es /\ c_results c = errors_of es.
Proof.
  intros ids es. induction es as [|e t IH] using rev_ind.
  - simpl. destruct (init_map_spec ids) as [H1 [H2 H3]]. repeat split; auto.
  - rewrite c_run_snoc. cbv zeta in *. destruct IH as [H1 [H2 [H3 [H4 [H5 H6]]]]].
    unfold last_type, errors_of. rewrite rev_app_distr, flat_map_app. simpl.
    destruct e as [r|x|]; simpl.
    + repeat split; auto.
      * intros j. rewrite cm_get_set, last_update_snoc, H1. now destruct (Nat.eqb (rs_id r) j).
      * now apply cm_set_NoDup.
      * now apply cm_set_keyed.
      * now rewrite last_error_snoc.
      * now rewrite app_nil_r.
    + repeat split; auto.
      * intros j. now rewrite last_update_snoc.
      * now rewrite last_error_snoc.
      * now rewrite H6.
    + repeat split; auto.
      * intros j. now rewrite last_update_snoc.
      * now rewrite last_error_snoc.
      * now rewrite app_nil_r.
Qed.

(* ---- sorting ------------------------------------------------------------ *)
Lemma ins_entry_perm : forall x l, Permutation (ins_entry x l) (x :: l).
Proof.
  intros x l. induction l as [|h t IH]; simpl; [reflexivity|].
  destruct (Nat.leb (fst x) (fst h)); [reflexivity|].
  rewrite IH. apply perm_swap.
Qed.

Lemma sort_entries_perm : forall l, Permutation (sort_entries l) l.
Proof.
  intros l. induction l as [|h t IH]; simpl; [reflexivity|].
  rewrite ins_entry_perm. now constructor.
Qed.

Definition le_key (a b : nat * rstatus) : Prop := fst a <= fst b.

Lemma ins_entry_sorted : forall x l, Sorted le_key l -> Sorted le_key (ins_entry x l).
Proof.
  intros x l H. induction H as [|h t Ht IH Hh]; simpl.
  - repeat constructor.
  - destruct (Nat.leb (fst x) (fst h)) eqn:E.
    + apply Nat.leb_le in E. constructor; [now constructor | now constructor].
    + apply Nat.leb_gt in E. constructor; [exact IH|].
      destruct t as [|h' t']; simpl.
      * constructor. unfold le_key. lia.
      * inversion Hh; subst. destruct (Nat.leb (fst x) (fst h')); constructor; unfold le_key in *; lia.
Qed.

Lemma sort_entries_sorted : forall l, Sorted le_key (sort_entries l).
Proof.
  intros l. induction l as [|h t IH]; simpl; [constructor | now apply ins_entry_sorted].
Qed.

Lemma observation_spec : forall ids es,
  let obs := latest_observation (c_run ids es) in
  (forall r, In r (o_statuses obs) <->
             (last_update es (rs_id r) = Some r \/
              (last_update es (rs_id r) = None /\ In (rs_id r) ids /\ r = unknown_rs (rs_id r)))) /\
  NoDup (map rs_id (o_statuses obs)) /\
  Sorted le (map rs_id (o_statuses obs)) /\
  o_err obs = last_error es /\ o_last obs = last_type es.
Proof.
  intros ids es. destruct (c_run_spec ids es) as [H1 [H2 [H3 [H4 [H5 _]]]]]. cbv zeta.
  unfold latest_observation. simpl.
  set (m := c_map (c_run ids es)) in *.
  pose proof (sort_entries_perm m) as HP.
  assert (Hk : keyed (sort_entries m)).
  { intros k r Hin. apply H3. now apply (Permutation_in _ HP). }
  assert (Hids : map rs_id (map snd (sort_entries m)) = map fst (sort_entries m)).
  { rewrite map_map. apply map_ext_in. intros [k r] Hin. simpl. now apply Hk. }
  split; [|split; [|split; [|split]]].
  - intros r. split.
    + intros Hin. apply in_map_iff in Hin as [[k r'] [Hs Hin]]. simpl in Hs; subst r'.
      apply (Permutation_in _ HP) in Hin. pose proof (H3 _ _ Hin) as Hid. subst k.
      apply cm_get_In in Hin; [|exact H2]. rewrite H1 in Hin.
      destruct (last_update es (rs_id r)) as [x|]; [left; exact Hin | right].
      destruct (existsb (Nat.eqb (rs_id r)) ids) eqn:E; [|discriminate].
      apply existsb_eqb_In in E. inversion Hin as [Hr]. rewrite <- Hr. simpl. repeat split; auto.
    + intros H.
      assert (Hg : cm_get m (rs_id r) = Some r).
      { rewrite H1. destruct H as [H|[Ha [Hb Hc]]].
        - now rewrite H.
        - rewrite Ha. apply existsb_eqb_In in Hb. rewrite Hb. now rewrite <- Hc. }
      apply cm_get_In in Hg; [|exact H2].
      apply in_map_iff. exists (rs_id r, r). split; [reflexivity|].
      apply (Permutation_in _ (Permutation_sym HP)). exact Hg.
  - rewrite Hids. apply (Permutation_NoDup (Permutation_map fst (Permutation_sym HP))). exact H2.
  - rewrite Hids. pose proof (sort_entries_sorted m) as HS. clear HP Hk Hids.
    induction HS as [|h t Ht IH Hh]; simpl; constructor.
    + apply IH.
    + destruct Hh; simpl; constructor. assumption.
  - exact H4.
  - exact H5.
Qed.
