(* mon_C03 (convergence) as a theorem about the model, part 3: the task list of
   a plan satisfies the schedule predicate `csched`; the invariant `CInv` holds
   at the start of the task list; a run without error event carries it to the
   end, where the inventory-set task has succeeded (`c_run_tasks`, `inv_set_ok2`). *)
From Coq Require Import List Bool Arith NArith ZArith Lia Permutation.
From CliUtils Require Import Model.ObjSet Model.ActuationTable Model.PipelineTypes Model.Pipeline
     Proofs.ObjSetProofs Proofs.ActuationTableProofs Proofs.PipelineBase Proofs.PipelineAuth Proofs.PipelineEvents
     Proofs.PipelineMisc Corr.CorrPipeline Proofs.PipelineOrphansBase Proofs.PipelineOrphansSpec Proofs.PipelineOrphansInv
     Proofs.PipelineOrphansPlan Proofs.PipelineMonBase Proofs.PipelineMonC02a Proofs.PipelineMonC02b
     Proofs.PipelineOrphansRun Proofs.PipelineMonC03a Proofs.PipelineMonC03b.
Import ListNotations.

(* ---- registration leaves every reconcile field pending ---------------------------------------- *)
Definition allp (s : rst) : Prop := Forall (fun r : rec id => r_rec r = RPending) (r_tbl s).

Lemma set_status_Forall (P : rec id -> Prop) t n : Forall P t -> P n -> Forall P (set_status Nat.eqb t n).
Proof.
  intros F Pn. induction F as [|r t Hr Ft IH]; cbn [set_status]; [constructor; [exact Pn|constructor]|].
  match goal with |- context [if ?b then _ else _] => destruct b end; constructor; assumption.
Qed.

Lemma allp_fold (l : list pobj) st a : forall s, allp s ->
  allp (fold_left (fun s p => rec_add s (p_id p) st a 0%N 0%Z) l s).
Proof.
  induction l as [|p t IH]; intros s H; cbn [fold_left]; [exact H|].
  apply IH. unfold allp, rec_add. cbn [set_tbl r_tbl]. apply set_status_Forall; [exact H|reflexivity].
Qed.

Lemma allp_register sc pl s : allp s -> allp (register sc pl s).
Proof.
  intros H. unfold register.
  assert (H1 := allp_fold (pl_apply pl) SApply APending s H).
  set (s1 := fold_left _ (pl_apply pl) s) in *.
  assert (H2 : allp (if o_prune (sc_opts sc)
                     then fold_left (fun s p => rec_add s (p_id p) SDelete APending 0%N 0%Z) (pl_prune pl) s1 else s1)).
  { destruct (o_prune (sc_opts sc)); [apply allp_fold|]; exact H1. }
  destruct (negb (o_destroy (sc_opts sc)) && negb (o_prune (sc_opts sc))); [apply allp_fold|]; exact H2.
Qed.

Lemma allp_RL s : allp s -> r_tr s = [] -> RL s.
Proof.
  intros H T j r L. rewrite T. cbn. unfold allp in H. rewrite Forall_forall in H.
  apply H. eapply (lookup_In id Nat.eqb). exact L.
Qed.

Section Static.
  Variable sc : scenario.
  Variable pl : plan.
  Hypothesis ND : is_dry (o_dry (sc_opts sc)) = false.

  Lemma todo_of_app a b : todo_of (a ++ b) = todo_of a ++ todo_of b.
  Proof. unfold todo_of. apply flat_map_app. Qed.

  Lemma csched_apply layers : (forall layer p, In layer layers -> In p layer -> local_ok' pl p) ->
    forall ka kw tail, NoDup (map p_id (concat layers) ++ todo_of tail) -> csched sc pl tail ->
      csched sc pl (fst (apply_tasks sc ka kw layers) ++ tail).
  Proof.
    induction layers as [|l t IH]; intros H ka kw tail N HT; cbn [apply_tasks]; [exact HT|].
    assert (Hl : Forall (local_ok' pl) l)
      by (apply Forall_forall; intros p Hp; eapply H; [left; reflexivity|exact Hp]).
    assert (Ht : forall layer p, In layer t -> In p layer -> local_ok' pl p)
      by (intros; eapply H; [right; eassumption|assumption]).
    cbn [concat] in N. rewrite map_app, <- app_assoc in N.
    apply NoDup_app_elim in N. destruct N as [_ [N2 D]].
    rewrite ND. pose proof (todo_apply_tasks sc t (S ka) (S kw)) as TD.
    specialize (IH Ht (S ka) (S kw) tail N2 HT).
    destruct (apply_tasks sc (S ka) (S kw) t) as [ts kw']. cbn [fst] in *.
    cbn [app csched]. split; [exact Hl|]. split; [|exact IH].
    intros j Hj. split.
    - rewrite todo_of_app, TD. apply D. exact Hj.
    - left. apply in_map_iff in Hj. destruct Hj as [p [<- Hp]]. rewrite Forall_forall in Hl.
      destruct (Hl p Hp) as [l0 [_ [_ [X _]]]]. exact X.
  Qed.

  Lemma csched_prune layers : o_prune (sc_opts sc) = true ->
    (forall layer p, In layer layers -> In p layer -> prune_ok pl p) ->
    forall kp kw tail, NoDup (map p_id (concat layers) ++ todo_of tail) -> csched sc pl tail ->
      csched sc pl (prune_tasks sc kp kw layers ++ tail).
  Proof.
    intros PO. induction layers as [|l t IH]; intros H kp kw tail N HT; cbn [prune_tasks]; [exact HT|].
    assert (Hl : Forall (prune_ok pl) l)
      by (apply Forall_forall; intros p Hp; eapply H; [left; reflexivity|exact Hp]).
    assert (Ht : forall layer p, In layer t -> In p layer -> prune_ok pl p)
      by (intros; eapply H; [right; eassumption|assumption]).
    cbn [concat] in N. rewrite map_app, <- app_assoc in N.
    apply NoDup_app_elim in N. destruct N as [_ [N2 D]].
    rewrite ND. specialize (IH Ht (S kp) (S kw) tail N2 HT).
    cbn [app csched]. split; [exact PO|]. split; [exact Hl|]. split; [|exact IH].
    intros j Hj. split.
    - rewrite todo_of_app, (todo_prune_tasks sc). apply D. exact Hj.
    - right. split; [exact PO|]. apply in_map_iff in Hj. destruct Hj as [p [<- Hp]]. rewrite Forall_forall in Hl.
      destruct (Hl p Hp) as [c [-> X]]. unfold pids. apply in_map_iff. exists (pobj_of_live c). auto.
  Qed.
End Static.

Section Start.
  Variable sc : scenario.
  Variable c0 : cluster.
  Hypothesis HWF : WF sc c0.
  Hypothesis ND : is_dry (o_dry (sc_opts sc)) = false.
  Notation pl := (plan_of sc c0).
  Notation aids := (apply_ids pl).

  Lemma wf_locals : locals_nodup sc.
  Proof. destruct HWF as [W _]. exact W. Qed.

  Lemma pl_disj0 j : In j aids -> ~ In j (map p_id (pl_prune_all pl)).
  Proof.
    rewrite plan_of_eq. apply bp_disj; [apply locals_of_NoDup|apply pobjs_NoDup|apply pobjs_disj]; exact wf_locals.
  Qed.
  Lemma pl_sub j : In j (pids pl) -> In j (map p_id (pl_prune_all pl)).
  Proof.
    unfold pids. intros Hj. apply in_map_iff in Hj. destruct Hj as [q [<- Hq]]. apply in_map.
    rewrite plan_of_eq in *. apply bp_prune_sub. exact Hq.
  Qed.
  Lemma pl_disj j : In j aids -> ~ In j (pids pl).
  Proof. intros Ha Hp. exact (pl_disj0 j Ha (pl_sub j Hp)). Qed.

  Lemma pl_prune_c0 c : In (pobj_of_live c) (pl_prune pl) -> fo c0 (c_id c) = Some c.
  Proof. intros H. exact (proj1 (plan_of_prune sc c0 c H)). Qed.

  Lemma pids_valid j : In j (pids pl) -> ~ In j (pl_invalid pl).
  Proof.
    unfold pids. intros Hj. apply in_map_iff in Hj. destruct Hj as [q [<- Hq]].
    destruct (bp_anatomy sc (live_crds sc c0) (locals_of sc) (found_in sc c0 (cand_of sc c0))) as [layers [cyc [_ [_ [_ [EP _]]]]]].
    rewrite <- plan_of_eq in EP. rewrite EP in Hq. apply filter_In in Hq. destruct Hq as [_ Hv].
    unfold validp in Hv. rewrite <- plan_of_eq in Hv. apply negb_true_iff in Hv.
    intros Hin. apply memn_In in Hin. congruence.
  Qed.

  Lemma pids_c0 j : In j (pids pl) -> exists c, fo c0 j = Some c /\ In (pobj_of_live c) (pl_prune pl).
  Proof.
    unfold pids. intros Hj. apply in_map_iff in Hj. destruct Hj as [q [<- Hq]].
    destruct (bp_anatomy sc (live_crds sc c0) (locals_of sc) (found_in sc c0 (cand_of sc c0))) as [layers [cyc [_ [_ [_ [EP _]]]]]].
    rewrite <- plan_of_eq in EP. pose proof Hq as Hq'. rewrite EP in Hq. apply filter_In in Hq. destruct Hq as [Hq _].
    unfold pruneA in Hq. apply in_map_iff in Hq. destruct Hq as [c [<- Hc]].
    exists c. split; [|exact Hq']. cbn [p_id pobj_of_live]. apply pl_prune_c0. exact Hq'.
  Qed.

  Lemma destroy_no_apply : o_destroy (sc_opts sc) = true -> aids = [].
  Proof.
    intros D. unfold apply_ids. destruct (pl_apply pl) as [|q t] eqn:E; [reflexivity|]. exfalso.
    assert (Hq : In q (pl_apply pl)) by (rewrite E; left; reflexivity).
    rewrite plan_of_eq in Hq. destruct (bp_apply_is_local sc _ _ _ q Hq) as [l [_ Hl]].
    unfold locals_of in Hl. rewrite D in Hl. destruct Hl.
  Qed.

  Lemma csched_tasks_of : csched sc pl (tasks_of sc pl).
  Proof.
    destruct (plan_layers sc c0 wf_locals) as [N [_ _]].
    unfold tasks_of.
    assert (PT : forall kw, let pt := if o_prune (sc_opts sc) then match pl_prune pl with [] => [] | _ => prune_tasks sc 0 kw (pl_prune_layers pl) end else [] in
                 csched sc pl (pt ++ [TInvSet]) /\
                 NoDup (map p_id (concat (pl_apply_layers pl)) ++ todo_of (pt ++ [TInvSet]))).
    { intros kw. cbv zeta.
      assert (NA : NoDup (map p_id (concat (pl_apply_layers pl)) ++ todo_of [TInvSet])).
      { cbn. rewrite app_nil_r. apply NoDup_app_elim in N. apply N. }
      destruct (o_prune (sc_opts sc)) eqn:PO; [|split; [exact I|exact NA]].
      destruct (pl_prune pl) eqn:EPR; [split; [exact I|exact NA]|]. split.
      - apply (csched_prune sc pl ND); [exact PO| | |exact I].
        + intros layer q. rewrite plan_of_eq. apply bp_prune_ok.
        + cbn. rewrite app_nil_r. apply NoDup_app_elim in N. apply N.
      - rewrite todo_of_app, (todo_prune_tasks sc). cbn. rewrite app_nil_r. exact N. }
    assert (AT : forall tail, csched sc pl tail -> NoDup (map p_id (concat (pl_apply_layers pl)) ++ todo_of tail) ->
                 csched sc pl (fst (match pl_apply pl with [] => ([], 0) | _ => apply_tasks sc 0 0 (pl_apply_layers pl) end) ++ tail)).
    { intros tail HT NT. destruct (pl_apply pl); [exact HT|]. apply (csched_apply sc pl ND); [|exact NT|exact HT].
      intros layer q. rewrite plan_of_eq.
      apply bp_local_ok'; [apply locals_of_NoDup|apply pobjs_NoDup|apply pobjs_disj]; exact wf_locals. }
    destruct (match pl_apply pl with [] => ([], 0) | _ => apply_tasks sc 0 0 (pl_apply_layers pl) end) as [at_ kw].
    cbn [fst] in AT. destruct (PT kw) as [P1 P2].
    assert (X : csched sc pl (at_ ++ (if o_prune (sc_opts sc) then match pl_prune pl with [] => [] | _ => prune_tasks sc 0 kw (pl_prune_layers pl) end else []) ++ [TInvSet]))
      by (apply AT; assumption).
    destruct (o_destroy (sc_opts sc)); cbn [app csched]; exact X.
  Qed.

  (* ---- the invariant at the start of the task list ------------------------------------------------ *)
  Lemma CInv_start s4 : start_ok sc c0 s4 -> CInv sc c0 pl (todo_of (tasks_of sc pl)) s4.
  Proof.
    intros [SC ST SX SA SK [s2 [E2 ET]]].
    destruct (register_spec sc pl s2 E2) as [_ [_ [_ [K3 V3]]]]. cbv zeta in *.
    assert (TV : forall j, tv s4 j =
              if negb (o_destroy (sc_opts sc)) && negb (o_prune (sc_opts sc)) && memn j (map p_id (pl_prune_all pl))
              then Some (SDelete, ASkipped, 0%N)
              else if o_prune (sc_opts sc) && memn j (map p_id (pl_prune pl)) then Some (SDelete, APending, 0%N)
              else if memn j (apply_ids pl) then Some (SApply, APending, 0%N) else None).
    { intros j. unfold tv. rewrite ET. apply V3. }
    assert (TODO : NoDup (todo_of (tasks_of sc pl)) /\
                   forall j, In j (todo_of (tasks_of sc pl)) <-> In j aids \/ (o_prune (sc_opts sc) = true /\ In j (pids pl))).
    { rewrite plan_of_eq. apply tasks_todo; [apply locals_of_NoDup|apply pobjs_NoDup|apply pobjs_disj]; exact wf_locals. }
    destruct TODO as [TN TM].
    assert (CASES : forall j st a u, tv s4 j = Some (st, a, u) ->
              (st = SDelete /\ a = ASkipped /\ u = 0%N /\ unreg sc pl j) \/
              (st = SDelete /\ a = APending /\ o_prune (sc_opts sc) = true /\ In j (pids pl)) \/
              (st = SApply /\ a = APending /\ In j aids)).
    { intros j st a u. rewrite TV.
      destruct (negb (o_destroy (sc_opts sc)) && negb (o_prune (sc_opts sc)) && memn j (map p_id (pl_prune_all pl))) eqn:B1.
      - intros [= <- <- <-]. left. apply andb_true_iff in B1. destruct B1 as [B1 B3]. apply andb_true_iff in B1.
        destruct B1 as [B1 B2]. apply negb_true_iff in B1, B2. apply memn_In in B3. unfold unreg. auto 6.
      - destruct (o_prune (sc_opts sc) && memn j (map p_id (pl_prune pl))) eqn:B2.
        + intros [= <- <- <-]. right; left. apply andb_true_iff in B2. destruct B2 as [B2 B3]. apply memn_In in B3. auto.
        + destruct (memn j (apply_ids pl)) eqn:B3; [|discriminate]. intros [= <- <- <-]. right; right.
          apply memn_In in B3. auto. }
    assert (TVA : forall j, In j aids -> tv s4 j = Some (SApply, APending, 0%N)).
    { intros j Hj. rewrite TV.
      assert (X1 : memn j (map p_id (pl_prune_all pl)) = false) by (apply memn_false; apply pl_disj0; exact Hj).
      assert (X2 : memn j (map p_id (pl_prune pl)) = false) by (apply memn_false; apply (pl_disj j Hj)).
      rewrite X1, X2, !andb_false_r. rewrite (proj2 (memn_In _ _) Hj). reflexivity. }
    assert (TVP : forall j, o_prune (sc_opts sc) = true -> In j (pids pl) -> tv s4 j = Some (SDelete, APending, 0%N)).
    { intros j PO Hj. rewrite TV, PO. cbn [negb andb]. rewrite andb_false_r.
      unfold pids in Hj. rewrite (proj2 (memn_In _ _) Hj). reflexivity. }
    constructor.
    - rewrite SC. apply HWF.
    - rewrite ET. exact K3.
    - exact TN.
    - rewrite SC. apply N.le_refl.
    - intros j c. rewrite SC. intros Hc. left. exists c. auto.
    - intros j a u Ht. destruct (CASES _ _ _ _ Ht) as [[X _]|[[X _]|[_ [-> Hj]]]]; try discriminate.
      split; [exact Hj|discriminate].
    - intros j Hj. apply TM in Hj. destruct Hj as [Hj|[PO Hj]].
      + exists SApply, 0%N. apply TVA. exact Hj.
      + exists SDelete, 0%N. apply TVP; assumption.
    - intros j st u Ht. apply TM. destruct (CASES _ _ _ _ Ht) as [[_ [X _]]|[[_ [_ [PO Hj]]]|[_ [_ Hj]]]]; [discriminate|right|left]; auto.
    - intros j _ it. rewrite ST. intros [].
    - intros g j x. rewrite ST. intros [].
    - intros g j x. rewrite ST. intros [].
    - intros g j x. rewrite ST. intros [].
    - intros j [Hj|[PO Hj]]; [rewrite (TVA j Hj)|rewrite (TVP j PO Hj)]; discriminate.
    - intros j st a u Ht Ha. destruct (CASES _ _ _ _ Ht) as [[-> [-> [_ U]]]|[[_ [X _]]|[_ [X _]]]]; try congruence.
      right; right. auto.
    - intros j [U1 [U2 U3]]. rewrite TV, U1, U2. cbn [negb andb]. rewrite (proj2 (memn_In _ _) U3). reflexivity.
    - apply allp_RL; [|exact ST]. unfold allp. rewrite ET. apply allp_register. unfold allp. rewrite E2. constructor.
    - intros j. rewrite SA. intros [].
    - intros g j. rewrite ST. intros [].
    - intros g j. rewrite ST. intros [].
    - intros j c. rewrite SC. intros Hc Hw. left. exists c. auto.
  Qed.

  Lemma CInv_pre_tasks td s : CInv sc c0 pl td s -> CInv sc c0 pl td (pre_tasks sc c0 s).
  Proof.
    intros H. unfold pre_tasks. apply (c_ev sc c0 pl (pl_disj)); [reflexivity|].
    generalize (pl_valerrs pl). intros errs. revert s H.
    induction errs as [|e t IH]; intros s H; cbn [fold_left]; [exact H|].
    apply IH. apply (c_ev sc c0 pl (pl_disj)); [reflexivity|exact H].
  Qed.
End Start.

(* ---- a successful inventory-set task ---------------------------------------------------------------- *)
Section InvSet.
  Variable sc : scenario.
  Variable pl : plan.
  Hypothesis ND : is_dry (o_dry (sc_opts sc)) = false.

  Lemma inv_set_ok2 prev s : snd (inv_set_task sc pl prev s) = true ->
    (o_destroy (sc_opts sc) = true /\ inv (r_cl (fst (inv_set_task sc pl prev s))) = None) \/
    exists pv L, prev = Some pv /\ inv (r_cl (fst (inv_set_task sc pl prev s))) = Some L /\
                 forall i, In i L <-> In i (final_inventory pl pv s).
  Proof.
    unfold inv_set_task. destruct prev as [pv|]; [|discriminate].
    destruct (o_destroy (sc_opts sc) && destroy_successful pl pv s) eqn:EDS.
    - apply andb_true_iff in EDS. destruct EDS as [ED _].
      unfold delete_inventory. cbv zeta.
      pose proof (same4_inv_list sc s) as L1. pose proof (inv_list_result sc s) as R1.
      destruct (inv_list sc s) as [s1 r1]. cbn [fst snd] in L1, R1. destruct L1 as [A1 _].
      destruct r1 as [[x|]|]; cbn [fst snd]; [|intros _; left; split; [exact ED|]|discriminate].
      + rewrite ND. destruct (faulted sc FInvDelete); cbn [fst snd]; [discriminate|]. intros _. left. split; [exact ED|reflexivity].
      + destruct R1 as [R1|R1]; [discriminate|]. injection R1 as R1. rewrite A1. symmetry. exact R1.
    - unfold replace. cbv zeta. rewrite ND.
      pose proof (same4_inv_list sc s) as L1.
      destruct (inv_list sc s) as [s1 r1]. cbn [fst] in L1. destruct L1 as [A1 _].
      destruct r1 as [x|]; cbn [fst snd]; [|discriminate].
      pose proof (same4_inv_list sc s1) as L2. pose proof (inv_list_result sc s1) as R2.
      destruct (inv_list sc s1) as [s2 r2]. cbn [fst snd] in L2, R2. destruct L2 as [B1 _].
      destruct r2 as [[cur|]|]; cbn [fst snd]; try discriminate.
      destruct (set_eqn (final_inventory pl pv s) cur && negb (o_status_policy_all (sc_opts sc))) eqn:EQ; cbn [fst snd].
      + intros _. right. exists pv, cur. split; [reflexivity|]. split.
        * destruct R2 as [R2|R2]; [discriminate|]. injection R2 as R2. rewrite B1. symmetry. exact R2.
        * apply andb_true_iff in EQ. destruct EQ as [EQ _]. unfold set_eqn in EQ.
          intros i. symmetry. apply (proj1 (equal_spec nat Nat.eqb nat_eqb_spec _ _) EQ).
      + destruct (inv_update sc s2 (final_inventory pl pv s)) as [s3 ok] eqn:EU. cbn [fst snd]. intros ->.
        right. exists pv, (sortn (final_inventory pl pv s)). split; [reflexivity|].
        split; [exact (inv_update_writes sc _ _ _ EU)|]. intros i. apply sortn_In.
  Qed.
End InvSet.

(* ---- the runner without error event ------------------------------------------------------------------ *)
Section Trav.
  Variable sc : scenario.
  Variable c0 : cluster.
  Variable pl : plan.
  Hypothesis ND : is_dry (o_dry (sc_opts sc)) = false.
  Hypothesis c0_uid_lt : forall i c, fo c0 i = Some c -> (c_uid c < next_uid c0)%N.
  Hypothesis c0_uid_inj : forall i j c c', fo c0 i = Some c -> fo c0 j = Some c' -> c_uid c = c_uid c' -> i = j.
  Hypothesis pl_disj : forall i, In i (apply_ids pl) -> ~ In i (pids pl).
  Hypothesis pl_prune_c0 : forall c, In (pobj_of_live c) (pl_prune pl) -> fo c0 (c_id c) = Some c.
  Hypothesis pl_local : plan_local pl.
  Notation CInv := (CInv sc c0 pl).

  (* the state before the last task, and the last task's success *)
  Definition ends (prev : option (list id)) (sf : rst) : Prop :=
    exists s1, CInv [] s1 /\
      sf = ev (fst (inv_set_task sc pl prev (ev s1 (EStarted (GInvSet, 0))))) (EFinished (GInvSet, 0)) /\
      snd (inv_set_task sc pl prev (ev s1 (EStarted (GInvSet, 0)))) = true.

  Lemma c_run_tasks locals prev ts : forall s, csched sc pl (ts ++ [TInvSet]) ->
    CInv (todo_of (ts ++ [TInvSet])) s ->
    ~ In (IEv EError) (r_tr (run_tasks sc pl locals prev s (ts ++ [TInvSet]))) ->
    ends prev (run_tasks sc pl locals prev s (ts ++ [TInvSet])).
  Proof.
    induction ts as [|t rest IH]; intros s SC H; cbn [app run_tasks].
    - unfold run_task. cbv zeta. cbn [task_name].
      destruct (inv_set_task sc pl prev (ev s (EStarted (GInvSet, 0)))) as [s1 ok] eqn:E.
      destruct ok; cbn [negb].
      2:{ intros N. exfalso. apply N. left. reflexivity. }
      destruct (r_abort (ev s1 (EFinished (GInvSet, 0)))).
      { intros N. exfalso. apply N. left. reflexivity. }
      intros _. exists s. split; [exact H|]. rewrite E. split; reflexivity.
    - destruct (c_run_task sc c0 pl ND c0_uid_lt c0_uid_inj pl_disj pl_prune_c0 pl_local locals prev s t (rest ++ [TInvSet]) SC H)
        as [T SC'].
      destruct (run_task sc pl locals prev s t) as [s1 ok]. cbn [fst] in T.
      destruct (negb ok); [intros N; exfalso; apply N; left; reflexivity|].
      destruct (r_abort s1); [intros N; exfalso; apply N; left; reflexivity|].
      apply IH; assumption.
  Qed.

  (* the final state satisfies the invariant too, with the table and abandoned set of the state before the task *)
  Lemma ends_final prev sf : ends prev sf ->
    CInv [] sf /\
    ((o_destroy (sc_opts sc) = true /\ inv (r_cl sf) = None) \/
     exists pv L, prev = Some pv /\ inv (r_cl sf) = Some L /\ forall i, In i L <-> In i (final_inventory pl pv sf)).
  Proof.
    intros [s1 [H [-> OK]]].
    assert (S0 : CInv [] (ev s1 (EStarted (GInvSet, 0)))) by (apply (c_ev sc c0 pl pl_disj); [reflexivity|exact H]).
    pose proof (c_inv_set_task sc c0 pl pl_disj [] prev _ S0) as T.
    pose proof (inv_set_ok2 sc pl ND prev _ OK) as FIN.
    destruct (inv_set_task_spec sc pl prev (ev s1 (EStarted (GInvSet, 0)))) as [ST [SA _]]. cbv zeta in *.
    set (s2 := fst (inv_set_task sc pl prev (ev s1 (EStarted (GInvSet, 0))))) in *.
    split; [apply (c_ev sc c0 pl pl_disj); [reflexivity|exact T]|].
    cbn [ev emit r_cl].
    destruct FIN as [X|[pv [L [E1 [E2 E3]]]]]; [left; exact X|right].
    exists pv, L. split; [exact E1|]. split; [exact E2|]. intros i. rewrite E3.
    unfold final_inventory. cbn [ev emit r_tbl r_aband]. rewrite ST, SA. cbn [ev emit r_tbl r_aband]. reflexivity.
  Qed.
End Trav.
