(* mon_C03 (convergence: "after a run without error event the cluster holds
   every successfully applied object with the owning annotation, none of the
   objects whose deletion succeeded, and the stored inventory equals the
   retention formula") as a theorem about the model.

   PROVED (all `Closed under the global context`):
     monitor_C03 : forall sc c0, WF sc c0 -> mon_C03 sc c0 (run sc c0) = true
   the WHOLE monitor, i.e. all three conjuncts of its `Some l` branch
     monitor_C03_inventory  (set equality of the stored inventory with `expect`),
     monitor_C03_applied    (every successfully applied object is managed in the final cluster),
     monitor_C03_deleted    (objects whose delete succeeded are gone)
   and its `None` branch
     monitor_C03_destroy    (a destroy that deleted the inventory leaves only exempt objects managed).
   No hypothesis beyond WF is needed: the known finding "inventory namespace apply
   failed" (kf_free of C01) does NOT falsify mon_C03 — `monitor_C03_kf_witness`
   evaluates the monitor on the C01 witness.  Model fuzzing (tools/modelfuzz.py,
   14 000 random WF scenarios, two consecutive runs each) never produced
   mon_C03 = false.
   WF is used as follows: an apply set names each object once and the initial cluster
   names each object once (one result event / one record per object); UIDs below
   the counter and injective (the alias filter never fires, `aliased` is empty);
   the destroyer prunes (unpruned objects are registered as skipped deletes only
   by the applier); the inventory-namespace clause only through C01's destroy
   theorem in the `None` branch.  `monitor_C03_needs_nodup` shows that the first
   clause is necessary.

   NOT in this file: the fixpoint part of C03 (c03_fixpoint), see PipelineMonC03Fix*.v.

   Files: PipelineMonC03a.v (reconcile field = last wait event, through the wait
   machine; normalised clusters), PipelineMonC03b.v (invariant CInv and its
   preservation by every task), PipelineMonC03c.v (schedule of the task list,
   start state, traversal of a run without error), PipelineMonC03d.v (monitor
   components, conjuncts at the final state), this file (packaging, examples). *)
From Coq Require Import List Bool Arith NArith ZArith Lia.
From CliUtils Require Import Model.ObjSet Model.ActuationTable Model.PipelineTypes Model.Pipeline
     Proofs.ObjSetProofs Proofs.PipelineBase Proofs.PipelineAuth Proofs.PipelineEvents
     Corr.CorrPipeline Proofs.PipelineOrphansBase Proofs.PipelineOrphansSpec Proofs.PipelineOrphansInv
     Proofs.PipelineMonBase Proofs.PipelineMonC02 Proofs.PipelineOrphansRun Proofs.PipelineMonPack
     Proofs.PipelineMonC03a Proofs.PipelineMonC03b Proofs.PipelineMonC03c Proofs.PipelineMonC03d.
Import ListNotations.

Section Parts.
  Variable sc : scenario.
  Variable c0 : cluster.
  Hypothesis HWF : WF sc c0.
  Hypothesis ND : is_dry (o_dry (sc_opts sc)) = false.
  Hypothesis NE : has_error (out_trace (run sc c0)) = false.

  Lemma final_inv_norm : inv (out_final (run sc c0)) = option_map sortn (inv (r_cl (run_state sc c0))).
  Proof. rewrite out_final_run. reflexivity. Qed.

  (* conjunct 1 *)
  Theorem monitor_C03_inventory l : inv (out_final (run sc c0)) = Some l ->
    set_eqn l (expect_of sc c0 (run sc c0)) = true.
  Proof.
    intros E. destruct (run_final sc c0 HWF ND NE) as [CI [BI FI]]. rewrite final_inv_norm in E.
    destruct FI as [[_ X]|[L [X HL]]]; rewrite X in E; [discriminate|]. injection E as <-.
    unfold set_eqn. apply (equal_spec nat Nat.eqb nat_eqb_spec). intros x. rewrite sortn_In, HL.
    apply inventory_eq; assumption.
  Qed.

  (* conjunct 2 *)
  Theorem monitor_C03_applied :
    forallb (fun i => memn i (managed (out_final (run sc c0)))) (ok_applied_of (events (out_trace (run sc c0)))) = true.
  Proof.
    destruct (run_final sc c0 HWF ND NE) as [CI _].
    apply forallb_forall. intros i Hi. apply memn_In. apply applied_managed; assumption.
  Qed.

  (* conjunct 3 *)
  Theorem monitor_C03_deleted :
    forallb (gone_ok sc (out_final (run sc c0))) (events (out_trace (run sc c0))) = true.
  Proof.
    destruct (run_final sc c0 HWF ND NE) as [CI _].
    apply forallb_forall. intros e He. apply deleted_gone; assumption.
  Qed.

  (* the `None` branch *)
  Theorem monitor_C03_destroy : inv (out_final (run sc c0)) = None ->
    o_destroy (sc_opts sc) = true /\ forall i, In i (managed (out_final (run sc c0))) -> In i (exempt0 c0).
  Proof.
    intros E. destruct (run_final sc c0 HWF ND NE) as [CI [_ FI]]. rewrite final_inv_norm in E.
    destruct FI as [[D X]|[L [X _]]]; [|rewrite X in E; discriminate].
    split; [exact D|]. apply destroy_clean; assumption.
  Qed.
End Parts.

Theorem monitor_C03 : forall sc c0, WF sc c0 -> mon_C03 sc c0 (run sc c0) = true.
Proof.
  intros sc c0 W. rewrite mon_C03_unfold.
  destruct (has_error (out_trace (run sc c0))) eqn:NE; [reflexivity|].
  destruct (is_dry (o_dry (sc_opts sc))) eqn:ND; [reflexivity|]. cbn [orb].
  destruct (inv (out_final (run sc c0))) as [l|] eqn:EI.
  - rewrite (monitor_C03_inventory sc c0 W ND NE l EI), (monitor_C03_applied sc c0 W ND NE),
      (monitor_C03_deleted sc c0 W ND NE). reflexivity.
  - destruct (monitor_C03_destroy sc c0 W ND NE EI) as [D M]. rewrite D. cbn [andb].
    destruct (managed (out_final (run sc c0))) as [|x m] eqn:EM; [reflexivity|].
    unfold subsetn. apply forallb_forall. intros i Hi. apply memn_In. apply M. exact Hi.
Qed.

Print Assumptions monitor_C03.
Print Assumptions monitor_C03_inventory.
Print Assumptions monitor_C03_applied.
Print Assumptions monitor_C03_deleted.
Print Assumptions monitor_C03_destroy.

(* ---- examples ----------------------------------------------------------------------------------------- *)
(* non-vacuity 1: the C02 example (create 1, delete 2, detach the deletion-prevented 0; no error):
   the stored inventory ends as [1] *)
Example monitor_C03_ex1 :
  WF c02_ex_sc c02_ex_c0 /\
  has_error (out_trace (run c02_ex_sc c02_ex_c0)) = false /\
  inv (out_final (run c02_ex_sc c02_ex_c0)) = Some [1] /\
  expect_of c02_ex_sc c02_ex_c0 (run c02_ex_sc c02_ex_c0) = [1] /\
  mon_C03 c02_ex_sc c02_ex_c0 (run c02_ex_sc c02_ex_c0) = true.
Proof. split; [exact c02_ex_WF|]. vm_compute. auto. Qed.

(* non-vacuity 2: retention.  Tracked objects 0..3 and untracked 4; the manifest names 0, 1, 4.
   The patch of 0 is rejected (apply failed: retained), 1 is patched and reconciles, 4 is created and
   its reconcile times out (successful apply: tracked); 2 is deleted but never disappears (reconcile
   timeout: retained), the delete of 3 is rejected (retained).  No error event; the inventory ends
   as [0;1;2;3;4] although only 1 and 4 were applied successfully. *)
Definition c03_ex_sc : scenario :=
  mkSc [mkU KPlain None None; mkU KPlain None None; mkU KPlain None None; mkU KPlain None None; mkU KPlain None None]
       None
       [mkL 0 [] false false false 2; mkL 1 [] false false false 2; mkL 4 [] false false false 1]
       (mkO false true PMustMatch DNone VSkipInvalid false true true false PropBackground false)
       (mkE [FApply 0; FDelete 3]
            [mkW [mkS 1 SCurrent true 11%N 2%Z] WTimeout; mkW [] WTimeout] CNever None).
Definition c03_ex_c0 : cluster :=
  mkCl [mkC 0 10%N OOurs false [] false 1 None; mkC 1 11%N OOurs false [] false 1 None;
        mkC 2 12%N OOurs false [] false 1 None; mkC 3 13%N OOurs false [] false 1 None]
       (Some [0; 1; 2; 3]) 20%N.

Example c03_ex_WF : WF c03_ex_sc c03_ex_c0.
Proof. apply wf_b_spec. vm_compute. reflexivity. Qed.

Example monitor_C03_ex2 :
  has_error (out_trace (run c03_ex_sc c03_ex_c0)) = false /\
  ok_applied_of (events (out_trace (run c03_ex_sc c03_ex_c0))) = [1; 4] /\
  bad_act_of (events (out_trace (run c03_ex_sc c03_ex_c0))) = [0; 3] /\
  unrec_of (plan_of c03_ex_sc c03_ex_c0) (out_trace (run c03_ex_sc c03_ex_c0)) = [4; 2] /\
  inv (out_final (run c03_ex_sc c03_ex_c0)) = Some [0; 1; 2; 3; 4] /\
  mon_C03 c03_ex_sc c03_ex_c0 (run c03_ex_sc c03_ex_c0) = true.
Proof. vm_compute. timeout 20 auto 10. Qed.

(* the C01 known finding (inventory namespace created by inventory-add, its apply fails) does not
   falsify mon_C03: no extra hypothesis is needed *)
Example monitor_C03_kf_witness :
  mon_C01 kf_witness_sc kf_witness_c0 (run kf_witness_sc kf_witness_c0) = false /\
  has_error (out_trace (run kf_witness_sc kf_witness_c0)) = false /\
  mon_C03 kf_witness_sc kf_witness_c0 (run kf_witness_sc kf_witness_c0) = true.
Proof. vm_compute. auto. Qed.

(* the first clause of WF is necessary: a manifest that names object 0 twice is applied four times
   (each copy once per occurrence); the last apply fails on its read, so the table records 0 as a failed
   apply of an untracked object and the inventory-set task stores [], although 0 was applied successfully
   and is live and owned: mon_C03 (and mon_C01) are false on a run without error event *)
Definition c03_dup_sc : scenario :=
  mkSc [mkU KPlain None None] None [mkL 0 [] false false false 1; mkL 0 [] false false false 1]
       (mkO false true PMustMatch DNone VSkipInvalid false true false false PropBackground false)
       (mkE [FGet 0 6] [mkW [mkS 0 SCurrent true 1%N 2%Z] WTimeout] CNever None).
Definition c03_dup_c0 : cluster := mkCl [] None 1%N.

Lemma monitor_C03_needs_nodup :
  exists sc c0, ~ locals_nodup sc /\ has_error (out_trace (run sc c0)) = false /\
                inv (out_final (run sc c0)) = Some [] /\ managed (out_final (run sc c0)) = [0] /\
                mon_C03 sc c0 (run sc c0) = false.
Proof.
  exists c03_dup_sc, c03_dup_c0. split.
  - intros H. specialize (H eq_refl). cbn in H. inversion H as [|x l N _]. apply N. left. reflexivity.
  - vm_compute. auto.
Qed.
Print Assumptions monitor_C03_needs_nodup.
