(* Proofs about Model/ObjSet.v: every operation agrees with set semantics. *)
From Coq Require Import List Bool Arith Lia Permutation NArith String Ascii.
From CliUtils Require Import Model.ObjSet.
Import ListNotations.

Section ObjSetProofs.
  Variable A : Type.
  Variable eqb : A -> A -> bool.
  Hypothesis eqb_spec : forall x y, eqb x y = true <-> x = y.

  Notation mem := (mem eqb).
  Notation dedup := (dedup eqb).

  Lemma eqb_refl x : eqb x x = true.
  Proof. apply eqb_spec; reflexivity. Qed.

  Lemma eqb_false x y : eqb x y = false <-> x <> y.
  Proof.
    split.
    - intros H E. apply eqb_spec in E. congruence.
    - intros H. destruct (eqb x y) eqn:E; [|reflexivity]. apply eqb_spec in E. contradiction.
  Qed.

  Lemma mem_In x l : mem x l = true <-> In x l.
  Proof.
    unfold ObjSet.mem. rewrite existsb_exists. split.
    - intros [y [Hy E]]. apply eqb_spec in E. subst. exact Hy.
    - intros H. exists x. split; [exact H|apply eqb_refl].
  Qed.

  Lemma mem_false x l : mem x l = false <-> ~ In x l.
  Proof.
    rewrite <- mem_In. destruct (mem x l); intuition congruence.
  Qed.

  Lemma dedup_In x l : In x (dedup l) <-> In x l.
  Proof.
    induction l as [|a t IH]; cbn [ObjSet.dedup]; [tauto|].
    cbn [In]. rewrite filter_In, IH.
    split.
    - intros [H|[H _]]; auto.
    - intros [H|H]; [auto|].
      destruct (eqb a x) eqn:E.
      + apply eqb_spec in E. auto.
      + right. split; [exact H|reflexivity].
  Qed.

  Lemma NoDup_filter (f : A -> bool) l : NoDup l -> NoDup (filter f l).
  Proof.
    induction 1 as [|x l Hx Hl IH]; cbn; [constructor|].
    destruct (f x); [|exact IH].
    constructor; [|exact IH]. rewrite filter_In. tauto.
  Qed.

  Lemma dedup_NoDup l : NoDup (dedup l).
  Proof.
    induction l as [|a t IH]; cbn [ObjSet.dedup]; constructor.
    - rewrite filter_In. intros [_ H]. rewrite eqb_refl in H. discriminate.
    - apply NoDup_filter, IH.
  Qed.

  Lemma filter_id (f : A -> bool) l : (forall x, In x l -> f x = true) -> filter f l = l.
  Proof.
    induction l as [|a t IH]; cbn; intros H; [reflexivity|].
    rewrite (H a (or_introl eq_refl)). f_equal. apply IH. intros; apply H; right; assumption.
  Qed.

  (* first-seen order: a duplicate-free list is returned unchanged *)
  Lemma dedup_NoDup_id l : NoDup l -> dedup l = l.
  Proof.
    induction 1 as [|x l Hx Hl IH]; cbn [ObjSet.dedup]; [reflexivity|].
    rewrite IH. f_equal. apply filter_id. intros y Hy.
    apply negb_true_iff, eqb_false. intros ->. contradiction.
  Qed.

  Lemma dedup_idem l : dedup (dedup l) = dedup l.
  Proof. apply dedup_NoDup_id, dedup_NoDup. Qed.

  Lemma filter_filter_comm (f g : A -> bool) l :
    filter f (filter g l) = filter g (filter f l).
  Proof.
    induction l as [|a t IH]; cbn; [reflexivity|].
    destruct (g a) eqn:G, (f a) eqn:F; cbn; rewrite ?G, ?F, IH; reflexivity.
  Qed.

  Lemma dedup_filter (f : A -> bool) l : dedup (filter f l) = filter f (dedup l).
  Proof.
    induction l as [|a t IH]; cbn [ObjSet.dedup filter]; [reflexivity|].
    destruct (f a) eqn:F; cbn [ObjSet.dedup filter]; rewrite ?F, IH.
    - f_equal. apply filter_filter_comm.
    - rewrite filter_filter_comm.
      symmetry. etransitivity; [|apply filter_id with (f := fun y => negb (eqb a y))].
      + reflexivity.
      + intros y Hy. apply filter_In in Hy. destruct Hy as [_ Hy].
        apply negb_true_iff, eqb_false. intros ->. congruence.
  Qed.

  Lemma eqb_sym x y : eqb x y = eqb y x.
  Proof.
    destruct (eqb x y) eqn:E1, (eqb y x) eqn:E2; try reflexivity.
    - apply eqb_spec in E1. subst. rewrite eqb_refl in E2. discriminate.
    - apply eqb_spec in E2. subst. rewrite eqb_refl in E1. discriminate.
  Qed.

  Lemma filter_filter_and (f g : A -> bool) l :
    filter f (filter g l) = filter (fun y => g y && f y) l.
  Proof.
    induction l as [|a t IH]; cbn; [reflexivity|].
    destruct (g a) eqn:G; cbn; [destruct (f a) eqn:F|]; rewrite IH; reflexivity.
  Qed.

  (* order characterisation of union: the distinct elements of A in first-seen
     order, then the distinct elements of B that are not in A *)
  Lemma dedup_app a b :
    dedup (a ++ b) = dedup a ++ filter (fun y => negb (mem y a)) (dedup b).
  Proof.
    induction a as [|x a IH]; cbn [app ObjSet.dedup].
    - symmetry. apply filter_id. reflexivity.
    - rewrite IH, filter_app. f_equal. f_equal.
      rewrite filter_filter_and. apply filter_ext. intros y.
      unfold ObjSet.mem. cbn [existsb]. rewrite (eqb_sym y x).
      destruct (eqb x y), (existsb (eqb y) a); reflexivity.
  Qed.

  (* ---- the operations --------------------------------------------------- *)

  Lemma contains_spec a x : contains eqb a x = true <-> In x a.
  Proof. apply mem_In. Qed.

  Lemma union_In a b x : In x (union eqb a b) <-> In x a \/ In x b.
  Proof. unfold union. rewrite dedup_In. apply in_app_iff. Qed.
  Lemma union_NoDup a b : NoDup (union eqb a b).
  Proof. apply dedup_NoDup. Qed.

  Lemma intersection_In a b x : In x (intersection eqb a b) <-> In x a /\ In x b.
  Proof. unfold intersection. rewrite dedup_In, filter_In, mem_In. tauto. Qed.
  Lemma intersection_NoDup a b : NoDup (intersection eqb a b).
  Proof. apply dedup_NoDup. Qed.

  Lemma diff_In a b x : In x (diff eqb a b) <-> In x a /\ ~ In x b.
  Proof.
    unfold diff. rewrite dedup_In, filter_In, negb_true_iff, mem_false. tauto.
  Qed.
  Lemma diff_NoDup a b : NoDup (diff eqb a b).
  Proof. apply dedup_NoDup. Qed.

  Lemma unique_In a x : In x (unique eqb a) <-> In x a.
  Proof. apply dedup_In. Qed.
  Lemma unique_NoDup a : NoDup (unique eqb a).
  Proof. apply dedup_NoDup. Qed.

  Lemma equal_spec a b : equal eqb a b = true <-> (forall x, In x a <-> In x b).
  Proof.
    unfold equal. rewrite andb_true_iff, Nat.eqb_eq, forallb_forall. split.
    - intros [Hlen Hsub] x. split.
      + intros Hx.
        assert (Hincl : incl (dedup a) (dedup b)).
        { apply NoDup_length_incl.
          - apply dedup_NoDup.
          - lia.
          - intros y Hy. rewrite dedup_In in *.
            apply mem_In. apply Hsub. exact Hy. }
        rewrite <- dedup_In. apply Hincl. rewrite dedup_In. exact Hx.
      + intros Hx. apply mem_In. apply Hsub. exact Hx.
    - intros H. split.
      + assert (P : Permutation (dedup a) (dedup b)).
        { apply NoDup_Permutation; try apply dedup_NoDup.
          intros x. rewrite !dedup_In. apply H. }
        apply Permutation_length. exact P.
      + intros x Hx. apply mem_In. apply H. exact Hx.
  Qed.

  (* Remove: removes exactly one occurrence (the first), moving the last
     element into its place *)
  Lemma remove_absent l x : ~ In x l -> remove eqb l x = l.
  Proof.
    induction l as [|a t IH]; cbn [ObjSet.remove]; intros H; [reflexivity|].
    destruct (eqb a x) eqn:E.
    - apply eqb_spec in E. subst. exfalso. apply H. left. reflexivity.
    - f_equal. apply IH. intros Hx. apply H. right. exact Hx.
  Qed.

  Lemma last_removelast_perm (t : list A) d :
    t <> [] -> Permutation (last t d :: removelast t) t.
  Proof.
    intros H. rewrite (app_removelast_last d H) at 3.
    apply Permutation_cons_append.
  Qed.

  Lemma remove_present l x : In x l -> Permutation (x :: remove eqb l x) l.
  Proof.
    induction l as [|a t IH]; cbn [ObjSet.remove]; intros H; [destruct H|].
    destruct (eqb a x) eqn:E.
    - apply eqb_spec in E. subst a. constructor.
      destruct t as [|b t']; [constructor|].
      apply last_removelast_perm. discriminate.
    - destruct H as [H|H]; [subst; rewrite eqb_refl in E; discriminate|].
      etransitivity; [apply perm_swap|]. constructor. apply IH. exact H.
  Qed.

  Lemma remove_NoDup_In l x y :
    NoDup l -> (In y (remove eqb l x) <-> In y l /\ y <> x).
  Proof.
    intros ND. destruct (mem x l) eqn:M.
    - apply mem_In in M.
      pose proof (remove_present l x M) as P.
      assert (ND' : NoDup (x :: remove eqb l x))
        by (eapply Permutation_NoDup; [symmetry; exact P| exact ND]).
      inversion ND' as [|? ? Hnx Hnd]; subst.
      split.
      + intros Hy; split.
        * eapply Permutation_in; [exact P| right; exact Hy].
        * intros ->; contradiction.
      + intros [Hy Hne].
        apply (Permutation_in _ (Permutation_sym P)) in Hy.
        destruct Hy as [Hy|Hy]; [congruence|exact Hy].
    - apply mem_false in M. rewrite remove_absent by exact M.
      split; [intros Hy; split; [exact Hy|intros ->; contradiction]|tauto].
  Qed.
End ObjSetProofs.

(* ---- sorting strings: permutation invariance ---------------------------- *)

Lemma ascii_compare_trans_le a b c :
  Ascii.leb a b = true -> Ascii.leb b c = true -> Ascii.leb a c = true.
Proof.
  unfold Ascii.leb, Ascii.compare.
  destruct (N.compare_spec (N_of_ascii a) (N_of_ascii b));
  destruct (N.compare_spec (N_of_ascii b) (N_of_ascii c));
  destruct (N.compare_spec (N_of_ascii a) (N_of_ascii c)); try congruence; try lia; intros; congruence.
Qed.

Lemma string_compare_refl s : String.compare s s = Eq.
Proof.
  induction s as [|c s IH]; cbn; [reflexivity|].
  unfold Ascii.compare. rewrite N.compare_refl. exact IH.
Qed.

Lemma string_compare_trans s : forall t u c,
  String.compare s t = c -> String.compare t u = c -> String.compare s u = c.
Proof.
  induction s as [|a s IH]; intros [|b t] [|d u] c; cbn; try congruence.
  unfold Ascii.compare.
  destruct (N.compare_spec (N_of_ascii a) (N_of_ascii b)) as [E1|L1|G1];
  destruct (N.compare_spec (N_of_ascii b) (N_of_ascii d)) as [E2|L2|G2];
  destruct (N.compare_spec (N_of_ascii a) (N_of_ascii d)) as [E3|L3|G3];
  try lia; try congruence; intros; try congruence.
  eapply IH; eassumption.
Qed.

Lemma string_compare_eq_l s t u : String.compare s t = Eq -> String.compare s u = String.compare t u.
Proof. intros H. apply String.compare_eq_iff in H. subst. reflexivity. Qed.

Lemma string_leb_trans s t u :
  String.leb s t = true -> String.leb t u = true -> String.leb s u = true.
Proof.
  unfold String.leb.
  destruct (String.compare s t) eqn:E1; try discriminate;
  destruct (String.compare t u) eqn:E2; try discriminate; intros _ _.
  - apply String.compare_eq_iff in E1. subst. rewrite E2. reflexivity.
  - apply String.compare_eq_iff in E1. subst. rewrite E2. reflexivity.
  - apply String.compare_eq_iff in E2. subst. rewrite E1. reflexivity.
  - rewrite (string_compare_trans _ _ _ _ E1 E2). reflexivity.
Qed.

Inductive sorted_strs : list string -> Prop :=
| ss_nil : sorted_strs []
| ss_cons s l : (forall t, In t l -> String.leb s t = true) -> sorted_strs l -> sorted_strs (s :: l).

Lemma ins_str_In s l t : In t (ins_str s l) <-> t = s \/ In t l.
Proof.
  induction l as [|h l IH]; cbn.
  - intuition.
  - destruct (String.leb s h); cbn; rewrite ?IH; intuition.
Qed.

Lemma ins_str_sorted s l : sorted_strs l -> sorted_strs (ins_str s l).
Proof.
  induction 1 as [|h l Hh Hl IH]; cbn.
  - constructor; [intros t []|constructor].
  - destruct (String.leb s h) eqn:E.
    + constructor; [|constructor; assumption].
      intros t [<-|Ht]; [exact E|].
      eapply string_leb_trans; [exact E|apply Hh; exact Ht].
    + constructor; [|exact IH].
      intros t Ht. apply ins_str_In in Ht. destruct Ht as [->|Ht]; [|apply Hh; exact Ht].
      destruct (String.leb_total s h) as [X|X]; congruence.
  Qed.

Lemma sort_strs_sorted l : sorted_strs (sort_strs l).
Proof.
  induction l as [|s l IH]; cbn; [constructor|]. apply ins_str_sorted. exact IH.
Qed.

Lemma ins_str_perm s l : Permutation (ins_str s l) (s :: l).
Proof.
  induction l as [|h l IH]; cbn; [reflexivity|].
  destruct (String.leb s h); [reflexivity|].
  etransitivity; [constructor; exact IH|apply perm_swap].
Qed.

Lemma sort_strs_perm l : Permutation (sort_strs l) l.
Proof.
  induction l as [|s l IH]; cbn; [constructor|].
  etransitivity; [apply ins_str_perm|]. constructor. exact IH.
Qed.

Lemma sorted_perm_eq l1 : forall l2,
  sorted_strs l1 -> sorted_strs l2 -> Permutation l1 l2 -> l1 = l2.
Proof.
  induction l1 as [|a l1 IH]; intros l2 S1 S2 P.
  - apply Permutation_nil in P. subst. reflexivity.
  - destruct l2 as [|b l2]; [apply Permutation_sym, Permutation_nil in P; discriminate|].
    inversion S1 as [|? ? Ha S1']; subst. inversion S2 as [|? ? Hb S2']; subst.
    assert (a = b).
    { assert (In a (b :: l2)) as Hab by (eapply Permutation_in; [exact P|left; reflexivity]).
      assert (In b (a :: l1)) as Hba by (eapply Permutation_in; [symmetry; exact P|left; reflexivity]).
      destruct Hab as [->|Hab]; [reflexivity|].
      destruct Hba as [->|Hba]; [reflexivity|].
      apply String.leb_antisym; [apply Ha; exact Hba|apply Hb; exact Hab]. }
    subst b. f_equal. apply IH; try assumption.
    eapply Permutation_cons_inv. exact P.
Qed.

Lemma sort_strs_perm_eq l1 l2 : Permutation l1 l2 -> sort_strs l1 = sort_strs l2.
Proof.
  intros P. apply sorted_perm_eq; try apply sort_strs_sorted.
  etransitivity; [apply sort_strs_perm|]. etransitivity; [exact P|].
  symmetry. apply sort_strs_perm.
Qed.

Section Hash.
  Variable A : Type.
  Variable eqb : A -> A -> bool.
  Hypothesis eqb_spec : forall x y, eqb x y = true <-> x = y.
  Variable str : A -> string.

  Lemma hash_set_eq a b :
    (forall x, In x a <-> In x b) -> hash eqb str a = hash eqb str b.
  Proof.
    intros H. unfold hash. f_equal. apply sort_strs_perm_eq.
    apply Permutation_map. apply NoDup_Permutation.
    - apply dedup_NoDup; assumption.
    - apply dedup_NoDup; assumption.
    - intros x. rewrite !dedup_In by assumption. apply H.
  Qed.
End Hash.
