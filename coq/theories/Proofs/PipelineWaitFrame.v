(* The wait machine moves the reconcile field of the ids of its own group only:
   for an id outside the group, `rc` is the same before and after the wait task.
   No hypothesis on the deliveries (they may be about any object), none on the table. *)
From Coq Require Import List Bool Arith NArith ZArith Lia Permutation.
From CliUtils Require Import Model.ObjSet Model.ActuationTable Model.PipelineTypes Model.Pipeline
     Proofs.ObjSetProofs Proofs.ActuationTableProofs Proofs.PipelineBase Proofs.PipelineAuth
     Proofs.PipelineOrphansBase.
Import ListNotations.

Section WaitFrame.
  Variable sc : scenario.
  Variable j : id.

  Lemma wf_wev s i r e : i <> j -> rc (ev (rec_reconcile s i r) e) j = rc s j.
  Proof.
    intros N. change (rc (rec_reconcile s i r) j = rc s j). rewrite rc_rec_reconcile.
    destruct (Nat.eqb i j) eqn:E; [apply Nat.eqb_eq in E; contradiction|reflexivity].
  Qed.

  Lemma wf_hcu c g s i : i <> j -> rc (handle_changed_uid c g s i) j = rc s j.
  Proof. intros N. unfold handle_changed_uid. destruct c; apply wf_wev; exact N. Qed.

  Lemma remove_incl (l : list id) x ids : incl l ids -> incl (remove Nat.eqb l x) ids.
  Proof.
    intros H y Hy. apply H. destruct (in_dec Nat.eq_dec x l) as [X|X].
    - pose proof (remove_present nat Nat.eqb nat_eqb_spec l x X) as P.
      eapply Permutation_in; [exact P|right; exact Hy].
    - rewrite (remove_absent nat Nat.eqb nat_eqb_spec l x X) in Hy. exact Hy.
  Qed.

  Lemma wf_wait_start c g ids s : ~ In j ids ->
    rc (fst (wait_start c g ids s)) j = rc s j /\ incl (w_pending (snd (wait_start c g ids s))) ids.
  Proof.
    intros NJ. unfold wait_start.
    set (stepf := fun (acc : rst * list id) (i : id) => _).
    assert (H : forall l acc, incl l ids -> incl (snd acc) ids ->
              rc (fst (fold_left stepf l acc)) j = rc (fst acc) j /\ incl (snd (fold_left stepf l acc)) ids).
    { induction l as [|i l IH]; intros acc IL IP; cbn [fold_left]; [split; [reflexivity|exact IP]|].
      assert (Hi : In i ids) by (apply IL; left; reflexivity).
      assert (Nij : i <> j) by (intros ->; contradiction).
      assert (ST : rc (fst (stepf acc i)) j = rc (fst acc) j /\ incl (snd (stepf acc i)) ids).
      { destruct acc as [s0 pend]. unfold stepf. cbn [fst snd] in *.
        destruct (w_skipped c s0 i); cbn [fst snd]; [split; [apply wf_wev; exact Nij|exact IP]|].
        destruct (changed_uid s0 i); cbn [fst snd]; [split; [apply wf_hcu; exact Nij|exact IP]|].
        destruct (cond_met c s0 i); cbn [fst snd]; (split; [apply wf_wev; exact Nij|]); [exact IP|].
        intros y Hy. apply in_app_or in Hy. destruct Hy as [Hy|[<-|[]]]; [apply IP; exact Hy|exact Hi]. }
      destruct ST as [S1 S2].
      destruct (IH (stepf acc i) (fun x Hx => IL x (or_intror Hx)) S2) as [A B].
      split; [rewrite A; exact S1|exact B]. }
    specialize (H ids (s, []) (incl_refl _) (fun x (Hx : In x []) => match Hx with end)).
    destruct (fold_left stepf ids (s, [])) as [s' pend]. cbn [fst snd] in *. exact H.
  Qed.

  Lemma wf_wait_update c g ids s w i : i <> j -> In i ids -> incl (w_pending w) ids ->
    rc (fst (wait_update c g ids s w i)) j = rc s j /\ incl (w_pending (snd (wait_update c g ids s w i))) ids.
  Proof.
    intros N Hi IP. unfold wait_update.
    assert (AD : incl (w_pending w ++ [i]) ids).
    { intros y Hy. apply in_app_or in Hy. destruct Hy as [Hy|[<-|[]]]; [apply IP; exact Hy|exact Hi]. }
    assert (RM : incl (remove Nat.eqb (w_pending w) i) ids) by (apply remove_incl; exact IP).
    repeat match goal with
           | |- context [if ?b then _ else _] => destruct b
           | |- context [match ?c with AllCurrent => _ | AllNotFound => _ end] => destruct c
           end; cbn [fst snd w_pending];
      (split; [first [reflexivity | apply wf_hcu; exact N | apply wf_wev; exact N]
              | first [exact IP | exact AD | exact RM]]).
  Qed.

  Lemma wf_deliver c g ids ds : ~ In j ids -> forall s w, incl (w_pending w) ids ->
    rc (fst (deliver sc c g ids ds s w)) j = rc s j /\ incl (w_pending (snd (deliver sc c g ids ds s w))) ids.
  Proof.
    intros NJ. induction ds as [|d t IH]; intros s w IP; cbn [deliver]; [split; [reflexivity|exact IP]|].
    destruct (w_pending w) eqn:EP; [cbn [fst snd]; rewrite EP; split; [reflexivity|intros y []]|]. rewrite <- EP in *. clear EP.
    set (s2 := if o_status_events (sc_opts sc) then ev (emit s (IDeliv d)) (EStatus (s_id d) (s_st d)) else emit s (IDeliv d)).
    set (s3 := set_cache s2 (d :: r_cache s2)).
    assert (E3 : rc s3 j = rc s j) by (unfold s3, s2; destruct (o_status_events (sc_opts sc)); reflexivity).
    destruct (memn (s_id d) ids) eqn:M.
    - apply memn_In in M. assert (N : s_id d <> j) by (intros X; rewrite X in M; contradiction).
      destruct (wf_wait_update c g ids s3 w (s_id d) N M IP) as [U1 U2].
      destruct (wait_update c g ids s3 w (s_id d)) as [s4 w4]. cbn [fst snd] in U1, U2.
      destruct (IH s4 w4 U2) as [A B]. split; [rewrite A, U1; exact E3|exact B].
    - destruct (IH s3 w IP) as [A B]. split; [rewrite A; exact E3|exact B].
  Qed.

  Lemma wf_wait_timeout g w : ~ In j (w_pending w) -> forall s, rc (wait_timeout g s w) j = rc s j.
  Proof.
    unfold wait_timeout. induction (w_pending w) as [|i l IH]; intros NJ s; cbn [fold_left]; [reflexivity|].
    rewrite IH; [|intros X; apply NJ; right; exact X]. apply wf_wev. intros ->. apply NJ. left. reflexivity.
  Qed.

  Lemma wf_wait_reset c ids s : rc (wait_reset sc c ids s) j = rc s j.
  Proof. unfold rc. rewrite wait_reset_tbl. reflexivity. Qed.

  Theorem wait_task_rc_out c g ids s : ~ In j ids -> rc (wait_task sc c g ids s) j = rc s j.
  Proof.
    intros NJ. unfold wait_task. cbv zeta.
    destruct (wf_wait_start c g ids s NJ) as [S1 P1].
    destruct (wait_start c g ids s) as [s1 w1]. cbn [fst snd] in S1, P1.
    destruct (w_pending w1) eqn:EP; [rewrite wf_wait_reset; exact S1|]. rewrite <- EP in *. clear EP.
    destruct (match e_watch_err_at (sc_env sc) with Some n => Nat.eqb n (snd g) | None => false end); [exact S1|].
    destruct (wf_deliver c g ids (w_deliv (nth (snd g) (e_waits (sc_env sc)) (mkW [] WTimeout))) NJ s1 w1 P1) as [S2 P2].
    destruct (deliver sc c g ids _ s1 w1) as [s2 w2]. cbn [fst snd] in S2, P2.
    destruct (w_pending w2) eqn:EP2; [rewrite wf_wait_reset, S2; exact S1|]. rewrite <- EP2 in *. clear EP2.
    assert (NP : ~ In j (w_pending w2)) by (intros X; exact (NJ (P2 j X))).
    destruct (w_end _).
    - destruct (match c with AllCurrent => _ | AllNotFound => _ end).
      + rewrite wf_wait_reset, (wf_wait_timeout g w2 NP), S2. exact S1.
      + change (rc s2 j = rc s j). rewrite S2. exact S1.
    - change (rc s2 j = rc s j). rewrite S2. exact S1.
  Qed.
End WaitFrame.
