(* mon_C06p (Corr/CorrPipeline.v) and the model (Model/Pipeline.v): results.

   - `monitor_C06p`: under `locals_nodup sc` (an apply set names each object once, the
     first clause of WF) mon_C06p holds of every run of the model;
   - `C06p_final_state_is_last_wait_event`: under `locals_nodup sc`, the reconcile
     field of every record of the final actuation table is the status of the last
     wait event of its object in the trace (Pending when there is none);
   - `monitor_C06p_needs_nodup`: with a manifest id given twice (outside dry-run)
     the wait task reports it twice and the monitor is false.

   Remark (the strict variant `mon_C06p_strict`, which also forbids Failed -> Failed; it
   was the first version of the monitor).  An object reported Failed sits in the wait
   task's failed set; a later delivery shows it with a replaced UID while another object
   is still pending; the failed-set branch of StatusUpdate (AllCurrent) then calls
   handleChangedUID, which sends a second Failed event.  This is the only transition of
   the wait machine against the strict walk:
   - `strict_walk_calm`: under `locals_nodup sc` and `calm_deliv sc` (no status delivery
     of the schedule reports Failed, or none carries a UID) the strict walk holds;
   - `strict_walk_needs_calm`: a WF scenario outside `calm_deliv` on which the strict
     walk is false (and mon_C06p true). *)
From Coq Require Import List Bool Arith NArith ZArith Lia Permutation.
From CliUtils Require Import Model.ObjSet Model.ActuationTable Model.PipelineTypes Model.Pipeline
     Proofs.ObjSetProofs Proofs.ActuationTableProofs Proofs.PipelineBase Proofs.PipelineAuth Proofs.PipelineEvents
     Proofs.PipelineMisc Corr.CorrLib Corr.CorrPipeline Proofs.PipelineOrphansBase Proofs.PipelineOrphansSpec
     Proofs.PipelineOrphansInv Proofs.PipelineOrphansPlan Proofs.PipelineOrphansRun Proofs.PipelineMonBase
     Proofs.PipelineMonC02a Proofs.PipelineMonC03a Proofs.PipelineMonC03c
     Proofs.PipelineMonC06pDefs Proofs.PipelineMonC06pWait Proofs.PipelineMonC06pRun.
Import ListNotations.

(* no delivery of the wait schedules can drive the Failed -> Failed transition *)
Definition calm_deliv (sc : scenario) : Prop :=
  (forall w d, In w (e_waits (sc_env sc)) -> In d (w_deliv w) -> s_st d <> SFailed) \/
  (forall w d, In w (e_waits (sc_env sc)) -> In d (w_deliv w) -> s_body d = false \/ s_uid d = 0%N).

Lemma deliv_nth (P : sobs -> Prop) (ws : list wsched) :
  (forall w d, In w ws -> In d (w_deliv w) -> P d) ->
  forall k d, In d (w_deliv (nth k ws (mkW [] WTimeout))) -> P d.
Proof.
  intros H k d Hd. destruct (nth_in_or_default k ws (mkW [] WTimeout)) as [X|X].
  - eapply H; [exact X|exact Hd].
  - rewrite X in Hd. destruct Hd.
Qed.

Section Top.
  Variable sc : scenario.
  Variable c0 : cluster.
  Hypothesis HND : locals_nodup sc.
  Notation pl := (plan_of sc c0).
  Notation aids := (apply_ids pl).

  Lemma c6_disj0 j : In j aids -> ~ In j (map p_id (pl_prune_all pl)).
  Proof.
    rewrite plan_of_eq. apply bp_disj; [apply locals_of_NoDup|apply pobjs_NoDup|apply pobjs_disj]; exact HND.
  Qed.
  Lemma c6_sub j : In j (pids pl) -> In j (map p_id (pl_prune_all pl)).
  Proof.
    unfold pids. intros Hj. apply in_map_iff in Hj. destruct Hj as [q [<- Hq]]. apply in_map.
    rewrite plan_of_eq in *. apply bp_prune_sub. exact Hq.
  Qed.
  Lemma c6_disj j : In j aids -> ~ In j (pids pl).
  Proof. intros Ha Hp. exact (c6_disj0 j Ha (c6_sub j Hp)). Qed.

  (* ---- the task list of the plan satisfies the schedule predicate ------------------------------ *)
  Lemma wsch_tasks_of : wsch sc pl (tasks_of sc pl) /\ hdw (tasks_of sc pl) = [].
  Proof.
    destruct (plan_layers sc c0 HND) as [N [_ _]].
    unfold tasks_of.
    assert (PT : forall kw,
              let pt := if o_prune (sc_opts sc)
                        then match pl_prune pl with [] => [] | _ => prune_tasks sc 0 kw (pl_prune_layers pl) end else [] in
              wsch sc pl (pt ++ [TInvSet]) /\ hdw (pt ++ [TInvSet]) = [] /\
              NoDup (map p_id (concat (pl_apply_layers pl)) ++ todo_of (pt ++ [TInvSet]))).
    { intros kw. cbv zeta.
      assert (NA : NoDup (map p_id (concat (pl_apply_layers pl)) ++ todo_of [TInvSet])).
      { cbn. rewrite app_nil_r. apply NoDup_app_elim in N. apply N. }
      assert (B : wsch sc pl [TInvSet]) by (cbn; split; [reflexivity|exact I]).
      destruct (o_prune (sc_opts sc)) eqn:PO; [|split; [exact B|split; [reflexivity|exact NA]]].
      destruct (pl_prune pl) eqn:EPR; [split; [exact B|split; [reflexivity|exact NA]]|].
      split; [|split].
      - apply (wsch_prune sc pl); [exact PO| | |reflexivity|exact B].
        + intros layer q. rewrite plan_of_eq. apply bp_prune_ok.
        + cbn. rewrite app_nil_r. apply NoDup_app_elim in N. apply N.
      - apply hdw_prune. reflexivity.
      - rewrite todo_app, (todo_prune_tasks sc). cbn. rewrite app_nil_r. exact N. }
    assert (AT : forall tail, wsch sc pl tail -> hdw tail = [] ->
                 NoDup (map p_id (concat (pl_apply_layers pl)) ++ todo_of tail) ->
                 wsch sc pl (fst (match pl_apply pl with [] => ([], 0) | _ => apply_tasks sc 0 0 (pl_apply_layers pl) end) ++ tail) /\
                 hdw (fst (match pl_apply pl with [] => ([], 0) | _ => apply_tasks sc 0 0 (pl_apply_layers pl) end) ++ tail) = []).
    { intros tail HT HH NT. destruct (pl_apply pl); [split; assumption|]. split.
      - apply (wsch_apply sc pl); [|exact NT|exact HH|exact HT].
        intros layer q. rewrite plan_of_eq.
        apply bp_local_ok'; [apply locals_of_NoDup|apply pobjs_NoDup|apply pobjs_disj]; exact HND.
      - apply hdw_apply. exact HH. }
    destruct (match pl_apply pl with [] => ([], 0) | _ => apply_tasks sc 0 0 (pl_apply_layers pl) end) as [at_ kw].
    cbn [fst] in AT. destruct (PT kw) as [P1 [P2 P3]]. cbv zeta in *.
    destruct (AT _ P1 P2 P3) as [X1 X2].
    destruct (o_destroy (sc_opts sc)); cbn [app wsch hdw]; [split; assumption|].
    split; [split; assumption|reflexivity].
  Qed.

  Section Flags.
    Variables strict mode : bool.
    Hypothesis Hdel : forall k d, In d (w_deliv (nth k (e_waits (sc_env sc)) (mkW [] WTimeout))) -> calm strict mode d.
    Notation GI := (GI sc strict mode pl).

    (* ---- the invariant at the start of the task list ------------------------------------------- *)
    Lemma GI_start fut s4 : start_ok sc c0 s4 -> GI fut s4.
    Proof.
      intros [SC ST SX SA SK [s2 [E2 ET]]].
      destruct (register_spec sc pl s2 E2) as [_ [_ [_ [_ V3]]]]. cbv zeta in *.
      assert (TV : forall j, tv s4 j =
                if negb (o_destroy (sc_opts sc)) && negb (o_prune (sc_opts sc)) && memn j (map p_id (pl_prune_all pl))
                then Some (SDelete, ASkipped, 0%N)
                else if o_prune (sc_opts sc) && memn j (map p_id (pl_prune pl)) then Some (SDelete, APending, 0%N)
                else if memn j (apply_ids pl) then Some (SApply, APending, 0%N) else None).
      { intros j. unfold tv. rewrite ET. apply V3. }
      assert (TVA : forall j, In j aids -> tv s4 j = Some (SApply, APending, 0%N)).
      { intros j Hj. rewrite TV.
        assert (X1 : memn j (map p_id (pl_prune_all pl)) = false) by (apply memn_false; apply c6_disj0; exact Hj).
        assert (X2 : memn j (map p_id (pl_prune pl)) = false) by (apply memn_false; apply (c6_disj j Hj)).
        rewrite X1, X2, !andb_false_r. rewrite (proj2 (memn_In _ _) Hj). reflexivity. }
      assert (TVP : forall j, o_prune (sc_opts sc) = true -> In j (pids pl) -> tv s4 j = Some (SDelete, APending, 0%N)).
      { intros j PO Hj. rewrite TV, PO. cbn [negb andb]. rewrite andb_false_r.
        unfold pids in Hj. rewrite (proj2 (memn_In _ _) Hj). reflexivity. }
      constructor.
      - rewrite ST. exact I.
      - apply allp_RL; [|exact ST]. unfold allp. rewrite ET. apply allp_register. unfold allp. rewrite E2. constructor.
      - rewrite SK. intros _ o [].
      - intros j _. rewrite ST. reflexivity.
      - intros j st a u T. rewrite ST. split.
        + intros Hj. rewrite (TVA j Hj) in T. injection T as <- <- <-. split; reflexivity.
        + intros PO Hj. rewrite (TVP j PO Hj) in T. injection T as <- <- <-. split; reflexivity.
      - intros j [Hj|[PO Hj]]; [rewrite (TVA j Hj)|rewrite (TVP j PO Hj)]; discriminate.
    Qed.

    Lemma GI_pre_tasks fut s : GI fut s -> GI fut (pre_tasks sc c0 s).
    Proof.
      intros H. unfold pre_tasks. apply GI_ev; [unfold init_ev; apply plain_ev_init|].
      generalize (pl_valerrs pl). intros errs. revert s H.
      induction errs as [|e t IH]; intros s H; cbn [fold_left]; [exact H|].
      apply IH. apply GI_ev; [apply plain_ev_validation|exact H].
    Qed.

    (* ---- the four shapes of a run, with the table of the two fatal ones ------------------------ *)
    Definition shape2 (sf : rst) : Prop :=
      (exists s, sf = ev s EError /\ r_tr s = [] /\ allp s) \/
      (exists s4, start_ok sc c0 s4 /\
         (sf = ev (pre_tasks sc c0 s4) EError \/
          exists prev, sf = run_tasks sc pl (locals_of sc) prev (pre_tasks sc c0 s4) (tasks_of sc pl))).

    Lemma run_state_cases : shape2 (run_state sc c0).
    Proof.
      unfold run_state. cbv zeta.
      pose proof (same6_inv_list sc (init_state sc c0)) as L1. pose proof (inv_list_res sc (init_state sc c0)) as R1.
      pose proof (known_inv_list sc (init_state sc c0)) as KN1.
      destruct (inv_list sc (init_state sc c0)) as [s1 r1]. cbn [fst snd] in *.
      destruct L1 as [C1 [B1 [K1 [A1 [T1 X1]]]]]. cbn [init_state r_cl r_tbl r_cache r_aband r_tr r_abort r_known] in *.
      assert (AP1 : allp s1) by (unfold allp; rewrite B1; constructor).
      destruct r1 as [st|]; [|left; exists s1; auto].
      specialize (R1 st eq_refl). subst st. fold (prev_of c0). fold (locals_of sc). fold (cand_of sc c0).
      pose proof (same6_fetch_all sc (cand_of sc c0) s1) as L2. pose proof (fetch_all_exact sc (cand_of sc c0) s1) as FE.
      pose proof (known_fetch_all sc (cand_of sc c0) s1) as KN2.
      destruct (fetch_all sc s1 (cand_of sc c0)) as [s2 r2]. cbn [fst snd] in *.
      destruct L2 as [C2 [B2 [K2 [A2 [T2 X2]]]]].
      assert (AP2 : allp s2) by (unfold allp; rewrite B2; exact AP1).
      destruct r2 as [pobjs|]; [|left; exists s2; split; [reflexivity|split; [congruence|exact AP2]]].
      assert (HK1 : r_known s1 = live_crds sc (r_cl s1)) by (rewrite KN1, C1; reflexivity).
      specialize (FE pobjs HK1 eq_refl). rewrite C1 in FE. subst pobjs. rewrite KN2, KN1, <- plan_of_eq.
      pose proof (register_fields sc pl s2) as [C3 [K3 [A3 [T3 X3]]]].
      pose proof (allp_register sc pl s2 AP2) as AP3.
      pose proof (same6_inv_list sc (register sc pl s2)) as L4. pose proof (inv_list_res sc (register sc pl s2)) as R4.
      destruct (inv_list sc (register sc pl s2)) as [s4 r4]. cbn [fst snd] in *.
      destruct L4 as [C4 [B4 [K4 [A4 [T4 X4]]]]].
      assert (AP4 : allp s4) by (unfold allp; rewrite B4; exact AP3).
      assert (SO : start_ok sc c0 s4).
      { constructor; try congruence. exists s2. split; [congruence|congruence]. }
      assert (TASKS : shape2 (match e_cancel (sc_env sc) with
                         | CBeforeSync => ev (pre_tasks sc c0 s4) EError
                         | _ => run_tasks sc pl (locals_of sc)
                                  (option_map (fun st0 : option (list id) => match st0 with Some l => l | None => [] end) r4)
                                  (pre_tasks sc c0 s4) (tasks_of sc pl)
                         end)).
      { right. exists s4. split; [exact SO|].
        destruct (e_cancel (sc_env sc)); [right; eexists; reflexivity|left; reflexivity|right; eexists; reflexivity]. }
      unfold pre_tasks, init_ev in TASKS.
      destruct (o_valpol (sc_opts sc)) eqn:EV; destruct (pl_valerrs pl) eqn:EE; try exact TASKS.
      left. exists s4. split; [reflexivity|]. split; [congruence|exact AP4].
    Qed.

    Lemma run_state_inv : good strict (r_tr (run_state sc c0)) /\ RL (run_state sc c0).
    Proof.
      destruct run_state_cases as [[s [-> [T A]]]|[s4 [SO [->|[prev ->]]]]].
      - split; [cbn [ev emit r_tr]; rewrite T; cbn; auto|].
        apply (RLs_emit s (IEv EError)); [intros j; reflexivity|]. apply allp_RL; assumption.
      - assert (G : GI [] (ev (pre_tasks sc c0 s4) EError)).
        { apply GI_ev; [apply plain_ev_error|]. apply GI_pre_tasks. apply GI_start. exact SO. }
        split; [exact (G_good _ _ _ _ _ _ G)|exact (G_rl _ _ _ _ _ _ G)].
      - destruct wsch_tasks_of as [WS _].
        destruct (g_run_tasks sc strict mode pl c6_disj (plan_of_local sc c0) Hdel (locals_of sc) prev (tasks_of sc pl)
                    (pre_tasks sc c0 s4) WS) as [fut G].
        { apply GI_pre_tasks. apply GI_start. exact SO. }
        split; [exact (G_good _ _ _ _ _ _ G)|exact (G_rl _ _ _ _ _ _ G)].
    Qed.
  End Flags.
End Top.

(* ---- the theorems ------------------------------------------------------------------------------------- *)
Theorem monitor_C06p sc c0 : locals_nodup sc -> mon_C06p sc c0 (run sc c0) = true.
Proof.
  intros HND. rewrite mon_C06p_walk, out_trace_run. apply good_monitor.
  apply (run_state_inv sc c0 HND false true). intros k d _ S. discriminate S.
Qed.

(* C06's clause "the final reconcile state recorded for each object equals the last wait
   event emitted for it", on whole runs *)
Theorem C06p_final_state_is_last_wait_event sc c0 : locals_nodup sc ->
  forall j r, lookup Nat.eqb (r_tbl (run_state sc c0)) j = Some r ->
    r_rec r = rof (last_wait (out_trace (run sc c0)) j).
Proof.
  intros HND j r L. rewrite out_trace_run, last_wait_rev.
  assert (R : RL (run_state sc c0)).
  { apply (run_state_inv sc c0 HND false true). intros k d _ S. discriminate S. }
  apply R. exact L.
Qed.

(* a manifest id given twice, outside dry-run: the wait group reports it (four times) Pending *)
Definition c06p_dup_sc : scenario :=
  mkSc [mkU KPlain None None] None [mkL 0 [] false false false 1; mkL 0 [] false false false 1]
       (mkO false true PMustMatch DNone VSkipInvalid false false false false PropBackground false)
       (mkE [] [] CNever None).
Definition c06p_dup_c0 : cluster := mkCl [] None 1%N.

Theorem monitor_C06p_needs_nodup :
  exists sc c0, ~ locals_nodup sc /\ mon_C06p sc c0 (run sc c0) = false.
Proof.
  exists c06p_dup_sc, c06p_dup_c0. split; [|vm_compute; reflexivity].
  intros H. specialize (H eq_refl). cbn in H. inversion H as [|? ? X _]; subst. apply X. left. reflexivity.
Qed.

(* ---- remark: the strict walk ------------------------------------------------------------------------------ *)
Theorem strict_walk_calm sc c0 : locals_nodup sc -> calm_deliv sc -> mon_C06p_strict sc c0 (run sc c0) = true.
Proof.
  intros HND CD. unfold mon_C06p_strict. rewrite out_trace_run. apply good_monitor.
  destruct CD as [CD|CD].
  - apply (run_state_inv sc c0 HND true true). intros k d Hd _.
    exact (deliv_nth (fun d => s_st d <> SFailed) _ CD k d Hd).
  - apply (run_state_inv sc c0 HND true false). intros k d Hd _.
    exact (deliv_nth (fun d => s_body d = false \/ s_uid d = 0%N) _ CD k d Hd).
Qed.

(* two objects applied; object 0 is reported Failed, then observed Failed again with
   another UID while object 1 is still pending: Failed is sent twice *)
Definition c06p_sc : scenario :=
  mkSc [mkU KPlain None None; mkU KPlain None None] None
       [mkL 0 [] false false false 1; mkL 1 [] false false false 1]
       (mkO false true PMustMatch DNone VSkipInvalid false true true false PropBackground false)
       (mkE [] [mkW [mkS 0 SFailed true 1 2; mkS 0 SFailed true 9 2] WTimeout] CNever None).
Definition c06p_c0 : cluster := mkCl [] None 1%N.

Theorem strict_walk_needs_calm :
  exists sc c0, WF sc c0 /\ mon_C06p_strict sc c0 (run sc c0) = false /\ mon_C06p sc c0 (run sc c0) = true.
Proof.
  exists c06p_sc, c06p_c0. split; [apply wf_b_spec; vm_compute; reflexivity|split; vm_compute; reflexivity].
Qed.
