(* Generic framework for invariants of the pipeline model: every operation
   extends the trace by items satisfying a predicate Q and changes the cluster
   according to a preorder C.  Instantiated per property. *)
From Coq Require Import List Bool Arith NArith ZArith Lia.
From CliUtils Require Import Model.ObjSet Model.ActuationTable Model.PipelineTypes Model.Pipeline.
Import ListNotations.

Section Step.
  Variable sc : scenario.
  Variable Q : item -> Prop.
  Variable C : cluster -> cluster -> Prop.
  Hypothesis C_refl : forall c, C c c.
  Hypothesis C_trans : forall a b c, C a b -> C b c -> C a c.
  Hypothesis Q_ev : forall e, Q (IEv e).
  Hypothesis Q_deliv : forall d, Q (IDeliv d).

  Definition step (s s' : rst) : Prop :=
    C (r_cl s) (r_cl s') /\ exists l, r_tr s' = l ++ r_tr s /\ Forall Q l.

  Lemma step_refl s : step s s.
  Proof. split; [apply C_refl|]. exists []. split; [reflexivity|constructor]. Qed.

  Lemma step_trans a b c : step a b -> step b c -> step a c.
  Proof.
    intros [C1 [l1 [E1 F1]]] [C2 [l2 [E2 F2]]]. split; [eapply C_trans; eassumption|].
    exists (l2 ++ l1). split; [rewrite E2, E1, app_assoc; reflexivity|].
    apply Forall_app. split; assumption.
  Qed.

  (* operations that leave cluster and trace alone *)
  Lemma step_same s s' : r_cl s' = r_cl s -> r_tr s' = r_tr s -> step s s'.
  Proof.
    intros Hc Ht. split; [rewrite Hc; apply C_refl|]. exists []. split; [exact Ht|constructor].
  Qed.

  Lemma step_emit s it : Q it -> step s (emit s it).
  Proof.
    intros H. split; [apply C_refl|]. exists [it]. split; [reflexivity|]. constructor; [exact H|constructor].
  Qed.

  Lemma step_ev s e : step s (ev s e).
  Proof. apply step_emit, Q_ev. Qed.

  Lemma step_set_tbl s t : step s (set_tbl s t).
  Proof. apply step_same; reflexivity. Qed.
  Lemma step_rec_add s i st a u g : step s (rec_add s i st a u g).
  Proof. apply step_same; reflexivity. Qed.
  Lemma step_rec_reconcile s i r : step s (rec_reconcile s i r).
  Proof.
    unfold rec_reconcile. destruct (set_reconcile Nat.eqb (r_tbl s) i r); [apply step_same; reflexivity|apply step_refl].
  Qed.
  Lemma step_set_cache s c : step s (set_cache s c).
  Proof. apply step_same; reflexivity. Qed.
  Lemma step_add_aband s i : step s (add_aband s i).
  Proof. apply step_same; reflexivity. Qed.
  Lemma step_set_abort s : step s (set_abort s).
  Proof. apply step_same; reflexivity. Qed.
  Lemma step_set_known s k : step s (set_known s k).
  Proof. apply step_same; reflexivity. Qed.
  Lemma step_wait_reset c ids s : step s (wait_reset sc c ids s).
  Proof. unfold wait_reset. destruct (existsb _ ids); [apply step_set_known|apply step_refl]. Qed.
  Lemma step_maybe_cancel s i : step s (maybe_cancel sc s i).
  Proof.
    unfold maybe_cancel. destruct (e_cancel (sc_env sc)); try apply step_refl.
    destruct (Nat.eqb i i0); [apply step_set_abort|apply step_refl].
  Qed.

  Lemma step_inv_list s : step s (fst (inv_list sc s)).
  Proof.
    unfold inv_list. destruct (faulted sc (FInvList (r_nlist s))); cbn; apply step_same; reflexivity.
  Qed.
  Lemma step_get_obj s i : step s (fst (get_obj sc s i)).
  Proof.
    unfold get_obj. destruct (faulted sc _); cbn; [apply step_same; reflexivity|].
    destruct (find_obj (objs (r_cl s)) i); cbn; apply step_same; reflexivity.
  Qed.

  (* a request that is logged after the cluster has been set to cl' *)
  Lemma step_log_req s cl' r ok :
    C (r_cl s) cl' -> Q (IReq r ok (managed cl') (stored cl')) ->
    step s (log_req (set_cl s cl') r ok).
  Proof.
    intros Hc Hq. split; [exact Hc|]. exists [IReq r ok (managed cl') (stored cl')].
    split; [reflexivity|]. constructor; [exact Hq|constructor].
  Qed.
  Lemma step_log_req_same s r ok :
    Q (IReq r ok (managed (r_cl s)) (stored (r_cl s))) -> step s (log_req s r ok).
  Proof.
    intros Hq. split; [apply C_refl|]. exists [IReq r ok (managed (r_cl s)) (stored (r_cl s))].
    split; [reflexivity|]. constructor; [exact Hq|constructor].
  Qed.

  (* folds *)
  Lemma step_fold {A} (f : rst -> A -> rst) (l : list A) :
    (forall s a, In a l -> step s (f s a)) -> forall s, step s (fold_left f l s).
  Proof.
    induction l as [|a l IH]; intros H s; cbn; [apply step_refl|].
    eapply step_trans; [apply H; left; reflexivity|]. apply IH. intros; apply H; right; assumption.
  Qed.

  (* ---- the wait machine never touches the cluster nor sends requests ---- *)
  Lemma step_handle_changed_uid c g s i : step s (handle_changed_uid c g s i).
  Proof.
    unfold handle_changed_uid. destruct c; (eapply step_trans; [apply step_rec_reconcile|apply step_ev]).
  Qed.

  Lemma step_wait_start c g ids s : step s (fst (wait_start c g ids s)).
  Proof.
    unfold wait_start.
    set (stepf := fun (acc : rst * list id) (i : id) => _).
    assert (H : forall l acc, step (fst acc) (fst (fold_left stepf l acc))).
    { induction l as [|i l IH]; intros acc; cbn [fold_left]; [apply step_refl|].
      eapply step_trans; [|apply IH].
      destruct acc as [s0 pend]. unfold stepf. cbn [fst].
      destruct (w_skipped c s0 i); cbn [fst]; [eapply step_trans; [apply step_rec_reconcile|apply step_ev]|].
      destruct (changed_uid s0 i); cbn [fst]; [apply step_handle_changed_uid|].
      destruct (cond_met c s0 i); cbn [fst]; (eapply step_trans; [apply step_rec_reconcile|apply step_ev]). }
    specialize (H ids (s, [])). destruct (fold_left stepf ids (s, [])) as [s' pend]. exact H.
  Qed.

  Lemma step_wait_update c g ids s w i : step s (fst (wait_update c g ids s w i)).
  Proof.
    unfold wait_update.
    repeat match goal with
           | |- context [if ?b then _ else _] => destruct b
           | |- context [match ?c with AllCurrent => _ | AllNotFound => _ end] => destruct c
           end; cbn [fst];
      try apply step_refl; try apply step_handle_changed_uid;
      try (eapply step_trans; [apply step_rec_reconcile|apply step_ev]).
  Qed.

  Lemma step_wait_timeout g s w : step s (wait_timeout g s w).
  Proof.
    unfold wait_timeout. apply step_fold. intros s0 i _.
    eapply step_trans; [apply step_rec_reconcile|apply step_ev].
  Qed.

  Lemma step_deliver c g ids ds : forall s w, step s (fst (deliver sc c g ids ds s w)).
  Proof.
    induction ds as [|d t IH]; intros s w; cbn [deliver]; [apply step_refl|].
    destruct (w_pending w); [apply step_refl|].
    match goal with |- step _ (fst (let '(s4, w4) := ?X in _)) => destruct X as [s4 w4] eqn:E end.
    eapply step_trans; [|apply IH].
    assert (S3 : step s (set_cache (if o_status_events (sc_opts sc) then ev (emit s (IDeliv d)) (EStatus (s_id d) (s_st d)) else emit s (IDeliv d))
                                   (d :: r_cache (if o_status_events (sc_opts sc) then ev (emit s (IDeliv d)) (EStatus (s_id d) (s_st d)) else emit s (IDeliv d))))).
    { eapply step_trans; [|apply step_set_cache].
      destruct (o_status_events (sc_opts sc)).
      - eapply step_trans; [apply step_emit, Q_deliv|apply step_ev].
      - apply step_emit, Q_deliv. }
    destruct (memn (s_id d) ids).
    - eapply step_trans; [exact S3|].
      change s4 with (fst (s4, w4)). rewrite <- E. apply step_wait_update.
    - injection E as <- <-. exact S3.
  Qed.

  Lemma step_wait_task c g ids s : step s (wait_task sc c g ids s).
  Proof.
    unfold wait_task.
    pose proof (step_wait_start c g ids s) as S1.
    destruct (wait_start c g ids s) as [s1 w1]. cbn [fst] in S1.
    destruct (w_pending w1); [eapply step_trans; [exact S1|apply step_wait_reset]|].
    destruct (match e_watch_err_at (sc_env sc) with Some n => Nat.eqb n (snd g) | None => false end);
      [eapply step_trans; [exact S1|apply step_set_abort]|].
    pose proof (step_deliver c g ids (w_deliv (nth (snd g) (e_waits (sc_env sc)) (mkW [] WTimeout))) s1 w1) as S2.
    destruct (deliver sc c g ids _ s1 w1) as [s2 w2]. cbn [fst] in S2.
    eapply step_trans; [exact S1|]. eapply step_trans; [exact S2|].
    destruct (w_pending w2); [apply step_wait_reset|].
    destruct (w_end _).
    - destruct (match c with AllCurrent => _ | AllNotFound => _ end); [|apply step_set_abort].
      eapply step_trans; [apply step_wait_timeout|apply step_wait_reset].
    - apply step_set_abort.
  Qed.

  (* ---- reads used by the plan ------------------------------------------- *)
  Lemma step_fetch_all ids : forall s, step s (fst (fetch_all sc s ids)).
  Proof.
    induction ids as [|i t IH]; intros s; cbn [fetch_all]; [apply step_refl|].
    destruct (negb (kind_known sc (r_known s) i)); [apply IH|].
    pose proof (step_get_obj s i) as G. destruct (get_obj sc s i) as [s1 g]. cbn [fst] in G.
    destruct g; cbn [fst].
    - exact G.
    - eapply step_trans; [exact G|apply IH].
    - specialize (IH s1). destruct (fetch_all sc s1 t) as [s2 r]. cbn [fst] in *.
      eapply step_trans; eassumption.
  Qed.

  Lemma step_register pl s : step s (register sc pl s).
  Proof.
    unfold register.
    assert (F : forall (l : list pobj) st a s0,
               step s0 (fold_left (fun s p => rec_add s (p_id p) st a 0%N 0%Z) l s0)).
    { intros l st a s0. apply step_fold. intros; apply step_rec_add. }
    destruct (negb (o_destroy (sc_opts sc)) && negb (o_prune (sc_opts sc)));
      destruct (o_prune (sc_opts sc)).
    - eapply step_trans; [apply F|]. eapply step_trans; [apply F|]. apply F.
    - eapply step_trans; [apply F|]. apply F.
    - eapply step_trans; [apply F|]. apply F.
    - apply F.
  Qed.

  Lemma step_policy_apply_filter s i : step s (fst (policy_apply_filter sc s i)).
  Proof.
    unfold policy_apply_filter. destruct (o_policy (sc_opts sc)); cbn [fst]; try apply step_refl.
    all: pose proof (step_get_obj s i) as G; destruct (get_obj sc s i) as [s1 g]; cbn [fst] in G;
      destruct g; cbn [fst]; exact G.
  Qed.

  (* the source lookup of the apply-time mutator: reads and cache writes only *)
  Lemma step_mut_source s j : step s (fst (mut_source sc s j)).
  Proof.
    unfold mut_source. destruct (negb (kind_known sc (r_known s) j)); cbn [fst]; [apply step_refl|].
    destruct (s_body _ && _); cbn [fst]; [apply step_refl|].
    pose proof (step_get_obj s j) as G. destruct (get_obj sc s j) as [s1 g]. cbn [fst] in G.
    destruct g; cbn [fst]; [exact G| |]; (eapply step_trans; [exact G|apply step_set_cache]).
  Qed.
  Lemma step_mut_sources js : forall s, step s (fst (mut_sources sc s js)).
  Proof.
    induction js as [|j t IH]; intros s; cbn [mut_sources fst]; [apply step_refl|].
    pose proof (step_mut_source s j) as M. destruct (mut_source sc s j) as [s1 ok]. cbn [fst] in M.
    destruct ok; cbn [fst]; [eapply step_trans; [exact M|apply IH]|exact M].
  Qed.
  Lemma step_mutate s l : step s (fst (mutate sc s l)).
  Proof. unfold mutate. destruct (l_mut l); [apply step_mut_sources|apply step_refl]. Qed.
End Step.

(* ---- kubectl apply as ApplyTask runs it: one server-side PATCH, one client-side apply, or -
   for an APIService under server-side apply whose PATCH died with a stream error - the failed
   PATCH followed by the fallback (client-side apply; a second dry-run PATCH under server dry-run).
   Every preorder on run states that the two building blocks respect is respected by the whole. *)
Section KubectlApply.
  Variable sc : scenario.
  Variable l : lobj.

  Definition ssa_dflag : bool := match o_dry (sc_opts sc) with DServer => true | _ => false end.

  (* the three shapes of kubectl_apply *)
  Lemma kubectl_apply_cases s :
    (ssa_mode sc = false /\ kubectl_apply sc s l = csa_apply sc s l)
    \/ (ssa_mode sc = true /\
        kubectl_apply sc s l = (fst (ssa_patch sc s l 0), ssa_result (snd (ssa_patch sc s l 0))) /\
        (snd (ssa_patch sc s l 0) = SsaStream -> (o_ssa (sc_opts sc) && is_apisvc sc (l_id l)) = false))
    \/ (ssa_mode sc = true /\ snd (ssa_patch sc s l 0) = SsaStream /\
        o_ssa (sc_opts sc) = true /\ is_apisvc sc (l_id l) = true /\
        kubectl_apply sc s l = apisvc_fallback sc (fst (ssa_patch sc s l 0)) l).
  Proof.
    unfold kubectl_apply. destruct (ssa_mode sc); [|left; split; reflexivity].
    right. destruct (ssa_patch sc s l 0) as [s1 r]. cbn [fst snd].
    destruct r as [u| |].
    - left. split; [reflexivity|]. split; [reflexivity|discriminate].
    - left. split; [reflexivity|]. split; [reflexivity|discriminate].
    - destruct (o_ssa (sc_opts sc)) eqn:E1; cbn [andb].
      + destruct (is_apisvc sc (l_id l)) eqn:E2.
        * right. repeat split; reflexivity.
        * left. split; [reflexivity|]. split; [reflexivity|reflexivity].
      + left. split; [reflexivity|]. split; [reflexivity|reflexivity].
  Qed.

  (* a PATCH that is not accepted: logged as rejected on the unchanged cluster *)
  Lemma ssa_patch_rejected s n : ssa_result (snd (ssa_patch sc s l n)) = None ->
    fst (ssa_patch sc s l n) = log_req (maybe_cancel sc s (l_id l)) (RPatch (l_id l) true ssa_dflag) false.
  Proof.
    unfold ssa_patch, ssa_dflag. cbv zeta.
    destruct (faulted sc (FStream (l_id l) n)); [reflexivity|].
    destruct (faulted sc (FApply (l_id l))); [reflexivity|].
    destruct (find_obj _ _); destruct (match o_dry (sc_opts sc) with DServer => true | _ => false end); cbn; discriminate.
  Qed.

  Lemma ssa_patch_stream s n : snd (ssa_patch sc s l n) = SsaStream ->
    fst (ssa_patch sc s l n) = log_req (maybe_cancel sc s (l_id l)) (RPatch (l_id l) true ssa_dflag) false.
  Proof.
    intros E. apply ssa_patch_rejected. rewrite E. reflexivity.
  Qed.

  (* under server dry-run the fallback is a second apply PATCH; otherwise a client-side apply *)
  Lemma apisvc_fallback_cases s :
    (o_dry (sc_opts sc) = DServer /\
     apisvc_fallback sc s l = (fst (ssa_patch sc s l 1), ssa_result (snd (ssa_patch sc s l 1))))
    \/ (o_dry (sc_opts sc) <> DServer /\ apisvc_fallback sc s l = csa_apply sc s l).
  Proof.
    unfold apisvc_fallback. destruct (o_dry (sc_opts sc)).
    - right. split; [discriminate|reflexivity].
    - right. split; [discriminate|reflexivity].
    - left. split; [reflexivity|]. destruct (ssa_patch sc s l 1); reflexivity.
  Qed.

  Variable R : rst -> rst -> Prop.
  Hypothesis R_trans : forall a b c, R a b -> R b c -> R a c.
  Hypothesis R_ssa : forall s n, R s (fst (ssa_patch sc s l n)).
  Hypothesis R_csa : forall s, R s (fst (csa_apply sc s l)).

  Lemma apisvc_fallback_step s : R s (fst (apisvc_fallback sc s l)).
  Proof.
    destruct (apisvc_fallback_cases s) as [[_ ->]|[_ ->]]; [apply R_ssa|apply R_csa].
  Qed.

  Lemma kubectl_apply_step s : R s (fst (kubectl_apply sc s l)).
  Proof.
    destruct (kubectl_apply_cases s) as [[_ ->]|[[_ [-> _]]|[_ [_ [_ [_ ->]]]]]].
    - apply R_csa.
    - apply R_ssa.
    - eapply R_trans; [apply (R_ssa s 0)|apply apisvc_fallback_step].
  Qed.
End KubectlApply.

(* a component of the run state that neither building block writes is not written by kubectl_apply *)
Lemma kubectl_apply_keeps {A} sc l (f : rst -> A) :
  (forall s n, f (fst (ssa_patch sc s l n)) = f s) -> (forall s, f (fst (csa_apply sc s l)) = f s) ->
  forall s, f (fst (kubectl_apply sc s l)) = f s.
Proof.
  intros H1 H2 s.
  apply (kubectl_apply_step sc l (fun a b => f b = f a)); [intros a b c E1 E2; congruence|exact H1|exact H2].
Qed.

(* ---- ApplyTask.mutate: the source lookups of the apply-time mutator.  Reads (get_obj) and writes of
   the resource cache only: every preorder on run states that those two respect is respected by it, and
   every component that neither writes is kept. *)
Section Mutate.
  Variable sc : scenario.
  Variable R : rst -> rst -> Prop.
  Hypothesis R_refl : forall s, R s s.
  Hypothesis R_trans : forall a b c, R a b -> R b c -> R a c.
  Hypothesis R_get : forall s i, R s (fst (get_obj sc s i)).
  Hypothesis R_cache : forall s c, R s (set_cache s c).

  Lemma mut_source_step s j : R s (fst (mut_source sc s j)).
  Proof.
    unfold mut_source. destruct (negb (kind_known sc (r_known s) j)); cbn [fst]; [apply R_refl|].
    destruct (s_body _ && _); cbn [fst]; [apply R_refl|].
    pose proof (R_get s j) as G. destruct (get_obj sc s j) as [s1 g]. cbn [fst] in G.
    destruct g; cbn [fst]; [exact G| |]; (eapply R_trans; [exact G|apply R_cache]).
  Qed.
  Lemma mut_sources_step js : forall s, R s (fst (mut_sources sc s js)).
  Proof.
    induction js as [|j t IH]; intros s; cbn [mut_sources fst]; [apply R_refl|].
    pose proof (mut_source_step s j) as M. destruct (mut_source sc s j) as [s1 ok]. cbn [fst] in M.
    destruct ok; cbn [fst]; [eapply R_trans; [exact M|apply IH]|exact M].
  Qed.
  Lemma mutate_step s l : R s (fst (mutate sc s l)).
  Proof. unfold mutate. destruct (l_mut l); [apply mut_sources_step|apply R_refl]. Qed.
End Mutate.

Lemma get_obj_fields sc s i :
  let s' := fst (get_obj sc s i) in
  r_cl s' = r_cl s /\ r_tbl s' = r_tbl s /\ r_cache s' = r_cache s /\ r_aband s' = r_aband s /\
  r_tr s' = r_tr s /\ r_abort s' = r_abort s /\ r_known s' = r_known s /\
  r_nlist s' = r_nlist s /\ r_nget s' = r_nget s /\ r_nwrite s' = r_nwrite s.
Proof.
  cbv zeta. unfold get_obj. destruct (faulted sc _); [cbn; repeat split|].
  destruct (find_obj _ _); cbn; repeat split.
Qed.

Lemma mutate_keeps {A} sc (f : rst -> A) :
  (forall s i, f (fst (get_obj sc s i)) = f s) -> (forall s c, f (set_cache s c) = f s) ->
  forall s l, f (fst (mutate sc s l)) = f s.
Proof.
  intros H1 H2 s l.
  apply (mutate_step sc (fun a b => f b = f a)); [reflexivity|intros a b c E1 E2; congruence|exact H1|exact H2].
Qed.

Section MutateFields.
  Variable sc : scenario.
  Lemma mutate_cl s l : r_cl (fst (mutate sc s l)) = r_cl s.
  Proof. apply (mutate_keeps sc r_cl); [intros; apply get_obj_fields|reflexivity]. Qed.
  Lemma mutate_tbl s l : r_tbl (fst (mutate sc s l)) = r_tbl s.
  Proof. apply (mutate_keeps sc r_tbl); [intros; apply get_obj_fields|reflexivity]. Qed.
  Lemma mutate_aband s l : r_aband (fst (mutate sc s l)) = r_aband s.
  Proof. apply (mutate_keeps sc r_aband); [intros; apply get_obj_fields|reflexivity]. Qed.
  Lemma mutate_tr s l : r_tr (fst (mutate sc s l)) = r_tr s.
  Proof. apply (mutate_keeps sc r_tr); [intros; apply get_obj_fields|reflexivity]. Qed.
  Lemma mutate_abort s l : r_abort (fst (mutate sc s l)) = r_abort s.
  Proof. apply (mutate_keeps sc r_abort); [intros; apply get_obj_fields|reflexivity]. Qed.
  Lemma mutate_known s l : r_known (fst (mutate sc s l)) = r_known s.
  Proof. apply (mutate_keeps sc r_known); [intros; apply get_obj_fields|reflexivity]. Qed.
  Lemma mutate_nlist s l : r_nlist (fst (mutate sc s l)) = r_nlist s.
  Proof. apply (mutate_keeps sc r_nlist); [intros; apply get_obj_fields|reflexivity]. Qed.
  Lemma mutate_nget s l : r_nget (fst (mutate sc s l)) = r_nget s.
  Proof. apply (mutate_keeps sc r_nget); [intros; apply get_obj_fields|reflexivity]. Qed.
  Lemma mutate_nwrite s l : r_nwrite (fst (mutate sc s l)) = r_nwrite s.
  Proof. apply (mutate_keeps sc r_nwrite); [intros; apply get_obj_fields|reflexivity]. Qed.

  (* what the lookups leave in the resource cache: new entries on top of the old ones, each about a source
     of the manifest, saying either "not found" (no body; the object is not in the cluster) or carrying the
     body of the live object (its UID, generation 2, a status that is neither Failed nor NotFound) *)
  Definition mut_entry (cl : cluster) (o : sobs) : Prop :=
    (s_st o = SNotFound /\ s_body o = false /\ find_obj (objs cl) (s_id o) = None) \/
    (s_body o = true /\ s_gen o = harness_gen /\ (s_st o = SCurrent \/ s_st o = SInProgress) /\
     exists c, find_obj (objs cl) (s_id o) = Some c /\ s_uid o = c_uid c).

  Lemma mut_source_cache s j :
    exists ex, r_cache (fst (mut_source sc s j)) = ex ++ r_cache s /\
               forall o, In o ex -> s_id o = j /\ mut_entry (r_cl s) o.
  Proof.
    unfold mut_source. destruct (negb (kind_known sc (r_known s) j)); cbn [fst]; [exists []; split; [reflexivity|intros o []]|].
    destruct (s_body _ && _); cbn [fst]; [exists []; split; [reflexivity|intros o []]|].
    unfold get_obj. destruct (faulted sc _); cbn [fst]; [exists []; split; [reflexivity|intros o []]|].
    destruct (find_obj (objs (r_cl s)) j) as [c|] eqn:F; cbn [fst set_cache r_cache].
    - eexists [_]. split; [reflexivity|]. intros o [<-|[]]. cbn [s_id]. split; [reflexivity|]. right. cbn.
      split; [reflexivity|]. split; [reflexivity|]. split; [destruct (u_gcur _); auto|]. exists c. split; [exact F|reflexivity].
    - eexists [_]. split; [reflexivity|]. intros o [<-|[]]. cbn [s_id]. split; [reflexivity|]. left. cbn. auto.
  Qed.

  Lemma mut_source_cl s j : r_cl (fst (mut_source sc s j)) = r_cl s.
  Proof.
    apply (mut_source_step sc (fun a b => r_cl b = r_cl a)); [reflexivity|intros a b c E1 E2; congruence|intros; apply get_obj_fields|reflexivity].
  Qed.

  Lemma mut_sources_cache js : forall s,
    exists ex, r_cache (fst (mut_sources sc s js)) = ex ++ r_cache s /\
               forall o, In o ex -> In (s_id o) js /\ mut_entry (r_cl s) o.
  Proof.
    induction js as [|j t IH]; intros s; cbn [mut_sources fst]; [exists []; split; [reflexivity|intros o []]|].
    destruct (mut_source_cache s j) as [e1 [E1 H1]]. pose proof (mut_source_cl s j) as C1.
    destruct (mut_source sc s j) as [s1 ok]. cbn [fst] in E1, C1.
    destruct ok; cbn [fst].
    - destruct (IH s1) as [e2 [E2 H2]]. exists (e2 ++ e1). split; [rewrite E2, E1, app_assoc; reflexivity|].
      intros o Ho. apply in_app_or in Ho. destruct Ho as [Ho|Ho].
      + destruct (H2 o Ho) as [A B]. rewrite C1 in B. split; [right; exact A|exact B].
      + destruct (H1 o Ho) as [A B]. split; [left; symmetry; exact A|exact B].
    - exists e1. split; [exact E1|]. intros o Ho. destruct (H1 o Ho) as [A B]. split; [left; symmetry; exact A|exact B].
  Qed.

  Lemma mutate_cache s l :
    exists ex, r_cache (fst (mutate sc s l)) = ex ++ r_cache s /\
               forall o, In o ex -> l_mut l = true /\ In (s_id o) (l_deps l) /\ mut_entry (r_cl s) o.
  Proof.
    unfold mutate. destruct (l_mut l); [|exists []; split; [reflexivity|intros o []]].
    destruct (mut_sources_cache (l_deps l) s) as [ex [E H]]. exists ex. split; [exact E|].
    intros o Ho. destruct (H o Ho). auto.
  Qed.

  (* an object without the mutation spelling, or without references, is not looked at *)
  Lemma mutate_plain s l : l_mut l = false \/ l_deps l = [] -> mutate sc s l = (s, true).
  Proof. unfold mutate. intros [-> | E]; [reflexivity|]. rewrite E. destruct (l_mut l); reflexivity. Qed.
End MutateFields.

(* what a passing dependency filter says about every related object *)
Lemma dep_filter_pass_rec sc pl tbl strat rel : dep_filter sc pl tbl strat rel = FPass ->
  forall b, In b rel ->
    ~ In b (pl_invalid pl) /\
    exists r, lookup Nat.eqb tbl b = Some r /\ r_str r = strat /\ r_act r = ASucceeded /\
              (is_dry (o_dry (sc_opts sc)) = true \/ r_rec r = RSucceeded).
Proof.
  induction rel as [|a rel IH]; cbn [dep_filter]; intros H b Hb; [destruct Hb|].
  destruct (dep_check sc pl tbl strat a) eqn:DC; try discriminate.
  destruct Hb as [<-|Hb]; [|exact (IH H b Hb)].
  unfold dep_check in DC.
  destruct (memn a (pl_invalid pl)) eqn:MI; [discriminate|].
  destruct (lookup Nat.eqb tbl a) as [r|]; [|discriminate].
  destruct (strategy_eqb (r_str r) strat) eqn:SE; cbn [negb] in DC; [|discriminate].
  split.
  - intros X. assert (Y : memn a (pl_invalid pl) = true); [|congruence].
    unfold memn. apply existsb_exists. exists a. split; [exact X|apply Nat.eqb_refl].
  - exists r. split; [reflexivity|]. split; [destruct (r_str r), strat; cbn in SE; congruence|].
    destruct (r_act r); try discriminate. split; [reflexivity|].
    destruct (is_dry (o_dry (sc_opts sc))); [left; reflexivity|right].
    destruct (r_rec r); try discriminate. reflexivity.
Qed.

(* the mapper reset at the end of a wait task touches nothing but r_known *)
Section WaitReset.
  Variable sc : scenario.
  Lemma wait_reset_cases c ids s :
    wait_reset sc c ids s = s \/ wait_reset sc c ids s = set_known s (live_crds sc (r_cl s)).
  Proof. unfold wait_reset. destruct (existsb _ ids); auto. Qed.
  Lemma wait_reset_cl c ids s : r_cl (wait_reset sc c ids s) = r_cl s.
  Proof. destruct (wait_reset_cases c ids s) as [-> | ->]; reflexivity. Qed.
  Lemma wait_reset_tbl c ids s : r_tbl (wait_reset sc c ids s) = r_tbl s.
  Proof. destruct (wait_reset_cases c ids s) as [-> | ->]; reflexivity. Qed.
  Lemma wait_reset_cache c ids s : r_cache (wait_reset sc c ids s) = r_cache s.
  Proof. destruct (wait_reset_cases c ids s) as [-> | ->]; reflexivity. Qed.
  Lemma wait_reset_aband c ids s : r_aband (wait_reset sc c ids s) = r_aband s.
  Proof. destruct (wait_reset_cases c ids s) as [-> | ->]; reflexivity. Qed.
  Lemma wait_reset_tr c ids s : r_tr (wait_reset sc c ids s) = r_tr s.
  Proof. destruct (wait_reset_cases c ids s) as [-> | ->]; reflexivity. Qed.
  Lemma wait_reset_abort c ids s : r_abort (wait_reset sc c ids s) = r_abort s.
  Proof. destruct (wait_reset_cases c ids s) as [-> | ->]; reflexivity. Qed.
  Lemma wait_reset_gets c ids s : r_gets (wait_reset sc c ids s) = r_gets s.
  Proof. destruct (wait_reset_cases c ids s) as [-> | ->]; reflexivity. Qed.
  Lemma wait_reset_nlist c ids s : r_nlist (wait_reset sc c ids s) = r_nlist s.
  Proof. destruct (wait_reset_cases c ids s) as [-> | ->]; reflexivity. Qed.
  Lemma wait_reset_nget c ids s : r_nget (wait_reset sc c ids s) = r_nget s.
  Proof. destruct (wait_reset_cases c ids s) as [-> | ->]; reflexivity. Qed.
  Lemma wait_reset_nwrite c ids s : r_nwrite (wait_reset sc c ids s) = r_nwrite s.
  Proof. destruct (wait_reset_cases c ids s) as [-> | ->]; reflexivity. Qed.
End WaitReset.

Section RunState.
  Variable sc : scenario.
  (* the whole run, as a statement about the final run state before `finish` *)
  Definition run_state (c0 : cluster) : rst :=
    let o := sc_opts sc in
    let locals := if o_destroy o then [] else sc_local sc in
    let s0 := init_state sc c0 in
    let '(s1, r1) := inv_list sc s0 in
    match r1 with
    | None => ev s1 EError
    | Some st =>
        let prev0 := match st with Some l => l | None => [] end in
        let cand := sortn (diffn prev0 (map l_id locals)) in
        let '(s2, r2) := fetch_all sc s1 cand in
        match r2 with
        | None => ev s2 EError
        | Some pobjs =>
            let pl := build_plan sc (r_known s2) locals pobjs in
            let s3 := register sc pl s2 in
            let '(s4, r4) := inv_list sc s3 in
            let prev := option_map (fun st => match st with Some l => l | None => [] end) r4 in
            match o_valpol o, pl_valerrs pl with
            | VExitEarly, _ :: _ => ev s4 EError
            | _, errs =>
                let s5 := fold_left (fun s e => ev s (EValidation (sortn e))) errs s4 in
                let ts := tasks_of sc pl in
                let s6 := ev s5 (EInit (map (fun t => (task_name t, task_ids pl t)) ts)) in
                match e_cancel (sc_env sc) with
                | CBeforeSync => ev s6 EError
                | _ => run_tasks sc pl locals prev s6 ts
                end
            end
        end
    end.

  Lemma run_is_finish c0 : run sc c0 = finish (run_state c0).
  Proof.
    unfold run, run_state. cbv zeta.
    destruct (inv_list sc (init_state sc c0)) as [s1 r1]. destruct r1 as [st|]; [|reflexivity].
    destruct (fetch_all sc s1 _) as [s2 r2]. destruct r2 as [pobjs|]; [|reflexivity].
    destruct (inv_list sc (register sc _ s2)) as [s4 r4].
    destruct (o_valpol (sc_opts sc)); destruct (pl_valerrs _); try reflexivity;
      destruct (e_cancel (sc_env sc)); reflexivity.
  Qed.

End RunState.

Definition reqs_of (t : list item) : list req :=
  flat_map (fun it => match it with IReq r _ _ _ => [r] | _ => [] end) t.
