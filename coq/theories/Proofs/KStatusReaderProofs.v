(* Lemmas about the status-reader model (Model/KStatusReader.v). *)
From Coq Require Import List Bool Arith ZArith String Lia.
From CliUtils Require Import Base.Json Model.KStatus Model.KStatusSpec Model.KStatusReader
     Proofs.KStatusProofs Proofs.KStatusC07Proofs Proofs.KStatusC08Proofs.
Import ListNotations.
Local Open Scope string_scope.

Lemma status_eqb_eq : forall a b, status_eqb a b = true <-> a = b.
Proof. intros a b; split; [destruct a, b; simpl; congruence|intros ->; destruct b; reflexivity]. Qed.

Lemma status_eqb_sym : forall a b, status_eqb a b = status_eqb b a.
Proof. intros a b; destruct a, b; reflexivity. Qed.

(* induction over a node and, below it, all its kids *)
Fixpoint node_ind' (P : node -> Prop)
  (H : forall j w sel lst kids, Forall P kids -> P (Node j w sel lst kids)) (n : node) : P n :=
  match n with
  | Node j w sel lst kids =>
      H j w sel lst kids
        ((fix go (l : list node) : Forall P l :=
            match l with
            | [] => Forall_nil P
            | x :: t => Forall_cons x (node_ind' P H x) (go t)
            end) kids)
  end.

(* ---- the rule on statuses -------------------------------------------------- *)
Lemma reader_status_rule : forall c pods,
  (c = Err -> reader_status c pods = Unknown) /\
  (forall s cs, c = Ok s cs -> s <> InProgress \/ count_failed pods = 0 -> reader_status c pods = s) /\
  (forall cs, c = Ok InProgress cs -> 0 < count_failed pods -> reader_status c pods = Failed).
Proof.
  intros c pods. split; [intros ->; reflexivity|]. split.
  - intros s cs -> H. unfold reader_status.
    destruct (status_eqb s InProgress) eqn:E; [|reflexivity].
    apply status_eqb_eq in E. destruct H as [H|H]; [contradiction|]. rewrite H. subst s. reflexivity.
  - intros cs -> H. unfold reader_status. simpl.
    destruct (Nat.ltb 0 (count_failed pods)) eqn:E; [reflexivity|]. apply Nat.ltb_ge in E. lia.
Qed.

Lemma reader_status_terminating : forall cs pods, reader_status (Ok Terminating cs) pods = Terminating.
Proof. reflexivity. Qed.

Lemma count_failed_map : forall pods,
  List.length (filter is_failed pods) = count_failed (map rr_status pods).
Proof.
  unfold count_failed. induction pods as [|p t IH]; [reflexivity|].
  cbn [filter map]. unfold is_failed at 1.
  destruct (rr_status p); simpl; rewrite IH; reflexivity.
Qed.

(* the reader's result in terms of the rule *)
Lemma pod_controller_status : forall id c pods,
  rr_status (pod_controller_result id c pods) = reader_status c (map rr_status pods) /\
  rr_error (pod_controller_result id c pods) = (match c with Err => true | Ok _ _ => false end) /\
  rr_gen (pod_controller_result id c pods) = pods /\
  rr_id (pod_controller_result id c pods) = id.
Proof.
  intros id c pods. unfold pod_controller_result, reader_status. rewrite <- count_failed_map.
  destruct c as [s cs|]; [|repeat split].
  destruct (status_eqb s InProgress); simpl; [|repeat split].
  destruct (Nat.ltb 0 (List.length (filter is_failed pods))); repeat split.
Qed.

Lemma plain_status : forall id c gen,
  rr_status (plain_result id c gen) = reader_status c [] /\
  rr_error (plain_result id c gen) = (match c with Err => true | Ok _ _ => false end) /\
  rr_gen (plain_result id c gen) = gen /\
  rr_id (plain_result id c gen) = id.
Proof.
  intros id c gen. unfold plain_result, reader_status, count_failed. destruct c as [s cs|]; [|repeat split].
  simpl. rewrite andb_false_r. repeat split.
Qed.

(* ---- unfolding `read` ------------------------------------------------------- *)
Definition finish (k : rkind) (id : rid) (c : outcome) (gen : list rres) : rres :=
  match k with
  | RPodCtl => pod_controller_result id c gen
  | _ => plain_result id c gen
  end.

Lemma read_unfold : forall k j w sel lst kids,
  read k (Node j w sel lst kids) =
  match k with
  | RGeneric => Some (finish k (id_of j) (compute j w) [])
  | _ => match gen_resources sel lst (map (read (child_kind k)) kids) with
         | GenErr e => err_resource e (id_of j) []
         | GenOk gen => Some (finish k (id_of j) (compute j w) gen)
         end
  end.
Proof. intros k j w sel lst kids. destruct k; reflexivity. Qed.

(* the generated-resources step was passed *)
Definition listing_ok (k : rkind) (sel : bool) (lst : lerr) : Prop :=
  k = RGeneric \/ (sel = true /\ lst = LOk).

Lemma read_inv : forall k j w sel lst kids r,
  read k (Node j w sel lst kids) = Some r ->
  (listing_ok k sel lst /\
   exists gen, r = finish k (id_of j) (compute j w) gen /\
               (k = RGeneric -> gen = []) /\
               (k <> RGeneric -> all_some (map (read (child_kind k)) kids) = Some gen)) \/
  (k <> RGeneric /\ (sel = false \/ (sel = true /\ lst = LErr)) /\ r = RRes (id_of j) Unknown true MsgEmpty []) \/
  (k <> RGeneric /\ sel = true /\ lst = LNotFound /\ r = RRes (id_of j) NotFound false MsgNotFound []).
Proof.
  intros k j w sel lst kids r H. rewrite read_unfold in H.
  destruct k.
  - unfold gen_resources in H. destruct sel; simpl in H.
    + destruct lst; simpl in H.
      * destruct (all_some (map (read RPodCtl) kids)) as [gen|] eqn:E; simpl in H; [|discriminate].
        injection H as <-. left. split; [right; split; reflexivity|].
        exists gen. split; [reflexivity|]. split; [discriminate|]. intros _. exact E.
      * injection H as <-. right; left. split; [discriminate|]. split; [right; split; reflexivity|reflexivity].
      * injection H as <-. right; right. split; [discriminate|]. repeat split.
      * discriminate.
    + injection H as <-. right; left. split; [discriminate|]. split; [left; reflexivity|reflexivity].
  - unfold gen_resources in H. destruct sel; simpl in H.
    + destruct lst; simpl in H.
      * destruct (all_some (map (read RGeneric) kids)) as [gen|] eqn:E; simpl in H; [|discriminate].
        injection H as <-. left. split; [right; split; reflexivity|].
        exists gen. split; [reflexivity|]. split; [discriminate|]. intros _. exact E.
      * injection H as <-. right; left. split; [discriminate|]. split; [right; split; reflexivity|reflexivity].
      * injection H as <-. right; right. split; [discriminate|]. repeat split.
      * discriminate.
    + injection H as <-. right; left. split; [discriminate|]. split; [left; reflexivity|reflexivity].
  - injection H as <-. left. split; [left; reflexivity|].
    exists []. split; [reflexivity|]. split; [reflexivity|]. intros Hk. contradiction.
Qed.

(* status / error / generated resources of a finished result *)
Lemma finish_fields : forall k id c gen,
  rr_error (finish k id c gen) = (match c with Err => true | Ok _ _ => false end) /\
  rr_gen (finish k id c gen) = gen /\
  rr_id (finish k id c gen) = id /\
  rr_status (finish k id c gen) =
    reader_status c (match k with RPodCtl => map rr_status gen | _ => [] end).
Proof.
  intros k id c gen.
  destruct k; simpl;
    [destruct (plain_status id c gen) as (A & B & C & D)
    |destruct (pod_controller_status id c gen) as (A & B & C & D)
    |destruct (plain_status id c gen) as (A & B & C & D)]; repeat split; assumption.
Qed.

Lemma count_failed_pos : forall pods,
  0 < count_failed (map rr_status pods) <-> exists p, In p pods /\ rr_status p = Failed.
Proof.
  intros pods. rewrite <- count_failed_map. split.
  - intros H. destruct (filter is_failed pods) as [|p t] eqn:E; [simpl in H; lia|].
    assert (Hin : In p (filter is_failed pods)) by (rewrite E; left; reflexivity).
    apply filter_In in Hin. destruct Hin as [Hin Hf]. exists p. split; [exact Hin|].
    unfold is_failed in Hf. apply status_eqb_eq in Hf. exact Hf.
  - intros [p [Hin Hf]].
    assert (Hin' : In p (filter is_failed pods)).
    { apply filter_In. split; [exact Hin|]. unfold is_failed. rewrite Hf. reflexivity. }
    destruct (filter is_failed pods); [contradiction|simpl; lia].
Qed.

(* ---- C07 at the reader ------------------------------------------------------- *)
Lemma reader_generic_precedence : forall j w sel lst kids r,
  read_top (Node j w sel lst kids) = Some r ->
  reader_of j = RGeneric \/ (sel = true /\ lst = LOk) ->
  (forall s, nested_string j p_deletion = Found s -> s <> "" ->
     rr_status r = Terminating /\ rr_error r = false) /\
  (forall s cs, compute j w = Ok s cs ->
     rr_error r = false /\
     (rr_status r = s \/
      (s = InProgress /\ rr_status r = Failed /\ reader_of j = RPodCtl /\
       exists p, In p (rr_gen r) /\ rr_status p = Failed))) /\
  (forall cs p, compute j w = Ok InProgress cs -> reader_of j = RPodCtl ->
     In p (rr_gen r) -> rr_status p = Failed -> rr_status r = Failed).
Proof.
  intros j w sel lst kids r H Hok. unfold read_top in H. simpl in H.
  apply read_inv in H.
  destruct H as [[_ [gen [-> _]]]|[[Hk [Hbad _]]|[Hk [Hs [Hl _]]]]].
  2:{ destruct Hok as [Hg|[Hs Hl]]; [contradiction|].
      destruct Hbad as [Hb|[_ Hb]]; congruence. }
  2:{ destruct Hok as [Hg|[_ Hl']]; [contradiction|congruence]. }
  destruct (finish_fields (reader_of j) (id_of j) (compute j w) gen) as (He & Hg & _ & Hst).
  rewrite He, Hg, Hst.
  assert (Hcomp : forall s cs, compute j w = Ok s cs ->
     false = false /\
     (reader_status (Ok s cs) (match reader_of j with RPodCtl => map rr_status gen | _ => [] end) = s \/
      (s = InProgress /\
       reader_status (Ok s cs) (match reader_of j with RPodCtl => map rr_status gen | _ => [] end) = Failed /\
       reader_of j = RPodCtl /\ exists p, In p gen /\ rr_status p = Failed))).
  { intros s cs _. split; [reflexivity|].
    destruct (reader_status_rule (Ok s cs) (match reader_of j with RPodCtl => map rr_status gen | _ => [] end))
      as (_ & Hsame & Hover).
    destruct (status_eqb s InProgress) eqn:Es.
    - apply status_eqb_eq in Es. subst s.
      destruct (reader_of j) eqn:Ek.
      + left. apply (Hsame InProgress cs eq_refl). right. reflexivity.
      + destruct (Nat.ltb 0 (count_failed (map rr_status gen))) eqn:En.
        * apply Nat.ltb_lt in En. right. split; [reflexivity|]. split; [apply (Hover cs eq_refl En)|].
          split; [reflexivity|]. apply count_failed_pos. exact En.
        * apply Nat.ltb_ge in En. left. apply (Hsame InProgress cs eq_refl). right. lia.
      + left. apply (Hsame InProgress cs eq_refl). right. reflexivity.
    - left. apply (Hsame s cs eq_refl). left. intros ->. discriminate. }
  split; [|split].
  - intros s Hd Hne. rewrite (terminating_first j w s Hd Hne). split; reflexivity.
  - intros s cs Hc. rewrite Hc. apply (Hcomp s cs Hc).
  - intros cs p Hc Hk Hin Hf. rewrite Hc, Hk.
    destruct (reader_status_rule (Ok InProgress cs) (map rr_status gen)) as (_ & _ & Hover).
    apply (Hover cs eq_refl). apply count_failed_pos. exists p. split; assumption.
Qed.

(* ---- C09 at the reader ------------------------------------------------------- *)
Lemma all_some_forall : forall {A B} (f : A -> option B) (P : B -> Prop) (l : list A) (out : list B),
  Forall (fun a => forall b, f a = Some b -> P b) l ->
  all_some (map f l) = Some out -> Forall P out.
Proof.
  intros A B f P l. induction l as [|a t IH]; intros out HF H; simpl in H.
  - injection H as <-. constructor.
  - inversion HF as [|a' t' Ha Ht]; subst.
    destruct (f a) as [b|] eqn:Ea; [|discriminate].
    destruct (all_some (map f t)) as [t''|] eqn:Et; [|discriminate].
    injection H as <-. constructor; [apply Ha; reflexivity|apply IH; [exact Ht|reflexivity]].
Qed.

Lemma all_some_none : forall {A B} (f : A -> option B) (l : list A),
  all_some (map f l) = None -> exists a, In a l /\ f a = None.
Proof.
  intros A B f l. induction l as [|a t IH]; simpl; intros H; [discriminate|].
  destruct (f a) as [b|] eqn:Ea.
  - destruct (all_some (map f t)) as [t'|] eqn:Et; [discriminate|].
    destruct (IH eq_refl) as [x [Hin Hx]]. exists x. split; [right; exact Hin|exact Hx].
  - exists a. split; [left; reflexivity|exact Ea].
Qed.

Lemma finish_wf : forall k id j w gen,
  forallb wf_rres gen = true -> wf_rres (finish k id (compute j w) gen) = true.
Proof.
  intros k id j w gen Hg.
  destruct (compute_total j w) as [E|[s [cs [E [_ Hu]]]]]; rewrite E.
  - destruct k; simpl; rewrite Hg; reflexivity.
  - assert (Hs : status_eqb s Unknown = false).
    { destruct (status_eqb s Unknown) eqn:Es; [apply status_eqb_eq in Es; contradiction|reflexivity]. }
    destruct k; simpl; try (rewrite Hs, Hg; reflexivity).
    destruct (status_eqb s InProgress); [|simpl; rewrite Hs, Hg; reflexivity].
    destruct (Nat.ltb 0 (List.length (filter is_failed gen))); simpl; [rewrite Hg|rewrite Hs, Hg]; reflexivity.
Qed.

Lemma read_wf : forall n k r, read k n = Some r -> wf_rres r = true.
Proof.
  induction n as [j w sel lst kids IH] using node_ind'. intros k r H.
  apply read_inv in H.
  destruct H as [[_ [gen [-> [Hg Hk]]]]|[[_ [_ ->]]|[_ [_ [_ ->]]]]]; [|reflexivity|reflexivity].
  apply finish_wf.
  destruct k; try (rewrite (Hg eq_refl); reflexivity).
  - apply forallb_forall. apply Forall_forall.
    apply (all_some_forall (read (child_kind RDeployment)) (fun r => wf_rres r = true) kids gen).
    + apply Forall_forall. intros a Ha b Hb. rewrite Forall_forall in IH. apply (IH a Ha _ b Hb).
    + apply Hk. discriminate.
  - apply forallb_forall. apply Forall_forall.
    apply (all_some_forall (read (child_kind RPodCtl)) (fun r => wf_rres r = true) kids gen).
    + apply Forall_forall. intros a Ha b Hb. rewrite Forall_forall in IH. apply (IH a Ha _ b Hb).
    + apply Hk. discriminate.
Qed.

Lemma read_none_ctx : forall n k, read k n = None -> ctx_in n = true.
Proof.
  induction n as [j w sel lst kids IH] using node_ind'. intros k H.
  rewrite read_unfold in H. simpl.
  assert (Hgen : forall ck, k <> RGeneric ->
            match gen_resources sel lst (map (read ck) kids) with
            | GenErr e => err_resource e (id_of j) []
            | GenOk gen => Some (finish k (id_of j) (compute j w) gen)
            end = None ->
            (match lst with LCtx => true | _ => false end) || existsb ctx_in kids = true).
  { intros ck _ H'. unfold gen_resources in H'. destruct sel; simpl in H'; [|discriminate].
    destruct lst; simpl in H'; try discriminate; [|reflexivity].
    destruct (all_some (map (read ck) kids)) as [gen|] eqn:E; simpl in H'; [discriminate|].
    destruct (all_some_none _ _ E) as [a [Hin Ha]].
    simpl. apply existsb_exists. exists a. split; [exact Hin|].
    rewrite Forall_forall in IH. apply (IH a Hin ck Ha). }
  destruct k; [apply (Hgen _ ltac:(discriminate) H)|apply (Hgen _ ltac:(discriminate) H)|discriminate].
Qed.

Lemma wf_top : forall r, wf_rres r = true -> (rr_error r = true <-> rr_status r = Unknown).
Proof.
  intros [id s e m g] H. simpl in *. apply andb_true_iff in H. destruct H as [H _].
  apply eqb_prop in H. rewrite H. apply status_eqb_eq.
Qed.

Lemma reader_total_shape : forall j w sel lst kids,
  let n := Node j w sel lst kids in
  (read_top n = None -> ctx_in n = true) /\
  (forall r, read_top n = Some r ->
     wf_rres r = true /\
     (rr_error r = true <-> rr_status r = Unknown) /\
     rr_id r = id_of j /\
     (rr_status r = NotFound -> reader_of j <> RGeneric /\ sel = true /\ lst = LNotFound) /\
     (reader_of j = RGeneric \/ (sel = true /\ lst = LOk) ->
        (compute j w = Err -> rr_status r = Unknown /\ rr_error r = true) /\
        (reader_of j = RGeneric -> rr_gen r = []) /\
        (reader_of j <> RGeneric ->
           all_some (map (read (child_kind (reader_of j))) kids) = Some (rr_gen r)))).
Proof.
  intros j w sel lst kids n. unfold n, read_top. cbn [node_obj]. split; [apply read_none_ctx|].
  intros r H. pose proof (read_wf _ _ _ H) as Hwf.
  split; [exact Hwf|]. split; [apply wf_top; exact Hwf|].
  apply read_inv in H.
  destruct H as [[_ [gen [-> [Hg Hk]]]]|[[Hk [Hbad ->]]|[Hk [Hs [Hl ->]]]]].
  - destruct (finish_fields (reader_of j) (id_of j) (compute j w) gen) as (He & Hgen & Hid & Hst).
    split; [exact Hid|]. split.
    + intros Hnf. exfalso. rewrite Hst in Hnf.
      destruct (compute_total j w) as [E|[s [cs [E [Hn _]]]]]; rewrite E in Hnf; [discriminate|].
      unfold reader_status in Hnf.
      destruct (status_eqb s InProgress && Nat.ltb 0 _); [discriminate|contradiction].
    + intros _. split; [|split].
      * intros E. rewrite Hst, He, E. split; reflexivity.
      * intros Hgk. rewrite Hgen. apply Hg. exact Hgk.
      * intros Hgk. rewrite Hgen. apply Hk. exact Hgk.
  - split; [reflexivity|]. split; [discriminate|].
    intros [Hg|[Hs Hl]]; [contradiction|]. destruct Hbad as [Hb|[_ Hb]]; congruence.
  - split; [reflexivity|]. split; [intros _; repeat split; assumption|].
    intros [Hg|[_ Hl']]; [contradiction|congruence].
Qed.

Lemma by_id_shape : forall lk id r out,
  by_id lk id r = Some out ->
  (lk = LOk /\ r = Some out) \/
  (lk = LNotFound /\ out = RRes id NotFound false MsgNotFound []) \/
  (lk = LErr /\ out = RRes id Unknown true MsgEmpty []).
Proof.
  intros lk id r out H. destruct lk; simpl in H.
  - left. split; [reflexivity|exact H].
  - injection H as <-. right; right. split; reflexivity.
  - injection H as <-. right; left. split; reflexivity.
  - discriminate.
Qed.

(* ---- C08 at the reader ------------------------------------------------------- *)
Lemma reader_current : forall j w sel lst kids r,
  read_top (Node j w sel lst kids) = Some r -> rr_status r = Current -> compute j w = Ok Current [].
Proof.
  intros j w sel lst kids r H Hc. unfold read_top in H. simpl in H. apply read_inv in H.
  destruct H as [[_ [gen [-> _]]]|[[_ [_ ->]]|[_ [_ [_ ->]]]]]; [|discriminate|discriminate].
  destruct (finish_fields (reader_of j) (id_of j) (compute j w) gen) as (_ & _ & _ & Hst).
  rewrite Hst in Hc. destruct (compute j w) as [s cs|] eqn:E; [|discriminate].
  unfold reader_status in Hc.
  destruct (status_eqb s InProgress && Nat.ltb 0 _); [discriminate|]. subst s.
  destruct (compute_wellformed j w Current cs E) as (_ & _ & _ & Hcs).
  rewrite (Hcs (or_introl eq_refl)). reflexivity.
Qed.

Lemma reader_deploy_no_lag : forall j w sel lst kids r,
  is_kind j LDeployment ->
  read_top (Node j w sel lst kids) = Some r -> rr_status r = Current ->
  let f := deploy_fields j in
  (d_status f >= d_spec f /\ d_updated f >= d_spec f /\ d_ready f >= d_spec f /\ d_available f >= d_spec f)%Z.
Proof.
  intros j w sel lst kids r Hk H Hc. apply (deploy_no_lag j w Hk). apply (reader_current _ _ _ _ _ _ H Hc).
Qed.

Lemma reader_sts_no_lag : forall j w sel lst kids r,
  is_kind j LSts ->
  read_top (Node j w sel lst kids) = Some r -> rr_status r = Current ->
  let f := sts_fields j in
  s_strategy f = "OnDelete" \/
  ((s_status f >= s_spec f /\ s_ready f >= s_spec f)%Z /\
   (s_partition f = (-1)%Z -> (s_current f >= s_spec f)%Z /\ s_cur_rev f = s_upd_rev f) /\
   (s_partition f <> (-1)%Z -> (s_updated f >= sub64 (s_spec f) (s_partition f))%Z)).
Proof.
  intros j w sel lst kids r Hk H Hc. apply (sts_no_lag j w Hk). apply (reader_current _ _ _ _ _ _ H Hc).
Qed.

Lemma reader_rs_no_lag_partial : forall j w sel lst kids r,
  is_kind j LReplicaSet ->
  read_top (Node j w sel lst kids) = Some r -> rr_status r = Current ->
  let f := rs_fields j in
  (r_labelled f >= r_spec f /\ r_available f >= r_spec f /\ r_ready f >= r_spec f /\ r_status f <= r_spec f)%Z.
Proof.
  intros j w sel lst kids r Hk H Hc. apply (rs_no_lag_partial j w Hk). apply (reader_current _ _ _ _ _ _ H Hc).
Qed.
