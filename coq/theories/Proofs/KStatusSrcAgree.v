(* The definitions that harness/cmd/genkstatus translates from the Go sources
   of pkg/kstatus/status on every run (Generated/KStatusSrc.v) compute, on ALL
   trees and both values of the clock boolean, what the hand-written model
   Model/KStatus.v computes.  So a semantic change of core.go / generic.go /
   status.go / util.go (inside the translated functions) makes this file fail
   to compile, which breaks a proof obligation of C07, C08 and C09; and the
   theorems of those properties, which are about the model, transfer to the
   generated definitions.

   The proofs do not follow the syntactic shape of the generated code:
     - straight-line code: both sides are unfolded, every field read is
       abstracted into a variable, and the goal is split on the atomic tests
       (string / integer comparisons, accessor results) until both sides are
       the same value or the hypotheses are contradictory (kauto);
     - loops: the model's Fixpoint is first rewritten into range_loop form
       over a hand-written body (the *_range lemmas below, about the model
       only), then the two loops are related by the simulation lemma
       range_loop_sim, whose obligations (initial state, one step,
       continuation) are again goals for kauto;
     - helpers that a refactoring introduces are unfolded automatically
       (hint database ksrc_extra, filled by the translator). *)
From Coq Require Import List Bool ZArith String Lia ZifyBool.
From CliUtils Require Import Base.Json Model.KStatus Model.KStatusSrcLib.
From CliUtils Require Import Generated.SourceTables Generated.KStatusSrc Proofs.SourceTablesAgree.
Import ListNotations.
Local Open Scope string_scope.

(* ---- loops ------------------------------------------------------------------ *)
Definition sum_rel {R1 R2 S1 S2 : Type} (RR : R1 -> R2 -> Prop) (RS : S1 -> S2 -> Prop)
  (x : R1 + S1) (y : R2 + S2) : Prop :=
  match x, y with
  | inl a, inl b => RR a b
  | inr a, inr b => RS a b
  | _, _ => False
  end.

Lemma range_loop_sim {A R1 R2 S1 S2 : Type} (RR : R1 -> R2 -> Prop) (RS : S1 -> S2 -> Prop)
  (b1 : A -> S1 -> R1 + S1) (b2 : A -> S2 -> R2 + S2) :
  (forall x s1 s2, RS s1 s2 -> sum_rel RR RS (b1 x s1) (b2 x s2)) ->
  forall l s1 s2, RS s1 s2 -> sum_rel RR RS (range_loop b1 l s1) (range_loop b2 l s2).
Proof.
  intros Hb. induction l as [|x t IH]; intros s1 s2 Hs; cbn [range_loop]; [exact Hs|].
  specialize (Hb x s1 s2 Hs). destruct (b1 x s1) as [r1|s1'], (b2 x s2) as [r2|s2']; cbn [sum_rel] in *;
    try contradiction; auto.
Qed.

Lemma string_app_assoc : forall a b c : string, String.append (String.append a b) c = String.append a (String.append b c).
Proof. induction a as [|ch a IH]; intros b c; cbn [String.append]; [reflexivity|]. rewrite IH. reflexivity. Qed.

(* ---- tactics ---------------------------------------------------------------- *)
Ltac model_consts :=
  unfold new_in_progress, new_failed, current, terminating, reconciling_cond, stalled_cond,
    pdb_conditions, always_ready, p_deletion, p_generation, p_observed, max_int32,
    has_cond_with_status in *.

Ltac go_unfold :=
  unfold go_nested_string, go_nested_int64, go_nested_slice, go_nested_map, go_nested_field,
    go_get_object_with_conditions, go_as_map, go_as_string, go_as_slice, go_as_int64, go_as_bool,
    go_map_get, go_is_nil in *.

Ltac ksimpl :=
  cbn [fst snd to_outcome is_some andb orb negb sum_rel legacy_fn] in *.

(* every read of the tree becomes a variable: nothing below depends on how the
   accessors are defined, only on both sides reading the same thing *)
Ltac abs_reads j :=
  repeat match goal with
    | |- context [get_int_field j ?p ?d] => generalize (get_int_field j p d); intro
    | |- context [get_string_field j ?p ?d] => generalize (get_string_field j p d); intro
    | |- context [get_nested_string j ?p] => generalize (get_nested_string j p); intro
    | |- context [nested_string j ?p] => generalize (nested_string j p); intro
    | |- context [nested_int64 j ?p] => generalize (nested_int64 j p); intro
    | |- context [nested_slice j ?p] => generalize (nested_slice j p); intro
    | |- context [nested_map j ?p] => generalize (nested_map j p); intro
    | |- context [nested_field j ?p] => generalize (nested_field j p); intro
    | |- context [get_object_with_conditions j] => generalize (get_object_with_conditions j); intro
    | |- context [group_kind j] => generalize (group_kind j); intro
    end.

Ltac kprep j :=
  autounfold with ksrc_extra in *; model_consts; go_unfold; cbv zeta in *; abs_reads j; ksimpl.

Ltac not_loop x :=
  lazymatch x with
  | context [@range_loop] => fail
  | context [std_loop] => fail
  | context [deploy_loop] => fail
  | context [rs_loop] => fail
  | context [job_loop] => fail
  | context [crd_loop] => fail
  | context [ready_loop] => fail
  | context [crash_names] => fail
  | _ => idtac
  end.

Ltac innermost x :=
  lazymatch x with
  | context [match _ with _ => _ end] => fail
  | context [String.eqb _ _] => fail
  | context [Z.eqb _ _] => fail
  | context [Z.gtb _ _] => fail
  | context [Z.ltb _ _] => fail
  | context [Z.leb _ _] => fail
  | context [Z.geb _ _] => fail
  | _ => idtac
  end.

(* one case split, on an atomic test *)
Ltac katom :=
  match goal with
  | |- context [match ?x with _ => _ end] => is_var x; destruct x
  | |- context [String.eqb ?a ?b] => destruct (String.eqb_spec a b)
  | |- context [Z.eqb ?a ?b] => destruct (Z.eqb a b) eqn:?
  | |- context [Z.gtb ?a ?b] => destruct (Z.gtb a b) eqn:?
  | |- context [Z.ltb ?a ?b] => destruct (Z.ltb a b) eqn:?
  | |- context [Z.leb ?a ?b] => destruct (Z.leb a b) eqn:?
  | |- context [Z.geb ?a ?b] => destruct (Z.geb a b) eqn:?
  | |- context [Nat.ltb ?a ?b] => destruct (Nat.ltb a b) eqn:?
  | |- context [match ?x with _ => _ end] => not_loop x; innermost x; destruct x eqn:?
  end.

Ltac kfin :=
  solve [ reflexivity | assumption | congruence | lia | exfalso; lia | exfalso; congruence
        | rewrite ?app_length in *; cbn [List.length Nat.add] in *; lia ].

(* calls of modelled helpers that a refactoring introduced somewhere else are
   rewritten with the helpers' own agreement lemmas (hook, set further down) *)
Ltac khelpers := idtac.

Ltac kauto := ksimpl; khelpers; first [ kfin | katom; kauto ].

(* hand-written bodies of the model's loops (below) *)
Create HintDb kmirror.

(* relate the loop of the generated code (left of the equation) with the
   model's loop in range_loop form (right) *)
Ltac kloop RR RS :=
  match goal with
  | |- ?L = ?R =>
      match L with
      | context [@range_loop _ _ _ ?b1 ?l ?s1] =>
          match R with
          | context [@range_loop _ _ _ ?b2 l ?s2] =>
              let H := fresh "Hsim" in
              assert (H : sum_rel RR RS (range_loop b1 l s1) (range_loop b2 l s2));
              [ apply range_loop_sim;
                [ let Hrel := fresh "Hrel" in
                  intros ? ? ? Hrel; autounfold with kmirror in *; try subst; kauto
                | autounfold with kmirror; kauto ]
              | revert H;
                destruct (range_loop b1 l s1), (range_loop b2 l s2);
                cbn [sum_rel]; intros H; try contradiction; autounfold with kmirror in H; try subst; kauto ]
          end
      end
  end.

(* split until the loops are exposed, then relate them *)
Ltac kgo rw RR RS :=
  ksimpl; khelpers; first [ kfin | progress rw; kloop RR RS | katom; kgo rw RR RS ].

(* the model's loop has a closed form that needs no loop on the other side *)
Ltac kgo_closed rw :=
  ksimpl; khelpers; first [ kfin | progress rw; kauto | katom; kgo_closed rw ].

(* ---- the model's loops in range_loop form ---------------------------------------
   These lemmas are about Model/KStatus.v only. *)
Definition std_body (c : bcond) (_ : unit) : outcome + unit :=
  if (c_type c =? "Reconciling") && (c_status c =? "True") then inl new_in_progress
  else if (c_type c =? "Stalled") && (c_status c =? "True") then inl new_failed
  else inr tt.
Lemma std_loop_range : forall cs,
  std_loop cs = match range_loop std_body cs tt with inl o => Some o | inr _ => None end.
Proof.
  induction cs as [|c t IH]; [reflexivity|]. cbn [std_loop range_loop]. unfold std_body at 1.
  destruct ((c_type c =? "Reconciling") && (c_status c =? "True")); [reflexivity|].
  destruct ((c_type c =? "Stalled") && (c_status c =? "True")); [reflexivity|]. exact IH.
Qed.

Definition deploy_body (c : bcond) (s : bool * bool) : unit + (bool * bool) :=
  let '(progressing, available) := s in
  if c_type c =? "Progressing" then
    if c_reason c =? "ProgressDeadlineExceeded" then inl tt
    else inr ((if (c_status c =? "True") && (c_reason c =? "NewReplicaSetAvailable") then true else progressing),
              available)
  else if c_type c =? "Available" then inr (progressing, (if c_status c =? "True" then true else available))
  else inr (progressing, available).
Lemma deploy_loop_range : forall cs p a,
  deploy_loop cs p a = match range_loop deploy_body cs (p, a) with inl _ => None | inr s => Some s end.
Proof.
  induction cs as [|c t IH]; intros p a; [reflexivity|]. cbn [deploy_loop range_loop]. unfold deploy_body at 1.
  destruct (c_type c =? "Progressing").
  - destruct (c_reason c =? "ProgressDeadlineExceeded"); [reflexivity|]. apply IH.
  - destruct (c_type c =? "Available"); apply IH.
Qed.

(* loop fission: the Available flag does not interact with the rest of the loop *)
Definition deploy_body_prog (c : bcond) (p : bool) : unit + bool :=
  if c_type c =? "Progressing" then
    if c_reason c =? "ProgressDeadlineExceeded" then inl tt
    else inr (if (c_status c =? "True") && (c_reason c =? "NewReplicaSetAvailable") then true else p)
  else inr p.
Lemma deploy_loop_fission : forall cs p a,
  deploy_loop cs p a =
  match range_loop deploy_body_prog cs p with
  | inl _ => None
  | inr p' => Some (p', a || has_cond_with_status cs "Available" "True")
  end.
Proof.
  unfold has_cond_with_status.
  induction cs as [|c t IH]; intros p a; [cbn; rewrite orb_false_r; reflexivity|].
  cbn [deploy_loop range_loop get_cond_with_status]. unfold deploy_body_prog at 1.
  destruct (String.eqb_spec (c_type c) "Progressing") as [E|E].
  - destruct (c_reason c =? "ProgressDeadlineExceeded"); [reflexivity|].
    destruct (String.eqb_spec (c_type c) "Available") as [E'|E']; [congruence|]. cbn [andb]. apply IH.
  - destruct (String.eqb_spec (c_type c) "Available") as [E'|E']; cbn [andb]; [|apply IH].
    rewrite IH. destruct (c_status c =? "True"), (range_loop deploy_body_prog t p) as [|p'],
      (get_cond_with_status t "Available" "True"), a; reflexivity.
Qed.

Definition rs_body (c : bcond) (_ : unit) : unit + unit :=
  if (c_type c =? "ReplicaFailure") && (c_status c =? "True") then inl tt else inr tt.
Lemma rs_loop_range : forall cs,
  rs_loop cs = match range_loop rs_body cs tt with inl _ => true | inr _ => false end.
Proof.
  induction cs as [|c t IH]; [reflexivity|]. cbn [rs_loop range_loop]. unfold rs_body at 1.
  destruct ((c_type c =? "ReplicaFailure") && (c_status c =? "True")); [reflexivity|]. exact IH.
Qed.

Lemma rs_loop_closed : forall cs, rs_loop cs = has_cond_with_status cs "ReplicaFailure" "True".
Proof.
  unfold has_cond_with_status. induction cs as [|c t IH]; [reflexivity|]. cbn [rs_loop get_cond_with_status].
  destruct ((c_type c =? "ReplicaFailure") && (c_status c =? "True")); [reflexivity|exact IH].
Qed.

Definition job_body (c : bcond) (_ : unit) : outcome + unit :=
  if c_type c =? "Complete" then (if c_status c =? "True" then inl current else inr tt)
  else if c_type c =? "Failed" then (if c_status c =? "True" then inl new_failed else inr tt)
  else inr tt.
Lemma job_loop_range : forall cs,
  job_loop cs = match range_loop job_body cs tt with inl o => Some o | inr _ => None end.
Proof.
  induction cs as [|c t IH]; [reflexivity|]. cbn [job_loop range_loop]. unfold job_body at 1.
  destruct (c_type c =? "Complete").
  - destruct (c_status c =? "True"); [reflexivity|exact IH].
  - destruct (c_type c =? "Failed"); [destruct (c_status c =? "True"); [reflexivity|exact IH]|exact IH].
Qed.

Definition crd_body (c : bcond) (_ : unit) : outcome + unit :=
  if (c_type c =? "NamesAccepted") && (c_status c =? "False") then inl new_failed
  else if c_type c =? "Established" then
    if (c_status c =? "False") && negb (c_reason c =? "Installing") then inl new_failed
    else if c_status c =? "True" then inl current
    else inr tt
  else inr tt.
Lemma crd_loop_range : forall cs,
  crd_loop cs = match range_loop crd_body cs tt with inl o => Some o | inr _ => None end.
Proof.
  induction cs as [|c t IH]; [reflexivity|]. cbn [crd_loop range_loop]. unfold crd_body at 1.
  destruct ((c_type c =? "NamesAccepted") && (c_status c =? "False")); [reflexivity|].
  destruct (c_type c =? "Established"); [|exact IH].
  destruct ((c_status c =? "False") && negb (c_reason c =? "Installing")); [reflexivity|].
  destruct (c_status c =? "True"); [reflexivity|exact IH].
Qed.

Definition ready_body (c : bcond) (_ : unit) : outcome + unit :=
  if negb (c_type c =? "Ready") then inr tt
  else if c_status c =? "True" then inl current
  else if c_status c =? "False" then inl new_in_progress
  else if c_status c =? "Unknown" then inl new_in_progress
  else inr tt.
Lemma ready_loop_range : forall cs,
  ready_loop cs = match range_loop ready_body cs tt with inl o => Some o | inr _ => None end.
Proof.
  induction cs as [|c t IH]; [reflexivity|]. cbn [ready_loop range_loop]. unfold ready_body at 1.
  destruct (negb (c_type c =? "Ready")); [exact IH|].
  destruct (c_status c =? "True"); [reflexivity|].
  destruct (c_status c =? "False"); [reflexivity|].
  destruct (c_status c =? "Unknown"); [reflexivity|exact IH].
Qed.

Definition gcws_body (ty st : string) (c : bcond) (_ : unit) : bcond + unit :=
  if (c_type c =? ty) && (c_status c =? st) then inl c else inr tt.
Lemma get_cond_range : forall cs ty st,
  get_cond_with_status cs ty st = match range_loop (gcws_body ty st) cs tt with inl c => Some c | inr _ => None end.
Proof.
  induction cs as [|c t IH]; intros ty st; [reflexivity|]. cbn [get_cond_with_status range_loop]. unfold gcws_body at 1.
  destruct ((c_type c =? ty) && (c_status c =? st)); [reflexivity|]. apply IH.
Qed.

Definition crash_body (item : jv) (n : nat) : unit + nat :=
  inr (n + (if item_crash_looping item then 1 else 0)).
Lemma crash_names_range : forall items n,
  range_loop crash_body items n = inr (n + crash_names items).
Proof.
  induction items as [|i t IH]; intros n; cbn [range_loop crash_names]; [f_equal; lia|].
  unfold crash_body at 1. rewrite IH. f_equal. lia.
Qed.

#[global] Hint Unfold std_body deploy_body deploy_body_prog rs_body job_body crd_body ready_body gcws_body crash_body : kmirror.

(* ---- relations for the early return of a loop --------------------------------- *)
Definition ret_is (o : outcome) (r : gres * bool) (_ : unit) : Prop := to_outcome r = Some o.
Definition ret_as (r : gres * bool) (o : outcome) : Prop := to_outcome r = Some o.
Definition unit_eq (a b : unit) : Prop := True.
(* a loop that was moved into a helper returning bool *)
Definition ret_true (b : bool) (_ : unit) : Prop := b = true.
(* two loop-carried variables declared in the other order *)
Definition swapped {A B : Type} (s1 : B * A) (s2 : A * B) : Prop := s1 = (snd s2, fst s2).
#[global] Hint Unfold ret_is ret_as unit_eq ret_true swapped : kmirror.

(* ============================================================================
   util.go
   ============================================================================ *)
Lemma src_getConditionWithStatus_agrees : forall cs ty st,
  KStatusSrc.getConditionWithStatus cs ty st =
  match get_cond_with_status cs ty st with Some c => (c, true) | None => (mkCond "" "" "" "", false) end.
Proof.
  intros cs ty st. unfold KStatusSrc.getConditionWithStatus. autounfold with ksrc_extra. rewrite get_cond_range.
  kloop (fun (r : bcond * bool) (c : bcond) => r = (c, true)) (@eq unit).
Qed.

Lemma src_hasConditionWithStatus_agrees : forall cs ty st,
  KStatusSrc.hasConditionWithStatus cs ty st = has_cond_with_status cs ty st.
Proof.
  intros cs ty st. unfold KStatusSrc.hasConditionWithStatus, has_cond_with_status. autounfold with ksrc_extra.
  rewrite src_getConditionWithStatus_agrees. destruct (get_cond_with_status cs ty st); reflexivity.
Qed.

Ltac khelpers ::=
  rewrite ?src_hasConditionWithStatus_agrees, ?src_getConditionWithStatus_agrees; unfold has_cond_with_status.

(* ============================================================================
   generic.go
   ============================================================================ *)
Lemma src_checkGeneration_agrees : forall j,
  to_outcome (KStatusSrc.checkGeneration j) = check_generation j.
Proof. intros j. unfold KStatusSrc.checkGeneration, check_generation. kprep j. kauto. Qed.

Lemma src_checkGenericProperties_agrees : forall j,
  to_outcome (KStatusSrc.checkGenericProperties j) = check_generic j.
Proof.
  intros j. unfold KStatusSrc.checkGenericProperties, check_generic.
  rewrite <- (src_checkGeneration_agrees j).
  destruct (KStatusSrc.checkGeneration j) as [[[s cs']|] [|]]; kprep j;
    kgo ltac:(rewrite std_loop_range) (fun (r : gres * bool) (o : outcome) => to_outcome r = Some o) (@eq unit).
Qed.

(* ============================================================================
   core.go: the kind rules
   ============================================================================ *)
Lemma src_alwaysReady_agrees : forall j, to_outcome (KStatusSrc.alwaysReady j) = Some always_ready.
Proof. intros j. unfold KStatusSrc.alwaysReady. kprep j. kauto. Qed.

Lemma src_pdbConditions_agrees : forall j, to_outcome (KStatusSrc.pdbConditions j) = Some pdb_conditions.
Proof. intros j. unfold KStatusSrc.pdbConditions. kprep j. kauto. Qed.

Lemma src_stsConditions_agrees : forall j, to_outcome (KStatusSrc.stsConditions j) = Some (sts_conditions j).
Proof. intros j. unfold KStatusSrc.stsConditions, sts_conditions. kprep j. kauto. Qed.

Lemma src_pvcConditions_agrees : forall j, to_outcome (KStatusSrc.pvcConditions j) = Some (pvc_conditions j).
Proof. intros j. unfold KStatusSrc.pvcConditions, pvc_conditions. kprep j. kauto. Qed.

Lemma src_serviceConditions_agrees : forall j, to_outcome (KStatusSrc.serviceConditions j) = Some (service_conditions j).
Proof. intros j. unfold KStatusSrc.serviceConditions, service_conditions. kprep j. kauto. Qed.

Lemma src_checkGenerationSet_agrees : forall j,
  to_outcome (KStatusSrc.checkGenerationSet j) = check_generation_set j.
Proof. intros j. unfold KStatusSrc.checkGenerationSet, check_generation_set. kprep j. kauto. Qed.

Lemma src_daemonsetConditions_agrees : forall j,
  to_outcome (KStatusSrc.daemonsetConditions j) = Some (daemonset_conditions j).
Proof.
  intros j. unfold KStatusSrc.daemonsetConditions, daemonset_conditions.
  rewrite <- (src_checkGenerationSet_agrees j).
  destruct (KStatusSrc.checkGenerationSet j) as [[[s cs']|] [|]]; kprep j; kauto.
Qed.

Lemma src_deploymentConditions_agrees : forall j,
  to_outcome (KStatusSrc.deploymentConditions j) = Some (deployment_conditions j).
Proof.
  intros j. unfold KStatusSrc.deploymentConditions, deployment_conditions. kprep j.
  first [ kgo ltac:(rewrite deploy_loop_range) (ret_is (Ok Failed [("Stalled", "True")])) (@eq (bool * bool))
        | kgo ltac:(rewrite deploy_loop_range) (ret_is (Ok Failed [("Stalled", "True")])) (@swapped bool bool)
        | kgo ltac:(rewrite deploy_loop_fission) (ret_is (Ok Failed [("Stalled", "True")])) (@eq bool) ].
Qed.

Lemma src_replicasetConditions_agrees : forall j,
  to_outcome (KStatusSrc.replicasetConditions j) = Some (replicaset_conditions j).
Proof.
  intros j. unfold KStatusSrc.replicasetConditions, replicaset_conditions. kprep j.
  first [ kgo ltac:(rewrite rs_loop_range) (ret_is (Ok InProgress [("Reconciling", "True")])) (@eq unit)
        | kgo ltac:(rewrite rs_loop_range) ret_true (@eq unit)
        | kgo_closed ltac:(rewrite rs_loop_closed) ].
Qed.

Lemma src_jobConditions_agrees : forall j,
  to_outcome (KStatusSrc.jobConditions j) = Some (job_conditions j).
Proof.
  intros j. unfold KStatusSrc.jobConditions, job_conditions. kprep j.
  kgo ltac:(rewrite job_loop_range) ret_as (@eq unit).
Qed.

Lemma src_crdConditions_agrees : forall j,
  to_outcome (KStatusSrc.crdConditions j) = Some (crd_conditions j).
Proof.
  intros j. unfold KStatusSrc.crdConditions, crd_conditions. kprep j.
  kgo ltac:(rewrite crd_loop_range) ret_as (@eq unit).
Qed.

(* ---- Pod ---------------------------------------------------------------------- *)
(* (names, isCrashLooping, err): the names reach the message only *)
Lemma src_getCrashLoopingContainers_agrees : forall j,
  (let '(_, b, e) := KStatusSrc.getCrashLoopingContainers j in if e then None else Some b) = get_crash_looping j.
Proof.
  intros j. unfold KStatusSrc.getCrashLoopingContainers, get_crash_looping. kprep j.
  match goal with |- context [match ?x with _ => _ end] => is_var x; destruct x as [items| |] end; ksimpl; try reflexivity.
  rewrite <- (Nat.add_0_l (crash_names items)).
  assert (E : inr (0 + crash_names items) = range_loop crash_body items 0) by (symmetry; apply crash_names_range).
  match goal with
  | |- context [@range_loop _ _ _ ?b1 items ?s1] =>
      assert (H : sum_rel (fun (_ : list string * bool * bool) (_ : unit) => False)
                          (fun (names : list string) (n : nat) => List.length names = n)
                          (range_loop b1 items s1) (range_loop crash_body items 0));
      [ apply range_loop_sim;
        [ intros item names n Hrel; unfold crash_body, item_crash_looping; kauto
        | reflexivity ]
      | rewrite <- E in H; revert H; destruct (range_loop b1 items s1) as [r|names]; cbn [sum_rel]; intros H;
        [ contradiction | kauto ] ]
  end.
Qed.

Lemma src_podConditions_agrees : forall j w,
  to_outcome (KStatusSrc.podConditions j w) = Some (pod_conditions j w).
Proof.
  intros j w. unfold KStatusSrc.podConditions, pod_conditions.
  rewrite <- (src_getCrashLoopingContainers_agrees j).
  destruct (KStatusSrc.getCrashLoopingContainers j) as [[names b] e].
  kprep j.
  match goal with |- context [match ?x with _ => _ end] => is_var x; destruct x as [cs|] end; ksimpl; [|reflexivity].
  rewrite ?src_hasConditionWithStatus_agrees, ?src_getConditionWithStatus_agrees. unfold has_cond_with_status.
  kauto.
Qed.

(* ============================================================================
   status.go
   ============================================================================ *)
Lemma src_checkReadyCondition_agrees : forall j,
  to_outcome (KStatusSrc.checkReadyCondition j) = check_ready_condition j.
Proof.
  intros j. unfold KStatusSrc.checkReadyCondition, check_ready_condition. kprep j.
  kgo ltac:(rewrite ready_loop_range) ret_as (@eq unit).
Qed.

(* the key of the dispatch table *)
Lemma src_GetLegacyConditionsFn_agrees : forall j,
  KStatusSrc.GetLegacyConditionsFn j = KStatusSrcLib.assoc (kind_key j) src_legacy_types.
Proof.
  intros j. unfold KStatusSrc.GetLegacyConditionsFn, kind_key. autounfold with ksrc_extra. cbv zeta.
  destruct (group_kind j) as [g k]. cbn [fst snd]. rewrite ?string_app_assoc.
  destruct (g =? ""); reflexivity.
Qed.

Ltac disp_fin :=
  solve [ unfold KStatusSrc.call_GetConditionsFn; cbv [String.eqb Ascii.eqb Bool.eqb]; cbn [legacy_fn];
          first [ apply src_serviceConditions_agrees | apply src_podConditions_agrees
                | apply src_alwaysReady_agrees | apply src_pvcConditions_agrees
                | apply src_stsConditions_agrees | apply src_daemonsetConditions_agrees
                | apply src_deploymentConditions_agrees | apply src_replicasetConditions_agrees
                | apply src_pdbConditions_agrees | apply src_jobConditions_agrees
                | apply src_crdConditions_agrees ] ].

(* calling the table entry of a key = the model's rule for that key *)
Lemma src_dispatch_agrees : forall key j w,
  match KStatusSrcLib.assoc key src_legacy_types, legacy_of_key key with
  | Some fn, Some k => to_outcome (KStatusSrc.call_GetConditionsFn (Some fn) j w) = Some (legacy_fn k j w)
  | None, None => True
  | _, _ => False
  end.
Proof.
  intros key j w. unfold src_legacy_types, legacy_of_key. cbn [KStatusSrcLib.assoc].
  repeat match goal with
         | |- context [String.eqb key ?s] =>
             destruct (String.eqb_spec key s); cbv beta iota; try (exfalso; congruence); try disp_fin
         end.
  exact I.
Qed.

Theorem src_compute_agrees : forall j w,
  to_outcome (KStatusSrc.Compute j w) = Some (compute j w).
Proof.
  intros j w. unfold KStatusSrc.Compute, compute. autounfold with ksrc_extra. cbv zeta.
  rewrite <- (src_checkGenericProperties_agrees j).
  destruct (KStatusSrc.checkGenericProperties j) as [[[s cs]|] [|]]; ksimpl; try reflexivity.
  rewrite src_GetLegacyConditionsFn_agrees.
  pose proof (src_dispatch_agrees (kind_key j) j w) as D.
  destruct (KStatusSrcLib.assoc (kind_key j) src_legacy_types) as [fn|], (legacy_of_key (kind_key j)) as [k|];
    try contradiction; ksimpl; [exact D|].
  rewrite <- (src_checkReadyCondition_agrees j).
  destruct (KStatusSrc.checkReadyCondition j) as [[[s cs]|] [|]]; reflexivity.
Qed.

(* the Pod grace window as written in the source *)
Lemma src_schedule_window_agrees : KStatusSrc.src_schedule_window = "15*time.Second".
Proof. reflexivity. Qed.

(* every function of the computation that the model has a counterpart for is
   still there (a function that is no longer reachable from Compute or the
   dispatch table is not translated) *)
Lemma src_functions_present :
  forallb (fun n => existsb (String.eqb n) KStatusSrc.src_functions)
    ["Compute"; "checkGenericProperties"; "checkGeneration"; "checkReadyCondition"; "GetLegacyConditionsFn";
     "alwaysReady"; "stsConditions"; "deploymentConditions"; "replicasetConditions"; "daemonsetConditions";
     "checkGenerationSet"; "pvcConditions"; "podConditions"; "getCrashLoopingContainers"; "pdbConditions";
     "jobConditions"; "serviceConditions"; "crdConditions"] = true.
Proof. reflexivity. Qed.

(* ---- the statements the properties cite ------------------------------------------ *)
(* C07: the generic checks and the whole precedence chain of Compute *)
Lemma src_generic_agrees : forall j w,
  to_outcome (KStatusSrc.checkGeneration j) = check_generation j /\
  to_outcome (KStatusSrc.checkGenericProperties j) = check_generic j /\
  to_outcome (KStatusSrc.checkReadyCondition j) = check_ready_condition j /\
  KStatusSrc.GetLegacyConditionsFn j = KStatusSrcLib.assoc (kind_key j) src_legacy_types /\
  to_outcome (KStatusSrc.Compute j w) = Some (compute j w).
Proof.
  intros j w. repeat match goal with |- _ /\ _ => split end;
    [ apply src_checkGeneration_agrees | apply src_checkGenericProperties_agrees
    | apply src_checkReadyCondition_agrees | apply src_GetLegacyConditionsFn_agrees | apply src_compute_agrees ].
Qed.

(* C08: every kind rule *)
Lemma src_kind_rules_agree : forall j w,
  to_outcome (KStatusSrc.deploymentConditions j) = Some (deployment_conditions j) /\
  to_outcome (KStatusSrc.stsConditions j) = Some (sts_conditions j) /\
  to_outcome (KStatusSrc.replicasetConditions j) = Some (replicaset_conditions j) /\
  to_outcome (KStatusSrc.daemonsetConditions j) = Some (daemonset_conditions j) /\
  to_outcome (KStatusSrc.podConditions j w) = Some (pod_conditions j w) /\
  to_outcome (KStatusSrc.jobConditions j) = Some (job_conditions j) /\
  to_outcome (KStatusSrc.pvcConditions j) = Some (pvc_conditions j) /\
  to_outcome (KStatusSrc.serviceConditions j) = Some (service_conditions j) /\
  to_outcome (KStatusSrc.crdConditions j) = Some (crd_conditions j) /\
  to_outcome (KStatusSrc.pdbConditions j) = Some pdb_conditions /\
  to_outcome (KStatusSrc.alwaysReady j) = Some always_ready /\
  (forall key, match KStatusSrcLib.assoc key src_legacy_types, legacy_of_key key with
               | Some fn, Some k => to_outcome (KStatusSrc.call_GetConditionsFn (Some fn) j w) = Some (legacy_fn k j w)
               | None, None => True
               | _, _ => False
               end) /\
  to_outcome (KStatusSrc.Compute j w) = Some (compute j w).
Proof.
  intros j w. repeat match goal with |- _ /\ _ => split end;
    [ apply src_deploymentConditions_agrees | apply src_stsConditions_agrees | apply src_replicasetConditions_agrees
    | apply src_daemonsetConditions_agrees | apply src_podConditions_agrees | apply src_jobConditions_agrees
    | apply src_pvcConditions_agrees | apply src_serviceConditions_agrees | apply src_crdConditions_agrees
    | apply src_pdbConditions_agrees | apply src_alwaysReady_agrees
    | intros key; apply src_dispatch_agrees | apply src_compute_agrees ].
Qed.

(* C09: the whole computation is a total function into results and errors
   (the generated Compute never yields the pair (nil, nil)), the container
   scan included *)
Lemma src_total_agrees : forall j w,
  to_outcome (KStatusSrc.Compute j w) = Some (compute j w) /\
  (let '(_, b, e) := KStatusSrc.getCrashLoopingContainers j in if e then None else Some b) = get_crash_looping j /\
  to_outcome (KStatusSrc.podConditions j w) = Some (pod_conditions j w).
Proof.
  intros j w. repeat match goal with |- _ /\ _ => split end;
    [ apply src_compute_agrees | apply src_getCrashLoopingContainers_agrees | apply src_podConditions_agrees ].
Qed.
