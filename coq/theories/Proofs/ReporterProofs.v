(* C16 (b) — lemmas about the reporter model. *)
From Coq Require Import List Bool Arith Lia.
From CliUtils Require Import Model.Reporter.
Import ListNotations.

Lemma oid_eqb_eq : forall a b, oid_eqb a b = true <-> a = b.
Proof.
  intros [g1 n1 m1] [g2 n2 m2]. unfold oid_eqb. simpl. split.
  - intros H. apply andb_true_iff in H. destruct H as [H H3]. apply andb_true_iff in H. destruct H as [H1 H2].
    apply Nat.eqb_eq in H1, H2, H3. subst. reflexivity.
  - intros H. inversion H; subst. rewrite !Nat.eqb_refl. reflexivity.
Qed.

Lemma oid_eqb_refl : forall a, oid_eqb a a = true.
Proof. intros a. apply oid_eqb_eq. reflexivity. Qed.

Lemma oid_eqb_sym : forall a b, oid_eqb a b = oid_eqb b a.
Proof.
  intros a b. destruct (oid_eqb a b) eqn:E.
  - apply oid_eqb_eq in E. subst. symmetry. apply oid_eqb_refl.
  - destruct (oid_eqb b a) eqn:F; [|reflexivity]. apply oid_eqb_eq in F. subst. rewrite oid_eqb_refl in E. discriminate.
Qed.

(* an update event about an allow-listed id *)
Definition upd_ok (c : config) (e : event) : Prop :=
  match e with EUpdate id _ => allowed c id = true | _ => False end.

(* [st'] extends [st] by update events of allow-listed ids only; flags untouched *)
Definition ext (c : config) (st st' : rstate) : Prop :=
  (exists evs, r_events st' = r_events st ++ evs /\ Forall (upd_ok c) evs) /\
  r_errsent st' = r_errsent st /\ r_stopped st' = r_stopped st /\ r_synced st' = r_synced st.

Lemma ext_refl : forall c st, ext c st st.
Proof. intros c st. split; [exists []; rewrite app_nil_r; auto | auto]. Qed.

Lemma ext_trans : forall c a b d, ext c a b -> ext c b d -> ext c a d.
Proof.
  intros c a b d [[e1 [H1 F1]] [A1 [B1 C1]]] [[e2 [H2 F2]] [A2 [B2 C2]]]. split.
  - exists (e1 ++ e2). split; [rewrite H2, H1, app_assoc; reflexivity | apply Forall_app; auto].
  - repeat split; congruence.
Qed.

Lemma ext_fold : forall c A (f : rstate -> A -> rstate) l,
  (forall s x, ext c s (f s x)) -> forall st, ext c st (fold_left f l st).
Proof.
  intros c A f l H. induction l as [|x t IH]; intros st; simpl; [apply ext_refl|].
  eapply ext_trans; [apply H | apply IH].
Qed.

Lemma ext_same_events : forall c st st', r_events st' = r_events st -> r_errsent st' = r_errsent st ->
  r_stopped st' = r_stopped st -> r_synced st' = r_synced st -> ext c st st'.
Proof. intros c st st' H A B C. split; [exists []; rewrite app_nil_r; auto | auto]. Qed.

Lemma ext_emit : forall c st evs, Forall (upd_ok c) evs -> ext c st (emit st evs).
Proof. intros c st evs F. split; [exists evs; auto | auto]. Qed.

Lemma ext_emit1 : forall c st id s, allowed c id = true -> ext c st (emit st [EUpdate id s]).
Proof. intros c st id s A. apply ext_emit. constructor; [exact A | constructor]. Qed.

Lemma list_events_ok : forall c st t, Forall (upd_ok c) (list_events c st t).
Proof.
  intros c st t. unfold list_events. induction (r_cluster st) as [|[k p] l IH]; simpl; [constructor|].
  apply Forall_app. split; [|exact IH].
  destruct (covers t k && allowed c k && negb (p_slow p)) eqn:E; [|constructor].
  apply andb_true_iff in E. destruct E as [E _]. apply andb_true_iff in E. destruct E as [_ E].
  constructor; [exact E | constructor].
Qed.

Lemma ext_start_leaf : forall c st t, ext c st (start_leaf c st t).
Proof.
  intros c st t. unfold start_leaf.
  destruct (tmem t (r_started st)); [apply ext_refl|].
  destruct (negb (existsb (Nat.eqb (t_gk t)) (r_mapper st))); [apply ext_refl|].
  simpl. destruct (r_stopped st).
  - apply ext_same_events; reflexivity.
  - eapply ext_trans; [|apply ext_emit; apply list_events_ok]. apply ext_same_events; reflexivity.
Qed.

Lemma ext_stop_target : forall c st t, ext c st (stop_target st t).
Proof. intros. apply ext_same_events; reflexivity. Qed.

Lemma ext_reset_mapper : forall c st, ext c st (reset_mapper c st).
Proof. intros. apply ext_same_events; reflexivity. Qed.

Lemma ext_on_ns_upsert : forall c st n, ext c st (on_ns_upsert c st n).
Proof. intros c st n. unfold on_ns_upsert. destruct (c_scope c); [apply ext_refl | apply ext_fold; apply ext_start_leaf]. Qed.

Lemma ext_on_ns_delete : forall c st n, ext c st (on_ns_delete c st n).
Proof. intros c st n. unfold on_ns_delete. destruct (c_scope c); [apply ext_refl | apply ext_fold; apply ext_stop_target]. Qed.

Lemma ext_on_crd_upsert : forall c st p, ext c st (on_crd_upsert c st p).
Proof.
  intros c st p. unfold on_crd_upsert. destruct (p_defines p); [|apply ext_refl].
  eapply ext_trans; [apply ext_reset_mapper | apply ext_fold; apply ext_start_leaf].
Qed.

Lemma ext_on_crd_delete : forall c st p, ext c st (on_crd_delete c st p).
Proof.
  intros c st p. unfold on_crd_delete. destruct (p_defines p); [|apply ext_refl].
  eapply ext_trans; [apply ext_fold; apply ext_stop_target | apply ext_reset_mapper].
Qed.

Lemma ext_handle_upsert : forall c st id p, ext c st (handle_upsert c st id p).
Proof.
  intros c st id p. unfold handle_upsert.
  destruct (r_stopped st); [apply ext_refl|].
  destruct (allowed c id) eqn:A; simpl; [|apply ext_refl].
  destruct (p_slow p); [apply ext_refl|].
  eapply ext_trans; [apply ext_emit1; exact A|].
  destruct (is_ns id); [apply ext_on_ns_upsert|].
  destruct (is_crd id); [apply ext_on_crd_upsert | apply ext_refl].
Qed.

Lemma ext_handle_delete : forall c st id p, ext c st (handle_delete c st id p).
Proof.
  intros c st id p. unfold handle_delete.
  destruct (r_stopped st); [apply ext_refl|].
  destruct (allowed c id) eqn:A; simpl; [|apply ext_refl].
  eapply ext_trans; [|apply ext_emit1; exact A].
  destruct (is_ns id); [apply ext_on_ns_delete|].
  destruct (is_crd id); [apply ext_on_crd_delete | apply ext_refl].
Qed.

Lemma ext_start_top : forall c st t, ext c st (start_top c st t).
Proof.
  intros c st t. unfold start_top.
  destruct (tmem t (r_started st)); [apply ext_refl|].
  destruct (negb (existsb (Nat.eqb (t_gk t)) (r_mapper st))); [apply ext_refl|].
  eapply ext_trans; [apply ext_same_events with (st' := set_started st (r_started st ++ [t])); reflexivity|].
  apply ext_fold. intros s kp. destruct (covers t (fst kp)); [apply ext_handle_upsert | apply ext_refl].
Qed.

Lemma ext_mutate : forall c st m, ext c st (mutate c st m).
Proof.
  intros c st m. unfold mutate. destruct m as [id p|id p|id].
  - eapply ext_trans; [apply ext_same_events with (st' := set_cluster st (upsert (r_cluster st) id p)); reflexivity|].
    destruct (covered _ id); [apply ext_handle_upsert | apply ext_refl].
  - eapply ext_trans; [apply ext_same_events with (st' := set_cluster st (upsert (r_cluster st) id p)); reflexivity|].
    destruct (covered _ id); [apply ext_handle_upsert | apply ext_refl].
  - destruct (lookup (r_cluster st) id); [|apply ext_refl].
    eapply ext_trans; [apply ext_same_events with (st' := set_cluster st (remove_obj (r_cluster st) id)); reflexivity|].
    destruct (covered _ id); [apply ext_handle_delete | apply ext_refl].
Qed.

Lemma ext_mutate_gap : forall c st m, ext c st (mutate_gap st m).
Proof.
  intros c st m. unfold mutate_gap. destruct m as [id p|id p|id]; simpl.
  - apply ext_same_events; reflexivity.
  - apply ext_same_events; reflexivity.
  - destruct (lookup (r_cluster st) id); [apply ext_same_events; reflexivity | apply ext_refl].
Qed.

Lemma ext_break : forall c st g, ext c st (do_break st g).
Proof. intros c st g. unfold do_break. destruct (in_gap st g); [apply ext_refl | apply ext_same_events; reflexivity]. Qed.

Lemma ext_relist_upsert : forall c st e, ext c st (relist_upsert c st e).
Proof.
  intros c st e. unfold relist_upsert. destruct (lookup (r_cluster st) (fst e)); [|apply ext_refl].
  destruct (covered st (fst e)); [apply ext_handle_upsert | apply ext_refl].
Qed.

Lemma ext_relist_delete : forall c st e, ext c st (relist_delete c st e).
Proof.
  intros c st e. unfold relist_delete. destruct (lookup (r_cluster st) (fst e)); [apply ext_refl|].
  destruct (snd e); [|apply ext_refl].
  destruct (covered st (fst e)); [apply ext_handle_delete | apply ext_refl].
Qed.

Lemma ext_relist : forall c st g, ext c st (do_relist c st g).
Proof.
  intros c st g. unfold do_relist. destruct (gap_of (r_gaps st) g) as [l|]; [|apply ext_refl].
  eapply ext_trans; [apply ext_same_events with (st' := set_gaps st (filter (fun e => negb (Nat.eqb (fst e) g)) (r_gaps st))); reflexivity|].
  eapply ext_trans; [apply ext_fold; apply ext_relist_upsert | apply ext_fold; apply ext_relist_delete].
Qed.

Lemma ext_step_mut : forall c st m, ext c st (rstep_apply c st (SMut m)).
Proof.
  intros c st m. simpl. destruct (in_gap st (o_gk (mut_id_of m))); [apply ext_mutate_gap | apply ext_mutate].
Qed.

Definition start_state (c : config) (cl : list (oid * payload)) : rstate :=
  mkR cl (served c cl) [] false false false [] [].

Lemma ext_start : forall c cl, ext c (start_state c cl) (start c cl).
Proof. intros c cl. unfold start. apply ext_fold. apply ext_start_top. Qed.

(* ---- invariant over runs -------------------------------------------------- *)
Definition is_upd (e : event) : bool := match e with EUpdate _ _ => true | _ => false end.

Lemma count_errors_app : forall a b, count_errors (a ++ b) = count_errors a + count_errors b.
Proof. intros a b. unfold count_errors. rewrite filter_app, app_length. reflexivity. Qed.
Lemma count_syncs_app : forall a b, count_syncs (a ++ b) = count_syncs a + count_syncs b.
Proof. intros a b. unfold count_syncs. rewrite filter_app, app_length. reflexivity. Qed.

Lemma upd_no_errors : forall c evs, Forall (upd_ok c) evs -> count_errors evs = 0 /\ count_syncs evs = 0.
Proof.
  intros c evs F. induction F as [|e l H F IH]; [split; reflexivity|].
  destruct e; simpl in H; try contradiction. exact IH.
Qed.

Record RInv (c : config) (st : rstate) : Prop := mkRInv {
  ri_allowed : forall id s, In (EUpdate id s) (r_events st) -> allowed c id = true;
  ri_err0 : r_errsent st = false -> count_errors (r_events st) = 0;
  ri_err1 : r_errsent st = true -> count_errors (r_events st) = 1 /\ r_stopped st = true;
  ri_sync0 : r_synced st = false -> count_syncs (r_events st) = 0;
  ri_sync1 : r_synced st = true -> count_syncs (r_events st) = 1
}.

Lemma RInv_ext : forall c st st', RInv c st -> ext c st st' -> RInv c st'.
Proof.
  intros c st st' [I1 I2 I3 I4 I5] [[evs [E F]] [A [B C]]].
  destruct (upd_no_errors c evs F) as [Z1 Z2].
  constructor; rewrite ?E, ?A, ?B, ?C, ?count_errors_app, ?count_syncs_app, ?Z1, ?Z2, ?Nat.add_0_r; auto.
  intros id s H. apply in_app_or in H. destruct H as [H|H]; [eauto|].
  rewrite Forall_forall in F. exact (F _ H).
Qed.

Lemma RInv_start_state : forall c cl, RInv c (start_state c cl).
Proof. intros c cl. constructor; simpl; intros; try reflexivity; try discriminate; tauto. Qed.

Lemma RInv_step : forall c st s, RInv c st -> RInv c (rstep_apply c st s).
Proof.
  intros c st s I. destruct s; try (eapply RInv_ext; [exact I | first [apply ext_step_mut | apply ext_break | apply ext_relist]]); simpl.
  - unfold do_sync. destruct (r_stopped st || r_synced st) eqn:E; [exact I|].
    apply orb_false_iff in E. destruct E as [E1 E2]. destruct I as [I1 I2 I3 I4 I5].
    constructor; simpl; rewrite ?count_errors_app, ?count_syncs_app; simpl; intros; auto.
    + apply in_app_or in H. destruct H as [H|[H|[]]]; [eauto | discriminate].
    + rewrite I2 by assumption. reflexivity.
    + destruct (I3 H) as [A B]. rewrite A. split; [reflexivity | exact B].
    + discriminate.
    + rewrite (I4 E2). reflexivity.
  - destruct I as [I1 I2 I3 I4 I5]. constructor; simpl; auto.
    intros H. destruct (I3 H) as [A _]. split; [exact A | reflexivity].
  - unfold handle_fatal. destruct (r_errsent st) eqn:E; [exact I|]. destruct I as [I1 I2 I3 I4 I5].
    constructor; simpl; rewrite ?count_errors_app, ?count_syncs_app; simpl; intros; auto.
    + apply in_app_or in H. destruct H as [H|[H|[]]]; [eauto | discriminate].
    + discriminate.
    + rewrite (I2 E). split; reflexivity.
    + rewrite (I4 H). reflexivity.
    + rewrite (I5 H). reflexivity.
Qed.

Lemma RInv_run : forall c pre steps, RInv c (run c pre steps).
Proof.
  intros c pre steps. unfold run.
  assert (H : RInv c (start c (cluster_of pre))).
  { eapply RInv_ext; [apply RInv_start_state | apply ext_start]. }
  revert H. generalize (start c (cluster_of pre)). induction steps as [|s t IH]; intros st H; simpl; [exact H|].
  apply IH. apply RInv_step. exact H.
Qed.

(* ---- theorems of C16 (b) ---------------------------------------------------- *)
Lemma allowed_In : forall c id, allowed c id = true <-> In id (c_watched c).
Proof.
  intros c id. unfold allowed. rewrite existsb_exists. split.
  - intros [x [H E]]. apply oid_eqb_eq in E. subst. exact H.
  - intros H. exists id. split; [exact H | apply oid_eqb_refl].
Qed.

Lemma unwatched_silent : forall c pre steps id s,
  In (EUpdate id s) (r_events (run c pre steps)) -> In id (c_watched c).
Proof. intros c pre steps id s H. apply allowed_In. exact (ri_allowed c _ (RInv_run c pre steps) id s H). Qed.

Lemma errsent_step_nofail : forall c st s, s <> SFail -> r_errsent (rstep_apply c st s) = r_errsent st.
Proof.
  intros c st s N. destruct s; try congruence.
  - destruct (ext_step_mut c st m) as [_ [A _]]. exact A.
  - simpl. unfold do_sync. destruct (r_stopped st || r_synced st); reflexivity.
  - reflexivity.
  - destruct (ext_break c st g) as [_ [A _]]. exact A.
  - destruct (ext_relist c st g) as [_ [A _]]. exact A.
Qed.

Lemma errsent_start : forall c cl, r_errsent (start c cl) = false.
Proof. intros c cl. destruct (ext_start c cl) as [_ [A _]]. exact A. Qed.

Lemma ns_crd_no_error : forall c pre steps, (forall s, In s steps -> s <> SFail) ->
  count_errors (r_events (run c pre steps)) = 0 /\ r_errsent (run c pre steps) = false.
Proof.
  intros c pre steps N.
  assert (E : r_errsent (run c pre steps) = false).
  { unfold run. pose proof (errsent_start c (cluster_of pre)) as H. revert H.
    generalize (start c (cluster_of pre)). induction steps as [|s t IH]; intros st H; simpl; [exact H|].
    apply IH; [intros x Hx; apply N; right; exact Hx|].
    rewrite errsent_step_nofail; [exact H | apply N; left; reflexivity]. }
  split; [|exact E]. exact (ri_err0 c _ (RInv_run c pre steps) E).
Qed.

Lemma target_eqb_refl : forall t, target_eqb t t = true.
Proof. intros t. unfold target_eqb. rewrite !Nat.eqb_refl. reflexivity. Qed.

Lemma tmem_app_self : forall t l, tmem t (l ++ [t]) = true.
Proof. intros t l. unfold tmem. rewrite existsb_app. simpl. rewrite target_eqb_refl. rewrite orb_true_r. reflexivity. Qed.

(* informer bookkeeping is idempotent *)
Lemma start_leaf_idem : forall c st t, start_leaf c (start_leaf c st t) t = start_leaf c st t.
Proof.
  intros c st t. destruct (tmem t (r_started st)) eqn:M.
  - assert (H : start_leaf c st t = st) by (unfold start_leaf; rewrite M; reflexivity).
    rewrite H, H. reflexivity.
  - destruct (negb (existsb (Nat.eqb (t_gk t)) (r_mapper st))) eqn:K.
    + assert (H : start_leaf c st t = st) by (unfold start_leaf; rewrite M, K; reflexivity).
      rewrite H, H. reflexivity.
    + assert (H : tmem t (r_started (start_leaf c st t)) = true).
      { unfold start_leaf. rewrite M, K. simpl. destruct (r_stopped st); simpl; apply tmem_app_self. }
      unfold start_leaf at 1. rewrite H. reflexivity.
Qed.

Lemma filter_idem : forall A (f : A -> bool) l, filter f (filter f l) = filter f l.
Proof.
  intros A f l. induction l as [|h t IH]; simpl; [reflexivity|].
  destruct (f h) eqn:E; simpl; [rewrite E, IH; reflexivity | exact IH].
Qed.

Lemma stop_target_idem : forall st t, stop_target (stop_target st t) t = stop_target st t.
Proof. intros st t. unfold stop_target, set_started. simpl. rewrite filter_idem. reflexivity. Qed.

Lemma stop_then_not_started : forall st t, tmem t (r_started (stop_target st t)) = false.
Proof.
  intros st t. unfold stop_target, tmem. simpl. induction (r_started st) as [|h l IH]; simpl; [reflexivity|].
  destruct (target_eqb h t) eqn:E; simpl; [exact IH|].
  assert (F : target_eqb t h = false).
  { unfold target_eqb in *. rewrite (Nat.eqb_sym (t_gk t)), (Nat.eqb_sym (t_ns t)). exact E. }
  rewrite F. exact IH.
Qed.

(* at most one error event; it stops the reporter; nothing follows it *)
Lemma mutate_stopped_events : forall c st m, r_stopped st = true ->
  r_events (mutate c st m) = r_events st.
Proof.
  intros c st m S. unfold mutate. destruct m as [id p|id p|id].
  - destruct (covered _ id); [|reflexivity]. unfold handle_upsert. simpl. rewrite S. reflexivity.
  - destruct (covered _ id); [|reflexivity]. unfold handle_upsert. simpl. rewrite S. reflexivity.
  - destruct (lookup (r_cluster st) id); [|reflexivity].
    destruct (covered _ id); [|reflexivity]. unfold handle_delete. simpl. rewrite S. reflexivity.
Qed.

Lemma fold_fixed : forall A (f : rstate -> A -> rstate) (P : rstate -> Prop) l st,
  (forall s x, P s -> f s x = s) -> P st -> fold_left f l st = st.
Proof.
  intros A f P l st H. induction l as [|x t IH]; intros Hp; simpl; [reflexivity|].
  rewrite (H st x Hp). apply IH. exact Hp.
Qed.

Lemma relist_stopped : forall c st g, r_stopped st = true -> r_events (do_relist c st g) = r_events st.
Proof.
  intros c st g S. unfold do_relist. destruct (gap_of (r_gaps st) g) as [l|]; [|reflexivity].
  set (st0 := set_gaps st (filter (fun e => negb (Nat.eqb (fst e) g)) (r_gaps st))).
  assert (S0 : r_stopped st0 = true) by exact S.
  set (l' := filter (fun e => Nat.eqb (o_gk (fst e)) g) l).
  set (listed := map (fun kp : oid * payload => (fst kp, @None payload))
                     (filter (fun kp => Nat.eqb (o_gk (fst kp)) g) (r_cluster st))).
  change (r_events (fold_left (relist_delete c) l' (fold_left (relist_upsert c) listed st0)) = r_events st).
  rewrite (fold_fixed _ (relist_upsert c) (fun s => r_stopped s = true) listed st0); [| |exact S0].
  - rewrite (fold_fixed _ (relist_delete c) (fun s => r_stopped s = true) l' st0); [reflexivity| |exact S0].
    intros s x Hs. unfold relist_delete. destruct (lookup (r_cluster s) (fst x)); [reflexivity|].
    destruct (snd x); [|reflexivity]. destruct (covered s (fst x)); [|reflexivity].
    unfold handle_delete. rewrite Hs. reflexivity.
  - intros s x Hs. unfold relist_upsert. destruct (lookup (r_cluster s) (fst x)); [|reflexivity].
    destruct (covered s (fst x)); [|reflexivity]. unfold handle_upsert. rewrite Hs. reflexivity.
Qed.

Lemma after_error_frozen_step : forall c st s, r_errsent st = true -> r_stopped st = true ->
  r_events (rstep_apply c st s) = r_events st /\
  r_errsent (rstep_apply c st s) = true /\ r_stopped (rstep_apply c st s) = true.
Proof.
  intros c st s E S. destruct s.
  - split.
    + simpl. destruct (in_gap st (o_gk (mut_id_of m))); [|apply mutate_stopped_events; exact S].
      unfold mutate_gap. destruct m as [id p|id p|id]; simpl; try reflexivity.
      destruct (lookup (r_cluster st) id); reflexivity.
    + destruct (ext_step_mut c st m) as [_ [A [B _]]]. rewrite A, B. auto.
  - simpl. unfold do_sync. rewrite S. simpl. auto.
  - simpl. auto.
  - simpl. unfold handle_fatal. rewrite E. auto.
  - destruct (ext_break c st g) as [_ [A [B _]]]. simpl rstep_apply. rewrite A, B.
    split; [|auto]. unfold do_break. destruct (in_gap st g); reflexivity.
  - destruct (ext_relist c st g) as [_ [A [B _]]]. simpl rstep_apply. rewrite A, B.
    split; [apply relist_stopped; exact S | auto].
Qed.

Lemma after_error_frozen : forall c steps st, r_errsent st = true -> r_stopped st = true ->
  r_events (fold_left (rstep_apply c) steps st) = r_events st.
Proof.
  intros c steps. induction steps as [|s t IH]; intros st E S; simpl; [reflexivity|].
  destruct (after_error_frozen_step c st s E S) as (A & B & C). rewrite IH; assumption.
Qed.

Lemma at_most_one_error : forall c pre steps,
  count_errors (r_events (run c pre steps)) <= 1 /\
  (r_errsent (run c pre steps) = true ->
     count_errors (r_events (run c pre steps)) = 1 /\ r_stopped (run c pre steps) = true /\
     forall more, r_events (run c pre (steps ++ more)) = r_events (run c pre steps)).
Proof.
  intros c pre steps. pose proof (RInv_run c pre steps) as I. split.
  - destruct (r_errsent (run c pre steps)) eqn:E.
    + destruct (ri_err1 c _ I E) as [A _]. lia.
    + rewrite (ri_err0 c _ I E). lia.
  - intros E. destruct (ri_err1 c _ I E) as [A B]. split; [exact A|]. split; [exact B|].
    intros more. unfold run in *. rewrite fold_left_app. apply after_error_frozen; assumption.
Qed.

Lemma at_most_one_sync : forall c pre steps, count_syncs (r_events (run c pre steps)) <= 1.
Proof.
  intros c pre steps. pose proof (RInv_run c pre steps) as I.
  destruct (r_synced (run c pre steps)) eqn:E.
  - rewrite (ri_sync1 c _ I E). lia.
  - rewrite (ri_sync0 c _ I E). lia.
Qed.

(* exactly one update event per observed mutation *)
Definition plain (id : oid) : Prop := is_ns id = false /\ is_crd id = false.

Lemma covered_set_cluster : forall st cl id, covered (set_cluster st cl) id = covered st id.
Proof. reflexivity. Qed.

Lemma one_event_upsert : forall c st id p m, (m = MAdd id p \/ m = MUpdate id p) ->
  (r_stopped st = false -> allowed c id = true -> covered st id = true -> p_slow p = false ->
     exists extra, r_events (mutate c st m) = r_events st ++ EUpdate id (p_status p) :: extra /\
                   Forall (upd_ok c) extra /\ (plain id -> extra = [])) /\
  ((r_stopped st = true \/ allowed c id = false \/ covered st id = false \/ p_slow p = true) ->
     r_events (mutate c st m) = r_events st).
Proof.
  intros c st id p m Hm.
  assert (Hmut : mutate c st m =
     let st1 := set_cluster st (upsert (r_cluster st) id p) in
     if covered st1 id then handle_upsert c st1 id p else st1) by (destruct Hm; subst; reflexivity).
  rewrite Hmut. simpl. rewrite covered_set_cluster. split.
  - intros S A C W. rewrite C. unfold handle_upsert. simpl. rewrite S, A, W. simpl.
    set (st1 := emit (set_cluster st (upsert (r_cluster st) id p)) [EUpdate id (p_status p)]).
    destruct (is_ns id) eqn:N.
    + destruct (ext_on_ns_upsert c st1 (o_name id)) as [[evs [E F]] _].
      exists evs. rewrite E. subst st1. simpl. rewrite <- app_assoc. simpl. split; [reflexivity|].
      split; [exact F|]. intros [X _]. congruence.
    + destruct (is_crd id) eqn:K.
      * destruct (ext_on_crd_upsert c st1 p) as [[evs [E F]] _].
        exists evs. rewrite E. subst st1. simpl. rewrite <- app_assoc. simpl. split; [reflexivity|].
        split; [exact F|]. intros [_ X]. congruence.
      * exists []. subst st1. simpl. split; [reflexivity|]. split; [constructor | reflexivity].
  - intros [S|[A|[C|W]]].
    + destruct (covered st id); [|reflexivity]. unfold handle_upsert. simpl. rewrite S. reflexivity.
    + destruct (covered st id); [|reflexivity]. unfold handle_upsert. simpl. rewrite A.
      destruct (r_stopped st); reflexivity.
    + rewrite C. reflexivity.
    + destruct (covered st id); [|reflexivity]. unfold handle_upsert. simpl. rewrite W.
      destruct (r_stopped st); [reflexivity|]. destruct (allowed c id); reflexivity.
Qed.

Lemma fold_stop_events : forall l s, r_events (fold_left stop_target l s) = r_events s.
Proof. induction l as [|t l IH]; intros s; simpl; [reflexivity | rewrite IH; reflexivity]. Qed.

Lemma on_ns_delete_events : forall c st n, r_events (on_ns_delete c st n) = r_events st.
Proof. intros c st n. unfold on_ns_delete. destruct (c_scope c); [reflexivity | apply fold_stop_events]. Qed.

Lemma on_crd_delete_events : forall c st p, r_events (on_crd_delete c st p) = r_events st.
Proof.
  intros c st p. unfold on_crd_delete. destruct (p_defines p); [|reflexivity]. simpl. apply fold_stop_events.
Qed.

Lemma one_event_delete : forall c st id p, lookup (r_cluster st) id = Some p ->
  (r_stopped st = false -> allowed c id = true -> covered st id = true ->
     r_events (mutate c st (MDelete id)) = r_events st ++ [EUpdate id SNotFound]) /\
  ((r_stopped st = true \/ allowed c id = false \/ covered st id = false) ->
     r_events (mutate c st (MDelete id)) = r_events st).
Proof.
  intros c st id p L. unfold mutate. rewrite L. rewrite covered_set_cluster. split.
  - intros S A C. rewrite C. unfold handle_delete. simpl. rewrite S, A. simpl.
    destruct (is_ns id); [rewrite on_ns_delete_events; reflexivity|].
    destruct (is_crd id); [rewrite on_crd_delete_events; reflexivity | reflexivity].
  - intros [S|[A|C]].
    + destruct (covered st id); [|reflexivity]. unfold handle_delete. simpl. rewrite S. reflexivity.
    + destruct (covered st id); [|reflexivity]. unfold handle_delete. simpl. rewrite A.
      destruct (r_stopped st); reflexivity.
    + rewrite C. reflexivity.
Qed.

(* ---- the last event about an id reflects its final state -------------------- *)
Fixpoint cl_ok (cl : list (oid * payload)) : Prop :=
  match cl with
  | [] => True
  | (k, _) :: t => lookup t k = None /\ cl_ok t
  end.

Lemma lookup_remove_same : forall cl id, lookup (remove_obj cl id) id = None.
Proof.
  intros cl id. unfold remove_obj. induction cl as [|[k p] t IH]; simpl; [reflexivity|].
  destruct (oid_eqb k id) eqn:E; simpl; [exact IH | rewrite E; exact IH].
Qed.

Lemma lookup_remove_other : forall cl k id, oid_eqb k id = false ->
  lookup (remove_obj cl k) id = lookup cl id.
Proof.
  intros cl k id N. unfold remove_obj. induction cl as [|[k' p] t IH]; simpl; [reflexivity|].
  destruct (oid_eqb k' k) eqn:E; simpl.
  - apply oid_eqb_eq in E. subst k'. rewrite N. exact IH.
  - destruct (oid_eqb k' id); [reflexivity | exact IH].
Qed.

Lemma lookup_remove_none : forall cl k id, lookup cl id = None -> lookup (remove_obj cl k) id = None.
Proof.
  intros cl k id. unfold remove_obj. induction cl as [|[k' p] t IH]; simpl; intros H; [reflexivity|].
  destruct (oid_eqb k' id) eqn:E; [discriminate|].
  destruct (oid_eqb k' k); simpl; [apply IH; exact H | rewrite E; apply IH; exact H].
Qed.

Lemma cl_ok_remove : forall cl k, cl_ok cl -> cl_ok (remove_obj cl k).
Proof.
  intros cl k. unfold remove_obj. induction cl as [|[k' p] t IH]; simpl; intros H; [exact I|].
  destruct H as [H1 H2]. destruct (oid_eqb k' k); simpl; [apply IH; exact H2|].
  split; [apply (lookup_remove_none t k k' H1) | apply IH; exact H2].
Qed.

Lemma cl_ok_upsert : forall cl k p, cl_ok cl -> cl_ok (upsert cl k p).
Proof. intros cl k p H. unfold upsert. simpl. split; [apply lookup_remove_same | apply cl_ok_remove; exact H]. Qed.

Lemma cl_ok_cluster_of : forall pre, cl_ok (cluster_of pre).
Proof.
  intros pre. unfold cluster_of.
  assert (G : forall l cl, cl_ok cl -> cl_ok (fold_left (fun cl kp => upsert cl (fst kp) (snd kp)) l cl)).
  { induction l as [|x t IH]; intros cl H; simpl; [exact H | apply IH; apply cl_ok_upsert; exact H]. }
  apply G. exact I.
Qed.

Lemma In_lookup : forall cl k p, cl_ok cl -> In (k, p) cl -> lookup cl k = Some p.
Proof.
  induction cl as [|[k' p'] t IH]; intros k p H Hin; simpl in *; [tauto|].
  destruct H as [H1 H2]. destruct Hin as [E|Hin].
  - inversion E; subst. rewrite oid_eqb_refl. reflexivity.
  - destruct (oid_eqb k' k) eqn:E.
    + apply oid_eqb_eq in E. subst k'. rewrite (IH k p H2 Hin) in H1. discriminate.
    + apply IH; assumption.
Qed.

Lemma last_for_app : forall id a b,
  last_for id (a ++ b) = match last_for id b with Some s => Some s | None => last_for id a end.
Proof.
  intros id a b. induction a as [|e t IH]; simpl.
  - destruct (last_for id b); reflexivity.
  - rewrite IH. destruct (last_for id b); reflexivity.
Qed.

(* every event about [id] in [evs] carries status [s] *)
Definition about (id : oid) (evs : list event) (s : status) : Prop :=
  forall k s', In (EUpdate k s') evs -> oid_eqb k id = true -> s' = s.

Lemma about_last : forall id evs s, about id evs s -> last_for id evs = Some s \/ last_for id evs = None.
Proof.
  intros id evs s. induction evs as [|e t IH]; intros A; simpl; [right; reflexivity|].
  assert (At : about id t s) by (intros k s' H; apply A; right; exact H).
  destruct (IH At) as [H|H]; rewrite H; [left; reflexivity|].
  destruct e as [|k s'|]; try (right; reflexivity).
  destruct (oid_eqb k id) eqn:E; [|right; reflexivity].
  left. f_equal. apply (A k s'); [left; reflexivity | exact E].
Qed.

Lemma about_app : forall id a b s, about id a s -> about id b s -> about id (a ++ b) s.
Proof. intros id a b s A B k s' H. apply in_app_or in H. destruct H; [eapply A | eapply B]; eauto. Qed.

Lemma about_nil : forall id s, about id [] s.
Proof. intros id s k s' []. Qed.

(* functions that leave the cluster alone and only add events consistent with it *)
Definition keeps (id : oid) (st st' : rstate) : Prop :=
  r_cluster st' = r_cluster st /\
  (cl_ok (r_cluster st) -> exists evs, r_events st' = r_events st ++ evs /\ about id evs (final_status st id)).

Lemma keeps_refl : forall id st, keeps id st st.
Proof. intros id st. split; [reflexivity|]. intros _. exists []. rewrite app_nil_r. split; [reflexivity | apply about_nil]. Qed.

Lemma final_status_cluster : forall st st' id, r_cluster st' = r_cluster st -> final_status st' id = final_status st id.
Proof. intros st st' id H. unfold final_status. rewrite H. reflexivity. Qed.

Lemma keeps_trans : forall id a b d, keeps id a b -> keeps id b d -> keeps id a d.
Proof.
  intros id a b d [C1 H1] [C2 H2]. split; [congruence|]. intros K.
  destruct (H1 K) as [e1 [E1 A1]]. rewrite <- C1 in K. destruct (H2 K) as [e2 [E2 A2]].
  exists (e1 ++ e2). split; [rewrite E2, E1, app_assoc; reflexivity|].
  apply about_app; [exact A1|]. rewrite (final_status_cluster a b id C1) in A2. exact A2.
Qed.

Lemma keeps_fold : forall id A (f : rstate -> A -> rstate) l,
  (forall s x, keeps id s (f s x)) -> forall st, keeps id st (fold_left f l st).
Proof.
  intros id A f l H. induction l as [|x t IH]; intros st; simpl; [apply keeps_refl|].
  eapply keeps_trans; [apply H | apply IH].
Qed.

Lemma keeps_silent : forall id st st', r_cluster st' = r_cluster st -> r_events st' = r_events st -> keeps id st st'.
Proof.
  intros id st st' C E. split; [exact C|]. intros _. exists []. rewrite app_nil_r. split; [exact E | apply about_nil].
Qed.

Lemma about_list_events : forall c st t id, cl_ok (r_cluster st) ->
  about id (list_events c st t) (final_status st id).
Proof.
  intros c st t id K k s' H E. unfold list_events in H. apply in_flat_map in H.
  destruct H as [[k0 p0] [Hin H]]. simpl in H.
  destruct (covers t k0 && allowed c k0 && negb (p_slow p0)); [|destruct H].
  destruct H as [H|[]]. inversion H; subst. apply oid_eqb_eq in E. subst.
  unfold final_status. rewrite (In_lookup _ _ _ K Hin). reflexivity.
Qed.

Lemma keeps_start_leaf : forall c id st t, keeps id st (start_leaf c st t).
Proof.
  intros c id st t. unfold start_leaf.
  destruct (tmem t (r_started st)); [apply keeps_refl|].
  destruct (negb (existsb (Nat.eqb (t_gk t)) (r_mapper st))); [apply keeps_refl|].
  simpl. destruct (r_stopped st); [apply keeps_silent; reflexivity|].
  split; [reflexivity|]. intros K. eexists. split; [reflexivity|].
  apply (about_list_events c (set_started st (r_started st ++ [t])) t id K).
Qed.

Lemma keeps_stop_target : forall id st t, keeps id st (stop_target st t).
Proof. intros. apply keeps_silent; reflexivity. Qed.

Lemma keeps_on_ns_upsert : forall c id st n, keeps id st (on_ns_upsert c st n).
Proof.
  intros c id st n. unfold on_ns_upsert. destruct (c_scope c); [apply keeps_refl|].
  apply (keeps_fold id _ (start_leaf c)); intros; apply keeps_start_leaf.
Qed.

Lemma keeps_on_ns_delete : forall c id st n, keeps id st (on_ns_delete c st n).
Proof.
  intros c id st n. unfold on_ns_delete. destruct (c_scope c); [apply keeps_refl|].
  apply (keeps_fold id _ stop_target); intros; apply keeps_stop_target.
Qed.

Lemma keeps_on_crd_upsert : forall c id st p, keeps id st (on_crd_upsert c st p).
Proof.
  intros c id st p. unfold on_crd_upsert. destruct (p_defines p); [|apply keeps_refl].
  apply (keeps_trans id st (reset_mapper c st)); [apply keeps_silent; reflexivity|].
  apply (keeps_fold id _ (start_leaf c)); intros; apply keeps_start_leaf.
Qed.

Lemma keeps_on_crd_delete : forall c id st p, keeps id st (on_crd_delete c st p).
Proof.
  intros c id st p. unfold on_crd_delete. destruct (p_defines p); [|apply keeps_refl].
  eapply keeps_trans; [apply (keeps_fold id _ stop_target); intros; apply keeps_stop_target|].
  apply keeps_silent; reflexivity.
Qed.

(* a handler call whose own event agrees with the cluster *)
Lemma keeps_handle_upsert : forall c id st k p,
  (oid_eqb k id = true -> final_status st id = p_status p) -> keeps id st (handle_upsert c st k p).
Proof.
  intros c id st k p Hk. unfold handle_upsert.
  destruct (r_stopped st); [apply keeps_refl|].
  destruct (allowed c k); simpl; [|apply keeps_refl].
  destruct (p_slow p); [apply keeps_refl|].
  apply (keeps_trans id st (emit st [EUpdate k (p_status p)])).
  - split; [reflexivity|]. intros _. eexists. split; [reflexivity|].
    intros k' s' [H|[]] E. inversion H; subst. symmetry. apply Hk. exact E.
  - destruct (is_ns k); [apply keeps_on_ns_upsert|].
    destruct (is_crd k); [apply keeps_on_crd_upsert | apply keeps_refl].
Qed.

Lemma keeps_handle_delete : forall c id st k p,
  (oid_eqb k id = true -> final_status st id = SNotFound) -> keeps id st (handle_delete c st k p).
Proof.
  intros c id st k p Hk. unfold handle_delete.
  destruct (r_stopped st); [apply keeps_refl|].
  destruct (allowed c k); simpl; [|apply keeps_refl].
  set (st1 := if is_ns k then on_ns_delete c st (o_name k) else if is_crd k then on_crd_delete c st p else st).
  assert (K1 : keeps id st st1).
  { subst st1. destruct (is_ns k); [apply keeps_on_ns_delete|].
    destruct (is_crd k); [apply keeps_on_crd_delete | apply keeps_refl]. }
  apply (keeps_trans id st st1); [exact K1|].
  split; [reflexivity|]. intros _. eexists. split; [reflexivity|].
  intros k' s' [H|[]] E. inversion H; subst.
  rewrite (final_status_cluster st st1 id (proj1 K1)). symmetry. apply Hk. exact E.
Qed.

(* the handlers never change the cluster *)
Lemma cluster_fold : forall A (f : rstate -> A -> rstate) l,
  (forall s x, r_cluster (f s x) = r_cluster s) -> forall st, r_cluster (fold_left f l st) = r_cluster st.
Proof.
  intros A f l H. induction l as [|x t IH]; intros st; simpl; [reflexivity|]. rewrite IH. apply H.
Qed.

Lemma cluster_handle_upsert : forall c st k p, r_cluster (handle_upsert c st k p) = r_cluster st.
Proof.
  intros c st k p. unfold handle_upsert.
  destruct (r_stopped st); [reflexivity|]. destruct (allowed c k); simpl; [|reflexivity].
  destruct (p_slow p); [reflexivity|].
  destruct (is_ns k); [exact (proj1 (keeps_on_ns_upsert c k _ _))|].
  destruct (is_crd k); [exact (proj1 (keeps_on_crd_upsert c k _ _)) | reflexivity].
Qed.

Lemma cluster_start : forall c cl, r_cluster (start c cl) = cl.
Proof.
  intros c cl. unfold start. rewrite cluster_fold; [reflexivity|].
  intros s t. unfold start_top.
  destruct (tmem t (r_started s)); [reflexivity|].
  destruct (negb (existsb (Nat.eqb (t_gk t)) (r_mapper s))); [reflexivity|].
  rewrite cluster_fold; [reflexivity|].
  intros s0 kp. destruct (covers t (fst kp)); [apply cluster_handle_upsert | reflexivity].
Qed.

Lemma cluster_handle_delete : forall c st k p, r_cluster (handle_delete c st k p) = r_cluster st.
Proof.
  intros c st k p. unfold handle_delete.
  destruct (r_stopped st); [reflexivity|]. destruct (allowed c k); simpl; [|reflexivity].
  destruct (is_ns k); [exact (proj1 (keeps_on_ns_delete c k _ _))|].
  destruct (is_crd k); [exact (proj1 (keeps_on_crd_delete c k _ _)) | reflexivity].
Qed.

Lemma cluster_mutate : forall c st m,
  r_cluster (mutate c st m) =
  match m with
  | MAdd id p | MUpdate id p => upsert (r_cluster st) id p
  | MDelete id => match lookup (r_cluster st) id with
                  | Some _ => remove_obj (r_cluster st) id
                  | None => r_cluster st
                  end
  end.
Proof.
  intros c st m. unfold mutate. destruct m as [id p|id p|id].
  - destruct (covered _ id); [rewrite cluster_handle_upsert|]; reflexivity.
  - destruct (covered _ id); [rewrite cluster_handle_upsert|]; reflexivity.
  - destruct (lookup (r_cluster st) id); [|reflexivity].
    destruct (covered _ id); [rewrite cluster_handle_delete|]; reflexivity.
Qed.

Lemma cluster_mutate_gap : forall st m,
  r_cluster (mutate_gap st m) =
  match m with
  | MAdd id p | MUpdate id p => upsert (r_cluster st) id p
  | MDelete id => match lookup (r_cluster st) id with
                  | Some _ => remove_obj (r_cluster st) id
                  | None => r_cluster st
                  end
  end.
Proof.
  intros st m. unfold mutate_gap. destruct m as [id p|id p|id]; simpl; try reflexivity.
  destruct (lookup (r_cluster st) id); reflexivity.
Qed.

Lemma cluster_step_mut : forall c st m,
  r_cluster (rstep_apply c st (SMut m)) =
  match m with
  | MAdd id p | MUpdate id p => upsert (r_cluster st) id p
  | MDelete id => match lookup (r_cluster st) id with
                  | Some _ => remove_obj (r_cluster st) id
                  | None => r_cluster st
                  end
  end.
Proof.
  intros c st m. simpl. destruct (in_gap st (o_gk (mut_id_of m))); [apply cluster_mutate_gap | apply cluster_mutate].
Qed.

Lemma cluster_relist : forall c st g, r_cluster (do_relist c st g) = r_cluster st.
Proof.
  intros c st g. unfold do_relist. destruct (gap_of (r_gaps st) g) as [l|]; [|reflexivity].
  rewrite cluster_fold.
  - rewrite cluster_fold; [reflexivity|]. intros s x. unfold relist_upsert.
    destruct (lookup (r_cluster s) (fst x)); [|reflexivity].
    destruct (covered s (fst x)); [apply cluster_handle_upsert | reflexivity].
  - intros s x. unfold relist_delete. destruct (lookup (r_cluster s) (fst x)); [reflexivity|].
    destruct (snd x); [|reflexivity]. destruct (covered s (fst x)); [apply cluster_handle_delete | reflexivity].
Qed.

Lemma cluster_break : forall st g, r_cluster (do_break st g) = r_cluster st.
Proof. intros st g. unfold do_break. destruct (in_gap st g); reflexivity. Qed.

Lemma cl_ok_step : forall c st s, cl_ok (r_cluster st) -> cl_ok (r_cluster (rstep_apply c st s)).
Proof.
  intros c st s K. destruct s.
  - rewrite cluster_step_mut. destruct m as [id p|id p|id]; try (apply cl_ok_upsert; exact K).
    destruct (lookup (r_cluster st) id); [apply cl_ok_remove|]; exact K.
  - simpl. unfold do_sync. destruct (r_stopped st || r_synced st); exact K.
  - exact K.
  - simpl. unfold handle_fatal. destruct (r_errsent st); exact K.
  - simpl. rewrite cluster_break. exact K.
  - simpl. rewrite cluster_relist. exact K.
Qed.

Lemma cl_ok_run : forall c pre steps, cl_ok (r_cluster (run c pre steps)).
Proof.
  intros c pre steps. unfold run.
  assert (H : cl_ok (r_cluster (start c (cluster_of pre)))) by (rewrite cluster_start; apply cl_ok_cluster_of).
  revert H. generalize (start c (cluster_of pre)). induction steps as [|s t IH]; intros st H; simpl; [exact H|].
  apply IH. apply cl_ok_step. exact H.
Qed.

(* [J]: the last event about [id] is its state in the cluster *)
Definition settled (id : oid) (st : rstate) : Prop :=
  last_for id (r_events st) = Some (final_status st id).

Lemma settled_keeps : forall id st st', cl_ok (r_cluster st) -> settled id st -> keeps id st st' -> settled id st'.
Proof.
  intros id st st' K J [C H]. destruct (H K) as [evs [E A]]. unfold settled in *.
  rewrite E, last_for_app, (final_status_cluster st st' id C).
  destruct (about_last id evs _ A) as [X|X]; rewrite X; [reflexivity | exact J].
Qed.

Lemma lookup_upsert_other : forall cl k p id, oid_eqb k id = false -> lookup (upsert cl k p) id = lookup cl id.
Proof. intros cl k p id N. unfold upsert. simpl. rewrite N. apply lookup_remove_other. exact N. Qed.

Lemma lookup_upsert_same : forall cl k p, lookup (upsert cl k p) k = Some p.
Proof. intros cl k p. unfold upsert. simpl. rewrite oid_eqb_refl. reflexivity. Qed.

(* a mutation of another object keeps [id] settled *)
Lemma settled_other_mutation : forall c id st m, cl_ok (r_cluster st) -> oid_eqb (mut_id m) id = false ->
  settled id st -> settled id (mutate c st m).
Proof.
  intros c id st m K N J. unfold mutate. destruct m as [k p|k p|k]; simpl in N.
  - set (st1 := set_cluster st (upsert (r_cluster st) k p)).
    assert (J1 : settled id st1).
    { subst st1. unfold settled, final_status in *. simpl. rewrite N, lookup_remove_other by exact N. exact J. }
    assert (K1 : cl_ok (r_cluster st1)) by (subst st1; exact (cl_ok_upsert _ _ _ K)).
    destruct (covered st1 k); [|exact J1].
    apply (settled_keeps id st1 _ K1 J1). apply keeps_handle_upsert. intros E. congruence.
  - set (st1 := set_cluster st (upsert (r_cluster st) k p)).
    assert (J1 : settled id st1).
    { subst st1. unfold settled, final_status in *. simpl. rewrite N, lookup_remove_other by exact N. exact J. }
    assert (K1 : cl_ok (r_cluster st1)) by (subst st1; exact (cl_ok_upsert _ _ _ K)).
    destruct (covered st1 k); [|exact J1].
    apply (settled_keeps id st1 _ K1 J1). apply keeps_handle_upsert. intros E. congruence.
  - destruct (lookup (r_cluster st) k) as [p|]; [|exact J].
    set (st1 := set_cluster st (remove_obj (r_cluster st) k)).
    assert (J1 : settled id st1).
    { subst st1. unfold settled, final_status in *. simpl. rewrite lookup_remove_other by exact N. exact J. }
    assert (K1 : cl_ok (r_cluster st1)) by (subst st1; exact (cl_ok_remove _ _ K)).
    destruct (covered st1 k); [|exact J1].
    apply (settled_keeps id st1 _ K1 J1). apply keeps_handle_delete. intros E. congruence.
Qed.

Definition not_about (id : oid) (s : rstep) : Prop :=
  match s with SMut m => oid_eqb (mut_id m) id = false | _ => True end.

Lemma keeps_relist : forall c id st g, keeps id st (do_relist c st g).
Proof.
  intros c id st g. unfold do_relist. destruct (gap_of (r_gaps st) g) as [l|]; [|apply keeps_refl].
  eapply keeps_trans; [apply keeps_silent with (st' := set_gaps st (filter (fun e => negb (Nat.eqb (fst e) g)) (r_gaps st))); reflexivity|].
  eapply keeps_trans.
  - apply (keeps_fold id _ (relist_upsert c)). intros s x. unfold relist_upsert.
    destruct (lookup (r_cluster s) (fst x)) as [p|] eqn:L; [|apply keeps_refl].
    destruct (covered s (fst x)); [|apply keeps_refl].
    apply keeps_handle_upsert. intros E. apply oid_eqb_eq in E. subst id.
    unfold final_status. rewrite L. reflexivity.
  - apply (keeps_fold id _ (relist_delete c)). intros s x. unfold relist_delete.
    destruct (lookup (r_cluster s) (fst x)) as [p|] eqn:L; [apply keeps_refl|].
    destruct (snd x); [|apply keeps_refl]. destruct (covered s (fst x)); [|apply keeps_refl].
    apply keeps_handle_delete. intros E. apply oid_eqb_eq in E. subst id.
    unfold final_status. rewrite L. reflexivity.
Qed.

Lemma settled_gap_mutation : forall id st m, oid_eqb (mut_id m) id = false ->
  settled id st -> settled id (mutate_gap st m).
Proof.
  intros id st m N J. unfold settled, final_status in *. rewrite cluster_mutate_gap.
  assert (E : r_events (mutate_gap st m) = r_events st).
  { unfold mutate_gap. destruct m as [k p|k p|k]; simpl; try reflexivity.
    destruct (lookup (r_cluster st) k); reflexivity. }
  rewrite E. destruct m as [k p|k p|k]; simpl in N.
  - rewrite lookup_upsert_other by exact N. exact J.
  - rewrite lookup_upsert_other by exact N. exact J.
  - destruct (lookup (r_cluster st) k); [rewrite lookup_remove_other by exact N|]; exact J.
Qed.

Lemma settled_step : forall c id st s, cl_ok (r_cluster st) -> not_about id s ->
  settled id st -> settled id (rstep_apply c st s).
Proof.
  intros c id st s K N J. destruct s; try (simpl in *; fail).
  6:{ simpl. apply (settled_keeps id st _ K J). apply keeps_relist. }
  5:{ simpl. unfold do_break. destruct (in_gap st g); exact J. }
  all: simpl in *.
  - destruct (in_gap st (o_gk (mut_id_of m))); [apply settled_gap_mutation | apply settled_other_mutation]; assumption.
  - unfold do_sync. destruct (r_stopped st || r_synced st); [exact J|].
    unfold settled, final_status in *. simpl. rewrite last_for_app. simpl. exact J.
  - exact J.
  - unfold handle_fatal. destruct (r_errsent st); [exact J|].
    unfold settled, final_status in *. simpl. rewrite last_for_app. simpl. exact J.
Qed.

Lemma settled_steps : forall c id steps st, cl_ok (r_cluster st) -> Forall (not_about id) steps ->
  settled id st -> settled id (fold_left (rstep_apply c) steps st).
Proof.
  intros c id steps. induction steps as [|s t IH]; intros st K F J; simpl; [exact J|].
  inversion F; subst. apply IH; [apply cl_ok_step; exact K | assumption | apply settled_step; assumption].
Qed.

(* an observed mutation of [id] settles it *)
Lemma settled_observed : forall c st m, cl_ok (r_cluster st) ->
  r_stopped st = false -> allowed c (mut_id m) = true -> covered st (mut_id m) = true ->
  (forall id, m = MDelete id -> lookup (r_cluster st) id <> None) ->
  (forall id p, m = MAdd id p \/ m = MUpdate id p -> p_slow p = false) ->
  settled (mut_id m) (mutate c st m).
Proof.
  intros c st m K S A C D W. unfold mutate. destruct m as [id p|id p|id]; simpl in *.
  - rewrite covered_set_cluster, C. unfold handle_upsert. simpl. rewrite S, A, (W id p (or_introl eq_refl)). simpl.
    set (st1 := emit (set_cluster st (upsert (r_cluster st) id p)) [EUpdate id (p_status p)]).
    assert (J1 : settled id st1).
    { unfold settled, final_status. subst st1. simpl. rewrite last_for_app. simpl.
      rewrite !oid_eqb_refl. reflexivity. }
    assert (K1 : cl_ok (r_cluster st1)) by (subst st1; exact (cl_ok_upsert _ _ _ K)).
    destruct (is_ns id); [apply (settled_keeps id st1 _ K1 J1); apply keeps_on_ns_upsert|].
    destruct (is_crd id); [apply (settled_keeps id st1 _ K1 J1); apply keeps_on_crd_upsert | exact J1].
  - rewrite covered_set_cluster, C. unfold handle_upsert. simpl. rewrite S, A, (W id p (or_intror eq_refl)). simpl.
    set (st1 := emit (set_cluster st (upsert (r_cluster st) id p)) [EUpdate id (p_status p)]).
    assert (J1 : settled id st1).
    { unfold settled, final_status. subst st1. simpl. rewrite last_for_app. simpl.
      rewrite !oid_eqb_refl. reflexivity. }
    assert (K1 : cl_ok (r_cluster st1)) by (subst st1; exact (cl_ok_upsert _ _ _ K)).
    destruct (is_ns id); [apply (settled_keeps id st1 _ K1 J1); apply keeps_on_ns_upsert|].
    destruct (is_crd id); [apply (settled_keeps id st1 _ K1 J1); apply keeps_on_crd_upsert | exact J1].
  - destruct (lookup (r_cluster st) id) as [p|] eqn:L; [|exfalso; exact (D id eq_refl L)].
    rewrite covered_set_cluster, C. unfold handle_delete. simpl. rewrite S, A. simpl.
    unfold settled, final_status. simpl. rewrite last_for_app. simpl. rewrite oid_eqb_refl.
    assert (X : forall s, r_cluster s = remove_obj (r_cluster st) id -> lookup (r_cluster s) id = None)
      by (intros s E; rewrite E; apply lookup_remove_same).
    destruct (is_ns id); [rewrite X; [reflexivity | exact (proj1 (keeps_on_ns_delete c id _ _))]|].
    destruct (is_crd id); [rewrite X; [reflexivity | exact (proj1 (keeps_on_crd_delete c id _ _))]|].
    rewrite X; reflexivity.
Qed.

Lemma last_event_final : forall c pre steps1 m steps2,
  let st1 := run c pre steps1 in
  r_stopped st1 = false -> allowed c (mut_id m) = true -> covered st1 (mut_id m) = true ->
  (forall id, m = MDelete id -> lookup (r_cluster st1) id <> None) ->
  (forall id p, m = MAdd id p \/ m = MUpdate id p -> p_slow p = false) ->
  in_gap st1 (o_gk (mut_id m)) = false ->
  Forall (not_about (mut_id m)) steps2 ->
  let st := run c pre (steps1 ++ SMut m :: steps2) in
  last_for (mut_id m) (r_events st) = Some (final_status st (mut_id m)).
Proof.
  intros c pre steps1 m steps2 st1 S A C D W G F st. subst st. unfold run.
  rewrite fold_left_app.
  change (settled (mut_id m) (fold_left (rstep_apply c) steps2 (rstep_apply c st1 (SMut m)))).
  assert (K1 : cl_ok (r_cluster st1)) by apply (cl_ok_run c pre steps1).
  apply settled_steps; [apply cl_ok_step; exact K1 | exact F |].
  assert (E : rstep_apply c st1 (SMut m) = mutate c st1 m)
    by (simpl; unfold mut_id in G; rewrite G; reflexivity).
  rewrite E. apply settled_observed; assumption.
Qed.

(* ---- watch gaps: the re-list reports the final state --------------------------- *)
Lemma gap_mutation_deferred : forall c st m, in_gap st (o_gk (mut_id m)) = true ->
  r_events (rstep_apply c st (SMut m)) = r_events st.
Proof.
  intros c st m G. simpl. unfold mut_id in G. rewrite G. unfold mutate_gap.
  destruct m as [id p|id p|id]; simpl; try reflexivity. destruct (lookup (r_cluster st) id); reflexivity.
Qed.

(* frame of a re-list over objects of a plain kind: nothing but events changes *)
Definition same_frame (st s : rstate) : Prop :=
  r_cluster s = r_cluster st /\ r_started s = r_started st /\ r_stopped s = r_stopped st.

Lemma started_plain_upsert : forall c s k p, is_ns k = false -> is_crd k = false ->
  r_started (handle_upsert c s k p) = r_started s.
Proof.
  intros c s k p N K. unfold handle_upsert. rewrite N, K.
  destruct (r_stopped s); [reflexivity|]. destruct (allowed c k); simpl; [|reflexivity].
  destruct (p_slow p); reflexivity.
Qed.

Lemma started_plain_delete : forall c s k p, is_ns k = false -> is_crd k = false ->
  r_started (handle_delete c s k p) = r_started s.
Proof.
  intros c s k p N K. unfold handle_delete. rewrite N, K.
  destruct (r_stopped s); [reflexivity|]. destruct (allowed c k); reflexivity.
Qed.

Lemma frame_relist_upsert : forall c st s e, is_ns (fst e) = false -> is_crd (fst e) = false ->
  same_frame st s -> same_frame st (relist_upsert c s e).
Proof.
  intros c st s e N K [A [B C]]. unfold relist_upsert.
  destruct (lookup (r_cluster s) (fst e)); [|repeat split; assumption].
  destruct (covered s (fst e)); [|repeat split; assumption].
  split; [rewrite cluster_handle_upsert; exact A|].
  split; [rewrite started_plain_upsert by assumption; exact B|].
  destruct (ext_handle_upsert c s (fst e) p) as [_ [_ [X _]]]. rewrite X. exact C.
Qed.

Lemma frame_relist_delete : forall c st s e, is_ns (fst e) = false -> is_crd (fst e) = false ->
  same_frame st s -> same_frame st (relist_delete c s e).
Proof.
  intros c st s e N K [A [B C]]. unfold relist_delete.
  destruct (lookup (r_cluster s) (fst e)); [repeat split; assumption|].
  destruct (snd e) as [o|]; [|repeat split; assumption].
  destruct (covered s (fst e)); [|repeat split; assumption].
  split; [rewrite cluster_handle_delete; exact A|].
  split; [rewrite started_plain_delete by assumption; exact B|].
  destruct (ext_handle_delete c s (fst e) o) as [_ [_ [X _]]]. rewrite X. exact C.
Qed.

Lemma covered_frame : forall st s id, same_frame st s -> covered s id = covered st id.
Proof. intros st s id [_ [B _]]. unfold covered. rewrite B. reflexivity. Qed.

Lemma keeps_relist_upsert : forall c id s e, keeps id s (relist_upsert c s e).
Proof.
  intros c id s x. unfold relist_upsert.
  destruct (lookup (r_cluster s) (fst x)) as [p|] eqn:L; [|apply keeps_refl].
  destruct (covered s (fst x)); [|apply keeps_refl].
  apply keeps_handle_upsert. intros E. apply oid_eqb_eq in E. subst id.
  unfold final_status. rewrite L. reflexivity.
Qed.

Lemma keeps_relist_delete : forall c id s e, keeps id s (relist_delete c s e).
Proof.
  intros c id s x. unfold relist_delete.
  destruct (lookup (r_cluster s) (fst x)) as [p|] eqn:L; [apply keeps_refl|].
  destruct (snd x); [|apply keeps_refl]. destruct (covered s (fst x)); [|apply keeps_refl].
  apply keeps_handle_delete. intros E. apply oid_eqb_eq in E. subst id.
  unfold final_status. rewrite L. reflexivity.
Qed.

Lemma fold_keeps_settled : forall (f : rstate -> oid * option payload -> rstate) id st l,
  (forall s e, keeps id s (f s e)) ->
  (forall s e, In e l -> same_frame st s -> same_frame st (f s e)) ->
  cl_ok (r_cluster st) ->
  forall s, same_frame st s -> settled id s -> settled id (fold_left f l s) /\ same_frame st (fold_left f l s).
Proof.
  intros f id st l Hk Hf K. induction l as [|x t IH]; intros s Fs J; simpl; [split; assumption|].
  apply IH.
  - intros s0 e0 H0. apply Hf. right. exact H0.
  - apply Hf; [left; reflexivity | exact Fs].
  - apply (settled_keeps id s); [destruct Fs as [A _]; rewrite A; exact K | exact J | apply Hk].
Qed.

(* a fold whose steps keep [id] consistent and the frame fixed: once some entry
   settles [id], it stays settled *)
Lemma fold_settles : forall (f : rstate -> oid * option payload -> rstate) id st l,
  (forall s e, keeps id s (f s e)) ->
  (forall s e, In e l -> same_frame st s -> same_frame st (f s e)) ->
  (exists e, In e l /\ forall s, same_frame st s -> settled id (f s e)) ->
  cl_ok (r_cluster st) ->
  forall s, same_frame st s -> settled id (fold_left f l s).
Proof.
  intros f id st l Hk. induction l as [|x t IH]; intros Hf [e [Hin He]] K s Fs; [destruct Hin|].
  simpl.
  assert (Fx : same_frame st (f s x)) by (apply Hf; [left; reflexivity | exact Fs]).
  assert (Hft : forall s0 e0, In e0 t -> same_frame st s0 -> same_frame st (f s0 e0))
    by (intros s0 e0 H0; apply Hf; right; exact H0).
  destruct Hin as [<-|Hin].
  - apply (fold_keeps_settled f id st t Hk Hft K); [exact Fx | apply He; exact Fs].
  - apply IH; [exact Hft | exists e; split; [exact Hin | exact He] | exact K | exact Fx].
Qed.

Lemma fold_frame : forall (f : rstate -> oid * option payload -> rstate) st l,
  (forall s e, In e l -> same_frame st s -> same_frame st (f s e)) ->
  forall s, same_frame st s -> same_frame st (fold_left f l s).
Proof.
  intros f st l Hf. induction l as [|x t IH]; intros s Fs; simpl; [exact Fs|].
  apply IH; [intros s0 e0 H0; apply Hf; right; exact H0 | apply Hf; [left; reflexivity | exact Fs]].
Qed.

Lemma lookup_In : forall cl id p, lookup cl id = Some p -> In (id, p) cl.
Proof.
  induction cl as [|[k q] t IH]; intros id p H; simpl in *; [discriminate|].
  destruct (oid_eqb k id) eqn:E.
  - apply oid_eqb_eq in E. inversion H; subst. left. reflexivity.
  - right. apply IH. exact H.
Qed.

(* The re-list after a gap on a plain kind [g] reports the FINAL state of every
   watched object of that kind that exists, and NotFound for every object that
   was known at the break and is gone. *)
Lemma relist_final_state : forall c st g l id,
  cl_ok (r_cluster st) -> g <> GK_NS -> g <> GK_CRD ->
  gap_of (r_gaps st) g = Some l -> o_gk id = g ->
  r_stopped st = false -> allowed c id = true -> covered st id = true ->
  match lookup (r_cluster st) id with
  | Some p => p_slow p = false                 (* the final version's status read returns *)
  | None => exists o, In (id, Some o) l        (* it changed in the gap and was in the store *)
  end ->
  settled id (do_relist c st g).
Proof.
  intros c st g l id K Gn Gc Hg Hk S A C Hfin.
  unfold do_relist. rewrite Hg.
  set (st0 := set_gaps st (filter (fun e => negb (Nat.eqb (fst e) g)) (r_gaps st))).
  set (l' := filter (fun e => Nat.eqb (o_gk (fst e)) g) l).
  set (listed := map (fun kp : oid * payload => (fst kp, @None payload))
                     (filter (fun kp => Nat.eqb (o_gk (fst kp)) g) (r_cluster st))).
  assert (F0 : same_frame st st0) by (repeat split).
  assert (PlainK : forall k : oid, o_gk k = g -> is_ns k = false /\ is_crd k = false).
  { intros k Hg'. unfold is_ns, is_crd. rewrite Hg'. split; apply Nat.eqb_neq; assumption. }
  assert (Plain1 : forall e, In e listed -> is_ns (fst e) = false /\ is_crd (fst e) = false).
  { intros e He. unfold listed in He. apply in_map_iff in He. destruct He as [kp [<- He]].
    apply filter_In in He. destruct He as [_ He]. apply Nat.eqb_eq in He. simpl. apply PlainK. exact He. }
  assert (Plain2 : forall e, In e l' -> is_ns (fst e) = false /\ is_crd (fst e) = false).
  { intros e He. unfold l' in He. apply filter_In in He. destruct He as [_ He]. apply Nat.eqb_eq in He.
    apply PlainK. exact He. }
  assert (Fu : forall s e, In e listed -> same_frame st s -> same_frame st (relist_upsert c s e)).
  { intros s e He Fs. destruct (Plain1 e He). apply frame_relist_upsert; assumption. }
  assert (Fd : forall s e, In e l' -> same_frame st s -> same_frame st (relist_delete c s e)).
  { intros s e He Fs. destruct (Plain2 e He). apply frame_relist_delete; assumption. }
  destruct (PlainK id Hk) as [Nid Cid].
  destruct (lookup (r_cluster st) id) as [p|] eqn:L.
  - (* exists at the re-list: settled in the first pass, kept by the second *)
    assert (Hin1 : In (id, @None payload) listed).
    { unfold listed. apply in_map_iff. exists (id, p). split; [reflexivity|].
      apply filter_In. split; [apply lookup_In; exact L|]. simpl. rewrite Hk. apply Nat.eqb_refl. }
    assert (J1 : settled id (fold_left (relist_upsert c) listed st0)).
    { apply (fold_settles (relist_upsert c) id st listed); try assumption.
      - intros; apply keeps_relist_upsert.
      - exists (id, None). split; [exact Hin1|]. intros s Fs.
        unfold relist_upsert. simpl. destruct Fs as [Fa [Fb Fc]].
        rewrite Fa, L. unfold covered. rewrite Fb. fold (covered st id). rewrite C.
        unfold handle_upsert. rewrite Fc, S, A, Hfin, Nid, Cid. simpl.
        unfold settled, final_status. simpl. rewrite last_for_app. simpl.
        rewrite oid_eqb_refl, Fa, L. reflexivity. }
    apply (fold_keeps_settled (relist_delete c) id st l'); try assumption.
    + intros; apply keeps_relist_delete.
    + apply fold_frame; assumption.
  - (* gone: the tombstone of the second pass reports NotFound *)
    destruct Hfin as [o Hin].
    assert (Hin' : In (id, Some o) l').
    { unfold l'. apply filter_In. split; [exact Hin|]. simpl. rewrite Hk. apply Nat.eqb_refl. }
    apply (fold_settles (relist_delete c) id st l'); try assumption.
    + intros; apply keeps_relist_delete.
    + exists (id, Some o). split; [exact Hin'|]. intros s Fs.
      unfold relist_delete. simpl. destruct Fs as [Fa [Fb Fc]].
      rewrite Fa, L. unfold covered. rewrite Fb. fold (covered st id). rewrite C.
      unfold handle_delete. rewrite Fc, S, A, Nid, Cid. simpl.
      unfold settled, final_status. simpl. rewrite last_for_app. simpl.
      rewrite oid_eqb_refl, Fa, L. reflexivity.
    + apply fold_frame; assumption.
Qed.

(* a mutation inside a gap is recorded for the re-list *)
Lemma gap_of_touch : forall gaps g id old,
  (exists l, gap_of gaps g = Some l) ->
  exists l o, gap_of (touch gaps g id old) g = Some l /\ In (id, o) l.
Proof.
  induction gaps as [|[k l0] t IH]; intros g id old [l H]; simpl in *; [discriminate|].
  destruct (Nat.eqb k g) eqn:E; simpl; rewrite E.
  - destruct (existsb (fun x => oid_eqb (fst x) id) l0) eqn:X.
    + apply existsb_exists in X. destruct X as [[k1 o1] [Hin Hk]]. simpl in Hk. apply oid_eqb_eq in Hk. subst k1.
      exists l0, o1. split; [reflexivity | exact Hin].
    + exists (l0 ++ [(id, old)]), old. split; [reflexivity | apply in_or_app; right; left; reflexivity].
  - apply IH. exists l. exact H.
Qed.

Lemma in_gap_gap_of : forall gaps g, existsb (fun e => Nat.eqb (fst e) g) gaps = true ->
  exists l : list (oid * option payload), gap_of gaps g = Some l.
Proof.
  induction gaps as [|[k l0] t IH]; intros g H; simpl in *; [discriminate|].
  destruct (Nat.eqb k g); [exists l0; reflexivity | apply IH; exact H].
Qed.

Lemma gap_mutation_recorded : forall c st m, in_gap st (o_gk (mut_id m)) = true ->
  (forall id, m = MDelete id -> lookup (r_cluster st) id <> None) ->
  exists l o, gap_of (r_gaps (rstep_apply c st (SMut m))) (o_gk (mut_id m)) = Some l /\ In (mut_id m, o) l.
Proof.
  intros c st m G D. simpl. unfold mut_id in *. rewrite G. unfold mutate_gap.
  pose proof (in_gap_gap_of _ _ G) as Hl.
  destruct m as [id p|id p|id]; simpl in *.
  - apply gap_of_touch. exact Hl.
  - apply gap_of_touch. exact Hl.
  - destruct (lookup (r_cluster st) id) eqn:L; [|exfalso; exact (D id eq_refl L)].
    simpl. apply gap_of_touch. exact Hl.
Qed.

(* the first change of an object inside a gap records its state at the break *)
Lemma gap_of_touch_fresh : forall gaps g id old l0,
  gap_of gaps g = Some l0 -> existsb (fun x => oid_eqb (fst x) id) l0 = false ->
  gap_of (touch gaps g id old) g = Some (l0 ++ [(id, old)]).
Proof.
  induction gaps as [|[k l1] t IH]; intros g id old l0 H X; simpl in *; [discriminate|].
  destruct (Nat.eqb k g) eqn:E; simpl; rewrite E.
  - inversion H; subst. rewrite X. reflexivity.
  - apply IH; assumption.
Qed.

Lemma gap_first_mutation_recorded : forall c st m l0,
  gap_of (r_gaps st) (o_gk (mut_id m)) = Some l0 ->
  existsb (fun x => oid_eqb (fst x) (mut_id m)) l0 = false ->
  (forall id, m = MDelete id -> lookup (r_cluster st) id <> None) ->
  gap_of (r_gaps (rstep_apply c st (SMut m))) (o_gk (mut_id m)) =
    Some (l0 ++ [(mut_id m, lookup (r_cluster st) (mut_id m))]).
Proof.
  intros c st m l0 H X D.
  assert (G : in_gap st (o_gk (mut_id m)) = true).
  { unfold in_gap. clear X D. revert H. generalize (o_gk (mut_id m)). induction (r_gaps st) as [|[k l1] t IH]; intros g H; simpl in *; [discriminate|].
    destruct (Nat.eqb k g); [reflexivity | apply IH; exact H]. }
  simpl. unfold mut_id in *. rewrite G. unfold mutate_gap.
  destruct m as [id p|id p|id]; simpl in *.
  - apply gap_of_touch_fresh; assumption.
  - apply gap_of_touch_fresh; assumption.
  - destruct (lookup (r_cluster st) id) eqn:L; [|exfalso; exact (D id eq_refl L)].
    simpl. apply gap_of_touch_fresh; assumption.
Qed.

Lemma last_event_final_gap : forall c pre steps1 g l id steps2,
  let st1 := run c pre steps1 in
  g <> GK_NS -> g <> GK_CRD ->
  gap_of (r_gaps st1) g = Some l -> o_gk id = g ->
  r_stopped st1 = false -> allowed c id = true -> covered st1 id = true ->
  match lookup (r_cluster st1) id with
  | Some p => p_slow p = false
  | None => exists o, In (id, Some o) l
  end ->
  Forall (not_about id) steps2 ->
  let st := run c pre (steps1 ++ SRelist g :: steps2) in
  last_for id (r_events st) = Some (final_status st id).
Proof.
  intros c pre steps1 g l id steps2 st1 Gn Gc Hg Hk S A C Hfin F st. subst st. unfold run.
  rewrite fold_left_app.
  change (settled id (fold_left (rstep_apply c) steps2 (rstep_apply c st1 (SRelist g)))).
  assert (K1 : cl_ok (r_cluster st1)) by apply (cl_ok_run c pre steps1).
  apply settled_steps; [apply cl_ok_step; exact K1 | exact F |].
  simpl. eapply relist_final_state; eassumption.
Qed.
