(* Lemmas for C07: precedence of the generic signals, the Ready fallback, and
   the frame / stability properties of Augment. *)
From Coq Require Import List Bool ZArith String Lia.
From CliUtils Require Import Base.Json Model.KStatus Proofs.KStatusProofs.
Import ListNotations.
Local Open Scope string_scope.

(* ---- declarative vocabulary of the statements --------------------------- *)
Definition no_deletion (j : jv) : Prop :=
  nested_string j p_deletion = Absent \/ nested_string j p_deletion = Found "".

(* generation absent, or observed generation absent, or both equal *)
Definition gen_ok (j : jv) : Prop :=
  nested_int64 j p_generation = Absent \/
  exists g, nested_int64 j p_generation = Found g /\
            (nested_int64 j p_observed = Absent \/ nested_int64 j p_observed = Found g).

Definition is_true_std (c : bcond) : bool :=
  ((c_type c =? "Reconciling") || (c_type c =? "Stalled")) && (c_status c =? "True").
(* type of the first listed true Reconciling / Stalled condition *)
Definition first_true_std (cs : list bcond) : option string :=
  option_map c_type (find is_true_std cs).

Definition is_decisive_ready (c : bcond) : bool :=
  (c_type c =? "Ready") &&
  ((c_status c =? "True") || (c_status c =? "False") || (c_status c =? "Unknown")).
(* status of the first Ready condition whose status is True / False / Unknown *)
Definition first_ready (cs : list bcond) : option string :=
  option_map c_status (find is_decisive_ready cs).

(* no generic signal at all *)
Definition no_generic (j : jv) : Prop := check_generic j = None.

(* ---- precedence ---------------------------------------------------------- *)
Lemma terminating_first : forall j w s,
  nested_string j p_deletion = Found s -> s <> "" -> compute j w = Ok Terminating [].
Proof.
  intros j w s H Hs. unfold compute, check_generic. rewrite H.
  destruct (s =? "") eqn:E; [apply String.eqb_eq in E; contradiction|]. reflexivity.
Qed.

Lemma check_generic_no_deletion : forall j,
  no_deletion j ->
  check_generic j =
  match check_generation j with
  | Some o => Some o
  | None => match get_object_with_conditions j with
            | None => Some Err
            | Some cs => std_loop cs
            end
  end.
Proof. intros j [H|H]; unfold check_generic; rewrite H; reflexivity. Qed.

Lemma generation_second : forall j w g o,
  no_deletion j ->
  nested_int64 j p_generation = Found g -> nested_int64 j p_observed = Found o -> g <> o ->
  compute j w = Ok InProgress [("Reconciling", "True")].
Proof.
  intros j w g o Hd Hg Ho Hne. unfold compute. rewrite (check_generic_no_deletion j Hd).
  unfold check_generation. rewrite Hg, Ho.
  destruct (Z.eqb o g) eqn:E; [apply Z.eqb_eq in E; congruence|]. reflexivity.
Qed.

Lemma gen_ok_check : forall j, gen_ok j -> check_generation j = None.
Proof.
  intros j [H|[g [Hg [Ho|Ho]]]]; unfold check_generation.
  - rewrite H. reflexivity.
  - rewrite Hg, Ho. reflexivity.
  - rewrite Hg, Ho, Z.eqb_refl. reflexivity.
Qed.

Lemma check_generation_none : forall j, check_generation j = None -> gen_ok j.
Proof.
  intros j. unfold check_generation, gen_ok.
  destruct (nested_int64 j p_generation) as [g| |]; [|left; reflexivity|discriminate].
  destruct (nested_int64 j p_observed) as [o| |]; [|intros _; right; exists g; auto|discriminate].
  destruct (Z.eqb o g) eqn:E; [|discriminate].
  apply Z.eqb_eq in E. subst o. intros _. right. exists g. auto.
Qed.

Lemma std_loop_first : forall cs,
  std_loop cs =
  match first_true_std cs with
  | Some ty => if ty =? "Reconciling" then Some new_in_progress else Some new_failed
  | None => None
  end.
Proof.
  induction cs as [|c t IH]; [reflexivity|].
  unfold first_true_std in *. simpl. unfold is_true_std at 1.
  destruct (c_type c =? "Reconciling") eqn:Er; simpl.
  - destruct (c_status c =? "True") eqn:Es; simpl.
    + rewrite Er. reflexivity.
    + apply String.eqb_eq in Er. rewrite Er. simpl. exact IH.
  - destruct (c_type c =? "Stalled") eqn:Est; simpl.
    + destruct (c_status c =? "True") eqn:Es; simpl; [rewrite Er; reflexivity|exact IH].
    + exact IH.
Qed.

Lemma first_true_std_type : forall cs ty,
  first_true_std cs = Some ty -> ty = "Reconciling" \/ ty = "Stalled".
Proof.
  intros cs ty. unfold first_true_std.
  destruct (find is_true_std cs) as [c|] eqn:E; [|discriminate].
  apply find_some in E. destruct E as [_ E]. unfold is_true_std in E.
  apply andb_true_iff in E. destruct E as [E _]. apply orb_true_iff in E.
  simpl. intros H. injection H as H. subst ty.
  destruct E as [E|E]; apply String.eqb_eq in E; auto.
Qed.

Lemma conditions_third : forall j w cs,
  no_deletion j -> gen_ok j -> get_object_with_conditions j = Some cs ->
  (first_true_std cs = Some "Reconciling" -> compute j w = Ok InProgress [("Reconciling", "True")]) /\
  (first_true_std cs = Some "Stalled" -> compute j w = Ok Failed [("Stalled", "True")]).
Proof.
  intros j w cs Hd Hg Hc. unfold compute.
  rewrite (check_generic_no_deletion j Hd), (gen_ok_check j Hg), Hc, std_loop_first.
  split; intros H; rewrite H; reflexivity.
Qed.

Lemma no_signal_kind_rule : forall j w cs,
  no_deletion j -> gen_ok j -> get_object_with_conditions j = Some cs -> first_true_std cs = None ->
  no_generic j /\
  compute j w =
  match legacy_of_key (kind_key j) with
  | Some k => legacy_fn k j w
  | None => match ready_loop cs with Some o => o | None => current end
  end.
Proof.
  intros j w cs Hd Hg Hc Hf.
  assert (Hn : check_generic j = None).
  { rewrite (check_generic_no_deletion j Hd), (gen_ok_check j Hg), Hc, std_loop_first, Hf. reflexivity. }
  split; [exact Hn|]. unfold compute. rewrite Hn.
  destruct (legacy_of_key (kind_key j)); [reflexivity|].
  unfold check_ready_condition. rewrite Hc. reflexivity.
Qed.

Lemma no_generic_inv : forall j,
  no_generic j ->
  no_deletion j /\ gen_ok j /\
  exists cs, get_object_with_conditions j = Some cs /\ first_true_std cs = None.
Proof.
  intros j. unfold no_generic, check_generic, no_deletion.
  destruct (nested_string j p_deletion) as [s| |] eqn:Ed; [| |discriminate].
  - destruct (s =? "") eqn:Es; simpl; [|discriminate]. apply String.eqb_eq in Es. subst s.
    destruct (check_generation j) eqn:Eg; [discriminate|].
    destruct (get_object_with_conditions j) as [cs|]; [|discriminate].
    intros H. split; [right; reflexivity|]. split; [apply check_generation_none; exact Eg|].
    exists cs. split; [reflexivity|]. rewrite std_loop_first in H.
    destruct (first_true_std cs) as [ty|]; [|reflexivity]. destruct (ty =? "Reconciling"); discriminate.
  - destruct (check_generation j) eqn:Eg; [discriminate|].
    destruct (get_object_with_conditions j) as [cs|]; [|discriminate].
    intros H. split; [left; reflexivity|]. split; [apply check_generation_none; exact Eg|].
    exists cs. split; [reflexivity|]. rewrite std_loop_first in H.
    destruct (first_true_std cs) as [ty|]; [|reflexivity]. destruct (ty =? "Reconciling"); discriminate.
Qed.

Lemma ready_loop_first : forall cs,
  ready_loop cs =
  match first_ready cs with
  | Some st => if st =? "True" then Some current else Some new_in_progress
  | None => None
  end.
Proof.
  induction cs as [|c t IH]; [reflexivity|].
  unfold first_ready in *. simpl. unfold is_decisive_ready at 1.
  destruct (c_type c =? "Ready") eqn:Er; simpl; [|exact IH].
  destruct (c_status c =? "True") eqn:E1; simpl; [rewrite E1; reflexivity|].
  destruct (c_status c =? "False") eqn:E2; simpl; [rewrite E1; reflexivity|].
  destruct (c_status c =? "Unknown") eqn:E3; simpl; [rewrite E1; reflexivity|exact IH].
Qed.

Lemma ready_fallback : forall j w cs,
  legacy_of_key (kind_key j) = None ->
  no_deletion j -> gen_ok j -> get_object_with_conditions j = Some cs -> first_true_std cs = None ->
  (first_ready cs = Some "True" -> compute j w = Ok Current []) /\
  (first_ready cs = Some "False" \/ first_ready cs = Some "Unknown" ->
   compute j w = Ok InProgress [("Reconciling", "True")]) /\
  (first_ready cs = None -> compute j w = Ok Current []).
Proof.
  intros j w cs Hk Hd Hg Hc Hf.
  destruct (no_signal_kind_rule j w cs Hd Hg Hc Hf) as [_ H]. rewrite Hk in H. rewrite H, ready_loop_first.
  repeat split.
  - intros E. rewrite E. reflexivity.
  - intros [E|E]; rewrite E; reflexivity.
  - intros E. rewrite E. reflexivity.
Qed.

(* ---- maps ---------------------------------------------------------------- *)
Lemma lookup_set_key_same : forall k v kv, lookup k (set_key k v kv) = Some v.
Proof.
  intros k v kv. induction kv as [|[k' v'] t IH]; simpl.
  - rewrite String.eqb_refl. reflexivity.
  - destruct (k =? k') eqn:E; simpl; [rewrite String.eqb_refl; reflexivity|rewrite E; exact IH].
Qed.

Lemma lookup_set_key_other : forall k k' v kv, k <> k' -> lookup k (set_key k' v kv) = lookup k kv.
Proof.
  intros k k' v kv Hne. induction kv as [|[k2 v2] t IH]; simpl.
  - apply String.eqb_neq in Hne. rewrite Hne. reflexivity.
  - destruct (k' =? k2) eqn:E; simpl.
    + apply String.eqb_eq in E. subst k2. apply String.eqb_neq in Hne. rewrite Hne. reflexivity.
    + destruct (k =? k2); [reflexivity|exact IH].
Qed.

Lemma set_key_same : forall k v kv, lookup k kv = Some v -> set_key k v kv = kv.
Proof.
  intros k v kv. induction kv as [|[k' v'] t IH]; simpl; [discriminate|].
  destruct (k =? k') eqn:E.
  - apply String.eqb_eq in E. subst k'. intros H. injection H as H. subst v'. reflexivity.
  - intros H. rewrite (IH H). reflexivity.
Qed.

Ltac str_neq := let X := fresh in intro X; apply String.eqb_eq in X; vm_compute in X; discriminate X.

(* ---- frame of set_nested2 ------------------------------------------------ *)
Definition top_field (j : jv) (k : string) : option jv :=
  match j with JObj kv => lookup k kv | _ => None end.

Lemma set_nested2_top : forall j f1 f2 v j' k,
  set_nested2 j f1 f2 v = Some j' -> k <> f1 -> top_field j' k = top_field j k.
Proof.
  intros j f1 f2 v j' k H Hne. destruct j as [| | | | | |kv]; try discriminate. simpl in H.
  destruct (lookup f1 kv) as [x|] eqn:E.
  - destruct x; try discriminate. injection H as H. subst j'. simpl. apply lookup_set_key_other. exact Hne.
  - injection H as H. subst j'. simpl. apply lookup_set_key_other. exact Hne.
Qed.

Lemma nested_field_top : forall j k rest,
  nested_field j (k :: rest) =
  match j with
  | JNull => Absent
  | JObj _ => match top_field j k with None => Absent | Some v => nested_field v rest end
  | _ => AErr
  end.
Proof. intros j k rest. destruct j; reflexivity. Qed.

Lemma set_nested2_is_obj : forall j f1 f2 v j',
  set_nested2 j f1 f2 v = Some j' -> (exists kv, j = JObj kv) /\ (exists kv', j' = JObj kv').
Proof.
  intros j f1 f2 v j' H. destruct j as [| | | | | |kv]; try discriminate. split; [eauto|].
  simpl in H. destruct (lookup f1 kv) as [x|]; [destruct x; try discriminate|]; injection H as H; subst j'; eauto.
Qed.

Lemma set_nested2_frame_top : forall j f1 f2 v j' k rest,
  set_nested2 j f1 f2 v = Some j' -> k <> f1 ->
  nested_field j' (k :: rest) = nested_field j (k :: rest).
Proof.
  intros j f1 f2 v j' k rest H Hne. rewrite !nested_field_top.
  rewrite (set_nested2_top j f1 f2 v j' k H Hne).
  destruct (set_nested2_is_obj _ _ _ _ _ H) as [[kv ->] [kv' ->]]. reflexivity.
Qed.

Lemma set_nested2_frame_inner : forall j f1 f2 v j' k rest,
  set_nested2 j f1 f2 v = Some j' -> k <> f2 ->
  nested_field j' (f1 :: k :: rest) = nested_field j (f1 :: k :: rest).
Proof.
  intros j f1 f2 v j' k rest H Hne. destruct j as [| | | | | |kv]; try discriminate. simpl in H.
  destruct (lookup f1 kv) as [x|] eqn:E.
  - destruct x as [| | | | | |st]; try discriminate. injection H as H. subst j'.
    simpl. rewrite lookup_set_key_same, E. rewrite (lookup_set_key_other k f2 _ st Hne). reflexivity.
  - injection H as H. subst j'. simpl. rewrite lookup_set_key_same, E. simpl.
    apply String.eqb_neq in Hne. rewrite Hne. reflexivity.
Qed.

Lemma set_nested2_goc : forall j items j',
  set_nested2 j "status" "conditions" (JArr items) = Some j' ->
  get_object_with_conditions j' = conv_conds items.
Proof.
  intros j items j' H. destruct j as [| | | | | |kv]; try discriminate. simpl in H.
  destruct (lookup "status" kv) as [x|] eqn:E.
  - destruct x as [| | | | | |st]; try discriminate. injection H as H. subst j'.
    simpl. rewrite lookup_set_key_same, lookup_set_key_same. reflexivity.
  - injection H as H. subst j'. simpl. rewrite lookup_set_key_same. reflexivity.
Qed.

Lemma set_nested2_slice : forall j items j',
  set_nested2 j "status" "conditions" (JArr items) = Some j' ->
  nested_slice j' ["status"; "conditions"] = Found items.
Proof.
  intros j items j' H. destruct j as [| | | | | |kv]; try discriminate. simpl in H.
  unfold nested_slice.
  destruct (lookup "status" kv) as [x|] eqn:E.
  - destruct x as [| | | | | |st]; try discriminate. injection H as H. subst j'.
    simpl. rewrite lookup_set_key_same, lookup_set_key_same. reflexivity.
  - injection H as H. subst j'. simpl. rewrite lookup_set_key_same. reflexivity.
Qed.

(* ---- compute reads the tree only through these paths and the converted
   conditions: extensionality --------------------------------------------- *)
Section Ext.
  Variables j j' : jv.
  Hypothesis Htop : forall k rest, k <> "status" ->
    nested_field j' (k :: rest) = nested_field j (k :: rest).
  Hypothesis Hin : forall k rest, k <> "conditions" ->
    nested_field j' ("status" :: k :: rest) = nested_field j ("status" :: k :: rest).

  Ltac fr := repeat first [ rewrite Htop by str_neq | rewrite Hin by str_neq ].

  Lemma ext_deletion : nested_string j' p_deletion = nested_string j p_deletion.
  Proof. unfold nested_string, p_deletion. fr. reflexivity. Qed.
  Lemma ext_generation : nested_int64 j' p_generation = nested_int64 j p_generation.
  Proof. unfold nested_int64, p_generation. fr. reflexivity. Qed.
  Lemma ext_observed : nested_int64 j' p_observed = nested_int64 j p_observed.
  Proof. unfold nested_int64, p_observed. fr. reflexivity. Qed.
  Lemma ext_check_generation : check_generation j' = check_generation j.
  Proof. unfold check_generation. rewrite ext_generation, ext_observed. reflexivity. Qed.
  Lemma ext_check_generation_set : check_generation_set j' = check_generation_set j.
  Proof. unfold check_generation_set. rewrite ext_generation, ext_observed. reflexivity. Qed.
  Lemma ext_kind_key : kind_key j' = kind_key j.
  Proof. unfold kind_key, group_kind, get_nested_string, nested_string. fr. reflexivity. Qed.

  (* the generic check with the converted conditions made explicit *)
  Definition generic_with (x : jv) (oc : option (list bcond)) : option outcome :=
    match nested_string x p_deletion with
    | AErr => Some Err
    | Found s =>
        if negb (s =? "") then Some terminating
        else match check_generation x with
             | Some o => Some o
             | None => match oc with None => Some Err | Some cs => std_loop cs end
             end
    | Absent =>
        match check_generation x with
        | Some o => Some o
        | None => match oc with None => Some Err | Some cs => std_loop cs end
        end
    end.

  Lemma generic_with_frame : forall oc, generic_with j' oc = generic_with j oc.
  Proof. intros oc. unfold generic_with. rewrite ext_deletion, ext_check_generation. reflexivity. Qed.

  Hypothesis Hgoc : get_object_with_conditions j' = get_object_with_conditions j.

  Lemma ext_check_generic : check_generic j' = check_generic j.
  Proof.
    change (generic_with j' (get_object_with_conditions j') = generic_with j (get_object_with_conditions j)).
    rewrite Hgoc. apply generic_with_frame.
  Qed.

  Lemma ext_legacy_fn : forall k w, legacy_fn k j' w = legacy_fn k j w.
  Proof.
    intros k w. destruct k; simpl; try reflexivity.
    - unfold service_conditions, get_string_field. fr. reflexivity.
    - unfold pod_conditions, get_crash_looping, nested_slice, get_string_field. rewrite Hgoc. fr. reflexivity.
    - unfold pvc_conditions, get_string_field. fr. reflexivity.
    - unfold sts_conditions, get_string_field, get_int_field. fr. reflexivity.
    - unfold daemonset_conditions, get_int_field. rewrite ext_check_generation_set. fr. reflexivity.
    - unfold deployment_conditions, get_int_field. rewrite Hgoc. fr. reflexivity.
    - unfold replicaset_conditions, get_int_field. rewrite Hgoc. fr. reflexivity.
    - unfold job_conditions, get_string_field. rewrite Hgoc. fr. reflexivity.
    - unfold crd_conditions. rewrite Hgoc. reflexivity.
  Qed.

  Lemma compute_ext : forall w, compute j' w = compute j w.
  Proof.
    intros w. unfold compute. rewrite ext_check_generic, ext_kind_key.
    destruct (check_generic j); [reflexivity|].
    destruct (legacy_of_key (kind_key j)) as [k|]; [apply ext_legacy_fn|].
    unfold check_ready_condition. rewrite Hgoc. reflexivity.
  Qed.
End Ext.

Lemma check_generic_with : forall j, check_generic j = generic_with j (get_object_with_conditions j).
Proof. reflexivity. Qed.

(* ---- Augment: frame ------------------------------------------------------ *)
Definition item_type (c : jv) : option string :=
  match c with
  | JObj kv => match lookup "type" kv with Some (JStr s) => Some s | _ => None end
  | _ => None
  end.
(* a condition entry whose type is none of `tys` (entries without a string
   type count as "other") *)
Definition other_than (tys : list string) (c : jv) : bool :=
  match item_type c with
  | Some s => negb (existsb (String.eqb s) tys)
  | None => true
  end.
Definition items_of (j : jv) : list jv :=
  match nested_slice j ["status"; "conditions"] with Found l => l | _ => [] end.

Definition updated_kv (kv : list (string * jv)) (cst st rsn msg t : string) :=
  set_key "message" (JStr msg)
    (set_key "reason" (JStr rsn)
       (set_key "lastUpdateTime" (JStr t)
          (set_key "status" (JStr st)
             (if negb (cst =? st) then set_key "lastTransitionTime" (JStr t) kv else kv)))).

Lemma updated_kv_type : forall kv cst st rsn msg t,
  lookup "type" (updated_kv kv cst st rsn msg t) = lookup "type" kv.
Proof.
  intros. unfold updated_kv.
  repeat rewrite lookup_set_key_other by str_neq.
  destruct (negb (cst =? st)); [rewrite lookup_set_key_other by str_neq|]; reflexivity.
Qed.

Lemma existsb_in_str : forall s l, In s l -> existsb (String.eqb s) l = true.
Proof.
  intros s l H. apply existsb_exists. exists s. split; [exact H|apply String.eqb_refl].
Qed.

Lemma apply_cond_frame : forall ty st rsn msg t tys items items' p,
  In ty tys ->
  apply_cond ty st rsn msg t items = Some (items', p) ->
  filter (other_than tys) items' = filter (other_than tys) items.
Proof.
  intros ty st rsn msg t tys items. induction items as [|c rest IH]; intros items' p Hin H.
  - simpl in H. injection H as H _. subst items'. reflexivity.
  - simpl in H. destruct c as [| | | | | |kv]; try discriminate.
    destruct (lookup "type" kv) as [x|] eqn:Ety; [|discriminate].
    destruct x as [| | | |cty| |]; try discriminate.
    destruct (cty =? ty) eqn:E.
    + apply String.eqb_eq in E. subst cty.
      destruct (lookup "status" kv) as [x|]; [|discriminate].
      destruct x as [| | | |cst| |]; try discriminate.
      destruct (apply_cond ty st rsn msg t rest) as [[r p']|] eqn:Er; [|discriminate].
      injection H as H _. subst items'.
      fold (updated_kv kv cst st rsn msg t).
      assert (O1 : other_than tys (JObj (updated_kv kv cst st rsn msg t)) = false)
        by (unfold other_than, item_type; rewrite updated_kv_type, Ety, (existsb_in_str ty tys Hin); reflexivity).
      assert (O2 : other_than tys (JObj kv) = false)
        by (unfold other_than, item_type; rewrite Ety, (existsb_in_str ty tys Hin); reflexivity).
      cbn [filter]. rewrite O1, O2.
      apply (IH r p' Hin eq_refl).
    + destruct (apply_cond ty st rsn msg t rest) as [[r p']|] eqn:Er; [|discriminate].
      injection H as H _. subst items'. cbn [filter].
      rewrite (IH r p' Hin eq_refl). reflexivity.
Qed.

Lemma new_cond_item_other : forall ty st rsn msg t tys,
  In ty tys -> other_than tys (new_cond_item ty st rsn msg t) = false.
Proof.
  intros. unfold other_than, new_cond_item. simpl. rewrite (existsb_in_str ty tys H). reflexivity.
Qed.

Lemma augment_conds_frame : forall rcs rsn msg t tys items items',
  (forall ty st, In (ty, st) rcs -> In ty tys) ->
  augment_conds rcs rsn msg t items = Some items' ->
  filter (other_than tys) items' = filter (other_than tys) items.
Proof.
  induction rcs as [|[ty st] more IH]; intros rsn msg t tys items items' Hin H.
  - simpl in H. injection H as H. subst items'. reflexivity.
  - simpl in H.
    destruct (apply_cond ty st rsn msg t items) as [[items1 present]|] eqn:Ea; [|discriminate].
    assert (Hty : In ty tys) by (apply (Hin ty st); left; reflexivity).
    pose proof (apply_cond_frame ty st rsn msg t tys items items1 present Hty Ea) as F1.
    assert (Hmore : forall ty0 st0, In (ty0, st0) more -> In ty0 tys)
      by (intros ty0 st0 H0; apply (Hin ty0 st0); right; exact H0).
    rewrite (IH rsn msg t tys _ items' Hmore H).
    destruct present; [exact F1|].
    rewrite filter_app. simpl. rewrite (new_cond_item_other ty st rsn msg t tys Hty).
    rewrite app_nil_r. exact F1.
Qed.

Lemma augment_frame : forall j w t rsn msg j',
  augment j w t rsn msg = Some j' ->
  (forall k, k <> "status" -> top_field j' k = top_field j k) /\
  (forall k rest, k <> "conditions" ->
     nested_field j' ("status" :: k :: rest) = nested_field j ("status" :: k :: rest)) /\
  exists s rcs items',
    compute j w = Ok s rcs /\
    nested_slice j' ["status"; "conditions"] = Found items' /\
    filter (other_than (map fst rcs)) items' = filter (other_than (map fst rcs)) (items_of j).
Proof.
  intros j w t rsn msg j' H. unfold augment in H.
  destruct (compute j w) as [s rcs|] eqn:Ec; [|discriminate].
  assert (Hx : exists items', augment_conds rcs rsn msg t (items_of j) = Some items' /\
                              set_nested2 j "status" "conditions" (JArr items') = Some j').
  { unfold items_of. destruct (nested_slice j ["status"; "conditions"]) as [items| |]; [| |discriminate].
    - destruct (augment_conds rcs rsn msg t items) as [items'|]; [|discriminate]. eauto.
    - destruct (augment_conds rcs rsn msg t []) as [items'|]; [|discriminate]. eauto. }
  destruct Hx as [items' [Ha Hs]].
  split; [intros k Hk; apply (set_nested2_top _ _ _ _ _ k Hs Hk)|].
  split; [intros k rest Hk; apply (set_nested2_frame_inner _ _ _ _ _ k rest Hs Hk)|].
  exists s, rcs, items'. split; [reflexivity|]. split; [apply (set_nested2_slice _ _ _ Hs)|].
  apply (augment_conds_frame rcs rsn msg t (map fst rcs) _ _).
  - intros ty st Hin. change ty with (fst (ty, st)). apply in_map. exact Hin.
  - exact Ha.
Qed.

(* ---- Augment: stability --------------------------------------------------- *)
Definition upd (ty st rsn msg : string) (c : bcond) : bcond :=
  if c_type c =? ty then mkCond ty st rsn msg else c.

Lemma upd_hit : forall ty st rsn msg c, c_type c = ty -> upd ty st rsn msg c = mkCond ty st rsn msg.
Proof. intros ty st rsn msg c H. unfold upd. rewrite H, String.eqb_refl. reflexivity. Qed.
Lemma upd_miss : forall ty st rsn msg c, (c_type c =? ty) = false -> upd ty st rsn msg c = c.
Proof. intros ty st rsn msg c H. unfold upd. rewrite H. reflexivity. Qed.

Lemma updated_kv_conv : forall kv cst ty st rsn msg t,
  lookup "type" kv = Some (JStr ty) ->
  conv_cond (JObj (updated_kv kv cst st rsn msg t)) = Some (mkCond ty st rsn msg).
Proof.
  intros kv cst ty st rsn msg t Hty. unfold conv_cond.
  rewrite updated_kv_type, Hty. simpl conv_string.
  unfold updated_kv.
  rewrite (lookup_set_key_other "status" "message") by str_neq.
  rewrite (lookup_set_key_other "status" "reason") by str_neq.
  rewrite (lookup_set_key_other "status" "lastUpdateTime") by str_neq.
  rewrite lookup_set_key_same. simpl conv_string.
  rewrite (lookup_set_key_other "reason" "message") by str_neq.
  rewrite lookup_set_key_same. simpl conv_string.
  rewrite lookup_set_key_same. reflexivity.
Qed.

Lemma conv_cond_type : forall kv ty c,
  lookup "type" kv = Some (JStr ty) -> conv_cond (JObj kv) = Some c -> c_type c = ty.
Proof.
  intros kv ty c Hty. unfold conv_cond. rewrite Hty. simpl conv_string.
  destruct (conv_string (lookup "status" kv)); [|discriminate].
  destruct (conv_string (lookup "reason" kv)); [|discriminate].
  destruct (conv_string (lookup "message" kv)); [|discriminate].
  intros H. injection H as H. subst c. reflexivity.
Qed.

Lemma apply_cond_conv : forall ty st rsn msg t items cs items' p,
  conv_conds items = Some cs ->
  apply_cond ty st rsn msg t items = Some (items', p) ->
  conv_conds items' = Some (map (upd ty st rsn msg) cs) /\
  p = existsb (fun c => c_type c =? ty) cs.
Proof.
  intros ty st rsn msg t items. induction items as [|c rest IH]; intros cs items' p Hc H.
  - simpl in *. injection Hc as Hc. injection H as H1 H2. subst. split; reflexivity.
  - simpl in H. destruct c as [| | | | | |kv]; try discriminate.
    destruct (lookup "type" kv) as [x|] eqn:Ety; [|discriminate].
    destruct x as [| | | |cty| |]; try discriminate.
    cbn [conv_conds] in Hc. destruct (conv_cond (JObj kv)) as [c0|] eqn:Ec0; [|discriminate].
    destruct (conv_conds rest) as [cs0|] eqn:Ecs0; [|discriminate].
    injection Hc as Hc. subst cs.
    pose proof (conv_cond_type kv cty c0 Ety Ec0) as Hct.
    destruct (cty =? ty) eqn:E.
    + apply String.eqb_eq in E. subst cty.
      destruct (lookup "status" kv) as [x|]; [|discriminate].
      destruct x as [| | | |cst| |]; try discriminate.
      destruct (apply_cond ty st rsn msg t rest) as [[r p']|] eqn:Er; [|discriminate].
      injection H as H1 H2. subst items' p.
      fold (updated_kv kv cst st rsn msg t).
      destruct (IH cs0 r p' eq_refl eq_refl) as [IH1 _].
      split.
      * change (conv_conds (JObj (updated_kv kv cst st rsn msg t) :: r))
          with (match conv_cond (JObj (updated_kv kv cst st rsn msg t)) with
                | None => None
                | Some c => match conv_conds r with None => None | Some r0 => Some (c :: r0) end
                end).
        rewrite (updated_kv_conv kv cst ty st rsn msg t Ety), IH1.
        cbn [map]. rewrite (upd_hit ty st rsn msg c0 Hct). reflexivity.
      * cbn [existsb]. rewrite Hct, String.eqb_refl. reflexivity.
    + destruct (apply_cond ty st rsn msg t rest) as [[r p']|] eqn:Er; [|discriminate].
      injection H as H1 H2. subst items' p.
      destruct (IH cs0 r p' eq_refl eq_refl) as [IH1 IH2].
      split.
      * change (conv_conds (JObj kv :: r))
          with (match conv_cond (JObj kv) with
                | None => None
                | Some c => match conv_conds r with None => None | Some r0 => Some (c :: r0) end
                end).
        rewrite Ec0, IH1. cbn [map]. rewrite upd_miss by (rewrite Hct; exact E). reflexivity.
      * cbn [existsb]. rewrite Hct, E. exact IH2.
Qed.

Lemma conv_conds_app : forall a b ca cb,
  conv_conds a = Some ca -> conv_conds b = Some cb -> conv_conds (a ++ b)%list = Some (ca ++ cb)%list.
Proof.
  induction a as [|x a IH]; intros b ca cb Ha Hb; simpl in *.
  - injection Ha as Ha. subst ca. exact Hb.
  - destruct (conv_cond x) as [c|]; [|discriminate].
    destruct (conv_conds a) as [ca0|] eqn:E; [|discriminate].
    injection Ha as Ha. subst ca. rewrite (IH b ca0 cb eq_refl Hb). reflexivity.
Qed.

Lemma new_cond_item_conv : forall ty st rsn msg t,
  conv_conds [new_cond_item ty st rsn msg t] = Some [mkCond ty st rsn msg].
Proof. reflexivity. Qed.

(* after the update, the first true standard condition has the result's type *)
Lemma std_loop_upd : forall ty o rsn msg,
  (ty = "Reconciling" /\ o = new_in_progress) \/ (ty = "Stalled" /\ o = new_failed) ->
  forall cs,
  std_loop cs = Some o \/ std_loop cs = None ->
  std_loop (map (upd ty "True" rsn msg) cs ++
            (if existsb (fun c => c_type c =? ty) cs then [] else [mkCond ty "True" rsn msg]))%list = Some o.
Proof.
  intros ty o rsn msg Hty.
  assert (Hnew : forall l, std_loop (mkCond ty "True" rsn msg :: l) = Some o).
  { intros l. destruct Hty as [[-> ->]|[-> ->]]; reflexivity. }
  induction cs as [|c t IH]; intros H.
  - cbn [map existsb app]. apply Hnew.
  - cbn [map existsb]. destruct (c_type c =? ty) eqn:E.
    + apply String.eqb_eq in E. rewrite (upd_hit ty "True" rsn msg c E). cbn [app]. apply Hnew.
    + rewrite (upd_miss ty "True" rsn msg c E). cbn [orb]. rewrite <- app_comm_cons.
      cbn [std_loop]. cbn [std_loop] in H.
      destruct ((c_type c =? "Reconciling") && (c_status c =? "True")).
      { destruct H as [H|H]; [exact H|discriminate]. }
      destruct ((c_type c =? "Stalled") && (c_status c =? "True")).
      { destruct H as [H|H]; [exact H|discriminate]. }
      apply IH. exact H.
Qed.

Lemma generic_with_cases : forall j,
  (forall oc, generic_with j oc = match oc with None => Some Err | Some cs => std_loop cs end) \/
  (exists o, forall oc, generic_with j oc = Some o).
Proof.
  intros j. unfold generic_with.
  destruct (nested_string j p_deletion) as [s| |].
  - destruct (negb (s =? "")); [right; exists terminating; reflexivity|].
    destruct (check_generation j) as [o|]; [right; exists o; reflexivity|left; reflexivity].
  - destruct (check_generation j) as [o|]; [right; exists o; reflexivity|left; reflexivity].
  - right. exists Err. reflexivity.
Qed.

Lemma slice_goc_found : forall j items,
  nested_slice j ["status"; "conditions"] = Found items ->
  get_object_with_conditions j = conv_conds items.
Proof.
  intros j items. unfold nested_slice. destruct j as [| | | | | |kv]; try discriminate. simpl.
  destruct (lookup "status" kv) as [x|]; [|discriminate].
  destruct x as [| | | | | |st]; try discriminate. simpl.
  destruct (lookup "conditions" st) as [y|]; [|discriminate].
  destruct y; try discriminate. intros H. injection H as H. subst. reflexivity.
Qed.

Lemma slice_goc_absent : forall j v j',
  nested_slice j ["status"; "conditions"] = Absent ->
  set_nested2 j "status" "conditions" v = Some j' ->
  get_object_with_conditions j = Some [].
Proof.
  intros j v j'. unfold nested_slice. destruct j as [| | | | | |kv]; try discriminate. simpl.
  destruct (lookup "status" kv) as [x|]; [|reflexivity].
  destruct x as [| | | | | |st]; try discriminate. simpl.
  destruct (lookup "conditions" st) as [y|]; [|reflexivity].
  destruct y; discriminate.
Qed.

Lemma set_nested2_same : forall j items j',
  nested_slice j ["status"; "conditions"] = Found items ->
  set_nested2 j "status" "conditions" (JArr items) = Some j' -> j' = j.
Proof.
  intros j items j'. unfold nested_slice. destruct j as [| | | | | |kv]; try discriminate. simpl.
  destruct (lookup "status" kv) as [x|] eqn:Es; [|discriminate].
  destruct x as [| | | | | |st]; try discriminate. simpl.
  destruct (lookup "conditions" st) as [y|] eqn:Ec; [|discriminate].
  destruct y; try discriminate. intros H. injection H as H. subst l.
  intros H. injection H as H. subst j'.
  rewrite (set_key_same "conditions" (JArr items) st Ec).
  rewrite (set_key_same "status" (JObj st) kv Es). reflexivity.
Qed.

Lemma augment_stable : forall j w t rsn msg j',
  augment j w t rsn msg = Some j' -> status_of (compute j' w) = status_of (compute j w).
Proof.
  intros j w t rsn msg j' H. unfold augment in H.
  destruct (compute j w) as [s rcs|] eqn:Ec; [|discriminate].
  assert (Hx : exists items', augment_conds rcs rsn msg t (items_of j) = Some items' /\
                              set_nested2 j "status" "conditions" (JArr items') = Some j' /\
                              nested_slice j ["status"; "conditions"] <> AErr).
  { unfold items_of. destruct (nested_slice j ["status"; "conditions"]) as [items| |]; [| |discriminate].
    - destruct (augment_conds rcs rsn msg t items) as [items'|]; [|discriminate].
      exists items'. repeat split; [exact H|discriminate].
    - destruct (augment_conds rcs rsn msg t []) as [items'|]; [|discriminate].
      exists items'. repeat split; [exact H|discriminate]. }
  clear H. destruct Hx as [items' [Ha [Hs Hne]]].
  assert (Htop : forall k rest, k <> "status" -> nested_field j' (k :: rest) = nested_field j (k :: rest))
    by (intros k rest Hk; apply (set_nested2_frame_top _ _ _ _ _ k rest Hs Hk)).
  assert (Hin : forall k rest, k <> "conditions" ->
                 nested_field j' ("status" :: k :: rest) = nested_field j ("status" :: k :: rest))
    by (intros k rest Hk; apply (set_nested2_frame_inner _ _ _ _ _ k rest Hs Hk)).
  (* an early generic decision (deletion, generation, accessor error) is the same in j' *)
  destruct (generic_with_cases j) as [Hpass|[o Hearly]].
  2:{ assert (E1 : compute j w = o)
        by (unfold compute; rewrite check_generic_with, Hearly; reflexivity).
      assert (E2 : compute j' w = o)
        by (unfold compute; rewrite check_generic_with, (generic_with_frame j j' Htop Hin), Hearly; reflexivity).
      rewrite E2, <- E1, Ec. reflexivity. }
  (* otherwise the converted conditions exist and std_loop decides or passes *)
  assert (Hg : check_generic j = match get_object_with_conditions j with
                                 | None => Some Err | Some cs => std_loop cs end)
    by (rewrite check_generic_with; apply Hpass).
  destruct (get_object_with_conditions j) as [cs|] eqn:Egoc.
  2:{ unfold compute in Ec. rewrite Hg in Ec. discriminate. }
  assert (Hitems : conv_conds (items_of j) = Some cs).
  { unfold items_of. destruct (nested_slice j ["status"; "conditions"]) as [items| |] eqn:Esl.
    - rewrite <- (slice_goc_found j items Esl). exact Egoc.
    - rewrite (slice_goc_absent j _ j' Esl Hs) in Egoc. injection Egoc as Egoc. subst cs. reflexivity.
    - contradiction Hne. reflexivity. }
  pose proof (compute_wf j w) as Hwf. rewrite Ec in Hwf. simpl in Hwf.
  assert (Hshape : rcs = [] \/
                   (rcs = [("Reconciling", "True")] /\ Ok s rcs = new_in_progress) \/
                   (rcs = [("Stalled", "True")] /\ Ok s rcs = new_failed)).
  { destruct Hwf as [[-> ->]|[[-> ->]|[[-> ->]|[-> ->]]]]; auto. }
  destruct Hshape as [->|Hshape].
  - (* no result condition: the conditions are written back unchanged *)
    simpl in Ha. injection Ha as Ha. subst items'.
    assert (E : compute j' w = compute j w).
    { unfold items_of in Hs. destruct (nested_slice j ["status"; "conditions"]) as [items| |] eqn:Esl.
      - rewrite (set_nested2_same j items j' Esl Hs). reflexivity.
      - apply (compute_ext j j' Htop Hin).
        rewrite (set_nested2_goc j [] j' Hs), (slice_goc_absent j _ j' Esl Hs). reflexivity.
      - contradiction Hne. reflexivity. }
    rewrite E, Ec. reflexivity.
  - (* one result condition (ty, True): it becomes the first true standard condition *)
    assert (Hty : exists ty, rcs = [(ty, "True")] /\
                   ((ty = "Reconciling" /\ Ok s rcs = new_in_progress) \/
                    (ty = "Stalled" /\ Ok s rcs = new_failed))).
    { destruct Hshape as [[-> Ho]|[-> Ho]]; [exists "Reconciling"|exists "Stalled"]; auto. }
    destruct Hty as [ty [-> Hty]]. clear Hshape.
    simpl in Ha.
    destruct (apply_cond ty "True" rsn msg t (items_of j)) as [[items1 present]|] eqn:Eap; [|discriminate].
    injection Ha as Ha.
    destruct (apply_cond_conv ty "True" rsn msg t _ cs items1 present Hitems Eap) as [Hc1 Hp].
    assert (Hc' : conv_conds items' =
                  Some (map (upd ty "True" rsn msg) cs ++
                        (if existsb (fun c => c_type c =? ty) cs then [] else [mkCond ty "True" rsn msg]))%list).
    { subst items'. rewrite <- Hp. destruct present.
      - rewrite app_nil_r. exact Hc1.
      - apply (conv_conds_app _ _ _ _ Hc1 (new_cond_item_conv ty "True" rsn msg t)). }
    assert (Hstd : std_loop cs = Some (Ok s [(ty, "True")]) \/ std_loop cs = None).
    { destruct (std_loop cs) as [o|] eqn:E; [left|right; reflexivity].
      unfold compute in Ec. rewrite Hg in Ec. rewrite Ec. reflexivity. }
    pose proof (std_loop_upd ty (Ok s [(ty, "True")]) rsn msg Hty cs Hstd) as Hl.
    assert (E2 : compute j' w = Ok s [(ty, "True")]).
    { unfold compute. rewrite check_generic_with, (generic_with_frame j j' Htop Hin), Hpass.
      rewrite (set_nested2_goc j items' j' Hs), Hc', Hl. reflexivity. }
    rewrite E2. reflexivity.
Qed.
