(* C03, fixpoint part: the MODEL version of `c03_fixpoint` (Corr/CorrPipeline.v).
   Files: PipelineMonC03FixA (vocabulary; operations from a stable cluster),
   PipelineMonC03FixB (a whole run from a stable cluster), PipelineMonC03FixC
   (the inventory stays duplicate-free; without pruning nothing is removed),
   PipelineMonC03FixD (a clean first run leaves a stable cluster), this file.

   WHAT IS PROVED (all Closed under the global context; the C03 monitor theorem
   `forall sc c0, WF sc c0 -> mon_C03 sc c0 (run sc c0) = true` is an explicit
   premise of the theorems marked [M]):

   * `C03_stable_run_gen` / `C03_stable_bool` (nothing about a first run, no monitor
     theorem; premise = the decidable predicate `stableb sc c1`): as the next item,
     from the weaker premises "inventory L sorted duplicate-free, every apply id of
     the plan of the run is in L and live, every key of L outside the manifest is
     live, and with pruning the plan has no valid prune object".  This form also
     covers clusters left by runs with invalid objects.
   * `C03_stable_run` (nothing about a first run, no monitor theorem): an apply
     run (not destroy, not dry, client-side apply) that starts from a STABLE
     cluster c1 -- stored inventory = a sorted duplicate-free L, every key of L
     live, manifest ids all in L, and L = manifest ids when pruning is enabled --
     logs only requests accepted by the fixpoint clause (no RCreate / RDelete /
     RInvCreate / RInvDelete; RNsCreate only rejected; RInvUpdate only with keys
     L) and ends with the same stored inventory.  The run may hit faults, wait
     failures, cancellation, or end with an error.
   * `fixpoint_two` [M]: first run `run sc1 c0` with WF sc1 c0, clean
     (`clean_run`: not destroy, not dry, no error event, no failed/skipped
     apply/prune event, no failed/timed-out/skipped wait event; server-side apply
     allowed), empty invalid set of its plan, duplicate-free initial inventory;
     second run `run sc2 c1` from c1 = its final cluster, where sc2 has the same
     manifest ids, is not destroy / dry / server-side, and prunes only if sc1
     pruned: then `fix_ok c1 (run sc2 c1) = true`.
     sc2 may differ from sc1 in everything else (faults, wait schedules,
     cancellation, policy, manifest contents, status policy ...), and NO cleanness
     of the second run is assumed.  Both o_prune = true and o_prune = false, and
     both values of o_status_policy_all, are covered.
   * `fixpoint_model` [M]: the same-scenario instance; `fixpoint_model_exit_early` [M]:
     under ValidationPolicy ExitEarly the hypothesis on the invalid set follows from
     the absence of an error event (`exit_early_no_invalid`); `fixpoint_bool` [M] with all
     hypotheses but WF as booleans (`fix_hyps`, `fix_second`);
     `fixpoint_no_create_delete` [M] the weaker reading (no create / delete
     request, inventory Leibniz-equal); `fixpoint_monitor` [M]: the executable
     `c03_fixpoint` accepts the model's own two-run history (premises: WF, empty
     invalid set of the first plan, duplicate-free initial inventory; the agreement of
     the pruning options is checked by `same` itself).
   * `fix_two_needs_prune_agree`: in the two-scenario statement the premise "sc2
     prunes only if sc1 pruned" is necessary for `fix_ok` (vm_compute witness; `same`
     inside c03_fixpoint compares the pruning options, so the executable check
     accepts that legitimate history: it is not "the same apply").
   * `fix_two_needs_no_invalid`: in the two-scenario statement the premise
     `pl_invalid (plan_of sc1 c0) = []` is necessary when sc2 may REPAIR an invalid
     manifest (same id, annotation no longer malformed): the second run creates the
     object (`same` inside c03_fixpoint compares l_baddep and l_finv, so the
     executable check accepts that history).
   * `fix_two_needs_nodup`: in the two-scenario statement `NoDup (prev_of c0)` is
     necessary when sc2 may rewrite the inventory (StatusPolicyAll): a stored list
     [0; 0] left untouched by the first run is rewritten as [0].
   * `fix_ex_*`: non-vacuity (three objects: one patched, one created, one pruned
     by the clean first run; all hypotheses hold, with and without pruning).

   WHAT IS NOT PROVED: the SAME-scenario statement without
   `pl_invalid (plan_of sc c0) = []` (a clean first run under VSkipInvalid with
   invalid objects) and any statement without `NoDup (prev_of c0)`.  For the same
   scenario both hypotheses are forced by the proof, not by a counterexample: the
   invalid set of the second plan would have to be related to that of the first
   through the graph sort; with duplicates in the stored key list, equality of the
   lists depends on no inventory write happening.  The Coq-side fuzz found no
   violation of `fix_ok` for identical scenarios without them (see the report). *)
From Coq Require Import List Bool Arith NArith ZArith Lia Permutation.
From CliUtils Require Import Model.ObjSet Model.ActuationTable Model.PipelineTypes Model.Pipeline
     Proofs.ObjSetProofs Proofs.PipelineBase Proofs.PipelineAuth Proofs.PipelineEvents
     Corr.CorrLib Corr.CorrPipeline Proofs.PipelineOrphansBase Proofs.PipelineOrphansRun
     Proofs.PipelineMonBase Proofs.PipelineMonC10 Proofs.PipelineMonC12Wait
     Proofs.PipelineMonC03FixA Proofs.PipelineMonC03FixB Proofs.PipelineMonC03FixC Proofs.PipelineMonC03FixD.
Import ListNotations.

(* ---- decidable form of the hypotheses -------------------------------------------------------------- *)
Fixpoint nodupb (l : list nat) : bool :=
  match l with [] => true | x :: t => negb (memn x t) && nodupb t end.
Lemma nodupb_sound l : nodupb l = true -> NoDup l.
Proof.
  induction l as [|x t IH]; cbn [nodupb]; intros H; [constructor|].
  apply andb_true_iff in H. destruct H as [H1 H2]. constructor; [|apply IH; exact H2].
  intros X. apply memn_In in X. rewrite X in H1. discriminate.
Qed.

Definition no_invalid (sc : scenario) (c0 : cluster) : bool :=
  match pl_invalid (plan_of sc c0) with [] => true | _ => false end.
(* everything the theorem asks of the first run besides WF *)
Definition fix_hyps (sc : scenario) (c0 : cluster) : bool :=
  clean_run sc (run sc c0) && no_invalid sc c0 && nodupb (prev_of c0).
(* what it asks of the scenario of the second run *)
Definition fix_second (sc1 sc2 : scenario) : bool :=
  fix_opts sc2 && nl_eqb (map l_id (sc_local sc2)) (map l_id (sc_local sc1))
  && (negb (o_prune (sc_opts sc2)) || o_prune (sc_opts sc1)).

Lemma nl_eqb_eq l m : nl_eqb l m = true -> l = m.
Proof.
  unfold nl_eqb. revert m. induction l as [|x t IH]; intros [|y u]; cbn; try discriminate; [reflexivity|].
  intros H. apply andb_true_iff in H. destruct H as [H1 H2]. apply Nat.eqb_eq in H1. subst y. f_equal. apply IH. exact H2.
Qed.
Lemma optl_eqb_eq a b : optl_eqb a b = true -> a = b.
Proof.
  unfold optl_eqb. destruct a as [l|], b as [m|]; cbn; try discriminate; [|reflexivity].
  intros H. f_equal. apply nl_eqb_eq. exact H.
Qed.

(* ---- a run from a stable cluster, in terms of `fix_ok` ----------------------------------------------- *)
Lemma fix_ok_of_state sc c1 L Av : inv c1 = Some L -> sorted_n L ->
  Good L Av (r_cl (run_state sc c1)) /\ Forall (Qf L) (r_tr (run_state sc c1)) ->
  fix_ok c1 (run sc c1) = true.
Proof.
  intros HI HS [[GI _] FQ]. unfold fix_ok. apply andb_true_iff. split.
  - apply forallb_forall. intros [r ok] Hx. apply reqs_In in Hx. destruct Hx as [m [st Hx]].
    apply in_out_trace in Hx. destruct Hx as [Hx|Hx]; [discriminate|].
    rewrite Forall_forall in FQ. specialize (FQ _ Hx). cbn in FQ. rewrite HI.
    unfold fix_req_ok. cbn [fst snd].
    destruct r; cbn in FQ; try reflexivity; try contradiction.
    + subst ok. reflexivity.
    + subst l. cbn. apply nl_eqb_refl'.
  - rewrite (out_final_run sc c1). cbn [norm_cluster inv]. unfold stored. rewrite GI, HI. cbn [option_map].
    rewrite (sortn_fix L HS). cbn. apply nl_eqb_refl'.
Qed.

Lemma fix_opts_split sc : fix_opts sc = true ->
  o_destroy (sc_opts sc) = false /\ is_dry (o_dry (sc_opts sc)) = false /\ o_ssa (sc_opts sc) = false.
Proof.
  unfold fix_opts. intros HO. apply andb_true_iff in HO. destruct HO as [HO O3].
  apply andb_true_iff in HO. destruct HO as [O1 O2].
  apply negb_true_iff in O1. apply negb_true_iff in O2. apply negb_true_iff in O3. auto.
Qed.

(* general form: hypotheses on the plan of the run itself *)
Theorem C03_stable_run_gen : forall sc c1 L,
  fix_opts sc = true ->
  NoDup (map l_id (sc_local sc)) ->
  inv c1 = Some L -> sorted_n L -> NoDup L ->
  (forall i, In i (apply_ids (plan_of sc c1)) -> In i L /\ fo c1 i <> None) ->
  (forall i, In i L -> ~ In i (map l_id (sc_local sc)) -> fo c1 i <> None) ->
  (* dyn: a tracked id outside the manifest has a kind the RESTMapper knows (its CRD is live in c1);
     otherwise the pruner skips it unread and the final inventory drops it *)
  (forall i, In i L -> ~ In i (map l_id (sc_local sc)) -> kind_known sc (live_crds sc c1) i = true) ->
  (o_prune (sc_opts sc) = true -> pl_prune (plan_of sc c1) = []) ->
  fix_ok c1 (run sc c1) = true.
Proof.
  intros sc c1 L HO HND HI HS HN HA HX HK HP. destruct (fix_opts_split sc HO) as [O1 [O2 O3]].
  apply (fix_ok_of_state sc c1 L (apply_ids (plan_of sc c1)) HI HS).
  exact (stable_run_state sc c1 L O1 O2 O3 HS HN HND HI HA HX HK HP).
Qed.

Theorem C03_stable_run : forall sc c1 L,
  fix_opts sc = true ->
  NoDup (map l_id (sc_local sc)) ->
  inv c1 = Some L -> sorted_n L -> NoDup L ->
  (forall i, In i L -> fo c1 i <> None) ->
  (forall i, In i (map l_id (sc_local sc)) -> In i L) ->
  (o_prune (sc_opts sc) = true -> forall i, In i L -> In i (map l_id (sc_local sc))) ->
  (* dyn: see C03_stable_run_gen *)
  (forall i, In i L -> ~ In i (map l_id (sc_local sc)) -> kind_known sc (live_crds sc c1) i = true) ->
  fix_ok c1 (run sc c1) = true.
Proof.
  intros sc c1 L HO HND HI HS HN HLive HL1 HL2 HK. destruct (fix_opts_split sc HO) as [O1 [O2 O3]].
  apply (fix_ok_of_state sc c1 L (apply_ids (plan_of sc c1)) HI HS).
  exact (stable_run_state_simple sc c1 L O1 O2 O3 HS HN HND HI HLive HL1 HL2 HK).
Qed.

(* the general form with a boolean premise: decidable on every concrete (scenario, cluster) *)
Definition liveb (cl : cluster) (i : id) : bool :=
  match find_obj (objs cl) i with Some _ => true | None => false end.
Definition stableb (sc : scenario) (c1 : cluster) : bool :=
  fix_opts sc && nodupb (map l_id (sc_local sc)) &&
  match inv c1 with
  | None => false
  | Some L =>
      nl_eqb (sortn L) L && nodupb L
      && forallb (fun i => memn i L && liveb c1 i) (apply_ids (plan_of sc c1))
      && forallb (fun i => memn i (map l_id (sc_local sc)) || (liveb c1 i && kind_known sc (live_crds sc c1) i)) L
      && (negb (o_prune (sc_opts sc)) || match pl_prune (plan_of sc c1) with [] => true | _ => false end)
  end.

Lemma liveb_fo cl i : liveb cl i = true -> fo cl i <> None.
Proof. unfold liveb, fo. destruct (find_obj (objs cl) i); [discriminate|discriminate]. Qed.

Theorem C03_stable_bool : forall sc c1, stableb sc c1 = true -> fix_ok c1 (run sc c1) = true.
Proof.
  intros sc c1 H. unfold stableb in H. apply andb_true_iff in H. destruct H as [H H3].
  apply andb_true_iff in H. destruct H as [HO HND]. apply nodupb_sound in HND.
  destruct (inv c1) as [L|] eqn:HI; [|discriminate].
  apply andb_true_iff in H3. destruct H3 as [H3 B5]. apply andb_true_iff in H3. destruct H3 as [H3 B4].
  apply andb_true_iff in H3. destruct H3 as [H3 B3]. apply andb_true_iff in H3. destruct H3 as [B1 B2].
  apply nl_eqb_eq in B1. apply nodupb_sound in B2.
  apply (C03_stable_run_gen sc c1 L HO HND HI).
  - rewrite <- B1. apply sortn_sorted.
  - exact B2.
  - intros i Hi. rewrite forallb_forall in B3. specialize (B3 i Hi). apply andb_true_iff in B3.
    destruct B3 as [X Y]. split; [apply memn_In; exact X|apply liveb_fo; exact Y].
  - intros i Hi Hn. rewrite forallb_forall in B4. specialize (B4 i Hi). apply orb_true_iff in B4.
    destruct B4 as [X|X]; [apply memn_In in X; contradiction|]. apply andb_true_iff in X. apply liveb_fo. apply X.
  - intros i Hi Hn. rewrite forallb_forall in B4. specialize (B4 i Hi). apply orb_true_iff in B4.
    destruct B4 as [X|X]; [apply memn_In in X; contradiction|]. apply andb_true_iff in X. apply X.
  - intros P. rewrite P in B5. cbn in B5. destruct (pl_prune (plan_of sc c1)); [reflexivity|discriminate].
Qed.

(* under ValidationPolicy ExitEarly a run without error event has no invalid object *)
Lemma exit_early_no_invalid sc c0 : o_valpol (sc_opts sc) = VExitEarly ->
  has_error (out_trace (run sc c0)) = false -> pl_invalid (plan_of sc c0) = [].
Proof.
  intros HV NE. apply has_error_false in NE.
  assert (NOERR : ~ In (IEv EError) (r_tr (run_state sc c0))).
  { intros H. apply NE. apply PipelineMonC02.In_evs. apply in_out_trace. right. exact H. }
  assert (VE : pl_valerrs (plan_of sc c0) = []).
  { destruct (run_state_shape sc c0) as [s C T|s C T _ _|s4 SO _ HX|s4 prev SO _ HX _];
      try (exfalso; apply NOERR; left; reflexivity); apply HX; exact HV. }
  destruct (pl_invalid (plan_of sc c0)) as [|i t] eqn:E; [reflexivity|]. exfalso.
  assert (Hi : In i (pl_invalid (plan_of sc c0))) by (rewrite E; left; reflexivity).
  rewrite plan_of_eq in Hi. destruct (invalid_named sc _ _ _ i Hi) as [e [He _]].
  rewrite <- plan_of_eq, VE in He. destruct He.
Qed.

Section WithMonitor.
  (* the C03 monitor theorem (Proofs/PipelineMonC03.v), an explicit premise once the section is closed *)
  Hypothesis monitor_C03_H : forall sc c0, WF sc c0 -> mon_C03 sc c0 (run sc c0) = true.

  Theorem fixpoint_two : forall sc1 sc2 c0,
    WF sc1 c0 ->
    clean_run sc1 (run sc1 c0) = true ->
    pl_invalid (plan_of sc1 c0) = [] ->
    NoDup (prev_of c0) ->
    fix_opts sc2 = true ->
    map l_id (sc_local sc2) = map l_id (sc_local sc1) ->
    (o_prune (sc_opts sc2) = true -> o_prune (sc_opts sc1) = true) ->
    (* dyn: both runs are about the same universe of objects (same kinds, same CRD of each custom resource) *)
    sc_univ sc2 = sc_univ sc1 ->
    fix_ok (out_final (run sc1 c0)) (run sc2 (out_final (run sc1 c0))) = true.
  Proof.
    intros sc1 sc2 c0 HWF HC HINV HNDI HO2 HIDS HPR HU.
    destruct (first_run_stable sc1 c0 HWF (monitor_C03_H sc1 c0 HWF) HC HINV HNDI)
      as [L [HI [HS [HN [HLive [HL1 [HL2 HK]]]]]]].
    assert (KU : forall cl i, kind_known sc2 (live_crds sc2 cl) i = kind_known sc1 (live_crds sc1 cl) i).
    { intros cl i. unfold kind_known, live_crds, is_crd_id, uinfo_of. rewrite HU. reflexivity. }
    apply (C03_stable_run sc2 _ L HO2); [| | | | | | |rewrite HIDS; intros i Hi Hn; rewrite KU; exact (HK i Hi Hn)].
    - rewrite HIDS. apply (f_lids_nd sc1 c0 HWF HC).
    - exact HI.
    - exact HS.
    - exact HN.
    - exact HLive.
    - rewrite HIDS. exact HL1.
    - rewrite HIDS. intros P. apply HL2. apply HPR. exact P.
  Qed.

  Theorem fixpoint_model : forall sc c0,
    WF sc c0 ->
    clean_run sc (run sc c0) = true ->
    o_ssa (sc_opts sc) = false ->
    pl_invalid (plan_of sc c0) = [] ->
    NoDup (prev_of c0) ->
    fix_ok (out_final (run sc c0)) (run sc (out_final (run sc c0))) = true.
  Proof.
    intros sc c0 HWF HC HS HINV HNDI. apply fixpoint_two; try assumption; try reflexivity; auto.
    unfold clean_run, first_opts in HC. apply andb_true_iff in HC. destruct HC as [HC _].
    unfold fix_opts. rewrite HC, HS. reflexivity.
  Qed.

  (* with ExitEarly the hypothesis on the invalid set follows from cleanness *)
  Theorem fixpoint_model_exit_early : forall sc c0,
    WF sc c0 ->
    clean_run sc (run sc c0) = true ->
    o_ssa (sc_opts sc) = false ->
    o_valpol (sc_opts sc) = VExitEarly ->
    NoDup (prev_of c0) ->
    fix_ok (out_final (run sc c0)) (run sc (out_final (run sc c0))) = true.
  Proof.
    intros sc c0 HWF HC HS HV HNDI. apply fixpoint_model; try assumption.
    apply exit_early_no_invalid; [exact HV|].
    unfold clean_run in HC. apply andb_true_iff in HC. destruct HC as [_ HC]. apply clean_no_bad in HC. apply HC.
  Qed.

  Lemma fix_hyps_sound sc c0 : fix_hyps sc c0 = true ->
    clean_run sc (run sc c0) = true /\ pl_invalid (plan_of sc c0) = [] /\ NoDup (prev_of c0).
  Proof.
    unfold fix_hyps, no_invalid. intros H. apply andb_true_iff in H. destruct H as [H H3].
    apply andb_true_iff in H. destruct H as [H1 H2]. split; [exact H1|]. split; [|apply nodupb_sound; exact H3].
    destruct (pl_invalid (plan_of sc c0)); [reflexivity|discriminate].
  Qed.

  Theorem fixpoint_bool : forall sc1 sc2 c0,
    WF sc1 c0 -> fix_hyps sc1 c0 = true -> fix_second sc1 sc2 = true -> sc_univ sc2 = sc_univ sc1 ->
    fix_ok (out_final (run sc1 c0)) (run sc2 (out_final (run sc1 c0))) = true.
  Proof.
    intros sc1 sc2 c0 HWF H1 H2 HU. destruct (fix_hyps_sound _ _ H1) as [A [B C]].
    unfold fix_second in H2. apply andb_true_iff in H2. destruct H2 as [H2 P].
    apply andb_true_iff in H2. destruct H2 as [O E].
    apply fixpoint_two; try assumption.
    - apply nl_eqb_eq. exact E.
    - intros X. rewrite X in P. cbn in P. exact P.
  Qed.

  (* the reading asked for: no create / delete / inventory create / inventory delete request, same inventory *)
  Theorem fixpoint_no_create_delete : forall sc c0,
    WF sc c0 -> clean_run sc (run sc c0) = true -> o_ssa (sc_opts sc) = false ->
    pl_invalid (plan_of sc c0) = [] -> NoDup (prev_of c0) ->
    let c1 := out_final (run sc c0) in
    (forall r ok, In (r, ok) (reqs (out_trace (run sc c1))) ->
       match r with RCreate _ _ | RDelete _ _ _ | RInvCreate _ | RInvDelete => False | _ => True end) /\
    inv (out_final (run sc c1)) = inv c1.
  Proof.
    intros sc c0 HWF HC HS HINV HNDI c1. pose proof (fixpoint_model sc c0 HWF HC HS HINV HNDI) as F.
    fold c1 in F. unfold fix_ok in F. apply andb_true_iff in F. destruct F as [F1 F2]. split.
    - intros r ok Hx. rewrite forallb_forall in F1. specialize (F1 _ Hx). unfold fix_req_ok in F1. cbn [fst] in F1.
      destruct r; try exact I; discriminate.
    - symmetry. apply optl_eqb_eq. exact F2.
  Qed.

  (* the executable check of the correspondence accepts the model's own history of two runs; "the second
     run prunes only if the first one did" is part of `same` inside c03_fixpoint (as are the validity
     attributes l_baddep / l_finv of the manifests), so it is no premise here.  The premise on the invalid
     set stays: with identical manifests the SAME-scenario invalid case is exactly what is not proved. *)
  Theorem fixpoint_monitor : forall sc1 sc2 c0,
    WF sc1 c0 -> pl_invalid (plan_of sc1 c0) = [] -> NoDup (prev_of c0) -> sc_univ sc2 = sc_univ sc1 ->
    c03_fixpoint c0 [(sc1, run sc1 c0); (sc2, run sc2 (out_final (run sc1 c0)))] = true.
  Proof.
    intros sc1 sc2 c0 HWF HINV HNDI HU. cbn [c03_fixpoint]. rewrite andb_true_r.
    match goal with |- negb ?g || _ = true => destruct g eqn:G end; [|reflexivity]. cbn [negb orb].
    apply andb_true_iff in G. destruct G as [G _]. apply andb_true_iff in G. destruct G as [S C1].
    apply andb_true_iff in S. destruct S as [S _].
    apply andb_true_iff in S. destruct S as [S A7].
    apply andb_true_iff in S. destruct S as [S A6].
    apply andb_true_iff in S. destruct S as [S A5].
    apply andb_true_iff in S. destruct S as [S AP].
    apply andb_true_iff in S. destruct S as [S _].
    apply andb_true_iff in S. destruct S as [S A3].
    apply andb_true_iff in S. destruct S as [A1 A2].
    pose proof (fixpoint_two sc1 sc2 c0 HWF) as F. unfold fix_ok, fix_req_ok in F. apply F; try assumption.
    - unfold clean_run, first_opts. rewrite A1, A5. cbn [andb]. exact C1.
    - unfold fix_opts. rewrite A2, A6, A7. reflexivity.
    - symmetry. apply nl_eqb_eq. exact A3.
    - intros P2. rewrite P2 in AP. cbn in AP. exact AP.
  Qed.
End WithMonitor.

(* ---- non-vacuity: a concrete history ------------------------------------------------------------------ *)
(* objects 0, 1, 2; the cluster holds 0 (older version) and 2, both tracked; the manifest declares 0 (new
   version) and 1 (depends on 0): the clean first run patches 0, creates 1 and (with pruning) deletes 2 *)
Definition fix_ex_univ := [mkU KPlain None None; mkU KPlain None None; mkU KPlain None None].
Definition fix_ex_w :=
  mkW [mkS 0 SCurrent true 0%N 2%Z; mkS 1 SCurrent true 0%N 2%Z; mkS 2 SCurrent true 0%N 2%Z;
       mkS 0 SNotFound false 0%N 0%Z; mkS 1 SNotFound false 0%N 0%Z; mkS 2 SNotFound false 0%N 0%Z] WCancel.
Definition fix_ex_opts (prune : bool) :=
  mkO false prune PMustMatch DNone VSkipInvalid false false false false PropBackground false.
Definition fix_ex_sc (prune : bool) :=
  mkSc fix_ex_univ None [mkL 0 [] false false false 2; mkL 1 [0] false false false 1] (fix_ex_opts prune)
       (mkE [] [fix_ex_w; fix_ex_w; fix_ex_w] CNever None).
Definition fix_ex_c0 :=
  mkCl [mkC 0 10%N OOurs false [] false 1 (Some (mkLA OOurs false [] false 1));
        mkC 2 11%N OOurs false [] false 1 None] (Some [0; 2]) 20%N.

Lemma fix_ex_WF prune : WF (fix_ex_sc prune) fix_ex_c0.
Proof. apply wf_b_spec. destruct prune; vm_compute; reflexivity. Qed.

(* all decidable hypotheses hold, with and without pruning *)
Example fix_ex_hyps :
  fix_hyps (fix_ex_sc true) fix_ex_c0 = true /\ fix_second (fix_ex_sc true) (fix_ex_sc true) = true /\
  fix_hyps (fix_ex_sc false) fix_ex_c0 = true /\ fix_second (fix_ex_sc false) (fix_ex_sc false) = true.
Proof. vm_compute. repeat split; reflexivity. Qed.

(* the first run is not trivial: an accepted patch, an accepted create and an accepted delete *)
Example fix_ex_first_run :
  let t := out_trace (run (fix_ex_sc true) fix_ex_c0) in
  In (RPatch 0 false false, true) (reqs t) /\ In (RCreate 1 false, true) (reqs t) /\
  In (RDelete 2 11%N PropBackground, true) (reqs t) /\
  inv (out_final (run (fix_ex_sc true) fix_ex_c0)) = Some [0; 1] /\
  inv (out_final (run (fix_ex_sc false) fix_ex_c0)) = Some [0; 1; 2].
Proof. vm_compute. repeat split; auto 10. Qed.

(* the conclusion on this instance, computed (independent of the theorem) *)
Example fix_ex_second_run :
  fix_ok (out_final (run (fix_ex_sc true) fix_ex_c0)) (run (fix_ex_sc true) (out_final (run (fix_ex_sc true) fix_ex_c0))) = true /\
  fix_ok (out_final (run (fix_ex_sc false) fix_ex_c0)) (run (fix_ex_sc false) (out_final (run (fix_ex_sc false) fix_ex_c0))) = true.
Proof. vm_compute. split; reflexivity. Qed.

(* ---- the two-scenario statement needs "the second run prunes only if the first one did" ------------ *)
(* first run without pruning (object 2 stays tracked), second run with pruning: object 2 is deleted.
   `same` inside c03_fixpoint compares the pruning options (a second run that prunes what the first
   one was told to leave is not "the same apply"), so the executable check accepts this history *)
Lemma fix_two_needs_prune_agree : exists sc1 sc2 c0,
  WF sc1 c0 /\ fix_hyps sc1 c0 = true /\ fix_opts sc2 = true /\
  map l_id (sc_local sc2) = map l_id (sc_local sc1) /\
  fix_ok (out_final (run sc1 c0)) (run sc2 (out_final (run sc1 c0))) = false /\
  c03_fixpoint c0 [(sc1, run sc1 c0); (sc2, run sc2 (out_final (run sc1 c0)))] = true.
Proof.
  exists (fix_ex_sc false), (fix_ex_sc true), fix_ex_c0. split; [apply fix_ex_WF|].
  vm_compute. repeat split; reflexivity.
Qed.

(* ---- ... and an empty invalid set, when the second scenario may repair an invalid manifest ------- *)
(* manifest 0 carries a malformed depends-on annotation in the first run (invalid, skipped under
   VSkipInvalid: the run is clean) and a well-formed manifest in the second: object 0 is created *)
Definition fix_rp_sc (bad : bool) :=
  mkSc [mkU KPlain None None; mkU KPlain None None] None
       [mkL 0 [] bad false false 1; mkL 1 [] false false false 1]
       (mkO false true PMustMatch DNone VSkipInvalid false false false false PropBackground false)
       (mkE [] [mkW [mkS 0 SCurrent true 0%N 2%Z; mkS 1 SCurrent true 0%N 2%Z] WCancel] CNever None).
Definition fix_rp_c0 := mkCl [] None 1%N.

Lemma fix_rp_WF bad : WF (fix_rp_sc bad) fix_rp_c0.
Proof. apply wf_b_spec. destruct bad; vm_compute; reflexivity. Qed.

Lemma fix_two_needs_no_invalid : exists sc1 sc2 c0,
  WF sc1 c0 /\ clean_run sc1 (run sc1 c0) = true /\ NoDup (prev_of c0) /\ fix_second sc1 sc2 = true /\
  pl_invalid (plan_of sc1 c0) <> [] /\
  fix_ok (out_final (run sc1 c0)) (run sc2 (out_final (run sc1 c0))) = false /\
  In (RCreate 0 false, true) (reqs (out_trace (run sc2 (out_final (run sc1 c0))))) /\
  (* `same` inside c03_fixpoint compares l_baddep / l_finv: the executable check accepts this history *)
  c03_fixpoint c0 [(sc1, run sc1 c0); (sc2, run sc2 (out_final (run sc1 c0)))] = true /\
  (* with the identical scenario the fixpoint holds on this instance *)
  fix_ok (out_final (run sc1 c0)) (run sc1 (out_final (run sc1 c0))) = true.
Proof.
  exists (fix_rp_sc true), (fix_rp_sc false), fix_rp_c0. split; [apply fix_rp_WF|].
  split; [vm_compute; reflexivity|]. split; [constructor|]. split; [vm_compute; reflexivity|].
  split; [vm_compute; discriminate|]. split; [vm_compute; reflexivity|].
  split; [vm_compute; auto|]. split; vm_compute; reflexivity.
Qed.

(* ---- ... and one universe for both runs (dynamic type knowledge) ------------------------------------- *)
(* The first scenario knows object 1 as a built-in kind, the second as a custom resource of CRD 2, which is
   not in the cluster: in the second run the pruner skips the tracked object 1 unread (unknown type), the
   retention table drops it and the inventory is rewritten as [0].  The executable check rejects this
   history too; (sc2, final cluster of the first run) is not well-formed (WF clause 8). *)
Definition fix_un_sc (u : list uinfo) :=
  mkSc u None [mkL 0 [] false false false 1]
       (mkO false false PMustMatch DNone VSkipInvalid false false false false PropBackground false)
       (mkE [] [mkW [mkS 0 SCurrent true 0%N 2%Z] WCancel] CNever None).
Definition fix_un_u1 := [mkU KPlain None None; mkU KPlain None None; mkU KCrd None None].
Definition fix_un_u2 := [mkU KPlain None None; mkU KPlain None (Some 2); mkU KCrd None None].
Definition fix_un_c0 :=
  mkCl [mkC 0 10%N OOurs false [] false 1 (Some (mkLA OOurs false [] false 1)); mkC 1 11%N OOurs false [] false 1 None]
       (Some [0; 1]) 20%N.

Lemma fix_two_needs_same_universe : exists sc1 sc2 c0,
  WF sc1 c0 /\ fix_hyps sc1 c0 = true /\ fix_second sc1 sc2 = true /\ sc_univ sc2 <> sc_univ sc1 /\
  fix_ok (out_final (run sc1 c0)) (run sc2 (out_final (run sc1 c0))) = false /\
  c03_fixpoint c0 [(sc1, run sc1 c0); (sc2, run sc2 (out_final (run sc1 c0)))] = false /\
  wf_b sc2 (out_final (run sc1 c0)) = false /\
  fix_ok (out_final (run sc1 c0)) (run sc1 (out_final (run sc1 c0))) = true.
Proof.
  exists (fix_un_sc fix_un_u1), (fix_un_sc fix_un_u2), fix_un_c0.
  split; [apply wf_b_spec; vm_compute; reflexivity|].
  split; [vm_compute; reflexivity|]. split; [vm_compute; reflexivity|]. split; [discriminate|].
  split; [vm_compute; reflexivity|]. split; [vm_compute; reflexivity|]. split; vm_compute; reflexivity.
Qed.

(* ---- ... and a duplicate-free initial inventory, when the second scenario may rewrite the inventory -- *)
(* the stored key list [0; 0] survives the first run (same key set: no write); a second run with
   StatusPolicyAll rewrites it as [0] *)
Definition fix_dp_sc (spa : bool) :=
  mkSc [mkU KPlain None None] None [mkL 0 [] false false false 1]
       (mkO false true PMustMatch DNone VSkipInvalid false false false false PropBackground spa)
       (mkE [] [mkW [mkS 0 SCurrent true 0%N 2%Z] WCancel] CNever None).
Definition fix_dp_c0 :=
  mkCl [mkC 0 10%N OOurs false [] false 1 (Some (mkLA OOurs false [] false 1))] (Some [0; 0]) 20%N.

Lemma fix_dp_WF spa : WF (fix_dp_sc spa) fix_dp_c0.
Proof. apply wf_b_spec. destruct spa; vm_compute; reflexivity. Qed.

Lemma fix_two_needs_nodup : exists sc1 sc2 c0,
  WF sc1 c0 /\ clean_run sc1 (run sc1 c0) = true /\ pl_invalid (plan_of sc1 c0) = [] /\
  fix_second sc1 sc2 = true /\ ~ NoDup (prev_of c0) /\
  fix_ok (out_final (run sc1 c0)) (run sc2 (out_final (run sc1 c0))) = false /\
  (* with the identical scenario the fixpoint holds on this instance *)
  fix_ok (out_final (run sc1 c0)) (run sc1 (out_final (run sc1 c0))) = true.
Proof.
  exists (fix_dp_sc false), (fix_dp_sc true), fix_dp_c0. split; [apply fix_dp_WF|].
  split; [vm_compute; reflexivity|]. split; [vm_compute; reflexivity|]. split; [vm_compute; reflexivity|].
  split.
  - cbn. intros H. inversion H as [|? ? X _]; subst. apply X. left. reflexivity.
  - split; vm_compute; reflexivity.
Qed.

Print Assumptions C03_stable_run_gen.
Print Assumptions C03_stable_bool.
Print Assumptions C03_stable_run.
Print Assumptions fixpoint_two.
Print Assumptions fixpoint_model.
Print Assumptions fixpoint_model_exit_early.
Print Assumptions fixpoint_bool.
Print Assumptions fixpoint_no_create_delete.
Print Assumptions fixpoint_monitor.
Print Assumptions fix_two_needs_prune_agree.
Print Assumptions fix_two_needs_no_invalid.
Print Assumptions fix_two_needs_nodup.
Print Assumptions fix_ex_hyps.
