(* mon_C06p as a theorem about the model, part 2: the invariant `GI` of a run.
   - `good strict`: every wait event emitted so far satisfies the two clauses;
   - `RL`: the reconcile field of every record = the last wait event of its id;
   - ids of tasks still to come have no wait event yet;
   - the record of an apply id is an SApply record whose actuation is the last
     apply result event of the id (pending iff there is none); likewise prune ids
     and SDelete records (apply ids and prune ids are disjoint).  This makes
     `w_skipped` of an id of a wait group equal to "its last result event is
     Failed or Skipped", clause (1) of the monitor.
   Carried through every task by the exact specifications of PipelineOrphansSpec
   and the wait machine of PipelineMonC06pWait. *)
From Coq Require Import List Bool Arith NArith ZArith Lia Permutation.
From CliUtils Require Import Model.ObjSet Model.ActuationTable Model.PipelineTypes Model.Pipeline
     Proofs.ObjSetProofs Proofs.ActuationTableProofs Proofs.PipelineBase Proofs.PipelineAuth Proofs.PipelineEvents
     Proofs.PipelineMisc Corr.CorrPipeline Proofs.PipelineOrphansBase Proofs.PipelineOrphansSpec Proofs.PipelineOrphansInv
     Proofs.PipelineOrphansPlan Proofs.PipelineMonBase Proofs.PipelineMonC02a
     Proofs.PipelineMonC03a Proofs.PipelineMonC06pDefs Proofs.PipelineMonC06pWait.
Import ListNotations.

Definition actm (o : option ast) (a : actuation) : Prop :=
  match o with None => a = APending | Some x => a <> APending /\ ast_of a = x end.

(* the ids of the wait task at the head of a task list *)
Definition hdw (ts : list task) : list id :=
  match ts with TWait _ _ ids :: _ => ids | _ => [] end.
Definition futof (ts : list task) : list id := todo_of ts ++ hdw ts.

Lemma todo_app a b : todo_of (a ++ b) = todo_of a ++ todo_of b.
Proof. unfold todo_of. apply flat_map_app. Qed.

Lemma snap_plain cl lt : Forall (snap_of cl) lt -> Forall plain lt.
Proof. intros F. eapply Forall_impl; [|exact F]. intros it [r [ok [-> _]]]. apply plain_req. Qed.

Section Inv.
  Variable sc : scenario.
  Variables strict mode : bool.
  Variable pl : plan.
  Notation aids := (apply_ids pl).
  Notation pds := (pids pl).
  Notation calm := (calm strict mode).
  Hypothesis pl_disj : forall i, In i aids -> ~ In i pds.
  Hypothesis pl_loc : plan_local pl.
  Hypothesis Hdel : forall k d, In d (w_deliv (nth k (e_waits (sc_env sc)) (mkW [] WTimeout))) -> calm d.

  Record GI (fut : list id) (s : rst) : Prop := {
    G_good : good strict (r_tr s);
    G_rl : RL s;
    (* outside dry-run (no wait task otherwise): the cache entries about objects still to be waited for
       are calm; what the apply-time mutator Put there is about objects whose wait is over *)
    G_cache : is_dry (o_dry (sc_opts sc)) = false -> forall o, In o (r_cache s) -> In (s_id o) fut -> calm o;
    G_nw : forall j, In j fut -> lw (r_tr s) j = None;
    G_act : forall j st a u, tv s j = Some (st, a, u) ->
              (In j aids -> st = SApply /\ actm (la (r_tr s) j) a) /\
              (o_prune (sc_opts sc) = true -> In j pds -> st = SDelete /\ actm (la (r_tr s) j) a);
    G_reg : forall j, In j aids \/ (o_prune (sc_opts sc) = true /\ In j pds) -> tv s j <> None;
  }.

  Lemma GI_weaken fut fut' s : incl fut' fut -> GI fut s -> GI fut' s.
  Proof. intros I []. constructor; auto. Qed.

  Lemma GI_plain fut s s' lt :
    r_tbl s' = r_tbl s -> r_cache s' = r_cache s -> r_tr s' = lt ++ r_tr s -> Forall plain lt ->
    GI fut s -> GI fut s'.
  Proof.
    intros ET EC ETR F [].
    assert (TV : forall j, tv s' j = tv s j) by (intros j; unfold tv; rewrite ET; reflexivity).
    constructor.
    - rewrite ETR. apply good_app_plain; assumption.
    - eapply RL_frame; [exact ET|exact ETR| |exact G_rl0].
      intros j. eapply Forall_impl; [|exact F]. intros it P. apply P.
    - rewrite EC. exact G_cache0.
    - intros j Hj. rewrite ETR, lw_app_plain by exact F. apply G_nw0. exact Hj.
    - intros j st a u. rewrite TV, ETR, la_app_plain by exact F. apply G_act0.
    - intros j Hj. rewrite TV. apply G_reg0. exact Hj.
  Qed.

  Lemma GI_ev fut s e : plain (IEv e) -> GI fut s -> GI fut (ev s e).
  Proof.
    intros P. apply (GI_plain fut s (ev s e) [IEv e]); try reflexivity. constructor; [exact P|constructor].
  Qed.

  (* ---- one result record ------------------------------------------------------------------------ *)
  Lemma GI_result fut s s' i st a u gen e lt :
    GI fut s -> In i fut ->
    r_tbl s' = set_status Nat.eqb (r_tbl s) (mkRec i st a RPending u gen) -> a <> APending ->
    r_tr s' = IEv e :: lt ++ r_tr s -> Forall plain lt ->
    (exists ex, r_cache s' = ex ++ r_cache s /\
                (is_dry (o_dry (sc_opts sc)) = false -> forall o, In o ex -> ~ In (s_id o) fut)) ->
    ( (st = SApply /\ In i aids /\ exists g, e = EApply g i (ast_of a)) \/
      (st = SDelete /\ In i pds /\ o_prune (sc_opts sc) = true /\ exists g, e = EPrune g i (ast_of a)) ) ->
    GI fut s'.
  Proof.
    intros [] Hi ET HA ETR F EC ALT.
    assert (WE : forall j, wsel j (IEv e) = []) by (intros j; destruct ALT as [[_ [_ [g ->]]]|[_ [_ [_ [g ->]]]]]; reflexivity).
    assert (LA : la (r_tr s') i = Some (ast_of a)).
    { rewrite ETR. destruct ALT as [[_ [_ [g ->]]]|[_ [_ [_ [g ->]]]]]; [apply la_cons_apply|apply la_cons_prune]. }
    assert (LO : forall j, j <> i -> la (r_tr s') j = la (r_tr s) j).
    { intros j N. rewrite ETR, la_cons_other; [apply la_app_plain; exact F|].
      destruct ALT as [[_ [_ [g ->]]]|[_ [_ [_ [g ->]]]]]; [apply asel_other_apply|apply asel_other_prune]; exact N. }
    assert (TV : forall j, tv s' j = if Nat.eqb i j then Some (st, a, u) else tv s j).
    { intros j. unfold tv. rewrite ET, tvl_set_status. reflexivity. }
    constructor.
    - rewrite ETR. cbn [good]. split; [|apply good_app_plain; assumption].
      destruct ALT as [[_ [_ [g ->]]]|[_ [_ [_ [g ->]]]]]; reflexivity.
    - apply (RL_set_status s s' (mkRec i st a RPending u gen) (IEv e :: lt)); try assumption; try reflexivity.
      + intros j. constructor; [apply WE|]. eapply Forall_impl; [|exact F]. intros it P. apply P.
      + cbn [r_id]. apply G_nw0. exact Hi.
    - destruct EC as [ex [EC EX]]. rewrite EC. intros DR o Ho Hf. apply in_app_or in Ho.
      destruct Ho as [Ho|Ho]; [exfalso; exact (EX DR o Ho Hf)|exact (G_cache0 DR o Ho Hf)].
    - intros j Hj. rewrite ETR, lw_cons_other by apply WE. rewrite lw_app_plain by exact F. apply G_nw0. exact Hj.
    - intros j st' a' u'. rewrite TV. destruct (Nat.eqb i j) eqn:E.
      + apply Nat.eqb_eq in E. subst j. intros [= <- <- <-]. rewrite LA.
        destruct ALT as [[-> [Ha _]]|[-> [Hp [PO _]]]].
        * split; [intros _; split; [reflexivity|split; [exact HA|reflexivity]]|].
          intros _ Hp. exfalso. exact (pl_disj i Ha Hp).
        * split; [intros Ha; exfalso; exact (pl_disj i Ha Hp)|].
          intros _ _. split; [reflexivity|split; [exact HA|reflexivity]].
      + apply Nat.eqb_neq in E. rewrite (LO j) by congruence. apply G_act0.
    - intros j Hj. rewrite TV. destruct (Nat.eqb i j); [discriminate|apply G_reg0; exact Hj].
  Qed.

  (* ---- apply and prune tasks ---------------------------------------------------------------------- *)
  Lemma g_apply_task g fut layer : Forall (local_ok' pl) layer -> incl (map p_id layer) fut ->
    forall s, GI fut s -> GI fut (apply_task sc pl g s layer).
  Proof.
    unfold apply_task. induction layer as [|p t IH]; intros HL IN s H; cbn [fold_left]; [exact H|].
    inversion HL as [|? ? Hp Ht]; subst. apply IH; [exact Ht|intros x Hx; apply IN; right; exact Hx|].
    destruct Hp as [l [EL [EI [Ha HG]]]].
    destruct (apply_one_spec sc pl g s p l EL EI) as [_ [a [u [gen [lt [ET [ETR [FS ALT]]]]]]]]. cbv zeta in *.
    apply (GI_result fut s _ (p_id p) SApply a u gen (EApply g (p_id p) (ast_of a)) lt); try assumption.
    - apply IN. left. reflexivity.
    - destruct ALT as [[[-> | ->] _]|[[-> _]|[-> _]]]; discriminate.
    - eapply Forall_snap2_shape; [|exact FS]. intros c it [r [ok [-> _]]]. apply plain_req.
    - (* the sources the mutator Put into the cache passed the dependency filter: outside dry-run they are
         reconciled, so their wait task is over *)
      destruct (cache_apply_one sc pl g s p) as [ex [EC HX]]. exists ex. split; [exact EC|].
      intros DR o Ho Hf. destruct (HX o Ho) as [l0 [EL0 [_ [HS [_ DF]]]]]. rewrite EL in EL0. injection EL0 as <-.
      destruct (dep_filter_pass_rec sc pl _ _ _ DF (s_id o) (HG _ HS)) as [_ [r [Lr [_ [_ RS]]]]].
      destruct RS as [X|RS]; [rewrite DR in X; discriminate|].
      pose proof (G_rl _ _ H (s_id o) r Lr) as RR. rewrite RS in RR.
      rewrite (G_nw _ _ H (s_id o) Hf) in RR. discriminate RR.
    - left. split; [reflexivity|]. split; [exact Ha|]. exists g. reflexivity.
  Qed.

  Lemma g_prune_fold locals g uids fut layer : o_prune (sc_opts sc) = true ->
    Forall (prune_ok pl) layer -> incl (map p_id layer) fut ->
    forall s, GI fut s -> GI fut (fold_left (prune_one sc pl locals g uids) layer s).
  Proof.
    intros PO. induction layer as [|p t IH]; intros HL IN s H; cbn [fold_left]; [exact H|].
    inversion HL as [|? ? Hp Ht]; subst. apply IH; [exact Ht|intros x Hx; apply IN; right; exact Hx|].
    destruct Hp as [c [-> Hc]].
    destruct (prune_one_spec sc pl locals g uids s c) as [a [u [ab [lt [ET [_ [ETR [FS [_ ALT]]]]]]]]]. cbv zeta in *.
    apply (GI_result fut s _ (c_id c) SDelete a u 0%Z (EPrune g (c_id c) (ast_of a)) lt); try assumption.
    - apply IN. left. reflexivity.
    - destruct ALT as [[[-> | ->] _]|[[-> _]|[[-> _]|[[-> _]|[[-> _]|[-> _]]]]]]; discriminate.
    - eapply snap_plain. exact FS.
    - exists []. split; [apply cache_prune_one|intros _ o []].
    - right. split; [reflexivity|]. split; [|split; [exact PO|exists g; reflexivity]].
      unfold pids. apply in_map_iff. exists (pobj_of_live c). split; [reflexivity|exact Hc].
  Qed.

  (* ---- the wait task -------------------------------------------------------------------------------- *)
  Definition wcond_ok (c : wcond) (ids : list id) : Prop :=
    match c with
    | AllCurrent => forall j, In j ids -> In j aids
    | AllNotFound => o_prune (sc_opts sc) = true /\ forall j, In j ids -> In j pds
    end.

  Lemma wcond_reg c ids j : wcond_ok c ids -> In j ids ->
    In j aids \/ (o_prune (sc_opts sc) = true /\ In j pds).
  Proof. destruct c; cbn; intros H Hj; [left; apply H; exact Hj|right; destruct H as [PO H]; auto]. Qed.

  Lemma wsk_spec fut s c ids i : GI fut s -> wcond_ok c ids -> In i ids ->
    w_skipped c s i = bad (la (r_tr s) i).
  Proof.
    intros H WC Hi. unfold w_skipped. rewrite !is_actuation_tv.
    destruct (tv s i) as [[[st a] u]|] eqn:T.
    2:{ exfalso. apply (G_reg _ _ H i (wcond_reg c ids i WC Hi)). exact T. }
    destruct (G_act _ _ H i st a u T) as [A1 A2].
    destruct c; cbn in WC.
    - destruct (A1 (WC i Hi)) as [-> M]. destruct (la (r_tr s) i) as [x|]; cbn in M.
      + destruct M as [N <-]. destruct a; try reflexivity. contradiction.
      + subst a. reflexivity.
    - destruct WC as [PO WC]. destruct (A2 PO (WC i Hi)) as [-> M]. destruct (la (r_tr s) i) as [x|]; cbn in M.
      + destruct M as [N <-]. destruct a; try reflexivity. contradiction.
      + subst a. reflexivity.
  Qed.

  Lemma g_wait_task c g ids fut fut' s : is_dry (o_dry (sc_opts sc)) = false -> NoDup ids -> wcond_ok c ids -> incl ids fut ->
    (forall j, In j fut' -> In j fut /\ ~ In j ids) ->
    GI fut s -> GI fut' (wait_task sc c g ids s).
  Proof.
    intros DR ND WC IN FUT H.
    assert (P : WP strict mode ids s (fun i => In i fut) (wait_task sc c g ids s)).
    { apply (wp_wait_task sc strict mode c g ids s ND).
      - intros i Hi. apply (wsk_spec fut s c ids i H WC Hi).
      - intros i Hi. apply (G_reg _ _ H). apply (wcond_reg c ids i WC Hi).
      - exact IN.
      - exact Hdel.
      - exact (G_good _ _ H).
      - exact (G_rl _ _ H).
      - exact (G_cache _ _ H DR).
      - intros i Hi. apply (G_nw _ _ H). apply IN. exact Hi. }
    destruct P. destruct H. constructor.
    - exact P_good.
    - exact P_rl.
    - intros _ o Ho Hf. apply (P_cache o Ho). exact (proj1 (FUT _ Hf)).
    - intros j Hj. destruct (FUT j Hj) as [A B]. rewrite (P_out j B). apply G_nw0. exact A.
    - intros j st a u. rewrite P_tv, P_la. apply G_act0.
    - intros j Hj. rewrite P_tv. apply G_reg0. exact Hj.
  Qed.

  (* ---- the runner ---------------------------------------------------------------------------------------- *)
  Fixpoint wsch (ts : list task) : Prop :=
    match ts with
    | [] => True
    | TApply _ l :: r => Forall (local_ok' pl) l /\ incl (hdw r) (map p_id l) /\ wsch r
    | TPrune _ l :: r => o_prune (sc_opts sc) = true /\ Forall (prune_ok pl) l /\ incl (hdw r) (map p_id l) /\ wsch r
    | TWait _ c ids :: r => is_dry (o_dry (sc_opts sc)) = false /\
                           NoDup ids /\ (forall j, In j ids -> ~ In j (todo_of r)) /\ hdw r = [] /\
                           wcond_ok c ids /\ wsch r
    | _ :: r => hdw r = [] /\ wsch r
    end.

  Lemma g_run_task locals prev s t rest : wsch (t :: rest) -> GI (futof (t :: rest)) s ->
    GI (futof rest) (fst (run_task sc pl locals prev s t)) /\ wsch rest.
  Proof.
    intros SC H. unfold run_task. cbv zeta.
    assert (S0 : GI (futof (t :: rest)) (ev s (EStarted (task_name t)))) by (apply GI_ev; [apply plain_ev_started|exact H]).
    assert (FIN : forall fut s1, GI fut s1 -> GI fut (ev s1 (EFinished (task_name t))))
      by (intros; apply GI_ev; [apply plain_ev_finished|assumption]).
    destruct t; cbn [wsch] in SC.
    - (* inventory-add *)
      destruct SC as [HW SC]. split; [|exact SC].
      destruct (inv_add_task_spec sc pl (ev s (EStarted (task_name TInvAdd))) pl_loc) as [ET [_ [cl1 [lt1 [lt2 [ETR [L1 [_ [L2 _]]]]]]]]].
      pose proof (cache_inv_add_task sc pl (ev s (EStarted (task_name TInvAdd)))) as EC.
      destruct (inv_add_task sc pl _) as [s1 ok]. cbn [fst snd] in *. apply FIN.
      apply (GI_weaken (futof (TInvAdd :: rest))).
      { intros x Hx. unfold futof in *. rewrite HW, app_nil_r in Hx. apply in_or_app. left. exact Hx. }
      apply (GI_plain _ _ s1 (lt2 ++ lt1) ET EC); [rewrite <- app_assoc; exact ETR| |exact S0].
      apply Forall_app. split; [eapply snap_plain; exact L2|].
      destruct L1 as [[_ L1]|[_ [n [u [_ [_ [_ [_ ->]]]]]]]]; [eapply snap_plain; exact L1|].
      constructor; [apply plain_req|constructor].
    - (* apply *)
      destruct SC as [HL [HW SC]]. split; [|exact SC]. cbn [fst]. apply FIN.
      apply (GI_weaken (futof (TApply k layer :: rest))).
      { unfold futof. cbn [todo_of flat_map hdw]. rewrite app_nil_r. intros x Hx. apply in_app_or in Hx.
        apply in_or_app. destruct Hx as [Hx|Hx]; [right; exact Hx|left; apply HW; exact Hx]. }
      apply g_apply_task; [exact HL| |exact S0].
      unfold futof. cbn [todo_of flat_map]. intros x Hx. apply in_or_app. left. apply in_or_app. left. exact Hx.
    - (* wait *)
      destruct SC as [DR [ND [HD [HW [WC SC]]]]]. split; [|exact SC]. cbn [fst]. apply FIN.
      apply (g_wait_task c (task_name (TWait k c ids)) ids (futof (TWait k c ids :: rest))); try assumption.
      + unfold futof. cbn [hdw]. intros x Hx. apply in_or_app. right. exact Hx.
      + unfold futof. rewrite HW, app_nil_r. cbn [todo_of flat_map hdw app]. intros j Hj.
        split; [apply in_or_app; left; exact Hj|]. intros X. exact (HD j X Hj).
    - (* prune *)
      destruct SC as [PO [HL [HW SC]]]. split; [|exact SC]. cbn [fst]. apply FIN.
      apply (GI_weaken (futof (TPrune k layer :: rest))).
      { unfold futof. cbn [todo_of flat_map hdw]. rewrite app_nil_r. intros x Hx. apply in_app_or in Hx.
        apply in_or_app. destruct Hx as [Hx|Hx]; [right; exact Hx|left; apply HW; exact Hx]. }
      unfold prune_task. apply g_prune_fold; [exact PO|exact HL| |exact S0].
      unfold futof. cbn [todo_of flat_map]. intros x Hx. apply in_or_app. left. apply in_or_app. left. exact Hx.
    - (* inventory-set *)
      destruct SC as [HW SC]. split; [|exact SC].
      destruct (inv_set_task_spec sc pl prev (ev s (EStarted (task_name TInvSet)))) as [ET [_ [_ [lt [ETR L]]]]].
      pose proof (cache_inv_set_task sc pl prev (ev s (EStarted (task_name TInvSet)))) as EC. cbv zeta in *.
      destruct (inv_set_task sc pl prev _) as [s1 ok]. cbn [fst snd] in *. apply FIN.
      apply (GI_weaken (futof (TInvSet :: rest))).
      { intros x Hx. unfold futof in *. rewrite HW, app_nil_r in Hx. apply in_or_app. left. exact Hx. }
      apply (GI_plain _ _ s1 lt ET EC ETR); [|exact S0].
      destruct L as [[_ L]|[[pv [_ [_ [_ [_ [_ ->]]]]]]|[pv [_ [_ [_ L]]]]]]; try (eapply snap_plain; exact L).
      constructor; [apply plain_req|constructor].
  Qed.

  Lemma g_run_tasks locals prev ts : forall s, wsch ts -> GI (futof ts) s ->
    exists fut, GI fut (run_tasks sc pl locals prev s ts).
  Proof.
    induction ts as [|t rest IH]; intros s SC H; cbn [run_tasks]; [eexists; exact H|].
    destruct (g_run_task locals prev s t rest SC H) as [T SC'].
    destruct (run_task sc pl locals prev s t) as [s1 ok]. cbn [fst] in T.
    destruct (negb ok); [eexists; apply GI_ev; [apply plain_ev_error|exact T]|].
    destruct (r_abort s1); [eexists; apply GI_ev; [apply plain_ev_error|exact T]|].
    apply IH; assumption.
  Qed.

  (* ---- the schedule of the task lists of solver.Build --------------------------------------------------- *)
  Lemma hdw_apply layers tail : forall ka kw, hdw tail = [] -> hdw (fst (apply_tasks sc ka kw layers) ++ tail) = [].
  Proof.
    intros ka kw HT. destruct layers as [|l t]; cbn [apply_tasks]; [exact HT|].
    destruct (is_dry _).
    - destruct (apply_tasks sc (S ka) kw t). reflexivity.
    - destruct (apply_tasks sc (S ka) (S kw) t). reflexivity.
  Qed.
  Lemma hdw_prune layers tail : forall kp kw, hdw tail = [] -> hdw (prune_tasks sc kp kw layers ++ tail) = [].
  Proof.
    intros kp kw HT. destruct layers as [|l t]; cbn [prune_tasks]; [exact HT|]. destruct (is_dry _); reflexivity.
  Qed.

  Lemma wsch_apply layers : (forall layer p, In layer layers -> In p layer -> local_ok' pl p) ->
    forall ka kw tail, NoDup (map p_id (concat layers) ++ todo_of tail) -> hdw tail = [] -> wsch tail ->
      wsch (fst (apply_tasks sc ka kw layers) ++ tail).
  Proof.
    induction layers as [|l t IH]; intros HLy ka kw tail N HT ST; cbn [apply_tasks]; [exact ST|].
    assert (Hl : Forall (local_ok' pl) l)
      by (apply Forall_forall; intros p Hp; eapply HLy; [left; reflexivity|exact Hp]).
    assert (Ht : forall layer p, In layer t -> In p layer -> local_ok' pl p)
      by (intros; eapply HLy; [right; eassumption|assumption]).
    cbn [concat] in N. rewrite map_app, <- app_assoc in N.
    apply NoDup_app_elim in N. destruct N as [N1 [N2 D]].
    destruct (is_dry (o_dry (sc_opts sc))) eqn:EDR.
    - pose proof (hdw_apply t tail (S ka) kw HT) as HH.
      specialize (IH Ht (S ka) kw tail N2 HT ST).
      destruct (apply_tasks sc (S ka) kw t) as [ts kw']. cbn [fst] in *.
      cbn [app wsch]. split; [exact Hl|]. split; [rewrite HH; intros x []|exact IH].
    - pose proof (hdw_apply t tail (S ka) (S kw) HT) as HH.
      pose proof (todo_apply_tasks sc t (S ka) (S kw)) as TD.
      specialize (IH Ht (S ka) (S kw) tail N2 HT ST).
      destruct (apply_tasks sc (S ka) (S kw) t) as [ts kw']. cbn [fst] in *.
      cbn [app wsch hdw]. split; [exact Hl|]. split; [apply incl_refl|]. split; [exact EDR|]. split; [exact N1|].
      split; [intros j Hj; rewrite todo_app, TD; apply D; exact Hj|]. split; [exact HH|]. split; [|exact IH].
      cbn [wcond_ok]. intros j Hj. apply in_map_iff in Hj. destruct Hj as [p [<- Hp]].
      rewrite Forall_forall in Hl. destruct (Hl p Hp) as [l0 [_ [_ [X _]]]]. exact X.
  Qed.

  Lemma wsch_prune layers : o_prune (sc_opts sc) = true ->
    (forall layer p, In layer layers -> In p layer -> prune_ok pl p) ->
    forall kp kw tail, NoDup (map p_id (concat layers) ++ todo_of tail) -> hdw tail = [] -> wsch tail ->
      wsch (prune_tasks sc kp kw layers ++ tail).
  Proof.
    intros PO. induction layers as [|l t IH]; intros HLy kp kw tail N HT ST; cbn [prune_tasks]; [exact ST|].
    assert (Hl : Forall (prune_ok pl) l)
      by (apply Forall_forall; intros p Hp; eapply HLy; [left; reflexivity|exact Hp]).
    assert (Ht : forall layer p, In layer t -> In p layer -> prune_ok pl p)
      by (intros; eapply HLy; [right; eassumption|assumption]).
    cbn [concat] in N. rewrite map_app, <- app_assoc in N.
    apply NoDup_app_elim in N. destruct N as [N1 [N2 D]].
    pose proof (hdw_prune t tail (S kp) kw HT) as HH0.
    pose proof (hdw_prune t tail (S kp) (S kw) HT) as HH1.
    destruct (is_dry (o_dry (sc_opts sc))) eqn:EDR.
    - cbn [app wsch]. split; [exact PO|]. split; [exact Hl|]. split; [rewrite HH0; intros x []|].
      apply IH; assumption.
    - cbn [app wsch hdw]. split; [exact PO|]. split; [exact Hl|]. split; [apply incl_refl|]. split; [exact EDR|]. split; [exact N1|].
      split; [intros j Hj; rewrite todo_app, (todo_prune_tasks sc); apply D; exact Hj|]. split; [exact HH1|].
      split; [|apply IH; assumption].
      cbn [wcond_ok]. split; [exact PO|]. intros j Hj. apply in_map_iff in Hj. destruct Hj as [p [<- Hp]].
      rewrite Forall_forall in Hl. destruct (Hl p Hp) as [c [-> X]]. unfold pids. apply in_map_iff.
      exists (pobj_of_live c). auto.
  Qed.
End Inv.
