(* mon_C03 (convergence) as a theorem about the model, part 2: the invariant
   `CInv td s` of a non-dry run.  It ties, per object, the actuation table to
   the result events of the trace (both directions), the reconcile field to
   the last wait event (`RL`), the abandoned set to the skipped prune events of
   deletion-prevented objects, "applied successfully" to "live and owned",
   "deleted successfully" to "absent"; `td` is the list of objects still to
   be actuated (as in the C01 proof).  Preservation by every task. *)
From Coq Require Import List Bool Arith NArith ZArith Lia Permutation.
From CliUtils Require Import Model.ObjSet Model.ActuationTable Model.PipelineTypes Model.Pipeline
     Proofs.ObjSetProofs Proofs.ActuationTableProofs Proofs.PipelineBase Proofs.PipelineAuth Proofs.PipelineEvents
     Corr.CorrPipeline Proofs.PipelineOrphansBase Proofs.PipelineOrphansSpec Proofs.PipelineOrphansInv
     Proofs.PipelineMonBase Proofs.PipelineMonC02a Proofs.PipelineMonC03a.
Import ListNotations.

(* the object a result / wait event speaks about *)
Definition idof (it : item) : option id :=
  match it with
  | IEv (EApply _ j _) | IEv (EPrune _ j _) | IEv (EWait _ j _) => Some j
  | _ => None
  end.
Definition noev (tr : list item) (j : id) : Prop := forall it, In it tr -> idof it <> Some j.

Lemma ast_of_ok a : ast_of a = AOk -> a = ASucceeded.
Proof. destruct a; cbn; congruence. Qed.
Lemma ast_of_skip a : ast_of a = ASkip -> a = ASkipped.
Proof. destruct a; cbn; congruence. Qed.

Lemma cons_neq_self {A} (x : A) l : x :: l <> l.
Proof. intros H. apply (f_equal (@length A)) in H. cbn in H. lia. Qed.

Lemma snap_idof cl lt : Forall (snap_of cl) lt -> forall it, In it lt -> idof it = None.
Proof. intros F it Hit. rewrite Forall_forall in F. destruct (F it Hit) as [r [ok [-> _]]]. reflexivity. Qed.

Section CI.
  Variable sc : scenario.
  Variable c0 : cluster.
  Variable pl : plan.
  Notation aids := (apply_ids pl).
  Notation pds := (pids pl).
  Hypothesis ND : is_dry (o_dry (sc_opts sc)) = false.
  Hypothesis c0_uid_lt : forall i c, fo c0 i = Some c -> (c_uid c < next_uid c0)%N.
  Hypothesis c0_uid_inj : forall i j c c', fo c0 i = Some c -> fo c0 j = Some c' -> c_uid c = c_uid c' -> i = j.
  Hypothesis pl_disj : forall i, In i aids -> ~ In i pds.
  Hypothesis pl_prune_c0 : forall c, In (pobj_of_live c) (pl_prune pl) -> fo c0 (c_id c) = Some c.
  Hypothesis pl_local : plan_local pl.

  (* registered as a skipped delete because pruning is disabled *)
  Definition unreg (j : id) : Prop :=
    o_destroy (sc_opts sc) = false /\ o_prune (sc_opts sc) = false /\ In j (map p_id (pl_prune_all pl)).
  (* registered as pending *)
  Definition regd (j : id) : Prop := In j aids \/ (o_prune (sc_opts sc) = true /\ In j pds).

  Record CInv (td : list id) (s : rst) : Prop := {
    C_nd : NoDup (ids_of (r_cl s));
    C_keys : NoDup (tkeys (r_tbl s));
    C_tdnd : NoDup td;
    C_next : (next_uid c0 <= next_uid (r_cl s))%N;
    C_uid : forall j c, fo (r_cl s) j = Some c -> okuid c0 j (c_uid c);
    C_app : forall j a u, tv s j = Some (SApply, a, u) -> In j aids /\ (a = ASucceeded -> okuid c0 j u);
    C_pend : forall j, In j td -> exists st u, tv s j = Some (st, APending, u);
    C_todo : forall j st u, tv s j = Some (st, APending, u) -> In j td;
    C_noev : forall j, In j td -> noev (r_tr s) j;
    C_evap : forall g j x, In (IEv (EApply g j x)) (r_tr s) ->
               exists a u, tv s j = Some (SApply, a, u) /\ a <> APending /\ ast_of a = x;
    C_evpr : forall g j x, In (IEv (EPrune g j x)) (r_tr s) ->
               o_prune (sc_opts sc) = true /\ In j pds /\
               exists a u, tv s j = Some (SDelete, a, u) /\ a <> APending /\ ast_of a = x;
    C_evw : forall g j x, In (IEv (EWait g j x)) (r_tr s) -> regd j;
    C_reg : forall j, regd j -> tv s j <> None;
    C_tb : forall j st a u, tv s j = Some (st, a, u) -> a <> APending ->
             (st = SApply /\ exists g, In (IEv (EApply g j (ast_of a))) (r_tr s)) \/
             (st = SDelete /\ exists g, In (IEv (EPrune g j (ast_of a))) (r_tr s)) \/
             (st = SDelete /\ a = ASkipped /\ unreg j);
    C_unreg : forall j, unreg j -> tv s j = Some (SDelete, ASkipped, 0%N);
    C_rl : RL s;
    C_ab : forall j, In j (r_aband s) ->
             (exists g, In (IEv (EPrune g j ASkip)) (r_tr s)) /\ exists c, fo c0 j = Some c /\ c_keep c = true;
    C_okap : forall g j, In (IEv (EApply g j AOk)) (r_tr s) -> exists c, fo (r_cl s) j = Some c /\ c_owner c = OOurs;
    C_gone : forall g j, In (IEv (EPrune g j AOk)) (r_tr s) -> fo (r_cl s) j = None \/ u_fin (uinfo_of sc j) = true;
    C_own : forall j c, fo (r_cl s) j = Some c -> c_owner c = OOurs -> owned0 c0 j \/ In j aids;
  }.

  (* ---- steps that record no result: events, waits, inventory tasks ----------------------------- *)
  Definition witem (td : list id) (it : item) : Prop :=
    match it with
    | IEv (EApply _ _ _) | IEv (EPrune _ _ _) => False
    | IEv (EWait _ j _) => ~ In j td /\ regd j
    | _ => True
    end.

  Definition CR (cl cl' : cluster) : Prop :=
    (NoDup (ids_of cl) -> NoDup (ids_of cl')) /\ (next_uid cl <= next_uid cl')%N /\
    forall j, fo cl' j = fo cl j \/
              (In j aids /\ exists n, fo cl' j = Some n /\ c_owner n = OOurs /\ (next_uid cl <= c_uid n)%N).

  Lemma CR_refl cl : CR cl cl.
  Proof. split; [auto|]. split; [apply N.le_refl|]. intros j. left. reflexivity. Qed.

  Lemma CR_invchg cl cl' : invchg cl cl' -> CR cl cl'.
  Proof.
    intros [E1 E2]. split; [unfold ids_of; rewrite E1; auto|]. split; [rewrite E2; apply N.le_refl|].
    intros j. left. unfold fo. rewrite E1. reflexivity.
  Qed.

  Lemma CR_trans a b c : CR a b -> CR b c -> CR a c.
  Proof.
    intros [A1 [A2 A3]] [B1 [B2 B3]]. split; [auto|]. split; [eapply N.le_trans; eassumption|].
    intros j. destruct (B3 j) as [E|[Ha [n [En [Eo Eu]]]]].
    - rewrite E. destruct (A3 j) as [E'|X]; [left; exact E'|right; exact X].
    - right. split; [exact Ha|]. exists n. split; [exact En|]. split; [exact Eo|]. eapply N.le_trans; eassumption.
  Qed.

  Lemma CInv_step td s s' l :
    tkeys (r_tbl s') = tkeys (r_tbl s) -> (forall j, tv s' j = tv s j) -> (RL s -> RL s') ->
    r_aband s' = r_aband s -> r_tr s' = l ++ r_tr s -> Forall (witem td) l -> CR (r_cl s) (r_cl s') ->
    CInv td s -> CInv td s'.
  Proof.
    intros EK ETV ERL EAB ETR F [CR1 [CR2 CR3]] H. pose proof H as [].
    rewrite Forall_forall in F.
    assert (MONO : forall it, In it (r_tr s) -> In it (r_tr s')) by (intros it Hit; rewrite ETR; apply in_or_app; right; exact Hit).
    assert (OLD : forall it, In it (r_tr s') -> idof it <> None -> (forall g j x, it <> IEv (EWait g j x)) -> In it (r_tr s)).
    { intros it Hit N1 N2. rewrite ETR in Hit. apply in_app_or in Hit. destruct Hit as [Hit|Hit]; [|exact Hit].
      exfalso. specialize (F it Hit). destruct it as [| |e|]; try (apply N1; reflexivity).
      destruct e; try (apply N1; reflexivity); try exact F. eapply N2. reflexivity. }
    constructor.
    - apply CR1. exact C_nd0.
    - rewrite EK. exact C_keys0.
    - exact C_tdnd0.
    - eapply N.le_trans; eassumption.
    - intros j c Hc. destruct (CR3 j) as [E|[_ [n [En [_ Eu]]]]].
      + rewrite E in Hc. eapply C_uid0; exact Hc.
      + rewrite En in Hc. injection Hc as <-. right. eapply N.le_trans; eassumption.
    - intros j a u. rewrite ETV. apply C_app0.
    - intros j Hj. rewrite ETV. apply C_pend0. exact Hj.
    - intros j st u. rewrite ETV. apply C_todo0.
    - intros j Hj it Hit. rewrite ETR in Hit. apply in_app_or in Hit. destruct Hit as [Hit|Hit].
      + specialize (F it Hit). destruct it as [| |e|]; try discriminate. destruct e; try discriminate; try contradiction.
        cbn. intros [= ->]. apply (proj1 F). exact Hj.
      + apply (C_noev0 j Hj it Hit).
    - intros g j x Hin. rewrite ETV. apply (C_evap0 g). apply OLD; [exact Hin|discriminate|discriminate].
    - intros g j x Hin. rewrite ETV. apply (C_evpr0 g). apply OLD; [exact Hin|discriminate|discriminate].
    - intros g j x Hin. rewrite ETR in Hin. apply in_app_or in Hin. destruct Hin as [Hin|Hin].
      + exact (proj2 (F _ Hin)).
      + eapply C_evw0. exact Hin.
    - intros j Hj. rewrite ETV. apply C_reg0. exact Hj.
    - intros j st a u. rewrite ETV. intros Ht Ha. destruct (C_tb0 j st a u Ht Ha) as [[E [g Hg]]|[[E [g Hg]]|X]].
      + left. split; [exact E|]. exists g. apply MONO. exact Hg.
      + right; left. split; [exact E|]. exists g. apply MONO. exact Hg.
      + right; right. exact X.
    - intros j Hj. rewrite ETV. apply C_unreg0. exact Hj.
    - apply ERL. exact C_rl0.
    - intros j. rewrite EAB. intros Hj. destruct (C_ab0 j Hj) as [[g Hg] K]. split; [exists g; apply MONO; exact Hg|exact K].
    - intros g j Hin. assert (Ho : In (IEv (EApply g j AOk)) (r_tr s)) by (apply OLD; [exact Hin|discriminate|discriminate]).
      destruct (C_okap0 g j Ho) as [c [Hc Hw]]. destruct (CR3 j) as [E|[_ [n [En [Eo _]]]]].
      + exists c. rewrite E. auto.
      + exists n. auto.
    - intros g j Hin. assert (Ho : In (IEv (EPrune g j AOk)) (r_tr s)) by (apply OLD; [exact Hin|discriminate|discriminate]).
      destruct (CR3 j) as [E|[Ha _]].
      + rewrite E. eapply C_gone0. exact Ho.
      + exfalso. destruct (C_evpr0 g j AOk Ho) as [_ [Hp _]]. exact (pl_disj j Ha Hp).
    - intros j c Hc Hw. destruct (CR3 j) as [E|[Ha _]]; [|right; exact Ha].
      rewrite E in Hc. eapply C_own0; eassumption.
  Qed.

  Lemma c_ev td s e : idof (IEv e) = None -> CInv td s -> CInv td (ev s e).
  Proof.
    intros HN. apply (CInv_step td s (ev s e) [IEv e]); try reflexivity.
    - apply RLs_emit. intros j. destruct e; try reflexivity; discriminate.
    - constructor; [|constructor]. destruct e; try exact I; discriminate.
    - apply CR_refl.
  Qed.

  (* ---- a result record for the object at the head of the to-do list ------------------------------ *)
  Lemma CInv_result td' s s' i st a u gen e lt :
    CInv (i :: td') s ->
    r_tbl s' = set_status Nat.eqb (r_tbl s) (mkRec i st a RPending u gen) ->
    a <> APending ->
    r_tr s' = IEv e :: lt ++ r_tr s ->
    Forall (snap2 (r_cl s) (r_cl s')) lt ->
    frame (r_cl s) (r_cl s') i ->
    ( st = SApply /\ In i aids /\ (exists g, e = EApply g i (ast_of a)) /\ r_aband s' = r_aband s /\
      (a = ASucceeded -> okuid c0 i u /\ exists c, fo (r_cl s') i = Some c /\ c_owner c = OOurs)
      \/
      st = SDelete /\ In i pds /\ o_prune (sc_opts sc) = true /\ (exists g, e = EPrune g i (ast_of a)) /\
      (r_aband s' = r_aband s \/
       r_aband s' = i :: r_aband s /\ a = ASkipped /\ exists c, fo c0 i = Some c /\ c_keep c = true) /\
      (a = ASucceeded -> fo (r_cl s') i = None \/ u_fin (uinfo_of sc i) = true) /\
      (forall c, fo (r_cl s') i = Some c -> c_owner c = OOurs -> owned0 c0 i) ) ->
    (forall c, fo (r_cl s') i = Some c -> okuid c0 i (c_uid c)) ->
    CInv td' s'.
  Proof.
    intros H ET HA ETR FS [FR1 [FR2 [FR3 FR4]]] ALT UI. pose proof H as [].
    assert (TDi : In i (i :: td')) by (left; reflexivity).
    assert (NI : ~ In i td') by (inversion C_tdnd0; assumption).
    assert (NOEV : noev (r_tr s) i) by (apply C_noev0; exact TDi).
    assert (TVS : tv s' i = Some (st, a, u)).
    { unfold tv. rewrite ET, tvl_set_status. cbn [r_id]. rewrite Nat.eqb_refl. reflexivity. }
    assert (TVO : forall j, j <> i -> tv s' j = tv s j).
    { intros j Hj. unfold tv. rewrite ET, tvl_set_status. cbn [r_id].
      destruct (Nat.eqb i j) eqn:E; [apply Nat.eqb_eq in E; congruence|reflexivity]. }
    assert (MONO : forall it, In it (r_tr s) -> In it (r_tr s')).
    { intros it Hit. rewrite ETR. right. apply in_or_app. right. exact Hit. }
    assert (EID : idof (IEv e) = Some i).
    { destruct ALT as [[_ [_ [[g ->] _]]]|[_ [_ [_ [[g ->] _]]]]]; reflexivity. }
    assert (SPLIT : forall it, In it (r_tr s') -> idof it <> None -> it = IEv e \/ In it (r_tr s)).
    { intros it Hit N1. rewrite ETR in Hit. destruct Hit as [<-|Hit]; [left; reflexivity|].
      apply in_app_or in Hit. destruct Hit as [Hit|Hit]; [|right; exact Hit].
      exfalso. apply N1.
      pose proof (Forall_snap2_shape (fun it => idof it = None) _ _ _
                    (fun c it0 X => snap_idof c [it0] (Forall_cons _ X (Forall_nil _)) it0 (or_introl eq_refl)) FS) as FI.
      rewrite Forall_forall in FI. exact (FI it Hit). }
    assert (OLDJ : forall it j, In it (r_tr s) -> idof it = Some j -> j <> i).
    { intros it j Hit E ->. exact (NOEV it Hit E). }
    constructor.
    - apply FR3. exact C_nd0.
    - rewrite ET. apply (keys_set_status id Nat.eqb nat_eqb_spec). exact C_keys0.
    - inversion C_tdnd0; assumption.
    - eapply N.le_trans; eassumption.
    - intros j c Hc. destruct (Nat.eq_dec j i) as [->|Hj]; [apply UI; exact Hc|].
      rewrite (FR2 j Hj) in Hc. eapply C_uid0. exact Hc.
    - intros j a' u' Ht. destruct (Nat.eq_dec j i) as [->|Hj].
      + rewrite TVS in Ht. injection Ht as -> <- <-.
        destruct ALT as [[_ [Hi [_ [_ OK]]]]|[X _]]; [|discriminate]. split; [exact Hi|]. intros Ea. apply (OK Ea).
      + rewrite (TVO j Hj) in Ht. eapply C_app0. exact Ht.
    - intros j Hj. assert (j <> i) by (intros ->; contradiction). rewrite (TVO j H0). apply C_pend0. right. exact Hj.
    - intros j st' u' Ht. destruct (Nat.eq_dec j i) as [->|Hj].
      + rewrite TVS in Ht. injection Ht as _ E _. congruence.
      + rewrite (TVO j Hj) in Ht. destruct (C_todo0 j st' u' Ht) as [E|X]; [congruence|exact X].
    - intros j Hj it Hit E. assert (Hji : j <> i) by (intros ->; contradiction).
      destruct (SPLIT it Hit) as [->|Ho]; [rewrite E; discriminate|congruence|].
      exact (C_noev0 j (or_intror Hj) it Ho E).
    - intros g j x Hin. destruct (SPLIT _ Hin) as [E|Ho]; [discriminate| |].
      + injection E as <-. cbn in EID. injection EID as ->.
        destruct ALT as [[Es [_ [[g' Eg] _]]]|[_ [_ [_ [[g' Eg] _]]]]]; [|discriminate].
        injection Eg as _ ->. exists a, u. rewrite TVS, Es. auto.
      + rewrite (TVO j (OLDJ _ _ Ho eq_refl)). eapply C_evap0. exact Ho.
    - intros g j x Hin. destruct (SPLIT _ Hin) as [E|Ho]; [discriminate| |].
      + injection E as <-. cbn in EID. injection EID as ->.
        destruct ALT as [[_ [_ [[g' Eg] _]]]|[Es [Hp [Po [[g' Eg] _]]]]]; [discriminate|].
        injection Eg as _ ->. split; [exact Po|]. split; [exact Hp|]. exists a, u. rewrite TVS, Es. auto.
      + rewrite (TVO j (OLDJ _ _ Ho eq_refl)). eapply C_evpr0. exact Ho.
    - intros g j x Hin. destruct (SPLIT _ Hin) as [E|Ho]; [discriminate| |].
      + exfalso. injection E as <-.
        destruct ALT as [[_ [_ [[g' Eg] _]]]|[_ [_ [_ [[g' Eg] _]]]]]; discriminate.
      + eapply C_evw0. exact Ho.
    - intros j Hj. destruct (Nat.eq_dec j i) as [->|Hji]; [rewrite TVS; discriminate|].
      rewrite (TVO j Hji). apply C_reg0. exact Hj.
    - intros j st' a' u' Ht Ha'. destruct (Nat.eq_dec j i) as [->|Hj].
      + rewrite TVS in Ht. injection Ht as <- <- <-.
        destruct ALT as [[Es [_ [[g Eg] _]]]|[Es [_ [_ [[g Eg] _]]]]].
        * left. split; [exact Es|]. exists g. rewrite ETR, Eg. left. reflexivity.
        * right; left. split; [exact Es|]. exists g. rewrite ETR, Eg. left. reflexivity.
      + rewrite (TVO j Hj) in Ht. destruct (C_tb0 j st' a' u' Ht Ha') as [[E [g Hg]]|[[E [g Hg]]|X]].
        * left. split; [exact E|]. exists g. apply MONO. exact Hg.
        * right; left. split; [exact E|]. exists g. apply MONO. exact Hg.
        * right; right. exact X.
    - intros j Hj. pose proof (C_unreg0 j Hj) as Ht.
      assert (Hji : j <> i).
      { intros ->. destruct (C_pend0 i TDi) as [st' [u' X]]. rewrite X in Ht. discriminate. }
      rewrite (TVO j Hji). exact Ht.
    - apply (RL_set_status s s' (mkRec i st a RPending u gen) (IEv e :: lt)); try assumption; try reflexivity.
      + intros j. constructor.
        * destruct ALT as [[_ [_ [[g ->] _]]]|[_ [_ [_ [[g ->] _]]]]]; reflexivity.
        * eapply Forall_snap2_shape; [|exact FS]. intros c it0 X.
          pose proof (snap_wsel c [it0] j (Forall_cons _ X (Forall_nil _))) as Y. inversion Y; assumption.
      + cbn [r_id]. apply lw_none. intros g x Hin. exact (NOEV _ Hin eq_refl).
    - intros j Hj.
      assert (OLDAB : In j (r_aband s) ->
                (exists g, In (IEv (EPrune g j ASkip)) (r_tr s')) /\ exists c, fo c0 j = Some c /\ c_keep c = true).
      { intros Hj'. destruct (C_ab0 j Hj') as [[g Hg] K]. split; [exists g; apply MONO; exact Hg|exact K]. }
      destruct ALT as [[_ [_ [_ [EA _]]]]|[_ [_ [_ [[g Eg] [[EA|[EA [Ea K]]] _]]]]]].
      + rewrite EA in Hj. auto.
      + rewrite EA in Hj. auto.
      + rewrite EA in Hj. destruct Hj as [<-|Hj]; [|auto].
        split; [|exact K]. exists g. rewrite ETR, Eg, Ea. left. reflexivity.
    - intros g j Hin. destruct (SPLIT _ Hin) as [E|Ho]; [discriminate| |].
      + injection E as <-. cbn in EID. injection EID as ->.
        destruct ALT as [[_ [_ [[g' Eg] [_ OK]]]]|[_ [_ [_ [[g' Eg] _]]]]]; [|discriminate].
        injection Eg as _ Ea. symmetry in Ea. apply ast_of_ok in Ea. exact (proj2 (OK Ea)).
      + destruct (C_okap0 g j Ho) as [c [Hc Hw]]. exists c. rewrite (FR2 j (OLDJ _ _ Ho eq_refl)). auto.
    - intros g j Hin. destruct (SPLIT _ Hin) as [E|Ho]; [discriminate| |].
      + injection E as <-. cbn in EID. injection EID as ->.
        destruct ALT as [[_ [_ [[g' Eg] _]]]|[_ [_ [_ [[g' Eg] [_ [GO _]]]]]]]; [discriminate|].
        injection Eg as _ Ea. symmetry in Ea. apply ast_of_ok in Ea. exact (GO Ea).
      + rewrite (FR2 j (OLDJ _ _ Ho eq_refl)). eapply C_gone0. exact Ho.
    - intros j c Hc Hw. destruct (Nat.eq_dec j i) as [->|Hj].
      + destruct ALT as [[_ [Hi _]]|[_ [_ [_ [_ [_ [_ OW]]]]]]]; [right; exact Hi|left; eapply OW; eassumption].
      + rewrite (FR2 j Hj) in Hc. eapply C_own0; eassumption.
  Qed.

  (* ---- apply ------------------------------------------------------------------------------------- *)
  Lemma c_apply_one g td' s p : local_ok' pl p -> CInv (p_id p :: td') s -> CInv td' (apply_one sc pl g s p).
  Proof.
    intros [l [EL [EI [Hin _]]]] H. pose proof H as [].
    destruct (apply_one_spec sc pl g s p l EL EI) as [SA [a [u [gen [lt [ST [STR [SF SO]]]]]]]]. cbv zeta in *.
    rewrite ND in SO.
    assert (FRM : frame (r_cl s) (r_cl (apply_one sc pl g s p)) (p_id p)).
    { destruct SO as [[_ C]|[[_ [X _]]|[_ [_ [C _]]]]]; [rewrite C; apply frame_refl|discriminate|exact C]. }
    apply (CInv_result td' s _ (p_id p) SApply a u gen (EApply g (p_id p) (ast_of a)) lt H ST); try assumption.
    - destruct SO as [[[->| ->] _]|[[-> _]|[-> _]]]; discriminate.
    - left. split; [reflexivity|]. split; [exact Hin|]. split; [exists g; reflexivity|]. split; [exact SA|].
      intros Ea. destruct SO as [[[X|X] _]|[[_ [X _]]|[_ [_ [_ [n [N1 [N2 [N3 N4]]]]]]]]]; try congruence.
      split; [|exists n; auto].
      destruct N4 as [[c [Hc Hu]]|[_ Hu]].
      + rewrite <- Hu. eapply C_uid0. exact Hc.
      + right. eapply N.le_trans; eassumption.
    - intros c Hc. destruct SO as [[_ C]|[[_ [X _]]|[_ [_ [_ [n [N1 [N2 [N3 N4]]]]]]]]]; [|discriminate|].
      + rewrite C in Hc. eapply C_uid0. exact Hc.
      + rewrite N1 in Hc. injection Hc as <-. rewrite N3.
        destruct N4 as [[c [Hc Hu]]|[_ Hu]].
        * rewrite <- Hu. eapply C_uid0. exact Hc.
        * right. eapply N.le_trans; eassumption.
  Qed.

  Lemma c_apply_task g layer : Forall (local_ok' pl) layer ->
    forall td' s, CInv (map p_id layer ++ td') s -> CInv td' (apply_task sc pl g s layer).
  Proof.
    unfold apply_task. induction 1 as [|p t Hp _ IH]; intros td' s H; cbn [fold_left map app] in *; [exact H|].
    apply IH. apply c_apply_one; assumption.
  Qed.

  (* ---- prune -------------------------------------------------------------------------------------- *)
  Lemma prune_one_aband_nokeep locals g uids s c :
    c_keep c = false -> ~ In (c_uid c) uids ->
    r_aband (prune_one sc pl locals g uids s (pobj_of_live c)) = r_aband s.
  Proof.
    intros K NA. unfold prune_one. cbn [p_live pobj_of_live].
    destruct (prune_filters sc pl locals (r_tbl s) uids c) eqn:PF.
    - rewrite ND. destruct (faulted sc (FDelete (c_id c))); [cbn; apply mc_ab|].
      destruct (find_obj _ _); [destruct (N.eqb _ _); [destruct (u_fin _)|]|]; cbn; apply mc_ab.
    - exfalso. unfold prune_filters in PF. rewrite K in PF.
      destruct (negb (can_prune sc (c_owner c))); [discriminate|].
      destruct (negb (o_destroy (sc_opts sc)) && _); [discriminate|].
      destruct (dep_filter _ _ _ _ _); try discriminate. destruct (existsb _ _); discriminate.
    - exfalso. apply NA. eapply prune_filters_alias. exact PF.
    - reflexivity.
    - reflexivity.
  Qed.

  Lemma c_prune_one locals g uids td' s p : uids_ok c0 pl uids -> o_prune (sc_opts sc) = true -> prune_ok pl p ->
    CInv (p_id p :: td') s -> CInv td' (prune_one sc pl locals g uids s p).
  Proof.
    intros UO PO [c [-> Hc]] H. pose proof H as []. cbn [p_id pobj_of_live] in *.
    pose proof (pl_prune_c0 c Hc) as Hc0.
    assert (Hp : In (c_id c) pds) by (unfold pids; apply in_map_iff; exists (pobj_of_live c); auto).
    pose proof (no_alias c0 pl c0_uid_lt c0_uid_inj pl_disj pl_prune_c0 uids c UO Hc) as NAL.
    destruct (prune_one_spec sc pl locals g uids s c) as [a [u [ab [lt [ST [SA [STR [SF [_ SO]]]]]]]]]. cbv zeta in *.
    rewrite ND in SO.
    set (s' := prune_one sc pl locals g uids s (pobj_of_live c)) in *.
    assert (FRM : frame (r_cl s) (r_cl s') (c_id c)).
    { destruct SO as [[_ [_ C]]|[[_ [_ [C _]]]|[[_ [_ [C _]]]|[[_ [_ [C _]]]|[[_ [_ [C _]]]|[_ [_ [C _]]]]]]]];
        try (rewrite C; apply frame_refl); exact C. }
    assert (KEEP : ab = true -> c_keep c = true).
    { intros ->. destruct (c_keep c) eqn:K; [reflexivity|]. exfalso.
      pose proof (prune_one_aband_nokeep locals g uids s c K NAL) as E. fold s' in E. rewrite E in SA.
      symmetry in SA. exact (cons_neq_self _ _ SA). }
    pose proof (Forall_snap2_r (r_cl s) _ _ SF) as SF2.
    apply (CInv_result td' s s' (c_id c) SDelete a u 0%Z (EPrune g (c_id c) (ast_of a)) lt H ST); try assumption.
    - destruct SO as [[[->| ->] _]|[[-> _]|[[-> _]|[[-> _]|[[-> _]|[-> _]]]]]]; discriminate.
    - right. split; [reflexivity|]. split; [exact Hp|]. split; [exact PO|]. split; [exists g; reflexivity|]. split; [|split].
      + destruct ab; [right|left; exact SA]. split; [exact SA|]. split.
        * destruct SO as [[_ [X _]]|[[X _]|[[X _]|[[_ [X _]]|[[_ [X _]]|[_ [X _]]]]]]]; congruence.
        * exists c. split; [exact Hc0|apply KEEP; reflexivity].
      + intros Ea. destruct SO as [[[X|X] _]|[[X _]|[[X _]|[[_ [_ [C [X|X]]]]|[[_ [_ [_ C]]]|[_ [_ [_ [_ [_ [UF _]]]]]]]]]]]; try congruence;
          first [left; rewrite C; exact X|left; exact C|right; exact UF].
      + intros c1 Hc1 Hw.
        assert (SAME : r_cl s' = r_cl s -> owned0 c0 (c_id c)).
        { intros C. rewrite C in Hc1. destruct (C_own0 _ _ Hc1 Hw) as [X|X]; [exact X|]. exfalso. exact (pl_disj _ X Hp). }
        destruct SO as [[_ [_ C]]|[[_ [_ [C _]]]|[[_ [_ [_ [n [N1 [N2 _]]]]]]|[[_ [_ [C _]]]|[[_ [_ [_ C]]]|[_ [_ [C _]]]]]]]]; auto.
        * rewrite N1 in Hc1. injection Hc1 as <-. congruence.
        * congruence.
    - intros c1 Hc1.
      destruct SO as [[_ [_ C]]|[[_ [_ [C _]]]|[[_ [_ [_ [n [N1 [N2 N3]]]]]]|[[_ [_ [C _]]]|[[_ [_ [_ C]]]|[_ [_ [C _]]]]]]]];
        try (rewrite C in Hc1; eapply C_uid0; exact Hc1).
      + rewrite N1 in Hc1. injection Hc1 as <-. rewrite N3. left. exists c. auto.
      + congruence.
  Qed.

  Lemma c_uids_ok td s : CInv td s -> uids_ok c0 pl (applied_uids (r_tbl s)).
  Proof.
    intros [] u Hu. destruct (applied_uids_tv _ u C_keys0 Hu) as [j Hj]. exists j.
    destruct (C_app0 j ASucceeded u Hj) as [A B]. auto.
  Qed.

  Lemma c_prune_task locals g layer : o_prune (sc_opts sc) = true -> Forall (prune_ok pl) layer ->
    forall td' s, CInv (map p_id layer ++ td') s -> CInv td' (prune_task sc pl locals g s layer).
  Proof.
    intros PO F td' s H. unfold prune_task. pose proof (c_uids_ok _ _ H) as UO. revert UO.
    generalize (applied_uids (r_tbl s)). intros uids UO. revert td' s H.
    induction F as [|p t Hp _ IH]; intros td' s H; cbn [fold_left map app] in *; [exact H|].
    apply IH. apply c_prune_one; assumption.
  Qed.

  (* ---- wait ---------------------------------------------------------------------------------------- *)
  Lemma quiet_emits_items s s' es : quiet s s' -> emits s s' es ->
    exists l, r_tr s' = l ++ r_tr s /\ Forall noreq l /\ forall e, In (IEv e) l -> In e es.
  Proof.
    intros [_ [_ [_ [_ [l [E1 F1]]]]]] [l2 [E2 F2]]. exists l. split; [exact E1|]. split; [exact F1|].
    rewrite E1 in E2. apply app_inv_tail in E2. subst l. intros e He. rewrite <- F2.
    apply in_rev in He. unfold evs. apply in_flat_map. exists (IEv e). split; [exact He|left; reflexivity].
  Qed.

  Lemma c_wait_task c g ids td s : (forall j, In j ids -> ~ In j td /\ regd j) ->
    CInv td s -> CInv td (wait_task sc c g ids s).
  Proof.
    intros HI H. pose proof (q_wait_task sc c g ids s) as Q.
    destruct (e_wait_task sc c g ids s) as [es [E [FW _]]].
    destruct (quiet_emits_items _ _ _ Q E) as [l [ETR [FN EV]]].
    destruct Q as [Q1 [Q2 [Q3 [Q4 _]]]].
    apply (CInv_step td s _ l Q3 Q4 (rl_wait_task sc c g ids s) Q2 ETR); [|rewrite Q1; apply CR_refl|exact H].
    apply Forall_forall. intros it Hit. rewrite Forall_forall in FN, FW. specialize (FN it Hit).
    destruct it as [| |e|]; try exact I. specialize (FW e (EV e Hit)).
    destruct FW as [[i [st [-> Hi]]]|[i [st ->]]]; [|exact I]. apply HI. exact Hi.
  Qed.

  (* ---- inventory tasks ---------------------------------------------------------------------------- *)
  Lemma snap_witem td cl lt : Forall (snap_of cl) lt -> Forall (witem td) lt.
  Proof. intros F. eapply Forall_impl; [|exact F]. intros it [r [ok [-> _]]]. exact I. Qed.

  Lemma c_inv_add_task td s : CInv td s -> CInv td (fst (inv_add_task sc pl s)).
  Proof.
    intros H.
    destruct (inv_add_task_spec sc pl s pl_local) as [ST [SA [cl1 [lt1 [lt2 [STR [NSS [IC [F2 _]]]]]]]]].
    set (s' := fst (inv_add_task sc pl s)) in *.
    assert (W1 : Forall (witem td) lt1 /\ CR (r_cl s) cl1).
    { destruct NSS as [[-> F1]|[_ [n [u [_ [Hn [HF [[[_ [A2 [A3 A4]]] [m [M1 [M2 [M3 M4]]]]] ->]]]]]]]].
      - split; [eapply snap_witem; exact F1|apply CR_refl].
      - split; [constructor; [exact I|constructor]|].
        split; [exact A3|]. split; [exact A4|]. intros j. destruct (Nat.eq_dec j n) as [->|Hj]; [|left; apply A2; exact Hj].
        right. split; [exact Hn|]. exists m. split; [exact M1|]. split; [exact M2|].
        destruct M4 as [[c [Hc _]]|[_ Hu]]; [congruence|]. rewrite M3. exact Hu. }
    destruct W1 as [W1 W2].
    apply (CInv_step td s s' (lt2 ++ lt1)); try assumption.
    - rewrite ST. reflexivity.
    - intros j. unfold tv. rewrite ST. reflexivity.
    - intros R. apply (RL_frame s s' (lt2 ++ lt1) ST); [rewrite STR, app_assoc; reflexivity| |exact R].
      intros j. apply Forall_app. split.
      + eapply snap_wsel. exact F2.
      + destruct NSS as [[_ F1]|[_ [n [u [_ [_ [_ [_ ->]]]]]]]]; [eapply snap_wsel; exact F1|constructor; [reflexivity|constructor]].
    - rewrite STR, app_assoc. reflexivity.
    - apply Forall_app. split; [eapply snap_witem; exact F2|exact W1].
    - eapply CR_trans; [exact W2|apply CR_invchg; exact IC].
  Qed.

  Lemma c_inv_set_task td prev s : CInv td s -> CInv td (fst (inv_set_task sc pl prev s)).
  Proof.
    intros H. destruct (inv_set_task_spec sc pl prev s) as [ST [SA [IC [lt [STR ALT]]]]]. cbv zeta in *.
    set (s' := fst (inv_set_task sc pl prev s)) in *.
    assert (NW : forall j, Forall (fun it => wsel j it = []) lt).
    { intros j. destruct ALT as [[_ F]|[[pv [_ [_ [_ [_ [_ ->]]]]]]|[pv [_ [_ [_ F]]]]]];
        try (eapply snap_wsel; exact F). constructor; [reflexivity|constructor]. }
    apply (CInv_step td s s' lt); try assumption.
    - rewrite ST. reflexivity.
    - intros j. unfold tv. rewrite ST. reflexivity.
    - apply (RL_frame s s' lt ST STR NW).
    - destruct ALT as [[_ F]|[[pv [_ [_ [_ [_ [_ ->]]]]]]|[pv [_ [_ [_ F]]]]]];
        try (eapply snap_witem; exact F). constructor; [exact I|constructor].
    - apply CR_invchg. exact IC.
  Qed.

  (* ---- the runner ----------------------------------------------------------------------------------- *)
  Fixpoint csched (ts : list task) : Prop :=
    match ts with
    | [] => True
    | TApply _ l :: r => Forall (local_ok' pl) l /\ csched r
    | TPrune _ l :: r => o_prune (sc_opts sc) = true /\ Forall (prune_ok pl) l /\ csched r
    | TWait _ _ ids :: r => (forall j, In j ids -> ~ In j (todo_of r) /\ regd j) /\ csched r
    | _ :: r => csched r
    end.

  Lemma c_run_task locals prev s t rest : csched (t :: rest) ->
    CInv (todo_of (t :: rest)) s -> CInv (todo_of rest) (fst (run_task sc pl locals prev s t)) /\ csched rest.
  Proof.
    intros SC H. unfold run_task. cbv zeta.
    assert (S0 : CInv (todo_of (t :: rest)) (ev s (EStarted (task_name t)))) by (apply c_ev; [reflexivity|exact H]).
    assert (FIN : forall td s1, CInv td s1 -> CInv td (ev s1 (EFinished (task_name t)))) by (intros; apply c_ev; [reflexivity|assumption]).
    destruct t; cbn [csched] in SC.
    - pose proof (c_inv_add_task _ _ S0) as T. destruct (inv_add_task sc pl _) as [s1 ok]. cbn [fst] in *.
      split; [apply FIN; exact T|exact SC].
    - destruct SC as [Hl SC]. cbn [fst]. split; [|exact SC]. apply FIN. apply c_apply_task; [exact Hl|exact S0].
    - destruct SC as [Hw SC]. cbn [fst]. split; [|exact SC]. apply FIN. apply c_wait_task; [exact Hw|exact S0].
    - destruct SC as [PO [Hl SC]]. cbn [fst]. split; [|exact SC]. apply FIN. apply c_prune_task; [exact PO|exact Hl|exact S0].
    - pose proof (c_inv_set_task _ prev _ S0) as T. destruct (inv_set_task sc pl prev _) as [s1 ok]. cbn [fst] in *.
      split; [apply FIN; exact T|exact SC].
  Qed.
End CI.
