(* Proofs about Model/DepGraph.v: SortObjs inherits the layering theorems of
   Graph.Sort; its result is invariant under permutation of the object list. *)
From Coq Require Import List Bool Arith Lia Permutation Sorting.Sorted String.
From CliUtils Require Import Model.ObjSet Model.ObjId Model.Graph Model.DepGraph
     Proofs.ObjSetProofs Proofs.GraphProofs.
Import ListNotations.

Section DepGraphProofs.
  Variable V : Type.
  Variable eqb : V -> V -> bool.
  Hypothesis eqb_spec : forall x y, eqb x y = true <-> x = y.
  Variable ltb : V -> V -> bool.
  Hypothesis ltb_irrefl : forall x, ltb x x = false.
  Hypothesis ltb_trans : forall x y z, ltb x y = true -> ltb y z = true -> ltb x z = true.
  Hypothesis ltb_total : forall x y, x <> y -> ltb x y = true \/ ltb y x = true.
  Variable idof : V -> id.

  Notation obj := (obj V).
  Notation mem := (ObjSet.mem eqb).
  Notation all_edges := (all_edges eqb idof).
  Notation dep_edges := (dep_edges eqb).
  Notation mut_edges := (mut_edges eqb).
  Notation depends_on_errors := (depends_on_errors eqb).
  Notation mutation_errors := (mutation_errors eqb).
  Notation crd_edges := (crd_edges idof).
  Notation ns_edges := (ns_edges idof).
  Notation crd_lookup := (crd_lookup idof).
  Notation ns_lookup := (ns_lookup idof).
  Notation sort_objs := (sort_objs eqb ltb idof).
  Notation reverse_sort_objs := (reverse_sort_objs eqb ltb idof).
  Notation dependency_graph := (dependency_graph eqb idof).
  Notation isort := (isort ltb).
  Notation lt := (GraphProofs.lt V ltb).

  Let mem_In := mem_In V eqb eqb_spec.

  Definition ids (objs : list obj) : list V := map oid objs.
  (* the dependency relation SortObjs works with *)
  Definition dep_rel (objs : list obj) (v w : V) : Prop := In (v, w) (all_edges objs).

  (* ---- provider lists ------------------------------------------------------ *)
  Notation f_crd := (f_crd idof).
  Notation f_ns := (f_ns idof).

  Lemma providers_In (f : obj -> option V) objs t :
    In t (providers f objs) <-> exists o, In o objs /\ f o = Some t.
  Proof.
    unfold providers. rewrite in_flat_map. split.
    - intros [o [Ho H]]. exists o. split; [exact Ho|].
      destruct (f o) as [t'|]; [|destruct H]. destruct H as [->|[]]. reflexivity.
    - intros [o [Ho H]]. exists o. split; [exact Ho|]. rewrite H. left. reflexivity.
  Qed.

  Lemma f_crd_oid key o t : f_crd key o = Some t -> t = oid o.
  Proof.
    unfold DepGraph.f_crd. destruct (is_crd _); [|discriminate]. destruct (ocrd o) as [[g k]|]; [|discriminate].
    destruct (String.eqb _ _); [|discriminate]. intros H. inversion H. reflexivity.
  Qed.

  Lemma f_ns_oid name o t : f_ns name o = Some t -> t = oid o.
  Proof.
    unfold DepGraph.f_ns. destruct (_ && _); [|discriminate]. intros H. inversion H. reflexivity.
  Qed.

  (* ---- membership in the four edge lists --------------------------------- *)
  Lemma crd_edges_In objs v w :
    In (v, w) (crd_edges objs) <->
    exists o, In o objs /\ oid o = v /\
              In w (crd_lookup objs (gk_string (grp (idof v)) (knd (idof v)))).
  Proof.
    unfold DepGraph.crd_edges. rewrite in_flat_map. split.
    - intros [o [Ho H]]. exists o. split; [exact Ho|].
      apply in_map_iff in H. destruct H as [t [E Ht]]. inversion E. subst. split; [reflexivity|exact Ht].
    - intros [o [Ho [Hv H]]]. exists o. split; [exact Ho|]. subst v.
      apply in_map_iff. exists w. split; [reflexivity|exact H].
  Qed.

  Lemma ns_edges_In objs v w :
    In (v, w) (ns_edges objs) <->
    exists o, In o objs /\ oid o = v /\ ns (idof v) <> EmptyString /\
              In w (ns_lookup objs (ns (idof v))).
  Proof.
    unfold DepGraph.ns_edges. rewrite in_flat_map. split.
    - intros [o [Ho H]]. exists o. split; [exact Ho|].
      destruct (String.eqb (ns (idof (oid o))) "") eqn:En; simpl in H; [destruct H|].
      apply in_map_iff in H. destruct H as [t [E Ht]]. inversion E. subst.
      split; [reflexivity|split; [|exact Ht]]. apply String.eqb_neq. exact En.
    - intros [o [Ho [Hv [Hn H]]]]. exists o. split; [exact Ho|]. subst v.
      apply String.eqb_neq in Hn. rewrite Hn. simpl.
      apply in_map_iff. exists w. split; [reflexivity|exact H].
  Qed.

  Lemma dep_edges_of_In from l : forall deps seen v w,
    In (v, w) (fst (dep_edges_of eqb from l deps seen)) <->
    v = from /\ In w deps /\ ~ In w seen /\ In w l.
  Proof.
    induction deps as [|d t IH]; intros seen v w; simpl; [tauto|].
    destruct (mem d seen) eqn:Ms.
    - apply mem_In in Ms. specialize (IH seen v w).
      destruct (dep_edges_of eqb from l t seen) as [es e]. simpl in *. rewrite IH.
      split; [tauto|]. intros [H1 [[H2|H2] [H3 H4]]]; [subst; contradiction|tauto].
    - apply (mem_false V eqb eqb_spec) in Ms.
      destruct (mem d l) eqn:Ml; simpl.
      + apply mem_In in Ml. specialize (IH (d :: seen) v w).
        destruct (dep_edges_of eqb from l t (d :: seen)) as [es e]. simpl in *. rewrite IH.
        split.
        * intros [H|H]; [inversion H; subst; tauto|]. intuition.
        * intros [H1 [[H2|H2] [H3 H4]]]; [left; subst; reflexivity|].
          destruct (GraphProofs.eq_dec V eqb eqb_spec d w) as [E|E]; [left; subst; reflexivity|].
          right. intuition.
      + apply (mem_false V eqb eqb_spec) in Ml. specialize (IH (d :: seen) v w).
        destruct (dep_edges_of eqb from l t (d :: seen)) as [es e]. simpl in *. rewrite IH.
        split; [intuition|]. intros [H1 [[H2|H2] [H3 H4]]]; [subst; contradiction|].
        intuition. subst. contradiction.
  Qed.

  Lemma dep_edges_In objs v w :
    In (v, w) (dep_edges objs) <->
    exists o l, In o objs /\ oid o = v /\ odeps o = Deps l /\ In w l /\ In w (ids objs).
  Proof.
    unfold DepGraph.dep_edges. rewrite in_flat_map. unfold obj_dep_edges. split.
    - intros [o [Ho H]]. destruct (odeps o) as [| |l] eqn:E; simpl in H; try contradiction.
      apply dep_edges_of_In in H. exists o, l. intuition.
    - intros [o [l [Ho [Hv [E [Hw Hi]]]]]]. exists o. split; [exact Ho|]. rewrite E.
      apply dep_edges_of_In. intuition.
  Qed.

  (* addApplyTimeMutationEdges, one object: an edge to every source reference
     that is in the object set (a repeated reference contributes nothing new) *)
  Lemma mut_edges_of_In from l : forall srcs seen v w,
    In (v, w) (fst (mut_edges_of eqb from l srcs seen)) <->
    v = from /\ In w srcs /\ ~ In w seen /\ In w l.
  Proof.
    induction srcs as [|d t IH]; intros seen v w; simpl; [tauto|].
    destruct (mem d seen) eqn:Ms.
    - apply mem_In in Ms. rewrite (IH seen v w).
      split; [tauto|]. intros [H1 [[H2|H2] [H3 H4]]]; [subst; contradiction|tauto].
    - apply (mem_false V eqb eqb_spec) in Ms.
      destruct (mem d l) eqn:Ml; simpl.
      + apply mem_In in Ml. specialize (IH (d :: seen) v w).
        destruct (mut_edges_of eqb from l t (d :: seen)) as [es e]. simpl in *. rewrite IH.
        split.
        * intros [H|H]; [inversion H; subst; tauto|]. intuition.
        * intros [H1 [[H2|H2] [H3 H4]]]; [left; subst; reflexivity|].
          destruct (GraphProofs.eq_dec V eqb eqb_spec d w) as [E|E]; [left; subst; reflexivity|].
          right. intuition.
      + apply (mem_false V eqb eqb_spec) in Ml. specialize (IH (d :: seen) v w).
        destruct (mut_edges_of eqb from l t (d :: seen)) as [es e]. simpl in *. rewrite IH.
        split; [intuition|]. intros [H1 [[H2|H2] [H3 H4]]]; [subst; contradiction|].
        intuition. subst. contradiction.
  Qed.

  Lemma mut_edges_In objs v w :
    In (v, w) (mut_edges objs) <->
    exists o l, In o objs /\ oid o = v /\ omuts o = Muts l /\ In w l /\ In w (ids objs).
  Proof.
    unfold DepGraph.mut_edges. rewrite in_flat_map. unfold obj_mut_edges. split.
    - intros [o [Ho H]]. destruct (omuts o) as [| |l] eqn:E; simpl in H; try contradiction.
      apply mut_edges_of_In in H. exists o, l. intuition.
    - intros [o [l [Ho [Hv [E [Hw Hi]]]]]]. exists o. split; [exact Ho|]. rewrite E.
      apply mut_edges_of_In. intuition.
  Qed.

  Lemma all_edges_in_ids objs v w : dep_rel objs v w -> In v (ids objs) /\ In w (ids objs).
  Proof.
    unfold dep_rel, DepGraph.all_edges. rewrite !in_app_iff. intros [H|[H|[H|H]]].
    - apply crd_edges_In in H. destruct H as [o [Ho [Hv H]]]. split.
      + subst v. apply in_map. exact Ho.
      + apply providers_In in H. destruct H as [o' [Ho' Hf]].
        apply f_crd_oid in Hf. subst w. apply in_map. exact Ho'.
    - apply ns_edges_In in H. destruct H as [o [Ho [Hv [_ H]]]]. split.
      + subst v. apply in_map. exact Ho.
      + apply providers_In in H. destruct H as [o' [Ho' Hf]].
        apply f_ns_oid in Hf. subst w. apply in_map. exact Ho'.
    - apply dep_edges_In in H. destruct H as [o [l [Ho [Hv [_ [_ Hi]]]]]]. split; [|exact Hi].
      subst v. apply in_map. exact Ho.
    - apply mut_edges_In in H. destruct H as [o [l [Ho [Hv [_ [_ Hi]]]]]]. split; [|exact Hi].
      subst v. apply in_map. exact Ho.
  Qed.

  (* the explicit part of the relation, readable *)
  Lemma dep_rel_explicit objs o l w :
    In o objs -> odeps o = Deps l -> In w l -> In w (ids objs) -> dep_rel objs (oid o) w.
  Proof.
    intros Ho E Hw Hi. unfold dep_rel, DepGraph.all_edges. rewrite !in_app_iff. right. right. left.
    apply dep_edges_In. exists o, l. intuition.
  Qed.

  (* a mutation source that is part of the object set is a dependency *)
  Lemma dep_rel_mutation objs o l w :
    In o objs -> omuts o = Muts l -> In w l -> In w (ids objs) -> dep_rel objs (oid o) w.
  Proof.
    intros Ho E Hw Hi. unfold dep_rel, DepGraph.all_edges. rewrite !in_app_iff. right. right. right.
    apply mut_edges_In. exists o, l. intuition.
  Qed.

  (* the whole relation, readable: v depends on w exactly when v is an object of
     the set and w is (1) a CRD object of the set whose spec defines v's
     group/kind, or (2) a Namespace-kind object of the set named like v's
     namespace, or (3) a member of the set referenced by a parsed depends-on
     annotation of (an object with id) v, or (4) a member of the set that is
     the source of a substitution in a parsed apply-time-mutation annotation
     of (an object with id) v *)
  Lemma dep_rel_char objs v w :
    dep_rel objs v w <->
    (exists o, In o objs /\ oid o = v /\
               In w (crd_lookup objs (gk_string (grp (idof v)) (knd (idof v)))))
    \/ (exists o, In o objs /\ oid o = v /\ ns (idof v) <> EmptyString /\
                  In w (ns_lookup objs (ns (idof v))))
    \/ (exists o l, In o objs /\ oid o = v /\ odeps o = Deps l /\ In w l /\ In w (ids objs))
    \/ (exists o l, In o objs /\ oid o = v /\ omuts o = Muts l /\ In w l /\ In w (ids objs)).
  Proof.
    unfold dep_rel, DepGraph.all_edges. rewrite !in_app_iff.
    rewrite crd_edges_In, ns_edges_In, dep_edges_In, mut_edges_In. tauto.
  Qed.

  (* ---- permutation invariance of the relation ---------------------------- *)
  Lemma ids_perm objs objs' : Permutation objs objs' -> Permutation (ids objs) (ids objs').
  Proof. apply Permutation_map. Qed.

  Lemma providers_perm (f : obj -> option V) objs objs' t :
    Permutation objs objs' -> (In t (providers f objs) <-> In t (providers f objs')).
  Proof.
    intros P. rewrite !providers_In. split; intros [o [Ho Hf]]; exists o; (split; [|exact Hf]);
      eapply Permutation_in; try exact Ho; [exact P|symmetry; exact P].
  Qed.

  Lemma dep_rel_perm objs objs' v w :
    Permutation objs objs' -> (dep_rel objs v w <-> dep_rel objs' v w).
  Proof.
    intros P. unfold dep_rel, DepGraph.all_edges. rewrite !in_app_iff.
    assert (PI : forall o, In o objs <-> In o objs')
      by (intros o; split; apply Permutation_in; [exact P|symmetry; exact P]).
    assert (II : forall x, In x (ids objs) <-> In x (ids objs'))
      by (intros x; split; apply Permutation_in; [apply ids_perm; exact P|symmetry; apply ids_perm; exact P]).
    assert (E1 : In (v, w) (crd_edges objs) <-> In (v, w) (crd_edges objs')).
    { rewrite !crd_edges_In. split; intros [o [Ho [Hv H]]]; exists o; (split; [apply PI; exact Ho|split; [exact Hv|]]);
        unfold DepGraph.crd_lookup in *; eapply (providers_perm _ objs objs'); eauto. }
    assert (E2 : In (v, w) (ns_edges objs) <-> In (v, w) (ns_edges objs')).
    { rewrite !ns_edges_In. split; intros [o [Ho [Hv [Hn H]]]]; exists o;
        (split; [apply PI; exact Ho|split; [exact Hv|split; [exact Hn|]]]);
        unfold DepGraph.ns_lookup in *; eapply (providers_perm _ objs objs'); eauto. }
    assert (E3 : In (v, w) (dep_edges objs) <-> In (v, w) (dep_edges objs')).
    { rewrite !dep_edges_In. split; intros [o [l [Ho [Hv [E [Hw Hi]]]]]]; exists o, l;
        (split; [apply PI; exact Ho|]); (split; [exact Hv|split; [exact E|split; [exact Hw|apply II; exact Hi]]]). }
    assert (E4 : In (v, w) (mut_edges objs) <-> In (v, w) (mut_edges objs')).
    { rewrite !mut_edges_In. split; intros [o [l [Ho [Hv [E [Hw Hi]]]]]]; exists o, l;
        (split; [apply PI; exact Ho|]); (split; [exact Hv|split; [exact E|split; [exact Hw|apply II; exact Hi]]]). }
    tauto.
  Qed.

  (* ---- which objects DependencyGraph reports as invalid ------------------- *)
  (* the depends-on annotation of o is rejected: it does not parse, or it names
     a reference twice, or it names an object outside the set *)
  Definition dep_annot_bad (objs : list obj) (o : obj) : Prop :=
    odeps o = BadAnnot
    \/ exists l, odeps o = Deps l /\ (~ NoDup l \/ exists w, In w l /\ ~ In w (ids objs)).
  (* the apply-time-mutation annotation of o is rejected: it does not parse, or
     it names a source outside the set (a repeated source is NOT an error) *)
  Definition mut_annot_bad (objs : list obj) (o : obj) : Prop :=
    omuts o = BadMut
    \/ exists l, omuts o = Muts l /\ exists w, In w l /\ ~ In w (ids objs).

  Let In_dec (x : V) (l : list V) : In x l \/ ~ In x l.
  Proof.
    destruct (mem x l) eqn:E; [left; apply mem_In; exact E|right; apply (mem_false V eqb eqb_spec); exact E].
  Qed.

  Lemma dep_edges_of_err from l : forall deps seen,
    snd (dep_edges_of eqb from l deps seen) = true <->
    (exists w, In w deps /\ In w seen) \/ ~ NoDup deps \/ (exists w, In w deps /\ ~ In w l).
  Proof.
    induction deps as [|d t IH]; intros seen; simpl.
    - split; [discriminate|]. intros [[w [[] _]]|[H|[w [[] _]]]]. exfalso. apply H. constructor.
    - destruct (mem d seen) eqn:Ms.
      + apply mem_In in Ms. destruct (dep_edges_of eqb from l t seen) as [es e]. simpl.
        split; [|reflexivity]. intros _. left. exists d. split; [left; reflexivity|exact Ms].
      + apply (mem_false V eqb eqb_spec) in Ms. destruct (mem d l) eqn:Ml; simpl.
        * apply mem_In in Ml. specialize (IH (d :: seen)).
          destruct (dep_edges_of eqb from l t (d :: seen)) as [es e]. simpl in *. rewrite IH.
          rewrite NoDup_cons_iff. split.
          -- intros [[w [Hw [Hd|Hs]]]|[Hn|[w [Hw He]]]].
             ++ subst w. right. left. tauto.
             ++ left. exists w. tauto.
             ++ right. left. tauto.
             ++ right. right. exists w. tauto.
          -- intros [[w [[Hw|Hw] Hs]]|[Hn|[w [[Hw|Hw] He]]]].
             ++ subst w. contradiction.
             ++ left. exists w. simpl. tauto.
             ++ destruct (In_dec d t) as [Hi|Hi].
                ** left. exists d. simpl. tauto.
                ** right. left. tauto.
             ++ subst w. contradiction.
             ++ right. right. exists w. tauto.
        * apply (mem_false V eqb eqb_spec) in Ml.
          destruct (dep_edges_of eqb from l t (d :: seen)) as [es e]. simpl.
          split; [|reflexivity]. intros _. right. right. exists d. split; [left; reflexivity|exact Ml].
  Qed.

  Lemma mut_edges_of_err from l : forall srcs seen,
    snd (mut_edges_of eqb from l srcs seen) = true <->
    exists w, In w srcs /\ ~ In w seen /\ ~ In w l.
  Proof.
    induction srcs as [|d t IH]; intros seen; simpl.
    - split; [discriminate|]. intros [w [[] _]].
    - destruct (mem d seen) eqn:Ms.
      + apply mem_In in Ms. rewrite (IH seen). split.
        * intros [w [Hw H]]. exists w. tauto.
        * intros [w [[Hw|Hw] [Hs He]]]; [subst w; contradiction|]. exists w. tauto.
      + apply (mem_false V eqb eqb_spec) in Ms. destruct (mem d l) eqn:Ml; simpl.
        * apply mem_In in Ml. specialize (IH (d :: seen)).
          destruct (mut_edges_of eqb from l t (d :: seen)) as [es e]. simpl in *. rewrite IH. split.
          -- intros [w [Hw [Hs He]]]. exists w. tauto.
          -- intros [w [[Hw|Hw] [Hs He]]]; [subst w; contradiction|]. exists w.
             split; [exact Hw|split; [|exact He]]. intros [E|E]; [subst w; contradiction|contradiction].
        * apply (mem_false V eqb eqb_spec) in Ml.
          destruct (mut_edges_of eqb from l t (d :: seen)) as [es e]. simpl.
          split; [|reflexivity]. intros _. exists d. split; [left; reflexivity|tauto].
  Qed.

  Lemma obj_dep_err objs o :
    snd (obj_dep_edges eqb (ids objs) o) = true <-> dep_annot_bad objs o.
  Proof.
    unfold obj_dep_edges, dep_annot_bad. destruct (odeps o) as [| |l]; simpl.
    - split; [discriminate|]. intros [H|[l [H _]]]; discriminate.
    - split; [intros _; left; reflexivity|reflexivity].
    - rewrite dep_edges_of_err. split.
      + intros [[w [_ []]]|H]. right. exists l. split; [reflexivity|exact H].
      + intros [H|[l' [E H]]]; [discriminate|]. inversion E. subst l'. right. exact H.
  Qed.

  Lemma obj_mut_err objs o :
    snd (obj_mut_edges eqb (ids objs) o) = true <-> mut_annot_bad objs o.
  Proof.
    unfold obj_mut_edges, mut_annot_bad. destruct (omuts o) as [| |l]; simpl.
    - split; [discriminate|]. intros [H|[l [H _]]]; discriminate.
    - split; [intros _; left; reflexivity|reflexivity].
    - rewrite mut_edges_of_err. split.
      + intros [w [Hw [_ He]]]. right. exists l. split; [reflexivity|]. exists w. tauto.
      + intros [H|[l' [E [w [Hw He]]]]]; [discriminate|]. inversion E. subst l'. exists w. simpl. tauto.
  Qed.

  Lemma depends_on_errors_In objs v :
    In v (depends_on_errors objs) <-> exists o, In o objs /\ oid o = v /\ dep_annot_bad objs o.
  Proof.
    unfold DepGraph.depends_on_errors. rewrite in_flat_map. fold (ids objs). split.
    - intros [o [Ho H]]. destruct (snd (obj_dep_edges eqb (ids objs) o)) eqn:E; [|destruct H].
      destruct H as [<-|[]]. exists o. split; [exact Ho|split; [reflexivity|apply obj_dep_err; exact E]].
    - intros [o [Ho [Hv B]]]. exists o. split; [exact Ho|].
      apply obj_dep_err in B. rewrite B. left. exact Hv.
  Qed.

  Lemma mutation_errors_In objs v :
    In v (mutation_errors objs) <-> exists o, In o objs /\ oid o = v /\ mut_annot_bad objs o.
  Proof.
    unfold DepGraph.mutation_errors. rewrite in_flat_map. fold (ids objs). split.
    - intros [o [Ho H]]. destruct (snd (obj_mut_edges eqb (ids objs) o)) eqn:E; [|destruct H].
      destruct H as [<-|[]]. exists o. split; [exact Ho|split; [reflexivity|apply obj_mut_err; exact E]].
    - intros [o [Ho [Hv B]]]. exists o. split; [exact Ho|].
      apply obj_mut_err in B. rewrite B. left. exact Hv.
  Qed.

  (* an id is named by DependencyGraph's error iff an object with that id has a
     rejected depends-on annotation or a rejected apply-time-mutation annotation *)
  Lemma dep_errors_In objs v :
    In v (dep_errors eqb objs) <->
    exists o, In o objs /\ oid o = v /\ (dep_annot_bad objs o \/ mut_annot_bad objs o).
  Proof.
    unfold DepGraph.dep_errors. rewrite in_app_iff, depends_on_errors_In, mutation_errors_In. split.
    - intros [[o [Ho [Hv B]]]|[o [Ho [Hv B]]]]; exists o; tauto.
    - intros [o [Ho [Hv [B|B]]]]; [left|right]; exists o; tauto.
  Qed.

  (* the error list is the depends-on pass followed by the mutation pass, each
     in object order *)
  Lemma dep_errors_order objs :
    dep_errors eqb objs =
    map oid (filter (fun o => snd (obj_dep_edges eqb (ids objs) o)) objs)
    ++ map oid (filter (fun o => snd (obj_mut_edges eqb (ids objs) o)) objs).
  Proof.
    unfold DepGraph.dep_errors, DepGraph.depends_on_errors, DepGraph.mutation_errors. fold (ids objs).
    f_equal.
    - generalize (ids objs) as I. intros I. induction objs as [|o r IH]; simpl; [reflexivity|].
      rewrite IH. destruct (snd (obj_dep_edges eqb I o)); reflexivity.
    - generalize (ids objs) as I. intros I. induction objs as [|o r IH]; simpl; [reflexivity|].
      rewrite IH. destruct (snd (obj_mut_edges eqb I o)); reflexivity.
  Qed.

  (* no annotation error at all exactly when every object's annotations are accepted *)
  Lemma dep_errors_nil objs :
    dep_errors eqb objs = [] <->
    forall o, In o objs -> ~ dep_annot_bad objs o /\ ~ mut_annot_bad objs o.
  Proof.
    split.
    - intros E o Ho. split; intros B.
      + assert (H : In (oid o) (dep_errors eqb objs)) by (apply dep_errors_In; exists o; tauto).
        rewrite E in H. destruct H.
      + assert (H : In (oid o) (dep_errors eqb objs)) by (apply dep_errors_In; exists o; tauto).
        rewrite E in H. destruct H.
    - intros H. destruct (dep_errors eqb objs) as [|x r] eqn:E; [reflexivity|]. exfalso.
      assert (Hx : In x (dep_errors eqb objs)) by (rewrite E; left; reflexivity).
      apply dep_errors_In in Hx. destruct Hx as [o [Ho [_ B]]]. destruct (H o Ho). tauto.
  Qed.

  (* ---- the dependency graph ---------------------------------------------- *)
  Notation keys := (GraphProofs.keys V).
  Notation gedge := (GraphProofs.gedge V eqb).
  Notation wf := (GraphProofs.wf V eqb).

  Lemma dg_wf objs : wf (dependency_graph objs).
  Proof.
    unfold DepGraph.dependency_graph. destruct objs; [apply wf_nil|apply build_wf; exact eqb_spec].
  Qed.

  Lemma dg_keys objs x : In x (keys (dependency_graph objs)) <-> In x (ids objs).
  Proof.
    unfold DepGraph.dependency_graph. destruct objs as [|o r]; [simpl; tauto|].
    rewrite (build_keys V eqb eqb_spec). split; [|tauto].
    intros [H|[[a b] [He H]]]; [exact H|]. simpl in H.
    apply (all_edges_in_ids (o :: r)) in He. destruct H; subst; tauto.
  Qed.

  Lemma dg_gedge objs v w : gedge (dependency_graph objs) v w <-> dep_rel objs v w.
  Proof.
    unfold DepGraph.dependency_graph, dep_rel. destruct objs as [|o r].
    - simpl. tauto.
    - apply (build_gedge V eqb eqb_spec).
  Qed.

  (* ---- SortObjs in terms of Graph.Sort ----------------------------------- *)
  Lemma sort_objs_char objs s :
    sort_objs objs = Some s ->
    exists L e, sort eqb ltb (dependency_graph objs) = Some (L, e)
                /\ s_sets s = map isort L /\ s_cyc s = option_map fst e
                /\ s_bad s = dep_errors eqb objs.
  Proof.
    unfold DepGraph.sort_objs. destruct objs as [|o r].
    - intros H. inversion H. subst. exists [], None. simpl. auto.
    - set (objs := o :: r).
      destruct (sort eqb ltb (dependency_graph objs)) as [[L e]|] eqn:E; [|discriminate].
      intros H. inversion H. subst s. simpl. exists L, e. split; [reflexivity|].
      split; [|split; reflexivity].
      pose proof (sort_sorted_as V eqb ltb _ _ _ E) as SA.
      destruct (sa_partition V eqb eqb_spec ltb _ _ _ (dg_wf objs) SA) as [P F].
      apply (hydrate_all V eqb eqb_spec). rewrite Forall_forall in *. intros l Hl. split; [apply F; exact Hl|].
      intros x Hx. apply (proj1 (dg_keys objs x)). eapply Permutation_in; [exact P|].
      apply in_app_iff. left. apply in_concat. exists l. split; assumption.
  Qed.

  Lemma sort_objs_total objs : exists s, sort_objs objs = Some s.
  Proof.
    unfold DepGraph.sort_objs. destruct objs as [|o r]; [eexists; reflexivity|].
    destruct (sort_total V eqb eqb_spec ltb _ (dg_wf (o :: r))) as [L [e H]].
    rewrite H. eexists. reflexivity.
  Qed.

  Definition cyc_ids (s : sorted_objs V) : list V :=
    match s_cyc s with Some l => l | None => [] end.

  Lemma cyc_ids_err (e : cyc_err V) s : s_cyc s = option_map fst e -> cyc_ids s = err_ids V e.
  Proof. unfold cyc_ids. intros ->. destruct e as [[a b]|]; reflexivity. Qed.

  Lemma concat_map_isort_perm L : Permutation (List.concat (map isort L)) (List.concat L).
  Proof.
    induction L as [|l L IH]; simpl; [reflexivity|].
    apply Permutation_app; [apply isort_perm|exact IH].
  Qed.

  Lemma objs_partition objs s :
    sort_objs objs = Some s ->
    NoDup (List.concat (s_sets s) ++ cyc_ids s)
    /\ (forall x, In x (List.concat (s_sets s) ++ cyc_ids s) <-> In x (ids objs))
    /\ Forall (fun l => l <> []) (s_sets s).
  Proof.
    intros H. destruct (sort_objs_char objs s H) as [L [e [HS [E1 [E2 _]]]]].
    pose proof (sort_sorted_as V eqb ltb _ _ _ HS) as SA.
    destruct (sa_partition V eqb eqb_spec ltb _ _ _ (dg_wf objs) SA) as [P F].
    rewrite E1, (cyc_ids_err e s E2).
    assert (P' : Permutation (List.concat (map isort L) ++ err_ids V e) (keys (dependency_graph objs))).
    { etransitivity; [apply Permutation_app_tail, concat_map_isort_perm|exact P]. }
    split; [|split].
    - eapply Permutation_NoDup; [symmetry; exact P'|]. apply (dg_wf objs).
    - intros x. rewrite <- dg_keys. split; apply Permutation_in; [exact P'|symmetry; exact P'].
    - rewrite Forall_forall in *. intros l Hl. apply in_map_iff in Hl. destruct Hl as [l' [<- Hl']].
      specialize (F l' Hl'). intros E. apply F.
      pose proof (isort_perm V ltb l') as Q. rewrite E in Q. apply Permutation_nil in Q. exact Q.
  Qed.

  Lemma objs_order objs s :
    sort_objs objs = Some s ->
    forall i v w, In v (nth i (s_sets s) []) -> dep_rel objs v w ->
                  exists j, j < i /\ In w (nth j (s_sets s) []).
  Proof.
    intros H i v w Hv Hvw. destruct (sort_objs_char objs s H) as [L [e [HS [E1 _]]]].
    pose proof (sort_sorted_as V eqb ltb _ _ _ HS) as SA. rewrite E1 in *.
    apply nth_map_isort in Hv.
    destruct (sa_order V eqb eqb_spec ltb _ _ _ (dg_wf objs) SA i v w Hv) as [j [Hj Hw]].
    - apply dg_gedge. exact Hvw.
    - exists j. split; [exact Hj|]. apply nth_map_isort. exact Hw.
  Qed.

  Lemma objs_minimal objs s :
    sort_objs objs = Some s ->
    forall i v, In v (nth (S i) (s_sets s) []) ->
                exists w, dep_rel objs v w /\ In w (nth i (s_sets s) []).
  Proof.
    intros H i v Hv. destruct (sort_objs_char objs s H) as [L [e [HS [E1 _]]]].
    pose proof (sort_sorted_as V eqb ltb _ _ _ HS) as SA. rewrite E1 in *.
    apply nth_map_isort in Hv.
    destruct (sa_minimal V eqb eqb_spec ltb _ _ _ (dg_wf objs) SA i v Hv) as [w [Hvw Hw]].
    exists w. split; [apply dg_gedge; exact Hvw|apply nth_map_isort; exact Hw].
  Qed.

  Lemma objs_cycles objs s :
    sort_objs objs = Some s ->
    forall v, In v (cyc_ids s) <-> reaches_cycle (dep_rel objs) v.
  Proof.
    intros H v. destruct (sort_objs_char objs s H) as [L [e [HS [_ [E2 _]]]]].
    pose proof (sort_sorted_as V eqb ltb _ _ _ HS) as SA.
    rewrite (cyc_ids_err e s E2).
    rewrite (sa_cycles V eqb eqb_spec ltb _ _ _ (dg_wf objs) SA v).
    split; apply reaches_cycle_mono; intros a b; apply dg_gedge.
  Qed.

  Lemma objs_cyc_nonempty objs s l : sort_objs objs = Some s -> s_cyc s = Some l -> l <> [].
  Proof.
    intros H Hc. destruct (sort_objs_char objs s H) as [L [e [HS [_ [E2 _]]]]].
    pose proof (sort_sorted_as V eqb ltb _ _ _ HS) as SA.
    rewrite Hc in E2. destruct e as [[a b]|]; [|discriminate]. simpl in E2. inversion E2. subst l.
    apply (sa_err_nonempty V eqb ltb _ _ _ SA). discriminate.
  Qed.

  Lemma objs_layer_sorted objs s :
    sort_objs objs = Some s ->
    Forall (StronglySorted lt) (s_sets s) /\ StronglySorted lt (cyc_ids s).
  Proof.
    intros H. destruct (sort_objs_char objs s H) as [L [e [HS [E1 [E2 _]]]]].
    pose proof (sort_sorted_as V eqb ltb _ _ _ HS) as SA.
    pose proof (sa_layers_NoDup V eqb eqb_spec ltb _ _ _ (dg_wf objs) SA) as ND.
    split.
    - rewrite E1. rewrite Forall_forall in *. intros l Hl. apply in_map_iff in Hl.
      destruct Hl as [l' [<- Hl']]. apply (isort_sorted V ltb ltb_trans ltb_total). apply ND. exact Hl'.
    - rewrite (cyc_ids_err e s E2).
      apply (sa_err_sorted V eqb eqb_spec ltb ltb_trans ltb_total _ _ _ (dg_wf objs) SA).
  Qed.

  (* the annotation errors of SortObjs *)
  Lemma objs_bad objs s :
    sort_objs objs = Some s ->
    forall v, In v (s_bad s) <->
              exists o, In o objs /\ oid o = v /\ (dep_annot_bad objs o \/ mut_annot_bad objs o).
  Proof.
    intros H v. destruct (sort_objs_char objs s H) as [L [e [_ [_ [_ E3]]]]].
    rewrite E3. apply dep_errors_In.
  Qed.

  (* ... reported pass by pass: first the objects rejected by addDependsOnEdges,
     then the objects rejected by addApplyTimeMutationEdges; a failing first
     pass does not hide the second *)
  Lemma objs_bad_passes objs s :
    sort_objs objs = Some s ->
    s_bad s = depends_on_errors objs ++ mutation_errors objs
    /\ (forall v, In v (depends_on_errors objs) <-> exists o, In o objs /\ oid o = v /\ dep_annot_bad objs o)
    /\ (forall v, In v (mutation_errors objs) <-> exists o, In o objs /\ oid o = v /\ mut_annot_bad objs o).
  Proof.
    intros H. destruct (sort_objs_char objs s H) as [L [e [_ [_ [_ E3]]]]].
    split; [exact E3|]. split; intros v; [apply depends_on_errors_In|apply mutation_errors_In].
  Qed.

  Lemma objs_no_bad objs s :
    sort_objs objs = Some s ->
    (s_bad s = [] <-> forall o, In o objs -> ~ dep_annot_bad objs o /\ ~ mut_annot_bad objs o).
  Proof.
    intros H. destruct (sort_objs_char objs s H) as [L [e [_ [_ [_ E3]]]]].
    rewrite E3. apply dep_errors_nil.
  Qed.

  (* the SET of reported ids does not depend on the order of the object list
     (the list order does: it follows the object list, pass by pass) *)
  Lemma objs_bad_perm objs objs' s s' :
    Permutation objs objs' ->
    sort_objs objs = Some s -> sort_objs objs' = Some s' ->
    forall v, In v (s_bad s) <-> In v (s_bad s').
  Proof.
    intros P H H' v. rewrite (objs_bad objs s H), (objs_bad objs' s' H').
    assert (PI : forall o, In o objs <-> In o objs')
      by (intros o; split; apply Permutation_in; [exact P|symmetry; exact P]).
    assert (II : forall x, In x (ids objs) <-> In x (ids objs'))
      by (intros x; split; apply Permutation_in; [apply ids_perm; exact P|symmetry; apply ids_perm; exact P]).
    assert (D : forall o, dep_annot_bad objs o <-> dep_annot_bad objs' o).
    { intros o. unfold dep_annot_bad. split; (intros [B|[l [E [B|[w [Hw He]]]]]]; [left; exact B|right; exists l; tauto|]);
        right; exists l; (split; [exact E|]); right; exists w; (split; [exact Hw|]); rewrite II in *; exact He. }
    assert (M : forall o, mut_annot_bad objs o <-> mut_annot_bad objs' o).
    { intros o. unfold mut_annot_bad. split; (intros [B|[l [E [w [Hw He]]]]]; [left; exact B|]);
        right; exists l; (split; [exact E|]); exists w; (split; [exact Hw|]); rewrite II in *; exact He. }
    split; intros [o [Ho [Hv B]]]; exists o; rewrite PI in *; rewrite D, M in *; tauto.
  Qed.

  Lemma objs_perm_inv objs objs' s s' :
    Permutation objs objs' ->
    sort_objs objs = Some s -> sort_objs objs' = Some s' ->
    s_sets s = s_sets s' /\ s_cyc s = s_cyc s'.
  Proof.
    intros P H H'.
    destruct (sort_objs_char objs s H) as [L [e [HS [E1 [E2 _]]]]].
    destruct (sort_objs_char objs' s' H') as [L' [e' [HS' [E1' [E2' _]]]]].
    pose proof (sort_sorted_as V eqb ltb _ _ _ HS) as SA.
    pose proof (sort_sorted_as V eqb ltb _ _ _ HS') as SA'.
    assert (G : geq V eqb (dependency_graph objs) (dependency_graph objs')).
    { split.
      - intros x. rewrite !dg_keys. split; apply Permutation_in; [apply ids_perm; exact P|symmetry; apply ids_perm; exact P].
      - intros v w. rewrite !dg_gedge. apply dep_rel_perm; assumption. }
    destruct (sa_geq V eqb eqb_spec ltb ltb_irrefl ltb_trans ltb_total _ _ _ SA _ _ _ (dg_wf objs) (dg_wf objs') G SA') as [F EE].
    split.
    - rewrite E1, E1'. apply (map_isort_eq V ltb ltb_irrefl ltb_trans ltb_total); [exact F| |].
      + apply (sa_layers_NoDup V eqb eqb_spec ltb _ _ _ (dg_wf objs) SA).
      + apply (sa_layers_NoDup V eqb eqb_spec ltb _ _ _ (dg_wf objs') SA').
    - rewrite E2, E2'. exact EE.
  Qed.

  (* ---- ReverseSortObjs ---------------------------------------------------- *)
  Lemma reverse_objs_spec objs s :
    sort_objs objs = Some s ->
    reverse_sort_objs objs = Some (mkSorted (rev (map (@rev V) (s_sets s))) (s_cyc s) (s_bad s)).
  Proof.
    intros H. unfold DepGraph.reverse_sort_objs. rewrite H.
    rewrite reverse_set_list_spec. reflexivity.
  Qed.
End DepGraphProofs.
