(* Proofs about Model/DepGraph.v: SortObjs inherits the layering theorems of
   Graph.Sort; its result is invariant under permutation of the object list. *)
From Coq Require Import List Bool Arith Lia Permutation Sorting.Sorted String.
From CliUtils Require Import Model.ObjSet Model.ObjId Model.Graph Model.DepGraph
     Proofs.ObjSetProofs Proofs.GraphProofs.
Import ListNotations.

Section DepGraphProofs.
  Variable V : Type.
  Variable eqb : V -> V -> bool.
  Hypothesis eqb_spec : forall x y, eqb x y = true <-> x = y.
  Variable ltb : V -> V -> bool.
  Hypothesis ltb_irrefl : forall x, ltb x x = false.
  Hypothesis ltb_trans : forall x y z, ltb x y = true -> ltb y z = true -> ltb x z = true.
  Hypothesis ltb_total : forall x y, x <> y -> ltb x y = true \/ ltb y x = true.
  Variable idof : V -> id.

  Notation obj := (obj V).
  Notation mem := (ObjSet.mem eqb).
  Notation all_edges := (all_edges eqb idof).
  Notation dep_edges := (dep_edges eqb).
  Notation crd_edges := (crd_edges idof).
  Notation ns_edges := (ns_edges idof).
  Notation crd_lookup := (crd_lookup idof).
  Notation ns_lookup := (ns_lookup idof).
  Notation sort_objs := (sort_objs eqb ltb idof).
  Notation reverse_sort_objs := (reverse_sort_objs eqb ltb idof).
  Notation dependency_graph := (dependency_graph eqb idof).
  Notation isort := (isort ltb).
  Notation lt := (GraphProofs.lt V ltb).

  Let mem_In := mem_In V eqb eqb_spec.

  Definition ids (objs : list obj) : list V := map oid objs.
  (* the dependency relation SortObjs works with *)
  Definition dep_rel (objs : list obj) (v w : V) : Prop := In (v, w) (all_edges objs).

  (* ---- provider lists ------------------------------------------------------ *)
  Notation f_crd := (f_crd idof).
  Notation f_ns := (f_ns idof).

  Lemma providers_In (f : obj -> option V) objs t :
    In t (providers f objs) <-> exists o, In o objs /\ f o = Some t.
  Proof.
    unfold providers. rewrite in_flat_map. split.
    - intros [o [Ho H]]. exists o. split; [exact Ho|].
      destruct (f o) as [t'|]; [|destruct H]. destruct H as [->|[]]. reflexivity.
    - intros [o [Ho H]]. exists o. split; [exact Ho|]. rewrite H. left. reflexivity.
  Qed.

  Lemma f_crd_oid key o t : f_crd key o = Some t -> t = oid o.
  Proof.
    unfold DepGraph.f_crd. destruct (is_crd _); [|discriminate]. destruct (ocrd o) as [[g k]|]; [|discriminate].
    destruct (String.eqb _ _); [|discriminate]. intros H. inversion H. reflexivity.
  Qed.

  Lemma f_ns_oid name o t : f_ns name o = Some t -> t = oid o.
  Proof.
    unfold DepGraph.f_ns. destruct (_ && _); [|discriminate]. intros H. inversion H. reflexivity.
  Qed.

  (* ---- membership in the three edge lists -------------------------------- *)
  Lemma crd_edges_In objs v w :
    In (v, w) (crd_edges objs) <->
    exists o, In o objs /\ oid o = v /\
              In w (crd_lookup objs (gk_string (grp (idof v)) (knd (idof v)))).
  Proof.
    unfold DepGraph.crd_edges. rewrite in_flat_map. split.
    - intros [o [Ho H]]. exists o. split; [exact Ho|].
      apply in_map_iff in H. destruct H as [t [E Ht]]. inversion E. subst. split; [reflexivity|exact Ht].
    - intros [o [Ho [Hv H]]]. exists o. split; [exact Ho|]. subst v.
      apply in_map_iff. exists w. split; [reflexivity|exact H].
  Qed.

  Lemma ns_edges_In objs v w :
    In (v, w) (ns_edges objs) <->
    exists o, In o objs /\ oid o = v /\ ns (idof v) <> EmptyString /\
              In w (ns_lookup objs (ns (idof v))).
  Proof.
    unfold DepGraph.ns_edges. rewrite in_flat_map. split.
    - intros [o [Ho H]]. exists o. split; [exact Ho|].
      destruct (String.eqb (ns (idof (oid o))) "") eqn:En; simpl in H; [destruct H|].
      apply in_map_iff in H. destruct H as [t [E Ht]]. inversion E. subst.
      split; [reflexivity|split; [|exact Ht]]. apply String.eqb_neq. exact En.
    - intros [o [Ho [Hv [Hn H]]]]. exists o. split; [exact Ho|]. subst v.
      apply String.eqb_neq in Hn. rewrite Hn. simpl.
      apply in_map_iff. exists w. split; [reflexivity|exact H].
  Qed.

  Lemma dep_edges_of_In from l : forall deps seen v w,
    In (v, w) (fst (dep_edges_of eqb from l deps seen)) <->
    v = from /\ In w deps /\ ~ In w seen /\ In w l.
  Proof.
    induction deps as [|d t IH]; intros seen v w; simpl; [tauto|].
    destruct (mem d seen) eqn:Ms.
    - apply mem_In in Ms. specialize (IH seen v w).
      destruct (dep_edges_of eqb from l t seen) as [es e]. simpl in *. rewrite IH.
      split; [tauto|]. intros [H1 [[H2|H2] [H3 H4]]]; [subst; contradiction|tauto].
    - apply (mem_false V eqb eqb_spec) in Ms.
      destruct (mem d l) eqn:Ml; simpl.
      + apply mem_In in Ml. specialize (IH (d :: seen) v w).
        destruct (dep_edges_of eqb from l t (d :: seen)) as [es e]. simpl in *. rewrite IH.
        split.
        * intros [H|H]; [inversion H; subst; tauto|]. intuition.
        * intros [H1 [[H2|H2] [H3 H4]]]; [left; subst; reflexivity|].
          destruct (GraphProofs.eq_dec V eqb eqb_spec d w) as [E|E]; [left; subst; reflexivity|].
          right. intuition.
      + apply (mem_false V eqb eqb_spec) in Ml. specialize (IH (d :: seen) v w).
        destruct (dep_edges_of eqb from l t (d :: seen)) as [es e]. simpl in *. rewrite IH.
        split; [intuition|]. intros [H1 [[H2|H2] [H3 H4]]]; [subst; contradiction|].
        intuition. subst. contradiction.
  Qed.

  Lemma dep_edges_In objs v w :
    In (v, w) (dep_edges objs) <->
    exists o l, In o objs /\ oid o = v /\ odeps o = Deps l /\ In w l /\ In w (ids objs).
  Proof.
    unfold DepGraph.dep_edges. rewrite in_flat_map. unfold obj_dep_edges. split.
    - intros [o [Ho H]]. destruct (odeps o) as [| |l] eqn:E; simpl in H; try contradiction.
      apply dep_edges_of_In in H. exists o, l. intuition.
    - intros [o [l [Ho [Hv [E [Hw Hi]]]]]]. exists o. split; [exact Ho|]. rewrite E.
      apply dep_edges_of_In. intuition.
  Qed.

  Lemma all_edges_in_ids objs v w : dep_rel objs v w -> In v (ids objs) /\ In w (ids objs).
  Proof.
    unfold dep_rel, DepGraph.all_edges. rewrite !in_app_iff. intros [H|[H|H]].
    - apply crd_edges_In in H. destruct H as [o [Ho [Hv H]]]. split.
      + subst v. apply in_map. exact Ho.
      + apply providers_In in H. destruct H as [o' [Ho' Hf]].
        apply f_crd_oid in Hf. subst w. apply in_map. exact Ho'.
    - apply ns_edges_In in H. destruct H as [o [Ho [Hv [_ H]]]]. split.
      + subst v. apply in_map. exact Ho.
      + apply providers_In in H. destruct H as [o' [Ho' Hf]].
        apply f_ns_oid in Hf. subst w. apply in_map. exact Ho'.
    - apply dep_edges_In in H. destruct H as [o [l [Ho [Hv [_ [_ Hi]]]]]]. split; [|exact Hi].
      subst v. apply in_map. exact Ho.
  Qed.

  (* the explicit part of the relation, readable *)
  Lemma dep_rel_explicit objs o l w :
    In o objs -> odeps o = Deps l -> In w l -> In w (ids objs) -> dep_rel objs (oid o) w.
  Proof.
    intros Ho E Hw Hi. unfold dep_rel, DepGraph.all_edges. rewrite !in_app_iff. right. right.
    apply dep_edges_In. exists o, l. intuition.
  Qed.

  (* ---- permutation invariance of the relation ---------------------------- *)
  Lemma ids_perm objs objs' : Permutation objs objs' -> Permutation (ids objs) (ids objs').
  Proof. apply Permutation_map. Qed.

  Lemma providers_perm (f : obj -> option V) objs objs' t :
    Permutation objs objs' -> (In t (providers f objs) <-> In t (providers f objs')).
  Proof.
    intros P. rewrite !providers_In. split; intros [o [Ho Hf]]; exists o; (split; [|exact Hf]);
      eapply Permutation_in; try exact Ho; [exact P|symmetry; exact P].
  Qed.

  Lemma dep_rel_perm objs objs' v w :
    Permutation objs objs' -> (dep_rel objs v w <-> dep_rel objs' v w).
  Proof.
    intros P. unfold dep_rel, DepGraph.all_edges. rewrite !in_app_iff.
    assert (PI : forall o, In o objs <-> In o objs')
      by (intros o; split; apply Permutation_in; [exact P|symmetry; exact P]).
    assert (II : forall x, In x (ids objs) <-> In x (ids objs'))
      by (intros x; split; apply Permutation_in; [apply ids_perm; exact P|symmetry; apply ids_perm; exact P]).
    assert (E1 : In (v, w) (crd_edges objs) <-> In (v, w) (crd_edges objs')).
    { rewrite !crd_edges_In. split; intros [o [Ho [Hv H]]]; exists o; (split; [apply PI; exact Ho|split; [exact Hv|]]);
        unfold DepGraph.crd_lookup in *; eapply (providers_perm _ objs objs'); eauto. }
    assert (E2 : In (v, w) (ns_edges objs) <-> In (v, w) (ns_edges objs')).
    { rewrite !ns_edges_In. split; intros [o [Ho [Hv [Hn H]]]]; exists o;
        (split; [apply PI; exact Ho|split; [exact Hv|split; [exact Hn|]]]);
        unfold DepGraph.ns_lookup in *; eapply (providers_perm _ objs objs'); eauto. }
    assert (E3 : In (v, w) (dep_edges objs) <-> In (v, w) (dep_edges objs')).
    { rewrite !dep_edges_In. split; intros [o [l [Ho [Hv [E [Hw Hi]]]]]]; exists o, l;
        (split; [apply PI; exact Ho|]); (split; [exact Hv|split; [exact E|split; [exact Hw|apply II; exact Hi]]]). }
    tauto.
  Qed.

  (* ---- the dependency graph ---------------------------------------------- *)
  Notation keys := (GraphProofs.keys V).
  Notation gedge := (GraphProofs.gedge V eqb).
  Notation wf := (GraphProofs.wf V eqb).

  Lemma dg_wf objs : wf (dependency_graph objs).
  Proof.
    unfold DepGraph.dependency_graph. destruct objs; [apply wf_nil|apply build_wf; exact eqb_spec].
  Qed.

  Lemma dg_keys objs x : In x (keys (dependency_graph objs)) <-> In x (ids objs).
  Proof.
    unfold DepGraph.dependency_graph. destruct objs as [|o r]; [simpl; tauto|].
    rewrite (build_keys V eqb eqb_spec). split; [|tauto].
    intros [H|[[a b] [He H]]]; [exact H|]. simpl in H.
    apply (all_edges_in_ids (o :: r)) in He. destruct H; subst; tauto.
  Qed.

  Lemma dg_gedge objs v w : gedge (dependency_graph objs) v w <-> dep_rel objs v w.
  Proof.
    unfold DepGraph.dependency_graph, dep_rel. destruct objs as [|o r].
    - simpl. tauto.
    - apply (build_gedge V eqb eqb_spec).
  Qed.

  (* ---- SortObjs in terms of Graph.Sort ----------------------------------- *)
  Lemma sort_objs_char objs s :
    sort_objs objs = Some s ->
    exists L e, sort eqb ltb (dependency_graph objs) = Some (L, e)
                /\ s_sets s = map isort L /\ s_cyc s = option_map fst e
                /\ s_bad s = dep_errors eqb objs.
  Proof.
    unfold DepGraph.sort_objs. destruct objs as [|o r].
    - intros H. inversion H. subst. exists [], None. simpl. auto.
    - set (objs := o :: r).
      destruct (sort eqb ltb (dependency_graph objs)) as [[L e]|] eqn:E; [|discriminate].
      intros H. inversion H. subst s. simpl. exists L, e. split; [reflexivity|].
      split; [|split; reflexivity].
      pose proof (sort_sorted_as V eqb ltb _ _ _ E) as SA.
      destruct (sa_partition V eqb eqb_spec ltb _ _ _ (dg_wf objs) SA) as [P F].
      apply (hydrate_all V eqb eqb_spec). rewrite Forall_forall in *. intros l Hl. split; [apply F; exact Hl|].
      intros x Hx. apply (proj1 (dg_keys objs x)). eapply Permutation_in; [exact P|].
      apply in_app_iff. left. apply in_concat. exists l. split; assumption.
  Qed.

  Lemma sort_objs_total objs : exists s, sort_objs objs = Some s.
  Proof.
    unfold DepGraph.sort_objs. destruct objs as [|o r]; [eexists; reflexivity|].
    destruct (sort_total V eqb eqb_spec ltb _ (dg_wf (o :: r))) as [L [e H]].
    rewrite H. eexists. reflexivity.
  Qed.

  Definition cyc_ids (s : sorted_objs V) : list V :=
    match s_cyc s with Some l => l | None => [] end.

  Lemma cyc_ids_err (e : cyc_err V) s : s_cyc s = option_map fst e -> cyc_ids s = err_ids V e.
  Proof. unfold cyc_ids. intros ->. destruct e as [[a b]|]; reflexivity. Qed.

  Lemma concat_map_isort_perm L : Permutation (List.concat (map isort L)) (List.concat L).
  Proof.
    induction L as [|l L IH]; simpl; [reflexivity|].
    apply Permutation_app; [apply isort_perm|exact IH].
  Qed.

  Lemma objs_partition objs s :
    sort_objs objs = Some s ->
    NoDup (List.concat (s_sets s) ++ cyc_ids s)
    /\ (forall x, In x (List.concat (s_sets s) ++ cyc_ids s) <-> In x (ids objs))
    /\ Forall (fun l => l <> []) (s_sets s).
  Proof.
    intros H. destruct (sort_objs_char objs s H) as [L [e [HS [E1 [E2 _]]]]].
    pose proof (sort_sorted_as V eqb ltb _ _ _ HS) as SA.
    destruct (sa_partition V eqb eqb_spec ltb _ _ _ (dg_wf objs) SA) as [P F].
    rewrite E1, (cyc_ids_err e s E2).
    assert (P' : Permutation (List.concat (map isort L) ++ err_ids V e) (keys (dependency_graph objs))).
    { etransitivity; [apply Permutation_app_tail, concat_map_isort_perm|exact P]. }
    split; [|split].
    - eapply Permutation_NoDup; [symmetry; exact P'|]. apply (dg_wf objs).
    - intros x. rewrite <- dg_keys. split; apply Permutation_in; [exact P'|symmetry; exact P'].
    - rewrite Forall_forall in *. intros l Hl. apply in_map_iff in Hl. destruct Hl as [l' [<- Hl']].
      specialize (F l' Hl'). intros E. apply F.
      pose proof (isort_perm V ltb l') as Q. rewrite E in Q. apply Permutation_nil in Q. exact Q.
  Qed.

  Lemma objs_order objs s :
    sort_objs objs = Some s ->
    forall i v w, In v (nth i (s_sets s) []) -> dep_rel objs v w ->
                  exists j, j < i /\ In w (nth j (s_sets s) []).
  Proof.
    intros H i v w Hv Hvw. destruct (sort_objs_char objs s H) as [L [e [HS [E1 _]]]].
    pose proof (sort_sorted_as V eqb ltb _ _ _ HS) as SA. rewrite E1 in *.
    apply nth_map_isort in Hv.
    destruct (sa_order V eqb eqb_spec ltb _ _ _ (dg_wf objs) SA i v w Hv) as [j [Hj Hw]].
    - apply dg_gedge. exact Hvw.
    - exists j. split; [exact Hj|]. apply nth_map_isort. exact Hw.
  Qed.

  Lemma objs_minimal objs s :
    sort_objs objs = Some s ->
    forall i v, In v (nth (S i) (s_sets s) []) ->
                exists w, dep_rel objs v w /\ In w (nth i (s_sets s) []).
  Proof.
    intros H i v Hv. destruct (sort_objs_char objs s H) as [L [e [HS [E1 _]]]].
    pose proof (sort_sorted_as V eqb ltb _ _ _ HS) as SA. rewrite E1 in *.
    apply nth_map_isort in Hv.
    destruct (sa_minimal V eqb eqb_spec ltb _ _ _ (dg_wf objs) SA i v Hv) as [w [Hvw Hw]].
    exists w. split; [apply dg_gedge; exact Hvw|apply nth_map_isort; exact Hw].
  Qed.

  Lemma objs_cycles objs s :
    sort_objs objs = Some s ->
    forall v, In v (cyc_ids s) <-> reaches_cycle (dep_rel objs) v.
  Proof.
    intros H v. destruct (sort_objs_char objs s H) as [L [e [HS [_ [E2 _]]]]].
    pose proof (sort_sorted_as V eqb ltb _ _ _ HS) as SA.
    rewrite (cyc_ids_err e s E2).
    rewrite (sa_cycles V eqb eqb_spec ltb _ _ _ (dg_wf objs) SA v).
    split; apply reaches_cycle_mono; intros a b; apply dg_gedge.
  Qed.

  Lemma objs_cyc_nonempty objs s l : sort_objs objs = Some s -> s_cyc s = Some l -> l <> [].
  Proof.
    intros H Hc. destruct (sort_objs_char objs s H) as [L [e [HS [_ [E2 _]]]]].
    pose proof (sort_sorted_as V eqb ltb _ _ _ HS) as SA.
    rewrite Hc in E2. destruct e as [[a b]|]; [|discriminate]. simpl in E2. inversion E2. subst l.
    apply (sa_err_nonempty V eqb ltb _ _ _ SA). discriminate.
  Qed.

  Lemma objs_layer_sorted objs s :
    sort_objs objs = Some s ->
    Forall (StronglySorted lt) (s_sets s) /\ StronglySorted lt (cyc_ids s).
  Proof.
    intros H. destruct (sort_objs_char objs s H) as [L [e [HS [E1 [E2 _]]]]].
    pose proof (sort_sorted_as V eqb ltb _ _ _ HS) as SA.
    pose proof (sa_layers_NoDup V eqb eqb_spec ltb _ _ _ (dg_wf objs) SA) as ND.
    split.
    - rewrite E1. rewrite Forall_forall in *. intros l Hl. apply in_map_iff in Hl.
      destruct Hl as [l' [<- Hl']]. apply (isort_sorted V ltb ltb_trans ltb_total). apply ND. exact Hl'.
    - rewrite (cyc_ids_err e s E2).
      apply (sa_err_sorted V eqb eqb_spec ltb ltb_trans ltb_total _ _ _ (dg_wf objs) SA).
  Qed.

  Lemma objs_perm_inv objs objs' s s' :
    Permutation objs objs' ->
    sort_objs objs = Some s -> sort_objs objs' = Some s' ->
    s_sets s = s_sets s' /\ s_cyc s = s_cyc s'.
  Proof.
    intros P H H'.
    destruct (sort_objs_char objs s H) as [L [e [HS [E1 [E2 _]]]]].
    destruct (sort_objs_char objs' s' H') as [L' [e' [HS' [E1' [E2' _]]]]].
    pose proof (sort_sorted_as V eqb ltb _ _ _ HS) as SA.
    pose proof (sort_sorted_as V eqb ltb _ _ _ HS') as SA'.
    assert (G : geq V eqb (dependency_graph objs) (dependency_graph objs')).
    { split.
      - intros x. rewrite !dg_keys. split; apply Permutation_in; [apply ids_perm; exact P|symmetry; apply ids_perm; exact P].
      - intros v w. rewrite !dg_gedge. apply dep_rel_perm; assumption. }
    destruct (sa_geq V eqb eqb_spec ltb ltb_irrefl ltb_trans ltb_total _ _ _ SA _ _ _ (dg_wf objs) (dg_wf objs') G SA') as [F EE].
    split.
    - rewrite E1, E1'. apply (map_isort_eq V ltb ltb_irrefl ltb_trans ltb_total); [exact F| |].
      + apply (sa_layers_NoDup V eqb eqb_spec ltb _ _ _ (dg_wf objs) SA).
      + apply (sa_layers_NoDup V eqb eqb_spec ltb _ _ _ (dg_wf objs') SA').
    - rewrite E2, E2'. exact EE.
  Qed.

  (* ---- ReverseSortObjs ---------------------------------------------------- *)
  Lemma reverse_objs_spec objs s :
    sort_objs objs = Some s ->
    reverse_sort_objs objs = Some (mkSorted (rev (map (@rev V) (s_sets s))) (s_cyc s) (s_bad s)).
  Proof.
    intros H. unfold DepGraph.reverse_sort_objs. rewrite H.
    rewrite reverse_set_list_spec. reflexivity.
  Qed.
End DepGraphProofs.
