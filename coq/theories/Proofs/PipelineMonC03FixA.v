(* C03, fixpoint part, file A: vocabulary and the operations of a run that
   starts from a STABLE cluster.

   A cluster is stable for the sorted duplicate-free key list L and the id set A
   (the ids the run applies) when its stored inventory is exactly L and every id
   of A is live.  This file shows that
   every operation of a non-dry, client-side (o_ssa = false) apply run keeps
   a stable cluster stable and logs only requests accepted by the fixpoint
   clause of Corr/CorrPipeline.v (`c03_fixpoint`): no object create, no delete,
   no inventory create/delete, a namespace create only as a rejected
   AlreadyExists, an inventory update only with the keys L.
   The relation `fstep` is the conditional version of `step` (PipelineBase):
   IF the cluster before is stable THEN the cluster after is stable and the
   trace is extended by accepted items. *)
From Coq Require Import List Bool Arith NArith ZArith Lia Permutation.
From CliUtils Require Import Model.ObjSet Model.ActuationTable Model.PipelineTypes Model.Pipeline
     Proofs.ObjSetProofs Proofs.PipelineBase Proofs.PipelineAuth Proofs.PipelineEvents Proofs.PipelineMisc
     Corr.CorrPipeline Proofs.PipelineOrphansBase Proofs.PipelineOrphansSpec Proofs.PipelineOrphansPlan
     Proofs.PipelineMonC12Wait.
Import ListNotations.

(* ---- the boolean vocabulary of the statement (mirrors `c03_fixpoint`) ------------------------ *)
Definition bad_evt (e : evt) : bool :=
  match e with
  | EApply _ _ AFail | EApply _ _ ASkip | EPrune _ _ AFail | EPrune _ _ ASkip
  | EWait _ _ WFailed | EWait _ _ WTimedOut | EWait _ _ WSkipped => true
  | _ => false
  end.
(* `clean` of c03_fixpoint *)
Definition clean_trace (t : list item) : bool :=
  negb (has_error t) && negb (existsb bad_evt (events t)).
(* the option part of `same` of c03_fixpoint: both runs are real apply runs; the SECOND one applies client-side *)
Definition first_opts (sc : scenario) : bool :=
  negb (o_destroy (sc_opts sc)) && negb (is_dry (o_dry (sc_opts sc))).
Definition fix_opts (sc : scenario) : bool :=
  negb (o_destroy (sc_opts sc)) && negb (is_dry (o_dry (sc_opts sc))) && negb (o_ssa (sc_opts sc)).
Definition clean_run (sc : scenario) (out : outcome) : bool :=
  first_opts sc && clean_trace (out_trace out).
(* the request clause of c03_fixpoint, `st` = the inventory stored after the first run *)
Definition fix_req_ok (st : option (list id)) (x : req * bool) : bool :=
  match fst x with
  | RCreate _ _ | RDelete _ _ _ | RInvCreate _ | RInvDelete => false
  | RNsCreate _ => negb (snd x)
  | RInvUpdate l => optl_eqb (Some l) st
  | _ => true
  end.
(* the weaker clause asked for: no create / delete / inventory create / inventory delete *)
Definition no_cd_req (x : req * bool) : bool :=
  match fst x with
  | RCreate _ _ | RDelete _ _ _ | RInvCreate _ | RInvDelete => false
  | _ => true
  end.
Definition fix_ok (c1 : cluster) (out2 : outcome) : bool :=
  forallb (fix_req_ok (inv c1)) (reqs (out_trace out2)) && optl_eqb (inv c1) (inv (out_final out2)).

Lemma fix_req_no_cd st x : fix_req_ok st x = true -> no_cd_req x = true.
Proof. unfold fix_req_ok, no_cd_req. destruct (fst x); auto. Qed.

(* ---- sorted duplicate-free lists are determined by their elements ---------------------------- *)
Lemma sortn_fix l : sorted_n l -> sortn l = l.
Proof. intros S. apply sorted_n_perm_eq; [apply sortn_sorted|exact S|apply sortn_perm']. Qed.

Lemma sortn_set_eq l1 l2 : NoDup l1 -> NoDup l2 -> (forall x, In x l1 <-> In x l2) -> sortn l1 = sortn l2.
Proof. intros N1 N2 H. apply sortn_perm_eq. apply NoDup_Permutation; assumption. Qed.

Lemma sortn_idem l : sortn (sortn l) = sortn l.
Proof. apply sortn_fix, sortn_sorted. Qed.

Lemma nl_eqb_refl' l : nl_eqb l l = true.
Proof. unfold nl_eqb. induction l as [|x t IH]; cbn; [reflexivity|]. rewrite Nat.eqb_refl, IH. reflexivity. Qed.

(* ---- a run from a stable cluster ---------------------------------------------------------------- *)
Section Stable.
  Variable sc : scenario.
  Variable L : list id.
  (* the ids that must stay live: those the run will apply *)
  Variable Av : list id.
  Hypothesis HO1 : o_destroy (sc_opts sc) = false.
  Hypothesis HO2 : is_dry (o_dry (sc_opts sc)) = false.
  Hypothesis HO3 : o_ssa (sc_opts sc) = false.
  Hypothesis HS : sorted_n L.
  Hypothesis HN : NoDup L.

  Definition okreq (r : req) (ok : bool) : Prop :=
    match r with
    | RCreate _ _ | RDelete _ _ _ | RInvCreate _ | RInvDelete => False
    | RNsCreate _ => ok = false
    | RInvUpdate l => l = L
    | _ => True
    end.
  Definition Qf (it : item) : Prop := match it with IReq r ok _ _ => okreq r ok | _ => True end.

  Definition Good (cl : cluster) : Prop := inv cl = Some L /\ forall i, In i Av -> fo cl i <> None.

  Definition fstep (s s' : rst) : Prop :=
    Good (r_cl s) -> Good (r_cl s') /\ exists l, r_tr s' = l ++ r_tr s /\ Forall Qf l.

  Lemma fstep_refl s : fstep s s.
  Proof. intros G. split; [exact G|]. exists []. split; [reflexivity|constructor]. Qed.
  Lemma fstep_trans a b c : fstep a b -> fstep b c -> fstep a c.
  Proof.
    intros H1 H2 G. destruct (H1 G) as [G1 [l1 [E1 F1]]]. destruct (H2 G1) as [G2 [l2 [E2 F2]]].
    split; [exact G2|]. exists (l2 ++ l1). split; [rewrite E2, E1, app_assoc; reflexivity|].
    apply Forall_app. split; assumption.
  Qed.
  Lemma fstep_same s s' : r_cl s' = r_cl s -> r_tr s' = r_tr s -> fstep s s'.
  Proof. intros C T G. rewrite C. split; [exact G|]. exists []. split; [exact T|constructor]. Qed.
  Lemma fstep_item s s' it : r_cl s' = r_cl s -> r_tr s' = it :: r_tr s -> Qf it -> fstep s s'.
  Proof.
    intros C T H G. rewrite C. split; [exact G|]. exists [it]. split; [exact T|]. constructor; [exact H|constructor].
  Qed.
  Lemma fstep_ev s e : fstep s (ev s e).
  Proof. apply (fstep_item s _ (IEv e)); [reflexivity|reflexivity|exact I]. Qed.
  Lemma fstep_quiet s s' : quiet s s' -> fstep s s'.
  Proof.
    intros [Q1 [_ [_ [_ [l [E F]]]]]] G. rewrite Q1. split; [exact G|]. exists l. split; [exact E|].
    eapply Forall_impl; [|exact F]. intros it H. destruct it; try exact I. destruct H.
  Qed.
  Lemma fstep_fold {A} (f : rst -> A -> rst) (l : list A) :
    (forall s a, In a l -> fstep s (f s a)) -> forall s, fstep s (fold_left f l s).
  Proof.
    induction l as [|a l IH]; intros H s; cbn; [apply fstep_refl|].
    eapply fstep_trans; [apply H; left; reflexivity|]. apply IH. intros; apply H; right; assumption.
  Qed.

  Ltac ftr := eapply fstep_trans.

  Lemma dry_none : o_dry (sc_opts sc) = DNone.
  Proof. destruct (o_dry (sc_opts sc)); [reflexivity|discriminate HO2|discriminate HO2]. Qed.

  (* ---- inventory writes with the same keys ---------------------------------------------------- *)
  Lemma f_inv_list s : fstep s (fst (inv_list sc s)).
  Proof. destruct (same4_inv_list sc s) as [A [_ [_ B]]]. apply fstep_same; assumption. Qed.

  Lemma f_inv_apply s ids : sortn ids = L -> Good (r_cl s) -> fstep s (fst (inv_apply sc s ids)).
  Proof.
    intros E [GI GL]. unfold inv_apply. cbv zeta.
    destruct (faulted sc (FInvGet _)); cbn [fst]; [apply fstep_same; reflexivity|].
    cbn [r_cl r_nwrite]. rewrite GI, E.
    destruct (faulted sc (FInvWrite _)); cbn [fst].
    - eapply fstep_item; [reflexivity|reflexivity|]. reflexivity.
    - intros _. cbn [log_req emit set_cl r_cl r_tr]. split.
      + split; [reflexivity|]. intros i Hi. apply GL. exact Hi.
      + eexists [_]. split; [reflexivity|]. constructor; [|constructor]. reflexivity.
  Qed.

  Lemma f_inv_update s ids : sortn ids = L -> Good (r_cl s) -> fstep s (fst (inv_update sc s ids)).
  Proof.
    intros E [GI GL]. unfold inv_update. cbv zeta. rewrite E.
    destruct (faulted sc (FInvWrite _)); cbn [fst].
    - eapply fstep_item; [reflexivity|reflexivity|]. reflexivity.
    - cbn [r_cl]. rewrite GI. cbn [fst].
      intros _. cbn [log_req emit set_cl r_cl r_tr]. split.
      + split; [reflexivity|]. intros i Hi. apply GL. exact Hi.
      + eexists [_]. split; [reflexivity|]. constructor; [|constructor]. reflexivity.
  Qed.

  Lemma union_keys ids : (forall i, In i ids -> In i L) -> sortn (unionn L ids) = L.
  Proof.
    intros H. rewrite <- (sortn_fix L HS) at 2. apply sortn_set_eq.
    - apply (union_NoDup nat Nat.eqb nat_eqb_spec).
    - exact HN.
    - intros x. rewrite unionn_In. split; [intros [X|X]; auto|auto].
  Qed.

  Lemma f_merge s ids : (forall i, In i ids -> In i L) -> Good (r_cl s) -> fstep s (fst (merge sc s ids)).
  Proof.
    intros HI G. pose proof G as [GI GL]. unfold merge. cbv zeta.
    pose proof (same4_inv_list sc s) as [A1 [_ [_ A4]]]. pose proof (inv_list_result sc s) as R1.
    destruct (inv_list sc s) as [s1 r1]. cbn [fst snd] in *.
    destruct R1 as [->| ->]; [cbn [fst]; apply fstep_same; assumption|]. rewrite GI.
    pose proof (same4_inv_list sc s1) as [B1 [_ [_ B4]]]. pose proof (inv_list_result sc s1) as R2.
    destruct (inv_list sc s1) as [s2 r2]. cbn [fst snd] in *.
    assert (S2 : fstep s s2) by (apply fstep_same; congruence).
    destruct R2 as [->| ->]; [cbn [fst]; exact S2|]. rewrite A1, GI.
    destruct (set_eqn ids L && negb (o_status_policy_all (sc_opts sc))); cbn [fst]; [exact S2|].
    rewrite HO2. ftr; [exact S2|]. apply f_inv_apply; [apply union_keys; exact HI|].
    rewrite B1, A1. exact G.
  Qed.

  Lemma f_replace s ids : sortn ids = L -> Good (r_cl s) -> fstep s (fst (replace sc s ids)).
  Proof.
    intros E G. pose proof G as [GI GL]. unfold replace. cbv zeta. rewrite HO2.
    pose proof (same4_inv_list sc s) as [A1 [_ [_ A4]]].
    destruct (inv_list sc s) as [s1 r1]. cbn [fst snd] in *.
    destruct r1 as [x|]; cbn [fst]; [|apply fstep_same; assumption].
    pose proof (same4_inv_list sc s1) as [B1 [_ [_ B4]]].
    destruct (inv_list sc s1) as [s2 r2]. cbn [fst snd] in *.
    assert (S2 : fstep s s2) by (apply fstep_same; congruence).
    destruct r2 as [[cur|]|]; cbn [fst]; try exact S2.
    destruct (set_eqn ids cur && negb (o_status_policy_all (sc_opts sc))); cbn [fst]; [exact S2|].
    ftr; [exact S2|]. apply f_inv_update; [exact E|]. rewrite B1, A1. exact G.
  Qed.

  Lemma f_inv_set_task pl prev s :
    (forall pv, prev = Some pv -> sortn (final_inventory pl pv s) = L) ->
    Good (r_cl s) -> fstep s (fst (inv_set_task sc pl prev s)).
  Proof.
    intros H G. unfold inv_set_task. destruct prev as [pv|]; cbn [fst]; [|apply fstep_refl].
    rewrite HO1. cbn [andb]. apply f_replace; [apply H; reflexivity|exact G].
  Qed.

  (* ---- kubectl apply of a live object: a patch or nothing ------------------------------------- *)
  Lemma Good_put cl n : Good cl -> Good (mkCl (put_obj (objs cl) n) (inv cl) (next_uid cl)).
  Proof.
    intros [GI GL]. split; [exact GI|]. intros i Hi. unfold fo. cbn [objs]. rewrite find_obj_put.
    destruct (Nat.eqb (c_id n) i); [discriminate|apply GL; exact Hi].
  Qed.

  Lemma f_kubectl_apply s l : In (l_id l) Av -> Good (r_cl s) -> fstep s (fst (kubectl_apply sc s l)).
  Proof.
    intros Hi G. pose proof G as [GI GL].
    (* client-side apply without dry-run: no server-side PATCH, hence no fallback either *)
    destruct (kubectl_apply_cases sc l s) as [[_ ->]|[[M _]|[M _]]];
      [|unfold ssa_mode in M; rewrite dry_none, HO3 in M; discriminate M ..].
    unfold csa_apply. cbv zeta. rewrite dry_none. cbn [is_dry].
    unfold get_obj. cbv zeta. destruct (faulted sc (FGet _ _)); cbn [fst]; [apply fstep_same; reflexivity|].
    destruct (find_obj (objs (r_cl s)) (l_id l)) as [c|] eqn:EF; [|exfalso; exact (GL _ Hi EF)].
    destruct (negb (patch_needed c l)); cbn [fst]; [apply fstep_same; reflexivity|].
    destruct (faulted sc (FApply (l_id l))); cbn [fst].
    - intros _. cbn [log_req emit r_cl r_tr]. rewrite mc_cl, mc_tr. cbn [r_cl r_tr]. split; [exact G|].
      eexists [_]. split; [reflexivity|]. constructor; [exact I|constructor].
    - intros _. cbn [log_req emit set_cl r_cl r_tr]. rewrite mc_cl, mc_tr. cbn [r_cl r_tr]. split.
      + apply Good_put. exact G.
      + eexists [_]. split; [reflexivity|]. constructor; [exact I|constructor].
  Qed.

  Lemma f_policy_apply_filter s i : fstep s (fst (policy_apply_filter sc s i)).
  Proof. destruct (same4_policy_apply_filter sc s i) as [A [_ [_ B]]]. apply fstep_same; assumption. Qed.

  Lemma f_result s e i st a u g : fstep s (rec_add (ev s e) i st a u g).
  Proof. apply (fstep_item s _ (IEv e)); [reflexivity|reflexivity|exact I]. Qed.

  Lemma f_apply_one pl g s p : In (p_id p) Av -> (forall l, p_local p = Some l -> l_id l = p_id p) ->
    Good (r_cl s) -> fstep s (apply_one sc pl g s p).
  Proof.
    intros Hi HL G. unfold apply_one. destruct (p_local p) as [l|] eqn:EL; [|apply fstep_refl].
    destruct (negb (kind_known sc (r_known s) (p_id p))); [apply f_result|].
    pose proof (f_policy_apply_filter s (p_id p)) as P.
    pose proof (same4_policy_apply_filter sc s (p_id p)) as [P1 _].
    destruct (policy_apply_filter sc s (p_id p)) as [s1 f1]. cbn [fst] in P, P1.
    destruct (match f1 with FPass => _ | _ => _ end).
    - assert (M : fstep s1 (fst (mutate sc s1 l))) by (apply fstep_same; [apply mutate_cl|apply mutate_tr]).
      pose proof (mutate_cl sc s1 l) as M1.
      destruct (mutate sc s1 l) as [sm okm]. cbn [fst] in M, M1.
      destruct okm; cbn [negb]; [|ftr; [exact P|]; ftr; [exact M|apply f_result]].
      assert (K : fstep sm (fst (kubectl_apply sc sm l))).
      { apply f_kubectl_apply; [rewrite (HL l eq_refl); exact Hi|rewrite M1, P1; exact G]. }
      destruct (kubectl_apply sc sm l) as [s2 r]. cbn [fst] in K.
      destruct r; (ftr; [exact P|]; ftr; [exact M|]; ftr; [exact K|]; apply f_result).
    - ftr; [exact P|apply f_result].
    - ftr; [exact P|apply f_result].
  Qed.

  Lemma f_apply_task pl g layer :
    (forall p, In p layer -> In (p_id p) Av /\ forall l, p_local p = Some l -> l_id l = p_id p) ->
    forall s, fstep s (apply_task sc pl g s layer).
  Proof.
    intros H s. unfold apply_task. apply fstep_fold. intros s0 p Hp G0.
    destruct (H p Hp) as [A B]. exact (f_apply_one pl g s0 p A B G0 G0).
  Qed.

  Lemma f_wait_task c g ids s : fstep s (wait_task sc c g ids s).
  Proof. apply fstep_quiet. apply q_wait_task. Qed.

  (* ---- the inventory-add task: the namespace exists already; the merge rewrites L -------------- *)
  Lemma f_inv_add_task pl s : (forall i, In i (apply_ids pl) -> In i L) -> (forall i, In i (apply_ids pl) -> In i Av) ->
    Good (r_cl s) -> fstep s (fst (inv_add_task sc pl s)).
  Proof.
    intros HA HB G. pose proof G as [GI GL]. unfold inv_add_task. cbv zeta.
    assert (M : forall s1, r_cl s1 = r_cl s -> fstep s1 (fst (merge sc s1 (map p_id (pl_apply pl))))).
    { intros s1 C. apply f_merge; [exact HA|rewrite C; exact G]. }
    assert (NOOP : fstep s (fst (merge sc s (map p_id (pl_apply pl))))) by (apply M; reflexivity).
    destruct (sc_inv_ns sc) as [n|] eqn:EN; [|exact NOOP].
    destruct (find (fun p => Nat.eqb (p_id p) n) (pl_apply pl)) as [p|] eqn:EF; [|exact NOOP].
    apply find_some in EF. destruct EF as [Hin Hid].
    destruct (p_local p) as [l|] eqn:EL; [|exact NOOP].
    rewrite HO2.
    destruct (faulted sc FNsCreate); cbn [fst].
    { eapply fstep_item; [reflexivity|reflexivity|]. reflexivity. }
    destruct (find_obj (objs (r_cl s)) (p_id p)) eqn:EO.
    - ftr; [|apply M; reflexivity]. eapply fstep_item; [reflexivity|reflexivity|]. reflexivity.
    - exfalso. apply (GL (p_id p)); [|exact EO]. apply HB. apply in_map. exact Hin.
  Qed.

  (* ---- one task other than a prune task ------------------------------------------------------------ *)
  Lemma f_run_task pl locals prev s t :
    (forall i, In i (apply_ids pl) -> In i L) -> (forall i, In i (apply_ids pl) -> In i Av) ->
    (forall p l, In p (pl_apply pl) -> p_local p = Some l -> l_id l = p_id p) ->
    task_ok pl t -> (forall k l, t <> TPrune k l) ->
    (t = TInvSet -> forall pv, prev = Some pv ->
       sortn (final_inventory pl pv (ev s (EStarted (task_name t)))) = L) ->
    fstep s (fst (run_task sc pl locals prev s t)).
  Proof.
    intros HA HB HL OK NP HF. unfold run_task. cbv zeta.
    assert (S0 : fstep s (ev s (EStarted (task_name t)))) by apply fstep_ev.
    destruct t as [|k layer|k c ids|k layer|]; cbn [task_ok] in OK.
    - assert (T : fstep (ev s (EStarted (task_name TInvAdd))) (fst (inv_add_task sc pl (ev s (EStarted (task_name TInvAdd)))))).
      { intros G0. exact (f_inv_add_task pl _ HA HB G0 G0). }
      destruct (inv_add_task sc pl _) as [s1 ok]. cbn [fst] in *. ftr; [exact S0|]. ftr; [exact T|apply fstep_ev].
    - cbn [fst]. ftr; [exact S0|]. ftr; [|apply fstep_ev]. apply f_apply_task.
      intros p Hp. rewrite Forall_forall in OK. destruct (OK p Hp) as [X Y]. split; [apply HB; exact X|exact Y].
    - cbn [fst]. ftr; [exact S0|]. ftr; [apply f_wait_task|apply fstep_ev].
    - exfalso. exact (NP k layer eq_refl).
    - assert (T : fstep (ev s (EStarted (task_name TInvSet))) (fst (inv_set_task sc pl prev (ev s (EStarted (task_name TInvSet)))))).
      { intros G0. exact (f_inv_set_task pl prev _ (HF eq_refl) G0 G0). }
      destruct (inv_set_task sc pl prev _) as [s1 ok]. cbn [fst] in *. ftr; [exact S0|]. ftr; [exact T|apply fstep_ev].
  Qed.
End Stable.
