(* Lemmas about Model/DependsOnCodec.v: the depends-on reference codec. *)
From Coq Require Import List Bool Arith String Ascii Lia.
From CliUtils Require Import Base.Strings Proofs.StringsProofs Model.IdCodec Model.DependsOnCodec
     Proofs.IdCodecProofs.
Import ListNotations.
Local Open Scope string_scope.

Definition sl : ascii := "/"%char.
Definition cm : ascii := ","%char.

Lemma no_slash_spec : forall s, no_slash s = true <-> contains (ch sl) s = false.
Proof. intros s. unfold no_slash. apply negb_true_iff. Qed.
Lemma no_comma_spec : forall s, no_comma s = true <-> contains (ch cm) s = false.
Proof. intros s. unfold no_comma. apply negb_true_iff. Qed.
Lemma nonempty_spec : forall s, nonempty s = true <-> s <> "".
Proof. intros s. unfold nonempty. rewrite negb_true_iff. apply String.eqb_neq. Qed.

(* the two layouts as joins of their fields *)
Lemma dep_string_cluster : forall i, o_ns i = "" ->
  dep_string i = join (ch sl) [o_grp i; o_knd i; o_name i].
Proof. intros i H. unfold dep_string. rewrite H. reflexivity. Qed.

Lemma dep_string_namespaced : forall i, o_ns i <> "" ->
  dep_string i = join (ch sl) [o_grp i; "namespaces"; o_ns i; o_knd i; o_name i].
Proof.
  intros i H. unfold dep_string. apply String.eqb_neq in H. rewrite H.
  simpl. reflexivity.
Qed.

Lemma eqb_empty_false : forall s, nonempty s = true -> String.eqb s "" = false.
Proof. intros s H. unfold nonempty in H. now apply negb_true_iff in H. Qed.

(* parsing a string whose trimmed form is the layout of i *)
Lemma parse_dep_layout : forall i,
  nonempty (o_knd i) = true -> nonempty (o_name i) = true ->
  no_slash (o_grp i) = true -> no_slash (o_ns i) = true ->
  no_slash (o_knd i) = true -> no_slash (o_name i) = true ->
  forall s, trim_space s = dep_string i -> parse_dep s = Ok i.
Proof.
  intros i Hke Hne Hg Hn Hk Hm s Ht. rewrite no_slash_spec in *.
  apply eqb_empty_false in Hke. apply eqb_empty_false in Hne.
  unfold parse_dep, dep_field_separator. rewrite Ht.
  change (split "/" (dep_string i)) with (split_on sl (dep_string i)).
  destruct (String.eqb (o_ns i) "") eqn:E.
  - apply String.eqb_eq in E. rewrite (dep_string_cluster i E).
    rewrite split_on_join; [|discriminate|repeat constructor; assumption].
    rewrite Hke, Hne. destruct i as [ns nm g k]. simpl in *. now subst ns.
  - pose proof E as E'. apply String.eqb_neq in E. rewrite (dep_string_namespaced i E).
    rewrite split_on_join; [|discriminate|repeat constructor; try assumption; reflexivity].
    simpl. rewrite Hke, Hne, E'. now destruct i.
Qed.

Lemma dep_fields_ok_inv : forall i, dep_fields_ok i = true ->
  nonempty (o_knd i) = true /\ nonempty (o_name i) = true /\
  no_slash (o_grp i) = true /\ no_slash (o_ns i) = true /\
  no_slash (o_knd i) = true /\ no_slash (o_name i) = true.
Proof. intros i H. unfold dep_fields_ok in H. rewrite !andb_true_iff in H. tauto. Qed.

(* what Format returns is the layout, free of ',', and parses back to i *)
Lemma format_dep_inv : forall i s, format_dep i = Ok s ->
  s = dep_string i /\ o_knd i <> "" /\ o_name i <> ""
  /\ contains (ch cm) s = false /\ parse_dep s = Ok i.
Proof.
  intros i s H. unfold format_dep, annotation_separator in H.
  destruct (String.eqb (o_knd i) "") eqn:Ek; [discriminate|].
  destruct (String.eqb (o_name i) "") eqn:En; [discriminate|].
  cbv zeta in H. change (contains "," (dep_string i)) with (contains (ch cm) (dep_string i)) in H.
  destruct (contains (ch cm) (dep_string i)) eqn:Ec; [discriminate|].
  destruct (parse_dep (dep_string i)) as [j|] eqn:Ep; [|discriminate].
  destruct (oid_eqb j i) eqn:Ej; [|discriminate].
  apply oid_eqb_spec in Ej. subst j. inversion H; subst s.
  repeat split; try (now apply String.eqb_neq); assumption.
Qed.

(* Format then Parse, for EVERY identifier *)
Lemma dep_roundtrip : forall i s, format_dep i = Ok s -> parse_dep s = Ok i.
Proof. intros i s H. now apply format_dep_inv in H. Qed.

Lemma format_dep_ok_parse : forall i, o_knd i <> "" -> o_name i <> "" ->
  contains (ch cm) (dep_string i) = false -> parse_dep (dep_string i) = Ok i ->
  format_dep i = Ok (dep_string i).
Proof.
  intros i Hk Hn Hc Hp. unfold format_dep, annotation_separator.
  apply String.eqb_neq in Hk. apply String.eqb_neq in Hn. rewrite Hk, Hn. cbv zeta.
  change (contains "," (dep_string i)) with (contains (ch cm) (dep_string i)).
  now rewrite Hc, Hp, oid_eqb_refl.
Qed.

Lemma dep_no_comma_spec : forall i,
  dep_no_comma i = true <-> contains (ch cm) (dep_string i) = false.
Proof.
  intros i. unfold dep_no_comma. rewrite !andb_true_iff, !no_comma_spec. unfold dep_string.
  destruct (String.eqb (o_ns i) "") eqn:E.
  - apply String.eqb_eq in E. rewrite E. rewrite !contains_ch_app. simpl (contains (ch cm) "/").
    simpl (contains (ch cm) "").
    destruct (contains (ch cm) (o_grp i)), (contains (ch cm) (o_knd i)), (contains (ch cm) (o_name i));
      simpl; intuition congruence.
  - rewrite !contains_ch_app. simpl (contains (ch cm) "/"). simpl (contains (ch cm) "/namespaces/").
    destruct (contains (ch cm) (o_grp i)), (contains (ch cm) (o_ns i)), (contains (ch cm) (o_knd i)), (contains (ch cm) (o_name i));
      simpl; intuition congruence.
Qed.

(* Format accepts every reference that can be encoded *)
Lemma format_dep_ok : forall i, dep_fields_ok i = true -> dep_no_comma i = true ->
  trim_space (dep_string i) = dep_string i -> format_dep i = Ok (dep_string i).
Proof.
  intros i Hf Hc Ht. apply dep_fields_ok_inv in Hf. destruct Hf as [Hk [Hn [H1 [H2 [H3 H4]]]]].
  apply format_dep_ok_parse.
  - now apply nonempty_spec.
  - now apply nonempty_spec.
  - now apply dep_no_comma_spec.
  - now apply parse_dep_layout.
Qed.

(* ---- the ends of the formatted string ----------------------------------------- *)
(* the group does not start with a byte that can start a white-space rune
   (true of every DNS-style group, and of the empty group) *)
Definition head_ok (s : string) : bool :=
  match s with EmptyString => true | String c _ => negb (ws_initial c) end.
(* the name is not empty and does not end with a white-space rune *)
Definition last_ok (s : string) : bool := nonempty s && String.eqb (trim_right s) s.

Lemma is_ws_rune_no_slash : forall t, is_ws_rune t = true -> contains (ch sl) t = false.
Proof. intros t H. apply (is_ws_rune_no_byte sl t); [reflexivity | reflexivity | exact H]. Qed.

(* a '/' shields what is before it: trimming on the right stops at the name *)
Lemma trim_right_after_slash : forall a b, b <> "" -> trim_right b = b ->
  trim_right (a ++ String sl b) = a ++ String sl b.
Proof.
  intros a b Hne Hb.
  assert (W : forall x, is_ws_rune (x ++ String sl b) = false).
  { intros x. destruct (is_ws_rune (x ++ String sl b)) eqn:E; [|reflexivity].
    apply is_ws_rune_no_slash in E. rewrite contains_ch_app, contains_ch_cons in E.
    unfold sl in E at 2. rewrite Ascii.eqb_refl in E. simpl in E. rewrite orb_true_r in E. discriminate. }
  induction a as [|x a IH].
  - simpl append. unfold trim_right; fold trim_right. rewrite Hb.
    pose proof (W "") as W0. simpl append in W0. now rewrite W0.
  - change (String x a ++ String sl b) with (String x (a ++ String sl b)).
    unfold trim_right; fold trim_right. rewrite IH.
    change (String x (a ++ String sl b)) with (String x a ++ String sl b). now rewrite W.
Qed.

(* the formatted string starts with the group (or '/') and ends with "/name" *)
Lemma dep_string_head : forall i, exists r,
  dep_string i = match o_grp i with EmptyString => String sl r | String c g => String c r end.
Proof.
  intros i. unfold dep_string. destruct (String.eqb (o_ns i) ""); destruct (o_grp i) as [|c g]; simpl; eexists; reflexivity.
Qed.

Lemma dep_string_tail : forall i, exists a, dep_string i = a ++ String sl (o_name i).
Proof.
  intros i. unfold dep_string. destruct (String.eqb (o_ns i) "").
  - exists (o_grp i ++ "/" ++ o_knd i). now rewrite !sapp_assoc.
  - exists (o_grp i ++ "/namespaces/" ++ o_ns i ++ "/" ++ o_knd i). now rewrite !sapp_assoc.
Qed.

Lemma dep_string_ws_initial : forall i, head_ok (o_grp i) = true ->
  exists c r, dep_string i = String c r /\ ws_initial c = false.
Proof.
  intros i Hh. destruct (dep_string_head i) as [r Er].
  destruct (o_grp i) as [|c g]; [exists sl, r; split; [exact Er | reflexivity]|].
  exists c, r. split; [exact Er|]. unfold head_ok in Hh. now apply negb_true_iff in Hh.
Qed.

(* field-level condition for "TrimSpace leaves the formatted string alone" *)
Lemma dep_string_trimmed : forall i, head_ok (o_grp i) = true -> last_ok (o_name i) = true ->
  trim_space (dep_string i) = dep_string i.
Proof.
  intros i Hh Hl. unfold last_ok in Hl. apply andb_true_iff in Hl. destruct Hl as [Hne Htr].
  apply nonempty_spec in Hne. apply String.eqb_eq in Htr.
  destruct (dep_string_ws_initial i Hh) as [c [r [Ec Hc]]].
  unfold trim_space. rewrite Ec, (trim_left_id _ (ws_len_initial c r Hc)), <- Ec.
  destruct (dep_string_tail i) as [a Ea]. rewrite Ea. now apply trim_right_after_slash.
Qed.

(* ---- never a misread: what Parse returns is literally in the string ------------ *)
Lemma parse_dep_sound : forall s i, parse_dep s = Ok i ->
  no_slash (o_grp i) = true /\ no_slash (o_ns i) = true /\ no_slash (o_knd i) = true /\ no_slash (o_name i) = true
  /\ o_knd i <> "" /\ o_name i <> "" /\ trim_space s = dep_string i.
Proof.
  intros s i H. unfold parse_dep, dep_field_separator in H.
  change (split "/" (trim_space s)) with (split_on sl (trim_space s)) in H.
  pose proof (join_split_on sl (trim_space s)) as J.
  pose proof (split_on_fields sl (trim_space s)) as F.
  destruct (split_on sl (trim_space s)) as [|f1 [|f2 [|f3 [|f4 [|f5 [|f6 t]]]]]]; try discriminate.
  - destruct (String.eqb f2 "") eqn:E2; [discriminate|]. destruct (String.eqb f3 "") eqn:E3; [discriminate|].
    simpl in H. inversion H; subst i. simpl.
    inversion F as [|? ? F1 F']; subst. inversion F' as [|? ? F2 F'']; subst. inversion F'' as [|? ? F3 _]; subst.
    rewrite !no_slash_spec. apply String.eqb_neq in E2. apply String.eqb_neq in E3.
    repeat split; auto.
    all: try (rewrite <- J; reflexivity).
  - destruct (String.eqb f2 namespaces_field) eqn:E; [|discriminate].
    apply String.eqb_eq in E. subst f2.
    destruct (String.eqb f4 "") eqn:E4; [discriminate|]. destruct (String.eqb f5 "") eqn:E5; [discriminate|].
    destruct (String.eqb f3 "") eqn:E3; [discriminate|].
    simpl in H. inversion H; subst i. simpl.
    inversion F as [|? ? F1 F']; subst. inversion F' as [|? ? F2 F'']; subst.
    inversion F'' as [|? ? F3 F3']; subst. inversion F3' as [|? ? F4 F4']; subst. inversion F4' as [|? ? F5 _]; subst.
    rewrite !no_slash_spec. apply String.eqb_neq in E4. apply String.eqb_neq in E5.
    repeat split; auto.
    all: try (unfold dep_string; simpl; rewrite E3; rewrite <- J; reflexivity).
Qed.

(* Parse then Format gives back the trimmed input *)
Lemma dep_no_misread : forall s i s', parse_dep s = Ok i -> format_dep i = Ok s' -> s' = trim_space s.
Proof.
  intros s i s' Hp Hf. apply format_dep_inv in Hf. destruct Hf as [Es _]. subst s'.
  symmetry. now apply parse_dep_sound in Hp.
Qed.

(* two strings that read as the same reference are the same up to trimming *)
Lemma parse_dep_injective : forall s1 s2 i, parse_dep s1 = Ok i -> parse_dep s2 = Ok i ->
  trim_space s1 = trim_space s2.
Proof.
  intros s1 s2 i H1 H2. apply parse_dep_sound in H1. apply parse_dep_sound in H2.
  destruct H1 as [_ [_ [_ [_ [_ [_ E1]]]]]]. destruct H2 as [_ [_ [_ [_ [_ [_ E2]]]]]]. congruence.
Qed.

(* what Parse accepts, Format accepts (a single reference may contain ',',
   which only the set syntax forbids) *)
Lemma parse_then_format : forall s i, parse_dep s = Ok i ->
  contains (ch cm) (trim_space s) = false -> format_dep i = Ok (trim_space s).
Proof.
  intros s i Hp Hc. destruct (parse_dep_sound s i Hp) as [H1 [H2 [H3 [H4 [Hk [Hn Et]]]]]].
  rewrite Et in *. apply format_dep_ok_parse; auto.
  apply parse_dep_layout; try assumption; try (now apply nonempty_spec).
  rewrite <- Et. apply trim_space_idem.
Qed.

(* exactly the encodable references are accepted by Format *)
Lemma format_dep_iff : forall i,
  format_dep i = Ok (dep_string i) <->
  dep_fields_ok i = true /\ dep_no_comma i = true /\ trim_space (dep_string i) = dep_string i.
Proof.
  intros i. split.
  - intros H. apply format_dep_inv in H. destruct H as [_ [_ [_ [Hc Hp]]]].
    destruct (parse_dep_sound _ _ Hp) as [H1 [H2 [H3 [H4 [Hk [Hn Et]]]]]].
    split; [|split; [now apply dep_no_comma_spec | exact Et]].
    unfold dep_fields_ok. apply nonempty_spec in Hk. apply nonempty_spec in Hn.
    now rewrite Hk, Hn, H1, H2, H3, H4.
  - intros [Hf [Hc Ht]]. now apply format_dep_ok.
Qed.

(* malformed references: exactly the strings with a wrong field count, a
   wrong second segment, or an empty kind / name / namespace segment are errors *)
Lemma parse_dep_err_iff : forall s,
  let f := split "/" (trim_space s) in
  parse_dep s = Err <->
  ~ ((List.length f = 3 /\ nth 1 f "" <> "" /\ nth 2 f "" <> "")
     \/ (List.length f = 5 /\ nth 1 f "" = "namespaces"
         /\ nth 2 f "" <> "" /\ nth 3 f "" <> "" /\ nth 4 f "" <> "")).
Proof.
  intros s f. unfold parse_dep, dep_field_separator. fold f.
  destruct f as [|f1 [|f2 [|f3 [|f4 [|f5 [|f6 t]]]]]]; simpl;
    try (split; [intros _ [[H _]|[H _]]; discriminate | reflexivity]).
  - destruct (String.eqb f2 "") eqn:E2; [|destruct (String.eqb f3 "") eqn:E3]; simpl.
    + apply String.eqb_eq in E2. split; [intros _ [[_ [H _]]|[H _]]; [congruence | discriminate] | reflexivity].
    + apply String.eqb_eq in E3. split; [intros _ [[_ [_ H]]|[H _]]; [congruence | discriminate] | reflexivity].
    + apply String.eqb_neq in E2. apply String.eqb_neq in E3.
      split; [discriminate | intros H; exfalso; apply H; auto].
  - unfold namespaces_field. destruct (String.eqb f2 "namespaces") eqn:E.
    + apply String.eqb_eq in E.
      destruct (String.eqb f4 "") eqn:E4; [|destruct (String.eqb f5 "") eqn:E5; [|destruct (String.eqb f3 "") eqn:E3]]; simpl.
      * apply String.eqb_eq in E4. split; [intros _ [[H _]|[_ [_ [_ [H _]]]]]; [discriminate | congruence] | reflexivity].
      * apply String.eqb_eq in E5. split; [intros _ [[H _]|[_ [_ [_ [_ H]]]]]; [discriminate | congruence] | reflexivity].
      * apply String.eqb_eq in E3. split; [intros _ [[H _]|[_ [_ [H _]]]]; [discriminate | congruence] | reflexivity].
      * apply String.eqb_neq in E4. apply String.eqb_neq in E5. apply String.eqb_neq in E3.
        split; [discriminate | intros H; exfalso; apply H; right; auto].
    + apply String.eqb_neq in E. split; [intros _ [[H _]|[_ [H _]]]; [discriminate | contradiction] | reflexivity].
Qed.

(* ---- sets ------------------------------------------------------------------------ *)
Lemma all_ascii_space_no_byte : forall c p, is_ascii_space c = false -> all_ascii_space p = true ->
  contains (ch c) p = false.
Proof.
  intros c. induction p as [|x p IH]; intros Hc H; [reflexivity|].
  simpl in H. apply andb_true_iff in H. destruct H as [Hx Hp].
  rewrite contains_ch_cons, (IH Hc Hp), orb_false_r.
  destruct (Ascii.eqb c x) eqn:E; [|reflexivity]. apply Ascii.eqb_eq in E. subst x. congruence.
Qed.

Lemma format_all_inv : forall l ss, format_all l = Ok ss ->
  ss = map dep_string l /\ Forall (fun i => format_dep i = Ok (dep_string i)) l.
Proof.
  induction l as [|i l IH]; intros ss H; simpl in H.
  - inversion H. split; constructor.
  - destruct (format_dep i) as [s|] eqn:E; [|discriminate].
    destruct (format_all l) as [ss'|] eqn:E'; [|discriminate].
    inversion H; subst ss. destruct (IH ss' eq_refl) as [Es F].
    pose proof (format_dep_inv i s E) as [Ei _]. subst s ss'.
    split; [reflexivity | constructor; assumption].
Qed.

Lemma format_all_ok : forall l, Forall (fun i => format_dep i = Ok (dep_string i)) l ->
  format_all l = Ok (map dep_string l).
Proof.
  induction l as [|i l IH]; intros H; [reflexivity|].
  inversion H as [|? ? Hi Hl]; subst. simpl. now rewrite Hi, (IH Hl).
Qed.

Lemma parse_all_formatted : forall l, Forall (fun i => format_dep i = Ok (dep_string i)) l ->
  parse_all (map dep_string l) = Ok l.
Proof.
  induction l as [|i l IH]; intros H; [reflexivity|].
  inversion H as [|? ? Hi Hl]; subst. simpl.
  now rewrite (dep_roundtrip i _ Hi), (IH Hl).
Qed.

(* FormatDependencySet then ParseDependencySet, for EVERY non-empty list *)
Lemma depset_roundtrip : forall l s, l <> [] -> format_dep_set l = Ok s -> parse_dep_set s = Ok l.
Proof.
  intros l s Hne H. unfold format_dep_set in H.
  destruct (format_all l) as [ss|] eqn:E; [|discriminate]. inversion H; subst s.
  destruct (format_all_inv l ss E) as [Es F]. subst ss.
  unfold parse_dep_set, annotation_separator.
  change (split "," (join "," (map dep_string l))) with (split_on cm (join (ch cm) (map dep_string l))).
  rewrite split_on_join.
  - now apply parse_all_formatted.
  - destruct l; [congruence | discriminate].
  - rewrite Forall_forall in *. intros x Hx. apply in_map_iff in Hx. destruct Hx as [i [Ei Hi]]. subst x.
    specialize (F i Hi). apply format_dep_inv in F. tauto.
Qed.

(* the empty list formats to "" which is not a set: WriteAnnotation refuses it *)
Lemma annotation_roundtrip : forall l s, write_annotation l = Ok s -> read_annotation (Some s) = Ok l.
Proof.
  intros l s H. destruct l as [|i l]; [discriminate|].
  simpl in H. simpl. apply depset_roundtrip; [discriminate | exact H].
Qed.

(* one reference with ASCII white space around it, as in a hand-written annotation *)
Definition item := (string * oid * string)%type.
Definition item_id (x : item) : oid := snd (fst x).
Definition item_string (x : item) : string := fst (fst x) ++ dep_string (item_id x) ++ snd x.
Definition item_ok (x : item) : bool :=
  all_ascii_space (fst (fst x)) && all_ascii_space (snd x)
  && dep_fields_ok (item_id x) && dep_no_comma (item_id x)
  && head_ok (o_grp (item_id x)) && last_ok (o_name (item_id x)).

Lemma parse_dep_item : forall x, item_ok x = true -> parse_dep (item_string x) = Ok (item_id x).
Proof.
  intros [[p i] q] H. unfold item_ok, item_string, item_id in *. simpl in *.
  rewrite !andb_true_iff in H. destruct H as [[[[[Hp Hq] Hf] _] Hh] Hl].
  apply dep_fields_ok_inv in Hf. destruct Hf as [Hk [Hn [H1 [H2 [H3 H4]]]]].
  apply parse_dep_layout; auto.
  pose proof (dep_string_trimmed i Hh Hl) as Ht.
  destruct (dep_string_ws_initial i Hh) as [c [r' [Ec Hc]]]. rewrite Ec in *.
  rewrite (trim_space_pad p c r' q Hp Hq Hc).
  unfold trim_space in Ht. rewrite (trim_left_id _ (ws_len_initial c r' Hc)) in Ht. exact Ht.
Qed.

Lemma item_string_no_comma : forall x, item_ok x = true -> contains (ch cm) (item_string x) = false.
Proof.
  intros [[p i] q] H. unfold item_ok, item_string, item_id in *. simpl in *.
  rewrite !andb_true_iff in H. destruct H as [[[[[Hp Hq] _] Hc] _] _].
  apply dep_no_comma_spec in Hc. rewrite !contains_ch_app, Hc.
  rewrite (all_ascii_space_no_byte cm p eq_refl Hp), (all_ascii_space_no_byte cm q eq_refl Hq). reflexivity.
Qed.

Lemma parse_all_items : forall l, forallb item_ok l = true ->
  parse_all (map item_string l) = Ok (map item_id l).
Proof.
  induction l as [|x l IH]; intros H; [reflexivity|].
  simpl in H. apply andb_true_iff in H. destruct H as [Hx Hl].
  simpl. now rewrite (parse_dep_item x Hx), (IH Hl).
Qed.

(* comma separated references, each possibly padded, parse back in order *)
Lemma depset_padded : forall l, l <> [] -> forallb item_ok l = true ->
  parse_dep_set (join "," (map item_string l)) = Ok (map item_id l).
Proof.
  intros l Hne H. unfold parse_dep_set, annotation_separator.
  change (split "," (join "," (map item_string l))) with (split_on cm (join (ch cm) (map item_string l))).
  rewrite split_on_join.
  - now apply parse_all_items.
  - destruct l; [congruence | discriminate].
  - rewrite Forall_forall. intros s Hin. apply in_map_iff in Hin. destruct Hin as [x [Ex Hx]]. subst s.
    apply item_string_no_comma. rewrite forallb_forall in H. now apply H.
Qed.

(* field-level condition under which Format accepts *)
Definition ref_ok (i : oid) : bool := item_ok ("", i, "").

Lemma ref_ok_format : forall i, ref_ok i = true -> format_dep i = Ok (dep_string i).
Proof.
  intros i H. unfold ref_ok, item_ok in H. rewrite !andb_true_iff in H.
  destruct H as [[[[[_ _] Hf] Hc] Hh] Hl]. unfold item_id in *. simpl in *.
  apply format_dep_ok; auto. now apply dep_string_trimmed.
Qed.

Lemma format_dep_set_ok : forall l, forallb ref_ok l = true ->
  format_dep_set l = Ok (join "," (map dep_string l)).
Proof.
  intros l H. unfold format_dep_set. rewrite format_all_ok; [reflexivity|].
  rewrite Forall_forall. rewrite forallb_forall in H. intros i Hi. apply ref_ok_format. now apply H.
Qed.

(* every parsed element comes from its own piece of the string *)
Lemma parse_all_sound : forall ss l, parse_all ss = Ok l -> Forall2 (fun s i => parse_dep s = Ok i) ss l.
Proof.
  induction ss as [|s ss IH]; intros l H; simpl in H.
  - inversion H. constructor.
  - destruct (parse_dep s) as [i|] eqn:E; [|discriminate].
    destruct (parse_all ss) as [l'|] eqn:E'; [|discriminate].
    inversion H; subst l. constructor; [exact E | now apply IH].
Qed.

Lemma parse_all_err : forall ss s, In s ss -> parse_dep s = Err -> parse_all ss = Err.
Proof.
  induction ss as [|x ss IH]; intros s H E; [destruct H|].
  destruct H as [H|H]; simpl.
  - subst x. now rewrite E.
  - destruct (parse_dep x); [|reflexivity]. now rewrite (IH s H E).
Qed.

(* Parse then Format of a whole set gives back the pieces, trimmed *)
Lemma depset_no_misread : forall s l s', parse_dep_set s = Ok l -> format_dep_set l = Ok s' ->
  s' = join "," (map trim_space (split "," s)).
Proof.
  intros s l s' Hp Hf. unfold parse_dep_set, annotation_separator in Hp. apply parse_all_sound in Hp.
  unfold format_dep_set in Hf. destruct (format_all l) as [ss|] eqn:E; [|discriminate].
  inversion Hf; subst s'. destruct (format_all_inv l ss E) as [Es F]. subst ss. f_equal.
  clear E Hf. set (pieces := split "," s) in *. clearbody pieces. induction Hp as [|x i xs l' Hx Hxs IH]; [reflexivity|].
  inversion F as [|? ? Fi Fl]; subst. simpl. f_equal; [|now apply IH].
  apply parse_dep_sound in Hx. symmetry. tauto.
Qed.
