(* C12 monitor, timeout conjunct, part 2: the runner level and the monitor.
   c12_timeouts (Proofs/PipelineMonC12Defs.v) holds of every run of the model
   whose apply set names each object once. *)
From Coq Require Import List Bool Arith NArith ZArith Lia Permutation.
From CliUtils Require Import Model.ObjSet Model.ActuationTable Model.PipelineTypes Model.Pipeline
     Proofs.ObjSetProofs Proofs.PipelineBase Proofs.PipelineAuth Proofs.PipelineEvents Proofs.PipelineMisc
     Corr.CorrLib Corr.CorrPipeline Proofs.PipelineOrphansBase Proofs.PipelineOrphansPlan
     Proofs.PipelineMonBase Proofs.PipelineMonC13 Proofs.PipelineMonC10 Proofs.PipelineMonC12Defs
     Proofs.PipelineMonC12Wait.
Import ListNotations.

(* ---- list-level facts about the monitor's helpers ------------------------------------------- *)
Definition timed (body : list evt) : list id :=
  flat_map (fun e => match e with EWait _ i WTimedOut => [i] | _ => [] end) body.

Definition nsf (e : evt) : bool := match e with EStarted _ | EFinished _ => false | _ => true end.

Definition startedb (g : gname) (evs : list evt) : bool :=
  existsb (fun e => match e with EStarted h => gn_eqb h g | _ => false end) evs.
Definition finishedb (g : gname) (evs : list evt) : bool :=
  existsb (fun e => match e with EFinished h => gn_eqb h g | _ => false end) evs.

Lemma timed_nt es : Forall ntw es -> timed es = [].
Proof.
  induction 1 as [|e es He _ IH]; [reflexivity|]. cbn [timed flat_map]. fold (timed es). rewrite IH, app_nil_r.
  destruct e as [| | | | | |g i s| |]; try reflexivity. destruct s; try reflexivity. exfalso. exact (He g i eq_refl).
Qed.
Lemma timed_app a b : timed (a ++ b) = timed a ++ timed b.
Proof. apply flat_map_app. Qed.
Lemma timed_timeouts g l : timed (map (fun i => EWait g i WTimedOut) l) = l.
Proof. induction l as [|i l IH]; [reflexivity|]. cbn. f_equal. exact IH. Qed.

Lemma bft_app es1 g l : Forall ntw es1 ->
  before_first_timeout (es1 ++ map (fun i => EWait g i WTimedOut) l) = match l with [] => es1 | _ => es1 end.
Proof.
  intros F. assert (X : before_first_timeout (es1 ++ map (fun i => EWait g i WTimedOut) l) = es1).
  { induction F as [|e es He _ IH]; cbn [app].
    - destruct l; reflexivity.
    - assert (Y : before_first_timeout (e :: es ++ map (fun i => EWait g i WTimedOut) l) =
                  e :: before_first_timeout (es ++ map (fun i => EWait g i WTimedOut) l)).
      { destruct e as [| | | | | |g' i s| |]; try reflexivity. destruct s; try reflexivity. exfalso. exact (He g' i eq_refl). }
      rewrite Y, IH. reflexivity. }
  rewrite X. destruct l; reflexivity.
Qed.

Lemma skipn_app_len {A} (a b : list A) : skipn (length a) (a ++ b) = b.
Proof. induction a as [|x a IH]; [reflexivity|exact IH]. Qed.

Lemma after_started_skip g a b : forallb (fun e => match e with EStarted _ => false | _ => true end) a = true ->
  after_started g (a ++ b) = after_started g b.
Proof.
  induction a as [|e a IH]; intros H; [reflexivity|]. cbn in H. apply andb_true_iff in H. destruct H as [H1 H2].
  cbn [app after_started]. destruct e; try discriminate; apply IH; exact H2.
Qed.
Lemma startedb_skip g a b : forallb (fun e => match e with EStarted _ => false | _ => true end) a = true ->
  startedb g (a ++ b) = startedb g b.
Proof.
  unfold startedb. induction a as [|e a IH]; intros H; [reflexivity|]. cbn in H. apply andb_true_iff in H. destruct H as [H1 H2].
  cbn [app existsb]. rewrite (IH H2). destruct e; try discriminate; reflexivity.
Qed.
Lemma finishedb_skip g a b : forallb (fun e => match e with EFinished _ => false | _ => true end) a = true ->
  finishedb g (a ++ b) = finishedb g b.
Proof.
  unfold finishedb. induction a as [|e a IH]; intros H; [reflexivity|]. cbn in H. apply andb_true_iff in H. destruct H as [H1 H2].
  cbn [app existsb]. rewrite (IH H2). destruct e; try discriminate; reflexivity.
Qed.
Lemma upto_finished_block g body tail : forallb nsf body = true ->
  upto_finished g (body ++ EFinished g :: tail) = (body, tail).
Proof.
  induction body as [|e body IH]; intros H.
  - cbn. rewrite gn_eqb_refl. reflexivity.
  - cbn in H. apply andb_true_iff in H. destruct H as [H1 H2]. cbn [app upto_finished].
    rewrite (IH H2). destruct e; try discriminate; reflexivity.
Qed.

Lemma nsf_started a : forallb nsf a = true -> forallb (fun e => match e with EStarted _ => false | _ => true end) a = true.
Proof.
  intros H. apply forallb_forall. intros e He. rewrite forallb_forall in H. specialize (H e He). destruct e; try reflexivity; discriminate.
Qed.
Lemma nsf_finished a : forallb nsf a = true -> forallb (fun e => match e with EFinished _ => false | _ => true end) a = true.
Proof.
  intros H. apply forallb_forall. intros e He. rewrite forallb_forall in H. specialize (H e He). destruct e; try reflexivity; discriminate.
Qed.

Lemma body_nsf t body : body_spec t body -> forallb nsf body = true.
Proof.
  intros B. pose proof (body_spec_ok t body B) as F. apply forallb_forall. intros e He.
  rewrite Forall_forall in F. specialize (F e He). destruct e; try reflexivity; discriminate.
Qed.

Lemma vals_nostart vals : Forall is_validation vals ->
  forallb (fun e => match e with EStarted _ => false | _ => true end) vals = true /\
  forallb (fun e => match e with EFinished _ => false | _ => true end) vals = true /\
  flat_map (fun e => match e with EInit p => p | _ => [] end) vals = [].
Proof.
  induction 1 as [|e vals [l ->] _ [A [B C]]]; [repeat split|]. cbn. rewrite A, B, C. repeat split.
Qed.

(* ---- the wait-group clause of the monitor, on its three inputs ------------------------------ *)
Section Core.
  Variable sc : scenario.

  Definition wg_core (g : gname) (ids : list id) (aft : list evt) (st fin : bool) : bool :=
    let o := sc_opts sc in
    let '(body, rest) := upto_finished g aft in
    let timed := flat_map (fun e => match e with EWait _ i WTimedOut => [i] | _ => [] end) body in
    let pre := before_first_timeout body in
    let pend_at_fire := filter (fun i => match last_wait_in pre i with Some WPending => true | _ => false end) ids in
    match timed with
    | [] =>
        negb st || negb fin
        || negb (existsb (fun i => match last_wait_in body i with Some WPending => true | _ => false end) ids)
        || match rest with EError :: _ => true | _ => false end
    | _ =>
        nl_eqb (sortn timed) (sortn pend_at_fire)
        && (o_rec_timeout o || o_prune_timeout o)
        && forallb (fun e => match e with EWait _ _ WTimedOut | EStatus _ _ => true | _ => false end)
                   (skipn (length pre) body)
    end.

  Lemma c12_wait_group_core evs k ids :
    c12_wait_group sc evs ((GWait, k), ids) =
    wg_core (GWait, k) ids (after_started (GWait, k) evs) (startedb (GWait, k) evs) (finishedb (GWait, k) evs).
  Proof. reflexivity. Qed.

  Lemma wg_core_absent g ids fin : wg_core g ids [] false fin = true.
  Proof. reflexivity. Qed.

  (* the block of the wait task itself *)
  Lemma wg_block c k ids body tail ab : NoDup ids -> wspec sc c (GWait, k) ids body ab -> forallb nsf body = true ->
    (ab = false \/ exists r, tail = EError :: r) ->
    wg_core (GWait, k) ids (body ++ EFinished (GWait, k) :: tail) true true = true.
  Proof.
    intros ND [es1 [es2 [pending [EB [F1 [N1 [CV [[NDp HP] D]]]]]]]] NSF AB.
    unfold wg_core. rewrite (upto_finished_block _ _ _ NSF). cbv zeta. fold (timed body).
    assert (NOPEND : pending = [] ->
              existsb (fun i => match last_wait_in es1 i with Some WPending => true | _ => false end) ids = false).
    { intros ->. destruct (existsb _ ids) eqn:EX; [|reflexivity]. apply existsb_exists in EX. destruct EX as [i [Hi X]].
      destruct (last_wait_in es1 i) as [[| | | |]|] eqn:L; try discriminate.
      exfalso. apply (proj2 (HP i)). auto. }
    destruct D as [[-> ->]|[[NE [HT ->]]|[NE [-> AT]]]].
    - rewrite app_nil_r in EB. subst body. rewrite (timed_nt _ N1), (NOPEND eq_refl). reflexivity.
    - subst body. rewrite timed_app, (timed_nt _ N1), timed_timeouts. cbn [app].
      destruct pending as [|p0 pr] eqn:EP; [congruence|]. rewrite <- EP in *. clear EP.
      rewrite bft_app by exact N1.
      assert (PRE : match pending with [] => es1 | _ :: _ => es1 end = es1) by (destruct pending; reflexivity).
      rewrite PRE. clear PRE. rewrite skipn_app_len.
      assert (PERM : Permutation pending (filter (fun i => match last_wait_in es1 i with Some WPending => true | _ => false end) ids)).
      { apply NoDup_Permutation; [exact NDp|apply (NoDup_filter nat); exact ND|].
        intros i. rewrite HP, filter_In. split.
        - intros [A B]. rewrite B. auto.
        - intros [A B]. split; [exact A|]. destruct (last_wait_in es1 i) as [[| | | |]|]; try discriminate. reflexivity. }
      rewrite (sortn_perm_eq _ _ PERM), nl_eqb_refl.
      assert (TO : o_rec_timeout (sc_opts sc) || o_prune_timeout (sc_opts sc) = true).
      { unfold has_to in HT. destruct c; rewrite HT; [reflexivity|apply orb_true_r]. }
      rewrite TO. cbn [andb]. apply forallb_forall. intros e He. apply in_map_iff in He. destruct He as [i [<- _]]. reflexivity.
    - rewrite app_nil_r in EB. subst body. rewrite (timed_nt _ N1).
      destruct AB as [AB|[r ->]]; [congruence|]. rewrite !orb_true_r. reflexivity.
  Qed.
End Core.

(* ---- the runner with the refined wait spec ---------------------------------------------------- *)
Section Runner.
  Variable sc : scenario.

  Definition bspec2 (t : task) (body : list evt) (ab : bool) : Prop :=
    match t with TWait k c ids => wspec sc c (GWait, k) ids body ab | _ => True end.
  Definition twnd (t : task) : Prop := match t with TWait _ _ ids => NoDup ids | _ => True end.

  Lemma wspec_wait_body c g ids body ab : wspec sc c g ids body ab -> wait_body g ids body.
  Proof.
    intros [es1 [es2 [pending [-> [F1 [N1 [CV [[NDp HP] D]]]]]]]]. split.
    - apply Forall_app. split; [exact F1|].
      destruct D as [[_ ->]|[[_ [_ ->]]|[_ [-> _]]]]; try constructor.
      apply Forall_forall. intros e He. apply in_map_iff in He. destruct He as [i [<- Hi]].
      left. exists i, WTimedOut. split; [reflexivity|]. apply HP. exact Hi.
    - intros i Hi. destruct (CV i Hi) as [st H]. exists st. apply in_or_app. left. exact H.
  Qed.

  Lemma run_task2 pl locals prev s t : task_wf t -> twnd t ->
    exists body, emits s (fst (run_task sc pl locals prev s t))
                       (EStarted (task_name t) :: body ++ [EFinished (task_name t)]) /\
                 body_spec t body /\ bspec2 t body (r_abort (fst (run_task sc pl locals prev s t))).
  Proof.
    intros WF ND. destruct t as [|k l|k c ids|k l|].
    1,2,4,5: destruct (e_run_task sc pl locals prev s _ WF) as [body [E B]]; exists body; split; [exact E|split; [exact B|exact I]].
    unfold run_task. cbv zeta. cbn [fst task_name].
    destruct (wait_task_spec sc c (GWait, k) ids (ev s (EStarted (GWait, k))) ND) as [body [E W]].
    exists body. split; [|split; [exact (wspec_wait_body _ _ _ _ _ W)|exact W]].
    change (EStarted (GWait, k) :: body ++ [EFinished (GWait, k)]) with ([EStarted (GWait, k)] ++ body ++ [EFinished (GWait, k)]).
    eapply emits_trans; [apply emits_ev|]. eapply emits_trans; [exact E|apply emits_ev].
  Qed.

  Inductive ttr : list task -> list evt -> Prop :=
  | ttr_done : ttr [] []
  | ttr_stop t rest body ab :
      body_spec t body -> bspec2 t body ab ->
      ttr (t :: rest) (EStarted (task_name t) :: body ++ [EFinished (task_name t); EError])
  | ttr_next t rest body es :
      body_spec t body -> bspec2 t body false -> ttr rest es ->
      ttr (t :: rest) (EStarted (task_name t) :: body ++ EFinished (task_name t) :: es).

  Lemma run_tasks2 pl locals prev ts : Forall task_wf ts -> Forall twnd ts ->
    forall s, exists es, emits s (run_tasks sc pl locals prev s ts) es /\ ttr ts es.
  Proof.
    induction ts as [|t rest IH]; intros WF ND s; cbn [run_tasks].
    - exists []. split; [apply emits_refl|constructor].
    - inversion WF as [|? ? Wt Wr]; subst. inversion ND as [|? ? Nt Nr]; subst.
      destruct (run_task2 pl locals prev s t Wt Nt) as [body [E [B W]]].
      destruct (run_task sc pl locals prev s t) as [s1 ok]. cbn [fst] in E, W.
      assert (STOP : exists es, emits s (ev s1 EError) es /\ ttr (t :: rest) es).
      { exists (EStarted (task_name t) :: body ++ [EFinished (task_name t); EError]). split; [|econstructor; eassumption].
        replace (EStarted (task_name t) :: body ++ [EFinished (task_name t); EError])
          with ((EStarted (task_name t) :: body ++ [EFinished (task_name t)]) ++ [EError]).
        - eapply emits_trans; [exact E|apply emits_ev].
        - cbn. rewrite <- app_assoc. reflexivity. }
      destruct (negb ok); [exact STOP|]. destruct (r_abort s1) eqn:AB; [exact STOP|].
      destruct (IH Wr Nr s1) as [es [E2 T2]].
      exists (EStarted (task_name t) :: body ++ EFinished (task_name t) :: es). split; [|constructor; assumption].
      replace (EStarted (task_name t) :: body ++ EFinished (task_name t) :: es)
        with ((EStarted (task_name t) :: body ++ [EFinished (task_name t)]) ++ es).
      + eapply emits_trans; [exact E|exact E2].
      + cbn. rewrite <- app_assoc. reflexivity.
  Qed.

  Definition wait_idx (ts : list task) : list nat :=
    flat_map (fun t => match t with TWait k _ _ => [k] | _ => [] end) ts.

  Lemma name_other t k : ~ In k (wait_idx [t]) -> gn_eqb (task_name t) (GWait, k) = false.
  Proof.
    destruct t; try reflexivity. cbn [task_name]. intros H. apply gn_eqb_idx. intros ->. apply H. left. reflexivity.
  Qed.

  Lemma block_skip t body tail g : body_spec t body -> gn_eqb (task_name t) g = false ->
    after_started g (EStarted (task_name t) :: body ++ EFinished (task_name t) :: tail) = after_started g tail /\
    startedb g (EStarted (task_name t) :: body ++ EFinished (task_name t) :: tail) = startedb g tail /\
    finishedb g (EStarted (task_name t) :: body ++ EFinished (task_name t) :: tail) = finishedb g tail.
  Proof.
    intros B N. pose proof (body_nsf t body B) as NSF.
    assert (N' : gn_eqb g (task_name t) = false).
    { destruct g as [a x], (task_name t) as [b y]. unfold gn_eqb in *. cbn in *. rewrite Nat.eqb_sym.
      destruct a, b; cbn in *; try reflexivity; exact N. }
    split; [|split].
    - cbn [after_started]. rewrite N'. rewrite after_started_skip by (apply nsf_started; exact NSF). reflexivity.
    - unfold startedb. cbn [existsb]. rewrite N. cbn [orb]. fold (startedb g (body ++ EFinished (task_name t) :: tail)).
      rewrite startedb_skip by (apply nsf_started; exact NSF). reflexivity.
    - unfold finishedb. cbn [existsb orb]. fold (finishedb g (body ++ EFinished (task_name t) :: tail)).
      rewrite finishedb_skip by (apply nsf_finished; exact NSF). unfold finishedb. cbn [existsb]. rewrite N. reflexivity.
  Qed.

  Lemma ttr_absent ts es k : ttr ts es -> ~ In k (wait_idx ts) ->
    after_started (GWait, k) es = [] /\ startedb (GWait, k) es = false.
  Proof.
    induction 1 as [|t rest body ab B W|t rest body es B W T IH]; intros N; [split; reflexivity| |].
    - assert (N1 : ~ In k (wait_idx [t])).
      { intros H. apply N. unfold wait_idx in *. cbn [flat_map] in *. rewrite app_nil_r in H. apply in_or_app. left. exact H. }
      destruct (block_skip t body [EError] (GWait, k) B (name_other t k N1)) as [A1 [A2 _]].
      rewrite A1, A2. split; reflexivity.
    - assert (N1 : ~ In k (wait_idx [t])).
      { intros H. apply N. unfold wait_idx in *. cbn [flat_map] in *. rewrite app_nil_r in H. apply in_or_app. left. exact H. }
      assert (N2 : ~ In k (wait_idx rest)).
      { intros H. apply N. unfold wait_idx in *. cbn [flat_map]. apply in_or_app. right. exact H. }
      destruct (block_skip t body es (GWait, k) B (name_other t k N1)) as [A1 [A2 _]].
      rewrite A1, A2. apply IH. exact N2.
  Qed.

  Lemma ttr_wait_group ts es : ttr ts es -> NoDup (wait_idx ts) -> Forall twnd ts ->
    forall k c ids, In (TWait k c ids) ts ->
    wg_core sc (GWait, k) ids (after_started (GWait, k) es) (startedb (GWait, k) es) (finishedb (GWait, k) es) = true.
  Proof.
    induction 1 as [|t rest body ab B W|t rest body es B W T IH]; intros NI ND k c ids Hin; [destruct Hin| |].
    - inversion ND as [|? ? Nt Nr]; subst. destruct Hin as [->|Hin].
      + cbn [task_name bspec2 twnd] in *. pose proof (body_nsf _ _ B) as NSF.
        assert (A1 : after_started (GWait, k) (EStarted (GWait, k) :: body ++ [EFinished (GWait, k); EError]) =
                     body ++ [EFinished (GWait, k); EError]) by (cbn [after_started]; rewrite gn_eqb_refl; reflexivity).
        assert (A2 : startedb (GWait, k) (EStarted (GWait, k) :: body ++ [EFinished (GWait, k); EError]) = true)
          by (unfold startedb; cbn [existsb]; rewrite gn_eqb_refl; reflexivity).
        assert (A3 : finishedb (GWait, k) (EStarted (GWait, k) :: body ++ [EFinished (GWait, k); EError]) = true).
        { unfold finishedb. cbn [existsb orb]. fold (finishedb (GWait, k) (body ++ [EFinished (GWait, k); EError])).
          rewrite finishedb_skip by (apply nsf_finished; exact NSF). unfold finishedb. cbn [existsb]. rewrite gn_eqb_refl. reflexivity. }
        rewrite A1, A2, A3. apply (wg_block sc c k ids body [EError] ab Nt W NSF). right. eauto.
      + assert (N1 : ~ In k (wait_idx [t])).
        { unfold wait_idx in *. cbn [flat_map] in *. rewrite app_nil_r.
          assert (Hk : In k (flat_map (fun t0 => match t0 with TWait k0 _ _ => [k0] | _ => [] end) rest)).
          { apply in_flat_map. exists (TWait k c ids). split; [exact Hin|left; reflexivity]. }
          destruct t; cbn [app] in *; try (intros H0; exact H0).
          inversion NI as [|? ? Hx Hr]; subst. intros [->|[]]. contradiction. }
        destruct (block_skip t body [EError] (GWait, k) B (name_other t k N1)) as [A1 [A2 A3]].
        rewrite A1, A2, A3. reflexivity.
    - inversion ND as [|? ? Nt Nr]; subst. destruct Hin as [->|Hin].
      + cbn [task_name bspec2 twnd] in *. pose proof (body_nsf _ _ B) as NSF.
        assert (A1 : after_started (GWait, k) (EStarted (GWait, k) :: body ++ EFinished (GWait, k) :: es) =
                     body ++ EFinished (GWait, k) :: es) by (cbn [after_started]; rewrite gn_eqb_refl; reflexivity).
        assert (A2 : startedb (GWait, k) (EStarted (GWait, k) :: body ++ EFinished (GWait, k) :: es) = true)
          by (unfold startedb; cbn [existsb]; rewrite gn_eqb_refl; reflexivity).
        assert (A3 : finishedb (GWait, k) (EStarted (GWait, k) :: body ++ EFinished (GWait, k) :: es) = true).
        { unfold finishedb. cbn [existsb orb]. fold (finishedb (GWait, k) (body ++ EFinished (GWait, k) :: es)).
          rewrite finishedb_skip by (apply nsf_finished; exact NSF). unfold finishedb. cbn [existsb]. rewrite gn_eqb_refl. reflexivity. }
        rewrite A1, A2, A3. apply (wg_block sc c k ids body es false Nt W NSF). left. reflexivity.
      + assert (NI' : NoDup (wait_idx rest) /\ ~ In k (wait_idx [t])).
        { unfold wait_idx in *. cbn [flat_map] in *. rewrite app_nil_r.
          assert (Hk : In k (flat_map (fun t0 => match t0 with TWait k0 _ _ => [k0] | _ => [] end) rest)).
          { apply in_flat_map. exists (TWait k c ids). split; [exact Hin|left; reflexivity]. }
          destruct t; cbn [app] in *; try (split; [exact NI|intros []]).
          inversion NI as [|? ? Hx Hr]; subst. split; [exact Hr|]. intros [->|[]]. contradiction. }
        destruct NI' as [NI1 NI2].
        destruct (block_skip t body es (GWait, k) B (name_other t k NI2)) as [A1 [A2 A3]].
        rewrite A1, A2, A3. exact (IH NI1 Nr k c ids Hin).
  Qed.

  Lemma ttr_events ts es : ttr ts es ->
    flat_map (fun e => match e with EInit p => p | _ => [] end) es = [].
  Proof.
    assert (BODY : forall t body, body_spec t body -> flat_map (fun e => match e with EInit p => p | _ => [] end) body = []).
    { intros t body B. pose proof (body_spec_ok t body B) as F. clear B.
      induction F as [|e l He _ IH]; [reflexivity|]. cbn [flat_map]. rewrite IH, app_nil_r.
      destruct e; try reflexivity. cbn in He. discriminate He. }
    induction 1 as [|t rest body ab B W|t rest body es B W T IH]; [reflexivity| |].
    - cbn [flat_map app]. rewrite flat_map_app, (BODY t body B). reflexivity.
    - cbn [flat_map app]. rewrite flat_map_app, (BODY t body B). cbn [flat_map app]. exact IH.
  Qed.

  (* ---- wait indices and wait ids of the task list ---------------------------------------- *)
  Lemma wait_idx_app a b : wait_idx (a ++ b) = wait_idx a ++ wait_idx b.
  Proof. apply flat_map_app. Qed.

  Lemma idxw_apply_tasks layers : forall ka kw,
    exists n, wait_idx (fst (apply_tasks sc ka kw layers)) = seq kw n /\ snd (apply_tasks sc ka kw layers) = kw + n.
  Proof.
    induction layers as [|l t IH]; intros ka kw; cbn [apply_tasks].
    - exists 0. split; [reflexivity|cbn; lia].
    - destruct (is_dry _).
      + destruct (IH (S ka) kw) as [n [A B]]. destruct (apply_tasks sc (S ka) kw t) as [ts kw']. cbn [fst snd] in *.
        exists n. split; [exact A|exact B].
      + destruct (IH (S ka) (S kw)) as [n [A B]]. destruct (apply_tasks sc (S ka) (S kw) t) as [ts kw']. cbn [fst snd] in *.
        exists (S n). split; [unfold wait_idx in *; cbn; rewrite A; reflexivity|lia].
  Qed.
  Lemma idxw_prune_tasks layers : forall kp kw, exists n, wait_idx (prune_tasks sc kp kw layers) = seq kw n.
  Proof.
    induction layers as [|l t IH]; intros kp kw; cbn [prune_tasks]; [exists 0; reflexivity|].
    destruct (is_dry _).
    - destruct (IH (S kp) kw) as [n A]. exists n. exact A.
    - destruct (IH (S kp) (S kw)) as [n A]. exists (S n). unfold wait_idx in *. cbn. rewrite A. reflexivity.
  Qed.

  Lemma tasks_of_wait_idx pl : NoDup (wait_idx (tasks_of sc pl)).
  Proof.
    unfold tasks_of.
    assert (A : exists n, wait_idx (fst (match pl_apply pl with [] => ([], 0) | _ => apply_tasks sc 0 0 (pl_apply_layers pl) end)) = seq 0 n /\
                          snd (match pl_apply pl with [] => ([], 0) | _ => apply_tasks sc 0 0 (pl_apply_layers pl) end) = n).
    { destruct (pl_apply pl); [exists 0; split; reflexivity|]. destruct (idxw_apply_tasks (pl_apply_layers pl) 0 0) as [n [X Y]].
      exists n. split; [exact X|exact Y]. }
    destruct (match pl_apply pl with [] => ([], 0) | _ => apply_tasks sc 0 0 (pl_apply_layers pl) end) as [at_ kw].
    cbn [fst snd] in A. destruct A as [n [A1 A2]]. subst kw.
    assert (P : exists m, wait_idx (if o_prune (sc_opts sc) then match pl_prune pl with [] => [] | _ => prune_tasks sc 0 n (pl_prune_layers pl) end else []) = seq n m).
    { destruct (o_prune _); [|exists 0; reflexivity]. destruct (pl_prune pl); [exists 0; reflexivity|]. apply idxw_prune_tasks. }
    destruct P as [m P].
    assert (E0 : wait_idx (if o_destroy (sc_opts sc) then [] else [TInvAdd]) = []) by (destruct (o_destroy _); reflexivity).
    rewrite !wait_idx_app, A1, P, E0. cbn [app wait_idx flat_map]. rewrite app_nil_r.
    change n with (0 + n) at 2. rewrite <- seq_app. apply seq_NoDup.
  Qed.

  Lemma apply_tasks_wnd layers : (forall l, In l layers -> NoDup (map p_id l)) ->
    forall ka kw, Forall twnd (fst (apply_tasks sc ka kw layers)).
  Proof.
    induction layers as [|l t IH]; intros H ka kw; cbn [apply_tasks]; [constructor|].
    assert (Hl : NoDup (map p_id l)) by (apply H; left; reflexivity).
    assert (Ht : forall l0, In l0 t -> NoDup (map p_id l0)) by (intros; apply H; right; assumption).
    destruct (is_dry _).
    - specialize (IH Ht (S ka) kw). destruct (apply_tasks sc (S ka) kw t) as [ts kw']. cbn [fst] in *.
      constructor; [exact I|exact IH].
    - specialize (IH Ht (S ka) (S kw)). destruct (apply_tasks sc (S ka) (S kw) t) as [ts kw']. cbn [fst] in *.
      constructor; [exact I|]. constructor; [exact Hl|exact IH].
  Qed.
  Lemma prune_tasks_wnd layers : (forall l, In l layers -> NoDup (map p_id l)) ->
    forall kp kw, Forall twnd (prune_tasks sc kp kw layers).
  Proof.
    induction layers as [|l t IH]; intros H kp kw; cbn [prune_tasks]; [constructor|].
    assert (Hl : NoDup (map p_id l)) by (apply H; left; reflexivity).
    assert (Ht : forall l0, In l0 t -> NoDup (map p_id l0)) by (intros; apply H; right; assumption).
    destruct (is_dry _); constructor; try exact I; [apply IH; exact Ht|].
    constructor; [exact Hl|apply IH; exact Ht].
  Qed.
End Runner.

(* ---- the monitor ---------------------------------------------------------------------------------- *)
Section Run.
  Variable sc : scenario.
  Variable c0 : cluster.
  Hypothesis HND : locals_nodup sc.

  Notation pl := (plan_of sc c0).

  Lemma tasks_of_wnd : Forall (twnd) (tasks_of sc pl).
  Proof.
    destruct (plan_layers sc c0 HND) as [N _]. apply NoDup_app_elim in N. destruct N as [NA [NP _]].
    unfold tasks_of.
    assert (A : Forall twnd (fst (match pl_apply pl with [] => ([], 0) | _ => apply_tasks sc 0 0 (pl_apply_layers pl) end))).
    { destruct (pl_apply pl); [constructor|]. apply apply_tasks_wnd. apply layer_nd. exact NA. }
    destruct (match pl_apply pl with [] => ([], 0) | _ => apply_tasks sc 0 0 (pl_apply_layers pl) end) as [at_ kw].
    cbn [fst] in A.
    apply Forall_app. split; [destruct (o_destroy _); repeat constructor|].
    apply Forall_app. split; [exact A|]. apply Forall_app. split; [|repeat constructor].
    destruct (o_prune _); [|constructor]. destruct (pl_prune pl); [constructor|].
    apply prune_tasks_wnd. apply layer_nd. exact NP.
  Qed.

  (* the event stream with the refined runner trace *)
  Lemma run_events_ttr :
    let es := evs (rev (r_tr (run_state sc c0))) in
    es = [EError] \/
    (exists vals, Forall is_validation vals /\ es = vals ++ [init_ev sc c0; EError]) \/
    (exists vals es', Forall is_validation vals /\ ttr sc (tasks_of sc pl) es' /\ es = vals ++ init_ev sc c0 :: es').
  Proof.
    cbv zeta. destruct (run_state_shape sc c0) as [s C T|s C T _ _|s4 SO _ _|s4 prev SO _ _ _].
    - left. cbn [ev emit r_tr]. rewrite T. reflexivity.
    - left. cbn [ev emit r_tr]. rewrite T. reflexivity.
    - right; left. destruct (e_pre_tasks sc c0 s4) as [vals [E F]]. exists vals. split; [exact F|].
      rewrite (emits_evs s4 _ ((vals ++ [init_ev sc c0]) ++ [EError]) (so_tr _ _ _ SO)).
      + rewrite <- app_assoc. reflexivity.
      + eapply emits_trans; [exact E|apply emits_ev].
    - right; right. destruct (e_pre_tasks sc c0 s4) as [vals [E F]].
      destruct (run_tasks2 sc pl (locals_of sc) prev (tasks_of sc pl) (tasks_of_wf' sc c0) tasks_of_wnd (pre_tasks sc c0 s4)) as [es' [E' T']].
      exists vals, es'. split; [exact F|]. split; [exact T'|].
      rewrite (emits_evs s4 _ ((vals ++ [init_ev sc c0]) ++ es') (so_tr _ _ _ SO)).
      + rewrite <- app_assoc. reflexivity.
      + eapply emits_trans; [exact E|exact E'].
  Qed.

  Theorem timeouts_clause : c12_timeouts sc (run sc c0) = true.
  Proof.
    unfold c12_timeouts. rewrite events_evs, (evs_out_trace sc c0).
    destruct run_events_ttr as [E|[[vals [F E]]|[vals [es' [F [T E]]]]]]; rewrite E; clear E.
    - reflexivity.
    - destruct (vals_nostart vals F) as [V1 [V2 V3]].
      rewrite flat_map_app, V3. cbn [flat_map app init_ev]. rewrite app_nil_r.
      apply forallb_forall. intros g Hg. apply in_map_iff in Hg. destruct Hg as [t [<- Ht]].
      destruct t as [|k l|k c ids|k l|]; try reflexivity.
      cbn [task_name task_ids]. rewrite c12_wait_group_core.
      rewrite after_started_skip, startedb_skip by exact V1. reflexivity.
    - destruct (vals_nostart vals F) as [V1 [V2 V3]].
      assert (PLAN : flat_map (fun e => match e with EInit p => p | _ => [] end) (vals ++ init_ev sc c0 :: es') =
                     map (fun t => (task_name t, task_ids pl t)) (tasks_of sc pl)).
      { rewrite flat_map_app, V3. cbn [flat_map app init_ev]. rewrite (ttr_events sc _ _ T), app_nil_r. reflexivity. }
      rewrite PLAN. clear PLAN.
      apply forallb_forall. intros g Hg. apply in_map_iff in Hg. destruct Hg as [t [<- Ht]].
      destruct t as [|k l|k c ids|k l|]; try reflexivity.
      cbn [task_name task_ids]. rewrite c12_wait_group_core.
      rewrite after_started_skip, startedb_skip, finishedb_skip by assumption.
      change (init_ev sc c0 :: es') with ([init_ev sc c0] ++ es').
      rewrite after_started_skip, startedb_skip, finishedb_skip by reflexivity.
      exact (ttr_wait_group sc _ _ T (tasks_of_wait_idx sc pl) tasks_of_wnd k c ids Ht).
  Qed.
End Run.
