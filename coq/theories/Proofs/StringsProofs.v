(* Characterising lemmas for Base/Strings.v. *)
From Coq Require Import List Bool Arith String Ascii Lia.
From CliUtils Require Import Base.Strings.
Import ListNotations.
Local Open Scope string_scope.

(* ---- append / length / take / drop ------------------------------------- *)
Lemma sapp_nil_r : forall s, s ++ "" = s.
Proof. induction s as [|c s IH]; simpl; [reflexivity | now rewrite IH]. Qed.

Lemma sapp_assoc : forall a b c : string, (a ++ b) ++ c = a ++ (b ++ c).
Proof. induction a as [|x a IH]; intros b c; simpl; [reflexivity | now rewrite IH]. Qed.

Lemma slength_app : forall a b, String.length (a ++ b) = String.length a + String.length b.
Proof. induction a as [|x a IH]; intros b; simpl; [reflexivity | now rewrite IH]. Qed.

Lemma take_app_length : forall a b, take (String.length a) (a ++ b) = a.
Proof. induction a as [|x a IH]; intros b; simpl; [now destruct b | now rewrite IH]. Qed.

Lemma drop_app_length : forall a b, drop (String.length a) (a ++ b) = b.
Proof. induction a as [|x a IH]; intros b; simpl; [now destruct b | apply IH]. Qed.

Lemma drop_S_app_length : forall a c b, drop (S (String.length a)) (a ++ String c b) = b.
Proof. induction a as [|x a IH]; intros c b; simpl; [now destruct b | apply IH]. Qed.

Lemma take_drop : forall n s, take n s ++ drop n s = s.
Proof.
  induction n as [|n IH]; intros s; simpl; [now destruct s|].
  destruct s as [|c r]; simpl; [reflexivity | now rewrite IH].
Qed.

Lemma take_0 : forall s, take 0 s = "".
Proof. now destruct s. Qed.

Lemma drop_0 : forall s, drop 0 s = s.
Proof. now destruct s. Qed.

(* ---- has_prefix --------------------------------------------------------- *)
Lemma has_prefix_app : forall p s, has_prefix p (p ++ s) = true.
Proof. induction p as [|a p IH]; intros s; simpl; [reflexivity|]. now rewrite Ascii.eqb_refl, IH. Qed.

(* a prefix match splits the string *)
Lemma has_prefix_split : forall p s, has_prefix p s = true -> s = p ++ drop (String.length p) s.
Proof.
  induction p as [|a p IH]; intros s H; simpl in *; [now rewrite ?drop_0|].
  destruct s as [|b s]; [discriminate|].
  apply andb_true_iff in H. destruct H as [Hab Hp]. apply Ascii.eqb_eq in Hab. subst b.
  simpl. f_equal. now apply IH.
Qed.

Lemma has_prefix_ch : forall c a r, has_prefix (ch c) (String a r) = Ascii.eqb c a.
Proof. intros c a r. simpl. now rewrite andb_true_r. Qed.

Lemma has_prefix_ch_nil : forall c, has_prefix (ch c) "" = false.
Proof. reflexivity. Qed.

(* ---- contains ----------------------------------------------------------- *)
Lemma contains_ch_cons : forall c a r, contains (ch c) (String a r) = Ascii.eqb c a || contains (ch c) r.
Proof. intros c a r. simpl. now rewrite andb_true_r. Qed.

Lemma contains_ch_nil : forall c, contains (ch c) "" = false.
Proof. reflexivity. Qed.

Lemma contains_ch_app : forall c a b, contains (ch c) (a ++ b) = contains (ch c) a || contains (ch c) b.
Proof.
  intros c. induction a as [|x a IH]; intros b; [reflexivity|].
  change (String x a ++ b) with (String x (a ++ b)).
  now rewrite !contains_ch_cons, IH, orb_assoc.
Qed.

Lemma contains_prefix : forall sub s, has_prefix sub s = true -> contains sub s = true.
Proof. intros sub [|x s] H; unfold contains; fold contains; now rewrite H. Qed.

(* an occurrence anywhere is found *)
Lemma contains_app_intro : forall sub a b, contains sub (a ++ sub ++ b) = true.
Proof.
  intros sub. induction a as [|x a IH]; intros b.
  - change ("" ++ sub ++ b) with (sub ++ b). apply contains_prefix. apply has_prefix_app.
  - change (String x a ++ sub ++ b) with (String x (a ++ sub ++ b)).
    simpl contains. now rewrite IH, orb_true_r.
Qed.

(* and whatever is found is an occurrence *)
Lemma contains_true_split : forall sub s, contains sub s = true ->
  exists a b, s = a ++ sub ++ b.
Proof.
  intros sub. induction s as [|x s IH]; intros H; simpl in H.
  - rewrite orb_false_r in H. exists "", (drop (String.length sub) "").
    change ("" ++ sub ++ drop (String.length sub) "") with (sub ++ drop (String.length sub) "").
    now apply has_prefix_split.
  - apply orb_true_iff in H. destruct H as [H|H].
    + exists "", (drop (String.length sub) (String x s)).
      change ("" ++ sub ++ drop (String.length sub) (String x s)) with (sub ++ drop (String.length sub) (String x s)).
      now apply has_prefix_split.
    + destruct (IH H) as [a [b E]]. exists (String x a), b. simpl. now rewrite E.
Qed.

(* ---- index / last_index for a one-byte separator ------------------------ *)
Lemma index_ch_app : forall c pre post, contains (ch c) pre = false ->
  index (ch c) (pre ++ String c post) = Some (String.length pre).
Proof.
  intros c. induction pre as [|x pre IH]; intros post H.
  - simpl. now rewrite Ascii.eqb_refl.
  - rewrite contains_ch_cons in H. apply orb_false_iff in H. destruct H as [Hx Hp].
    change (String x pre ++ String c post) with (String x (pre ++ String c post)).
    unfold index; fold index. rewrite has_prefix_ch, Hx, (IH post Hp). reflexivity.
Qed.

Lemma index_ch_none : forall c s, index (ch c) s = None <-> contains (ch c) s = false.
Proof.
  intros c. induction s as [|x s IH]; [simpl; tauto|].
  unfold index; fold index. rewrite has_prefix_ch, contains_ch_cons.
  destruct (Ascii.eqb c x); simpl; [split; discriminate|].
  rewrite <- IH. destruct (index (ch c) s); simpl; split; congruence.
Qed.

(* Index returns the first occurrence: nothing before it *)
Lemma index_ch_sound : forall c s n, index (ch c) s = Some n ->
  s = take n s ++ String c (drop (S n) s) /\ contains (ch c) (take n s) = false.
Proof.
  intros c. induction s as [|x s IH]; intros n H; [discriminate|].
  unfold index in H; fold index in H. rewrite has_prefix_ch in H.
  destruct (Ascii.eqb c x) eqn:E.
  - inversion H; subst n. apply Ascii.eqb_eq in E. subst x. simpl. now rewrite ?drop_0.
  - destruct (index (ch c) s) as [k|] eqn:Ek; [|discriminate]. inversion H; subst n.
    destruct (IH k eq_refl) as [E1 E2]. split.
    + etransitivity; [apply (f_equal (String x)); exact E1 | reflexivity].
    + simpl take. now rewrite contains_ch_cons, E, E2.
Qed.

Lemma last_index_ch_app : forall c pre post, contains (ch c) post = false ->
  last_index (ch c) (pre ++ String c post) = Some (String.length pre).
Proof.
  intros c pre post H.
  assert (Hn : forall s, contains (ch c) s = false -> last_index (ch c) s = None).
  { induction s as [|x s IH]; intros Hs; [reflexivity|].
    rewrite contains_ch_cons in Hs. apply orb_false_iff in Hs. destruct Hs as [Hx Hs].
    unfold last_index; fold last_index. now rewrite (IH Hs), has_prefix_ch, Hx. }
  induction pre as [|x pre IH].
  - simpl append. unfold last_index; fold last_index. rewrite (Hn post H), has_prefix_ch, Ascii.eqb_refl. reflexivity.
  - change (String x pre ++ String c post) with (String x (pre ++ String c post)).
    unfold last_index; fold last_index. now rewrite IH.
Qed.

Lemma last_index_ch_none : forall c s, last_index (ch c) s = None <-> contains (ch c) s = false.
Proof.
  intros c. induction s as [|x s IH]; [simpl; tauto|].
  unfold last_index; fold last_index. rewrite has_prefix_ch, contains_ch_cons.
  destruct (last_index (ch c) s) as [k|].
  - assert (contains (ch c) s <> false) by (intros E; apply IH in E; discriminate).
    destruct (contains (ch c) s); [|congruence]. rewrite orb_true_r. split; discriminate.
  - assert (E : contains (ch c) s = false) by now apply IH.
    rewrite E, orb_false_r. destruct (Ascii.eqb c x); split; congruence.
Qed.

(* LastIndex returns the last occurrence: nothing after it *)
Lemma last_index_ch_sound : forall c s n, last_index (ch c) s = Some n ->
  s = take n s ++ String c (drop (S n) s) /\ contains (ch c) (drop (S n) s) = false.
Proof.
  intros c. induction s as [|x s IH]; intros n H; [discriminate|].
  unfold last_index in H; fold last_index in H.
  destruct (last_index (ch c) s) as [k|] eqn:Ek.
  - inversion H; subst n. destruct (IH k eq_refl) as [E1 E2]. split; [|exact E2].
    etransitivity; [apply (f_equal (String x)); exact E1 | reflexivity].
  - rewrite has_prefix_ch in H. destruct (Ascii.eqb c x) eqn:E; [|discriminate].
    inversion H; subst n. apply Ascii.eqb_eq in E. subst x. simpl. rewrite ?drop_0.
    split; [reflexivity | now apply last_index_ch_none].
Qed.

(* ---- index, general separator: first occurrence -------------------------- *)
Lemma index_sound : forall sep s n, index sep s = Some n ->
  s = take n s ++ sep ++ drop (n + String.length sep) s
  /\ forall m, m < n -> has_prefix sep (drop m s) = false.
Proof.
  intros sep. induction s as [|x s IH]; intros n H.
  - simpl in H. destruct (has_prefix sep "") eqn:E; [|discriminate]. inversion H; subst n.
    split; [|intros m Hm; lia]. apply has_prefix_split in E. exact E.
  - unfold index in H; fold index in H. destruct (has_prefix sep (String x s)) eqn:E.
    + inversion H; subst n. split; [|intros m Hm; lia]. now apply has_prefix_split in E.
    + destruct (index sep s) as [k|] eqn:Ek; [|discriminate]. inversion H; subst n.
      destruct (IH k eq_refl) as [E1 E2]. split.
      * etransitivity; [apply (f_equal (String x)); exact E1 | reflexivity].
      * intros [|m] Hm; [exact E | simpl; apply E2; lia].
Qed.

Lemma index_none : forall sep s, index sep s = None <-> contains sep s = false.
Proof.
  intros sep. induction s as [|x s IH].
  - simpl. rewrite orb_false_r. destruct (has_prefix sep ""); split; congruence.
  - unfold index; fold index. unfold contains; fold contains.
    destruct (has_prefix sep (String x s)); simpl; [split; discriminate|].
    rewrite <- IH. destruct (index sep s); simpl; split; congruence.
Qed.

(* ---- replace_all --------------------------------------------------------- *)
Lemma replace_from_no_occ : forall old new s, contains old s = false ->
  replace_from old new 0 s = s.
Proof.
  intros old new. induction s as [|x s IH]; intros H; [reflexivity|].
  unfold contains in H; fold contains in H. apply orb_false_iff in H. destruct H as [H1 H2].
  unfold replace_from; fold replace_from. rewrite H1. now rewrite (IH H2).
Qed.

(* ReplaceAll leaves a string without occurrence unchanged *)
Lemma replace_all_no_occ : forall old new s, contains old s = false -> replace_all old new s = s.
Proof.
  intros old new s H. destruct old as [|a old]; [reflexivity|].
  unfold replace_all. now apply replace_from_no_occ.
Qed.

Lemma replace_all_nil : forall old new, replace_all old new "" = "".
Proof. intros [|a old] new; reflexivity. Qed.

(* one-byte `old`: a bytewise map *)
Lemma replace_all_ch_cons : forall c new x s,
  replace_all (ch c) new (String x s) =
  (if Ascii.eqb c x then new else ch x) ++ replace_all (ch c) new s.
Proof.
  intros c new x s. unfold replace_all, ch. unfold replace_from; fold replace_from.
  simpl has_prefix. rewrite andb_true_r. simpl String.length. simpl Nat.sub.
  destruct (Ascii.eqb c x); reflexivity.
Qed.

(* two-byte `old` at the head *)
Lemma replace_all_2_hit : forall a b new s,
  replace_all (String a (ch b)) new (String a (String b s)) = new ++ replace_all (String a (ch b)) new s.
Proof.
  intros a b new s. unfold replace_all, ch. unfold replace_from; fold replace_from.
  simpl has_prefix. rewrite !Ascii.eqb_refl. simpl. reflexivity.
Qed.

Lemma replace_all_2_miss : forall a b new x s, Ascii.eqb a x = false ->
  replace_all (String a (ch b)) new (String x s) = String x (replace_all (String a (ch b)) new s).
Proof.
  intros a b new x s H. unfold replace_all, ch. unfold replace_from; fold replace_from.
  simpl has_prefix. rewrite H. reflexivity.
Qed.

(* the un-replace lemma behind the RBAC colon transcoding: encoding one byte
   c as the doubled byte u and decoding again is the identity on strings
   without u *)
Lemma replace_unreplace : forall c u s, Ascii.eqb u c = false ->
  contains (ch u) s = false ->
  replace_all (String u (ch u)) (ch c) (replace_all (ch c) (String u (ch u)) s) = s.
Proof.
  intros c u s Huc. induction s as [|x s IH]; intros H; [reflexivity|].
  rewrite contains_ch_cons in H. apply orb_false_iff in H. destruct H as [Hx Hs].
  rewrite replace_all_ch_cons. destruct (Ascii.eqb c x) eqn:E.
  - apply Ascii.eqb_eq in E. subst x.
    change (String u (ch u) ++ replace_all (ch c) (String u (ch u)) s)
      with (String u (String u (replace_all (ch c) (String u (ch u)) s))).
    rewrite replace_all_2_hit, (IH Hs). reflexivity.
  - change (ch x ++ replace_all (ch c) (String u (ch u)) s)
      with (String x (replace_all (ch c) (String u (ch u)) s)).
    rewrite (replace_all_2_miss u u (ch c) x _ Hx), (IH Hs). reflexivity.
Qed.

(* ---- split / join for a one-byte separator ------------------------------- *)
Lemma split_on_nonempty : forall c s, split_on c s <> [].
Proof.
  intros c. induction s as [|x s IH]; simpl; [discriminate|].
  destruct (Ascii.eqb x c); [discriminate|]. destruct (split_on c s); [congruence | discriminate].
Qed.

Lemma split_on_no_sep : forall c s, contains (ch c) s = false -> split_on c s = [s].
Proof.
  intros c. induction s as [|x s IH]; intros H; [reflexivity|].
  rewrite contains_ch_cons in H. apply orb_false_iff in H. destruct H as [Hx Hs].
  simpl. rewrite Ascii.eqb_sym, Hx, (IH Hs). reflexivity.
Qed.

Lemma split_on_app : forall c f rest, contains (ch c) f = false ->
  split_on c (f ++ String c rest) = f :: split_on c rest.
Proof.
  intros c. induction f as [|x f IH]; intros rest H.
  - simpl. now rewrite Ascii.eqb_refl.
  - rewrite contains_ch_cons in H. apply orb_false_iff in H. destruct H as [Hx Hf].
    change (String x f ++ String c rest) with (String x (f ++ String c rest)).
    simpl split_on. rewrite Ascii.eqb_sym, Hx, (IH rest Hf). reflexivity.
Qed.

(* Split undoes Join when no field contains the separator *)
Lemma split_on_join : forall c l, l <> [] ->
  Forall (fun f => contains (ch c) f = false) l ->
  split_on c (join (ch c) l) = l.
Proof.
  intros c. induction l as [|f l IH]; intros Hne HF; [congruence|].
  inversion HF as [|? ? Hf Hl]; subst.
  destruct l as [|g l].
  - simpl. now apply split_on_no_sep.
  - change (join (ch c) (f :: g :: l)) with (f ++ String c (join (ch c) (g :: l))).
    rewrite (split_on_app c f _ Hf). f_equal. apply IH; [discriminate | exact Hl].
Qed.

(* Join undoes Split, always *)
Lemma join_split_on : forall c s, join (ch c) (split_on c s) = s.
Proof.
  intros c. induction s as [|x s IH]; [reflexivity|].
  simpl split_on. destruct (Ascii.eqb x c) eqn:E.
  - apply Ascii.eqb_eq in E. subst x.
    destruct (split_on c s) as [|h t] eqn:Es; [now apply split_on_nonempty in Es|].
    change (join (ch c) ("" :: h :: t)) with (String c (join (ch c) (h :: t))). now rewrite IH.
  - destruct (split_on c s) as [|h t] eqn:Es; [now apply split_on_nonempty in Es|].
    destruct t as [|h2 t]; simpl in *; now rewrite <- IH.
Qed.

(* no field of a split contains the separator *)
Lemma split_on_fields : forall c s, Forall (fun f => contains (ch c) f = false) (split_on c s).
Proof.
  intros c. induction s as [|x s IH]; [repeat constructor|].
  simpl split_on. destruct (Ascii.eqb x c) eqn:E.
  - constructor; [reflexivity | exact IH].
  - destruct (split_on c s) as [|h t]; [repeat constructor; simpl; now rewrite Ascii.eqb_sym, E|].
    inversion IH; subst. constructor; [|assumption].
    now rewrite contains_ch_cons, Ascii.eqb_sym, E.
Qed.

Lemma split_ch : forall c s, split (ch c) s = split_on c s.
Proof. reflexivity. Qed.

(* ---- TrimSpace ------------------------------------------------------------ *)
Lemma trim_left_id : forall s, ws_len s = 0 -> trim_left s = s.
Proof. intros [|c r] H; [reflexivity|]. unfold trim_left. unfold trim_left_from; fold trim_left_from. now rewrite H. Qed.

Lemma trim_left_ascii_space : forall c r, is_ascii_space c = true ->
  trim_left (String c r) = trim_left r.
Proof.
  intros c r H. unfold trim_left. unfold trim_left_from at 1; fold trim_left_from.
  unfold ws_len. rewrite H. reflexivity.
Qed.

(* a string whose first byte cannot start a white-space rune is left alone *)
Definition ws_initial (c : ascii) : bool :=
  is_ascii_space c || existsb (fun p => match p with String a _ => Ascii.eqb a c | EmptyString => false end) ws_multi.

Lemma ws_len_initial : forall c r, ws_initial c = false -> ws_len (String c r) = 0.
Proof.
  intros c r H. unfold ws_initial in H. apply orb_false_iff in H. destruct H as [H1 H2].
  unfold ws_len. rewrite H1.
  unfold ws_multi in *. simpl in H2.
  repeat (apply orb_false_iff in H2; destruct H2 as [?E H2]).
  simpl. rewrite ?E, ?E0, ?E1, ?E2, ?E3, ?E4, ?E5, ?E6, ?E7, ?E8, ?E9, ?E10, ?E11, ?E12, ?E13, ?E14, ?E15, ?E16, ?E17.
  reflexivity.
Qed.

(* the last byte of a white-space rune *)
Fixpoint last_byte (s : string) : option ascii :=
  match s with
  | EmptyString => None
  | String c EmptyString => Some c
  | String _ r => last_byte r
  end.

Definition ws_final (c : ascii) : bool :=
  is_ascii_space c || existsb (fun p => match last_byte p with Some a => Ascii.eqb a c | None => false end) ws_multi.

Lemma last_byte_snoc : forall s c, last_byte (s ++ ch c) = Some c.
Proof.
  induction s as [|x s IH]; intros c; [reflexivity|].
  simpl. rewrite IH. destruct (s ++ ch c) eqn:E; [destruct s; discriminate | reflexivity].
Qed.

Lemma is_ws_rune_final : forall t c, is_ws_rune t = true -> last_byte t = Some c -> ws_final c = true.
Proof.
  intros t c H L. unfold ws_final. unfold is_ws_rune in H.
  assert (G : existsb (String.eqb t) ws_multi = true ->
              existsb (fun p => match last_byte p with Some a => Ascii.eqb a c | None => false end) ws_multi = true).
  { intros G. apply existsb_exists in G. destruct G as [p [Hin Hp]]. apply String.eqb_eq in Hp. subst p.
    apply existsb_exists. exists t. split; [exact Hin|]. rewrite L. apply Ascii.eqb_refl. }
  destruct t as [|a [|b t]].
  - discriminate.
  - simpl in L. inversion L; subst. now rewrite H.
  - rewrite (G H). apply orb_true_r.
Qed.

(* white-space runes contain neither '/' nor ',' (nor any byte below 9) *)
Lemma is_ws_rune_no_byte : forall c t, is_ascii_space c = false ->
  forallb (fun p => negb (contains (ch c) p)) ws_multi = true ->
  is_ws_rune t = true -> contains (ch c) t = false.
Proof.
  intros c t Hc Hall H. unfold is_ws_rune in H.
  assert (G : existsb (String.eqb t) ws_multi = true -> contains (ch c) t = false).
  { intros G. apply existsb_exists in G. destruct G as [p [Hin Hp]]. apply String.eqb_eq in Hp. subst p.
    rewrite forallb_forall in Hall. specialize (Hall t Hin). now apply negb_true_iff in Hall. }
  destruct t as [|a [|b t]]; [reflexivity | | now apply G].
  rewrite contains_ch_cons. simpl. rewrite orb_false_r.
  destruct (Ascii.eqb c a) eqn:E; [|reflexivity]. apply Ascii.eqb_eq in E. subst a. congruence.
Qed.

(* a string whose last byte cannot end a white-space rune is left alone *)
Lemma trim_right_final : forall s c, ws_final c = false -> trim_right (s ++ ch c) = s ++ ch c.
Proof.
  induction s as [|x s IH]; intros c H.
  - simpl. destruct (is_ascii_space c) eqn:E; [|reflexivity].
    unfold ws_final in H. now rewrite E in H.
  - change (String x s ++ ch c) with (String x (s ++ ch c)).
    unfold trim_right; fold trim_right. rewrite (IH c H).
    destruct (is_ws_rune (String x (s ++ ch c))) eqn:E; [|reflexivity].
    assert (L : last_byte (String x (s ++ ch c)) = Some c) by apply (last_byte_snoc (String x s) c).
    rewrite (is_ws_rune_final _ c E L) in H. discriminate.
Qed.

(* ASCII white space at the end is removed *)
Fixpoint all_ascii_space (s : string) : bool :=
  match s with EmptyString => true | String c r => is_ascii_space c && all_ascii_space r end.

Lemma trim_right_all_space : forall p, all_ascii_space p = true -> trim_right p = "".
Proof.
  induction p as [|c p IH]; intros H; [reflexivity|].
  simpl in H. apply andb_true_iff in H. destruct H as [Hc Hp].
  unfold trim_right; fold trim_right. rewrite (IH Hp). simpl. now rewrite Hc.
Qed.

Lemma trim_right_pad : forall s p, all_ascii_space p = true -> trim_right (s ++ p) = trim_right s.
Proof.
  induction s as [|x s IH]; intros p H.
  - simpl. now apply trim_right_all_space.
  - change (String x s ++ p) with (String x (s ++ p)).
    unfold trim_right; fold trim_right. now rewrite (IH p H).
Qed.

Lemma trim_left_pad : forall p s, all_ascii_space p = true -> trim_left (p ++ s) = trim_left s.
Proof.
  induction p as [|c p IH]; intros s H; [reflexivity|].
  simpl in H. apply andb_true_iff in H. destruct H as [Hc Hp].
  change (String c p ++ s) with (String c (p ++ s)).
  rewrite (trim_left_ascii_space c _ Hc). now apply IH.
Qed.

(* TrimSpace removes ASCII padding around a string whose first byte cannot
   start a white-space rune *)
Lemma trim_space_pad : forall p c r q, all_ascii_space p = true -> all_ascii_space q = true ->
  ws_initial c = false -> trim_space (p ++ String c r ++ q) = trim_right (String c r).
Proof.
  intros p c r q Hp Hq Hc. unfold trim_space.
  rewrite (trim_left_pad p _ Hp).
  change (String c r ++ q) with (String c (r ++ q)).
  rewrite (trim_left_id _ (ws_len_initial c (r ++ q) Hc)).
  change (String c (r ++ q)) with (String c r ++ q). now apply trim_right_pad.
Qed.

Lemma trim_space_clean : forall c r d, ws_initial c = false -> ws_final d = false ->
  trim_space (String c r ++ ch d) = String c r ++ ch d.
Proof.
  intros c r d Hc Hd. unfold trim_space.
  change (String c r ++ ch d) with (String c (r ++ ch d)).
  rewrite (trim_left_id _ (ws_len_initial c _ Hc)).
  change (String c (r ++ ch d)) with (String c r ++ ch d). now apply trim_right_final.
Qed.

(* ---- TrimSpace is idempotent ------------------------------------------------ *)
Lemma has_prefix_app_r : forall p s z, has_prefix p s = true -> has_prefix p (s ++ z) = true.
Proof.
  induction p as [|a p IH]; intros s z H; [reflexivity|].
  destruct s as [|b s]; [discriminate|]. simpl in *.
  apply andb_true_iff in H. destruct H as [H1 H2]. now rewrite H1, (IH s z H2).
Qed.

Lemma match_len_prefix : forall pats s z, Forall (fun p => p <> "") pats ->
  match_len pats (s ++ z) = 0 -> match_len pats s = 0.
Proof.
  induction pats as [|p pats IH]; intros s z F H; [reflexivity|].
  inversion F as [|? ? Hp F']; subst. simpl in *.
  destruct (has_prefix p s) eqn:E.
  - rewrite (has_prefix_app_r p s z E) in H. destruct p as [|a p']; [now elim Hp | simpl in H; discriminate H].
  - destruct (has_prefix p (s ++ z)); [destruct p as [|a p']; [now elim Hp | simpl in H; discriminate H]|]. now apply (IH s z).
Qed.

Lemma ws_multi_nonempty : Forall (fun p => p <> "") ws_multi.
Proof. unfold ws_multi. repeat constructor; discriminate. Qed.

(* no white-space rune at the head of a prefix of a string without one *)
Lemma ws_len_prefix : forall s z, ws_len (s ++ z) = 0 -> ws_len s = 0.
Proof.
  intros [|c r] z H; [reflexivity|].
  change (String c r ++ z) with (String c (r ++ z)) in H.
  unfold ws_len in *. destruct (is_ascii_space c) eqn:E.
  - exact H.
  - change (String c (r ++ z)) with (String c r ++ z) in H.
    now apply (match_len_prefix ws_multi (String c r) z ws_multi_nonempty).
Qed.

Lemma trim_left_from_ws_len : forall s k, ws_len (trim_left_from k s) = 0.
Proof.
  induction s as [|c r IH]; intros k; [reflexivity|].
  unfold trim_left_from; fold trim_left_from. destruct k as [|k]; [|apply IH].
  destruct (ws_len (String c r)) as [|j] eqn:E; [exact E | apply IH].
Qed.

Lemma trim_left_ws_len : forall s, ws_len (trim_left s) = 0.
Proof. intros s. apply trim_left_from_ws_len. Qed.

(* TrimRight removes a suffix *)
Lemma trim_right_prefix : forall s, exists z, s = trim_right s ++ z.
Proof.
  induction s as [|c r IH]; [exists ""; reflexivity|].
  destruct IH as [z Ez]. unfold trim_right; fold trim_right.
  destruct (is_ws_rune (String c (trim_right r))).
  - exists (String c r). reflexivity.
  - exists z. simpl. now rewrite <- Ez.
Qed.

Lemma trim_right_cons : forall c r,
  trim_right (String c r) = if is_ws_rune (String c (trim_right r)) then "" else String c (trim_right r).
Proof. reflexivity. Qed.

Lemma trim_right_idem : forall s, trim_right (trim_right s) = trim_right s.
Proof.
  induction s as [|c r IH]; [reflexivity|].
  rewrite trim_right_cons. destruct (is_ws_rune (String c (trim_right r))) eqn:E; [reflexivity|].
  rewrite trim_right_cons, IH, E. reflexivity.
Qed.

Lemma trim_space_idem : forall s, trim_space (trim_space s) = trim_space s.
Proof.
  intros s. unfold trim_space.
  destruct (trim_right_prefix (trim_left s)) as [z Ez].
  assert (W : ws_len (trim_right (trim_left s)) = 0).
  { apply (ws_len_prefix _ z). rewrite <- Ez. apply trim_left_ws_len. }
  rewrite (trim_left_id _ W). apply trim_right_idem.
Qed.

(* the result of TrimSpace neither starts nor ends with white space *)
Lemma trim_space_fixed_left : forall s, trim_space s = s -> trim_left s = s.
Proof.
  intros s H. apply trim_left_id. rewrite <- H. unfold trim_space.
  destruct (trim_right_prefix (trim_left s)) as [z Ez].
  apply (ws_len_prefix _ z). rewrite <- Ez. apply trim_left_ws_len.
Qed.
