(* Lemmas about Model/IdCodec.v: the inventory key codec and the ConfigMap
   wrapper. *)
From Coq Require Import List Bool Arith String Ascii Lia.
From CliUtils Require Import Base.Strings Proofs.StringsProofs Model.IdCodec.
Import ListNotations.
Local Open Scope string_scope.

Lemma oid_eqb_spec : forall a b, oid_eqb a b = true <-> a = b.
Proof.
  intros [a1 a2 a3 a4] [b1 b2 b3 b4]. unfold oid_eqb. simpl.
  rewrite !andb_true_iff, !String.eqb_eq. split.
  - intros [[[H1 H2] H3] H4]. now subst.
  - intros H. inversion H. auto.
Qed.

Lemma oid_eqb_refl : forall a, oid_eqb a a = true.
Proof. intros a. now apply oid_eqb_spec. Qed.

Lemma oid_eq_dec : forall a b : oid, {a = b} + {a <> b}.
Proof.
  intros a b. destruct (oid_eqb a b) eqn:E.
  - left. now apply oid_eqb_spec.
  - right. intros H. apply oid_eqb_spec in H. congruence.
Qed.

Lemma no_sep_spec : forall s, no_sep s = true <-> contains (ch "_") s = false.
Proof. intros s. unfold no_sep, field_separator. apply negb_true_iff. Qed.

(* no single byte u, no doubled uu *)
Lemma contains_double : forall u s, contains (ch u) s = false -> contains (String u (ch u)) s = false.
Proof.
  intros u. induction s as [|x s IH]; intros H; [reflexivity|].
  rewrite contains_ch_cons in H. apply orb_false_iff in H. destruct H as [Hx Hs].
  unfold contains; fold contains. rewrite (IH Hs). simpl has_prefix. now rewrite Hx.
Qed.

(* the stored name decodes to the name, for RBAC kinds and others alike *)
Lemma stored_name_decodes : forall i, contains (ch "_") (o_name i) = false ->
  replace_all colon_transcoded ":" (stored_name i) = o_name i.
Proof.
  intros i H. unfold stored_name, colon_transcoded.
  destruct (is_rbac (o_grp i) (o_knd i)).
  - apply (replace_unreplace ":"%char "_"%char); [reflexivity | exact H].
  - apply replace_all_no_occ. now apply (contains_double "_"%char).
Qed.

(* the three cuts of ParseObjMetadata on a key of the shape a_b_c_d *)
Lemma parse_id_shape : forall a b c d,
  contains (ch "_") a = false -> contains (ch "_") c = false -> contains (ch "_") d = false ->
  parse_id (a ++ "_" ++ b ++ "_" ++ c ++ "_" ++ d) =
  let name := replace_all colon_transcoded ":" b in
  if contains field_separator name then Err else Ok (mkOid a name c d).
Proof.
  intros a b c d Ha Hc Hd. unfold parse_id, field_separator.
  change (a ++ "_" ++ b ++ "_" ++ c ++ "_" ++ d) with (a ++ String "_" (b ++ "_" ++ c ++ "_" ++ d)).
  rewrite (index_ch_app "_"%char a _ Ha : index "_" _ = _).
  rewrite take_app_length, drop_S_app_length.
  assert (E1 : b ++ "_" ++ c ++ "_" ++ d = (b ++ "_" ++ c) ++ String "_" d).
  { now rewrite !sapp_assoc. }
  rewrite E1.
  rewrite (last_index_ch_app "_"%char (b ++ "_" ++ c) d Hd : last_index "_" _ = _).
  rewrite take_app_length, drop_S_app_length.
  change (b ++ "_" ++ c) with (b ++ String "_" c).
  rewrite (last_index_ch_app "_"%char b c Hc : last_index "_" _ = _).
  rewrite take_app_length, drop_S_app_length.
  reflexivity.
Qed.

(* round trip for identifiers without the separator in any field *)
Lemma parse_string_of_id : forall i, id_wf i = true -> parse_id (string_of_id i) = Ok i.
Proof.
  intros i H. unfold id_wf in H. rewrite !andb_true_iff, !no_sep_spec in H.
  destruct H as [[[Hns Hname] Hgrp] Hknd].
  unfold string_of_id, field_separator.
  rewrite (parse_id_shape (o_ns i) (stored_name i) (o_grp i) (o_knd i) Hns Hgrp Hknd).
  cbv zeta. rewrite (stored_name_decodes i Hname).
  unfold field_separator. change (String "_" "") with (ch "_"). rewrite Hname.
  now destruct i.
Qed.

Lemma storable_spec : forall i, storable i = true <-> parse_id (string_of_id i) = Ok i.
Proof.
  intros i. unfold storable. destruct (parse_id (string_of_id i)) as [j|].
  - rewrite oid_eqb_spec. split; congruence.
  - split; discriminate.
Qed.

Lemma wf_storable : forall i, id_wf i = true -> storable i = true.
Proof. intros i H. apply storable_spec. now apply parse_string_of_id. Qed.

(* whatever ParseObjMetadata returns has no separator in any field *)
Lemma parse_id_wf : forall s i, parse_id s = Ok i -> id_wf i = true.
Proof.
  intros s i H. unfold parse_id, field_separator in H.
  change (String "_" "") with (ch "_") in H.
  destruct (index (ch "_") s) as [i1|] eqn:E1; [|discriminate].
  destruct (last_index (ch "_") (drop (S i1) s)) as [i2|] eqn:E2; [|discriminate].
  destruct (last_index (ch "_") (take i2 (drop (S i1) s))) as [i3|] eqn:E3; [|discriminate].
  destruct (contains (ch "_") (replace_all colon_transcoded ":" (take i3 (take i2 (drop (S i1) s))))) eqn:E4; [discriminate|].
  inversion H; subst i. unfold id_wf. simpl.
  rewrite !andb_true_iff, !no_sep_spec. repeat split.
  - now apply index_ch_sound in E1.
  - exact E4.
  - now apply last_index_ch_sound in E3.
  - now apply last_index_ch_sound in E2.
Qed.

(* Store accepts exactly the identifiers without the separator *)
Lemma storable_iff_wf : forall i, storable i = true <-> id_wf i = true.
Proof.
  intros i. split; [|apply wf_storable].
  intros H. apply storable_spec in H. now apply parse_id_wf in H.
Qed.

Lemma storable_injective : forall i j, storable i = true -> storable j = true ->
  string_of_id i = string_of_id j -> i = j.
Proof.
  intros i j Hi Hj E. apply storable_spec in Hi. apply storable_spec in Hj.
  rewrite E in Hi. congruence.
Qed.

(* ---- the string map -------------------------------------------------------- *)
Lemma map_set_keys_in : forall k v m x, In x (map_keys (map_set k v m)) <-> x = k \/ In x (map_keys m).
Proof.
  intros k v. induction m as [|[k' v'] m IH]; intros x; simpl.
  - split; [intros [H|[]]; auto | intros [H|[]]; auto].
  - destruct (String.eqb k' k) eqn:E; simpl.
    + apply String.eqb_eq in E. subst k'. split; intros; intuition (subst; auto).
    + rewrite IH. tauto.
Qed.

Lemma map_set_keys_nodup : forall k v m, NoDup (map_keys m) -> NoDup (map_keys (map_set k v m)).
Proof.
  intros k v. induction m as [|[k' v'] m IH]; intros H; simpl.
  - constructor; [intros [] | constructor].
  - destruct (String.eqb k' k) eqn:E; simpl; [exact H|].
    inversion H as [|? ? Hn Hm]; subst. constructor; [|now apply IH].
    intros Hin. apply map_set_keys_in in Hin. destruct Hin as [Hin|Hin]; [|now apply Hn].
    apply String.eqb_neq in E. congruence.
Qed.

Section Fold.
  Variable val : oid -> string.
  Let step := fun (m : smap) (i : oid) => map_set (string_of_id i) (val i) m.

  Lemma fold_keys_in : forall ids m x,
    In x (map_keys (fold_left step ids m)) <-> In x (map_keys m) \/ In x (map string_of_id ids).
  Proof.
    induction ids as [|i ids IH]; intros m x; simpl; [tauto|].
    rewrite IH. unfold step. rewrite map_set_keys_in. split; intros H; intuition (subst; auto).
  Qed.

  Lemma fold_keys_nodup : forall ids m, NoDup (map_keys m) -> NoDup (map_keys (fold_left step ids m)).
  Proof.
    induction ids as [|i ids IH]; intros m H; simpl; [exact H|].
    apply IH. now apply map_set_keys_nodup.
  Qed.
End Fold.

(* reading a key list every key of which is the key of a storable id *)
Lemma parse_keys_storable : forall (ids : list oid) ks,
  (forall k, In k ks -> exists i, In i ids /\ k = string_of_id i /\ parse_id k = Ok i) ->
  NoDup ks ->
  exists l, parse_keys ks = Ok l
    /\ (forall i, In i l <-> exists k, In k ks /\ parse_id k = Ok i)
    /\ NoDup l /\ List.length l = List.length ks.
Proof.
  intros ids. induction ks as [|k ks IH]; intros H ND.
  - exists []. simpl. repeat split; try constructor; try tauto. intros [k [[] _]].
  - inversion ND as [|? ? Hk NDt]; subst.
    destruct (IH (fun k' Hin => H k' (or_intror Hin)) NDt) as [l [E [Hl [NDl Len]]]].
    destruct (H k (or_introl eq_refl)) as [i [Hi [Ek Pk]]].
    exists (i :: l). simpl. rewrite Pk, E. repeat split.
    + intros [Hj|Hj].
      * subst i0. exists k. auto.
      * apply Hl in Hj. destruct Hj as [k' [Hk' Pk']]. exists k'. auto.
    + intros [k' [[Hk'|Hk'] Pk']].
      * subst k'. left. congruence.
      * right. apply Hl. exists k'. auto.
    + constructor; [|exact NDl]. intros Hin. apply Hl in Hin.
      destruct Hin as [k' [Hk' Pk']].
      destruct (H k' (or_intror Hk')) as [j [_ [Ek' Pj]]].
      assert (j = i) by congruence. subst j. apply Hk. congruence.
    + now rewrite Len.
Qed.

Lemma parse_keys_of_storable_ids : forall (val : oid -> string) ids,
  forallb storable ids = true ->
  exists l, parse_keys (map_keys (fold_left (fun m i => map_set (string_of_id i) (val i) m) ids [])) = Ok l
    /\ (forall i, In i l <-> In i ids) /\ NoDup l
    /\ List.length l = List.length (map_keys (fold_left (fun m i => map_set (string_of_id i) (val i) m) ids [])).
Proof.
  intros val ids Hs. rewrite forallb_forall in Hs.
  set (m := fold_left (fun m i => map_set (string_of_id i) (val i) m) ids []).
  assert (Hk : forall k, In k (map_keys m) <-> In k (map string_of_id ids)).
  { intros k. unfold m. rewrite (fold_keys_in val ids [] k). simpl. tauto. }
  assert (ND : NoDup (map_keys m)) by (apply (fold_keys_nodup val ids []); constructor).
  destruct (parse_keys_storable ids (map_keys m)) as [l [E [Hl [NDl Len]]]].
  - intros k Hin. apply Hk in Hin. apply in_map_iff in Hin. destruct Hin as [i [Ei Hi]].
    exists i. repeat split; auto. subst k. apply storable_spec. now apply Hs.
  - exact ND.
  - exists l. repeat split; auto.
    + intros Hin. apply Hl in Hin. destruct Hin as [k [Hin Pk]].
      apply Hk in Hin. apply in_map_iff in Hin. destruct Hin as [j [Ej Hj]].
      subst k. assert (Pj : parse_id (string_of_id j) = Ok j) by (apply storable_spec; now apply Hs).
      congruence.
    + intros Hin. apply Hl. exists (string_of_id i). split.
      * apply Hk. now apply in_map.
      * apply storable_spec. now apply Hs.
Qed.

(* ---- ConfigMap.Store / GetObject / Load ------------------------------------- *)
Lemma cm_store_cases : forall c ids st,
  (cm_store c ids st = (c, true) /\ forallb storable ids = false)
  \/ (cm_store c ids st = (mkCm (cm_data c) ids st, false) /\ forallb storable ids = true).
Proof. intros c ids st. unfold cm_store. destruct (forallb storable ids); auto. Qed.

(* an accepted Store reads back as exactly the given set, one key per id *)
Lemma store_load : forall c ids st c',
  cm_store c ids st = (c', false) ->
  exists l, cm_load (wrap (cm_get_object c')) = Ok l
    /\ (forall i, In i l <-> In i ids) /\ NoDup l
    /\ (forall i j, In i ids -> In j ids -> string_of_id i = string_of_id j -> i = j).
Proof.
  intros c ids st c' H.
  destruct (cm_store_cases c ids st) as [[E _]|[E Hs]]; rewrite E in H; [discriminate|].
  inversion H; subst c'. unfold cm_load, wrap, cm_get_object, build_obj_map. simpl.
  destruct (parse_keys_of_storable_ids (status_value st) ids Hs) as [l [El [Hl [ND _]]]].
  exists l. repeat split; auto; try apply Hl.
  intros i j Hi Hj. rewrite forallb_forall in Hs. apply storable_injective; now apply Hs.
Qed.

(* a rejected Store changes nothing: what GetObject would write is what it
   would have written before *)
Lemma store_error_unchanged : forall c ids st c',
  cm_store c ids st = (c', true) -> c' = c /\ exists i, In i ids /\ storable i = false.
Proof.
  intros c ids st c' H.
  destruct (cm_store_cases c ids st) as [[E Hs]|[E _]]; rewrite E in H; [|discriminate].
  inversion H; subst c'. split; [reflexivity|].
  assert (G : forall l, forallb storable l = false -> exists i, In i l /\ storable i = false).
  { induction l as [|x l IH]; simpl; [discriminate|]. intros G. apply andb_false_iff in G.
    destruct G as [G|G]; [exists x; auto|]. destruct (IH G) as [i [Hi Si]]. exists i. auto. }
  now apply G.
Qed.

(* every id of an accepted Store parses back from its key *)
Lemma store_accepts_only_roundtripping : forall c ids st c',
  cm_store c ids st = (c', false) -> forall i, In i ids -> parse_id (string_of_id i) = Ok i.
Proof.
  intros c ids st c' H i Hi.
  destruct (cm_store_cases c ids st) as [[E _]|[E Hs]]; rewrite E in H; [discriminate|].
  rewrite forallb_forall in Hs. apply storable_spec. now apply Hs.
Qed.

(* Store accepts every set of separator-free identifiers *)
Lemma store_accepts_wf : forall c ids st,
  forallb id_wf ids = true -> cm_store c ids st = (mkCm (cm_data c) ids st, false).
Proof.
  intros c ids st H. unfold cm_store.
  assert (E : forallb storable ids = true).
  { rewrite forallb_forall in *. intros i Hi. apply wf_storable. now apply H. }
  now rewrite E.
Qed.

(* ToStringMap / FromStringMap (no validation): round trip for separator-free ids *)
Lemma string_map_roundtrip : forall ids, forallb id_wf ids = true ->
  exists l, from_string_map (to_string_map ids) = Ok l /\ (forall i, In i l <-> In i ids) /\ NoDup l.
Proof.
  intros ids H. unfold from_string_map, to_string_map.
  assert (E : forallb storable ids = true).
  { rewrite forallb_forall in *. intros i Hi. apply wf_storable. now apply H. }
  destruct (parse_keys_of_storable_ids (fun _ => "") ids E) as [l [El [Hl [ND _]]]].
  exists l. auto.
Qed.

(* Load of an absent data section is the empty inventory; any unparsable key
   makes the whole Load an error (never a partial or misread set) *)
Lemma parse_keys_err : forall ks k, In k ks -> parse_id k = Err -> parse_keys ks = Err.
Proof.
  induction ks as [|x ks IH]; intros k H E; [destruct H|].
  destruct H as [H|H]; simpl.
  - subst x. now rewrite E.
  - destruct (parse_id x); [|reflexivity]. now rewrite (IH k H E).
Qed.

Lemma parse_keys_ok_all : forall ks l, parse_keys ks = Ok l ->
  Forall2 (fun k i => parse_id k = Ok i) ks l.
Proof.
  induction ks as [|k ks IH]; intros l H; simpl in H.
  - inversion H. constructor.
  - destruct (parse_id k) as [i|] eqn:E; [|discriminate].
    destruct (parse_keys ks) as [l'|] eqn:E'; [|discriminate].
    inversion H; subst l. constructor; [exact E | now apply IH].
Qed.

(* ---- the stored key of an RBAC identifier carries no ':' ------------------------
   (the reason for the transcoding: ':' is not allowed in a ConfigMap key) *)
Lemma replace_all_ch_removes : forall c new s, contains (ch c) new = false ->
  contains (ch c) (replace_all (ch c) new s) = false.
Proof.
  intros c new s Hn. induction s as [|x s IH]; [now rewrite replace_all_nil|].
  rewrite replace_all_ch_cons, contains_ch_app, IH, orb_false_r.
  destruct (Ascii.eqb c x) eqn:E; [exact Hn|].
  unfold ch at 2. rewrite contains_ch_cons, E. reflexivity.
Qed.

Lemma is_rbac_no_colon : forall g k, is_rbac g k = true ->
  contains ":" g = false /\ contains ":" k = false.
Proof.
  intros g k H. unfold is_rbac in H. apply andb_true_iff in H. destruct H as [Hg Hk].
  apply String.eqb_eq in Hg. subst g. split; [reflexivity|].
  rewrite !orb_true_iff, !String.eqb_eq in Hk.
  destruct Hk as [[[Hk|Hk]|Hk]|Hk]; subst k; reflexivity.
Qed.

Lemma rbac_key_no_colon : forall i, is_rbac (o_grp i) (o_knd i) = true ->
  contains ":" (o_ns i) = false -> contains ":" (string_of_id i) = false.
Proof.
  intros i R Hns. destruct (is_rbac_no_colon _ _ R) as [Hg Hk].
  unfold string_of_id, stored_name, field_separator, colon_transcoded. rewrite R.
  change ":" with (ch ":"%char) in *.
  rewrite !contains_ch_app, Hns, Hg, Hk.
  rewrite (replace_all_ch_removes ":"%char "__" (o_name i) eq_refl). reflexivity.
Qed.
